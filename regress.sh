#!/bin/bash
# regress.sh [tier] [ids...]: run every registered check (or the given ones) against /repo, print one line each,
# and stage its evidence file. Development aid; the registered commands are in MANIFEST.json.
cd /verif; tier=${1:-quick}; shift
ids=${@:-$(python3 -c "import json; print(' '.join(sorted(c['property_id'] for c in json.load(open('MANIFEST.json'))['checks'])))")}
for id in $ids; do
  s=$(date +%s); out=$(VERIF_SEED=${VERIF_SEED:-0} timeout 3600 ./check $id --tier $tier 2>&1); rc=$?
  echo "$id rc=$rc $(( $(date +%s) - s ))s $(echo "$out" | grep -c '^VIOLATION') violations, $(echo "$out" | grep -c '^KNOWN-FINDING') known | $(echo "$out" | tail -1 | cut -c1-160)"
  [ $rc -eq 0 ] && git add -f evidence/$id.json
done
