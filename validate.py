#!/opt/veriftools/pyvenv/bin/python3
"""Validate MANIFEST.json and every evidence file against the given schemas."""
import json, glob, sys, jsonschema
ok = True
def v(doc, schema, name):
    global ok
    try:
        jsonschema.validate(json.load(open(doc)), json.load(open(schema)))
        print("valid  ", name)
    except Exception as e:
        ok = False
        print("INVALID", name, str(e)[:400])
v("/verif/MANIFEST.json", "/root/.vp/MANIFEST.schema.json", "MANIFEST.json")
for f in sorted(glob.glob("/verif/evidence/*.json")):
    v(f, "/root/.vp/EVIDENCE.schema.json", f)
m = json.load(open("/verif/MANIFEST.json"))
ids = {json.loads(l)["id"] for l in open("/verif/properties.jsonl")}
claimed = {c["property_id"] for c in m["checks"]}
na = {c["property_id"] for c in m.get("not_applicable", [])}
if claimed | na != ids or claimed & na:
    ok = False
    print("INVALID coverage of property ids", sorted(ids - claimed - na), sorted(claimed & na))
sys.exit(0 if ok else 1)
