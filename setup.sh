#!/bin/sh
# Run once after a fresh restore (offline). Nothing is downloaded; the checks build what they
# need from /repo's working tree at run time. This only verifies the toolchain.
set -e
cd "$(dirname "$0")"
command -v java >/dev/null && test -f /opt/veriftools/tla/tla2tools.jar
command -v cc >/dev/null && command -v python3 >/dev/null && command -v make >/dev/null
python3 -c "import json,sys; json.load(open('MANIFEST.json')); json.load(open('known_findings.json'))"
mkdir -p evidence
echo setup ok
