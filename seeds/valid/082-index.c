int f(int *p) { return p[1] + 2[p]; }
