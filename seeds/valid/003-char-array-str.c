char s[] = "ab";
