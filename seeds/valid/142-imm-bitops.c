long f(long a) { return a & 0xffffffff00000000 | 0x8000000000000000 ^ 4294967295; }
