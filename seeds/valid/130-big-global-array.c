char a[1 << 20]; int f(void) { return a[(1 << 20) - 1]; }
