struct { int a : 3; int : 0; int b : 5; } s;
