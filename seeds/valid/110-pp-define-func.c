#define F(a, b) a + b
int x = F(1, 2);
