_Bool b = 1;
