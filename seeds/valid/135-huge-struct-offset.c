struct S { char pad[3000000000]; int x; } *p; int f(void) { return p->x; }
