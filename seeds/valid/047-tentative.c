int x; int x = 1;
