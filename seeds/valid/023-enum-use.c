enum { A = 1 }; int x = A;
