struct S { int a; }; struct S s;
