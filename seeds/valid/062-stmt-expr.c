int f(void) { return ({ int x = 1; x; }); }
