char *a[3];
