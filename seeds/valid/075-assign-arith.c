int f(int a) { a += 1; a -= 2; a *= 3; return a; }
