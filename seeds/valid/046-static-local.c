int f(void) { static int n; return n++; }
