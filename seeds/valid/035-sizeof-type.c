int x = sizeof(int);
