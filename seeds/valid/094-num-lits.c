long f(void) { return 0x1f + 017 + 0b11 + 10UL; }
