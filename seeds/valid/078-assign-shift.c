int f(int a) { a <<= 1; a >>= 2; return a; }
