int f(void) { struct { int a; } s = { 1 }; return s.a; }
