int f(int a) { switch (a) { case 1 ... 3: return 2; } return 0; }
