char *a = u8"x"; unsigned short *b = u"y"; unsigned *c = U"z";
