int f(int a) { goto L; L: return a; }
