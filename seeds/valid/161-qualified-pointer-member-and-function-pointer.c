struct S { int * const _Atomic volatile m; };
int (* _Atomic fp)(void);
