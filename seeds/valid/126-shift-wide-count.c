long f(long v) { return v << (1L << 40); }
