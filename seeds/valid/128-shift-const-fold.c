int x = 1 << 40; long y = 1L >> 64;
