int f(int a) { return _Generic(a, int: 1, default: 2); }
