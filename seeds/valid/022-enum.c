enum E { A, B = 3, C } e;
