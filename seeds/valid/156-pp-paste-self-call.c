#define cadd(a) c##add(a)
int (cadd)(int); int x = sizeof cadd(1);
