int f(long a) { switch (a) { case 1L << 40: return 1; case -5000000000: return 2; } return 0; }
