#line 10 "a.c"
int x = __LINE__;
