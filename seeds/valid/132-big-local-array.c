int f(void) { char a[100000]; a[99999] = 1; return a[99999]; }
