void f(void) { ; }
