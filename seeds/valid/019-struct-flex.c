struct S { int n; char d[]; };
