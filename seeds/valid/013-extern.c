extern int x; int y;
