struct { int a, b; } s = { .b = 1 };
