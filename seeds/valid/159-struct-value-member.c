struct S { char c; } a, b;
int f(int x) { return (x, a).c + (a = b).c; }
