int a, *b, c[2];
