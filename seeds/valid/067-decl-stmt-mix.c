int f(int a) { int b = a; b += 1; int c = b; return c; }
