struct { union { int a; char b; }; } s;
