int f(int a) { switch (a) { case 1: return 2; default: break; } }
