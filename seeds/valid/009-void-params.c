void f(void) {}
