#define GLUE(a,b) a##b
#define counter GLUE(coun, ter)
int counter;
