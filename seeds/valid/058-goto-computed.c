int f(void) { void *p = &&L; goto *p; L: return 1; }
