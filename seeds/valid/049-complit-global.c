int *p = (int[]){ 1, 2 };
