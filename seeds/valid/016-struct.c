struct S { int a; char b; } s;
