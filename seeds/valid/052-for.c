int f(int a) { for (int i = 0; i < a; i++) a--; }
