int (*p)[3];
