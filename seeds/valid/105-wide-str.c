int *w = L"ab";
