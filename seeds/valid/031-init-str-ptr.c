char *s = "hi";
