_Atomic int x;
