int f(int v) { v <<= 1000; v >>= 70000; return v; }
