void *f(int n) { return alloca(n); }
