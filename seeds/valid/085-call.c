int g(int); int f(int a) { return g(a); }
