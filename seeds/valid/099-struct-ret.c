struct S { int a; }; struct S f(struct S s) { return s; }
