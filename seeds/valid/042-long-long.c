unsigned long long x = 5;
