double d = 1e999; float f = 1e-999; double g(void) { return 1e308 * 10; }
