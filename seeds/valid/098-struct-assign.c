struct S { int a; } x, y; void f(void) { x = y; }
