int f(void) { char a[1 << 30]; a[0] = 1; return a[0]; }
