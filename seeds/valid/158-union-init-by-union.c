union U { char s[4]; int i; } b;
void f(void) { union U c = b; }
