#ifndef G
#define G
#include __FILE__
int x;
#endif
