long f(long v) { return v >> 320; }
