_Noreturn void f(void);
