long f(long a) { return a / 18446744073709551615u + a % 2147483648; }
