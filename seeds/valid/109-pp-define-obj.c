#define N 3
int x = N;
