char *s = "a" "b";
