const volatile int x = 1;
