int f(int (*g)(int)) { return (*g)(2); }
