#if 0
#error no
#endif
int x;
