#define V(a, ...) a __VA_OPT__(+ 1)
int x = V(1, 2);
