int x = _Alignof(long);
