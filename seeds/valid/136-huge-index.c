int a[4]; int f(void) { return a[-1] + a[1000000000] + a[3000000000]; }
