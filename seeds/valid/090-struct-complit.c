struct S { int a; }; int f(void) { return (struct S){ 1 }.a; }
