int f() { return 0; }
