typedef int (*F)(int); F f;
