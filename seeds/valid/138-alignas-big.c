_Alignas(65536) char a; int f(void) { _Alignas(64) char b = 1; return b; }
