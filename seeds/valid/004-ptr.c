int *p;
