struct S { char c; } a, b;
int f(int x) { return (x ? a : b).c; }
