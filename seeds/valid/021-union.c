union U { int a; float f; } u;
