#ifdef X
int x;
#elif defined(Y)
int y;
#endif
int z;
