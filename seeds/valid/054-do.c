int f(int a) { do a--; while (a); return a; }
