char *f(char *p) { return p + 0x7fffffffffff - 4294967296; }
