long double x = 1.0L;
