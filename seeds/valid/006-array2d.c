int a[2][3];
