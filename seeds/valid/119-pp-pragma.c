#pragma once
#pragma pack
int x;
