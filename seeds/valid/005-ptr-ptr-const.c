const char **p;
