void *f(void) { return alloca(1L << 33); }
