void f(int a) { for (;;) { if (a) break; continue; } }
