double f(double a) { return a * 1.5 + 2e3; }
