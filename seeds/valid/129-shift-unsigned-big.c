unsigned f(unsigned v) { return v >> 4294967295u; }
