_Alignas(16) int x;
