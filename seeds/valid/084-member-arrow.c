struct S { int a; } *p; int f(void) { return p->a; }
