int f(int a) { int *p = &a; return *p; }
