int x = __COUNTER__; char *f = __FILE__;
