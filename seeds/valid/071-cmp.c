int f(int a, int b) { return a < b == b >= a != 1; }
