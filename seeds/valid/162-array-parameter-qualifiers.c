int f(int a[const], int b[static const 3], int c[restrict static 3]) { return a[0] + b[2] + c[2]; }
