#define P(a, b) a##b
int P(y, 1);
