float f = 1.5f; double d = 2.0;
