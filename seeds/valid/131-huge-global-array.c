char a[1L << 32]; char *p = &a[(1L << 32) - 1];
