int f(void) { return 'a' + '\n' + L'x'; }
