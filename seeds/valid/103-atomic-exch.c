int f(int *p) { return __builtin_atomic_exchange(p, 1); }
