enum { A = 1L << 40, B = -5000000000 }; long x = A;
