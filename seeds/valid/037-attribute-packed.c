struct __attribute__((packed)) S { char a; int b; };
