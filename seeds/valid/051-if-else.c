int f(int a) { if (a) return 1; else return 2; }
