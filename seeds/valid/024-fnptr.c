int (*fp)(int, int);
