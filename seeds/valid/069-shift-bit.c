int f(int a, int b) { return a << 2 | b >> 1 & 3 ^ a; }
