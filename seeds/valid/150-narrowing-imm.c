unsigned char f(void) { return 0x12345678; }
