int f(long a) { return (int)a + (char)a; }
