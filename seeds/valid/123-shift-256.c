int f(int v) { return v << 256; }
