#define S(a) #a
char *s = S(x y);
