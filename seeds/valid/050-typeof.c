int x; typeof(x) y;
