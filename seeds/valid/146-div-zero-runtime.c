int f(int x) { return x / 0 + x % 0; }
