int f(int v) { return v << -129; }
