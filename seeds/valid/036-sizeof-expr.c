int a[3]; int x = sizeof a;
