int f(double a, float b) { return a < b; }
