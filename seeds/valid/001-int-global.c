int x;
