int f(int a, int b) { return a + b * 2 - a / 3 % 2; }
