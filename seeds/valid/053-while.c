int f(int a) { while (a) a--; return a; }
