char a[(1L << 33) >> 30]; int n = sizeof a;
