#define V(...) __VA_ARGS__
int V(x, y);
