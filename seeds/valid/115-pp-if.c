#if 1 + 1 == 2
int x;
#else
int y;
#endif
