int f(int a) { return sizeof(a) + sizeof a; }
