int f(void) { return "abc"[1]; }
