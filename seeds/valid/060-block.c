void f(void) { { int x; x = 1; } }
