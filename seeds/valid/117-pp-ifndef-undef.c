#define X
#undef X
#ifndef X
int x;
#endif
