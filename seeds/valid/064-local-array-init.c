int f(void) { int a[2] = { 1, 2 }; return a[1]; }
