int x = 3;
