int f(int *p, int *q) { return q - p + *(p + 1); }
