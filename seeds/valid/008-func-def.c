int f(int a) { return a; }
