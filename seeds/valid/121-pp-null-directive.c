#
int x;
