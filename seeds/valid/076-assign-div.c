int f(int a) { a /= 2; a %= 2; return a; }
