static inline int f(void) { return 1; } int g(void) { return f(); }
