_Thread_local int x;
