int x = __builtin_types_compatible_p(int, long);
