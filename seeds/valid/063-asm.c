void f(void) { asm("nop"); }
