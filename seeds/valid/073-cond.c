int f(int a, int b) { return a ? b : 3; }
