int f(int *p, int *o) { return __builtin_compare_and_swap(p, o, 1); }
