int f(void) { return (int){ 3 }; }
