int f(int a) { return a + 2147483647 - a * 65536 / 1000000007; }
