long f(long a) { return a + 0x7fffffffffffffff - a * 4294967296; }
