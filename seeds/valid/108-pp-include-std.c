#include <stdarg.h>
va_list ap;
