typedef int T; T x;
