int f(unsigned long a) { return a > 0xfffffffffffffffe; }
