struct S { char pad[100000]; int x; } s; int f(struct S *p) { return p->x + s.x; }
