int f(int a, char b);
