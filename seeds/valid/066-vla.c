int f(int n) { int a[n]; return sizeof a; }
