int x; int *p = &x;
