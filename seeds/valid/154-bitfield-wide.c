struct { long a : 63; unsigned b : 31; } s; long f(void) { return s.a + s.b; }
