int * _Atomic p;
void f(void) { p += 1; p++; }
