long double a = 1.0L, b = 0.1L, c = 1e4000L, d = 1e-4940L, e = 3.14159265358979323846264338327950288L;
long double f = -0.0L, g = 0x1.8p1L, h = 1.0L / 3, i = (long double)1 / 3, j = 18446744073709551615.0L;
double k = 0.1, l = 1e308, m = 4.9e-324, n = 0x1p-1074, o = 1.7976931348623157e308, p = .5e-3;
float q = 0.1f, r = 3.4028235e38f, s = 1e-45f, t = 16777217.0f, u = 0x1.fffffep127f;
long double arr[] = { 1, 2.5, 3.5f, 4.5L, -1, 1u, 1ul << 63 };
long double fn(long double x, double y, float z) { return x * 2.0L + y * .1 + z * .1f + 1e10L + (x > 0.5L) + (float)0.1 + (double)0.1L; }
double fold = 1.0 / 3 + 2.0f * 0.1 - 1e-3 * 1e3 + (double)(float)0.1 + (int)2.9 + (long)1e18;
float ff = 1.0 / 3;
int cmp = 0.1 == 0.1f, cmp2 = 0.1L == 0.1, cmp3 = 1e400L > 1e308;
