static_assert_free; int static_assert_free;
int restrict_ok(int *restrict a, int *__restrict b, int *__restrict__ c) { return *a + *b + *c; }
inline static int il(void) { return 1; } static inline int il2(void) { return il(); } inline int il3(void) { return il2(); }
volatile int vi; const int ci = 3; register_free; signed s1; unsigned u1; long long ll1; long long int ll2; unsigned long long ull1; long unsigned int lui; short int si; int short is; long int long lil; char unsigned cu; _Bool bl;
int register_use(register int r) { register int q = r; auto int a = q; return a; }
struct __attribute__((packed)) AP { char c; int i; } ap;
int asm_use(int x) { asm("nop"); asm volatile ("nop"); asm inline volatile (""); return x; }
int extension(void) { return 1 + _Alignof(int) + (int)(long)&((struct AP *)0)->i; }
long sizes[] = { sizeof(char), sizeof(short), sizeof(int), sizeof(long), sizeof(long long), sizeof(float), sizeof(double), sizeof(long double), sizeof(void *), sizeof(_Bool), sizeof(enum { Q }), sizeof(int[3][4]), sizeof(void), sizeof(sizes) / sizeof *sizes == 14 };
char *func_names(void) { return __func__; } char *fn2(void) { return __FUNCTION__; }
int digraph_free(void) { int a[2] = { 1, 2 }; return a[0]; }
