struct S { int a; int b[3]; struct { int c; } in; } s, t, *ps = &s;
int g; int *gp = &g; int arr[4];
int f(int x, int y) {
  (x, y) = 3; (x ? s : t).a = 4; (s = t).a; (x ? arr : s.b)[1] = 5; *(x ? &x : &y) = 6; (*ps).in.c = ps->b[2] = 7;
  int z = (x++, y++, x + y); z += (x = y, y = x + 1); z += x ? (y, x) : (x, y); z += (s, t).b[1]; z += (&s)->a + (&*ps)->a + (*&s).a + (&s.b[1])[1] + 1[s.b] + (s.b + 1)[-1];
  z += sizeof(x, y) + sizeof(x ? 1 : 2.0) + sizeof(s, t) + _Alignof(x ? s : t);
  (void)x, (void)(y, z); ++*gp; (*gp)++; *gp++; gp = &g; --(*ps).a; -- * & x; (x) = (y) = (z); ((x)) += ((1)); z += (int){ 1 } + (int[]){ 1, 2 }[1] + ((struct S){ .a = 2 }).a + (&(struct S){ 3 })->a;
  return z;
}
