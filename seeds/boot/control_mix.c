int f(int n) {
  int s = 0, i, j;
  for (i = 0, j = n; i < j; i++, j--) { if (i == 3) continue; if (j == 2) break; s += i * j; }
  for (;;) { if (s++ > 10) break; }
  for (int k = 0, *p = &s; k < 3; k++) *p += k;
  while (n-- > 0) { do { s ^= n; if (s & 1) continue; s++; } while (s < 0); if (s > 1000) goto out; }
  do s--; while (0);
  if (s) if (n) s = 1; else s = 2; else if (!n) s = 3;
  switch (s) { case 1: for (;;) { switch (n) { case 0: break; default: continue; } break; } case 2: s = n ? s : -s, s++; }
  { int s2 = s; { int s = s2 + 1; s2 = s; } s = s2; }
  s = n ? s ? 1 : 2 : n < 0 ? 3 : 4;
  s += (n && s++) || (s-- , n) ;
  s += n > 0 && n < 10 || n == 20 && !s;
out:
  return s, n, s + n;
}
int rec(int n) { return n < 2 ? n : rec(n - 1) + rec(n - 2); }
int nested(int a) { int r = 0; for (int i = 0; i < a; i++) for (int j = i; j < a; j++) { if ((i ^ j) & 1) goto next; r += i + j; next: ; } return r; }
