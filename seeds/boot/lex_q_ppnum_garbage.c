int x = 1_2 + 0b12 + 08 + 1e + 0x1p + 1.2.3 + 1ull0 + 123abc;
