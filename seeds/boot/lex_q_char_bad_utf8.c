int c = 'ÿ';
int d = L'Ã';
