struct I1 { int a; }; struct I2 { int a, b; }; struct I3 { int a, b, c; }; struct I4 { int a, b, c, d; }; struct I5 { int a, b, c, d, e; };
struct F1 { float a; }; struct F2 { float a, b; }; struct F3 { float a, b, c; }; struct D2 { double a, b; }; struct DI { double a; int b; }; struct ID { int a; double b; };
struct FI { float a; int b; }; struct CF { char c; float f; }; struct LD { long double l; }; struct C3 { char c[3]; }; struct C9 { char c[9]; }; struct N { struct F2 f; struct I1 i; };
union U { float f; int i; }; union UD { double d; long l; char c[16]; }; struct E {};
struct I1 i1(struct I1 x) { x.a++; return x; } struct I2 i2(struct I2 x) { x.b++; return x; } struct I3 i3(struct I3 x) { x.c++; return x; }
struct I4 i4(struct I4 x) { x.d++; return x; } struct I5 i5(struct I5 x) { x.e++; return x; } struct F1 f1(struct F1 x) { return x; } struct F2 f2(struct F2 x) { return x; }
struct F3 f3(struct F3 x) { return x; } struct D2 d2(struct D2 x) { return x; } struct DI di(struct DI x) { return x; } struct ID idf(struct ID x) { return x; }
struct FI fi(struct FI x) { return x; } struct CF cf(struct CF x) { return x; } struct LD ld(struct LD x) { return x; } struct C3 c3(struct C3 x) { return x; }
struct C9 c9(struct C9 x) { return x; } struct N nn(struct N x) { return x; } union U uu(union U x) { return x; } union UD ud(union UD x) { return x; }
double many(struct I2 a, struct F2 b, struct D2 c, struct DI d, int e, double f, struct I3 g, struct ID h, struct I5 i, long j, long k, long l, long m, struct I1 n, float o, struct F3 p) {
  return a.a + b.b + c.a + d.b + e + f + g.c + h.b + i.e + j + k + l + m + n.a + o + p.c;
}
int main(void) {
  struct I2 a = { 1, 2 }; struct F2 b = { 1, 2 }; struct D2 c = { 1, 2 }; struct DI d = { 1, 2 }; struct I3 g = { 1, 2, 3 }; struct ID h = { 1, 2 }; struct I5 i = { 1, 2, 3, 4, 5 }; struct I1 n = { 1 }; struct F3 p = { 1, 2, 3 };
  return (int)many(i2(a), f2(b), d2(c), di(d), 5, 6.0, i3(g), idf(h), i5(i), 1, 2, 3, 4, i1(n), 1.5f, f3(p));
}
