unsigned short w[] = u"â‚";
