int w[] = L"Ã(ÿ";
