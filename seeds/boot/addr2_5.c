int a[4], b[4];
int f(void) { static long k = (long)&a[1] + (long)&b[2] + 4; static long m = (long)b - (long)a; return (int)(k + m); }
