/* address constants in static initializers, an address in every operand position */
int a[4], b[4];
struct S { int x; long y; char z[5]; } s, t[3];
long p5 = (long)a + 4;
long p7 = (long)&b[3] - 4;
int *q0 = a + 1;
int *q1 = 2 + b;
int *q2 = &a[3] - 2;
char *c0 = t[1].z + 2;
char *c1 = (char *)&t[1] + sizeof(struct S);
int main(void) { return (int)p5; }
