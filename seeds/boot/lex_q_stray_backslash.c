int x = 1 \ + 2;
