int x;  
