struct B { int a : 3; unsigned b : 5; int : 0; long c : 33; _Bool d : 1; char e : 7; unsigned f : 1; };
struct C { unsigned x : 12, y : 12, z : 8; };
struct D { char c; int i : 20; short s : 9; };
struct B gb = { -2, 30, 1L << 31, 1, -3, 1 };
struct C gc = { 0xfff, 1, 0x80 };
struct C id(struct C c) { c.y++; c.z += c.x; return c; }
struct B mk(int a, long c) { struct B b = { a, a + 1, c, a & 1, a - 9 }; return b; }
int use(struct B b, struct D d) { return b.a + b.b + (int)b.c + b.d + b.e + d.i + d.s; }
int main(void) {
  struct C c = id(gc);
  struct B b = mk(3, -1);
  struct D d = { 'x', -70000, -200 };
  b.a += 5; b.c <<= 3; b.e = b.b = b.a; c.x ^= c.y; d.i++; --d.s;
  return use(b, d) + c.x + (gb.c > 0);
}
