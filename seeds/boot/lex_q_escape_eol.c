char s[] = "abc\
def\
";
int c = '\
';
