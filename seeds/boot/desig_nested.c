struct P { int x, y; };
struct Q { struct P p[3]; int a[4]; union { int i; char c[4]; struct P pp; } u; };
struct Q q1 = { .p[1].y = 5, .p[2] = { 7, 8 }, .a = { [2] = 9, 10 }, .u.c = { [1] = 'x' } };
struct Q q2 = { { { 1, 2 }, { 3 } }, { 4, 5 }, { .pp = { .y = 6 } } };
struct Q qa[3] = { [2].a[1] = 1, [0].p[0].x = 2, [1] = { .u.i = 3 } };
int m[3][3] = { [1] = { 1, 2, 3 }, [0][2] = 4, [2][0] = 5, 6 };
int r[10] = { [2 ... 5] = 7, [8] = 1 };
char str[3][4] = { "ab", [2] = "cd" };
int f(int k) {
  struct Q l = { .p[1].x = k, .a[3] = k + 1, .u = { .c[2] = 'q' } };
  int v[6] = { [1 ... 3] = k, [5] = 2 };
  struct P pa[] = { [3] = { k, k }, [1].y = 4 };
  return l.p[1].x + v[2] + pa[3].x + sizeof pa;
}
