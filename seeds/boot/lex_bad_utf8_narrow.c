/* invalid UTF-8 sequences in narrow strings */
char b0[] = "€¿";
char b1[] = "Ã";
char b2[] = "Ã(";
char b3[] = "â‚";
char b4[] = "ðŸ˜";
char b5[] = "À€Á¿";
char b6[] = "õ€€€øˆ€€€";
char b7[] = "í €í¿¿";
char b8[] = "ÿþý";
