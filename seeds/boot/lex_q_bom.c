﻿int x;
﻿int y;
