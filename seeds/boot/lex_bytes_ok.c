/* non-ASCII / control bytes where the lexer accepts them */
char s0[] = "Ã©ã‚ğŸ˜€";
char s1[] = "";
int c0 = 'Ã©', c1 = 'ã‚', c2 = L'ã‚', c3 = '', c4 = '';
// comment Ã© ÿş €  
/* comment Ã© ÿş €   */
int Ã©tÃ© = 1, å¤‰æ•° = 2, aÏ€ = 3, _ğŸ˜€ = 4;
int use(void) { return Ã©tÃ© + å¤‰æ•° + aÏ€ + _ğŸ˜€; }
#define MÃ©(x) #x
char *m = MÃ©(Ã© â‚¬ "qÃ©");
int tabs	=	1;int ff = 2;int vt = 3;
