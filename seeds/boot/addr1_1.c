/* pointer difference as an address constant */
int a[4];
long d0 = &a[3] - &a[1];
long d1 = (long)&a[2] - (long)&a[0];
