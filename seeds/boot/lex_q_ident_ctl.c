int ab = 1;
