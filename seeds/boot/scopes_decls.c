typedef int T; typedef T (*FP)(T); typedef struct Node Node; struct Node { Node *n; T v; };
static int sv; extern int ev; int ev; int tent; int tent; int tent = 3; static int fwd(void); inline int inl(int x) { return x; } extern inline int inl(int);
_Alignas(32) char al32; _Alignas(double) char ald; _Thread_local int tls = 4; static _Thread_local long tls2; extern _Thread_local int tls3; _Noreturn void die(void);
const volatile int cv = 1; int *const restrict rp; char const *const *volatile cpp; int (*(*fpp)(int))[3]; int (*afp[2])(void); T (*ret_fp(T a))(T);
int f(T T) { { typedef char T; T x = 1; { enum { T = 5 }; int a[T]; return sizeof a + sizeof x; } } }
int g(void) { int sv = 1; { extern int sv2; int sv = 2; { static int sv = 3; return sv + sv2; } } }
int sv2 = 7; static int fwd(void) { return sv; }
int h(int a[static 3], int b[], int c(int), int (*d)(int), int n, int vla[][3], ...) { struct Node nd = { 0, a[0] }; enum E { A, B = A + 2, C } e = C; union { int i; float f; } u = { .f = 1 }; return nd.v + e + u.i + c(1) + d(2) + vla[1][1] + b[0]; }
struct Node mk(void) { return (struct Node){ 0, sizeof(struct { int a; char b; }) }; }
int labels(int x) { T: x++; if (x < 3) goto T; { T y = x; return y; } }
