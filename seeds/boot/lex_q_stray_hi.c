int x; é 
