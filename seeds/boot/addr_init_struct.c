struct N { struct N *next; int *ip; long off; void (*fn)(void); };
int g[8];
void f0(void) {}
void f1(void) {}
struct N n2 = { 0, g + 7, 16, f1 };
struct N n1 = { &n2, &g[3], sizeof g, f0 };
struct N *tab[] = { &n1, &n2, 0, &n1 + 1 };
void (*fns[3])(void) = { f0, f1, &f0 };
static struct N loc = { .fn = f1, .ip = g, .next = &loc };
int main(void) { static int *sp = &g[1]; static long k = (long)&g + 4; return *sp + (int)k; }
