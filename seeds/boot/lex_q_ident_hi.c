int aÿş = 1;
