#define OPS(T, n) T n##1(T a, T b) { return a + b - a * b; } T n##2(T a, T b) { return a / b + a % b; } T n##3(T a, T b) { return (a & b) | (a ^ b) | ~a; } \
  T n##4(T a, T b) { return a << (b & 7) | a >> (b & 7); } int n##5(T a, T b) { return (a < b) + (a <= b) * 2 + (a > b) * 4 + (a >= b) * 8 + (a == b) * 16 + (a != b) * 32; } \
  T n##6(T a, T b) { a += b; a -= 1; a *= b; a /= 3; a %= 5; a &= b; a |= 1; a ^= b; a <<= 1; a >>= 1; return a++ + ++a - a-- - --a; } int n##7(T a, T b) { return (a && b) + (a || b) + !a + (a ? 1 : 2); } T n##8(T a) { return -a + +a; }
OPS(signed char, c) OPS(unsigned char, uc) OPS(short, s) OPS(unsigned short, us) OPS(int, i) OPS(unsigned, u) OPS(long, l) OPS(unsigned long, ul) OPS(_Bool, b)
#define FOPS(T, n) T n##1(T a, T b) { return a + b - a * b / (b + 1); } int n##5(T a, T b) { return (a < b) + (a <= b) * 2 + (a > b) * 4 + (a >= b) * 8 + (a == b) * 16 + (a != b) * 32; } \
  T n##6(T a, T b) { a += b; a -= 1; a *= b; a /= 3; return a++ + ++a - a-- - --a; } int n##7(T a, T b) { return (a && b) + (a || b) + !a + (a ? 1 : 2); } T n##8(T a) { return -a + +a; }
FOPS(float, f) FOPS(double, d) FOPS(long double, ld)
long mixed(char c, unsigned short us, int i, unsigned u, long l, unsigned long ul, float f, double d) { return c * us + i / (u | 1) - l % (long)(ul | 1) + (long)(f * d) + (c < u) + (i < ul) + (l < u) + (us - 70000 < 0); }
int *pp(int *p, long n, char c) { p += n; p -= c; p++; --p; return p + 1 - (p - (p - 2)) + (p[1] & *p) ; }
