typedef signed char i8; typedef unsigned char u8; typedef short i16; typedef unsigned short u16; typedef int i32; typedef unsigned u32; typedef long i64; typedef unsigned long u64;
#define ROW(T, v) (i8)(T)v, (u8)(T)v, (i16)(T)v, (u16)(T)v, (i32)(T)v, (u32)(T)v, (i64)(T)v, (u64)(T)v
long tab[] = { ROW(i8, -3), ROW(u8, 253), ROW(i16, -300), ROW(u16, 65000), ROW(i32, -70000), ROW(u32, 4000000000u), ROW(i64, -5000000000), ROW(u64, 18446744073709551615ul) };
double dtab[] = { (float)-3, (double)(u64)-1, (float)(u64)-1, (double)(i64)-1, (float)16777217, (double)(float)0.1, (float)1e40, (u8)300.7, (i8)-3.9, (u32)4e9, (i64)-9e18, (u64)1.8e19, (_Bool)0.1, (i32)(float)2147483520.0f };
#define FN(T, U) T T##_from_##U(U x) { return (T)x; }
#define ALL(U) FN(i8, U) FN(u8, U) FN(i16, U) FN(u16, U) FN(i32, U) FN(u32, U) FN(i64, U) FN(u64, U) FN(float, U) FN(double, U) FN(_Bool, U)
typedef long double ldouble;
ALL(i8) ALL(u8) ALL(i16) ALL(u16) ALL(i32) ALL(u32) ALL(i64) ALL(u64) ALL(float) ALL(double) ALL(ldouble)
ldouble l1(i64 x) { return x; } ldouble l2(u64 x) { return x; } ldouble l3(float x) { return x; } ldouble l4(u8 x) { return x; }
void *vp(long x) { return (void *)x; } long pl(void *p) { return (long)p; } int pi(char *p) { return (int)(long)p; } void vd(int x) { (void)x; (void)0; }
