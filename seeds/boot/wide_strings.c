typedef __typeof__(L'a') wc;
wc w0[] = L"abc\x1234é\U0001F600";
unsigned short u16[] = u"abcé\U0001F600 \xffff";
unsigned u32[] = U"abc\U0001F600é";
char u8s[] = u8"abcé\U0001F600" "tail";
char s0[] = "a" "b" "\0" "c\377\x41\101\n\t\\\"'?\a\b\f\r\v\e";
wc w1[] = L"a" "b" L"c";
wc w2[] = "x" L"y" "z";
unsigned short m16[] = "p" u"q";
int c0 = 'a', c1 = '\377', c2 = L'\xffff', c3 = u'é', c4 = U'\U0001F600', c5 = '\0', c6 = L'あ', c7 = 'ab';
char *ptrs[] = { "one", "two" "2", u8"three", "" };
wc *wp = L"wide ptr";
int f(void) { return sizeof w0 + sizeof u16 + sizeof u32 + sizeof u8s + sizeof s0 + sizeof L"xy" + sizeof u"xy" + sizeof "xy" + "abc"[1] + L"abc"[2]; }
