/* objects and types at size limits */
char z0[0]; char one[1]; char big[2147483647]; char bigger[2147483648]; char huge[1L << 40];
struct Z { char a[0]; }; struct B { char a[65536]; char b[65536]; } sb;
long n[] = { sizeof z0, sizeof one, sizeof big, sizeof bigger, sizeof huge, sizeof(struct Z), sizeof sb, sizeof(char[3][1L << 31]), _Alignof(struct B) };
_Alignas(1) char al1; _Alignas(4096) char al4k; _Alignas(0) char al0;
char *p0 = &big[2147483646], *p1 = &bigger[2147483647], *p2 = &huge[(1L << 40) - 1];
