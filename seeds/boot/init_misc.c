char a0[] = "abc", a1[2] = "ab", a2[5] = "ab", a3[] = { "xyz" }, a4[][3] = { "ab", "c", { 'd' } };
int b0[] = { 1, 2, 3, }, b1[4] = { 1 }, b2[2][2] = { 1, 2, 3 }, b3[][2] = { { 1 }, 2, 3, 4, { 5 } };
struct S { char c; int i; double d; char s[4]; struct { short h; long l; } in; int fl[]; };
struct S s0 = { 'a', 1, 2.5, "xy", { 3, 4 } }, s1 = { 'b', .d = 1, "q" }, s2 = { .in = { .l = 9 }, .c = 1 }, s3 = { 1, 2, 3, 'a', 'b', 'c', 'd', 5, 6 };
struct S s4 = { .fl = { 1, 2, 3 } };
union U { int i; double d; char c[9]; } u0 = { 1 }, u1 = { .d = 2.0 }, u2 = { .c = "12345678" }, ua[2] = { { .c[8] = 1 }, 7 };
int scalar = { 3 }; double dsc = { 1 }; char *ps = { "braced" }; _Bool bb = 2; _Bool bp = (_Bool)&scalar;
long long_from_float = 2.9, neg = -2.9; float f_from_int = 16777217; unsigned char trunc = 0x1ff; short sh = 70000;
int f(int x) {
  char l0[] = "abc", l1[8] = "ab"; int l2[3] = { x }, l3[2][2] = { { x }, x + 1 }; struct S l4 = { x, .in.h = x, .s = "z" }; union U l5 = { .c = { [3] = x } };
  struct S l6 = s0; struct S l7 = { .d = x, .c = x }; int l8[] = { [1] = 1, 2 }; char l9[][2] = { "a", "b" };
  return l0[1] + l1[5] + l2[1] + l3[1][0] + l4.in.h + l5.c[3] + l6.i + (int)l7.d + l8[1] + l9[1][0];
}
