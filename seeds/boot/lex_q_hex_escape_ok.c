char hex[] = "\x1 \x12 \x123 \x12345678 \xfffffffff";
int c = '\xfff', d = L'\x12345';
