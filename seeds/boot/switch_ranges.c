int f(int x) {
  switch (x) {
  case -5 ... -1: return 1;
  case 0: return 2;
  case 1 ... 9: x += 3;
  case 10: return x;
  case 'a' ... 'z': return 4;
  case 0x7ffffff0 ... 0x7fffffff: return 5;
  default: break;
  }
  switch ((char)x) { case -128: return 6; case 127: return 7; }
  switch ((long)x << 33) { case 1L << 33: return 8; case -(1L << 33): return 9; case 0x7fffffffffffffff: return 10; }
  switch ((unsigned)x) { case 0xffffffff: return 11; case 0x80000000 ... 0x80000010: return 12; }
  switch (x) { { case 33: ; int y = 3; case 34: return y; } default: ; }
  switch (x) case 5: switch (x + 1) { case 6: return 13; }
  return 0;
}
