int f(int n) {
  static void *tab[] = { &&l0, &&l1, &&l2 };
  static long offs[] = { (long)&&l1, (long)&&l2 };
  int acc = ({ int t = n; t * 2; });
  acc += ({ int s = 0; for (int i = 0; i < n; i++) s += ({ i & 1 ? i : -i; }); s; });
  { struct { int a, b; } q = ({ struct { int a, b; } p = { n, 2 }; p; }); acc += q.b; }
  goto *tab[n % 3];
l0: acc += 1; goto *tab[1];
l1: acc += ({ goto l2; 5; });
l2: acc += (long)offs[0] != (long)offs[1];
  void *p = &&done;
  if (n > 100) goto *p;
  acc += ({ int a[3] = { 1, 2, 3 }; a[n % 3]; }) + ({ 0 ? 1 : ({ 2; }); });
done:
  return acc + ({ n; }) + sizeof(({ (char)n; }));
}
