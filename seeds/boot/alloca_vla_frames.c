void *alloca(unsigned long);
int sink(void *p, ...);
int f(int n, int m) {
  char big[70000]; int v1[n]; long v2[n][m]; char (*pv)[m] = alloca(n * m); char *a = alloca(n), *b = alloca(1);
  big[69999] = v1[n - 1] = 1; v2[n - 1][m - 1] = sizeof v2 + sizeof v2[0] + sizeof *pv;
  for (int i = 0; i < n; i++) { int inner[i + 1]; char *c = alloca(i); inner[i] = sink(c, inner, a, b); }
  return sink(big, v1, v2, pv, 1, 2, 3, 4, 5, 6, 7, 8.0, 9.0, (long double)10, n, m) + (int)v2[0][0];
}
int g(int n) { int tot = 0; { int a[n]; tot += sizeof a; } { int b[n * 2]; tot += sizeof b; } int c[n + 1][n + 2]; return tot + sizeof c / sizeof c[0]; }
long deepframe(long a, long b, long c, long d, long e, long f_, long g_, long h, long i, long j, double x0, double x1, double x2, double x3, double x4, double x5, double x6, double x7, double x8, long double y) {
  char pad[33]; long l[17]; pad[0] = l[16] = 0; return a + b + c + d + e + f_ + g_ + h + i + j + (long)(x0 + x1 + x2 + x3 + x4 + x5 + x6 + x7 + x8 + y) + pad[0] + l[16];
}
