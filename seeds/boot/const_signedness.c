enum { E0 = -1, E1 = 0x7fffffff, E2 = (int)0x80000000u };
long c0 = -1 + 0u;
long c1 = (-1 < 0u) + 2 * (-1L < 0u) + 4 * (-1 < 0ul);
long c2 = (unsigned char)-1 + (signed char)200 + (short)70000 + (unsigned short)-2;
long c3 = 0x7fffffff + 1u;
unsigned long c4 = ~0u >> 1;
unsigned long c5 = ~0ul >> 63 | 1ul << 63;
long c6 = -7 / 2 + -7 % 2 * 10 + 7 / -2 * 100;
long c7 = (long)-1 >> 1;
long c8 = (unsigned)-8 / 3;
long c9 = (int)(unsigned)-8 / 3;
long c10 = 1 ? -1 : 0u;
long c11 = sizeof(int) - 5 > 0;
long c12 = (char)0x1ff + (_Bool)0x100 + (_Bool)0.5;
long c13 = 0xffffffff + 0x100000000 + 017777777777 + 4294967295;
long c14 = E0 + E1 + E2;
int sw(unsigned u, long l) { return (u > -1) + (l < 0u) * 2 + (u << 31 >> 31) + (-1 >> 1 << 1); }
long arr[(-1 < 0u) + 1][sizeof(long) == 8 ? 2 : -1];
