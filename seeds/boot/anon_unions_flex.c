struct V { int tag; union { int i; double d; struct { short lo, hi; }; char bytes[8]; }; struct { char a, b; } named; union { long l; }; };
struct V v0 = { 1, { 2 }, { 'a', 'b' }, { 3 } }, v1 = { .d = 1.5, .tag = 2, .named.b = 'c' }, v2 = { .hi = 7, .l = 9 };
struct Fx { int n; char data[]; }; struct Fx fx = { 3, { 'a', 'b', 'c' } }, fy = { 0 }; struct Fl { long n; long v[]; } fl = { 2, { 10, 20 } };
struct P1 { char c; int i; } __attribute__((packed)); struct __attribute__((packed, aligned(2))) P2 { char c; long l; short s; }; struct A16 { char c; } __attribute__((aligned(16)));
struct Z0 { int z[0]; int after; }; struct Nest { struct { struct { union { int deep; }; }; }; } nest = { .deep = 4 };
int sz[] = { sizeof(struct V), sizeof(struct Fx), sizeof fx, sizeof(struct P1), sizeof(struct P2), sizeof(struct A16), _Alignof(struct P2), _Alignof(struct A16), sizeof(struct Z0), sizeof(struct Nest), (int)(long)&((struct V *)0)->hi };
int f(struct V *p) { p->lo = p->bytes[3]; p->named.a = p->i; p->l++; return p->hi + v1.named.b + nest.deep + fl.v[1] + fx.data[2]; }
