/* an implicit enumerator after INT_MAX / after the largest values: whatever a stage answers, all must answer alike */
enum { BIG = 2147483647, NEXT };
enum { NEG = -2147483647 - 1, NEG1 };
enum { U = 4294967295, U1 };
long x = NEXT, y = NEG1, z = U1;
