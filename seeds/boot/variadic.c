#include <stdarg.h>
int printf(const char *, ...);
struct S2 { int a, b; }; struct F2 { double x, y; }; struct M { long a; double b; }; struct Big { long v[5]; };
long sum(int n, ...) {
  va_list ap, aq; long s = 0;
  va_start(ap, n); va_copy(aq, ap);
  for (int i = 0; i < n; i++) s += va_arg(ap, int);
  s += va_arg(aq, int); va_end(aq); va_end(ap);
  return s;
}
double mix(const char *fmt, ...) {
  va_list ap; double d = 0; va_start(ap, fmt);
  for (; *fmt; fmt++)
    switch (*fmt) {
    case 'i': d += va_arg(ap, int); break;
    case 'l': d += va_arg(ap, long); break;
    case 'd': d += va_arg(ap, double); break;
    case 'p': d += *va_arg(ap, int *); break;
    }
  va_end(ap); return d;
}
int main(void) {
  int k = 5; struct S2 s = { 1, 2 }; struct F2 f = { 1.5, 2.5 }; struct M m = { 3, 4.5 }; struct Big b = { { 1, 2, 3, 4, 5 } };
  printf("%d %ld %f %s %c %p %lu %Lf\n", 1, 2L, 3.0, "s", 'c', (void *)0, sizeof k, 1.0L);
  printf("%d %d %d %d %d %d %d %d %f %f %f %f %f %f %f %f %f %d\n", 1, 2, 3, 4, 5, 6, 7, 8, .1, .2, .3, .4, .5, .6, .7, .8, .9, 9);
  return (int)(sum(4, 1, 2, 3, 4) + mix("ildp", 1, 2L, 3.0, &k)) + s.a + (int)f.x + (int)m.b + (int)b.v[4];
}
