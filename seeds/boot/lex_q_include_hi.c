#include "nÃ©antÿ.h"
