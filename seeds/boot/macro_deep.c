#define CAT(a, b) CAT_(a, b)
#define CAT_(a, b) a##b
#define STR(x) STR_(x)
#define STR_(x) #x
#define EMPTY()
#define DEFER(x) x EMPTY()
#define OBSTRUCT(...) __VA_ARGS__ DEFER(EMPTY)()
#define EXPAND(...) __VA_ARGS__
#define EVAL(...) EVAL1(EVAL1(EVAL1(__VA_ARGS__)))
#define EVAL1(...) EVAL2(EVAL2(EVAL2(__VA_ARGS__)))
#define EVAL2(...) EVAL3(EVAL3(EVAL3(__VA_ARGS__)))
#define EVAL3(...) __VA_ARGS__
#define INC(x) CAT(INC_, x)
#define INC_0 1
#define INC_1 2
#define INC_2 3
#define INC_3 4
#define REPEAT_INDIRECT() REPEAT_
#define REPEAT_(n, m) m(n) DEFER(REPEAT_INDIRECT)()(INC(n), m)
#define DECL(n) int CAT(v, n);
#define COUNT(...) COUNT_(__VA_ARGS__, 5, 4, 3, 2, 1, 0)
#define COUNT_(a, b, c, d, e, n, ...) n
#define F(x, ...) x __VA_OPT__(+ COUNT(__VA_ARGS__))
#define f(a) a*g
#define g(a) f(a)
#define obj (4 + obj)
#undef obj
int obj2 = 1;
#define obj2 (4 + obj2)
#define LPAREN (
#define APPLY(m, a) m a
int x1 = COUNT(a, b, c), x2 = F(1), x3 = F(1, 2, 3);
char *s1 = STR(CAT(a, CAT(b, c))), *s2 = STR(  "q\n"  'c'   + - ), *s3 = STR(__LINE__) STR(INC(INC(1)));
int obj_(int g) { return f(2)(9) + obj2; }
DECL(0) DECL(1) DECL(INC(1))
int CAT(n, __LINE__), CAT(CAT(n, __COUNTER__), __COUNTER__);
int y1 = APPLY(COUNT, (1, 2)), y2 = EXPAND(COUNT LPAREN 1 ));
#if defined(CAT) && !defined NOPE && (COUNT(1,2) == 2) && (-1 < 0u ? 0 : 1) || 0
int ok = __LINE__;
#elif 1
int bad;
#endif
#line 1000 "renamed.c"
int ln = __LINE__; char *fl = __FILE__;
