#if 0
garbage #include <nonexistent> @ $ `
#elif (2 + 3) * 4 == 20 && 7 / 2 == 3 && -7 % 3 == -1 && (1 << 31) > 0 && ~0 == -1 && !0 && (3 > 2 ? 4 : 5) == 4
int a1;
#else
#error unreachable
#endif
#if 0xffffffffffffffff == -1 && 18446744073709551615 > 0 && -1 < 0 && -1 > 0u && (-1) / 2u > 1 && 'a' == 97 && '\377' < 0 && L'\xffff' > 0
int a2;
#endif
#if defined A || defined(B) && C || UNDEFINED_IDENT + 1 == 1 && true + 0 == 0 && __STDC_VERSION__ >= 201112L && __x86_64__ && __LP64__ && __SIZEOF_LONG__ == 8
int a3;
#endif
#ifdef __chibicc__
int a4 = __chibicc__;
#endif
#ifndef NOPE
# define NOPE 2
# if NOPE == 2
#  undef NOPE
#  ifndef NOPE
int a5;
#  else
int bad;
#  endif
# endif
#endif
#define EMPTY
#if EMPTY + 1 == 1 && (EMPTY 2 EMPTY) == 2
int a6;
#endif
#define FL(x) ((x) * 2)
#if FL(3) == 6 && FL(FL(1)) == 4
int a7 = __LINE__, a9 = __COUNTER__ + __COUNTER__;
#endif
#pragma once
#pragma GCC something (ignored) "str"
# 77 "line_marker.c" 2
int a10 = __LINE__; char *a11 = __FILE__, *a12 = __BASE_FILE__;
