#define S(x) #x
#define C(a,b) a##b
char *s = S(\Ã© ÿ "\ÿ");
int C(x,Ã©) = 1;
int C(1,Ã©);
