#é
int x;
