#pragma Ã© ÿ unknown(thing) "str
#pragma
#pragma STDC FP_CONTRACT ON
#pragma pack(push, 1)
int x;
_Pragma("once") int y;
