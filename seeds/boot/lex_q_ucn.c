int \u00e9 = 1, a\U0001F600 = 2, \u0041 = 3;
char s[] = "\u00e9\U0001F600\ud800\uzzzz\u12";
