#include <stdatomic.h>
#include <stddef.h>
#include <stdbool.h>
#include <stdalign.h>
#include <float.h>
_Atomic int ai; _Atomic long al; atomic_flag fl; _Atomic(char) ac; struct S { _Atomic int x; char c; long l; } s;
int f(int *p, int *o, long *lp) {
  ai++; ai += 2; al -= 3; ac ^= 1; s.x |= 4; ai = al = 5; --ai;
  int r = __builtin_compare_and_swap(p, o, 1) + __builtin_atomic_exchange(lp, 2L) + atomic_fetch_add(&ai, 1) + atomic_load(&al) + atomic_exchange(&ai, 3);
  atomic_store(&al, 4); r += atomic_compare_exchange_strong(&ai, o, 9) + atomic_flag_test_and_set(&fl); atomic_flag_clear(&fl);
  r += __builtin_types_compatible_p(int, const int) + __builtin_types_compatible_p(int *, long *) + __builtin_reg_class(int) + __builtin_reg_class(double) + __builtin_reg_class(struct S);
  r += offsetof(struct S, l) + alignof(struct S) + alignof(max_align_t) + sizeof(size_t) + sizeof(ptrdiff_t) + sizeof(wchar_t) + (true + false) + FLT_DIG + DBL_MANT_DIG + LDBL_MAX_EXP;
  return r + (int)(DBL_EPSILON * 1e17) + (NULL == 0);
}
