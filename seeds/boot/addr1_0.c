/* integer + address: valid C; pinned chibicc says "not a compile-time constant" */
int a[4];
long p6 = 4 + (long)a;
