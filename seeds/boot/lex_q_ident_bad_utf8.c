int Ã( = 1;
