/* accepted-but-garbage-in: a backslash followed by bytes of every class; every stage must emit the same bytes */
char hi[] = "\€.\Ÿ.\ .\©.\À.\Ã.\é.\ğ.\ş.\ÿ.";
char utf[] = "\Ã© \ã‚ \ğŸ˜€";
char ctl[] = "\.\.\.\	.\.\.\.\.\.";
char dig[] = "\8 \9 \08 \79 \1234 \400 \777";
char upp[] = "\A \B \E \F \N \R \T \U0000 \V \X \Z \c \d \g \h \z \$ \@ \` \( \{ \# \% \  \~";
int c0 = '\Ã', c1 = '\€', c2 = '\ÿ', c3 = '\8', c4 = '\A', c5 = '\', c6 = '\', c7 = '\$';
int w0 = L'\Ã©', w1 = L'\8';
