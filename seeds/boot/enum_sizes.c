enum Small { S0, S1 }; enum Neg { N0 = -1, N1 }; enum Big { B0 = 0x7fffffff }; enum U { U0 = 0x80000000 }; enum Chain { C0 = 5, C1, C2 = C1 * 2, C3 = sizeof(int), C4 = 'a', C5 = C4 + (C3 << 2), C6 = -C5, C7 = !C6, C8 = C0 > 3 ? 1 : 2 };
enum Fwd { F0 = 3 }; typedef enum { T0, T1 } TE; struct HasE { enum Small s : 2; enum Neg n; TE t; } he = { S1, N0, T1 };
int vals[] = { S1, N0, N1, B0, (int)U0, C1, C2, C3, C4, C5, C6, C7, C8, F0, sizeof(enum Small), sizeof(enum Big), sizeof(enum U), sizeof S0, (enum Neg)-1 < 0, (enum Small)-1 < 0, -1 < (enum Small)0 };
int sw(enum Chain c) { switch (c) { case C0: return 1; case C1 ... C2: return 2; case C6: return 3; default: return c; } }
long conv(enum Neg n, enum U u) { return n + (long)u + (n < u) + (n >> 1) + (u >> 1); }
