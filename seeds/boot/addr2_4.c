/* an address on both sides of + in a static initializer: not a constant expression for gcc;
   whatever chibicc answers, every stage must answer the same */
int a[4], b[4];
struct S { int x; long y; char z[5]; } s, t[3];
long p4 = (long)&s.y + 3 + (long)&t[2].z[1];
int main(void) { return 0; }
