typedef int (*BIN)(int, int); typedef BIN (*SEL)(int);
static int add(int a, int b) { return a + b; } static int sub(int a, int b) { return a - b; }
static BIN sel(int k) { return k ? add : sub; }
BIN tab[] = { add, sub, &add, *sub, **add };
struct Ops { BIN op; SEL s; int (*va)(const char *, ...); void (*arr[2])(void); } ops = { add, sel, 0 };
int apply(BIN f, int a, int b) { return f(a, b) + (*f)(a, b) + (**f)(a, b) + (&*f)(b, a); }
int chain(int k) { return sel(k)(1, 2) + ops.s(!k)(3, 4) + tab[k & 3](5, 6) + (k ? add : sub)(7, 8) + apply(ops.op, 9, 10) + ((BIN)(void *)sub)(1, 1); }
long args(char a, short b, int c, long d, unsigned char e, unsigned short f, unsigned g, unsigned long h, float i, double j, long double k, char *l, int *m, _Bool n) { return a + b + c + d + e + f + g + h + (long)i + (long)j + (long)k + *l + *m + n; }
long call_args(void) { int x = 3; return args(-1, -2, -3, -4, 255, 65535, 4000000000u, ~0ul, 1.5f, 2.5, 3.5L, "s", &x, 2) + args('a', 'b', 'c', 'd', 'e', 'f', 'g', 'h', 1, 2, 3, "", &x, 0.5); }
int implicit_conv(void) { return add(1.9, 'a') + add((char)300, (short)70000) + sub(1u << 31, -1L); }
int struct_fp(struct Ops o) { return o.op(1, 2); } int ret_through(struct Ops *o) { return (o->s)(1)(2, 3) + o[0].op(1, 1); }
