#define T(x) _Generic((x), char: 1, signed char: 2, unsigned char: 3, short: 4, unsigned short: 5, int: 6, unsigned: 7, long: 8, unsigned long: 9, float: 10, double: 11, long double: 12, char *: 13, const char *: 14, int *: 15, void *: 16, int (*)[3]: 17, int (*)(int): 18, _Bool: 19, default: 0)
int arr[3]; int fn(int a) { return a; } enum E { EA } e; struct S { char c; short s; unsigned b : 3; } s;
int t[] = { T('a'), T((char)1), T((short)1), T(1), T(1u), T(1l), T(1ul), T(1.f), T(1.), T(1.L), T("s"), T(arr), T(&arr), T(fn), T((void *)0), T((_Bool)1),
            T(s.c + s.c), T(s.s), T(s.b), T(e), T(EA), T(1 ? 1 : 1u), T(1 ? 1l : 1u), T(1 ? (char)1 : (short)1), T(0 ? (int *)0 : (void *)0), T(sizeof 1), T(&arr[1] - &arr[0]), T(-(char)1), T(!1.0), T(1 << 1l), T(1.f + 1), T(1.f + 1.), T((char)1 ? 1 : 2.f) };
typeof(arr) arr2; typeof(fn) fn2; typeof(&fn) fp = fn; typeof(1 + 1L) lng; typeof(int[2][3]) m23; __typeof__(s.c) ch;
typeof(typeof(int *)[2]) pa; typeof(struct { int q; }) anon;
int use(void) { typeof(arr2[0]) x = sizeof(arr2) + sizeof(m23) + sizeof(pa) + sizeof lng + sizeof ch; int n = 3; typeof(int[n]) vla; return x + sizeof vla + fp(1) + anon.q; }
