/* an address on both sides of + in a static initializer: not a constant expression for gcc;
   whatever chibicc answers, every stage must answer the same */
int a[4], b[4];
struct S { int x; long y; char z[5]; } s, t[3];
long p2 = 8 + (long)b + (long)a;
int main(void) { return 0; }
