int counter(void) { static int n; static int init = 5; static char buf[16] = "abc"; static int *p = &init; static struct { int a; long b; } st = { 1, 2 }; return ++n + init + buf[1] + *p + st.b; }
int counter2(void) { static int n = 10; { static int n = 20; n++; } return n++; }
_Thread_local int t1 = 1; static _Thread_local int t2; _Thread_local long t3[4] = { 1, 2 }; extern _Thread_local int t4;
int tls(void) { static _Thread_local int loc = 3; int *p = &t1; return t1++ + ++t2 + t3[1] + loc++ + *p + t4; }
static int hidden_used(void) { return 1; } static int hidden_unused(void) { return 2; } static inline int si_used(void) { return hidden_used(); } static inline int si_unused(void) { return 3; }
int root(void) { return si_used(); } int (*addr_taken)(void) = hidden_unused;
const char *const names[] = { "a", "b" }; static const int sc = 4; static int arr_unused[100]; int common1; int common2[3]; static int bss1; int init0 = 0; char zero_arr[10] = { 0 };
