int *f(int *p, int *q) { return p + q; }
