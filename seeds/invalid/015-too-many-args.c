int g(int); int f(void) { return g(1, 2); }
