void f(void) { continue; }
