#include "nonexistent.h"
