#if 1
int x;
