#define F(a) a
int x = F(1, 2);
