#elif 1
int x;
