int x; int y = x;
