int n; int a[n];
