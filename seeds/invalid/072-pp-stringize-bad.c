#define F(a) #b
int x;
