#include foo
