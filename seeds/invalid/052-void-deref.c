void f(void *p) { *p; }
