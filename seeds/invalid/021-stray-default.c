void f(void) { default: ; }
