int x
