#if
#endif
