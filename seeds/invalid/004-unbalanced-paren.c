int x = (1;
