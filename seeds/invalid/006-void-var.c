void x;
