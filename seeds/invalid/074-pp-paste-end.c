#define F a ##
int F;
