#include <stdio.h
