#error stop
