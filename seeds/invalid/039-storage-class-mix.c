typedef static int T;
