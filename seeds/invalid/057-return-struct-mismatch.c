struct S { int a; }; int f(struct S s) { return s; }
