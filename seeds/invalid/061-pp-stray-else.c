#else
int x;
