int f(void) { return x; }
