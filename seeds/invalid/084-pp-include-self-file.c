#include __FILE__
