#if 1 +
int x;
#endif
