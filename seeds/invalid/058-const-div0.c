int x = 1 / 0;
