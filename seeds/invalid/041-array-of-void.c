void a[3];
