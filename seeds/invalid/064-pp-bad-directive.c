#foo
int x;
