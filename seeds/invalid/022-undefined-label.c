void f(void) { goto L; }
