struct { int a; } s = { .b = 1 };
