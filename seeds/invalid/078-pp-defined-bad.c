#if defined(
#endif
