void f(void) { 1 = 2; }
