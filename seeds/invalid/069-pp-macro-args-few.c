#define F(a, b) a
int x = F(1);
