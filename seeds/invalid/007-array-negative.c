int a[-1];
