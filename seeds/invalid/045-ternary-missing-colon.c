int f(int a) { return a ? 1; }
