int f(void) { return ({ }); }
