int c = 'a;
