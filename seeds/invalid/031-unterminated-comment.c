int x; /* abc
