void f(void) { break; }
