struct S { int a; } s; int f(void) { return s.b; }
