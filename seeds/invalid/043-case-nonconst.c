void f(int a) { switch (a) { case a: ; } }
