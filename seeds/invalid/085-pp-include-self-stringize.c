#define STR(x) #x
#include STR(SELFNAME)
