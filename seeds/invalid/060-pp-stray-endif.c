#endif
int x;
