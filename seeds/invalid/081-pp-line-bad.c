#line x
