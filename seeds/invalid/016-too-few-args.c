int g(int); int f(void) { return g(); }
