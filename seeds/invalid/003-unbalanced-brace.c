int f(void) {
