#define 1 2
