int f(static int a);
