double x = 1.5.2;
