int x = 1 + ;
