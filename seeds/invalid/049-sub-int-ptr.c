int f(int *p) { return 1 - p; }
