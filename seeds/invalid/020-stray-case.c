void f(void) { case 1: ; }
