struct { int a : 99; } s;
