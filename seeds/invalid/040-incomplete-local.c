void f(void) { struct S s; }
