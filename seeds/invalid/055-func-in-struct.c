struct S { int f(void); };
