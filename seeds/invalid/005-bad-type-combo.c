long short x;
