int f(void) { return g(); }
