int x = _Generic(1.0, int: 1);
