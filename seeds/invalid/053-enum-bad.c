enum { A = };
