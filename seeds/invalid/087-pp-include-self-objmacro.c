#define S "SELFNAME"
#include S
