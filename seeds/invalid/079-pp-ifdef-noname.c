#ifdef
#endif
