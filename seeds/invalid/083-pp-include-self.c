#include "SELFNAME"
