_Alignas int x;
