#include __BASE_FILE__
