int *f(void) { return &1; }
