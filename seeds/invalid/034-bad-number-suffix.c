int x = 12abc;
