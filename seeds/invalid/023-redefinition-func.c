int f(void) { return 0; } int f(void) { return 1; }
