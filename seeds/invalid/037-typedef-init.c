typedef int T = 1;
