struct { int a : 3; } s; int *f(void) { return &s.a; }
