//@cc1: -I.
#include_next "SELFNAME"
