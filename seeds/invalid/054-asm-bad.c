void f(void) { asm(1); }
