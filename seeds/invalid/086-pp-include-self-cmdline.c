//@cc1: '-DSELF="SELFNAME"'
#include SELF
