#if 1 / 0
#endif
