char *s = "abc;
