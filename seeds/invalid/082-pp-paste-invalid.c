#define P(a, b) a##b
int x = P(+, ;);
