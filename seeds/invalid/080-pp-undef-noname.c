#undef 3
