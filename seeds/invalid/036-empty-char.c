int c = '';
