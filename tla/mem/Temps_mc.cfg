SPECIFICATION Spec
CONSTANTS MaxCalls = 3
 Variant = "ok"
 EmitOut = FALSE
INVARIANTS Disjoint ValuesIntact InFrameAligned
CHECK_DEADLOCK FALSE
