-------------------------------- MODULE Temps --------------------------------
(* C04: objects with TEMPORARY LIFETIME (C11 6.2.4p8).  A call that returns a struct or
   union creates an object that lives until the end of the enclosing full expression.  An
   array member of it decays to a pointer INTO the object (`mk(1).v`, `&mk(1).v[1]`), so
   several temporaries can be live, and addressed, at once:  use(mk(1).v, mk(2).v, mk(3).v).
   This is the same object model as LValue.tla (memory = object -> bytes, live objects are
   pairwise disjoint and keep their values); here the objects are created by calls.

   Level A: every call site of the full expression yields its own object; at the point where
           the consumer reads through the pointers all of them are live: pairwise disjoint,
           inside the frame, aligned, each holding the value its call returned.
   Level I: chibicc gives every call SITE its own frame slot (parse.c funcall: new_lvar per
           ND_FUNCALL; assign_lvar_offsets then lays the slots out one below the other); for
           aggregates <= 16 bytes the registers are copied into the slot (copy_ret_buffer),
           larger ones are written by the callee through the hidden pointer.
           Variant = "by_type": one slot per return TYPE and function (a tempting frame-size
           optimisation) must be REJECTED: two live temporaries of one type coincide.

   One action per call evaluated; every complete expression (1..MaxCalls sites over the type
   alphabet x pointer form x consumer form) is written out and replayed on the real binary. *)
EXTENDS Integers, Sequences, FiniteSets, TLC, Json, CSV, IOUtils, SequencesExt

CONSTANTS MaxCalls, Variant, EmitOut

(* return types: size, alignment, element size of the array member v, how the value travels *)
Types == << [id |-> "s3",   sz |-> 3,  al |-> 1, esz |-> 1, via |-> "gp"],      \* struct {char v[3];}
            [id |-> "u8",   sz |-> 8,  al |-> 8, esz |-> 4, via |-> "gp"],      \* union {int v[2]; long l;}
            [id |-> "s12",  sz |-> 12, al |-> 4, esz |-> 4, via |-> "gp"],      \* struct {int v[3];}
            [id |-> "s16f", sz |-> 16, al |-> 8, esz |-> 8, via |-> "sse"],     \* struct {double v[2];}
            [id |-> "s24",  sz |-> 24, al |-> 8, esz |-> 8, via |-> "mem"] >>   \* struct {long v[3];}
Forms == {"decay", "elem_addr"}            \* mk(k).v          &mk(k).v[1]
Consumers == {"call", "call_in_arith"}     \* r = use(...)     r = 5 + use(...) * 2   (pending pushes)

AlignTo(n, a) == ((n + a - 1) \div a) * a

VARIABLES sites,    \* the full expression: sequence of indices into Types, one per call site
          form, cons,
          pc,       \* calls evaluated so far
          stack,    \* Level I frame: byte offset below rbp -> id of the call whose value lies there (0 = none)
          temps     \* Level A: the live temporaries [site, addr (bytes below rbp of the object's first byte), size]
vars == <<sites, form, cons, pc, stack, temps>>

(* assign_lvar_offsets over the ret_buffer locals; chibicc assigns in reverse creation order, the
   model only needs that distinct locals get disjoint, aligned slots: slot k of the frame           *)
SlotOwner(i) == IF Variant = "by_type"
                THEN CHOOSE j \in 1..i : sites[j] = sites[i] /\ \A k \in 1..(j - 1) : sites[k] # sites[i]   \* first site of that type
                ELSE i
RECURSIVE Bottom(_)
Bottom(i) == IF i = 0 THEN 0
             ELSE LET t == Types[sites[i]] IN
                  IF SlotOwner(i) = i THEN AlignTo(Bottom(i - 1) + t.sz, t.al) ELSE Bottom(i - 1)
Addr(i) == Bottom(SlotOwner(i))            \* the object occupies rbp - Addr(i) .. rbp - Addr(i) + size - 1
FrameSize == AlignTo(Bottom(Len(sites)), 16)

Init == /\ sites \in UNION { [1..n -> DOMAIN Types] : n \in 1..MaxCalls }
        /\ form \in Forms /\ cons \in Consumers
        /\ pc = 0 /\ temps = <<>>
        /\ stack = [b \in 1..96 |-> 0]

Case == [sites |-> [i \in DOMAIN sites |-> Types[sites[i]].id], form |-> form, cons |-> cons]
(* evaluate the next call: its value is written to the slot of the call site *)
Call == /\ pc < Len(sites)
        /\ LET i == pc + 1
               t == Types[sites[i]] IN
           /\ stack' = [b \in DOMAIN stack |-> IF b <= Addr(i) /\ b > Addr(i) - t.sz THEN i ELSE stack[b]]
           /\ temps' = Append(temps, [site |-> i, addr |-> Addr(i), size |-> t.sz, al |-> t.al])
           /\ pc' = i
           /\ (EmitOut /\ i = Len(sites)) => CSVWrite("%1$s", <<ToJson(Case)>>, IOEnv.OUT)
        /\ UNCHANGED <<sites, form, cons>>
Next == Call
Spec == Init /\ [][Next]_vars

(* Level A, at every point of the evaluation (in particular when the consumer runs, pc = Len(sites)) *)
Disjoint == \A x, y \in DOMAIN temps : x < y =>
              (temps[x].addr - temps[x].size >= temps[y].addr \/ temps[y].addr - temps[y].size >= temps[x].addr)
ValuesIntact == \A x \in DOMAIN temps : \A b \in (temps[x].addr - temps[x].size + 1)..temps[x].addr : stack[b] = temps[x].site
InFrameAligned == \A x \in DOMAIN temps : temps[x].addr <= FrameSize /\ temps[x].addr - temps[x].size >= 0
                                          /\ temps[x].addr % temps[x].al = 0
=============================================================================
