SPECIFICATION Spec
CONSTANTS Tiny = TRUE
 Walk = TRUE
 MaxSteps = 1
 EmitOut = FALSE
 Bound = 0
CHECK_DEADLOCK FALSE
