SPECIFICATION Spec
CONSTANTS Tiny = FALSE
 Walk = TRUE
 MaxSteps = 0
 EmitOut = FALSE
 Seed = 0
 Stride = 1
 Bound = 0
CHECK_DEADLOCK FALSE
