---- MODULE _b2 ----
EXTENDS LValue
N4 == n < 20 /\ \E pi \in DOMAIN ps : IsBits(ps[pi]) /\ pi < 3 /\ StoreV(pi, "pat")
S4 == Init /\ [][N4]_vars
N5 == n < 20 /\ \E pi \in DOMAIN ps : IsBits(ps[pi]) /\ pi < 3 /\ 
        LET p == ps[pi] o2 == SetBits(mem.obj, p.pos, Width(p), IntVal("pat")) IN 
        /\ mem' = [mem EXCEPT !.obj = o2] /\ prev' = mem /\ n' = n + 1 /\ UNCHANGED <<T, ps, vm>>
        /\ last' = [act |-> "store", pi |-> pi, v |-> "pat", op |-> "", res |-> <<>>, pos |-> p.pos, w |-> Width(p), unspec |-> FALSE]
S5 == Init /\ [][N5]_vars
====
