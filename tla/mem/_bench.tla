---- MODULE _bench ----
EXTENDS LValue
m0 == Fill("obj", 24)
B1 == \A x \in 1..2000 : SetBits(m0, 35 + (x % 3), 17, IntVal("pat"))[1] >= 0
B2 == \A x \in 1..2000 : Len(Fill("obj", 24 + (x%2))) > 0
B3 == \A x \in 1..2000 : GetBits(m0, 35 + (x % 3), 17, TRUE)[1] >= 0
B4 == \A x \in 1..2000 : GetBits(SetBits(m0, 35 + (x % 3), 17, IntVal("pat")), 35, 17, TRUE) = GetBits(m0, 35 + (x % 3), 17, TRUE)
B5 == \A x \in 1..2000 : ToJson([a |-> SetBits(m0, 35 + (x % 3), 17, IntVal("pat"))]) # ""
T0 == JavaTime
ASSUME PrintT(<<"start", JavaTime % 100000>>)
ASSUME B1 /\ PrintT(<<"B1", JavaTime % 100000>>)
ASSUME B2 /\ PrintT(<<"B2", JavaTime % 100000>>)
ASSUME B3 /\ PrintT(<<"B3", JavaTime % 100000>>)
ASSUME (B4 \/ TRUE) /\ PrintT(<<"B4", JavaTime % 100000>>)
ASSUME B5 /\ PrintT(<<"B5", JavaTime % 100000>>)
====
