------------------------------- MODULE FrameI -------------------------------
(* C04, Level I: assign_lvar_offsets (codegen.c) for the locals of one function.

     bottom = 0;  for each local (in list order):
        align = (array of size >= 16) ? MAX(16, var->align) : var->align      (var->align = _Alignas or the type's)
        bottom += size;  bottom = align_to(bottom, align);  offset = -bottom
     stack_size = align_to(bottom, 16);   the object lives at [rbp + offset, rbp + offset + size)

   Level A (what C04 demands of simultaneously live objects): pairwise disjoint, each inside
   the frame [rbp - stack_size, rbp), each address a multiple of its alignment for EVERY rbp
   the ABI allows (rbp = 0 mod 16).  One action per loop iteration; all sequences of
   <= MaxLocals locals over the (size, alignment, is-array) alphabet.
   Variant "no_alignas" (var->align ignored, the type's alignment used) and "no_array16" are
   sensitivity controls.

   Initialisation in a live frame (ND_MEMZERO, codegen.c; lvar_initializer, parse.c).  All locals of a
   function - named objects of every block and compound literals - own their bytes for the whole call, and
   the order in which their initialisations are EXECUTED is not the order in which they were declared (=
   the order of the frame): a declaration is reached again through a backward goto while objects declared
   after it hold values; compound literals that are siblings in one argument list or in a designated
   initializer list are evaluated in an order of the implementation's choosing.  Reinit(i) = the
   declaration / compound literal of local i is reached while every other local is live: Level I's zero
   fill `rep stosb` writes zr = [offset, offset + size).  Level A (C04: "no neighbouring object is
   disturbed"; 6.7.9p19/p21: all of the object is initialised): InitCovers - every byte of the object is
   written; InitExact - no byte of another local and no byte outside the frame is.  Bytes of padding between
   locals may be written.  Variants "zero_round8" (the fill is done in quadwords when the offset is a multiple
   of 8: size rounded up) and "zero_down8" (size rounded down) are sensitivity controls.  With MaxAlign = 32 the model is REJECTED as it stands: rbp is only
   16-byte aligned, so rbp - 32k is not a multiple of 32 (recorded finding: over-aligned locals). *)
EXTENDS Integers, Sequences, TLC

CONSTANTS MaxLocals, MaxAlign, Variant,
          InitLocals      \* Reinit is explored in frames of at most InitLocals locals

AlignTo(n, a) == ((n + a - 1) \div a) * a
Mx(a, b) == IF a > b THEN a ELSE b
(* alphabet: size, natural alignment of the type, _Alignas (0 = none), array? *)
Kinds == { [sz |-> s, tal |-> t, ual |-> x, arr |-> r] :
             s \in {1, 3, 8, 16, 17}, t \in {1, 8, 16}, x \in {0, 8, 16, 32}, r \in BOOLEAN } 
Valid(k) == /\ k.sz % k.tal = 0 /\ (k.ual = 0 \/ k.ual >= k.tal) /\ k.ual <= MaxAlign
            /\ (k.tal = 16 => k.sz % 16 = 0)
            /\ (k.arr => k.sz >= 16)              \* being an array matters from 16 bytes on only
Req(k) == IF k.ual > 0 THEN k.ual ELSE k.tal                     \* the alignment C requires

VARIABLES locals, offs, bottom,
          zr        \* <<>>, or <<i, lo, hi>>: local i has just been (re-)initialised, its zero fill wrote rbp+[lo, hi)
vars == <<locals, offs, bottom, zr>>
Init == locals = <<>> /\ offs = <<>> /\ bottom = 0 /\ zr = <<>>
Add(k) ==
  LET va == IF Variant = "no_alignas" THEN k.tal ELSE Req(k)
      al == IF k.arr /\ k.sz >= 16 /\ Variant # "no_array16" THEN Mx(16, va) ELSE va
      b2 == AlignTo(bottom + k.sz, al)
  IN /\ Len(locals) < MaxLocals /\ Valid(k)
     /\ locals' = Append(locals, k) /\ offs' = Append(offs, -b2) /\ bottom' = b2 /\ zr' = <<>>
(* ND_MEMZERO: mov $size, %rcx; lea offset(%rbp), %rdi; mov $0, %al; rep stosb *)
ZeroRange(i) ==
  LET o == offs[i]  sz == locals[i].sz
  IN CASE Variant = "zero_round8" /\ o % 8 = 0 /\ sz <= 64 -> <<o, o + AlignTo(sz, 8)>>
       [] Variant = "zero_down8" /\ sz >= 8 -> <<o, o + (sz \div 8) * 8>>
       [] OTHER -> <<o, o + sz>>
Reinit(i) == /\ i \in DOMAIN locals /\ Len(locals) <= InitLocals /\ zr' = <<i>> \o ZeroRange(i) /\ UNCHANGED <<locals, offs, bottom>>
Next == (\E k \in Kinds : Add(k)) \/ (\E i \in 1..MaxLocals : Reinit(i))
Spec == Init /\ [][Next]_vars

StackSize == AlignTo(bottom, 16)
Rbps == {1024, 1024 + 16}                                    \* rbp = 0 mod 16, both residues mod 32
Disjoint == \A i, j \in DOMAIN locals : i < j =>
              (offs[i] + locals[i].sz <= offs[j] \/ offs[j] + locals[j].sz <= offs[i])
InFrame == \A i \in DOMAIN locals : -StackSize <= offs[i] /\ offs[i] + locals[i].sz <= 0
Aligned == \A i \in DOMAIN locals : \A rbp \in Rbps : (rbp + offs[i]) % Req(locals[i]) = 0
(* initialisation of one local in a live frame *)
InitCovers == zr # <<>> => (zr[2] <= offs[zr[1]] /\ offs[zr[1]] + locals[zr[1]].sz <= zr[3])
InitExact  == zr # <<>> => /\ -StackSize <= zr[2] /\ zr[3] <= 0
                           /\ \A j \in DOMAIN locals \ {zr[1]} : (zr[3] <= offs[j] \/ offs[j] + locals[j].sz <= zr[2])
(* psABI: an array of at least 16 bytes is 16-byte aligned *)
Array16 == \A i \in DOMAIN locals : (locals[i].arr /\ locals[i].sz >= 16) => \A rbp \in Rbps : (rbp + offs[i]) % 16 = 0
=============================================================================
