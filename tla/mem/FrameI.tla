------------------------------- MODULE FrameI -------------------------------
(* C04, Level I: assign_lvar_offsets (codegen.c) for the locals of one function.

     bottom = 0;  for each local (in list order):
        align = (array of size >= 16) ? MAX(16, var->align) : var->align      (var->align = _Alignas or the type's)
        bottom += size;  bottom = align_to(bottom, align);  offset = -bottom
     stack_size = align_to(bottom, 16);   the object lives at [rbp + offset, rbp + offset + size)

   Level A (what C04 demands of simultaneously live objects): pairwise disjoint, each inside
   the frame [rbp - stack_size, rbp), each address a multiple of its alignment for EVERY rbp
   the ABI allows (rbp = 0 mod 16).  One action per loop iteration; all sequences of
   <= MaxLocals locals over the (size, alignment, is-array) alphabet.
   Variant "no_alignas" (var->align ignored, the type's alignment used) and "no_array16" are
   sensitivity controls.  With MaxAlign = 32 the model is REJECTED as it stands: rbp is only
   16-byte aligned, so rbp - 32k is not a multiple of 32 (recorded finding: over-aligned locals). *)
EXTENDS Integers, Sequences, TLC

CONSTANTS MaxLocals, MaxAlign, Variant

AlignTo(n, a) == ((n + a - 1) \div a) * a
Mx(a, b) == IF a > b THEN a ELSE b
(* alphabet: size, natural alignment of the type, _Alignas (0 = none), array? *)
Kinds == { [sz |-> s, tal |-> t, ual |-> x, arr |-> r] :
             s \in {1, 3, 8, 16, 17}, t \in {1, 8, 16}, x \in {0, 16, 32}, r \in BOOLEAN } 
Valid(k) == /\ k.sz % k.tal = 0 /\ (k.ual = 0 \/ k.ual >= k.tal) /\ k.ual <= MaxAlign
            /\ (k.tal = 16 => k.sz % 16 = 0)
Req(k) == IF k.ual > 0 THEN k.ual ELSE k.tal                     \* the alignment C requires

VARIABLES locals, offs, bottom
vars == <<locals, offs, bottom>>
Init == locals = <<>> /\ offs = <<>> /\ bottom = 0
Add(k) ==
  LET va == IF Variant = "no_alignas" THEN k.tal ELSE Req(k)
      al == IF k.arr /\ k.sz >= 16 /\ Variant # "no_array16" THEN Mx(16, va) ELSE va
      b2 == AlignTo(bottom + k.sz, al)
  IN /\ Len(locals) < MaxLocals /\ Valid(k)
     /\ locals' = Append(locals, k) /\ offs' = Append(offs, -b2) /\ bottom' = b2
Next == \E k \in Kinds : Add(k)
Spec == Init /\ [][Next]_vars

StackSize == AlignTo(bottom, 16)
Rbps == {1024, 1024 + 16}                                    \* rbp = 0 mod 16, both residues mod 32
Disjoint == \A i, j \in DOMAIN locals : i < j =>
              (offs[i] + locals[i].sz <= offs[j] \/ offs[j] + locals[j].sz <= offs[i])
InFrame == \A i \in DOMAIN locals : -StackSize <= offs[i] /\ offs[i] + locals[i].sz <= 0
Aligned == \A i \in DOMAIN locals : \A rbp \in Rbps : (rbp + offs[i]) % Req(locals[i]) = 0
(* psABI: an array of at least 16 bytes is 16-byte aligned *)
Array16 == \A i \in DOMAIN locals : (locals[i].arr /\ locals[i].sz >= 16) => \A rbp \in Rbps : (rbp + offs[i]) % 16 = 0
=============================================================================
