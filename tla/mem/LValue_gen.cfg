SPECIFICATION Spec
CONSTANTS Tiny = FALSE
 Walk = TRUE
 MaxSteps = 2
 EmitOut = TRUE
 Seed = 0
 Stride = 1
 Bound = 0
 UnitCheck = FALSE
INVARIANTS RoundTrip Frame FormsAgree PathsDisjoint CopyRefines CopyExact ExtentOK
CHECK_DEADLOCK FALSE
