SPECIFICATION Spec
CONSTANTS Tiny = FALSE
 Walk = TRUE
 MaxSteps = 2
 EmitOut = TRUE
 Bound = 0
INVARIANTS RoundTrip Frame FormsAgree PathsDisjoint CopyRefines CopyExact
CHECK_DEADLOCK FALSE
