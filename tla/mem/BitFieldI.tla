------------------------------ MODULE BitFieldI ------------------------------
(* C04, Level I: chibicc's bit-field access (codegen.c) against Level A, at
   scaled sizes: the register has R bits (64 in chibicc), storage units have
   R/8, R/4, R/2 and R bits (char, short, int, long).

     read   gen_expr ND_MEMBER:  load(unit, sign- or zero-extended by the declared type);
                                 shl $(R - w - off); sar|shr $(R - w)
     write  gen_expr ND_ASSIGN:  rdi = rhs & ((1 << w) - 1); rdi <<= off;
                                 rax = load(unit); rax &= ~(((1 << w) - 1) << off); rax |= rdi;
                                 store(unit)              (exactly the unit's bits are written)

   Memory is the unit plus two guard bits above it.  Every (unit, width, offset, signedness)
   with off + w <= unit, every memory pattern (= every neighbouring-bit pattern and old
   value), every new value with garbage above the width.
   Level A: the bits [off, off+w) become the low w bits of rhs, nothing else changes; the
   value read is those bits, sign-extended iff the field is signed (a _Bool field is unsigned).

   Variant = "ok"            the repaired algorithm
             "bool_signed"   pinned tree: a _Bool field is read with sar (1 reads as -1)
             "w64"           pinned tree: (1L << 64) - 1 evaluates to 0 (x86 shift count mod 64): a
                             full-width field is never written
             "mask_w1" "sar_shr" "shl_off1"   sensitivity controls
   all but "ok" must be REJECTED.                                                              *)
EXTENDS Integers, Sequences, TLC, SequencesExt

CONSTANTS R, Variant

P2(n) == 2 ^ n
Units == {x \in {R \div 8, R \div 4, R \div 2, R} : x >= 1}
BitsOf(x, lo, w) == (x \div P2(lo)) % P2(w)
BitAt(x, k) == (x \div P2(k)) % 2
Or(x, y) == FoldLeft(LAMBDA acc, k : acc + P2(k) * (IF BitAt(x, k) + BitAt(y, k) > 0 THEN 1 ELSE 0), 0, [k \in 1..R |-> k - 1])
And(x, y) == FoldLeft(LAMBDA acc, k : acc + P2(k) * BitAt(x, k) * BitAt(y, k), 0, [k \in 1..R |-> k - 1])
Not(x) == P2(R) - 1 - x
Shl(x, n) == (x * P2(n)) % P2(R)
Shr(x, n) == x \div P2(n)
Sar(x, n) == IF BitAt(x, R - 1) = 1 THEN (x \div P2(n)) + (P2(R) - P2(R - n)) ELSE x \div P2(n)
(* load(ty): movs / movz to the full register *)
Ext(v, u, signed) == IF signed /\ BitAt(v, u - 1) = 1 THEN v + (P2(R) - P2(u)) ELSE v

VARIABLES u, w, off, kind, mem      \* kind = "s" | "u" | "b" (_Bool: w = 1)
vars == <<u, w, off, kind, mem>>

Signed == kind = "s"
(* ---- Level I ---- *)
MaskW == IF Variant = "mask_w1" THEN P2(w + 1) - 1
         ELSE IF w = R THEN (IF Variant = "w64" THEN 0 ELSE P2(R) - 1)
         ELSE P2(w) - 1
ReadI(m) ==
  LET rax0 == Ext(BitsOf(m, 0, u), u, kind # "u")
      rax1 == Shl(rax0, IF Variant = "shl_off1" /\ R - w - off > 0 THEN R - w - off - 1 ELSE R - w - off)
      arith == IF Variant = "sar_shr" THEN FALSE
               ELSE IF kind = "b" THEN Variant = "bool_signed"
               ELSE kind = "s"
  IN IF arith THEN Sar(rax1, R - w) ELSE Shr(rax1, R - w)
WriteI(m, rhs) ==
  LET rdi  == Shl(And(rhs, MaskW % P2(R)), off)
      rax0 == Ext(BitsOf(m, 0, u), u, kind # "u")
      mask == Shl(MaskW % P2(R), off)
      rax1 == Or(And(rax0, Not(mask)), rdi)
  IN (m \div P2(u)) * P2(u) + (rax1 % P2(u))               \* store(): the low u bits
(* ---- Level A ---- *)
WriteA(m, rhs) == m - BitsOf(m, off, w) * P2(off) + (rhs % P2(w)) * P2(off)
ReadA(m) == LET f == BitsOf(m, off, w) IN IF Signed /\ BitAt(f, w - 1) = 1 THEN f + (P2(R) - P2(w)) ELSE f

(* new values: every value of the field, with all-zero and all-one garbage above the width *)
Rhs == { (f + g * P2(w)) % P2(R) : f \in 0..(P2(w) - 1), g \in {0, P2(R - w) - 1} }

Init == /\ u \in Units /\ w \in 1..R /\ off \in 0..(R - 1) /\ kind \in {"s", "u", "b"}
        /\ off + w <= u
        /\ kind = "b" => w = 1
        /\ mem = -1
(* one successor per memory pattern (spread over the TLC workers) *)
Next == mem = -1 /\ mem' \in 0..(P2(u + 2) - 1) /\ UNCHANGED <<u, w, off, kind>>
Spec == Init /\ [][Next]_vars

ReadRefines == mem >= 0 => ReadI(mem) = ReadA(mem)
WriteRefines == mem >= 0 => \A rhs \in Rhs : (kind = "b" => rhs \in {0, 1}) => WriteI(mem, rhs) = WriteA(mem, rhs)
RoundTrip == mem >= 0 => \A rhs \in Rhs : (kind = "b" => rhs \in {0, 1}) =>
                ReadI(WriteI(mem, rhs)) = (LET f == rhs % P2(w) IN IF Signed /\ BitAt(f, w - 1) = 1 THEN f + (P2(R) - P2(w)) ELSE f)
=============================================================================
