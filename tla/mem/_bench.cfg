SPECIFICATION Spec
CONSTANTS Tiny = TRUE
 Walk = FALSE
 MaxSteps = 0
 EmitOut = FALSE
 Bound = 0
