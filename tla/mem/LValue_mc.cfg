SPECIFICATION Spec
CONSTANTS Tiny = TRUE
 Walk = FALSE
 MaxSteps = 1
 EmitOut = FALSE
 Seed = 0
 Stride = 1
 Bound = 0
 UnitCheck = FALSE
INVARIANTS RoundTrip Frame FormsAgree PathsDisjoint CopyRefines CopyExact ExtentOK
CHECK_DEADLOCK FALSE
