------------------------------- MODULE LValue -------------------------------
(* C04.  Level A: object memory with lvalues, on top of the layout oracle of
   C08 (Layout.tla: StepA / LayoutA / SizeOf are INSTANCEd, not copied).

     memory   = map object -> byte array; a byte is 0..255 or -1 = unspecified
                (padding after a store that covers it, C11 6.2.6.1p6);
     lvalue   = [pos, w, sg, k]: the bits [pos, pos+w) of the object.  A scalar
                is the special case pos = 8*off, w = 8*size; a bit-field is
                [off, unit, bitoff, width, signed] with pos = 8*off + bitoff
                (Lv below prints both views);
     path     = sequence of hops (member j / element i) from the object's type;
                anonymous members are hops the C spelling does not show.  All
                the C spellings of a path (s.m, p->m, a[i], *(a+i), i[a],
                (&s)->m, ( *p).m, through char* + offset) evaluate to the same
                lvalue (FormsAgree).

   Actions (one per step of a replayed program):
     Store(p, v)        p = v                 (value of the expression = the
                                               stored value read back, 6.5.16p3)
     OpAssign(p, op)    p |= c, p ^= c, p += 1, p++, --p   (through the hidden
                                               pointer of to_assign in chibicc)
     NestedStore(p, r, how)  p = (r = v) | p = f() where f stores to r | p = ++r | p = r++ : the right-hand
                        side has a side effect on ANOTHER, disjoint lvalue of the same object; both
                        objects end up with their values whatever the order of the two stores, so an
                        implementation that merges a stale copy of a shared storage unit is wrong
     StoreAgg(p, v)     p = tmp  for an aggregate / floating member (bytes)
     CopyAgg            obj = src  /  ( *p) = ( *q) (whole aggregate)
     ZeroFill(p, v)     T obj = { .first = v }  (the rest is zero: ND_MEMZERO)
   Load(p) is the state function LoadLv.

   Invariants of Level A itself (checked by TLC on every reachable state):
     RoundTrip  the value read back is the stored value truncated to the width
                and sign-/zero-extended;
     Frame      a step changes only the bits of its lvalue; guards, the source
                object and every other bit of the object are unchanged;
     FormsAgree every spelling designates the same bits;
     PathsDisjoint distinct leaf paths of a struct designate disjoint bits
                (union members overlap, that is what a union is).

   Objects with temporary lifetime (a call returning an aggregate, addressed through a decayed array
   member until the end of the full expression, 6.2.4p8) obey the same two clauses - live objects are
   disjoint and keep their values; they are created by calls, not declarations, and are modelled in
   Temps.tla.

   Level I in this module: chibicc's byte loop for aggregates (store(),
   `for i < size`) against CopyAgg (CopyLoop = TRUE .. bound `Bound`).  The
   bit-field shift pair / mask-merge, assign_lvar_offsets and the alloca
   shuffle are in BitFieldI.tla, FrameI.tla, AllocaI.tla.

   Generation: in the generation configuration (Walk = TRUE) each shape is
   walked once: every path is stored to in turn with rotating value kinds,
   then the op-assign round, the nested-side-effect round, copy and zero fill; every step is written out
   with the memory Level A expects after it.                                *)
EXTENDS Integers, Sequences, FiniteSets, TLC, Json, CSV, IOUtils, SequencesExt

CONSTANTS Tiny,       \* TRUE: reduced alphabet, free exploration (every path x value kind at each step)
          Walk,       \* TRUE: guided walk per shape (generation); FALSE: free exploration
          MaxSteps,   \* depth of the free exploration
          EmitOut,    \* write every step to IOEnv.OUT
          Seed, Stride,   \* subsample of the shapes: those with (index * 7919 + Seed) % Stride = 0
          Bound,      \* Level I byte loop: copies bytes 0 .. size-1-Bound  (0 = chibicc; 1 must be rejected)
          UnitCheck   \* TRUE: also demand that every bit-field storage unit chibicc addresses lies inside the object
                      \*       (Extent below; refuted for packed aggregates - recorded finding C04-F6)

L == INSTANCE Layout WITH MaxLen <- 2, Small <- FALSE, Pinned <- FALSE, Emit <- FALSE,
       union <- FALSE, attr <- [packed |-> FALSE, aln |-> 0], ms <- <<>>, curA <- 0, curI <- 0

Cat(ss) == FoldLeft(LAMBDA a, b : a \o b, <<>>, ss)
Range0(n) == [i \in 1..n |-> i - 1]
(* TLC evaluates [j \in S |-> e] lazily, element by element, every time it is applied; nested bit
   operators would re-evaluate each other exponentially.  MkSeq builds the sequence eagerly. *)
MkSeq(n, f(_)) == FoldLeft(LAMBDA acc, j : Append(acc, f(j)), <<>>, [j \in 1..n |-> j])

----------------------------------------------------------------------------
(* Types.  k = "int" | "fp" | "arr" | "agg" | "bf".  Aggregates carry the
   placement of their members as computed by Layout!LayoutA.               *)
Base(id, k, sz, al) ==
  [id |-> id, k |-> k, sz |-> sz, al |-> al, sg |-> TRUE, vb |-> sz, n |-> 0, sub |-> <<>>, pl |-> <<>>,
   w |-> 0, t |-> "", named |-> TRUE, anon |-> FALSE, ua |-> FALSE, packed |-> FALSE, union |-> FALSE, aln |-> 0]
IntT(id, sz, sg) == [Base(id, "int", sz, sz) EXCEPT !.sg = sg]
Fp(id, sz, vb)  == [Base(id, "fp", sz, sz) EXCEPT !.vb = vb]
Arr(id, el, n)  == [Base(id, "arr", el.sz * n, el.al) EXCEPT !.n = n, !.sub = <<el>>]
BfM(t, sz, sg, w, named) ==
  [Base((IF named THEN "bf_" ELSE "ubf_") \o t \o "_" \o ToString(w), "bf", sz, sz)
     EXCEPT !.sg = sg, !.w = w, !.t = t, !.named = named]
AlignAs(id, al) == [IntT(id, 1, TRUE) EXCEPT !.al = al, !.ua = TRUE]
ToL(m) == IF m.k = "bf" THEN L!Bf(m.t, m.sz, m.w, m.named)
          ELSE [L!Obj(m.id, m.sz, m.al) EXCEPT !.ua = m.ua]
Agg(id, ms, packed, union, aln) ==
  LET c == L!LayoutA([i \in DOMAIN ms |-> ToL(ms[i])], packed, union, aln)
  IN [Base(id, "agg", L!SizeOf(c), c.al) EXCEPT !.sub = ms, !.pl = c.pl, !.packed = packed,
                                                 !.union = union, !.aln = aln]
Anon(a) == [a EXCEPT !.anon = TRUE]

TChar == IntT("char", 1, TRUE)   TShort == IntT("short", 2, TRUE)  TInt == IntT("int", 4, TRUE)
TLong == IntT("long", 8, TRUE)   TPtr == IntT("ptr", 8, FALSE)     TUChar == IntT("uchar", 1, FALSE)
SCI == Agg("s_ci", <<TChar, TInt>>, FALSE, FALSE, 0)

BfBase == << <<"char", 1, TRUE>>, <<"short", 2, TRUE>>, <<"int", 4, TRUE>>, <<"uint", 4, FALSE>>, <<"long", 8, TRUE>>,
             <<"uchar", 1, FALSE>>, <<"ushort", 2, FALSE>>, <<"ulong", 8, FALSE>>, <<"bool", 1, FALSE>>, <<"enum", 4, TRUE>> >>
BfWidths == {1, 3, 7, 8, 9, 15, 16, 17, 31, 32, 33, 63, 64}
Bfs == UNION { { BfM(BfBase[i][1], BfBase[i][2], BfBase[i][3], w, TRUE)
                   : w \in {x \in BfWidths : x <= BfBase[i][2] * 8 /\ (BfBase[i][1] = "bool" => x = 1)} }
               : i \in DOMAIN BfBase }

Scalars == { TChar, TShort, TInt, TLong, TPtr, TUChar, IntT("ushort", 2, FALSE), IntT("uint", 4, FALSE),
             Fp("float", 4, 4), Fp("double", 8, 8), Fp("ldouble", 16, 10) }
Nested == { Arr("char3", TChar, 3), Arr("int2", TInt, 2), Arr("char5", TChar, 5), Arr("short7", TShort, 7),
            Arr("float3", Fp("float", 4, 4), 3),      \* struct {float[3];}: 12 bytes, both eightbytes of class SSE (returned in xmm0:xmm1)
            Arr("int2x2", Arr("int2", TInt, 2), 2),
            SCI,                                                          \* struct {char; int;}
            Agg("s_c3", <<Arr("char3", TChar, 3)>>, FALSE, FALSE, 0),     \* struct {char[3];}   size 3
            Agg("s_c5", <<TChar, TChar, Arr("char3", TChar, 3)>>, FALSE, FALSE, 0),   \* size 5
            Agg("s_c7", <<Arr("char5", TChar, 5), TChar, TChar>>, FALSE, FALSE, 0),   \* size 7
            Agg("u_lc", <<TLong, TChar>>, FALSE, TRUE, 0),
            Agg("sp_ci", <<TChar, TInt>>, TRUE, FALSE, 0),
            Agg("s16_i", <<TInt>>, FALSE, FALSE, 16),
            Agg("s_bf", <<BfM("int", 4, TRUE, 3, TRUE), BfM("uint", 4, FALSE, 7, TRUE), TChar>>, FALSE, FALSE, 0),
            Arr("s_ci_2", SCI, 2),                                        \* array of structs
            Agg("s_arr_s", <<TChar, Arr("s_ci_2", SCI, 2)>>, FALSE, FALSE, 0),  \* struct with an array of structs
            Anon(Agg("anon_cs", <<TChar, TShort>>, FALSE, FALSE, 0)),      \* struct {char; short;};
            Anon(Agg("anon_u", <<TInt, Arr("char3", TChar, 3)>>, FALSE, TRUE, 0)),   \* union {int; char[3];};
            Anon(Agg("anon_su", <<TChar, Anon(Agg("anon_u2", <<TShort, TLong>>, FALSE, TRUE, 0))>>, FALSE, FALSE, 0)),
            Anon(Agg("anon_bf", <<BfM("int", 4, TRUE, 5, TRUE), BfM("long", 8, TRUE, 33, TRUE)>>, FALSE, FALSE, 0)),
            AlignAs("al8_char", 8), AlignAs("al16_char", 16) }
Unnamed == { BfM("int", 4, TRUE, 3, FALSE), BfM("int", 4, TRUE, 0, FALSE), BfM("long", 8, TRUE, 33, FALSE) }
TinyIds == {"char", "long", "ldouble", "char3", "s_ci", "anon_su", "bf_int_3", "bf_uint_7", "bf_long_33", "bf_bool_1",
            "bf_char_8", "bf_long_64", "s_c5"}
Targets == IF Tiny THEN {m \in Scalars \cup Nested \cup Bfs : m.id \in TinyIds} ELSE Scalars \cup Nested \cup Bfs
(* neighbours inside the aggregate, before and after the target *)
None == Base("none", "none", 0, 1)
Before == IF Tiny THEN {None, TChar, BfM("int", 4, TRUE, 3, TRUE)}
          ELSE {None, TChar, BfM("int", 4, TRUE, 3, TRUE), BfM("uchar", 1, FALSE, 5, TRUE)} \cup Unnamed
After == IF Tiny THEN {None, TChar, BfM("uint", 4, FALSE, 7, TRUE)}
         ELSE {None, TChar, BfM("uint", 4, FALSE, 7, TRUE), BfM("long", 8, TRUE, 9, TRUE)}
Kinds == {"struct", "packed", "union"}

Members(b, t, a) == SelectSeq(<<b, t, a>>, LAMBDA m : m.k # "none")
(* the domain: D24 (packed bit-field crossing a storage unit: gcc and chibicc lay it out
   differently, open C08 finding) and what C08 excludes are kept out               *)
CrossesUnit(T) == \E i \in DOMAIN T.sub : /\ T.sub[i].k = "bf" /\ T.sub[i].w > 0
                                          /\ (T.pl[i].pos % (T.sub[i].sz * 8)) + T.sub[i].w > T.sub[i].sz * 8
InDomain(b, t, a, kind) ==
  LET ms == Members(b, t, a) IN
  /\ (kind # "struct") => \A i \in DOMAIN ms : ~(ms[i].k = "bf" /\ ms[i].w = 0) /\ ~ms[i].ua
  /\ (kind = "union") => b.named /\ (b.k = "none" \/ a.k = "none")     \* unions: at most one neighbour
  /\ \E i \in DOMAIN ms : ms[i].k # "bf" \/ ms[i].named
Shape(b, t, a, kind) == Agg("T", Members(b, t, a), kind = "packed", kind = "union", 0)
----------------------------------------------------------------------------
(* Paths.  A path is [hops, pos, ty]: hops = <<[h |-> "m" | "i", i |-> index]>>,
   pos = bit position in the object, ty = the designated (sub)object's type. *)
IdxPat(n) == IF n <= 3 THEN Range0(n) ELSE <<0, n - 1>>              \* first / last / each
RECURSIVE PathsOf(_, _, _)
PathsOf(ty, pos, hops) ==
  CASE ty.k \in {"int", "fp", "bf"} -> << [hops |-> hops, pos |-> pos, ty |-> ty] >>
    [] ty.k = "arr" ->
         Cat([x \in DOMAIN IdxPat(ty.n) |->
                PathsOf(ty.sub[1], pos + IdxPat(ty.n)[x] * ty.sub[1].sz * 8,
                        Append(hops, [h |-> "i", i |-> IdxPat(ty.n)[x]]))])
    [] ty.k = "agg" ->
         (IF hops = <<>> \/ ty.anon THEN <<>> ELSE << [hops |-> hops, pos |-> pos, ty |-> ty] >>) \o
         Cat([j \in DOMAIN ty.sub |->
                IF ty.sub[j].k = "bf" /\ (~ty.sub[j].named \/ ty.sub[j].w = 0) THEN <<>>
                ELSE PathsOf(ty.sub[j], pos + ty.pl[j].pos, Append(hops, [h |-> "m", i |-> j - 1]))])
Paths(T) == PathsOf(T, 0, <<>>)
IsBits(p) == p.ty.k \in {"int", "bf"}
Width(p) == IF p.ty.k = "bf" THEN p.ty.w ELSE p.ty.sz * 8
(* the two views of an lvalue named in the design *)
Lv(p) == IF p.ty.k = "bf"
         THEN LET u == p.ty.sz * 8 IN
              [obj |-> "obj", off |-> (p.pos \div u) * p.ty.sz, unit |-> p.ty.sz, bitoff |-> p.pos % u,
               width |-> p.ty.w, signed |-> p.ty.sg]
         ELSE [obj |-> "obj", off |-> p.pos \div 8, size |-> p.ty.sz]

(* Extent.  Level A: an access to (a part of) an object of n bytes touches bytes of [0, n) of that object and nothing
   else - observable when the object ends (or starts) at a page boundary and the neighbouring page is inaccessible
   (storage classes pgend / pgstart of the replay).  Level I, the byte range each access of chibicc touches:
     scalar member / element     load(ty) / store(ty): the `size` bytes at its offset
     bit-field                   load(mem->ty) and the read-modify-write of ND_ASSIGN: the whole storage unit of the
                                 DECLARED type at mem->offset = align_down(bit position / 8, unit)   (struct_decl)
     aggregate member / object   store(): byte loop over [off, off + size)
   AccessI gives [lo, hi); ExtentOK says it lies inside the object.  For a packed aggregate the object may end before
   the unit does (struct __attribute__((packed)) { char c; int x:3; } has size 2, the unit of x is bytes 0..3). *)
AccessI(p) == IF p.ty.k = "bf" THEN LET u == p.ty.sz * 8 IN [lo |-> (p.pos \div u) * p.ty.sz, hi |-> (p.pos \div u) * p.ty.sz + p.ty.sz]
              ELSE [lo |-> p.pos \div 8, hi |-> p.pos \div 8 + p.ty.sz]
Inside(p, size) == AccessI(p).lo >= 0 /\ AccessI(p).hi <= size

(* value mask of a type: TRUE = the byte holds (part of) a value, FALSE = padding *)
RECURSIVE VMask(_)
VMask(ty) ==
  CASE ty.k = "int" -> [i \in 1..ty.sz |-> TRUE]
    [] ty.k = "fp"  -> [i \in 1..ty.sz |-> i <= ty.vb]
    [] ty.k = "arr" -> Cat([i \in 1..ty.n |-> VMask(ty.sub[1])])
    [] ty.k = "agg" ->
         FoldLeft(LAMBDA acc, j :
                    LET m == ty.sub[j]
                        o == ty.pl[j].pos \div 8 IN
                    IF m.k = "bf"
                    THEN IF m.w = 0 \/ ~m.named THEN acc
                         ELSE [i \in DOMAIN acc |-> acc[i] \/ (o <= i - 1 /\ i - 1 <= (ty.pl[j].pos + m.w - 1) \div 8)]
                    ELSE LET sm == VMask(m) IN
                         [i \in DOMAIN acc |-> acc[i] \/ (o <= i - 1 /\ i - 1 < o + m.sz /\ sm[i - o])],
                  [i \in 1..ty.sz |-> FALSE], [j \in DOMAIN ty.sub |-> j])

(* pointer model for FormsAgree: a pointer is a byte offset into the object;
   `.m` adds the member offset to the address of its aggregate, `[i]` / `*(a+i)` / `i[a]`
   scale the index by the element size, `(char * )&s + off` adds bytes                   *)
RECURSIVE ByHops(_, _, _, _)
ByHops(ty, hops, k, addr) ==
  IF k > Len(hops) THEN addr
  ELSE IF hops[k].h = "i" THEN ByHops(ty.sub[1], hops, k + 1, addr + hops[k].i * ty.sub[1].sz)      \* ptr + i*sizeof
  ELSE LET m == ty.sub[hops[k].i + 1] IN
       IF m.k = "bf" THEN addr + ((ty.pl[hops[k].i + 1].pos \div (m.sz * 8)) * m.sz)                    \* unit address
       ELSE ByHops(m, hops, k + 1, addr + ty.pl[hops[k].i + 1].pos \div 8)
Forms == {"dot", "arrow", "addr_arrow", "deref_dot", "index", "ptr_add", "rev_index", "charcast"}
EvalForm(f, T, p) == IF f = "charcast" /\ p.ty.k # "bf" THEN p.pos \div 8 ELSE ByHops(T, p.hops, 1, 0)

(* Rows of a 2-D VLA `T a[n][m]` (element size esz): a pointer to a row is a byte offset into the block;
   pointer +/- integer scales by the RUN-TIME row size m*esz, the difference of two row pointers counts
   rows; a[x][y], ( *(end - k))[y], (&a[i] - k)[0][y], p -= k, --p all designate RowAddr + y*esz.
   (Replayed by c04_blocks.py contexts vla2d / vla_sub / vla_ptrdiff.)                                  *)
RowAddr(m, esz, x) == x * (m * esz)
RowAdd(ptr, k, m, esz) == ptr + k * (m * esz)
RowSub(ptr, k, m, esz) == ptr - k * (m * esz)
RowDiff(p1, p2, m, esz) == (p1 - p2) \div (m * esz)
ASSUME \A n \in 1..4, m \in {1, 3}, k \in 0..4 : k <= n =>
         /\ RowSub(RowAddr(m, 4, n), k, m, 4) = RowAddr(m, 4, n - k)
         /\ RowAdd(RowSub(RowAddr(m, 4, n), k, m, 4), k, m, 4) = RowAddr(m, 4, n)
         /\ RowDiff(RowAddr(m, 4, n), RowAddr(m, 4, n - k), m, 4) = k

----------------------------------------------------------------------------
(* Bytes and bits *)
Bit(bs, i) == (bs[(i \div 8) + 1] \div (2 ^ (i % 8))) % 2
Pack(f(_)) == f(0) + 2 * f(1) + 4 * f(2) + 8 * f(3) + 16 * f(4) + 32 * f(5) + 64 * f(6) + 128 * f(7)
(* bits [pos, pos+w) of m := low w bits of the 8-byte value v *)
SetBits(m, pos, w, v) ==
  MkSeq(Len(m), LAMBDA j :
     IF (j - 1) * 8 + 7 < pos \/ (j - 1) * 8 >= pos + w THEN m[j]
     ELSE IF m[j] < 0 /\ ((j - 1) * 8 < pos \/ (j - 1) * 8 + 7 >= pos + w) THEN -1     \* part of an unspecified byte
     ELSE LET b(k) == LET i == (j - 1) * 8 + k IN IF i >= pos /\ i < pos + w THEN Bit(v, i - pos) ELSE Bit(m, i)
          IN Pack(b))
(* the 8-byte value of bits [pos, pos+w), sign- or zero-extended *)
GetBits(m, pos, w, sg) ==
  MkSeq(8, LAMBDA j :
     LET b(k) == LET i == (j - 1) * 8 + k IN
                 IF i < w THEN Bit(m, pos + i) ELSE IF sg THEN Bit(m, pos + w - 1) ELSE 0
     IN Pack(b))
(* value kinds.  For integers any bytes do (bits above the width must be cut off); floating
   values are normal numbers so that no x87 / SSE move can alter them.                    *)
IntVal(kind) ==
  CASE kind = "ones" -> <<255, 255, 255, 255, 255, 255, 255, 255>>
    [] kind = "pat"  -> <<165, 60, 90, 195, 105, 150, 30, 113>>          \* top bit clear
    [] kind = "neg"  -> <<91, 194, 37, 188, 70, 169, 225, 142>>          \* top bit set
    [] kind = "one"  -> <<1, 0, 0, 0, 0, 0, 0, 0>>
    [] kind = "zero" -> <<0, 0, 0, 0, 0, 0, 0, 0>>
BoolVal(kind) == IF kind = "zero" THEN IntVal("zero") ELSE IntVal("one")
FpVal(sz, kind) ==
  LET hi == IF kind \in {"pat", "one"} THEN 64 ELSE 192 IN
  CASE sz = 4  -> <<17 + hi \div 64, 34, 51, hi + 1>>
    [] sz = 8  -> <<17 + hi \div 64, 34, 51, 68, 85, 102, 23, hi>>
    [] sz = 16 -> <<17 + hi \div 64, 34, 51, 68, 85, 102, 119, 136 + hi \div 64, 1, hi, 0, 0, 0, 0, 0, 0>>
RECURSIVE ValOf(_, _)
ValOf(ty, kind) ==
  CASE ty.k = "int" -> SubSeq(IntVal(kind), 1, ty.sz)
    [] ty.k = "fp"  -> FpVal(ty.sz, kind)
    [] ty.k = "arr" -> Cat([i \in 1..ty.n |-> ValOf(ty.sub[1], IF i % 2 = 1 THEN kind ELSE "neg")])
    [] ty.k = "agg" -> [i \in 1..ty.sz |-> (IntVal(kind)[((i - 1) % 8) + 1] + 16 * ((i - 1) \div 8)) % 256]
VKinds == {"ones", "pat", "neg", "one", "zero"}

Fill(o, n) == [j \in 1..n |-> ((CASE o = "pre" -> 33 [] o = "obj" -> 97 [] o = "post" -> 161 [] o = "src" -> 19) + 7 * j) % 256]
GuardSize == 16

----------------------------------------------------------------------------
VARIABLES T,      \* the aggregate type of "obj" and "src"
          mem,    \* object -> bytes
          prev,   \* memory before the last step (for Frame)
          last,   \* what the last step was and what the program must print for it
          n,      \* steps taken
          ps,     \* Paths(T), evaluated once
          vm,     \* VMask(T), evaluated once
          sid     \* index of the shape (key of the emitted steps)
vars == <<T, mem, prev, last, n, ps, vm, sid>>

InitMem(t) == [pre |-> Fill("pre", GuardSize), obj |-> Fill("obj", t.sz), post |-> Fill("post", GuardSize),
               src |-> Fill("src", t.sz)]
NoStep == [act |-> "init", pi |-> 0, v |-> "", op |-> "", res |-> <<>>, pos |-> 0, w |-> 0, unspec |-> FALSE, pj |-> 0, pos2 |-> 0, w2 |-> 0]
BS == SetToSeq(Before)   TS == SetToSeq(Targets)   AS == SetToSeq(After)   KS == <<"struct", "packed", "union">>
NShapes == Len(BS) * Len(TS) * Len(AS) * 3
Init == /\ \E bi \in DOMAIN BS, ti \in DOMAIN TS, ai \in DOMAIN AS, ki \in 1..3 :
             LET i == (((bi - 1) * Len(TS) + ti - 1) * Len(AS) + ai - 1) * 3 + ki IN
             /\ (i * 7919 + Seed) % Stride = 0
             /\ InDomain(BS[bi], TS[ti], AS[ai], KS[ki])
             /\ sid = i /\ T = Shape(BS[bi], TS[ti], AS[ai], KS[ki])
        /\ ~CrossesUnit(T)
        /\ mem = InitMem(T) /\ prev = mem /\ last = NoStep /\ n = 0 /\ ps = Paths(T) /\ vm = VMask(T)

(* a bit-field of a union may share a byte with the padding of another member that an aggregate store
   left unspecified; such a byte stays unspecified and is not compared                              *)
Defined(m, pos, w) == \A j \in (pos \div 8 + 1)..((pos + w - 1) \div 8 + 1) : m[j] >= 0
LoadLv(m, p) == IF IsBits(p) THEN GetBits(m.obj, p.pos, Width(p), p.ty.sg)
                ELSE SubSeq(m.obj, p.pos \div 8 + 1, p.pos \div 8 + p.ty.sz)
Mask(bytes, mask) == MkSeq(Len(bytes), LAMBDA i : IF mask[i] THEN bytes[i] ELSE -1)
PutBytes(m, off, bytes) == MkSeq(Len(m), LAMBDA j : IF j - 1 >= off /\ j - 1 < off + Len(bytes) THEN bytes[j - off] ELSE m[j])

Case(step) == [sid |-> sid, shape |-> IF n = 0 THEN T ELSE <<>>, step |-> n + 1, a |-> step, mem |-> mem',
               paths |-> IF n > 0 THEN <<>> ELSE
                         [i \in DOMAIN ps |-> [hops |-> ps[i].hops, lv |-> Lv(ps[i]), k |-> ps[i].ty.k, id |-> ps[i].ty.id,
                                                over |-> ~Inside(ps[i], T.sz),
                                                sg |-> ps[i].ty.sg, t |-> ps[i].ty.t, vm |-> IF ps[i].ty.k = "agg" THEN VMask(ps[i].ty) ELSE <<>>]],
               vm |-> IF n = 0 THEN vm ELSE <<>>]
Out(step) == EmitOut => CSVWrite("%1$s", <<ToJson(Case(step))>>, IOEnv.OUT)
Step(m2, step) == /\ prev' = mem /\ mem' = m2 /\ last' = step /\ n' = n + 1 /\ UNCHANGED <<T, ps, vm, sid>> /\ Out(step)

(* p = v for an integer or bit-field lvalue *)
StoreV(pi, kind) ==
  LET p == ps[pi]
      v == IF p.ty.k = "bf" /\ p.ty.t = "bool" THEN BoolVal(kind) ELSE IntVal(kind)
      o2 == SetBits(mem.obj, p.pos, Width(p), v)
  IN Step([mem EXCEPT !.obj = o2],
          [act |-> "store", pi |-> pi, v |-> kind, op |-> "", res |-> GetBits(o2, p.pos, Width(p), p.ty.sg),
           pos |-> p.pos, w |-> Width(p), unspec |-> FALSE, pj |-> 0, pos2 |-> 0, w2 |-> 0])

(* p = tmp for a floating / aggregate member: value bytes are copied, padding becomes unspecified *)
StoreB(pi, kind) ==
  LET p == ps[pi]
      bytes == Mask(ValOf(p.ty, kind), VMask(p.ty))
      o2 == PutBytes(mem.obj, p.pos \div 8, bytes)
  IN Step([mem EXCEPT !.obj = o2],
          [act |-> "storeagg", pi |-> pi, v |-> kind, op |-> "", res |-> bytes, pos |-> p.pos, w |-> p.ty.sz * 8,
           unspec |-> TRUE, pj |-> 0, pos2 |-> 0, w2 |-> 0])

(* 8-byte arithmetic for op-assign *)
Inc(v) == LET r == FoldLeft(LAMBDA acc, b : <<Append(acc[1], (b + acc[2]) % 256), (b + acc[2]) \div 256>>, <<<<>>, 1>>, v) IN r[1]
Dec(v) == LET r == FoldLeft(LAMBDA acc, b : <<Append(acc[1], (b + 256 - acc[2]) % 256), IF b - acc[2] < 0 THEN 1 ELSE 0>>, <<<<>>, 1>>, v) IN r[1]
OpC == <<90, 165, 15, 240, 51, 204, 85, 170>>
BitOp(v, c, f(_, _)) == MkSeq(8, LAMBDA j : LET b(k) == f(Bit(v, (j - 1) * 8 + k), Bit(c, (j - 1) * 8 + k)) IN Pack(b))
Apply(op, v) ==
  CASE op = "or"  -> BitOp(v, OpC, LAMBDA x, y : IF x + y > 0 THEN 1 ELSE 0)
    [] op = "xor" -> BitOp(v, OpC, LAMBDA x, y : (x + y) % 2)
    [] op = "and" -> BitOp(v, OpC, LAMBDA x, y : x * y)
    [] op \in {"add1", "postinc", "preinc"} -> Inc(v)
    [] op \in {"predec", "postdec"} -> Dec(v)
Ops == {"or", "xor", "and", "add1", "postinc", "preinc", "predec", "postdec"}
(* definedness: no signed overflow in the promoted arithmetic (6.5p5).  A field narrower than
   its arithmetic type wraps by conversion (implementation-defined, modulo 2^w on both compilers). *)
ArithW(p) == IF p.ty.sz = 8 THEN 64 ELSE 32
OpDefined(p, op, cur) ==
  \/ op \in {"or", "xor", "and"}
  \/ ~p.ty.sg \/ Width(p) < ArithW(p)
  \/ /\ op \in {"add1", "postinc", "preinc"} => \E i \in 0..(Width(p) - 2) : Bit(cur, i) = 0
     /\ op \in {"predec", "postdec"} => \E i \in 0..(Width(p) - 2) : Bit(cur, i) = 1
OpAssign(pi, op) ==
  LET p == ps[pi]
      cur == GetBits(mem.obj, p.pos, Width(p), p.ty.sg)
      o2 == SetBits(mem.obj, p.pos, Width(p), Apply(op, cur))
  IN /\ OpDefined(p, op, cur) = TRUE
     /\ ~(p.ty.k = "bf" /\ p.ty.t = "bool")
     /\ Step([mem EXCEPT !.obj = o2],
             [act |-> "opassign", pi |-> pi, v |-> "", op |-> op,
              res |-> IF op \in {"postinc", "postdec"} THEN cur ELSE GetBits(o2, p.pos, Width(p), p.ty.sg),
              pos |-> p.pos, w |-> Width(p), unspec |-> FALSE, pj |-> 0, pos2 |-> 0, w2 |-> 0])

(* p = <expression with a side effect on r>, r another lvalue of the object with disjoint bits.
   how = "chain"  p = (r = v)        "call"  p = f(&obj), f stores v to r and returns a constant
         "preinc" p = ++r            "postinc" p = r++
   Level A: the side effect on r and the store to p both take place (6.5.16p3: the value
   computation of the right operand precedes the store to p; r and p are different objects).  *)
Disj(p, r) == p.pos + Width(p) <= r.pos \/ r.pos + Width(r) <= p.pos
IsBool(p) == p.ty.k = "bf" /\ p.ty.t = "bool"
NestOK(pi, pj) == /\ pi # pj /\ IsBits(ps[pi]) /\ IsBits(ps[pj]) /\ Disj(ps[pi], ps[pj])
                  /\ Defined(mem.obj, ps[pi].pos, Width(ps[pi])) /\ Defined(mem.obj, ps[pj].pos, Width(ps[pj]))
IncOK(pj) == ~IsBool(ps[pj]) /\ (OpDefined(ps[pj], "preinc", GetBits(mem.obj, ps[pj].pos, Width(ps[pj]), ps[pj].ty.sg)) = TRUE)
NestedStore(pi, pj, how, kind) ==
  LET p == ps[pi]
      r == ps[pj]
      v == IF IsBool(r) THEN BoolVal(kind) ELSE IntVal(kind)
      cur == GetBits(mem.obj, r.pos, Width(r), r.ty.sg)
      o1 == SetBits(mem.obj, r.pos, Width(r), IF how \in {"chain", "call"} THEN v ELSE Inc(cur))
      rv == CASE how = "call" -> IntVal("pat") [] how = "postinc" -> cur [] OTHER -> GetBits(o1, r.pos, Width(r), r.ty.sg)
      rv2 == IF IsBool(p) THEN (IF rv = IntVal("zero") THEN IntVal("zero") ELSE IntVal("one")) ELSE rv
      o2 == SetBits(o1, p.pos, Width(p), rv2)
  IN /\ NestOK(pi, pj)
     /\ how \in {"preinc", "postinc"} => IncOK(pj)
     /\ Step([mem EXCEPT !.obj = o2],
             [act |-> "nested", pi |-> pi, v |-> kind, op |-> how, res |-> GetBits(o2, p.pos, Width(p), p.ty.sg),
              pos |-> p.pos, w |-> Width(p), unspec |-> FALSE, pj |-> pj, pos2 |-> r.pos, w2 |-> Width(r)])
NHows == {"chain", "call", "preinc", "postinc"}

(* obj = src  (also spelled *p = *q, and as a struct returned by value) *)
CopyA(m) == [m EXCEPT !.obj = Mask(m.src, vm)]
(* Level I: store() copies size bytes one at a time *)
CopyI(m) == [m EXCEPT !.obj = FoldLeft(LAMBDA acc, i : IF i < T.sz - Bound /\ i < Len(acc) THEN [acc EXCEPT ![i + 1] = m.src[i + 1]] ELSE acc,
                                       m.obj, Range0(T.sz + 1))]
CopyAgg == Step(CopyA(mem), [act |-> "copy", pi |-> 0, v |-> "", op |-> "", res |-> <<>>, pos |-> 0, w |-> T.sz * 8, unspec |-> TRUE, pj |-> 0, pos2 |-> 0, w2 |-> 0])

(* T obj = { first leaf = v }: every other value byte is zero (6.7.9p19/p21), padding unspecified *)
ZeroFill(pi, kind) ==
  LET p == ps[pi]
      z == Mask([j \in 1..T.sz |-> 0], vm)
      o2 == IF IsBits(p) THEN SetBits(z, p.pos, Width(p), IF p.ty.t = "bool" THEN BoolVal(kind) ELSE IntVal(kind))
            ELSE PutBytes(z, p.pos \div 8, Mask(ValOf(p.ty, kind), VMask(p.ty)))
  IN Step([mem EXCEPT !.obj = o2],
          [act |-> "zerofill", pi |-> pi, v |-> kind, op |-> "", res |-> <<>>, pos |-> 0, w |-> T.sz * 8, unspec |-> TRUE, pj |-> 0, pos2 |-> 0, w2 |-> 0])

(* free exploration: every path x value kind / op at every step *)
FreeNext ==
  /\ n < MaxSteps
  /\ \/ \E pi \in DOMAIN ps, kind \in VKinds :
          IF IsBits(ps[pi]) THEN StoreV(pi, kind) ELSE (kind \in {"pat", "neg"} /\ StoreB(pi, kind))
     \/ \E pi \in DOMAIN ps, op \in Ops : IsBits(ps[pi]) /\ OpAssign(pi, op)
     \/ \E pi \in DOMAIN ps, d \in {1, Len(ps) - 1}, how \in NHows :
          LET pj == ((pi - 1 + d) % Len(ps)) + 1 IN Len(ps) > 1 /\ NestedStore(pi, pj, how, "neg")
     \/ CopyAgg
     \/ \E pi \in DOMAIN ps : ps[pi].ty.k # "agg" /\ ZeroFill(pi, "pat")
(* guided walk: round 1 stores to every path in turn (value kinds rotate), round 2 op-assigns
   every integer path, then the copy and the zero fill                                         *)
KSeq == <<"ones", "pat", "neg", "zero", "one">>
NSeq == <<"chain", "postinc", "call", "preinc">>
OSeq == <<"or", "postinc", "xor", "predec", "add1", "and", "preinc", "postdec">>
WalkNext ==
  LET np == Len(ps) IN
  \/ /\ n < np
     /\ LET pi == n + 1
            kind == KSeq[((n + Len(T.sub)) % 5) + 1] IN
        IF IsBits(ps[pi]) THEN StoreV(pi, kind)
        ELSE StoreB(pi, IF kind \in {"ones", "neg", "zero"} THEN "neg" ELSE "pat")
  \/ /\ n >= np /\ n < 2 * np
     /\ LET pi == n - np + 1
            op == OSeq[((n + T.sz) % 8) + 1] IN
        IF IsBits(ps[pi]) /\ ~(ps[pi].ty.k = "bf" /\ ps[pi].ty.t = "bool")
           /\ OpDefined(ps[pi], op, GetBits(mem.obj, ps[pi].pos, Width(ps[pi]), ps[pi].ty.sg))
        THEN OpAssign(pi, op)
        ELSE IF IsBits(ps[pi]) THEN StoreV(pi, "one") ELSE StoreB(pi, "pat")
  \/ /\ n >= 2 * np /\ n < 3 * np                       \* round 3: the right-hand side writes the next disjoint integer path
     /\ LET pi == n - 2 * np + 1
            cand == SelectSeq([x \in 1..(np - 1) |-> ((pi - 1 + x) % np) + 1], LAMBDA pj : NestOK(pi, pj))
            how0 == NSeq[((n + T.sz) % 4) + 1] IN
        IF cand # <<>>
        THEN NestedStore(pi, cand[1], IF how0 \in {"preinc", "postinc"} /\ ~IncOK(cand[1]) THEN "chain" ELSE how0,
                    KSeq[((n + T.al) % 3) + 1])
        ELSE IF IsBits(ps[pi]) THEN StoreV(pi, "neg") ELSE StoreB(pi, "neg")
  \/ n = 3 * np /\ CopyAgg
  \/ /\ n = 3 * np + 1
     /\ \E pi \in DOMAIN ps : /\ ps[pi].ty.k # "agg" /\ \A pj \in 1..(pi - 1) : ps[pj].ty.k = "agg"
                              /\ ZeroFill(pi, "pat")
Next == IF Walk THEN WalkNext ELSE FreeNext
Spec == Init /\ [][Next]_vars

----------------------------------------------------------------------------
(* Invariants *)
LastPath == ps[last.pi]
RoundTrip ==
  (last.act \in {"store", "opassign", "nested"} /\ Defined(mem.obj, last.pos, last.w)) =>
     LET p == LastPath
         got == GetBits(mem.obj, p.pos, Width(p), p.ty.sg) IN
     /\ last.op \notin {"postinc", "postdec"} => got = last.res
     /\ last.act = "store" =>
          LET v == IF p.ty.k = "bf" /\ p.ty.t = "bool" THEN BoolVal(last.v) ELSE IntVal(last.v) IN
          /\ \A i \in 0..(Width(p) - 1) : Bit(got, i) = Bit(v, i)                       \* truncation
          /\ \A i \in Width(p)..63 : Bit(got, i) = IF p.ty.sg THEN Bit(v, Width(p) - 1) ELSE 0   \* extension
     /\ (last.act = "nested" /\ last.op \in {"chain", "call"}) =>             \* the side effect of the rhs survives the outer store
          LET r == ps[last.pj]
              v == IF IsBool(r) THEN BoolVal(last.v) ELSE IntVal(last.v) IN
          \A i \in 0..(Width(r) - 1) : Bit(mem.obj, r.pos + i) = Bit(v, i)
(* a step changes nothing outside [pos, pos+w) (and [pos2, pos2+w2) for a nested step) of obj *)
In1(i) == i >= last.pos /\ i < last.pos + last.w
In2(i) == i >= last.pos2 /\ i < last.pos2 + last.w2
Frame ==
  /\ mem.pre = Fill("pre", GuardSize) /\ mem.post = Fill("post", GuardSize) /\ mem.src = Fill("src", T.sz)
  /\ Len(mem.obj) = T.sz
  /\ \A j \in DOMAIN mem.obj :
       IF \A k \in 0..7 : ~In1((j - 1) * 8 + k) /\ ~In2((j - 1) * 8 + k) THEN mem.obj[j] = prev.obj[j]
       ELSE (~last.unspec /\ prev.obj[j] >= 0) =>
              \A k \in 0..7 : LET i == (j - 1) * 8 + k IN (~In1(i) /\ ~In2(i)) => Bit(mem.obj, i) = Bit(prev.obj, i)
FormsAgree ==
  \A pi \in DOMAIN ps : \A f \in Forms :
     LET p == ps[pi]
         a == EvalForm(f, T, p) IN
     IF p.ty.k = "bf" THEN a * 8 <= p.pos /\ p.pos + p.ty.w <= (a + p.ty.sz) * 8 /\ a + p.ty.sz <= T.sz + p.ty.sz - 1
     ELSE a = p.pos \div 8
(* distinct leaves of a struct occupy disjoint bits, inside the object, aligned unless packed *)
RECURSIVE NoUnionOn(_, _, _)
NoUnionOn(ty, hops, k) == IF k > Len(hops) THEN TRUE
                          ELSE IF hops[k].h = "i" THEN NoUnionOn(ty.sub[1], hops, k + 1)
                          ELSE ~ty.union /\ NoUnionOn(ty.sub[hops[k].i + 1], hops, k + 1)
PathsDisjoint ==
  /\ \A i \in DOMAIN ps : ps[i].pos >= 0 /\ ps[i].pos + Width(ps[i]) <= T.sz * 8
  /\ \A i, j \in DOMAIN ps :
       (i < j /\ ps[i].ty.k # "agg" /\ ps[j].ty.k # "agg" /\ NoUnionOn(T, ps[i].hops, 1) /\ NoUnionOn(T, ps[j].hops, 1))
         => (ps[i].pos + Width(ps[i]) <= ps[j].pos \/ ps[j].pos + Width(ps[j]) <= ps[i].pos)
(* every access stays inside the object (scalars and aggregate members always; bit-field units when UnitCheck) *)
ExtentOK == \A i \in DOMAIN ps : (ps[i].ty.k # "bf" \/ UnitCheck) => Inside(ps[i], T.sz)
(* Level I byte loop = Level A copy on every value byte, and touches nothing else *)
CopyRefines == n = 0 =>
  LET a == CopyA(mem).obj
      i == CopyI(mem) IN
  /\ \A j \in DOMAIN a : a[j] >= 0 => i.obj[j] = a[j]
  /\ Len(i.obj) = T.sz /\ i.pre = mem.pre /\ i.post = mem.post /\ i.src = mem.src
  /\ \A j \in DOMAIN a : i.obj[j] \in {mem.obj[j], mem.src[j]}
CopyExact == n = 0 => \A j \in DOMAIN mem.obj : CopyI(mem).obj[j] = mem.src[j]     \* all size bytes, no more (Len fixed)
=============================================================================
