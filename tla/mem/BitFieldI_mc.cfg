SPECIFICATION Spec
CONSTANTS R = 8
 Variant = "ok"
INVARIANTS ReadRefines WriteRefines RoundTrip
CHECK_DEADLOCK FALSE
