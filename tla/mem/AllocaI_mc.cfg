SPECIFICATION Spec
CONSTANTS MaxSize = 48
 MaxBlocks = 2
 Variant = "ok"
INVARIANTS TempsIntact BlocksIntact Disjoint Aligned
CHECK_DEADLOCK FALSE
