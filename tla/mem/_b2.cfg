SPECIFICATION S5
CONSTANTS Tiny = TRUE
 Walk = TRUE
 MaxSteps = 0
 EmitOut = FALSE
 Bound = 0
