SPECIFICATION Spec
CONSTANTS MaxLocals = 3
 MaxAlign = 16
 InitLocals = 3
 Variant = "ok"
INVARIANTS Disjoint InFrame Aligned Array16 InitCovers InitExact
CHECK_DEADLOCK FALSE
