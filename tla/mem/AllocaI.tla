------------------------------- MODULE AllocaI -------------------------------
(* C04, Level I: builtin_alloca (codegen.c) - the temporary area between rsp and
   `alloca_bottom` (values pushed during the evaluation of the enclosing expression, e.g.
   earlier arguments of a call) is moved down by the rounded size and the block is carved
   out above it:

       rdi = (n + 15) & ~15;  rcx = bottom - rsp;  rax = rsp;  rsp -= rdi;  rdx = rsp;
       while (rcx != 0) { *rdx++ = *rax++; rcx--; }          (byte copy, ascending)
       bottom -= rdi;  return bottom;                        (block = [bottom, bottom + n))

   The stack is an array of bytes; ghost variables hold what Level A says must be true of it:
   `temps` = the pushed values still pending (they must be popped unchanged, in order),
   `blocks` = the live alloca/VLA blocks with the pattern the program wrote to them.
   Actions: Push, Pop, Alloca(n) (allocate and fill), Refill(b) (write a block again).
   All sizes 1..MaxSize x pending temporaries 0..3 x up to MaxBlocks live blocks.
   Variants "copy_short" (loop copies rcx-1 bytes), "copy_down" (descending copy: wrong for
   overlapping areas), "no_bottom_update" must be REJECTED.                                  *)
EXTENDS Integers, Sequences, TLC, SequencesExt

CONSTANTS MaxSize, MaxBlocks, Variant

Top == 2 * (((MaxSize + 15) \div 16) * 16) + 32      \* address of the frame's lowest local (= initial rsp), 16-aligned
Round16(n) == ((n + 15) \div 16) * 16
Word(k) == [j \in 1..8 |-> 10 * k + j]                \* the 8 bytes pushed by the k-th push
Pat(b, j) == (100 * b + 3 * j) % 256

VARIABLES stack, rsp, bottom, temps, blocks
vars == <<stack, rsp, bottom, temps, blocks>>

Init == /\ stack = [a \in 0..(Top - 1) |-> 0]
        /\ rsp = Top /\ bottom = Top /\ temps = <<>> /\ blocks = <<>>

Push == /\ Len(temps) < 3 /\ rsp >= 8
        /\ LET k == Len(temps) + 1 IN
           /\ rsp' = rsp - 8
           /\ stack' = [a \in DOMAIN stack |-> IF a >= rsp - 8 /\ a < rsp THEN Word(k)[a - (rsp - 8) + 1] ELSE stack[a]]
           /\ temps' = Append(temps, k)
        /\ UNCHANGED <<bottom, blocks>>
Pop == /\ temps # <<>>
       /\ rsp' = rsp + 8 /\ temps' = SubSeq(temps, 1, Len(temps) - 1)
       /\ UNCHANGED <<stack, bottom, blocks>>

Copy(st, src, dst, cnt) ==
  LET idx == IF Variant = "copy_down" THEN [i \in 1..cnt |-> cnt - i] ELSE [i \in 1..cnt |-> i - 1] IN
  FoldLeft(LAMBDA s, i : [s EXCEPT ![dst + i] = s[src + i]], st, idx)
Alloca(n) ==
  LET rdi == Round16(n)
      rcx == bottom - rsp
      cnt == IF Variant = "copy_short" /\ rcx > 0 THEN rcx - 1 ELSE rcx
      rsp2 == rsp - rdi
      st2 == Copy(stack, rsp, rsp2, cnt)
      bot2 == IF Variant = "no_bottom_update" THEN bottom ELSE bottom - rdi
      b == Len(blocks) + 1
  IN /\ Len(blocks) < MaxBlocks /\ rsp2 >= 0
     /\ rsp' = rsp2 /\ bottom' = bot2
     /\ blocks' = Append(blocks, [addr |-> bot2, size |-> n, id |-> b])
     /\ stack' = [a \in DOMAIN st2 |-> IF a >= bot2 /\ a < bot2 + n THEN Pat(b, a - bot2) ELSE st2[a]]   \* the program fills its block
     /\ UNCHANGED temps
Next == Push \/ Pop \/ \E n \in 1..MaxSize : Alloca(n)
Spec == Init /\ [][Next]_vars

(* Level A *)
TempsIntact == /\ rsp = bottom - 8 * Len(temps)
               /\ \A k \in DOMAIN temps : \A j \in 1..8 : stack[bottom - 8 * k + j - 1] = Word(temps[k])[j]
BlocksIntact == \A i \in DOMAIN blocks : \A j \in 0..(blocks[i].size - 1) : stack[blocks[i].addr + j] = Pat(blocks[i].id, j)
Disjoint == /\ \A i \in DOMAIN blocks : blocks[i].addr >= bottom /\ blocks[i].addr + blocks[i].size <= Top
            /\ \A i, j \in DOMAIN blocks : i < j => blocks[j].addr + blocks[j].size <= blocks[i].addr
Aligned == (\A i \in DOMAIN blocks : blocks[i].addr % 16 = 0) /\ bottom % 16 = 0 /\ rsp % 8 = 0
=============================================================================
