------------------------------- MODULE BVTest -------------------------------
(* Self-test of BV.tla: `tlc -config BVTest.cfg BVTest.tla` must report no error.
   Small operands are cross-checked against TLC's native integers for every
   operator; a few wide identities exercise the limbs beyond 32 bits.       *)
EXTENDS BV, Integers, TLC

R == -40..40
NDivT(x, y) == LET q == (IF x < 0 THEN -x ELSE x) \div (IF y < 0 THEN -y ELSE y) IN IF (x < 0) # (y < 0) THEN -q ELSE q
NWrap(w, sg, a) == LET m == a % (2 ^ w) IN IF sg /\ m >= 2 ^ (w - 1) THEN m - 2 ^ w ELSE m

ASSUME \A x \in R, y \in R :
  LET a == FromInt(x)  b == FromInt(y) IN
  /\ IsBV(a) /\ FitsInt(a) /\ ToInt(a) = x
  /\ ToInt(Add(a, b)) = x + y /\ ToInt(Sub(a, b)) = x - y /\ ToInt(Mul(a, b)) = x * y /\ ToInt(Neg(a)) = -x
  /\ Lt(a, b) = (x < y) /\ Le(a, b) = (x <= y) /\ (a = b) = (x = y) /\ IsNeg(a) = (x < 0) /\ IsZero(a) = (x = 0)
  /\ (y # 0 => ToInt(DivT(a, b)) = NDivT(x, y) /\ ToInt(ModT(a, b)) = x - y * NDivT(x, y))
  /\ ToInt(BNot(a)) = -x - 1
  /\ \A w \in {1, 3, 7, 8, 9} : ToInt(Wrap(w, TRUE, a)) = NWrap(w, TRUE, x) /\ ToInt(Wrap(w, FALSE, a)) = NWrap(w, FALSE, x)
  /\ \A k \in {0, 1, 3, 8, 11} : ToInt(Shl(a, k)) = x * 2 ^ k /\ ToInt(ShrA(a, k)) = x \div 2 ^ k

ASSUME \A x \in 0..70, y \in 0..70 :
  LET a == FromInt(x)  b == FromInt(y) IN
  /\ ToInt(BAnd(a, b)) + ToInt(BOr(a, b)) = x + y          \* a&b + a|b = a+b
  /\ ToInt(BXor(a, b)) = ToInt(BOr(a, b)) - ToInt(BAnd(a, b))

M64 == Sub(Pow2(64), One)
ASSUME /\ ToDec(M64) = "18446744073709551615" /\ ToDec(Neg(Pow2(63))) = "-9223372036854775808"
       /\ IsNeg(Mul(M64, M64))                                  \* (2^64-1)^2 >= 2^127: wraps in 128 bits ...
       /\ ToDecU(64, Mul(M64, M64)) = "1"                         \* ... but the low 64 bits are exact
       /\ Wrap(64, TRUE, M64) = MinusOne /\ Wrap(64, FALSE, MinusOne) = M64 /\ Fits(64, FALSE, M64) /\ ~Fits(64, TRUE, M64)
       /\ DivT(Neg(Pow2(63)), FromInt(-1)) = Pow2(63) /\ ModT(Neg(Pow2(63)), FromInt(10)) = FromInt(-8)
       /\ ToDec(DivT(M64, FromInt(10))) = "1844674407370955161"
       /\ FromDigits(<<1, 8, 4, 4, 6, 7, 4, 4, 0, 7, 3, 7, 0, 9, 5, 5, 1, 6, 1, 5>>, FALSE) = M64
       /\ ShrL(MinusOne, 64) = M64 /\ ShrA(Neg(Pow2(63)), 63) = MinusOne /\ Shl(One, 127) = Pow2(127)
       /\ ToHex(M64, 8) = "0xffffffffffffffff" /\ Low(Pow2(32), 5) = <<0, 0, 0, 0, 1>>
       /\ MaxOf(64, FALSE) = M64 /\ MinOf(32, TRUE) = Sub(FromInt(-2147483647), One)
=============================================================================
