--------------------------------- MODULE BV ---------------------------------
(* Wide integers for TLC (whose own integers are 32-bit).

   A BV value is a sequence of N = 16 limbs, each in 0..255, little-endian
   (limb 1 is the least significant byte), read as a 128-bit two's-complement
   integer.  128 bits hold every 64 x 64-bit product and every intermediate
   result of C arithmetic on <= 64-bit types, so the operators below are the
   *mathematical* operations as long as the true result lies in
   -2^127 .. 2^127-1; beyond that they are arithmetic modulo 2^128 (which is
   still what a following Wrap(w, ..) needs, because 2^w divides 2^128).

   Every loop is a FoldLeft (SequencesExt, Java-overridden, eager).  Do not
   rewrite them as RECURSIVE operators: lazily evaluated LET accumulators blow
   up exponentially under a quantifier (measured).  Limb products stay below
   2^31: 16 * 255 * 255 + carry < 2^21.

   API (a, b: BV values; n, k, w: TLC integers)
     N, Limbs                      number of limbs; the set 0..255
     IsBV(a)                       type predicate
     Zero, One, MinusOne
     FromInt(n)                    any TLC integer (|n| < 2^31)
     FitsInt(a), ToInt(a)          a in -2^30 .. 2^30-1 ; its TLC integer
     Add Sub Neg Mul               exact (mod 2^128)
     IsZero IsNeg Eq Lt ULt Le     signed compare (ULt: as unsigned 128-bit)
     Abs(a)
     UDivMod(a, b)                 <<quotient, remainder>>, a and b read as unsigned
                                   128-bit, b # 0 (restoring division, 128 steps)
     UDivModBits(a, b, nbits)      same, when a < 2^nbits (cheaper: nbits steps)
     DivT(a,b), ModT(a,b)          C's truncating signed division / remainder, b # 0,
                                   |a| <= 2^64 (uses 72 steps)
     BAnd BOr BXor BNot            limb-wise on the two's-complement pattern (named B.. because
                                   the community module Bitwise owns And/Or/Xor/Not)
     Bit(a, k)                     bit k (0 = least significant) as 0/1
     Pow2(k)                       2^k, 0 <= k <= 126
     Shl(a, k)                     a * 2^k (mod 2^128), 0 <= k < 128
     ShrA(a, k)                    floor(a / 2^k), arithmetic, 0 <= k < 128
     ShrL(a, k)                    logical shift of the 128-bit pattern
     Wrap(w, sg, a)                the value of the low w bits of a (1 <= w <= 127) read as a
                                   signed (sg = TRUE) or unsigned w-bit integer  == C conversion
                                   to a w-bit type (6.3.1.3; modular for signed, as gcc defines)
     Fits(w, sg, a)                a is representable in the w-bit type: Wrap(w,sg,a) = a
     MinOf(w,sg), MaxOf(w,sg)      bounds of the w-bit type
     Low(a, n)                     the n low limbs (JSON list)  -- e.g. Low(Wrap(64,FALSE,a), 8)
     FromLimbs(s, sg)              extend a limb list to N limbs (sign-extend if sg)
     ToDec(a)                      decimal string of the signed value, e.g. "-129"
     ToDecU(w, a)                  decimal string of the low w bits read as unsigned
     FromDigits(ds, neg)           from a sequence of decimal digits (0..9), most significant first
     ToHex(a, n)                   "0x..." of the n low limbs

   JSON: emit wide values as ToDec/ToDecU strings or Low(..) limb lists, never
   as TLC integers (ToJson/ndJsonDeserialize wrap silently at 2^31).          *)
EXTENDS Integers, Sequences, SequencesExt
LOCAL INSTANCE Bitwise

N == 16
B == 256
Limbs == 0..255
Idx == [i \in 1..N |-> i]
(* Tab(F) is the concrete tuple <<F(1), ..., F(N)>>.  A TLC function constructor
   [i \in 1..N |-> e] is a *lazy* value whose body is re-evaluated at every
   application; chains of them (a shift feeding a shift ...) cost 2^depth.
   Every limb-wise operator therefore goes through Tab (an eager fold).        *)
Tab(F(_)) == FoldLeft(LAMBDA acc, i : Append(acc, F(i)), <<>>, Idx)
TabN(F(_), n) == FoldLeft(LAMBDA acc, i : Append(acc, F(i)), <<>>, [i \in 1..n |-> i])
IsBV(a) == DOMAIN a = 1..N /\ \A i \in 1..N : a[i] \in Limbs

Zero     == Tab(LAMBDA i : 0)
One      == Tab(LAMBDA i : IF i = 1 THEN 1 ELSE 0)
MinusOne == Tab(LAMBDA i : 255)

(* digits of a natural below 2^31 *)
NatLimb(n, i) == CASE i = 1 -> n % 256
                   [] i = 2 -> (n \div 256) % 256
                   [] i = 3 -> (n \div 65536) % 256
                   [] i = 4 -> (n \div 16777216) % 256
                   [] OTHER -> 0

(* <<carry, digits>> accumulator *)
AddC(a, b, c0) ==
  FoldLeft(LAMBDA acc, i : LET s == a[i] + b[i] + acc[1]
                           IN <<s \div B, Append(acc[2], s % B)>>,
           <<c0, <<>>>>, Idx)[2]
Add(a, b) == AddC(a, b, 0)
BNot(a)   == Tab(LAMBDA i : 255 - a[i])
Neg(a)    == AddC(BNot(a), Zero, 1)
Sub(a, b) == AddC(a, BNot(b), 1)

FromInt(n) == IF n >= 0 THEN Tab(LAMBDA i : NatLimb(n, i))
              ELSE Neg(Tab(LAMBDA i : NatLimb(-n, i)))

IsZero(a) == \A i \in 1..N : a[i] = 0
IsNeg(a)  == a[N] >= 128
Eq(a, b)  == a = b
Abs(a)    == IF IsNeg(a) THEN Neg(a) ELSE a

(* compare from the most significant limb: 0 undecided, 1 less, 2 greater *)
UCmp(a, b) ==
  FoldLeft(LAMBDA acc, j : LET i == N + 1 - j
                           IN IF acc # 0 THEN acc
                              ELSE IF a[i] < b[i] THEN 1 ELSE IF a[i] > b[i] THEN 2 ELSE 0,
           0, Idx)
ULt(a, b) == UCmp(a, b) = 1
Lt(a, b)  == IF IsNeg(a) # IsNeg(b) THEN IsNeg(a) ELSE ULt(a, b)
Le(a, b)  == a = b \/ Lt(a, b)

FitsInt(a) == \/ ((\A i \in 5..N : a[i] = 0) /\ a[4] < 64)
              \/ ((\A i \in 5..N : a[i] = 255) /\ a[4] >= 192)
ToInt(a) == LET m == IF IsNeg(a) THEN Neg(a) ELSE a
                v == m[1] + 256 * m[2] + 65536 * m[3] + 16777216 * m[4]
            IN IF IsNeg(a) THEN -v ELSE v

(* schoolbook product, low N limbs (exact mod 2^128, also for negative operands) *)
ColSum(a, b, k) == FoldLeft(LAMBDA s, i : s + a[i] * b[k + 1 - i], 0, [i \in 1..k |-> i])
Mul(a, b) ==
  FoldLeft(LAMBDA acc, k : LET s == ColSum(a, b, k) + acc[1]
                           IN <<s \div B, Append(acc[2], s % B)>>,
           <<0, <<>>>>, Idx)[2]

Bit(a, k) == (a[(k \div 8) + 1] \div (2 ^ (k % 8))) % 2
Pow2(k)   == Tab(LAMBDA i : IF i = (k \div 8) + 1 THEN 2 ^ (k % 8) ELSE 0)

Limb(a, i, fill) == IF i < 1 THEN 0 ELSE IF i > N THEN fill ELSE a[i]
Shl(a, k) == LET q == k \div 8  r == k % 8
             IN Tab(LAMBDA i : ((Limb(a, i - q, 0) * (2 ^ r)) % B)
                                + (Limb(a, i - q - 1, 0) \div (2 ^ (8 - r))))
ShrF(a, k, fill) == LET q == k \div 8  r == k % 8
                    IN Tab(LAMBDA i : (Limb(a, i + q, fill) \div (2 ^ r))
                                       + ((Limb(a, i + q + 1, fill) * (2 ^ (8 - r))) % B))
ShrA(a, k) == ShrF(a, k, IF IsNeg(a) THEN 255 ELSE 0)
ShrL(a, k) == ShrF(a, k, 0)

BAnd(a, b) == Tab(LAMBDA i : a[i] & b[i])
BOr(a, b)  == Tab(LAMBDA i : a[i] | b[i])
BXor(a, b) == Tab(LAMBDA i : a[i] ^^ b[i])

(* restoring division on the unsigned patterns; acc = <<quotient, remainder>> *)
Shl1(a, inb) == Tab(LAMBDA i : ((a[i] * 2) % B) + (IF i = 1 THEN inb ELSE a[i - 1] \div 128))
UDivModBits(a, b, nbits) ==
  FoldLeft(LAMBDA acc, j : LET k  == nbits - j
                               r2 == Shl1(acc[2], Bit(a, k))
                               ge == ~ULt(r2, b)
                           IN <<Shl1(acc[1], IF ge THEN 1 ELSE 0), IF ge THEN Sub(r2, b) ELSE r2>>,
           <<Zero, Zero>>, [j \in 1..nbits |-> j])
UDivMod(a, b) == UDivModBits(a, b, 8 * N)

DivT(a, b) == LET qr == UDivModBits(Abs(a), Abs(b), 72)
              IN IF IsNeg(a) # IsNeg(b) THEN Neg(qr[1]) ELSE qr[1]
ModT(a, b) == LET qr == UDivModBits(Abs(a), Abs(b), 72)
              IN IF IsNeg(a) THEN Neg(qr[2]) ELSE qr[2]

(* the low w bits, sign- or zero-extended to 128 bits *)
Wrap(w, sg, a) ==
  LET fill == IF sg /\ Bit(a, w - 1) = 1 THEN 255 ELSE 0
  IN Tab(LAMBDA i : IF 8 * i <= w THEN a[i]
                     ELSE IF 8 * (i - 1) >= w THEN fill
                     ELSE LET nb == w - 8 * (i - 1)          \* 1..7 bits of this limb are kept
                          IN (a[i] % (2 ^ nb)) + (fill - (fill % (2 ^ nb))))
Fits(w, sg, a) == Wrap(w, sg, a) = a
MinOf(w, sg) == IF sg THEN Neg(Pow2(w - 1)) ELSE Zero
MaxOf(w, sg) == Sub(Pow2(IF sg THEN w - 1 ELSE w), One)

Low(a, n) == TabN(LAMBDA i : a[i], n)
FromLimbs(s, sg) == LET fill == IF sg /\ s[Len(s)] >= 128 THEN 255 ELSE 0
                    IN Tab(LAMBDA i : IF i <= Len(s) THEN s[i] ELSE fill)

(* ---- decimal ---------------------------------------------------------- *)
(* short division of the unsigned pattern by a small d: <<quotient, remainder>> *)
DivSmall(a, d) ==
  LET r == FoldLeft(LAMBDA acc, j : LET i == N + 1 - j
                                        x == acc[1] * B + a[i]
                                    IN <<x % d, [acc[2] EXCEPT ![i] = x \div d]>>,
                    <<0, Zero>>, Idx)
  IN <<r[2], r[1]>>
DigitChar == <<"0", "1", "2", "3", "4", "5", "6", "7", "8", "9">>
HexChar == <<"0", "1", "2", "3", "4", "5", "6", "7", "8", "9", "a", "b", "c", "d", "e", "f">>
(* decimal string of a non-negative pattern (39 digits suffice for 2^128) *)
DecU(a) ==
  LET r == FoldLeft(LAMBDA acc, j : IF IsZero(acc[1]) THEN acc
                                    ELSE LET qr == DivSmall(acc[1], 10)
                                         IN <<qr[1], DigitChar[qr[2] + 1] \o acc[2]>>,
                    <<a, "">>, [j \in 1..39 |-> j])
  IN IF r[2] = "" THEN "0" ELSE r[2]
ToDec(a) == IF IsNeg(a) THEN "-" \o DecU(Neg(a)) ELSE DecU(a)
ToDecU(w, a) == DecU(Wrap(w, FALSE, a))
Ten == FromInt(10)
FromDigits(ds, neg) ==
  LET m == FoldLeft(LAMBDA acc, d : Add(Mul(acc, Ten), FromInt(d)), Zero, ds)
  IN IF neg THEN Neg(m) ELSE m
ToHex(a, n) ==
  FoldLeft(LAMBDA s, j : LET i == n + 1 - j
                         IN s \o HexChar[(a[i] \div 16) + 1] \o HexChar[(a[i] % 16) + 1],
           "0x", [j \in 1..n |-> j])
=============================================================================
