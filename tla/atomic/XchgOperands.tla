--------------------------- MODULE XchgOperands ---------------------------
(* C16: the semantics of ONE atomic_exchange(OBJ, VAL) over the dimensions the
   interleaving model (Atomic.tla) keeps fixed (builder spec + Level A):

     the TYPE CLASS of the object      the eight integer types, _Bool, float,
                                       double and an
                                       object of POINTER type (C11 7.17.7.3:
                                       `C atomic_exchange(volatile A *object,
                                       C desired)` for every atomic type A)
     the TYPE AND RANGE of VAL         VAL is converted to the object's
                                       non-atomic type C as if by assignment:
                                       an operand of another type than C (int
                                       literal, long with high bits, narrower
                                       signed type, null pointer constant 0),
                                       in and out of the object's range
     the OLD VALUE's class             with and without the top bit of the
                                       object set (the result is the old value
                                       converted to C, whatever VAL was)
     where the object lives            static, automatic, address from a call
     where a pointer's pointee lives   static, automatic, large heap block
                                       (the last two have high address bits)

   Level A is AtomicSem!Sem("xchg"): the object takes VAL converted to its
   type, the expression yields the value replaced; nothing else changes (the
   generated program checks guard objects on both sides of the object).
   Pointer values are abstract here: 0 = null, k = &pool[k] (k = 1..3); the
   generated program maps a pointer that is neither to -1 (a torn pointer).

   Operand kinds (integer and _Bool objects)
     same    a variable of the object's type holding 10 (1 for _Bool)
     ineg    the int constant -1
     iwide   an int constant outside a 1-/2-byte object's range (0x1234 / 0x12345678)
     lvar    a long variable holding the same
     scneg   a signed char variable holding -1     (narrower than the object: sign-extension)
     isub    i1 - i2 = -1 computed in int          (a 32-bit result whose upper register half is not its sign)
     uc200   an unsigned char variable holding 200 (negative as signed char)
     i256    the int constant 256                  (0 as a byte, 1 as _Bool)
     izero   0
     call5   a five-argument call returning long 10
   Operand kinds (pointer objects)
     pvar    a pointer variable = &pool[1]
     nullc   (long * ) 0
     zero    the null pointer constant 0           (an int-typed operand)
     addr    &pool[3]
     pcall   (long * ) call5(.., (long)&pool[1])
   Only conversions whose result TLC can hold are generated (no negative operand
   for unsigned 4-/8-byte objects).                                           *)
EXTENDS AtomicSem, TLC, Json, CSV, IOUtils

CONSTANTS Seed, Stride

(* type classes: w, sg as in AtomicSem (sg = 2: _Bool), tc for the generated program *)
Types == << [w |-> 1, sg |-> 1, tc |-> "int"], [w |-> 1, sg |-> 0, tc |-> "int"],
            [w |-> 2, sg |-> 1, tc |-> "int"], [w |-> 2, sg |-> 0, tc |-> "int"],
            [w |-> 4, sg |-> 1, tc |-> "int"], [w |-> 4, sg |-> 0, tc |-> "int"],
            [w |-> 8, sg |-> 1, tc |-> "int"], [w |-> 8, sg |-> 0, tc |-> "int"],
            [w |-> 1, sg |-> 2, tc |-> "bool"], [w |-> 8, sg |-> 0, tc |-> "ptr"],
            [w |-> 4, sg |-> 3, tc |-> "flt"], [w |-> 8, sg |-> 3, tc |-> "flt"] >>
IntOps == <<"same", "ineg", "iwide", "lvar", "scneg", "isub", "uc200", "i256", "izero", "call5">>
PtrOps == <<"pvar", "nullc", "zero", "addr", "pcall">>
ObjK   == <<"static", "auto", "call5">>
PoolK  == <<"static", "auto", "heap">>

Wide(w) == IF w = 1 THEN 4660 ELSE 305419896          \* 0x1234, 0x12345678
(* floating objects (sg = 3): the operands are integers a float holds exactly (0x1234 for the wide ones) *)

(* the value of the operand expression, before the conversion to the object's type *)
OperandValue(ty, opn) ==
  CASE opn = "same"  -> IF ty.tc = "bool" THEN 1 ELSE 10
    [] opn = "ineg"  -> -1
    [] opn = "iwide" -> IF ty.tc = "flt" THEN 4660 ELSE Wide(ty.w)
    [] opn = "lvar"  -> IF ty.tc = "flt" THEN 4660 ELSE Wide(ty.w)
    [] opn = "scneg" -> -1
    [] opn = "isub"  -> -1
    [] opn = "uc200" -> 200
    [] opn = "i256"  -> 256
    [] opn = "izero" -> 0
    [] opn = "call5" -> 10
    [] opn = "pvar"  -> 1
    [] opn = "nullc" -> 0
    [] opn = "zero"  -> 0
    [] opn = "addr"  -> 3
    [] opn = "pcall" -> 1

(* old value classes: 1 = small, 2 = top bit of the object set (signed: negative) *)
OldValue(ty, oc) ==
  IF ty.tc = "ptr" THEN (IF oc = 1 THEN 2 ELSE 0)            \* &pool[2] | null
  ELSE IF ty.tc = "bool" THEN (IF oc = 1 THEN 0 ELSE 1)
  ELSE IF oc = 1 THEN 5
  ELSE IF ty.sg \in {1, 3} THEN -3
  ELSE IF ty.w = 1 THEN 253 ELSE IF ty.w = 2 THEN 65533 ELSE 1000000

VARIABLES ti, oc, oi, ok, pk, out
vars == <<ti, oc, oi, ok, pk, out>>

Ty == Types[ti]
OpName == IF Ty.tc = "ptr" THEN PtrOps[oi] ELSE IntOps[oi]

Valid ==
  /\ oi <= (IF Ty.tc = "ptr" THEN Len(PtrOps) ELSE Len(IntOps))
  /\ (Ty.tc # "ptr" => pk = 1)
  /\ ~(Ty.tc = "int" /\ Ty.sg = 0 /\ Ty.w >= 4 /\ OperandValue(Ty, OpName) < 0)

Outcome ==
  LET old == CanonT(Ty.w, Ty.sg, OldValue(Ty, oc))
      r == Sem("xchg", Ty.w, Ty.sg, old, OperandValue(Ty, OpName), 0)
  IN [r |-> r.ret, x |-> AsLong(Ty.w, Ty.sg, r.mem)]

Index == ((((ti - 1) * 2 + (oc - 1)) * 10 + (oi - 1)) * 3 + (ok - 1)) * 3 + (pk - 1)

Init == /\ ti \in 1..Len(Types) /\ oc \in 1..2 /\ oi \in 1..10 /\ ok \in 1..3 /\ pk \in 1..3
        /\ Valid
        /\ ((Index * 7919 + Seed) % Stride = 0 \/ ok = 1)      \* the objects in static storage are always present
        /\ out = FALSE

EmitCase == /\ ~out /\ out' = TRUE /\ UNCHANGED <<ti, oc, oi, ok, pk>>
            /\ CSVWrite("%1$s", <<ToJson([w |-> Ty.w, sg |-> Ty.sg, tc |-> Ty.tc, old |-> OldValue(Ty, oc), oldc |-> oc,
                                          opn |-> OpName, v |-> OperandValue(Ty, OpName), obj |-> ObjK[ok], pool |-> PoolK[pk],
                                          want |-> Outcome, idx |-> Index])>>, IOEnv.OUT)

Spec == Init /\ [][EmitCase]_vars

(* the reference itself: an exchange yields a value of the object's type (never anything of VAL's
   upper bits) and leaves a value of the object's type behind *)
InRange(ty, x) == IF ty.tc = "bool" THEN x \in {0, 1}
                  ELSE IF ty.tc = "ptr" THEN x \in 0..3
                  ELSE IF ty.tc = "flt" THEN x \in -1048575..1048575
                  ELSE IF ty.w = 1 THEN (IF ty.sg = 1 THEN x \in -128..127 ELSE x \in 0..255)
                  ELSE IF ty.w = 2 THEN (IF ty.sg = 1 THEN x \in -32768..32767 ELSE x \in 0..65535)
                  ELSE TRUE
ResultInType == InRange(Ty, Outcome.r) /\ InRange(Ty, Outcome.x)
YieldsOld == Outcome.r = AsLong(Ty.w, Ty.sg, CanonT(Ty.w, Ty.sg, OldValue(Ty, oc)))
=============================================================================
