------------------------------ MODULE AtomicObj ------------------------------
(* C16, Level A: the atomic object.  One action per operation: a thread's next
   operation reads and writes the object in a single step (AtomicSem!Sem).
   This is the machine the emitted code (Atomic.tla) is compared with; the
   comparison there uses AtomicSem!Lin, the closed form of this machine's
   terminal states.  Here TLC checks that the two agree (LinIsExact) and the
   properties the property text asks of the reference itself:
     NoLostUpdate   for the commutative operations the final value is the fold
                    of all updates, whatever the order;
     CasHonest      a compare-exchange result is `expected*2+1` only if the
                    object then holds the new value or was overwritten later,
                    and a failed one reports a value the object really had.
   The cases (operation, width, operands) are the same JSON the code check
   uses (IOEnv.PROG), so Level A is exercised on exactly the generated domain. *)
EXTENDS AtomicSem, TLC, Json, IOUtils

Cases == JsonDeserialize(IOEnv.PROG)

VARIABLES c, am, ai, ar, seen
vars == <<c, am, ai, ar, seen>>

Case == Cases[c]
Threads == 1..Case.nt
Ops == [t \in Threads |-> [k \in 1..Case.reps |->
          [opk |-> IF Case.mix = 1 /\ Case.args[t][k][3] # 0 THEN "add" ELSE Case.opk,
           v |-> Case.args[t][k][2], e |-> Case.args[t][k][3]]]]

Init == /\ c \in 1..Len(Cases)
        /\ am = Case.init
        /\ ai = [t \in Threads |-> 1]
        /\ ar = [t \in Threads |-> <<>>]
        /\ seen = {Case.init}                       \* every value the object has had

Do(t) == /\ t \in Threads /\ ai[t] <= Case.reps
         /\ LET o == Ops[t][ai[t]]
                r == Sem(o.opk, Case.w, Case.sg, am, o.v, o.e)
            IN /\ am' = r.mem
               /\ ar' = [ar EXCEPT ![t] = Append(@, r.ret)]
               /\ seen' = seen \cup {r.mem}
         /\ ai' = [ai EXCEPT ![t] = @ + 1]
         /\ UNCHANGED c

Next == \E t \in 1..3 : Do(t)
Spec == Init /\ [][Next]_vars

Finished == \A t \in Threads : ai[t] > Case.reps

LinIsExact == Finished => [mem |-> am, rets |-> ar] \in Lin(Case.w, Case.sg, Ops, Case.init)

(* shared `expected` object: once the producer's compare-exchange has succeeded, only the consumer
   writes it - at the end it holds the consumer's value whenever the consumer saw the hand-off *)
HandOff == (Finished /\ Case.opk = "casx") =>
             (ar[2] = <<1>> => am.x = CanonT(Case.w, Case.sg, Ops[2][1].v))

(* not for _Bool (sg = 2): the conversion to _Bool saturates, (0 + 1) - 1 = 0 but (0 - 1) + 1 = 1 *)
Commutative == Case.mix = 0 /\ Case.sg # 2 /\ Case.opk \in {"add", "sub", "and", "or", "xor", "fadd", "fsub", "fand", "for", "fxor",
                             "preinc", "predec", "postinc", "postdec", "casinc", "lock"}
RECURSIVE FoldAll(_, _, _)
FoldAll(cur, t, k) ==
  IF t > Case.nt THEN cur
  ELSE IF k > Case.reps THEN FoldAll(cur, t + 1, 1)
  ELSE FoldAll(Arith(Case.opk, Case.w, Case.sg, cur, Ops[t][k].v), t, k + 1)
NoLostUpdate == (Finished /\ Commutative) => am = FoldAll(Case.init, 1, 1)

CasHonest ==
  Case.opk = "cas" =>
    \A t \in Threads : \A k \in 1..Len(ar[t]) :
       LET r == ar[t][k]
           o == Ops[t][k]
       IN IF r % 2 = 1 THEN CanonT(Case.w, Case.sg, o.v) \in seen /\ r = AsLong(Case.w, Case.sg, CanonT(Case.w, Case.sg, o.e)) * 2 + 1
          ELSE \E s \in seen : r = AsLong(Case.w, Case.sg, s) * 2 /\ s # CanonT(Case.w, Case.sg, o.e)
=============================================================================
