SPECIFICATION Spec
CONSTANTS TSO = FALSE
 Emit = FALSE
 MaxT = 3
INVARIANTS LinOK NoModelError
CHECK_DEADLOCK FALSE
