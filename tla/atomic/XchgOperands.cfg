SPECIFICATION Spec
CONSTANTS Seed = 0
 Stride = 1
INVARIANTS ResultInType YieldsOld
CHECK_DEADLOCK FALSE
