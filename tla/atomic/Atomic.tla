------------------------------- MODULE Atomic -------------------------------
(* C16.  2-3 threads, each performing one atomic operation 1-2 times, where
   "the operation" is the instruction sequence chibicc emitted for it (loaded
   from IOEnv.PROG, see X86.tla).  A thread step executes the thread's next
   shared-memory access and then runs its private instructions up to the next
   one (sound reduction: private steps commute with everything).  With TSO
   each thread has a FIFO store buffer; lock-prefixed instructions, xchg and
   mfence wait for the own buffer to drain.

   Level A is AtomicSem!Lin: every outcome of performing the same operations
   one at a time, atomically, in some order respecting program order.
     LinOK        at quiescence (object value, every result of every thread)
                  is one of those outcomes:  no update lost; compare-exchange
                  failed only when the object differed from `expected`, stored
                  the observed value there and left the object alone, succeeded
                  only if it wrote and then did NOT store to `expected` (shared
                  `expected` object taken over by another thread; `expected` in
                  read-only memory); exchange returned the value it replaced;
                  the values atomic_fetch_* returned are explained by the same
                  serial order (linearizability includes the results) - under
                  the C11 convention (value before) or, for a whole execution,
                  the pinned header's (value after: verdict "returns-new-value").
     Termination  every retry loop ends (weak fairness per thread).
   Several cases are batched in one TLC run (Init chooses the case); then the
   verdict of every quiescent state is written to IOEnv.OUT instead of
   stopping at the first bad one.                                           *)
EXTENDS X86, Json, CSV, IOUtils

CONSTANTS Emit,     \* TRUE: write one verdict line per quiescent state to IOEnv.OUT
          MaxT      \* largest thread count in the batch (for the fairness condition)

Cases == JsonDeserialize(IOEnv.PROG)

VARIABLES c,        \* index of the case
          th,       \* th[t]: thread record (see X86.tla)
          mem,      \* shared memory: address -> byte
          buf,      \* buf[t]: pending stores (TSO)
          fin,      \* quiescence has been judged
          nv        \* ghost: the object has held a bit pattern that is not a value of its type (_Bool: other than 0, 1)
vars == <<c, th, mem, buf, fin, nv>>

Case == Cases[c]
Prog == Case.code
Threads == 1..Case.nt
Fuel == 400

Regs == {"rax", "rbx", "rcx", "rdx", "rsi", "rdi", "rbp", "rsp", "r8", "r9", "r10", "r11", "r12", "r13", "r14", "r15"}

(* entry state of repetition k of thread t: System V argument registers from the case, everything else 0 *)
Fresh(t, k, rets) ==
  LET a == Case.args[t][k] IN
  [id |-> t, pc |-> 1, rep |-> k, rets |-> rets, err |-> "", ph |-> 0, latch |-> Val(0, FALSE),
   r |-> [x \in Regs |-> CASE x = "rsp" -> StackBase(t) + Case.ss - 8
                           [] x = "rdi" -> a[1] [] x = "rsi" -> a[2] [] x = "rdx" -> a[3]
                           [] OTHER -> 0],
   h |-> [x \in Regs |-> CASE x = "rdi" -> SignOf(a[1]) [] x = "rsi" -> SignOf(a[2]) [] x = "rdx" -> SignOf(a[3]) [] OTHER -> 0],
   x |-> [q \in {"xmm0", "xmm1"} |-> <<0, 0>>],
   fl |-> [z |-> FALSE, lt |-> FALSE, b |-> FALSE, known |-> FALSE],
   stk |-> [j \in 1..Case.ss |-> 0]]

Done(T) == T.err # "" \/ (T.pc = 0 /\ T.rep = Case.reps)

(* one private micro-step, or M itself when the thread is at a shared access / finished *)
StepP(M) ==
  IF M.T.err # "" THEN M
  ELSE IF M.T.pc = 0
       THEN IF M.T.rep < Case.reps THEN [M EXCEPT !.T = Fresh(M.T.id, M.T.rep + 1, M.T.rets)] ELSE M
  ELSE IF M.T.pc > Len(Prog) THEN Fail(M, "fell off the end of the function")
  ELSE LET i == Prog[M.T.pc] IN
       IF M.T.ph = 0 /\ Private(M, i) THEN Exec1(M, i) ELSE M

RECURSIVE NormR(_, _)
NormR(M, fuel) ==
  IF fuel = 0 THEN Fail(M, "fuel: private loop does not end")
  ELSE LET N == StepP(M) IN IF N = M THEN M ELSE NormR(N, fuel - 1)
Norm(M) == NormR(M, Fuel)

RoSet == {Case.ro[j] : j \in 1..Len(Case.ro)}
Ctx(t) == [T |-> th[t], mem |-> mem, b |-> buf[t], ro |-> RoSet]

InitMem == [a \in {Case.shared[j][1] : j \in 1..Len(Case.shared)} |->
              LET j == CHOOSE j \in 1..Len(Case.shared) : Case.shared[j][1] = a IN Case.shared[j][2]]

Init == /\ c \in 1..Len(Cases)
        /\ mem = InitMem
        /\ th = [t \in Threads |-> Norm([T |-> Fresh(t, 1, <<>>), mem |-> InitMem, b |-> <<>>, ro |-> RoSet]).T]
        /\ buf = [t \in Threads |-> <<>>]
        /\ fin = FALSE
        /\ nv = FALSE

(* the value of the w-byte object at a in memory m.  Case.sg = 3: a floating type (w = 4 float, 8 double);
   Level A keeps every value an integer n, |n| < 2^20 - bits that are no such number read as NoValue *)
NoValue == -999999
RdRaw(m, a) == RdMem([T |-> th[1], mem |-> m, b |-> <<>>, ro |-> {}], a, Case.w)
RdVal(m, a) == IF Case.sg = 3 THEN (LET d == FDec(Case.w, RdRaw(m, a)) IN IF d.ok THEN d.n ELSE NoValue)
               ELSE Num(Case.w, RdRaw(m, a))

(* Every value an operation stores is converted to the object's type first (6.5.16.2, 7.17.7.3-5):
   a _Bool object (Case.sg = 2) only ever holds 0 or 1, a floating object (Case.sg = 3) a number
   (here: one of Level A's integers).  What the code under test then makes of other bits is its own
   business (and may leave the interpreter's range), so this is judged first.                       *)
NotAValue(m) == \/ Case.sg = 2 /\ Case.opk # "lock" /\ m[Case.obj] \notin {0, 1}
                \/ Case.sg = 3 /\ RdVal(m, Case.obj) = NoValue

Step(t) ==
  /\ ~fin /\ t \in Threads /\ ~Done(th[t])
  /\ LET i == Prog[th[t].pc] IN
     /\ (Locked(i) => buf[t] = <<>>)
     /\ LET M2 == Norm(Exec1(Ctx(t), i)) IN
        /\ th' = [th EXCEPT ![t] = M2.T]
        /\ mem' = M2.mem
        /\ buf' = [buf EXCEPT ![t] = M2.b]
        /\ nv' = (nv \/ NotAValue(M2.mem))
  /\ UNCHANGED <<c, fin>>

Flush(t) ==
  /\ ~fin /\ t \in Threads /\ buf[t] # <<>>
  /\ LET s == Head(buf[t]) IN
     mem' = [q \in DOMAIN mem |-> IF q >= s[1] /\ q < s[1] + Len(s[2]) THEN s[2][q - s[1] + 1] ELSE mem[q]]
  /\ buf' = [buf EXCEPT ![t] = Tail(@)]
  /\ nv' = (nv \/ NotAValue(mem'))
  /\ UNCHANGED <<c, th, fin>>

Quiescent == (\A t \in Threads : Done(th[t]) /\ buf[t] = <<>>)

(* ---- Level A ---- *)
(* Case.mix = 1: a mixed case - an operation whose third argument is non-zero is `+=` (the generated
   function branches on it), the others are Case.opk.  conv = "new": atomic_fetch_* yield the value
   after the operation (the pinned stdatomic.h) instead of the value before it (C11).              *)
OpkOf(e, conv) == IF Case.mix = 1 /\ e # 0 THEN "add"
                  ELSE IF conv = "new" /\ Case.opk \in FetchOld THEN Case.opk \o "_n"
                  ELSE Case.opk
OpsWith(conv) == [t \in Threads |-> [k \in 1..Case.reps |->
                   [opk |-> OpkOf(Case.args[t][k][3], conv), v |-> Case.args[t][k][2], e |-> Case.args[t][k][3]]]]
LinSet == Lin(Case.w, Case.sg, OpsWith("old"), Case.init)
LinNew == Lin(Case.w, Case.sg, OpsWith("new"), Case.init)
RdObj(a) == RdVal(mem, a)
(* "casx": the judged state is the pair (atomic object, shared expected object at Case.aux) *)
ObjVal == IF Case.opk = "casx" THEN [m |-> RdObj(Case.obj), x |-> RdObj(Case.aux)] ELSE RdObj(Case.obj)
Outcome == [mem |-> ObjVal, rets |-> [t \in Threads |-> th[t].rets]]
(* Case.keep: bytes that must have their given value at quiescence: every shared byte outside
   the object (a wider access than the object is a violation), and the lock word = 0.      *)
KeptOK == \A j \in 1..Len(Case.keep) : mem[Case.keep[j][1]] = Case.keep[j][2]
Errs == {th[t].err : t \in Threads} \ {""}
Verdict ==
  IF nv THEN "stores-no-value-of-the-type"
  ELSE IF RoErr \in Errs THEN "expected-written-on-success"
  ELSE IF WildErr \in Errs THEN "access-outside-the-object"
  ELSE IF Errs # {} THEN "model:" \o (CHOOSE e \in Errs : TRUE)
  ELSE IF Outcome \in LinSet /\ KeptOK THEN "ok"
  ELSE IF Case.opk \in FetchOld /\ Outcome \in LinNew /\ KeptOK THEN "returns-new-value"
  ELSE IF Outcome.mem \notin {l.mem : l \in LinSet} THEN "lost-update"
  ELSE IF ~KeptOK THEN "other-bytes-changed"
  ELSE "wrong-result"

Finish ==
  /\ ~fin /\ Quiescent
  /\ fin' = TRUE
  /\ UNCHANGED <<c, th, mem, buf, nv>>
  /\ IF Emit THEN CSVWrite("%1$s", <<ToJson([c |-> c, name |-> Case.name, verdict |-> Verdict,
                                             mem |-> Outcome.mem, rets |-> Outcome.rets])>>, IOEnv.OUT)
     ELSE TRUE

Next == (\E t \in 1..MaxT : Step(t) \/ Flush(t)) \/ Finish

Spec == Init /\ [][Next]_vars
FairSpec == Spec /\ (\A t \in 1..MaxT : WF_vars(Step(t)) /\ WF_vars(Flush(t))) /\ WF_vars(Finish)

(* ---- properties ---- *)
NoModelError == \A t \in Threads : th[t].err = ""
LinOK == fin => Verdict \in {"ok", "returns-new-value"}
Termination == <>fin
=============================================================================
