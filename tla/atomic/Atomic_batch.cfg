SPECIFICATION Spec
CONSTANTS TSO = FALSE
 Emit = TRUE
 MaxT = 3
CHECK_DEADLOCK FALSE
