SPECIFICATION FairSpec
CONSTANTS TSO = FALSE
 Emit = FALSE
 MaxT = 3
PROPERTY Termination
CHECK_DEADLOCK FALSE
