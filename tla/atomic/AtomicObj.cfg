SPECIFICATION Spec
INVARIANTS LinIsExact NoLostUpdate CasHonest
CHECK_DEADLOCK FALSE
