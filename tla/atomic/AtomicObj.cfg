SPECIFICATION Spec
INVARIANTS LinIsExact NoLostUpdate CasHonest HandOff
CHECK_DEADLOCK FALSE
