---------------------------- MODULE CasOperands ----------------------------
(* C16: the semantics of ONE compare-exchange whose three operands are
   non-trivial expressions (builder spec + Level A).  The interleaving model
   (Atomic.tla) uses plain operands; here the generic function

       atomic_compare_exchange_{strong,weak}(OBJ, EXP, DES)

   is called with operand expressions that need registers and temporaries of
   their own, on the succeeding and on the failing path, and everything the
   operation may touch is judged against AtomicSem!Sem("cas"):

     result r, the object x, *expected e, the guard objects on both sides of
     x and of e (a write-back through a clobbered address register lands in a
     neighbour or in a wild address), and the side objects the operand
     expressions legitimately change.

   Operand kinds
     DES  plain      D
          call5      a five-argument call returning D    (arguments use rdi..r8)
          ext5       the same, callee compiled by gcc    (any caller-saved register may change)
          nfetch     atomic_fetch_add(&h, 1) + (D - h0)  (a nested CAS loop)
          ncas       (atomic_compare_exchange_strong(&h, &he, h0 + 1), D)
          scopy      (s2 = s1, D)                        (struct copy)
          bitf       (bf.f = 3) + (D - 3)                (bit-field assignment)
          isub       i1 - i2 = -1 computed in int        (DES of another type than the object's: 7.17.7.4 `C desired`,
          scneg      a signed char variable holding -1    converted as if by assignment - sign-extension to a wider
          iwide      an int constant outside a 1-/2-byte  object, truncation to a narrower one; a 32-bit result's upper
                     object's range (0x1234, 0x12345678)  register half is not its sign)
     EXP  plain &E.e | through a five-argument call
     OBJ  plain &O.x | through a five-argument call
   The three operands are unsequenced with respect to each other; their side
   effects touch pairwise different objects, so the outcome is the same for
   every order (only defined behaviour is generated).

   Level A: x0 = 7; expected e0 = 7 (the exchange succeeds) or 9 (it fails);
   desired D = 21; h0 = 5.                                                    *)
EXTENDS AtomicSem, TLC, Json, CSV, IOUtils

CONSTANTS Seed, Stride

Widths == <<1, 2, 4, 8>>
DesK == <<"plain", "call5", "ext5", "nfetch", "ncas", "scopy", "bitf", "isub", "scneg", "iwide">>
PtrK == <<"plain", "call5">>
Strength == <<"strong", "weak">>

X0 == 7
D  == 21
H0 == 5
E0(path) == IF path = 1 THEN 7 ELSE 9          \* path 1: succeeds, path 2: fails
(* the value of the DES expression before its conversion to the object's type *)
DV(k, w) == IF DesK[k] \in {"isub", "scneg"} THEN -1
            ELSE IF DesK[k] = "iwide" THEN (IF w = 1 THEN 4660 ELSE 305419896)
            ELSE D

VARIABLES wi, sg, pa, dk, ek, ok, st, out
vars == <<wi, sg, pa, dk, ek, ok, st, out>>

(* what the generated function prints: r x e h s2a bff   (guards are checked by the program itself) *)
Outcome ==
  LET w == Widths[wi]
      r == Sem("cas", w, sg, Canon(w, X0), DV(dk, w), E0(pa))   \* ret = expected' * 2 + result
  IN [r   |-> r.ret % 2,
      x   |-> AsLong(w, sg, r.mem),
      e   |-> r.ret \div 2,
      h   |-> IF DesK[dk] \in {"nfetch", "ncas"} THEN H0 + 1 ELSE H0,
      s2a |-> IF DesK[dk] = "scopy" THEN 33 ELSE 0,
      bff |-> IF DesK[dk] = "bitf" THEN 3 ELSE 0]

Index == (((((((wi - 1) * 2 + sg) * 2 + (pa - 1)) * 10 + (dk - 1)) * 2 + (ek - 1)) * 2 + (ok - 1)) * 2 + (st - 1))

Init == /\ wi \in 1..4 /\ sg \in 0..1 /\ pa \in 1..2 /\ dk \in 1..Len(DesK) /\ ek \in 1..2 /\ ok \in 1..2 /\ st \in 1..2
        /\ ~(sg = 0 /\ wi >= 3 /\ DV(dk, Widths[wi]) < 0)          \* only conversions whose result TLC can hold
        /\ ((Index * 7919 + Seed) % Stride = 0 \/ (wi \in {1, 3} /\ sg = 1 /\ ek = 1 /\ ok = 1 /\ st = 1))   \* small family always present
        /\ out = FALSE

EmitCase == /\ ~out /\ out' = TRUE /\ UNCHANGED <<wi, sg, pa, dk, ek, ok, st>>
            /\ CSVWrite("%1$s", <<ToJson([w |-> Widths[wi], sg |-> sg, path |-> IF pa = 1 THEN "succeeds" ELSE "fails",
                                          des |-> DesK[dk], exp |-> PtrK[ek], obj |-> PtrK[ok], strength |-> Strength[st],
                                          e0 |-> E0(pa), want |-> Outcome, idx |-> Index])>>, IOEnv.OUT)

Spec == Init /\ [][EmitCase]_vars
=============================================================================
