-------------------------------- MODULE X86 --------------------------------
(* C16: an interpreter for the x86-64 instruction vocabulary chibicc emits
   around atomic operations.  Pure operators only (no variables): Atomic.tla
   composes threads out of them.  The program is NOT written here: it is the
   `-S` output of the compiler under test, parsed by harness/asmparse.py into
   instruction records
       [op, w (operand width), sw, sx (movx source width / sign-extend), lock,
        a, b (operands: [k, r, w, base, idx, sc, d]), t (jump target), s (text)].

   Machine context  M = [T |-> thread, mem |-> shared memory, b |-> store buffer]
     T.r / T.h   general registers: two signed 32-bit words, low (r) and high
                 (h).  Arithmetic is modelled on values that are the sign
                 extension of their low word (h = -1 or 0 accordingly); any
                 other content (what a 32-bit write of a negative value leaves
                 behind: h = 0; the bit pattern of a double) is carried by data
                 movement, stores and cmpxchg only - 64-bit arithmetic on it
                 is outside the modelled range (err).
     T.x         xmm0, xmm1: <<low word, high word>> of the low 64 bits.  The
                 scalar SSE arithmetic and conversions are modelled for floats
                 and doubles whose value is an integer n, |n| < 2^20 (exact
                 in both formats; anything else is outside the range: err).
     T.stk       the thread's private stack, one byte per element
     mem         shared memory, byte addressed (function address -> 0..255)
     ro          addresses no store may touch (any store there is a violation, even of the same value)
     b           FIFO of pending stores <<addr, bytes>>   (TSO = TRUE only)
   Memory is byte-granular so that an access of the wrong width clobbers or
   misses the neighbouring bytes exactly as the hardware would.

   A mnemonic outside the vocabulary sets T.err (the harness turns that into
   an infrastructure error): nothing is ever silently a no-op.              *)
EXTENDS Integers, Sequences, FiniteSets, TLC, SequencesExt, AtomicSem

CONSTANTS TSO      \* TRUE: per-thread FIFO store buffers (x86-TSO); FALSE: sequentially consistent

StackBase(t) == 100000 * t

SignOf(v) == IF v < 0 THEN -1 ELSE 0
Val2(v, h) == [v |-> v, h |-> h, bad |-> FALSE]                  \* 64-bit content: low word v, high word h
Val(v, z) == Val2(v, IF z THEN 0 ELSE SignOf(v))                 \* z: zero-extended, else sign-extended
BadVal == [v |-> 0, h |-> 0, bad |-> TRUE]

Fail(M, msg) == IF M.T.err = "" THEN [M EXCEPT !.T.err = msg] ELSE M

(* ------------------------------------------------------------ memory ---- *)
InStack(T, a) == a >= StackBase(T.id) /\ a < StackBase(T.id) + Len(T.stk)
Shared(M, a)  == a \in DOMAIN M.mem

(* newest pending store of this thread covering byte a, if any *)
BufByte(b, a) ==
  LET hits == {i \in 1..Len(b) : a >= b[i][1] /\ a < b[i][1] + Len(b[i][2])} IN
  IF hits = {} THEN -1
  ELSE LET i == CHOOSE j \in hits : \A k \in hits : k <= j IN b[i][2][a - b[i][1] + 1]

RdB(M, a) ==
  IF Shared(M, a) THEN (LET p == BufByte(M.b, a) IN IF p >= 0 THEN p ELSE M.mem[a])
  ELSE IF InStack(M.T, a) THEN M.T.stk[a - StackBase(M.T.id) + 1]
  ELSE -1                                                   \* wild address

S32(b0, b1, b2, b3) == b0 + 256 * b1 + 65536 * b2 + 16777216 * (IF b3 >= 128 THEN b3 - 256 ELSE b3)

RdMem(M, a, w) ==
  LET by == [i \in 1..w |-> RdB(M, a + i - 1)] IN
  IF \E i \in 1..w : by[i] < 0 THEN BadVal
  ELSE IF w = 1 THEN Val(by[1], FALSE)
  ELSE IF w = 2 THEN Val(by[1] + 256 * by[2], FALSE)
  ELSE IF w = 4 THEN Val(S32(by[1], by[2], by[3], by[4]), FALSE)
  ELSE Val2(S32(by[1], by[2], by[3], by[4]), S32(by[5], by[6], by[7], by[8]))

ByteOf(x, i) ==            \* byte i (0-based) of the 64-bit content of value x
  IF i < 4 THEN (x.v \div Pow2(8 * i)) % 256
  ELSE (x.h \div Pow2(8 * (i - 4))) % 256

Bytes(x, w) == [i \in 1..w |-> ByteOf(x, i - 1)]

(* w-byte update of a byte-indexed function f at index j (EXCEPT is a native copy in TLC) *)
Poke(f, j, w, x) ==
  IF w = 1 THEN [f EXCEPT ![j] = ByteOf(x, 0)]
  ELSE IF w = 2 THEN [f EXCEPT ![j] = ByteOf(x, 0), ![j + 1] = ByteOf(x, 1)]
  ELSE IF w = 4 THEN [f EXCEPT ![j] = ByteOf(x, 0), ![j + 1] = ByteOf(x, 1), ![j + 2] = ByteOf(x, 2), ![j + 3] = ByteOf(x, 3)]
  ELSE [f EXCEPT ![j] = ByteOf(x, 0), ![j + 1] = ByteOf(x, 1), ![j + 2] = ByteOf(x, 2), ![j + 3] = ByteOf(x, 3),
                 ![j + 4] = ByteOf(x, 4), ![j + 5] = ByteOf(x, 5), ![j + 6] = ByteOf(x, 6), ![j + 7] = ByteOf(x, 7)]

(* store w bytes; `buffered`: goes to the store buffer when the address is shared *)
RoErr == "store to an object that must not be written"
(* Every 64-bit pattern is representable, so a bad value only ever comes from a read that touched
   a byte outside every object of the program and the thread's own stack (RdB = -1): the code
   under test accessed more than the object - a verdict, not a limit of the interpreter.          *)
WildErr == "access to a byte outside every object"
WrMem(M, a, w, x, buffered) ==
  IF x.bad THEN Fail(M, WildErr)
  ELSE IF \E q \in M.ro : q >= a /\ q < a + w THEN Fail(M, RoErr)       \* Case.ro: e.g. the `expected` object of a
                                                                        \* compare-exchange that can only succeed
  ELSE IF Shared(M, a) /\ Shared(M, a + w - 1) THEN
       IF buffered THEN [M EXCEPT !.b = Append(@, <<a, Bytes(x, w)>>)]
       ELSE [M EXCEPT !.mem = Poke(@, a, w, x)]
  ELSE IF InStack(M.T, a) /\ InStack(M.T, a + w - 1) THEN
       [M EXCEPT !.T.stk = Poke(@, a - StackBase(M.T.id) + 1, w, x)]
  ELSE IF a >= StackBase(M.T.id) - 50000 /\ a < StackBase(M.T.id) + 50000
       THEN Fail(M, "stack: store outside the modelled frame")             \* a limit of the model (Case.ss), not a verdict
  ELSE Fail(M, WildErr)

(* --------------------------------------------------------- registers ---- *)
RdReg(T, r, w) ==
  IF w = 8 THEN Val2(T.r[r], T.h[r])
  ELSE IF w = 4 THEN Val(T.r[r], FALSE)
  ELSE IF w = 2 THEN Val(T.r[r] % 65536, FALSE)
  ELSE Val(T.r[r] % 256, FALSE)

WrReg(M, r, w, x) ==
  IF x.bad THEN Fail(M, WildErr)
  ELSE IF w = 8 THEN [M EXCEPT !.T.r[r] = x.v, !.T.h[r] = x.h]
  ELSE IF w = 4 THEN [M EXCEPT !.T.r[r] = x.v, !.T.h[r] = 0]             \* a 32-bit write zeroes bits 32..63
  ELSE IF w = 2 THEN [M EXCEPT !.T.r[r] = (@ - (@ % 65536)) + (x.v % 65536)]
  ELSE [M EXCEPT !.T.r[r] = (@ - (@ % 256)) + (x.v % 256)]

EA(T, o) == o.d + (IF o.base # "" THEN T.r[o.base] ELSE 0) + (IF o.idx # "" THEN T.r[o.idx] * o.sc ELSE 0)

(* the value an ALU operation computes with: canonical at width w *)
Num(w, x) == IF w = 1 THEN x.v % 256 ELSE IF w = 2 THEN x.v % 65536 ELSE x.v
Unrep(w, x) == x.bad \/ (w = 8 /\ x.h # SignOf(x.v))
Same(w, x, y) == Num(w, x) = Num(w, y) /\ (w = 8 => x.h = y.h)        \* equal as w-byte bit patterns
Sx(w, n) == IF w = 1 /\ n >= 128 THEN n - 256 ELSE IF w = 2 /\ n >= 32768 THEN n - 65536 ELSE n
ULess(x, y) == IF (x < 0) = (y < 0) THEN x < y ELSE y < 0     \* unsigned order of two's-complement values

RdOp(M, o, w) ==
  IF o.k = "imm" THEN Val(o.d, FALSE)
  ELSE IF o.k = "reg" THEN RdReg(M.T, o.r, w)
  ELSE IF M.T.ph = 1 THEN M.T.latch                          \* second half of a split read-modify-write
  ELSE RdMem(M, EA(M.T, o), w)

WrOp(M, o, w, x, buffered) ==
  IF o.k = "reg" THEN WrReg(M, o.r, w, x) ELSE WrMem(M, EA(M.T, o), w, x, buffered)

Adv(M) == [M EXCEPT !.T.pc = @ + 1, !.T.ph = 0]
Flags(M, z, lt, bl, known) == [M EXCEPT !.T.fl = [z |-> z, lt |-> lt, b |-> bl, known |-> known]]

(* ------------------------------------------------- floating registers ---- *)
(* IEEE 754 single / double of an integer n, |n| < 2^20, as signed 32-bit words (the low word of
   such a double is 0), and back.  ok = FALSE: the bits are no such number.                       *)
FMax == 1048576
Log2(m) == CHOOSE e \in 0..20 : Pow2(e) <= m /\ m < Pow2(e + 1)
SetSign(n, b) == IF n < 0 THEN (b - 2147483647) - 1 ELSE b
ClrSign(b) == IF b < 0 THEN (b + 2147483647) + 1 ELSE b
F32Bits(n) == IF n = 0 THEN 0
              ELSE LET m == Abs(n) e == Log2(m) IN SetSign(n, (127 + e) * Pow2(23) + (m - Pow2(e)) * Pow2(23 - e))
F64Hi(n)   == IF n = 0 THEN 0
              ELSE LET m == Abs(n) e == Log2(m) IN SetSign(n, (1023 + e) * Pow2(20) + (m - Pow2(e)) * Pow2(20 - e))
FDecW(word, bias, mb) ==
  LET b == ClrSign(word)
      e == (b \div Pow2(mb)) - bias
      mant == b % Pow2(mb)
  IN IF word = 0 THEN [ok |-> TRUE, n |-> 0]
     ELSE IF e < 0 \/ e > 19 \/ mant % Pow2(mb - e) # 0 THEN [ok |-> FALSE, n |-> 0]
     ELSE LET m == Pow2(e) + mant \div Pow2(mb - e) IN [ok |-> TRUE, n |-> IF word < 0 THEN 0 - m ELSE m]
FDec(n, x) == IF x.bad THEN [ok |-> FALSE, n |-> 0]
              ELSE IF n = 4 THEN FDecW(x.v, 127, 23)
              ELSE IF x.v # 0 THEN [ok |-> FALSE, n |-> 0] ELSE FDecW(x.h, 1023, 20)
(* n = 4 / 8 bytes of raw bits from an xmm register or from memory, as a Val2 *)
RdX(M, o, n) == IF o.k = "xmm" THEN Val2(M.T.x[o.r][1], IF n = 8 THEN M.T.x[o.r][2] ELSE 0)
                ELSE IF o.k = "mem" THEN RdMem(M, EA(M.T, o), n)
                ELSE BadVal

(* ---------------------------------------------------- classification ---- *)
MemOperand(i) == IF i.b.k = "mem" THEN i.b ELSE IF i.a.k = "mem" THEN i.a ELSE [k |-> "none"]
ReadsAndWritesMem(i) ==
  \/ i.op \in {"add", "sub", "and", "or", "xor", "shl", "shr", "sar", "inc", "dec", "neg", "not", "cmpxchg", "xchg"} /\ i.b.k = "mem"
  \/ i.op = "xchg" /\ i.a.k = "mem"
Locked(i) == i.lock = 1 \/ (i.op = "xchg" /\ MemOperand(i).k = "mem") \/ i.op = "mfence"
TouchesShared(M, i) ==
  i.op # "lea" /\ MemOperand(i).k = "mem" /\ Shared(M, EA(M.T, MemOperand(i)))
PlainStore(i) == i.op \in {"mov", "movss", "movsd"} /\ i.b.k = "mem"
(* An unlocked read-modify-write of shared memory is two bus transactions: it
   is split into a load step (latch) and a compute+store step.               *)
NeedsSplit(M, i) == ReadsAndWritesMem(i) /\ ~Locked(i) /\ TouchesShared(M, i)
(* Private = commutes with every step of every other thread: no shared access,
   or (TSO) a plain store, which only enters this thread's own buffer.       *)
Private(M, i) ==
  /\ ~Locked(i)
  /\ (~TouchesShared(M, i) \/ (TSO /\ PlainStore(i)))

(* --------------------------------------------------------- execution ---- *)
Cond(fl, op) ==
  CASE op \in {"je", "sete"}   -> fl.z
    [] op \in {"jne", "setne"} -> ~fl.z
    [] op \in {"jl", "setl"}   -> fl.lt
    [] op \in {"jge", "setge"} -> ~fl.lt
    [] op \in {"jle", "setle"} -> fl.lt \/ fl.z
    [] op \in {"jg", "setg"}   -> ~(fl.lt \/ fl.z)
    [] op \in {"jb", "setb"}   -> fl.b
    [] op \in {"jae", "setae"} -> ~fl.b
    [] op \in {"jbe", "setbe"} -> fl.b \/ fl.z
    [] op \in {"ja", "seta"}   -> ~(fl.b \/ fl.z)
NeedsOrder(op) == op \notin {"je", "jne", "sete", "setne"}

Binary(op, w, x, y) ==      \* dst x, src y, canonical numbers -> canonical result
  Canon(w, CASE op = "add" -> x + y
             [] op = "sub" -> x - y
             [] op = "and" -> BitAnd(x, y)
             [] op = "or"  -> BitOr(x, y)
             [] op = "xor" -> BitXor(x, y)
             [] op = "imul" -> Sx(w, x) * Sx(w, y)
             [] op = "shl" -> x * Pow2(y % 64)
             [] op = "shr" -> x \div Pow2(y % 64)
             [] op = "sar" -> Sx(w, x) \div Pow2(y % 64))

Exec(M, i) ==
  LET T == M.T IN
  CASE i.op = "nop" -> Adv(M)
    [] i.op = "mov" ->
         LET x == RdOp(M, i.a, i.w) IN Adv(WrOp(M, i.b, i.w, x, TSO))
    [] i.op = "movx" ->
         LET x == RdOp(M, i.a, i.sw)
             n == IF i.sx = 1 THEN Sx(i.sw, Num(i.sw, x)) ELSE Num(i.sw, x)
         IN IF x.bad THEN Fail(M, WildErr) ELSE
            IF i.sx = 0 /\ i.sw = 4 THEN Fail(M, "movx: unsupported zero-extension") ELSE
            Adv(WrReg(M, i.b.r, i.w, Val(n, FALSE)))
    [] i.op = "lea" -> Adv(WrReg(M, i.b.r, i.w, Val(EA(T, i.a), FALSE)))
    [] i.op = "push" ->
         LET x == RdOp(M, i.a, 8)
             sp == T.r["rsp"] - 8
         IN Adv(WrMem([M EXCEPT !.T.r["rsp"] = sp], sp, 8, x, FALSE))
    [] i.op = "pop" ->
         LET sp == T.r["rsp"]
             x == RdMem(M, sp, 8)
         IN IF ~InStack(T, sp) THEN Fail(M, "pop outside the private stack")
            ELSE Adv(WrReg([M EXCEPT !.T.r["rsp"] = sp + 8], i.a.r, 8, x))
    [] i.op \in {"add", "sub", "and", "or", "xor", "imul", "shl", "shr", "sar"} ->
         LET xv == RdOp(M, i.b, i.w)
             yv == RdOp(M, i.a, IF i.op \in {"shl", "shr", "sar"} THEN 1 ELSE i.w)
             x == Num(i.w, xv)
             y == Num(i.w, yv)
         IN IF Unrep(i.w, xv) \/ Unrep(i.w, yv) THEN Fail(M, "range: " \o i.op)
            ELSE IF i.op \in {"shr"} /\ x < 0 THEN Fail(M, "range: shr of a value with the top bit set")
            ELSE IF i.op = "imul" /\ i.b.k # "reg" THEN Fail(M, "imul with memory destination")
            ELSE LET res == Binary(i.op, i.w, x, y) IN
                 Adv(Flags(WrOp(M, i.b, i.w, Val(res, FALSE), TSO), res = 0, FALSE, FALSE, FALSE))
    [] i.op \in {"neg", "not", "inc", "dec"} ->
         LET xv == RdOp(M, i.b, i.w)
             x == Num(i.w, xv)
             res == Canon(i.w, CASE i.op = "neg" -> 0 - x [] i.op = "not" -> (0 - x) - 1
                                 [] i.op = "inc" -> x + 1 [] i.op = "dec" -> x - 1)
         IN IF Unrep(i.w, xv) THEN Fail(M, "range: " \o i.op)
            ELSE LET M2 == WrOp(M, i.b, i.w, Val(res, FALSE), TSO) IN
                 Adv(IF i.op = "not" THEN M2 ELSE Flags(M2, res = 0, FALSE, FALSE, FALSE))
    [] i.op = "cmp" ->
         LET xv == RdOp(M, i.b, i.w)
             yv == RdOp(M, i.a, i.w)
             x == Sx(i.w, Num(i.w, xv))
             y == Sx(i.w, Num(i.w, yv))
         IN IF Unrep(i.w, xv) \/ Unrep(i.w, yv) THEN Fail(M, "range: cmp")
            ELSE Adv(Flags(M, x = y, x < y, ULess(x, y), TRUE))
    [] i.op = "test" ->
         LET xv == RdOp(M, i.b, i.w)
             yv == RdOp(M, i.a, i.w)
         IN IF Unrep(i.w, xv) \/ Unrep(i.w, yv) THEN Fail(M, "range: test")
            ELSE Adv(Flags(M, BitAnd(Num(i.w, xv), Num(i.w, yv)) = 0, FALSE, FALSE, FALSE))
    [] i.op \in {"sete", "setne", "setl", "setle", "setg", "setge", "setb", "setbe", "seta", "setae"} ->
         IF NeedsOrder(i.op) /\ ~T.fl.known THEN Fail(M, "flags: order flags not modelled after this instruction")
         ELSE Adv(WrOp(M, i.a, 1, Val(IF Cond(T.fl, i.op) THEN 1 ELSE 0, FALSE), TSO))
    [] i.op \in {"je", "jne", "jl", "jle", "jg", "jge", "jb", "jbe", "ja", "jae"} ->
         IF NeedsOrder(i.op) /\ ~T.fl.known THEN Fail(M, "flags: order flags not modelled after this instruction")
         ELSE IF Cond(T.fl, i.op) THEN [M EXCEPT !.T.pc = i.t] ELSE Adv(M)
    [] i.op = "jmp" -> [M EXCEPT !.T.pc = i.t]
    [] i.op = "cmpxchg" ->
         (* codegen.c ND_CAS: compare rax (width w) with the destination; equal: store the
            source, ZF = 1; else load the destination into rax, ZF = 0.                    *)
         LET cur == RdOp(M, i.b, i.w)
             acc == RdReg(T, "rax", i.w)
         IN IF cur.bad THEN Fail(M, WildErr)
            ELSE IF Same(i.w, cur, acc)
            THEN Adv(Flags(WrOp(M, i.b, i.w, RdOp(M, i.a, i.w), TSO /\ i.lock = 0), TRUE, FALSE, FALSE, FALSE))
            ELSE LET M2 == IF i.lock = 1 THEN M ELSE WrOp(M, i.b, i.w, cur, TSO)   \* an unlocked cmpxchg writes the old value back
                 IN Adv(Flags(WrReg(M2, "rax", i.w, IF i.w = 8 THEN cur ELSE Val(Num(i.w, cur), FALSE)), FALSE, FALSE, FALSE, FALSE))
    [] i.op = "xchg" ->
         LET x == RdOp(M, i.a, i.w)
             y == RdOp(M, i.b, i.w)
         IN Adv(WrOp(WrOp(M, i.a, i.w, y, FALSE), i.b, i.w, x, FALSE))
    [] i.op = "cqo" -> Adv(WrReg(M, "rdx", 8, Val(IF T.h["rax"] < 0 THEN -1 ELSE 0, FALSE)))
    [] i.op = "cdq" -> Adv(WrReg(M, "rdx", 4, Val(IF T.r["rax"] < 0 THEN -1 ELSE 0, FALSE)))
    [] i.op \in {"idiv", "div"} ->
         (* rdx:rax / operand -> quotient in rax, remainder in rdx.  Modelled for dividends that are the
            sign- (idiv) or zero- (div) extension of rax, which is what cqo/cdq/`mov $0,%edx` set up. *)
         LET lo == RdReg(T, "rax", i.w)
             hi == RdReg(T, "rdx", i.w)
             dv == RdOp(M, i.a, i.w)
             n == Num(i.w, lo)
             m == Num(i.w, dv)
         IN IF Unrep(i.w, lo) \/ Unrep(i.w, dv) \/ i.w < 4 THEN Fail(M, "range: " \o i.op)
            ELSE IF m = 0 THEN Fail(M, "division by zero")
            ELSE IF i.op = "idiv" /\ Num(i.w, hi) # (IF n < 0 THEN -1 ELSE 0) THEN Fail(M, "range: idiv dividend wider than rax")
            ELSE IF i.op = "div" /\ (Num(i.w, hi) # 0 \/ n < 0 \/ m < 0) THEN Fail(M, "range: div operands outside the modelled range")
            ELSE Adv(WrReg(WrReg(M, "rax", i.w, Val(TDiv(n, m), FALSE)), "rdx", i.w, Val(TMod(n, m), FALSE)))
    [] i.op \in {"repstosb", "repmovsb"} ->
         (* rep stosb / rep movsb (DF = 0) on the thread's PRIVATE stack only: chibicc zero-fills and
            copies locals with them.  On shared memory they would be many bus transactions: not modelled. *)
         LET n == T.r["rcx"]
             dst == T.r["rdi"]
             src == T.r["rsi"]
             o == dst - StackBase(T.id)
             so == src - StackBase(T.id)
             fill == T.r["rax"] % 256
         IN IF n < 0 \/ n > Len(T.stk) THEN Fail(M, "range: rep count")
            ELSE IF n > 0 /\ ~(InStack(T, dst) /\ InStack(T, dst + n - 1)) THEN Fail(M, "rep stos/movs outside the private stack is not modelled")
            ELSE IF n > 0 /\ i.op = "repmovsb" /\ ~(InStack(T, src) /\ InStack(T, src + n - 1)) THEN Fail(M, "rep movs from outside the private stack is not modelled")
            ELSE Adv([M EXCEPT !.T.stk = [j \in 1..Len(T.stk) |->
                                             IF j > o /\ j <= o + n THEN (IF i.op = "repstosb" THEN fill ELSE T.stk[so + (j - o)]) ELSE T.stk[j]],
                               !.T.r["rcx"] = 0, !.T.r["rdi"] = dst + n,
                               !.T.r["rsi"] = IF i.op = "repmovsb" THEN src + n ELSE @])
    [] i.op \in {"movss", "movsd"} ->
         (* scalar move, 4 / 8 bytes of raw bits; a load from memory zeroes the rest of the register,
            a register-to-register movss keeps it *)
         LET n == IF i.op = "movss" THEN 4 ELSE 8
             src == RdX(M, i.a, n)
         IN IF src.bad THEN Fail(M, "range: sse load")
            ELSE IF i.b.k = "xmm"
            THEN Adv([M EXCEPT !.T.x[i.b.r] = IF n = 8 THEN <<src.v, src.h>>
                                              ELSE IF i.a.k = "xmm" THEN <<src.v, @[2]>> ELSE <<src.v, 0>>])
            ELSE IF i.b.k = "mem" THEN Adv(WrMem(M, EA(T, i.b), n, src, TSO))
            ELSE Fail(M, "sse move form not modelled")
    [] i.op = "movdq" ->          \* movd (w = 4) / movq (w = 8) between xmm and a general register
         IF i.a.k = "xmm" /\ i.b.k = "reg" THEN Adv(WrReg(M, i.b.r, i.w, RdX(M, i.a, 8)))
         ELSE IF i.a.k = "reg" /\ i.b.k = "xmm"
         THEN LET x == RdReg(T, i.a.r, i.w) IN Adv([M EXCEPT !.T.x[i.b.r] = <<x.v, IF i.w = 8 THEN x.h ELSE 0>>])
         ELSE Fail(M, "movd/movq form not modelled")
    [] i.op \in {"cvtsi2ss", "cvtsi2sd"} ->
         LET xv == RdOp(M, i.a, i.w) IN
         IF Unrep(i.w, xv) \/ i.w < 4 \/ Abs(xv.v) >= FMax \/ i.b.k # "xmm" THEN Fail(M, "range: " \o i.op)
         ELSE Adv([M EXCEPT !.T.x[i.b.r] = IF i.op = "cvtsi2ss" THEN <<F32Bits(xv.v), @[2]>> ELSE <<0, F64Hi(xv.v)>>])
    [] i.op \in {"cvttss2si", "cvttsd2si"} ->
         LET d == FDec(IF i.op = "cvttss2si" THEN 4 ELSE 8, RdX(M, i.a, IF i.op = "cvttss2si" THEN 4 ELSE 8)) IN
         IF ~d.ok \/ i.b.k # "reg" \/ i.w < 4 THEN Fail(M, "range: " \o i.op)
         ELSE Adv(WrReg(M, i.b.r, i.w, Val(d.n, FALSE)))
    [] i.op \in {"cvtss2sd", "cvtsd2ss"} ->
         LET d == FDec(IF i.op = "cvtss2sd" THEN 4 ELSE 8, RdX(M, i.a, IF i.op = "cvtss2sd" THEN 4 ELSE 8)) IN
         IF ~d.ok \/ i.b.k # "xmm" THEN Fail(M, "range: " \o i.op)
         ELSE Adv([M EXCEPT !.T.x[i.b.r] = IF i.op = "cvtss2sd" THEN <<0, F64Hi(d.n)>> ELSE <<F32Bits(d.n), @[2]>>])
    [] i.op \in {"addss", "subss", "mulss", "divss", "addsd", "subsd", "mulsd", "divsd"} ->
         (* dst (xmm) := dst op src, on integer-valued operands with an integer-valued result *)
         LET n == IF i.op \in {"addss", "subss", "mulss", "divss"} THEN 4 ELSE 8
             y == FDec(n, RdX(M, i.a, n))
             x == IF i.b.k = "xmm" THEN FDec(n, RdX(M, i.b, n)) ELSE [ok |-> FALSE, n |-> 0]
             o == CASE i.op \in {"addss", "addsd"} -> "a" [] i.op \in {"subss", "subsd"} -> "s"
                    [] i.op \in {"mulss", "mulsd"} -> "m" [] OTHER -> "d"
         IN IF ~x.ok \/ ~y.ok THEN Fail(M, "range: " \o i.op)
            ELSE IF o = "d" /\ (y.n = 0 \/ x.n % y.n # 0) THEN Fail(M, "range: inexact " \o i.op)
            ELSE LET res == CASE o = "a" -> x.n + y.n [] o = "s" -> x.n - y.n [] o = "m" -> x.n * y.n [] o = "d" -> TDiv(x.n, y.n)
                 IN IF Abs(res) >= FMax THEN Fail(M, "range: " \o i.op)
                    ELSE Adv([M EXCEPT !.T.x[i.b.r] = IF n = 4 THEN <<F32Bits(res), @[2]>> ELSE <<0, F64Hi(res)>>])
    [] i.op \in {"mfence", "pause"} -> Adv(M)
    [] i.op = "ret" ->
         (* the function's result is rax as a long; then the next repetition starts (Atomic.tla) *)
         LET x == RdReg(T, "rax", 8) IN
         IF Unrep(8, x) THEN Fail(M, "range: returned value")
         ELSE IF T.r["rsp"] # StackBase(T.id) + Len(T.stk) - 8 THEN Fail(M, "ret with rsp not at the return address")
         ELSE [M EXCEPT !.T.rets = Append(@, x.v), !.T.pc = 0]
    [] OTHER -> Fail(M, "unknown mnemonic: " \o i.op)

(* One instruction, with the split of unlocked shared read-modify-writes. *)
Exec1(M, i) ==
  IF M.T.ph = 0 /\ NeedsSplit(M, i)
  THEN LET x == RdMem(M, EA(M.T, MemOperand(i)), i.w) IN [M EXCEPT !.T.latch = x, !.T.ph = 1]
  ELSE Exec(M, i)
=============================================================================
