----------------------------- MODULE AtomicSem -----------------------------
(* C16, Level A, the pure part: what one atomic operation does to the object
   and what it yields, as a function of the object's current value.  Shared
   by AtomicObj.tla (the reference machine) and Atomic.tla (the check of the
   emitted code).

   Values are kept small (the generation domain guarantees it) so that TLC's
   32-bit integers suffice.  Canonical form of a w-byte object value:
   w = 1, 2: the unsigned value 0 .. 2^(8w)-1;  w = 4, 8: the signed value.  *)
EXTENDS Integers, Sequences, FiniteSets, Bitwise

Pow2(n) == 2 ^ n

Canon(w, x) == IF w = 1 THEN x % 256 ELSE IF w = 2 THEN x % 65536 ELSE x

(* The object's type class is (w, sg): sg = 1 signed, sg = 0 unsigned integer type of w bytes,
   sg = 2: _Bool (w = 1) - a value converted to _Bool is 0 if it compares equal to 0, else 1
   (C11 6.3.1.2); sg = 3: a floating type (w = 4 float, w = 8 double) - the generated domain keeps
   every operand and result an integer of magnitude < 2^20, which both formats hold exactly, so the
   arithmetic is the integers' (and `/` only ever divides exactly).
   CanonT is the conversion of a C value to the object's type, canonical form.  *)
CanonT(w, sg, x) == IF sg = 2 THEN (IF x = 0 THEN 0 ELSE 1) ELSE Canon(w, x)

(* the C value of an object of width w, signed (sg = 1) or unsigned, as a long *)
AsLong(w, sg, c) ==
  IF sg = 1 /\ w = 1 /\ c >= 128 THEN c - 256
  ELSE IF sg = 1 /\ w = 2 /\ c >= 32768 THEN c - 65536
  ELSE c

(* bitwise operations on signed 32-bit values: 16-bit halves, each non-negative *)
Lo16(x) == x % 65536
Hi16(x) == (x \div 65536) % 65536
Join16(h, l) == (IF h >= 32768 THEN h - 65536 ELSE h) * 65536 + l
BitAnd(x, y) == Join16(Hi16(x) & Hi16(y), Lo16(x) & Lo16(y))
BitOr(x, y)  == Join16(Hi16(x) | Hi16(y), Lo16(x) | Lo16(y))
BitXor(x, y) == Join16(Hi16(x) ^^ Hi16(y), Lo16(x) ^^ Lo16(y))

(* C division truncates toward zero (6.5.5p6); TLA+ \div floors *)
Abs(x) == IF x < 0 THEN 0 - x ELSE x
TDiv(a, b) == IF (a < 0) = (b < 0) THEN Abs(a) \div Abs(b) ELSE 0 - (Abs(a) \div Abs(b))
TMod(a, b) == a - b * TDiv(a, b)

(* atomic_fetch_*: two conventions for the value the call yields.  "fadd" .. : the value before
   the operation (C11 7.17.7.5).  "fadd_n" .. : the value after it (what include/stdatomic.h of
   the pinned tree does by mapping the functions onto op=; recorded as a finding).            *)
FetchOld == {"fadd", "fsub", "fand", "for", "fxor"}
FetchNew == {"fadd_n", "fsub_n", "fand_n", "for_n", "fxor_n"}

(* `old op v` of 6.5.16.2 after the integer promotions, converted back to the
   object's type (canonical form).  Shifts: 0 <= v < 8 and a non-negative
   left operand (anything else is outside the generated domain).            *)
Arith(opk, w, sg, cur, v) ==
  LET a == AsLong(w, sg, cur) IN
  CanonT(w, sg, CASE opk \in {"add", "fadd", "fadd_n", "preinc", "postinc", "casinc", "lock"} -> a + v
             [] opk \in {"sub", "fsub", "fsub_n", "predec", "postdec"} -> a - v
             [] opk = "mul" -> a * v
             [] opk = "div" -> TDiv(a, v)
             [] opk = "mod" -> TMod(a, v)
             [] opk \in {"and", "fand", "fand_n"} -> BitAnd(a, v)
             [] opk \in {"or", "for", "for_n"} -> BitOr(a, v)
             [] opk \in {"xor", "fxor", "fxor_n"} -> BitXor(a, v)
             [] opk = "shl" -> a * Pow2(v)
             [] opk = "shr" -> a \div Pow2(v))

(* One atomic operation: new object value and the value the C expression has
   (as a long).  v = operand, e = expected value (compare-exchange only).
   "cas": the generated function returns  expected' * 2 + result.
   The CAS-loop increment and the spin-lock section return 0 in the generated code.   *)
Sem(opk, w, sg, cur, v, e) ==
  CASE opk = "casx" ->
         (* compare-exchange whose `expected` is itself a shared object: the state is the pair
            [m |-> atomic object, x |-> expected object].  e = 0: the producer,
            atomic_compare_exchange_strong(&obj, &xobj, v) - on success obj := v and xobj is NOT
            written (C11 7.17.7.4: expected is updated only on failure); on failure xobj := obj.
            e # 0: the consumer - if it sees obj = e (the producer's new value: the hand-off has
            happened) it takes over xobj and stores v there.                                    *)
         IF e = 0
         THEN IF cur.m = cur.x THEN [mem |-> [m |-> CanonT(w, sg, v), x |-> cur.x], ret |-> 1]
              ELSE [mem |-> [m |-> cur.m, x |-> cur.m], ret |-> 0]
         ELSE IF cur.m = CanonT(w, sg, e) THEN [mem |-> [m |-> cur.m, x |-> CanonT(w, sg, v)], ret |-> 1]
              ELSE [mem |-> cur, ret |-> 0]
    [] opk = "xchg" -> [mem |-> CanonT(w, sg, v), ret |-> AsLong(w, sg, cur)]    \* 7.17.7.3: VAL converted to the object's
                                                                                \* type goes in, the value replaced comes out
    [] opk = "cas"  -> IF cur = CanonT(w, sg, e)
                       THEN [mem |-> CanonT(w, sg, v), ret |-> AsLong(w, sg, CanonT(w, sg, e)) * 2 + 1]
                       ELSE [mem |-> cur,         ret |-> AsLong(w, sg, cur) * 2]
    [] opk \in {"postinc", "postdec"} \cup FetchOld -> [mem |-> Arith(opk, w, sg, cur, v), ret |-> AsLong(w, sg, cur)]
    [] opk \in {"casinc", "lock"} ->
                       [mem |-> Arith(opk, w, sg, cur, v), ret |-> 0]
    [] OTHER -> LET n == Arith(opk, w, sg, cur, v) IN [mem |-> n, ret |-> AsLong(w, sg, n)]

(* All outcomes of nt threads performing their operations, each atomically, in
   every order that respects program order: the set of
   [mem |-> final value, rets |-> <<results of thread 1, results of thread 2, ..>>].
   ops[t][k] = [opk |-> .., v |-> .., e |-> ..]  (threads may perform different operations).                                         *)
RECURSIVE LinFrom(_, _, _, _, _, _)
LinFrom(w, sg, ops, cur, idx, rets) ==
  LET ready == {t \in DOMAIN ops : idx[t] <= Len(ops[t])} IN
  IF ready = {} THEN {[mem |-> cur, rets |-> rets]}
  ELSE UNION { LET o == ops[t][idx[t]]
                   r == Sem(o.opk, w, sg, cur, o.v, o.e)
               IN LinFrom(w, sg, ops, r.mem, [idx EXCEPT ![t] = @ + 1],
                          [rets EXCEPT ![t] = Append(@, r.ret)])
             : t \in ready }
Lin(w, sg, ops, init) ==
  LinFrom(w, sg, ops, init, [t \in DOMAIN ops |-> 1], [t \in DOMAIN ops |-> <<>>])
=============================================================================
