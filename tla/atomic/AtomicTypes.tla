---------------------------- MODULE AtomicTypes ----------------------------
(* C16, the type half of <stdatomic.h>.  C11 7.17.6 gives every atomic_X
   typedef a "direct type" _Atomic X; on x86-64 System V (LP64, glibc's
   <stdint.h>, <stddef.h>, <uchar.h>, <wchar.h>) X has a fixed size and
   signedness.  An object of type atomic_X shared with code that spells the
   type _Atomic X - in the same program or compiled by another compiler - must
   have X's size, alignment and signedness, otherwise a lock-prefixed access of
   one side covers other bytes than the other side's.

   Level A  = the table Direct (7.17.6) composed with Base (psABI + glibc).
   Level I  = what the header of the tree under test declares: the harness
              parses its `typedef _Atomic <specifiers> atomic_X;` lines into a
              list of records (IOEnv.HDR, ndjson) and the trace specification
              below consumes them one by one (one action per typedef), decoding
              the specifier multiset with the same 6.7.2p2 table as DeclSpec.tla.
   Replay   = the harness also compiles, with the tree's compiler and header, a
              program printing sizeof/_Alignof/signedness of every atomic_X and
              of _Atomic X itself, and compares with the emitted table.          *)
EXTENDS Integers, Sequences, FiniteSets, TLC, Json, CSV, IOUtils

CONSTANTS Emit,      \* write Level A's table to IOEnv.OUT
          Wrong      \* sensitivity control: "none" or a deliberately wrong Level A entry

T(sz, sg) == [sz |-> sz, sg |-> sg]

(* psABI figure 3.1 + glibc typedefs on x86-64 *)
Base == [ b \in {"_Bool", "char", "signed char", "unsigned char", "short", "unsigned short", "int", "unsigned int",
                 "long", "unsigned long", "long long", "unsigned long long",
                 "char16_t", "char32_t", "wchar_t",
                 "int_least8_t", "uint_least8_t", "int_least16_t", "uint_least16_t",
                 "int_least32_t", "uint_least32_t", "int_least64_t", "uint_least64_t",
                 "int_fast8_t", "uint_fast8_t", "int_fast16_t", "uint_fast16_t",
                 "int_fast32_t", "uint_fast32_t", "int_fast64_t", "uint_fast64_t",
                 "intptr_t", "uintptr_t", "size_t", "ptrdiff_t", "intmax_t", "uintmax_t"} |->
  CASE b = "_Bool" -> T(1, FALSE)
    [] b \in {"char", "signed char", "int_least8_t", "int_fast8_t"} -> T(1, TRUE)
    [] b \in {"unsigned char", "uint_least8_t", "uint_fast8_t"} -> T(1, FALSE)
    [] b \in {"short", "int_least16_t"} -> T(2, TRUE)
    [] b \in {"unsigned short", "uint_least16_t", "char16_t"} -> T(2, FALSE)
    [] b \in {"int", "int_least32_t", "wchar_t"} -> T(4, TRUE)
    [] b \in {"unsigned int", "uint_least32_t", "char32_t"} -> T(4, FALSE)
    [] b \in {"long", "long long", "int_least64_t", "int_fast16_t", "int_fast32_t", "int_fast64_t",
              "intptr_t", "ptrdiff_t", "intmax_t"} -> T(8, TRUE)
    [] OTHER -> T(8, FALSE) ]

(* C11 7.17.6: atomic type name -> direct type (without the _Atomic) *)
Direct == << <<"atomic_bool", "_Bool">>, <<"atomic_char", "char">>, <<"atomic_schar", "signed char">>,
             <<"atomic_uchar", "unsigned char">>, <<"atomic_short", "short">>, <<"atomic_ushort", "unsigned short">>,
             <<"atomic_int", "int">>, <<"atomic_uint", "unsigned int">>, <<"atomic_long", "long">>,
             <<"atomic_ulong", "unsigned long">>, <<"atomic_llong", "long long">>, <<"atomic_ullong", "unsigned long long">>,
             <<"atomic_char16_t", "char16_t">>, <<"atomic_char32_t", "char32_t">>, <<"atomic_wchar_t", "wchar_t">>,
             <<"atomic_int_least8_t", "int_least8_t">>, <<"atomic_uint_least8_t", "uint_least8_t">>,
             <<"atomic_int_least16_t", "int_least16_t">>, <<"atomic_uint_least16_t", "uint_least16_t">>,
             <<"atomic_int_least32_t", "int_least32_t">>, <<"atomic_uint_least32_t", "uint_least32_t">>,
             <<"atomic_int_least64_t", "int_least64_t">>, <<"atomic_uint_least64_t", "uint_least64_t">>,
             <<"atomic_int_fast8_t", "int_fast8_t">>, <<"atomic_uint_fast8_t", "uint_fast8_t">>,
             <<"atomic_int_fast16_t", "int_fast16_t">>, <<"atomic_uint_fast16_t", "uint_fast16_t">>,
             <<"atomic_int_fast32_t", "int_fast32_t">>, <<"atomic_uint_fast32_t", "uint_fast32_t">>,
             <<"atomic_int_fast64_t", "int_fast64_t">>, <<"atomic_uint_fast64_t", "uint_fast64_t">>,
             <<"atomic_intptr_t", "intptr_t">>, <<"atomic_uintptr_t", "uintptr_t">>, <<"atomic_size_t", "size_t">>,
             <<"atomic_ptrdiff_t", "ptrdiff_t">>, <<"atomic_intmax_t", "intmax_t">>, <<"atomic_uintmax_t", "uintmax_t">> >>
Names == {Direct[i][1] : i \in DOMAIN Direct}
DirectOf(n) == Direct[CHOOSE i \in DOMAIN Direct : Direct[i][1] = n][2]
LevelA(n) == IF n = Wrong THEN T(Base[DirectOf(n)].sz, ~Base[DirectOf(n)].sg) ELSE Base[DirectOf(n)]

(* the stdint.h contract the table must itself satisfy (7.20.1.2, 7.20.1.3, 7.20.1.4, 7.20.1.5) *)
Bits(n) == CASE n \in {"atomic_int_least8_t", "atomic_uint_least8_t", "atomic_int_fast8_t", "atomic_uint_fast8_t"} -> 8
             [] n \in {"atomic_int_least16_t", "atomic_uint_least16_t", "atomic_int_fast16_t", "atomic_uint_fast16_t", "atomic_char16_t"} -> 16
             [] n \in {"atomic_int_least32_t", "atomic_uint_least32_t", "atomic_int_fast32_t", "atomic_uint_fast32_t", "atomic_char32_t"} -> 32
             [] n \in {"atomic_int_least64_t", "atomic_uint_least64_t", "atomic_int_fast64_t", "atomic_uint_fast64_t",
                       "atomic_intptr_t", "atomic_uintptr_t", "atomic_size_t", "atomic_ptrdiff_t", "atomic_intmax_t", "atomic_uintmax_t"} -> 64
             [] OTHER -> 8
ASSUME \A n \in Names : Base[DirectOf(n)].sz * 8 >= Bits(n) /\ Base[DirectOf(n)].sz \in {1, 2, 4, 8}
Pairs == { <<"atomic_schar", "atomic_uchar">>, <<"atomic_short", "atomic_ushort">>, <<"atomic_int", "atomic_uint">>,
           <<"atomic_long", "atomic_ulong">>, <<"atomic_llong", "atomic_ullong">>,
           <<"atomic_int_least8_t", "atomic_uint_least8_t">>, <<"atomic_int_least16_t", "atomic_uint_least16_t">>,
           <<"atomic_int_least32_t", "atomic_uint_least32_t">>, <<"atomic_int_least64_t", "atomic_uint_least64_t">>,
           <<"atomic_int_fast8_t", "atomic_uint_fast8_t">>, <<"atomic_int_fast16_t", "atomic_uint_fast16_t">>,
           <<"atomic_int_fast32_t", "atomic_uint_fast32_t">>, <<"atomic_int_fast64_t", "atomic_uint_fast64_t">>,
           <<"atomic_intptr_t", "atomic_uintptr_t">>, <<"atomic_intmax_t", "atomic_uintmax_t">>,
           <<"atomic_ptrdiff_t", "atomic_size_t">> }
(* a signed type and its unsigned counterpart have the same size and opposite signedness (6.2.5p6) *)
ASSUME \A p \in Pairs : /\ Base[DirectOf(p[1])].sz = Base[DirectOf(p[2])].sz
                        /\ Base[DirectOf(p[1])].sg /\ ~Base[DirectOf(p[2])].sg

(* ---- Level I: the specifier lists found in the tree's header, decoded as declspec() would (6.7.2p2) *)
Hdr == IF "HDR" \in DOMAIN IOEnv THEN ndJsonDeserialize(IOEnv.HDR) ELSE <<>>     \* [name, kw: <<"unsigned","long">>]
Count(s, k) == Cardinality({i \in DOMAIN s : s[i] = k})
Decode(s) ==
  LET u == Count(s, "unsigned") > 0
      l == Count(s, "long")
  IN  IF Count(s, "_Bool") > 0 THEN T(1, FALSE)
      ELSE IF Count(s, "char") > 0 THEN T(1, ~u)
      ELSE IF Count(s, "short") > 0 THEN T(2, ~u)
      ELSE IF l > 0 THEN T(8, ~u)
      ELSE T(4, ~u)

VARIABLES i, bad
vars == <<i, bad>>
Init == /\ i = 1 /\ bad = {}
        /\ (Emit => \A k \in DOMAIN Direct :
               CSVWrite("%1$s", <<ToJson([name |-> Direct[k][1], direct |-> Direct[k][2],
                                          sz |-> LevelA(Direct[k][1]).sz, sg |-> LevelA(Direct[k][1]).sg])>>, IOEnv.OUT))
(* one header typedef consumed per step *)
Typedef == /\ i <= Len(Hdr)
           /\ i' = i + 1
           /\ bad' = IF Hdr[i].name \in Names /\ Decode(Hdr[i].kw) # LevelA(Hdr[i].name) THEN bad \cup {Hdr[i].name} ELSE bad
Next == Typedef
Spec == Init /\ [][Next]_vars

HeaderAgrees == bad = {}
(* every name of 7.17.6 is declared once the header has been consumed *)
HeaderComplete == i > Len(Hdr) /\ Len(Hdr) > 0 => Names \subseteq {Hdr[k].name : k \in DOMAIN Hdr}
=============================================================================
