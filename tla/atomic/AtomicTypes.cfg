SPECIFICATION Spec
CONSTANTS Emit = FALSE
 Wrong = "none"
INVARIANTS HeaderAgrees HeaderComplete
CHECK_DEADLOCK FALSE
