SPECIFICATION Spec
CONSTANTS Variant = "ok"
 Emit = FALSE
INVARIANTS ContextFree
CHECK_DEADLOCK FALSE
