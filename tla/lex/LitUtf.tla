------------------------------- MODULE LitUtf -------------------------------
(* C11, code points.  One state = one Unicode scalar value c (plain 21-bit TLC
   integers).  Walks: from every start in `Starts` for `Span` consecutive scalar
   values (the surrogate gap D800-DFFF is stepped over).
     thorough: Starts = every multiple of 2048 -> all 1,112,064 scalar values
     quick:    Starts = (every edge of every range of section 2/3 of Literals.tla) - 2,
               Span = 4, plus NSample seed-selected single code points

   Level A: Utf8Encode / WellFormed8 / Utf8Decode (Unicode tables 3-6, 3-7),
            Utf16Encode / Utf16Decode, IdStart / IdCont (Annex D)
   Level I: ChibiEncode, ChibiDecode, ChibiIdent1/2 (unicode.c)
   Every state is written as one row of the table that the replay feeds to the
   linked unicode.c and turns into literals and identifiers:
     c  n8 b1 b2 b3 b4  n16 u1 u2  idstart idcont
   plus rows "X n b1.." for ill-formed byte sequences (expected: rejected).     *)
EXTENDS Literals, CSV, IOUtils

CONSTANTS Mode,        \* "all" | "edges"
          Seed, NSample,
          Variant,     \* "ok" | "enc-7ff" | "ident-hole"
          Emit

Chunk == 2048
Scalarize(c) == IF IsSurrogate(c) THEN 57344 ELSE IF c < 0 THEN 0 ELSE IF c > MaxCP THEN MaxCP ELSE c
EdgeStarts == {Scalarize(e - 2) : e \in CodePointEdges}
SampleStarts == {Scalarize(((k * 104729) + (Seed * 7919) + 12345) % (MaxCP + 1)) : k \in 1..NSample}
Succ(c) == IF c + 1 = 55296 THEN 57344 ELSE c + 1

IllFormed == { <<192, 128>>, <<193, 191>>, <<224, 128, 128>>, <<224, 159, 191>>,                \* overlong
               <<240, 128, 128, 128>>, <<240, 143, 191, 191>>,
               <<237, 160, 128>>, <<237, 191, 191>>,                                             \* surrogates
               <<244, 144, 128, 128>>, <<247, 191, 191, 191>>,                                   \* beyond 10FFFF
               <<248, 136, 128, 128, 128>>, <<254>>, <<255>>,                                    \* not a lead byte
               <<128>>, <<191>>,                                                                 \* stray continuation
               <<195, 65>>, <<226, 130, 65>>, <<240, 159, 152, 65>> }                            \* truncated
ASSUME IllFormedIsIllFormed == \A s \in IllFormed : ~WellFormed8(s) /\ Utf8Decode(s) = -1

VARIABLES c, n
vars == <<c, n>>

Pad(s, k) == s \o [i \in 1..(k - Len(s)) |-> -1]
B01(b) == IF b THEN 1 ELSE 0
Row(x) == LET e == Pad(Utf8Encode(x), 4)  u == Pad(Utf16Encode(x), 2) IN
          <<x, Len(Utf8Encode(x)), e[1], e[2], e[3], e[4], Len(Utf16Encode(x)), u[1], u[2], B01(IdStart(x)), B01(IdCont(x))>>
WriteRow(x) == Emit => CSVWrite("%1$s %2$s %3$s %4$s %5$s %6$s %7$s %8$s %9$s %10$s %11$s", Row(x), IOEnv.OUT)
WriteIll(s) == LET e == Pad(s, 5) IN
               Emit => CSVWrite("X %1$s %2$s %3$s %4$s %5$s %6$s", <<Len(s), e[1], e[2], e[3], e[4], e[5]>>, IOEnv.OUT)

Init == \/ c = -1 /\ n = 0                                    \* the ill-formed rows
        \/ Mode = "all"   /\ c \in {k * Chunk : k \in 0..543} \ {55296} /\ n = Chunk - 1
        \/ Mode = "edges" /\ c \in EdgeStarts /\ n = 3
        \/ Mode = "edges" /\ c \in SampleStarts /\ n = 0
Step == /\ c >= 0 /\ n > 0 /\ c < MaxCP
        /\ c' = Succ(c) /\ n' = n - 1
Ill  == /\ c = -1 /\ c' = -2 /\ n' = 0
        /\ \A s \in IllFormed : WriteIll(s)
(* rows are written when a state is left (every state has exactly one way out) *)
Leave == /\ c >= 0 /\ WriteRow(c)
         /\ IF n > 0 /\ c < MaxCP THEN Step ELSE (c' = -3 /\ n' = 0)
Next == Leave \/ Ill
Spec == Init /\ [][Next]_vars

E8 == Utf8Encode(c)
RoundTrip8  == c >= 0 => Utf8Decode(E8) = c
WellFormed  == c >= 0 => WellFormed8(E8) /\ Len(E8) = ShortestLen(c)
Ordered     == (c >= 0 /\ c < MaxCP) => LexLt(E8, Utf8Encode(Succ(c)))
RoundTrip16 == c >= 0 =>
  LET u == Utf16Encode(c) IN
  /\ Utf16Decode(u) = c
  /\ IF c >= 65536 THEN Len(u) = 2 /\ IsHighSur(u[1]) /\ IsLowSur(u[2]) ELSE Len(u) = 1 /\ ~IsSurrogate(u[1])
EncRefines  == c >= 0 => ChibiEncode(c, Variant) = E8
DecRefines  == c >= 0 => ChibiDecode(E8 \o <<65>>) = [c |-> c, n |-> Len(E8)]
IdentRefines == c >= 0 => (ChibiIdent1(c, Variant) = IdStart(c) /\ ChibiIdent2(c, Variant) = IdCont(c))
IdentSane   == c >= 0 => (IdStart(c) => IdCont(c)) /\ (c >= 128 /\ IdCont(c) /\ ~IdStart(c) => InRanges(D2, c))
=============================================================================
