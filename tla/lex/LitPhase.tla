------------------------------ MODULE LitPhase ------------------------------
(* C11, translation phases 1 and 2 (5.1.1.2): end-of-line indicators, the UTF-8
   signature, line splicing.  One state = one text over the alphabet
   { a  "  \  LF  CR }, optionally preceded by a BOM, of length <= MaxLen.

   What the replay relies on (Level A): for a canonical text t (LF line ends, no
   splice, no BOM) each re-encoding the harness applies - CRLF, CR, BOM, a
   backslash-newline inserted at ANY position, and their combination - is mapped
   back to t by phases 1-2.
   Level I: tokenize_file's StripBOM; canonicalize_newline; remove_backslash_newline
   yield the same text up to blank lines (the new-lines it re-inserts to keep line
   numbers are C18's subject) for EVERY text, canonical or not.                  *)
EXTENDS Literals

CONSTANTS MaxLen, Variant        \* "ok" | "crlf-double" | "no-bom" | "chunk3"

VARIABLES bom, t
vars == <<bom, t>>
Alphabet == {97, cDQuote, cBackslash, cLF, cCR}
Text == IF bom THEN BOM \o t ELSE t

Init == bom \in BOOLEAN /\ t = <<>>
Next == \E b \in Alphabet : Len(t) < MaxLen /\ t' = Append(t, b) /\ UNCHANGED bom
Spec == Init /\ [][Next]_vars

StripTail(s) == IF s # <<>> /\ s[Len(s)] = cLF THEN SubSeq(s, 1, Len(s) - 1) ELSE s
Norm(s) == StripTail(Squeeze(s))

Undone == (~bom /\ Canonical(t)) =>
  /\ Phase12(t) = t
  /\ Phase12(ToCRLF(t)) = t
  /\ Phase12(ToCR(t)) = t
  /\ Phase12(WithBOM(t)) = t
  /\ \A i \in 0..Len(t) : /\ Phase12(SpliceAt(t, i)) = t
                          /\ Phase12(WithBOM(ToCRLF(SpliceAt(t, i)))) = t
                          /\ Phase12(ToCR(SpliceAt(t, i))) = t
Refines == Norm(ChibiPhase12(Text, Variant)) = Norm(Phase12(Text))
(* where a text starts is immaterial: a pad of any length in front (a comment in the replay, letters here) moves
   every line end across every block edge and must not change what follows it                                  *)
PadIndependent == (~bom /\ Canonical(t)) =>
  \A k \in 0..3 : LET pad == [i \in 1..k |-> 97] IN
     /\ Phase12(pad \o ToCRLF(t)) = pad \o t
     /\ Norm(ChibiPhase12(pad \o ToCRLF(t), Variant)) = Norm(pad \o t)
     /\ \A i \in 0..Len(t) : Norm(ChibiPhase12(pad \o ToCRLF(SpliceAt(t, i)), Variant)) = Norm(pad \o t)
=============================================================================
