------------------------------- MODULE BigDec -------------------------------
(* Natural numbers of any size for TLC, as little-endian sequences of base-10000
   limbs (limb 1 = the four least significant decimal digits).  Decimal digit
   strings are then a matter of cutting into groups of four, and products with
   small factors stay below 2^31 (9999 * 65536 + carry).  Every loop is a
   FoldLeft (see tla/lib/BV.tla for why).  A value has no leading zero limb;
   zero is <<>>.

     FromNat(n)            n a TLC natural
     MulSmall(a, m)        m <= 65536
     AddSmall(a, n), SubSmall(a, n)    n < 10000, a >= n
     MulPow2(a, k), MulPow5(a, k), MulPow10(a, k)
     Pow2(k)
     Add(a, b), Cmp(a, b)  (-1, 0, 1)
     Digits(a)             decimal digits, most significant first (<<0>> for zero)
     FromDigits(ds)                                                          *)
EXTENDS Integers, Sequences, SequencesExt

LOCAL BASE == 10000
LOCAL R(n) == [i \in 1..n |-> i]
Norm(a) == LET k == FoldLeft(LAMBDA acc, i : IF a[i] # 0 THEN i ELSE acc, 0, R(Len(a))) IN SubSeq(a, 1, k)
FromNat(n) == Norm(<<n % BASE, (n \div BASE) % BASE, n \div (BASE * BASE)>>)
MulSmall(a, m) ==
  LET r == FoldLeft(LAMBDA acc, x : LET v == x * m + acc[1] IN <<v \div BASE, Append(acc[2], v % BASE)>>, <<0, <<>>>>, a)
  IN Norm(r[2] \o <<r[1] % BASE, r[1] \div BASE>>)
AddSmall(a, n) ==
  LET r == FoldLeft(LAMBDA acc, x : LET v == x + acc[1] IN <<v \div BASE, Append(acc[2], v % BASE)>>, <<n, <<>>>>, a)
  IN Norm(r[2] \o <<r[1]>>)
SubSmall(a, n) ==
  LET r == FoldLeft(LAMBDA acc, x : LET v == x - acc[1] IN IF v < 0 THEN <<1, Append(acc[2], v + BASE)>> ELSE <<0, Append(acc[2], v)>>,
                    <<n, <<>>>>, a)
  IN Norm(r[2])
LOCAL Rep(a, m, times) == FoldLeft(LAMBDA acc, j : MulSmall(acc, m), a, R(times))
MulPow2(a, k) == MulSmall(Rep(a, 65536, k \div 16), 2 ^ (k % 16))
MulPow5(a, k) == MulSmall(Rep(a, 15625, k \div 6), 5 ^ (k % 6))
MulPow10(a, k) == IF a = <<>> THEN a ELSE [i \in 1..(k \div 4) |-> 0] \o MulSmall(a, 10 ^ (k % 4))
Pow2(k) == MulPow2(<<1>>, k)
Limb(a, i) == IF i <= Len(a) THEN a[i] ELSE 0
Add(a, b) ==
  LET n == IF Len(a) > Len(b) THEN Len(a) ELSE Len(b)
      r == FoldLeft(LAMBDA acc, i : LET v == Limb(a, i) + Limb(b, i) + acc[1] IN <<v \div BASE, Append(acc[2], v % BASE)>>,
                    <<0, <<>>>>, R(n))
  IN Norm(r[2] \o <<r[1]>>)
Cmp(a, b) ==
  IF Len(a) # Len(b) THEN (IF Len(a) < Len(b) THEN -1 ELSE 1)
  ELSE FoldLeft(LAMBDA acc, j : LET i == Len(a) + 1 - j IN
                                IF acc # 0 THEN acc ELSE IF a[i] < b[i] THEN -1 ELSE IF a[i] > b[i] THEN 1 ELSE 0,
                0, R(Len(a)))
Digits(a) ==
  IF a = <<>> THEN <<0>>
  ELSE LET all == FoldLeft(LAMBDA acc, j : LET x == a[Len(a) + 1 - j] IN
                             acc \o <<x \div 1000, (x \div 100) % 10, (x \div 10) % 10, x % 10>>, <<>>, R(Len(a)))
           z   == FoldLeft(LAMBDA acc, i : IF acc[2] /\ all[i] = 0 THEN <<acc[1] + 1, TRUE>> ELSE <<acc[1], FALSE>>,
                           <<0, TRUE>>, R(3))[1]            \* at most three leading zeros
       IN SubSeq(all, z + 1, Len(all))
FromDigits(ds) ==
  LET n == Len(ds)
      D(i) == IF i >= 1 THEN ds[i] ELSE 0
  IN Norm([g \in 1..((n + 3) \div 4) |-> LET e == n - 4 * (g - 1) IN D(e) + 10 * D(e - 1) + 100 * D(e - 2) + 1000 * D(e - 3)])
=============================================================================
