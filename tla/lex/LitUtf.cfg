SPECIFICATION Spec
CONSTANTS Mode = "edges"
 Seed = 0
 NSample = 400
 Variant = "ok"
 Emit = FALSE
INVARIANTS RoundTrip8 WellFormed Ordered RoundTrip16 EncRefines DecRefines IdentRefines IdentSane
CHECK_DEADLOCK FALSE
