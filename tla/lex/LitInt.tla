------------------------------- MODULE LitInt -------------------------------
(* C11, integer constants (6.4.4.1).  One state = one constant: base x suffix
   spelling x magnitude (each written in three spelling variants).  The magnitudes are walked in
   increasing order (action Grow), so that "the type never gets narrower as the
   value grows" is a property of the walk.

   Level A  IntLitType  the first type of the 6.4.4.1p5 list that holds the value
   Level I  ChibiIntType  convert_pp_int's shift thresholds (tokenize.c)
   Invariants: Refines (Level I = Level A on what a program can observe),
   FitsChosen, SuffixHonoured, Monotone, RoundTrip (the digit string denotes the
   value).  Variant # "ok" is a wrong ladder that TLC must reject.
   With Emit every constant that has a type is written out as a replay vector. *)
EXTENDS Literals, Json, CSV, IOUtils

CONSTANTS Variant,     \* "ok" | "skip-unsigned-hex" | "l-ignored-hex"
          Emit

P(k) == Pow2(k)
Mags == << Zero, One, FromInt(2), FromInt(7), FromInt(8), FromInt(9), FromInt(10), FromInt(15), FromInt(16),
           FromInt(255), FromInt(305419896),
           Sub(P(31), FromInt(2)), Sub(P(31), One), P(31), Add(P(31), One),
           Sub(P(32), FromInt(2)), Sub(P(32), One), P(32), Add(P(32), One),
           Add(P(40), FromInt(305419896)),
           FromDigits(<<8, 1, 9, 8, 5, 5, 2, 9, 2, 1, 6, 4, 8, 6, 8, 9, 5>>, FALSE),                 \* 0x0123456789abcdef
           P(62),
           Sub(P(63), FromInt(2)), Sub(P(63), One), P(63), Add(P(63), One),
           FromDigits(<<1, 8, 3, 6, 4, 7, 5, 8, 5, 4, 4, 4, 9, 3, 0, 6, 4, 7, 2, 0>>, FALSE),        \* 0xfedcba9876543210
           Sub(P(64), FromInt(2)), Sub(P(64), One) >>
Bases == {2, 8, 10, 16}
(* digit strings and decimal images, computed once (constant definitions are evaluated at start-up) *)
BaseSeq == <<2, 8, 10, 16>>
DigTab == Map(BaseSeq, LAMBDA b : Map(Mags, LAMBDA v : DigitsOf(v, b)))
DecTab == Map(Mags, LAMBDA v : ToDecU(64, v))
BaseIx(b) == CASE b = 2 -> 1 [] b = 8 -> 2 [] b = 10 -> 3 [] OTHER -> 4
Digs(b, i) == DigTab[BaseIx(b)][i]

VARIABLES base, si, mi,
          ci, pci,          \* index of the chosen candidate (0 = no type) for this / the previous magnitude
          ti                \* Level I: the type convert_pp_int chooses
vars == <<base, si, mi, ci, pci, ti>>

Suf == IntSuffixes[si]
V(i) == Mags[i]
CL == Cands(base, Suf.u, Suf.l)
TypeA == IF ci = 0 THEN NoType ELSE CL[ci]            \* = IntLitType(base, Suf, V(mi))
(* decimal constants too large for every signed type, and decimal 0, are not constants of the domain *)
InDomain == mi > 0 /\ IntSpellable(base, V(mi)) /\ ci > 0

Case(i, t, variant) ==
  [kind |-> "int", base |-> base, suffix |-> Suf.t, variant |-> variant,
   src |-> IntSpellingD(base, Suf, Digs(base, i), variant),
   val |-> DecTab[i], size |-> t.w \div 8, neg |-> IF t.sg THEN 1 ELSE 0, type |-> t.n,
   \* in #if every signed type has the range of intmax_t (6.10.1p4): the ladder stops at the first signed candidate
   \* unless the suffix has u or the value needs 64 unsigned bits
   ppneg |-> IF ~Suf.u /\ Fits(64, TRUE, V(i)) THEN 1 ELSE 0]

Init == base \in Bases /\ si \in DOMAIN IntSuffixes /\ mi = 0 /\ ci = 0 /\ pci = 0 /\ ti = NoType
Grow == /\ mi < Len(Mags)
        /\ mi' = mi + 1
        /\ UNCHANGED <<base, si>>
        /\ ci' = CandIndex(base, Suf.u, Suf.l, V(mi + 1))
        /\ pci' = ci
        /\ ti' = ChibiIntType(base, Suf, V(mi + 1), Variant)
        /\ (Emit /\ ci' = 0) =>          \* 6.4.4p2: a constant without a type violates a constraint - a diagnostic is required
              CSVWrite("%1$s", <<ToJson([kind |-> "diag", cls |-> "constant-without-type", base |-> base, suffix |-> Suf.t,
                                         src |-> IntSpellingD(base, Suf, Digs(base, mi + 1), 0)])>>, IOEnv.OUT)
        /\ (Emit /\ mi = 0 /\ base \in {2, 8}) =>     \* a digit outside the base: not a constant at all (6.4.4.1p1)
              CSVWrite("%1$s", <<ToJson([kind |-> "diag", cls |-> "digit-outside-base", base |-> base, suffix |-> Suf.t,
                                         src |-> IntPrefix(base, 0) \o <<48 + base>> \o Suf.t])>>, IOEnv.OUT)
        /\ (Emit /\ ci' > 0 /\ IntSpellable(base, V(mi + 1))) =>
              \A variant \in 0..2 : CSVWrite("%1$s", <<ToJson(Case(mi + 1, CL[ci'], variant))>>, IOEnv.OUT)
Next == Grow
Spec == Init /\ [][Next]_vars

Refines == InDomain => Obs(ti) = Obs(TypeA)
FitsChosen == InDomain => Fits(TypeA.w, TypeA.sg, V(mi))
SuffixHonoured == InDomain =>
  /\ Suf.u => ~TypeA.sg
  /\ Suf.l = 1 => TypeA.rank >= 2
  /\ Suf.l = 2 => TypeA.rank = 3
  /\ (base = 10 /\ ~Suf.u) => TypeA.sg              \* a decimal constant without u is never unsigned
  /\ \A j \in 1..(ci - 1) : ~Fits(CL[j].w, CL[j].sg, V(mi))      \* and no earlier candidate would do
(* compared with the next smaller magnitude (the domain of a (base, suffix) is an interval of the walk) *)
Monotone == (mi > 1 /\ InDomain /\ pci > 0) => (pci <= ci /\ CL[pci].w <= CL[ci].w)
RoundTrip == (mi > 0 /\ si = 1) => ValueOf(base, Digs(base, mi)) = V(mi)
=============================================================================
