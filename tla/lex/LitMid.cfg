SPECIFICATION Spec
CONSTANTS Variant = "ok"
 Emit = FALSE
INVARIANTS IsMidpoint SidesOK Refines
CHECK_DEADLOCK FALSE
