SPECIFICATION Spec
CONSTANTS Variant = "ok"
 Emit = FALSE
INVARIANTS Refines FitsChosen SuffixHonoured Monotone RoundTrip
CHECK_DEADLOCK FALSE
