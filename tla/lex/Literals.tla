------------------------------ MODULE Literals ------------------------------
(* C11.  Level A: what a literal of C11 6.4.4 / 6.4.5 denotes on x86-64 (LP64,
   plain char signed, wchar_t = int, char16_t = unsigned short, char32_t =
   unsigned int, execution character set UTF-8 / UTF-16 / UTF-32), and the
   pieces of Level I that are real algorithms in chibicc (the >> threshold
   ladder of convert_pp_int, the codec of unicode.c, its identifier tables,
   the two text passes of tokenize_file).

   This module holds definitions only.  The machines that enumerate the closed
   domains, state the invariants and write the replay vectors are
     LitInt.tla    integer constants            (6.4.4.1)
     LitStr.tla    character constants, string literals, concatenation (6.4.4.4, 6.4.5)
     LitUtf.tla    UTF-8 / UTF-16 codecs and Annex D over the code points
     LitPhase.tla  translation phases 1 and 2   (5.1.1.2)

   Conventions: source text is a sequence of bytes (TLC integers 0..255);
   values that can exceed 2^31 are BV values (tla/lib/BV.tla); code points are
   TLC integers (21 bits).                                                   *)
EXTENDS Integers, Sequences, SequencesExt, FiniteSets, TLC, BV

Map(s, F(_)) == FoldLeft(LAMBDA acc, x : Append(acc, F(x)), <<>>, s)
Flat(ss)     == FoldLeft(LAMBDA acc, x : acc \o x, <<>>, ss)
Range1(n)    == [i \in 1..n |-> i]

(* ---- characters used in spellings (ASCII codes) ------------------------ *)
cQuote == 39    cDQuote == 34   cBackslash == 92   cLF == 10   cCR == 13
cZero == 48     cLowX == 120    cUpX == 88         cLowB == 98  cUpB == 66
cLowU == 117    cUpU == 85      cLowL == 108       cUpL == 76   cEight == 56
HexDigit(d, up) == IF d < 10 THEN 48 + d ELSE IF up THEN 55 + d ELSE 87 + d
IsHexChar(b) == (b >= 48 /\ b <= 57) \/ (b >= 65 /\ b <= 70) \/ (b >= 97 /\ b <= 102)
IsOctChar(b) == b >= 48 /\ b <= 55

(***************************************************************************)
(* 1. Integer constants, 6.4.4.1                                           *)
(***************************************************************************)
TInt    == [n |-> "int",    w |-> 32, sg |-> TRUE,  rank |-> 1]
TUInt   == [n |-> "uint",   w |-> 32, sg |-> FALSE, rank |-> 1]
TLong   == [n |-> "long",   w |-> 64, sg |-> TRUE,  rank |-> 2]
TULong  == [n |-> "ulong",  w |-> 64, sg |-> FALSE, rank |-> 2]
TLLong  == [n |-> "llong",  w |-> 64, sg |-> TRUE,  rank |-> 3]
TULLong == [n |-> "ullong", w |-> 64, sg |-> FALSE, rank |-> 3]
NoType  == [n |-> "none",   w |-> 0,  sg |-> FALSE, rank |-> 0]

(* the 23 spellings of the suffix: u = has u/U, l = number of l/L *)
IntSuffixes == <<
  [t |-> <<>>, u |-> FALSE, l |-> 0],
  [t |-> <<cLowU>>, u |-> TRUE, l |-> 0],               [t |-> <<cUpU>>, u |-> TRUE, l |-> 0],
  [t |-> <<cLowL>>, u |-> FALSE, l |-> 1],              [t |-> <<cUpL>>, u |-> FALSE, l |-> 1],
  [t |-> <<cLowL, cLowL>>, u |-> FALSE, l |-> 2],       [t |-> <<cUpL, cUpL>>, u |-> FALSE, l |-> 2],
  [t |-> <<cLowU, cLowL>>, u |-> TRUE, l |-> 1],        [t |-> <<cLowU, cUpL>>, u |-> TRUE, l |-> 1],
  [t |-> <<cUpU, cLowL>>, u |-> TRUE, l |-> 1],         [t |-> <<cUpU, cUpL>>, u |-> TRUE, l |-> 1],
  [t |-> <<cLowL, cLowU>>, u |-> TRUE, l |-> 1],        [t |-> <<cLowL, cUpU>>, u |-> TRUE, l |-> 1],
  [t |-> <<cUpL, cLowU>>, u |-> TRUE, l |-> 1],         [t |-> <<cUpL, cUpU>>, u |-> TRUE, l |-> 1],
  [t |-> <<cLowU, cLowL, cLowL>>, u |-> TRUE, l |-> 2], [t |-> <<cLowU, cUpL, cUpL>>, u |-> TRUE, l |-> 2],
  [t |-> <<cUpU, cLowL, cLowL>>, u |-> TRUE, l |-> 2],  [t |-> <<cUpU, cUpL, cUpL>>, u |-> TRUE, l |-> 2],
  [t |-> <<cLowL, cLowL, cLowU>>, u |-> TRUE, l |-> 2], [t |-> <<cLowL, cLowL, cUpU>>, u |-> TRUE, l |-> 2],
  [t |-> <<cUpL, cUpL, cLowU>>, u |-> TRUE, l |-> 2],   [t |-> <<cUpL, cUpL, cUpU>>, u |-> TRUE, l |-> 2] >>

(* the table of 6.4.4.1p5: the candidate types, in order *)
Cands(base, u, l) ==
  IF u THEN (IF l = 0 THEN <<TUInt, TULong, TULLong>> ELSE IF l = 1 THEN <<TULong, TULLong>> ELSE <<TULLong>>)
  ELSE IF base = 10
       THEN (IF l = 0 THEN <<TInt, TLong, TLLong>> ELSE IF l = 1 THEN <<TLong, TLLong>> ELSE <<TLLong>>)
       ELSE (IF l = 0 THEN <<TInt, TUInt, TLong, TULong, TLLong, TULLong>>
             ELSE IF l = 1 THEN <<TLong, TULong, TLLong, TULLong>> ELSE <<TLLong, TULLong>>)

(* "the first in the list in which its value can be represented"; NoType when
   there is none (6.4.4p2 then makes the constant a constraint violation)      *)
CandIndex(base, u, l, v) == SelectInSeq(Cands(base, u, l), LAMBDA t : Fits(t.w, t.sg, v))
IntLitType(base, suf, v) ==
  LET i == CandIndex(base, suf.u, suf.l, v) IN IF i = 0 THEN NoType ELSE Cands(base, suf.u, suf.l)[i]

(* what a program can observe of a type (chibicc has no distinct long long) *)
Obs(t) == <<t.w \div 8, t.sg>>

(* digits of v (0 <= v < 2^64) in a base, most significant first *)
DigitsOf(v, base) ==
  LET r == FoldLeft(LAMBDA acc, j : IF IsZero(acc[1]) THEN acc
                                    ELSE LET qr == DivSmall(acc[1], base)
                                         IN <<qr[1], <<qr[2]>> \o acc[2]>>,
                    <<v, <<>>>>, Range1(64))
  IN IF r[2] = <<>> THEN <<0>> ELSE r[2]
ValueOf(base, ds) == FoldLeft(LAMBDA acc, d : Add(Mul(acc, FromInt(base)), FromInt(d)), Zero, ds)

(* the spelling: prefix, digits, suffix.  variant 0 = lower case, 1 = upper case
   prefix letter and hex digits, 2 = superfluous leading zeros (not for decimal) *)
IntPrefix(base, variant) ==
  CASE base = 16 -> <<cZero, IF variant = 1 THEN cUpX ELSE cLowX>>
    [] base = 2  -> <<cZero, IF variant = 1 THEN cUpB ELSE cLowB>>
    [] base = 8  -> <<cZero>>
    [] OTHER     -> <<>>
IntSpellingD(base, suf, digits, variant) ==
  IntPrefix(base, variant)
  \o (IF variant = 2 /\ base # 10 THEN <<cZero, cZero>> ELSE <<>>)
  \o Map(digits, LAMBDA d : HexDigit(d, variant = 1))
  \o suf.t
IntSpelling(base, suf, v, variant) == IntSpellingD(base, suf, DigitsOf(v, base), variant)
(* decimal 0 cannot be spelled (0 is an octal constant); octal 0 is "0" + "0" *)
IntSpellable(base, v) == ~(base = 10 /\ IsZero(v))

(* Level I: convert_pp_int's typing by shifts of the 64-bit pattern `val`.
   Variant selects the algorithm of the tree ("ok") or a deliberately wrong one
   (sensitivity controls).                                                    *)
Hi(v, k) == ~IsZero(ShrL(Wrap(64, FALSE, v), k))          \* val >> k  # 0  (val < 2^63: logical = arithmetic)
ChibiIntType(base, suf, v, Variant) ==
  LET l == suf.l > 0   u == suf.u IN
  IF base = 10
  THEN IF l /\ u THEN TULong
       ELSE IF l THEN TLong
       ELSE IF u THEN (IF Hi(v, 32) THEN TULong ELSE TUInt)
       ELSE (IF Hi(v, 31) THEN TLong ELSE TInt)
  ELSE IF l /\ u THEN TULong
       ELSE IF l THEN (IF Variant = "l-ignored-hex"
                       THEN (IF Hi(v, 63) THEN TULong ELSE IF Hi(v, 32) THEN TLong ELSE IF Hi(v, 31) THEN TUInt ELSE TInt)
                       ELSE (IF Hi(v, 63) THEN TULong ELSE TLong))
       ELSE IF u THEN (IF Hi(v, 32) THEN TULong ELSE TUInt)
       ELSE IF Hi(v, 63) THEN TULong
       ELSE IF Hi(v, 32) THEN TLong
       ELSE IF Hi(v, 31) THEN (IF Variant = "skip-unsigned-hex" THEN TLong ELSE TUInt)
       ELSE TInt

(***************************************************************************)
(* 2. UTF-8, UTF-16, code points                                           *)
(***************************************************************************)
MaxCP == 1114111                      \* 0x10FFFF
IsSurrogate(c) == c >= 55296 /\ c <= 57343          \* D800..DFFF
IsScalar(c) == c >= 0 /\ c <= MaxCP /\ ~IsSurrogate(c)

(* Unicode 3.9, table 3-6 *)
Utf8Encode(c) ==
  IF c < 128 THEN <<c>>
  ELSE IF c < 2048 THEN <<192 + (c \div 64), 128 + (c % 64)>>
  ELSE IF c < 65536 THEN <<224 + (c \div 4096), 128 + ((c \div 64) % 64), 128 + (c % 64)>>
  ELSE <<240 + (c \div 262144), 128 + ((c \div 4096) % 64), 128 + ((c \div 64) % 64), 128 + (c % 64)>>

(* Unicode 3.9, table 3-7: the well-formed byte sequences, stated on byte ranges
   (independent of the arithmetic above: shortest form, no surrogates, <= 10FFFF) *)
In(b, lo, hi) == b >= lo /\ b <= hi
Cont(b) == In(b, 128, 191)
WellFormed8(s) ==
  \/ Len(s) = 1 /\ In(s[1], 0, 127)
  \/ Len(s) = 2 /\ In(s[1], 194, 223) /\ Cont(s[2])
  \/ Len(s) = 3 /\ \/ s[1] = 224 /\ In(s[2], 160, 191) /\ Cont(s[3])
                   \/ In(s[1], 225, 236) /\ Cont(s[2]) /\ Cont(s[3])
                   \/ s[1] = 237 /\ In(s[2], 128, 159) /\ Cont(s[3])
                   \/ In(s[1], 238, 239) /\ Cont(s[2]) /\ Cont(s[3])
  \/ Len(s) = 4 /\ \/ s[1] = 240 /\ In(s[2], 144, 191) /\ Cont(s[3]) /\ Cont(s[4])
                   \/ In(s[1], 241, 243) /\ Cont(s[2]) /\ Cont(s[3]) /\ Cont(s[4])
                   \/ s[1] = 244 /\ In(s[2], 128, 143) /\ Cont(s[3]) /\ Cont(s[4])
(* the scalar value of a well-formed sequence; -1 for anything else *)
Utf8Decode(s) ==
  IF ~WellFormed8(s) THEN -1
  ELSE CASE Len(s) = 1 -> s[1]
         [] Len(s) = 2 -> (s[1] - 192) * 64 + (s[2] - 128)
         [] Len(s) = 3 -> (s[1] - 224) * 4096 + (s[2] - 128) * 64 + (s[3] - 128)
         [] OTHER      -> (s[1] - 240) * 262144 + (s[2] - 128) * 4096 + (s[3] - 128) * 64 + (s[4] - 128)
ShortestLen(c) == IF c < 128 THEN 1 ELSE IF c < 2048 THEN 2 ELSE IF c < 65536 THEN 3 ELSE 4
(* byte-wise lexicographic order = code point order *)
LexLt(a, b) ==
  LET n == IF Len(a) < Len(b) THEN Len(a) ELSE Len(b)
      d == SelectInSeq(Range1(n), LAMBDA i : a[i] # b[i])
  IN IF d = 0 THEN Len(a) < Len(b) ELSE a[d] < b[d]

(* UTF-16 *)
Utf16Encode(c) == IF c < 65536 THEN <<c>>
                  ELSE <<55296 + ((c - 65536) \div 1024), 56320 + ((c - 65536) % 1024)>>
IsHighSur(u) == In(u, 55296, 56319)
IsLowSur(u)  == In(u, 56320, 57343)
Utf16Decode(s) ==
  IF Len(s) = 1 /\ ~IsSurrogate(s[1]) /\ In(s[1], 0, 65535) THEN s[1]
  ELSE IF Len(s) = 2 /\ IsHighSur(s[1]) /\ IsLowSur(s[2])
       THEN 65536 + (s[1] - 55296) * 1024 + (s[2] - 56320)
       ELSE -1

(* Level I: unicode.c.  encode_utf8 with its <= thresholds; decode_utf8, which
   looks at the lead byte and the two top bits of the continuation bytes only
   (LenientDecode: -1 = error_at, else the value it returns).                *)
ChibiEncode(c, Variant) ==
  IF c <= 127 THEN <<c>>
  ELSE IF c <= (IF Variant = "enc-7ff" THEN 2046 ELSE 2047) THEN <<192 + (c \div 64), 128 + (c % 64)>>
  ELSE IF c <= 65535 THEN <<(224 + (c \div 4096)) % 256, 128 + ((c \div 64) % 64), 128 + (c % 64)>>
  ELSE <<(240 + (c \div 262144)) % 256, 128 + ((c \div 4096) % 64), 128 + ((c \div 64) % 64), 128 + (c % 64)>>
ChibiDecode(s) ==
  IF s[1] < 128 THEN [c |-> s[1], n |-> 1]
  ELSE LET len == IF s[1] >= 240 THEN 4 ELSE IF s[1] >= 224 THEN 3 ELSE IF s[1] >= 192 THEN 2 ELSE 0
           c0  == IF len = 4 THEN s[1] % 8 ELSE IF len = 3 THEN s[1] % 16 ELSE s[1] % 32
       IN IF len = 0 \/ Len(s) < len \/ \E i \in 2..len : ~Cont(s[i]) THEN [c |-> -1, n |-> 0]
          ELSE [c |-> FoldLeft(LAMBDA acc, i : acc * 64 + (s[i] % 64), c0, [j \in 1..(len - 1) |-> j + 1]), n |-> len]

(***************************************************************************)
(* 3. Identifier characters: C11 Annex D                                   *)
(***************************************************************************)
(* D.1 Ranges of characters allowed *)
D1 == << <<168, 168>>, <<170, 170>>, <<173, 173>>, <<175, 175>>, <<178, 181>>, <<183, 186>>, <<188, 190>>,
         <<192, 214>>, <<216, 246>>, <<248, 255>>,
         <<256, 5759>>, <<5761, 6157>>, <<6159, 8191>>,                                   \* 0100-167F 1681-180D 180F-1FFF
         <<8203, 8205>>, <<8234, 8238>>, <<8255, 8256>>, <<8276, 8276>>, <<8288, 8303>>,   \* 200B-200D 202A-202E 203F-2040 2054 2060-206F
         <<8304, 8591>>, <<9312, 9471>>, <<10102, 10131>>, <<11264, 11775>>, <<11904, 12287>>, \* 2070-218F 2460-24FF 2776-2793 2C00-2DFF 2E80-2FFF
         <<12292, 12295>>, <<12321, 12335>>, <<12337, 12351>>,                            \* 3004-3007 3021-302F 3031-303F
         <<12352, 55295>>,                                                                 \* 3040-D7FF
         <<63744, 64829>>, <<64832, 64975>>, <<65008, 65092>>, <<65095, 65533>>,           \* F900-FD3D FD40-FDCF FDF0-FE44 FE47-FFFD
         <<65536, 131069>>, <<131072, 196605>>, <<196608, 262141>>, <<262144, 327677>>,    \* 10000-1FFFD ... E0000-EFFFD
         <<327680, 393213>>, <<393216, 458749>>, <<458752, 524285>>, <<524288, 589821>>,
         <<589824, 655357>>, <<655360, 720893>>, <<720896, 786429>>, <<786432, 851965>>,
         <<851968, 917501>>, <<917504, 983037>> >>
(* D.2 Ranges of characters disallowed initially *)
D2 == << <<768, 879>>, <<7616, 7679>>, <<8400, 8447>>, <<65056, 65071>> >>   \* 0300-036F 1DC0-1DFF 20D0-20FF FE20-FE2F
InRanges(R, c) == \E i \in DOMAIN R : c >= R[i][1] /\ c <= R[i][2]
IsAsciiLetter(c) == In(c, 97, 122) \/ In(c, 65, 90) \/ c = 95
IsAsciiDigit(c) == In(c, 48, 57)
(* 6.4.2.1 + Annex D; `$` (36) is the GNU extension gcc and chibicc share *)
IdCont(c)  == IsAsciiLetter(c) \/ IsAsciiDigit(c) \/ c = 36 \/ InRanges(D1, c)
IdStart(c) == IdCont(c) /\ ~IsAsciiDigit(c) /\ ~InRanges(D2, c)

(* Level I: the two tables of unicode.c, literally *)
ChibiR1 == << <<95, 95>>, <<97, 122>>, <<65, 90>>, <<36, 36>>,
  <<168, 168>>, <<170, 170>>, <<173, 173>>, <<175, 175>>, <<178, 181>>, <<183, 186>>, <<188, 190>>, <<192, 214>>,
  <<216, 246>>, <<248, 255>>, <<256, 767>>, <<880, 5759>>, <<5761, 6157>>, <<6159, 7615>>, <<7680, 8191>>, <<8203, 8205>>,
  <<8234, 8238>>, <<8255, 8256>>, <<8276, 8276>>, <<8288, 8303>>, <<8304, 8399>>, <<8448, 8591>>, <<9312, 9471>>, <<10102, 10131>>,
  <<11264, 11775>>, <<11904, 12287>>, <<12292, 12295>>, <<12321, 12335>>, <<12337, 12351>>, <<12352, 55295>>, <<63744, 64829>>, <<64832, 64975>>,
  <<65008, 65055>>, <<65072, 65092>>, <<65095, 65533>>,
  <<65536, 131069>>, <<131072, 196605>>, <<196608, 262141>>, <<262144, 327677>>,
  <<327680, 393213>>, <<393216, 458749>>, <<458752, 524285>>, <<524288, 589821>>,
  <<589824, 655357>>, <<655360, 720893>>, <<720896, 786429>>, <<786432, 851965>>,
  <<851968, 917501>>, <<917504, 983037>> >>
ChibiR2 == << <<48, 57>>, <<36, 36>>, <<768, 879>>, <<7616, 7679>>, <<8400, 8447>>, <<65056, 65071>> >>
ChibiIdent1(c, Variant) == InRanges(ChibiR1, c) /\ ~(Variant = "ident-hole" /\ c = 8276)
ChibiIdent2(c, Variant) == ChibiIdent1(c, Variant) \/ InRanges(ChibiR2, c)

(* every edge of every range above: the code points at which some function of
   this section changes                                                       *)
EdgesOf(R) == UNION {{R[i][1], R[i][2] + 1} : i \in DOMAIN R}
CodePointEdges == {0, 128, 2048, 65536, 55296, 57344, 1114112, 160, 36, 64, 96}
                  \cup EdgesOf(D1) \cup EdgesOf(D2) \cup EdgesOf(ChibiR1) \cup EdgesOf(ChibiR2)

(***************************************************************************)
(* 4. Character constants and string literals, 6.4.4.4 / 6.4.5             *)
(***************************************************************************)
(* prefixes: "" u8 u U L.  Element width in bits, signedness of the element
   type (char, char, char16_t, char32_t, wchar_t).                            *)
LitPrefixes == <<"", "u8", "u", "U", "L">>
PfxBytes(p) == CASE p = "" -> <<>> [] p = "u8" -> <<cLowU, cEight>> [] p = "u" -> <<cLowU>>
                 [] p = "U" -> <<cUpU>> [] OTHER -> <<cUpL>>
ElemW(p)  == CASE p = "" -> 8 [] p = "u8" -> 8 [] p = "u" -> 16 [] OTHER -> 32
ElemSg(p) == p \in {"", "u8", "L"}

(* Items of a literal body:
     Ch(c)          a source character written as itself (UTF-8 in the file)
     Ucn(c, n)      \uXXXX (n = 4) or \UXXXXXXXX (n = 8); UcnUp: upper-case hex digits
     Esc(ch, v)     simple escape \ch with value v (incl. GNU \e)
     Oct(ds)        \d, \dd, \ddd
     Hex(ds)        \x followed by any number of hex digits; HexUp: upper case     *)
Item(k, c, n, up, ds) == [k |-> k, c |-> c, n |-> n, up |-> up, ds |-> ds]      \* one record shape for all kinds
Ch(c)        == Item("ch", c, 0, FALSE, <<>>)
Ucn(c, n)    == Item("ucn", c, n, FALSE, <<>>)
UcnUp(c, n)  == Item("ucn", c, n, TRUE, <<>>)
Esc(ch, v)   == Item("esc", ch, v, FALSE, <<>>)          \* c = the character after the backslash, n = its value
Oct(ds)      == Item("oct", 0, 0, FALSE, ds)
Hex(ds)      == Item("hex", 0, 0, FALSE, ds)
HexUp(ds)    == Item("hex", 0, 0, TRUE, ds)

HexDigitsOfInt(c, n) == [i \in 1..n |-> (c \div (16 ^ (n - i))) % 16]      \* c < 2^28 when n = 8 is used with 16^7
ItemSrc(it) ==
  CASE it.k = "ch"  -> Utf8Encode(it.c)
    [] it.k = "ucn" -> <<cBackslash, IF it.n = 4 THEN cLowU ELSE cUpU>>
                       \o Map(HexDigitsOfInt(it.c, it.n), LAMBDA d : HexDigit(d, it.up))
    [] it.k = "esc" -> <<cBackslash, it.c>>
    [] it.k = "oct" -> <<cBackslash>> \o Map(it.ds, LAMBDA d : 48 + d)
    [] OTHER        -> <<cBackslash, cLowX>> \o Map(it.ds, LAMBDA d : HexDigit(d, it.up))

(* 6.4.3p2: a UCN shall not name a character below 00A0 other than $ @ `, nor a surrogate *)
UcnAllowed(c) == IsScalar(c) /\ (c >= 160 \/ c \in {36, 64, 96})
(* a source character written as itself inside a literal delimited by `q` *)
RawAllowed(c, q) == IsScalar(c) /\ c >= 32 /\ c # 127 /\ c # cBackslash /\ c # q /\ c # 63    \* no raw `?` (trigraph look-alikes)
ItemOK(it, q) ==
  CASE it.k = "ch"  -> RawAllowed(it.c, q)
    [] it.k = "ucn" -> UcnAllowed(it.c) /\ (it.n = 4 => it.c < 65536)
    [] OTHER        -> TRUE
(* b directly after a would be lexed as part of a's escape sequence *)
Glues(a, b) ==
  LET f == ItemSrc(b)[1] IN
  \/ a.k = "hex" /\ IsHexChar(f)
  \/ a.k = "oct" /\ Len(a.ds) < 3 /\ IsOctChar(f)

(* numeric value of an escape (BV: up to 2^40 in the domain) *)
ShiftVal(bits, ds) == FoldLeft(LAMBDA acc, d : Add(Shl(acc, bits), FromInt(d)), Zero, ds)
EscValue(it) ==
  CASE it.k = "esc" -> FromInt(it.n)
    [] it.k = "oct" -> ShiftVal(3, it.ds)
    [] OTHER        -> ShiftVal(4, it.ds)

(* the elements an item contributes to a literal of prefix p, each element as its
   little-endian object bytes; Bad when the item has no defined meaning there
   (escape out of the range of the unsigned element type, 6.4.4.4p9)           *)
Bad == <<-1>>
LE(n, nbytes) == [i \in 1..nbytes |-> (n \div (256 ^ (i - 1))) % 256]        \* n < 2^21 here
ItemElems(p, it) ==
  LET w == ElemW(p) IN
  IF it.k \in {"ch", "ucn"}
  THEN CASE w = 8  -> Map(Utf8Encode(it.c), LAMBDA b : <<b>>)
         [] w = 16 -> Map(Utf16Encode(it.c), LAMBDA u : LE(u, 2))
         [] OTHER  -> <<LE(it.c, 4)>>
  ELSE LET v == EscValue(it) IN
       IF ULt(v, Pow2(w)) THEN <<Low(v, w \div 8)>> ELSE <<Bad>>
BodyElems(p, items) == Flat(Map(items, LAMBDA it : ItemElems(p, it)))
BodyDefined(p, items, q) ==
  /\ \A i \in DOMAIN items : ItemOK(items[i], q) /\ Bad \notin {ItemElems(p, items[i])[j] : j \in DOMAIN ItemElems(p, items[i])}
  /\ \A i \in 1..(Len(items) - 1) : ~Glues(items[i], items[i + 1])
BodySrc(items) == Flat(Map(items, LAMBDA it : ItemSrc(it)))

(* --- character constant: prefix in {"", "u", "U", "L"}, exactly one element --- *)
CharType(p) == CASE p = "" -> [size |-> 4, sg |-> TRUE]  [] p = "u" -> [size |-> 2, sg |-> FALSE]
                 [] p = "U" -> [size |-> 4, sg |-> FALSE] [] OTHER -> [size |-> 4, sg |-> TRUE]
CharDefined(p, it) ==
  /\ p \in {"", "u", "U", "L"}
  /\ BodyDefined(p, <<it>>, cQuote)
  /\ Len(ItemElems(p, it)) = 1             \* one element: no multi-character / multi-unit constants (impl.-defined)
(* value: the element, converted to the type of the constant; for an unprefixed
   constant the element is a char (signed here) converted to int (6.4.4.4p10)  *)
CharValue(p, it) ==
  LET e == FromLimbs(ItemElems(p, it)[1], FALSE) IN
  CASE p = ""  -> Wrap(8, TRUE, e)
    [] p = "u" -> Wrap(16, FALSE, e)
    [] p = "U" -> Wrap(32, FALSE, e)
    [] OTHER   -> Wrap(32, TRUE, e)
CharSrc(p, it) == PfxBytes(p) \o <<cQuote>> \o ItemSrc(it) \o <<cQuote>>

(* --- string literal: a sequence of pieces [p, items]; 6.4.5p5: pieces without
   prefix take the prefix of the others; two different prefixes are
   implementation-defined (not generated)                                     *)
CombPfx(a, b) == IF a = "" THEN b ELSE IF b = "" \/ a = b THEN a ELSE "mixed"
StrPfx(pieces) == FoldLeft(LAMBDA acc, pc : IF acc = "mixed" THEN acc ELSE CombPfx(acc, pc.p), "", pieces)
StrDefined(pieces) ==
  LET P == StrPfx(pieces) IN
  /\ P # "mixed"
  /\ \A i \in DOMAIN pieces : BodyDefined(P, pieces[i].items, cDQuote)
(* elements incl. the terminating zero, as object bytes in order *)
StrElems(pieces) ==
  LET P == StrPfx(pieces) IN Flat(Map(pieces, LAMBDA pc : BodyElems(P, pc.items)))
StrBytes(pieces) ==
  Flat(StrElems(pieces)) \o [i \in 1..(ElemW(StrPfx(pieces)) \div 8) |-> 0]
StrSrc(pieces) ==
  FoldLeft(LAMBDA acc, pc : (IF acc = <<>> THEN <<>> ELSE acc \o <<32>>)
                             \o PfxBytes(pc.p) \o <<cDQuote>> \o BodySrc(pc.items) \o <<cDQuote>>,
           <<>>, pieces)

(***************************************************************************)
(* 5. Translation phases 1 and 2 on a byte sequence (5.1.1.2)              *)
(***************************************************************************)
BOM == <<239, 187, 191>>
StripBOM(t) == IF Len(t) >= 3 /\ SubSeq(t, 1, 3) = BOM THEN SubSeq(t, 4, Len(t)) ELSE t
(* phase 1: end-of-line indicators CR LF and CR become new-line *)
Phase1(t0) ==
  LET t == StripBOM(t0) IN
  FoldLeft(LAMBDA acc, i : IF t[i] = cCR THEN Append(acc, cLF)
                           ELSE IF t[i] = cLF /\ i > 1 /\ t[i - 1] = cCR THEN acc
                           ELSE Append(acc, t[i]),
           <<>>, Range1(Len(t)))
(* phase 2: each backslash immediately followed by new-line is deleted
   (left to right, once: acc = <<output, skip-next>>)                         *)
Phase2(t) ==
  FoldLeft(LAMBDA acc, i : IF acc[2] THEN <<acc[1], FALSE>>
                           ELSE IF t[i] = cBackslash /\ i < Len(t) /\ t[i + 1] = cLF THEN <<acc[1], TRUE>>
                           ELSE <<Append(acc[1], t[i]), FALSE>>,
           <<<<>>, FALSE>>, Range1(Len(t)))[1]
Phase12(t) == Phase2(Phase1(t))

(* the transformations the replay applies to a program text in canonical form *)
ToCRLF(t) == Flat(Map(t, LAMBDA b : IF b = cLF THEN <<cCR, cLF>> ELSE <<b>>))
ToCR(t)   == Map(t, LAMBDA b : IF b = cLF THEN cCR ELSE b)
WithBOM(t) == BOM \o t
SpliceAt(t, i) == SubSeq(t, 1, i) \o <<cBackslash, cLF>> \o SubSeq(t, i + 1, Len(t))     \* 0 <= i <= Len(t)
Canonical(t) == /\ \A i \in DOMAIN t : t[i] # cCR
                /\ \A i \in 1..(Len(t) - 1) : ~(t[i] = cBackslash /\ t[i + 1] = cLF)
                /\ ~(Len(t) >= 3 /\ SubSeq(t, 1, 3) = BOM)

(* Level I: canonicalize_newline then remove_backslash_newline (which re-inserts
   the removed new-lines after the next new-line to keep line numbers; that is
   C18's subject - here only the text up to blank lines is compared)          *)
ChibiCanon(t, Variant) ==
  FoldLeft(LAMBDA acc, i : IF acc[2] THEN <<acc[1], FALSE>>
                           ELSE IF t[i] = cCR /\ i < Len(t) /\ t[i + 1] = cLF
                                THEN (IF Variant = "crlf-double" THEN <<Append(acc[1], cLF), FALSE>> ELSE <<Append(acc[1], cLF), TRUE>>)
                           ELSE IF t[i] = cCR THEN <<Append(acc[1], cLF), FALSE>>
                           ELSE <<Append(acc[1], t[i]), FALSE>>,
           <<<<>>, FALSE>>, Range1(Len(t)))[1]
ChibiSplice(t) ==       \* acc = <<out, skip, pending new-lines>>
  LET r == FoldLeft(LAMBDA acc, i :
                      IF acc[2] THEN <<acc[1], FALSE, acc[3]>>
                      ELSE IF t[i] = cBackslash /\ i < Len(t) /\ t[i + 1] = cLF THEN <<acc[1], TRUE, acc[3] + 1>>
                      ELSE IF t[i] = cLF THEN <<acc[1] \o [j \in 1..(acc[3] + 1) |-> cLF], FALSE, 0>>
                      ELSE <<Append(acc[1], t[i]), FALSE, acc[3]>>,
                    <<<<>>, FALSE, 0>>, Range1(Len(t)))
  IN r[1] \o [j \in 1..r[3] |-> cLF]
(* Position independence.  The file is read in blocks (read_file: 4096 bytes); phases 1-2 are functions of the
   whole text, so a line end may fall anywhere relative to a block edge.  Variant "chunk3" is the wrong design in
   which canonicalize_newline runs per block (block length 3 here) without carrying state: a CR that ends a block
   and the LF that opens the next one become two new-lines.  TLC must reject it (LitPhase: Refines).           *)
Blocks(t, n) == [b \in 1..((Len(t) + n - 1) \div n) |-> SubSeq(t, (b - 1) * n + 1, IF b * n < Len(t) THEN b * n ELSE Len(t))]
ChibiCanonBlocks(t, n) == Flat(Map(Blocks(t, n), LAMBDA blk : ChibiCanon(blk, "ok")))
ChibiPhase12(t, Variant) ==
  IF Variant = "chunk3" THEN ChibiSplice(StripBOM(ChibiCanonBlocks(t, 3)))
  ELSE ChibiSplice(ChibiCanon(IF Variant = "no-bom" THEN t ELSE StripBOM(t), Variant))
(* the replay's long-file family: offsets (0-based) of the first byte of every end-of-line indicator of an
   encoded text, and the lengths of a leading pad that put that byte at offset edge-1 (the last byte of a block) *)
EolOffsets(t) == {i - 1 : i \in {j \in DOMAIN t : t[j] = cCR \/ (t[j] = cLF /\ (j = 1 \/ t[j - 1] # cCR))}}
StraddlePads(t, edge) == {edge - 1 - o : o \in {x \in EolOffsets(t) : x <= edge - 1}}
(* a text with runs of new-lines collapsed (blank lines carry no tokens) *)
Squeeze(t) == FoldLeft(LAMBDA acc, b : IF b = cLF /\ acc # <<>> /\ acc[Len(acc)] = cLF THEN acc ELSE Append(acc, b), <<>>, t)
=============================================================================
