SPECIFICATION Spec
CONSTANTS Fams = {"ovr","elide"}
 Variant = "ok"
 MaxN = 4
 Emit = FALSE
INVARIANTS Explicit TailKnown Terminated ASane ElideRefines
CHECK_DEADLOCK FALSE
