SPECIFICATION Spec
CONSTANTS Emit = FALSE
INVARIANTS Exact TypeOK
CHECK_DEADLOCK FALSE
