------------------------------- MODULE LitSeq -------------------------------
(* C11, literals in sequence.  The value and type of a constant are a function of
   its spelling alone (6.4.4, 6.4.5): whatever constants precede it in the translation
   unit, in the file itself or in an included header, it denotes what it denotes in
   isolation.  One state = a sequence of <= 3 literal CLASSES; the replay instantiates
   each class with generated literals of the other machines (LitInt, LitFlt, LitMid,
   LitStr), which carry their own Level A expectation, puts them into ONE translation
   unit in this order and demands the observables of each in isolation.

   Level I is the tokenizer as a machine with hidden global state: the C library's
   errno, which strtod / strtof report range errors through (glibc: ERANGE when the
   result is subnormal-and-inexact, zero by underflow, or infinite) and which nothing
   resets.  Variant "ok": convert_pp_int never looks at errno.  Variant "stale-errno":
   the textbook strtoul overflow test `val == ULONG_MAX && errno == ERANGE` without
   `errno = 0` before the call - a constant of value 2^64-1 after a range-erring
   floating constant is rejected; TLC must reject this design (ContextFree).        *)
EXTENDS Integers, Sequences, FiniteSets, TLC, Json, CSV, IOUtils

CONSTANTS Variant, Emit

(* erange: the library conversion of such a constant reports a range error;
   umax:   its value is 2^64-1 (what a saturated strtoul also returns)                     *)
C(n, k, er, um) == [name |-> n, kind |-> k, erange |-> er, umax |-> um]
Classes == <<
  C("flt-subnormal-double", "flt", TRUE, FALSE),   C("flt-subnormal-float", "flt", TRUE, FALSE),
  C("flt-underflow-zero-double", "flt", TRUE, FALSE), C("flt-underflow-zero-float", "flt", TRUE, FALSE),
  C("flt-tiny-long-double", "flt", FALSE, FALSE),  C("flt-near-max-double", "flt", FALSE, FALSE),
  C("flt-near-max-float", "flt", FALSE, FALSE),    C("flt-hex-exact", "flt", FALSE, FALSE),
  C("flt-dec-exact", "flt", FALSE, FALSE),
  C("int-umax-hex", "int", FALSE, TRUE),  C("int-umax-dec", "int", FALSE, TRUE),
  C("int-umax-oct", "int", FALSE, TRUE),  C("int-umax-bin", "int", FALSE, TRUE),
  C("int-umax-minus-1", "int", FALSE, FALSE), C("int-2^63", "int", FALSE, FALSE), C("int-2^63-minus-1", "int", FALSE, FALSE),
  C("int-2^32", "int", FALSE, FALSE), C("int-2^31", "int", FALSE, FALSE), C("int-small", "int", FALSE, FALSE),
  C("chr-max-escape", "chr", FALSE, FALSE), C("str-escapes", "str", FALSE, FALSE), C("str-wide-max-escape", "str", FALSE, FALSE) >>
NC == Len(Classes)

VARIABLES seq,      \* class indices, in translation-unit order
          errno,    \* Level I hidden state: "none" or "ERANGE"
          verdict   \* Level I: per literal "ok" or "rejected"
vars == <<seq, errno, verdict>>

(* one literal through convert_pp_number / convert_pp_int *)
StepErrno(c, er) == IF c.kind = "flt" /\ c.erange THEN "ERANGE" ELSE er          \* success leaves errno alone
StepVerdict(c, er) == IF Variant = "stale-errno" /\ c.kind = "int" /\ c.umax /\ er = "ERANGE" THEN "rejected" ELSE "ok"

(* written out for the replay: every ordered pair; triples producer - bystander - consumer *)
Bystanders == {"flt-dec-exact", "int-small", "chr-max-escape", "str-escapes"}
Interesting(s) == \/ Len(s) = 2
                  \/ /\ Len(s) = 3 /\ Classes[s[1]].erange /\ Classes[s[2]].name \in Bystanders
                     /\ (Classes[s[3]].umax \/ Classes[s[3]].name = "int-2^63")
Init == seq = <<>> /\ errno = "none" /\ verdict = <<>>
Add(i) == /\ Len(seq) < 3
          /\ seq' = Append(seq, i)
          /\ verdict' = Append(verdict, StepVerdict(Classes[i], errno))
          /\ errno' = StepErrno(Classes[i], errno)
          /\ (Emit /\ Interesting(seq')) =>
               CSVWrite("%1$s", <<ToJson([kind |-> "seq", classes |-> [k \in DOMAIN seq' |-> Classes[seq'[k]].name],
                                          header |-> (Len(seq') = 2 /\ (seq'[1] + seq'[2]) % 4 = 0)])>>, IOEnv.OUT)
Next == \E i \in 1..NC : Add(i)
Spec == Init /\ [][Next]_vars

(* Level A: every literal of every sequence is accepted (and, in the replay, has its isolated observables) *)
ContextFree == \A k \in DOMAIN verdict : verdict[k] = "ok"
=============================================================================
