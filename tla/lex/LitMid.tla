------------------------------- MODULE LitMid -------------------------------
(* C11, floating constants next to a rounding midpoint (6.4.4.2p3 with gcc's / IEEE 754's
   correctly rounded conversion: "the nearest representable value", ties to even).

   A midpoint of a binary format with p significand bits is  m = (2M+1) * 2^(e-1)  for a
   significand integer M (the neighbours are M * 2^e and (M+1) * 2^e).  m is a finite
   decimal: (2M+1) * 5^(1-e) / 10^(1-e) for e < 1, an integer otherwise.  One state = one
   midpoint: format x shape of M x exponent.  From its exact digit string (BigDec: natural
   numbers of any size) the machine writes the constants
        m exactly,   m + 10^-k  ("...000...0001"),   m - 10^-k  ("...4999...9999")
   with tails of 25 and 45 digits, positional and scientific notation, every suffix.
   Level A: the constant is compared with the midpoint exactly (Side: parse the spelling
   back, cross-multiply): above -> upper neighbour, below -> lower, equal -> even M.
   In a wider type (suffix l/L, or no suffix for a float midpoint) the midpoint itself is
   representable and is the nearest value.  Observable: 2 * (constant - lower) / ulp, written
   with hexadecimal constants for lower and ulp: 0, 2 in the format; 1 in a wider type.
   Level I (Variant): "ok" = one correctly rounded conversion per type (strtof / strtod /
   strtold); "via-ldouble" = strtold, then a cast: the tail is below half an ulp of the
   64-bit significand, the first rounding lands on m, the second is a tie - rejected by TLC. *)
EXTENDS Integers, Sequences, SequencesExt, TLC, Json, CSV, IOUtils
BD == INSTANCE BigDec

CONSTANTS Variant, Emit

R(n) == [i \in 1..n |-> i]
Map(s, F(_)) == FoldLeft(LAMBDA acc, x : Append(acc, F(x)), <<>>, s)
Rep(n, d) == [i \in 1..n |-> d]
P(f)    == IF f = "f" THEN 24 ELSE 53
EMin(f) == IF f = "f" THEN -149 ELSE -1074            \* exponent of the smallest subnormal = of every subnormal's ulp
EMax(f) == IF f = "f" THEN 104 ELSE 971               \* largest e with M < 2^p finite
Exps(f) == IF f = "f" THEN {-149, -100, -24, -23, 0, 1, 10, 104} ELSE {-1074, -600, -53, -52, 0, 1, 20, 971}

VARIABLES f, mk, j, e,
          done            \* FALSE in the initial state; the step to TRUE writes the constants (and lets the workers share the big arithmetic)
vars == <<f, mk, j, e, done>>

(* M: "lo" 2^(p-1)+j, "hi" 2^p-1-j (normal numbers);  "den" j, "dhi" 2^(p-1)-1-j (subnormal, e = EMin) *)
BigM == CASE mk = "lo"  -> BD!AddSmall(BD!Pow2(P(f) - 1), j)
          [] mk = "hi"  -> BD!SubSmall(BD!Pow2(P(f)), j + 1)
          [] mk = "den" -> BD!FromNat(j)
          [] OTHER      -> BD!SubSmall(BD!Pow2(P(f) - 1), j + 1)
MOdd == IF mk \in {"lo", "den"} THEN j % 2 = 1 ELSE j % 2 = 0
T == BD!AddSmall(BD!MulSmall(BigM, 2), 1)            \* 2M+1
NF == IF e < 1 THEN 1 - e ELSE 0                     \* number of fraction digits of m
N == IF e < 1 THEN BD!MulPow5(T, 1 - e) ELSE BD!MulPow2(T, e - 1)      \* m = N / 10^NF
PadLeft(ds, n) == IF Len(ds) >= n THEN ds ELSE Rep(n - Len(ds), 0) \o ds

(* hexadecimal spelling of M (lower neighbour = 0x<M>p<e>) *)
HexOfNat(n) == LET r == FoldLeft(LAMBDA acc, i : IF acc[1] = 0 /\ acc[2] # <<>> THEN acc ELSE <<acc[1] \div 16, <<acc[1] % 16>> \o acc[2]>>,
                                 <<n, <<>>>>, R(8)) IN r[2]
HexM == IF f = "f" THEN HexOfNat(CASE mk = "lo" -> 8388608 + j [] mk = "hi" -> 16777215 - j [] mk = "den" -> j [] OTHER -> 8388607 - j)
        ELSE CASE mk = "lo"  -> <<1>> \o Rep(12, 0) \o <<j>>          \* j < 16
               [] mk = "hi"  -> <<1>> \o Rep(12, 15) \o <<15 - j>>
               [] mk = "den" -> <<j>>
               [] OTHER      -> Rep(12, 15) \o <<15 - j>>
HexCh(d) == IF d < 10 THEN 48 + d ELSE 87 + d
DecBytes(n) == Map(BD!Digits(BD!FromNat(n)), LAMBDA d : 48 + d)
ExpBytes(x) == (IF x < 0 THEN <<45>> ELSE <<>>) \o DecBytes(IF x < 0 THEN -x ELSE x)
LowerSrc(suf) == <<48, 120>> \o Map(HexM, HexCh) \o <<112>> \o ExpBytes(e) \o suf
UlpSrc(suf)   == <<48, 120, 49, 112>> \o ExpBytes(e) \o suf

(* the digits of a constant: A = all digits, pt = how many of them precede the point *)
Const(side, z) ==
  LET ds == PadLeft(BD!Digits(N), NF + 1)
      n  == Len(ds)
  IN CASE side = "eq" -> [A |-> ds, pt |-> n - NF, t |-> 0]
       [] side = "up" -> [A |-> ds \o Rep(z, 0) \o <<1>>, pt |-> n - NF, t |-> z + 1]
       [] OTHER       -> LET dm == PadLeft(BD!Digits(BD!SubSmall(N, 1)), NF + 1)       \* N - 1: the last digit 5 -> 4 when NF > 0
                         IN [A |-> dm \o Rep(z + 1, 9), pt |-> Len(dm) - NF, t |-> z + 1]
(* which side of the midpoint the spelled constant is on, by exact arithmetic on the spelling:
   A / 10^(NF + t)  versus  N / 10^NF                                                              *)
Side(c) == BD!Cmp(BD!FromDigits(c.A), BD!MulPow10(N, c.t))
Spell(c, form, suf) ==
  IF form = 0
  THEN Map(SubSeq(c.A, 1, c.pt), LAMBDA d : 48 + d) \o <<46>>
       \o (IF c.pt = Len(c.A) THEN <<48>> ELSE Map(SubSeq(c.A, c.pt + 1, Len(c.A)), LAMBDA d : 48 + d)) \o suf
  ELSE LET lz == FoldLeft(LAMBDA acc, i : IF acc[2] /\ c.A[i] = 0 /\ i < Len(c.A) THEN <<acc[1] + 1, TRUE>> ELSE <<acc[1], FALSE>>,
                          <<0, TRUE>>, R(Len(c.A)))[1]
           S  == SubSeq(c.A, lz + 1, Len(c.A))
       IN <<48 + S[1]>> \o (IF Len(S) > 1 THEN <<46>> \o Map(SubSeq(S, 2, Len(S)), LAMBDA d : 48 + d) ELSE <<>>)
          \o <<IF form = 1 THEN 101 ELSE 69>> \o ExpBytes(c.pt - lz - 1) \o suf

(* Level A / Level I: twice the distance from the lower neighbour, in ulps of the format *)
RoundA(cmp)  == IF cmp > 0 THEN 2 ELSE IF cmp < 0 THEN 0 ELSE IF MOdd THEN 2 ELSE 0
RoundI(cmp)  == IF Variant = "via-ldouble" THEN (IF MOdd THEN 2 ELSE 0) ELSE RoundA(cmp)

NarrowSufs == IF f = "f" THEN {<<102>>, <<70>>} ELSE {<<>>}
WideSufs   == IF f = "f" THEN {<<108>>, <<76>>, <<>>} ELSE {<<108>>, <<76>>}
Case(c, side, z, form, suf, wide, r2) ==
  [kind |-> "mid", fmt |-> f, shape |-> mk, j |-> j, e |-> e, side |-> side, tail |-> z, form |-> form, suffix |-> suf,
   wide |-> wide, src |-> Spell(c, form, suf), lower |-> LowerSrc(suf), ulp |-> UlpSrc(suf), val |-> r2,
   size |-> IF suf \in {<<108>>, <<76>>} THEN 16 ELSE IF suf = <<>> THEN 8 ELSE 4]
Sides == {<<"eq", 0>>, <<"up", 25>>, <<"up", 45>>, <<"dn", 25>>, <<"dn", 45>>}

Init == /\ f \in {"f", "d"} /\ done = FALSE
        /\ \/ mk = "lo" /\ j \in 0..3 /\ e \in Exps(f)
           \/ mk = "hi" /\ j \in 0..2 /\ e \in Exps(f) /\ ~(e = EMax(f) /\ j = 0)      \* the upper neighbour must be finite
           \/ mk = "den" /\ j \in 0..3 /\ e = EMin(f)
           \/ mk = "dhi" /\ j \in 0..1 /\ e = EMin(f)
Next == /\ ~done /\ done' = TRUE /\ UNCHANGED <<f, mk, j, e>>
        /\ Emit => \A sz \in Sides : LET c == Const(sz[1], sz[2])  cmp == Side(c) IN
             /\ \A form \in 0..2, suf \in NarrowSufs : (form < 2 \/ sz[2] = 25) =>
                   CSVWrite("%1$s", <<ToJson(Case(c, sz[1], sz[2], form, suf, FALSE, RoundA(cmp)))>>, IOEnv.OUT)
             /\ \A suf \in WideSufs : sz[2] # 45 =>
                   CSVWrite("%1$s", <<ToJson(Case(c, sz[1], sz[2], IF suf = <<76>> THEN 1 ELSE 0, suf, TRUE, 1))>>, IOEnv.OUT)
Spec == Init /\ [][Next]_vars

(* N / 10^NF is the midpoint:  N * 2^NF = (2M+1) * 10^NF  (e < 1),  N = (2M+1) * 2^(e-1)  otherwise *)
IsMidpoint == done => IF e < 1 THEN BD!Cmp(BD!MulPow2(N, NF), BD!MulPow10(T, NF)) = 0 ELSE BD!Cmp(N, BD!MulPow2(T, e - 1)) = 0
(* the spellings are on the side they are meant to be on, strictly within the neighbours *)
SidesOK == done =>
           /\ Side(Const("eq", 0)) = 0
           /\ \A z \in {25, 45} : Side(Const("up", z)) = 1 /\ Side(Const("dn", z)) = -1
(* Level I = Level A for every constant of the state *)
Refines == done => \A sz \in Sides : RoundI(Side(Const(sz[1], sz[2]))) = RoundA(Side(Const(sz[1], sz[2])))
=============================================================================
