------------------------------- MODULE LitFlt -------------------------------
(* C11, floating constants (6.4.4.2) on the exactly representable sub-domain.
   A decimal constant  d * 10^(x-k)  (d = the digits read as an integer, k = number
   of fraction digits, x = exponent) or a hexadecimal constant  d * 2^(p-4k)  is
   in the domain when 1024 * value is an integer below 2^30: then the value is
   exact in float, double and long double, no rounding is involved (rounding of
   inexact constants is C02's subject), and  (long)(constant * 1024)  observes it.
   Type: no suffix double, f/F float, l/L long double (sizeof 8 / 4 / 16).
   One state = one constant: significand x fraction digits x exponent x spelling
   form x suffix.  Level A only: convert_pp_number is strtold + a suffix test.   *)
EXTENDS Literals, Json, CSV, IOUtils

CONSTANTS Emit

Sigs  == {0, 1, 5, 15, 25, 75, 125, 1024, 3125, 65535}
FSuf  == << <<>>, <<102>>, <<70>>, <<108>>, <<76>> >>            \* "" f F l L
SizeOfSuf(i) == CASE i = 1 -> 8 [] i \in {2, 3} -> 4 [] OTHER -> 16

Pow(b, n) == IF n = 0 THEN 1 ELSE FoldLeft(LAMBDA a, j : a * b, 1, Range1(n))
DecDigits(d, minlen) ==        \* decimal digits of d, at least minlen of them
  LET r == FoldLeft(LAMBDA acc, j : IF acc[1] = 0 /\ Len(acc[2]) >= minlen THEN acc
                                    ELSE <<acc[1] \div 10, <<acc[1] % 10>> \o acc[2]>>, <<d, <<>>>>, Range1(10))
  IN r[2]
HexDigits(d, minlen) ==
  LET r == FoldLeft(LAMBDA acc, j : IF acc[1] = 0 /\ Len(acc[2]) >= minlen THEN acc
                                    ELSE <<acc[1] \div 16, <<acc[1] % 16>> \o acc[2]>>, <<d, <<>>>>, Range1(8))
  IN r[2]

VARIABLES hex, d, k, x, form, sf
vars == <<hex, d, k, x, form, sf>>

(* 1024 * value as <<numerator, denominator>> *)
Scaled == IF hex THEN (IF x - 4 * k + 10 >= 0 THEN <<d * Pow(2, x - 4 * k + 10), 1>> ELSE <<d, Pow(2, 4 * k - x - 10)>>)
          ELSE (IF x - k >= 0 THEN <<d * 1024 * Pow(10, x - k), 1>> ELSE <<d * 1024, Pow(10, k - x)>>)
Safe == hex \/ x - k < 0 \/ d * Pow(10, x - k) < 1048576             \* keeps the products below 2^31
InDomain == /\ Safe
            /\ Scaled[1] % Scaled[2] = 0
            /\ Scaled[1] \div Scaled[2] < 1073741824
            /\ (form = 1 => k > 0 /\ d < Pow(IF hex THEN 16 ELSE 10, k))      \* ".5": the integer part is absent
            /\ (hex /\ d = 0 => k = 0)
V == Scaled[1] \div Scaled[2]

ExpPart(force) ==
  IF hex THEN <<IF form = 2 THEN 80 ELSE 112>> \o (IF form = 2 /\ x >= 0 THEN <<43>> ELSE IF x < 0 THEN <<45>> ELSE <<>>)
               \o Map(DecDigits(IF x < 0 THEN -x ELSE x, 1), LAMBDA g : 48 + g)
  ELSE IF x = 0 /\ ~force /\ form # 2 THEN <<>>
  ELSE <<IF form = 2 THEN 69 ELSE 101>> \o (IF form = 2 /\ x >= 0 THEN <<43>> ELSE IF x < 0 THEN <<45>> ELSE <<>>)
       \o Map(DecDigits(IF x < 0 THEN -x ELSE x, 1), LAMBDA g : 48 + g)
Src ==
  LET ds   == IF hex THEN HexDigits(d, k + 1) ELSE DecDigits(d, k + 1)
      n    == Len(ds)
      ip   == Map(SubSeq(ds, 1, n - k), LAMBDA g : HexDigit(g, form = 2))
      fp   == Map(SubSeq(ds, n - k + 1, n), LAMBDA g : HexDigit(g, form = 2))
      pre  == IF hex THEN <<48, IF form = 2 THEN 88 ELSE 120>> ELSE <<>>
      body == IF form = 1 THEN <<46>> \o fp                         \* .frac
              ELSE IF k > 0 THEN ip \o <<46>> \o fp                   \* int.frac
              ELSE IF form = 0 /\ (~hex) /\ x = 0 THEN ip \o <<46>>  \* "5."
              ELSE ip                                                \* "5e1"  "0x5p0"
  IN pre \o body \o ExpPart(k = 0 /\ form # 0) \o FSuf[sf]

Init == /\ hex \in BOOLEAN /\ d \in Sigs /\ k \in 0..3 /\ x \in -3..3 /\ form \in 0..2 /\ sf \in DOMAIN FSuf
Next == /\ InDomain
        /\ Emit => CSVWrite("%1$s", <<ToJson([kind |-> "flt", hex |-> hex, src |-> Src, val |-> V, size |-> SizeOfSuf(sf),
                                             suffix |-> FSuf[sf]])>>, IOEnv.OUT)
        /\ UNCHANGED vars
Spec == Init /\ [][Next]_vars

Exact == InDomain => V * Scaled[2] = Scaled[1]
TypeOK == SizeOfSuf(sf) \in {4, 8, 16}
=============================================================================
