SPECIFICATION Spec
CONSTANTS MaxLen = 5
 Variant = "ok"
INVARIANTS Undone Refines
CHECK_DEADLOCK FALSE
