SPECIFICATION Spec
CONSTANTS MaxLen = 5
 Variant = "ok"
INVARIANTS Undone Refines PadIndependent
CHECK_DEADLOCK FALSE
