------------------------------- MODULE LitStr -------------------------------
(* C11, character constants and string literals (6.4.4.4, 6.4.5).  Every state
   is one literal: a sequence of pieces [p |-> prefix, items |-> body].

   families (constant Fams):
     "chr"  prefix x one item of CharAlphabet                      -> character constants
     "str"  prefix x bodies of <= 2 items (one of them a context item: what comes
            before / after an escape decides where the escape ends)    -> one-piece strings
     "seq"  prefix x a list of longer bodies (escaped backslash before u, comment openers, digits after an
            escape, all item kinds in one body)
     "cat"  <= 3 adjacent pieces of <= 1 item, every defined prefix mix   -> concatenation, widening

   Level A  CharValue / StrBytes (Literals.tla)
   Level I  ChibiCharVal = tok->val after read_char_literal + the narrowing in tokenize();
            ChibiStr = read_*_string_literal per piece, then the two passes of
            join_adjacent_string_literals (re-tokenise narrow pieces, memcpy without terminators)
   Variant # "ok" selects a wrong algorithm that TLC must reject:
     "U-sign-extends"  U'...' keeps the sign-extended int (the pinned tree, defect C11-U)
     "no-widen"        the first pass of join_adjacent_string_literals is skipped           *)
EXTENDS Literals, Json, CSV, IOUtils

CONSTANTS Fams, Variant, Emit, Small

H(n, d) == [i \in 1..n |-> d]
SimpleEscs == { Esc(39, 39), Esc(34, 34), Esc(63, 63), Esc(92, 92), Esc(97, 7), Esc(98, 8), Esc(102, 12),
                Esc(110, 10), Esc(114, 13), Esc(116, 9), Esc(118, 11), Esc(101, 27) }      \* \' \" \? \\ \a \b \f \n \r \t \v \e
Octs == { Oct(<<0>>), Oct(<<7>>), Oct(<<1, 0>>), Oct(<<7, 7>>), Oct(<<0, 0, 0>>), Oct(<<1, 0, 1>>), Oct(<<1, 7, 7>>),
          Oct(<<2, 0, 0>>), Oct(<<3, 7, 7>>), Oct(<<4, 0, 0>>), Oct(<<7, 7, 7>>) }
Hexes == { Hex(<<0>>), Hex(<<4, 1>>), Hex(<<7, 15>>), Hex(<<8, 0>>), Hex(<<15, 15>>), HexUp(<<10, 11>>), HexUp(<<15, 15>>),
           Hex(<<0, 0, 0, 4, 1>>), Hex(<<1, 0, 0>>), Hex(<<8, 0, 0, 0>>), Hex(<<15, 15, 15, 15>>), Hex(<<1, 0, 0, 0, 0>>),
           Hex(<<7>> \o H(7, 15)), Hex(<<8>> \o H(7, 0)), Hex(H(8, 15)), HexUp(<<0, 0>> \o H(8, 15)),
           Hex(<<1>> \o H(8, 0)) }                                   \* the last one is 2^32: out of range everywhere
RawChars == { Ch(97), Ch(65), Ch(48), Ch(32), Ch(126), Ch(36), Ch(64), Ch(96), Ch(39), Ch(34),
              Ch(233), Ch(8364), Ch(65535), Ch(65536), Ch(128512), Ch(1114111) }
Ucns == { Ucn(233, 4), UcnUp(233, 8), Ucn(8364, 4), Ucn(36, 4), Ucn(65535, 4), Ucn(65536, 8), Ucn(128512, 8),
          UcnUp(43981, 4), UcnUp(1114111, 8),
          Ucn(65, 4), Ucn(55296, 4), Ucn(57343, 4), Ucn(1114112, 8) }     \* not allowed by 6.4.3p2: never part of a defined literal
CharAlphabet == SimpleEscs \cup Octs \cup Hexes \cup RawChars \cup Ucns
Context == { Ch(97), Ch(49), Ch(102), Ch(56), Ch(233), Esc(110, 10), Oct(<<0>>), Hex(<<4, 1>>) }
CatAlphabet == IF Small THEN { Ch(49), Ch(233), Ch(128512), Hex(<<4>>) }
               ELSE { Ch(97), Ch(49), Ch(233), Ucn(8364, 4), Ch(128512), Hex(<<4>>), Oct(<<1>>), Hex(<<15, 15>>) }
PfxSet == {"", "u8", "u", "U", "L"}
(* family "seq": longer bodies chosen for what the passes before the lexer could get wrong: an escaped backslash
   in front of u / U (not a UCN), comment openers and a splice look-alike inside a literal, an escape directly
   followed by digits that do not belong to it, a mixture of every item kind                                  *)
Chs(cs) == Map(cs, LAMBDA c : Ch(c))
SeqBodies == { <<Esc(92, 92)>> \o Chs(<<117, 48, 48, 101, 57>>),                               \* \\u00e9
               <<Esc(92, 92)>> \o Chs(<<85, 48, 48, 48, 49, 70, 54, 48, 48>>),                  \* \\U0001F600
               <<Esc(92, 92), Esc(92, 92)>> \o Chs(<<117>>),                                    \* \\\\u
               Chs(<<47, 42, 97, 42, 47>>), Chs(<<47, 47, 97>>),                               \* /*a*/  //a
               Chs(<<97>>) \o <<Esc(92, 92)>>, <<Esc(92, 92), Esc(110, 10)>>,                   \* a\\  \\\n
               <<Oct(<<1, 0, 1>>)>> \o Chs(<<49, 50>>), <<Oct(<<0>>)>> \o Chs(<<56, 57>>),       \* \10112  \089
               <<Hex(<<4, 1>>)>> \o Chs(<<103, 49>>), <<HexUp(<<10, 11>>)>> \o Chs(<<120>>),     \* \x41g1  \xABx
               <<Ucn(233, 4)>> \o Chs(<<48, 48>>), <<Ucn(128512, 8)>> \o Chs(<<102, 102>>),      \* \u00e900  \U0001f600ff
               <<Ch(233), Ucn(8364, 4), Ch(128512), Hex(<<7, 15>>), Esc(110, 10), Oct(<<0>>), Ch(97), UcnUp(1114111, 8), Ch(65536)>>,
               Chs(<<117, 56>>), Chs(<<76, 39, 97, 39>>), Chs(<<37, 100, 37, 37>>) }            \* u8  L'a'  %d%%  as text

VARIABLES fam, pieces,
          lit              \* Level A of the literal `pieces`: [def, val] (chr) / [def, bytes] (str); computed once per state
vars == <<fam, pieces, lit>>
Undef == [def |-> FALSE]

LastPc == pieces[Len(pieces)]
IsChr == fam = "chr" /\ pieces # <<>>
IsStr == fam \in {"str", "cat", "seq"} /\ pieces # <<>>
ChrDef(ps) == CharDefined(ps[1].p, ps[1].items[1])
Kinds(ps) == Flat(Map(ps, LAMBDA pc : Map(pc.items, LAMBDA it : it.k)))

ChrCase(ps, l) ==
  LET p == ps[1].p  it == ps[1].items[1] IN
  [kind |-> "chr", pfx |-> p, kinds |-> <<it.k>>, src |-> CharSrc(p, it),
   val |-> ToDecU(64, l.val), size |-> CharType(p).size, neg |-> IF CharType(p).sg THEN 1 ELSE 0]
StrCase(ps, l) ==
  LET P == StrPfx(ps) IN
  [kind |-> "str", fam |-> fam, pfx |-> P, pps |-> Map(ps, LAMBDA pc : pc.p), kinds |-> Kinds(ps), src |-> StrSrc(ps),
   esize |-> ElemW(P) \div 8, neg |-> IF ElemSg(P) THEN 1 ELSE 0, size |-> Len(l.bytes), bytes |-> l.bytes]
Write(rec) == Emit => CSVWrite("%1$s", <<ToJson(rec)>>, IOEnv.OUT)
(* literals that violate a constraint (6.4.3p2, 6.4.4.4p9): written out as "a diagnostic is required" cases *)
Violation(p, it) ==
  IF it.k = "ucn" /\ ~UcnAllowed(it.c) THEN "ucn-not-allowed"
  ELSE IF it.k \in {"oct", "hex"} /\ Bad \in {ItemElems(p, it)[j] : j \in DOMAIN ItemElems(p, it)} THEN "escape-out-of-range"
  ELSE "none"
DiagCase(cls, p, it, src) == [kind |-> "diag", cls |-> cls, pfx |-> p, kinds |-> <<it.k>>, src |-> src]

SeqMake(p, body) ==
  /\ fam = "seq" /\ pieces = <<>>
  /\ pieces' = << [p |-> p, items |-> body] >>
  /\ UNCHANGED fam
  /\ lit' = IF StrDefined(pieces') THEN [def |-> TRUE, bytes |-> StrBytes(pieces')] ELSE Undef
  /\ lit'.def => Write(StrCase(pieces', lit'))

ChrMake(p, it) ==
  /\ fam = "chr" /\ pieces = <<>>
  /\ pieces' = << [p |-> p, items |-> <<it>>] >>
  /\ UNCHANGED fam
  /\ lit' = IF ChrDef(pieces') THEN [def |-> TRUE, val |-> CharValue(p, it)] ELSE Undef
  /\ lit'.def => Write(ChrCase(pieces', lit'))
  /\ Violation(p, it) # "none" => Write(DiagCase(Violation(p, it), p, it, CharSrc(p, it)))

MaxPieces == IF fam = "cat" THEN 3 ELSE 1
MaxItems  == IF fam = "cat" THEN 1 ELSE 2
StrStart(p) ==
  /\ fam \in {"str", "cat"} /\ Len(pieces) < MaxPieces
  /\ pieces' = Append(pieces, [p |-> p, items |-> <<>>])
  /\ StrPfx(pieces') # "mixed"
  /\ UNCHANGED fam
  /\ lit' = IF StrDefined(pieces') THEN [def |-> TRUE, bytes |-> StrBytes(pieces')] ELSE Undef
  /\ lit'.def => Write(StrCase(pieces', lit'))
StrAdd(it) ==
  /\ IsStr /\ Len(LastPc.items) < MaxItems
  /\ fam = "cat" => it \in CatAlphabet
  /\ fam = "str" => it \in CharAlphabet \cup Context
  /\ (fam = "str" /\ LastPc.items # <<>>) => (it \in Context \/ LastPc.items[1] \in Context)
  /\ pieces' = [pieces EXCEPT ![Len(pieces)].items = Append(@, it)]
  /\ UNCHANGED fam
  /\ lit' = IF StrDefined(pieces') THEN [def |-> TRUE, bytes |-> StrBytes(pieces')] ELSE Undef
  /\ lit'.def => Write(StrCase(pieces', lit'))
  /\ (fam = "str" /\ LastPc.items = <<>> /\ Violation(LastPc.p, it) # "none") =>
        Write(DiagCase(Violation(LastPc.p, it), LastPc.p, it, StrSrc(pieces')))

Init == fam \in Fams /\ pieces = <<>> /\ lit = Undef
Next == \/ \E p \in {"", "u", "U", "L"}, it \in CharAlphabet : ChrMake(p, it)
        \/ \E p \in PfxSet, body \in SeqBodies : SeqMake(p, body)
        \/ \E p \in PfxSet : StrStart(p)
        \/ \E it \in CharAlphabet \cup CatAlphabet \cup Context : StrAdd(it)
Spec == Init /\ [][Next]_vars

----------------------------------------------------------------------------
(* Level I, character constants *)
ChibiCharVal(p, it) ==
  LET c == IF it.k \in {"ch", "ucn"} THEN FromInt(it.c) ELSE Wrap(32, TRUE, EscValue(it))     \* `int c`
  IN CASE p = ""  -> Wrap(8, TRUE, c)                      \* cur->val = (char)cur->val
       [] p = "u" -> Wrap(16, FALSE, c)                    \* cur->val &= 0xffff
       [] p = "U" -> IF Variant = "U-sign-extends" THEN c ELSE Wrap(32, FALSE, c)
       [] OTHER   -> c
(* Level I, strings *)
Zeros(n) == [i \in 1..n |-> 0]
Overlay(buf, off, bs) == Map(Range1(Len(buf)), LAMBDA i : IF i > off /\ i <= off + Len(bs) THEN bs[i - off] ELSE buf[i])
ChibiStr(ps) ==
  LET P    == StrPfx(ps)                                   \* kind / basety of the first pass
      ep(pc) == IF Variant # "no-widen" /\ ElemW(P) > 8 /\ ElemW(pc.p) = 8 THEN P ELSE pc.p
      toks == Map(ps, LAMBDA pc : [bw |-> ElemW(ep(pc)) \div 8,
                                   n |-> Len(BodyElems(ep(pc), pc.items)),
                                   bytes |-> Flat(BodyElems(ep(pc), pc.items)) \o Zeros(ElemW(ep(pc)) \div 8)])
      len  == FoldLeft(LAMBDA a, t : a + t.n + 1, 0, toks) - (Len(toks) - 1)
      r    == FoldLeft(LAMBDA acc, t : <<acc[1] + Len(t.bytes) - t.bw, Overlay(acc[2], acc[1], t.bytes)>>,
                       <<0, Zeros(toks[1].bw * len)>>, toks)
  IN r[2]

ChrRefines == (IsChr /\ lit.def) => ChibiCharVal(pieces[1].p, pieces[1].items[1]) = lit.val
ChrInType  == (IsChr /\ lit.def) => Fits(CharType(pieces[1].p).size * 8, CharType(pieces[1].p).sg, lit.val)
StrRefines == (IsStr /\ lit.def) => ChibiStr(pieces) = lit.bytes
StrShape   == (IsStr /\ lit.def) => Len(lit.bytes) = (Len(StrElems(pieces)) + 1) * (ElemW(StrPfx(pieces)) \div 8)
(* concatenation is associative: prefixes combine associatively (also into "mixed"),
   and joining is joining of the element sequences under the common prefix          *)
Join(a, b) == [p |-> CombPfx(a.p, b.p), segs |-> a.segs \o b.segs]
AsLit(pc) == [p |-> pc.p, segs |-> <<pc.items>>]
EvalLit(l) == Flat(Map(l.segs, LAMBDA s : BodyElems(l.p, s)))
Assoc == (fam = "cat" /\ Len(pieces) = 3) =>
           LET a == AsLit(pieces[1])  b == AsLit(pieces[2])  c == AsLit(pieces[3]) IN
           /\ Join(Join(a, b), c) = Join(a, Join(b, c))
           /\ lit.def => Flat(EvalLit(Join(Join(a, b), c))) \o Zeros(ElemW(StrPfx(pieces)) \div 8) = lit.bytes
ASSUME PfxAssoc == \A a, b, c \in PfxSet \cup {"mixed"} :
              LET C(x, y) == IF x = "mixed" \/ y = "mixed" THEN "mixed" ELSE CombPfx(x, y)
              IN C(C(a, b), c) = C(a, C(b, c))
=============================================================================
