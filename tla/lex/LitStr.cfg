SPECIFICATION Spec
CONSTANTS Fams = {"chr","str","cat","seq"}
 Variant = "ok"
 Emit = FALSE
 Small = TRUE
INVARIANTS ChrRefines ChrInType StrRefines StrShape Assoc
CHECK_DEADLOCK FALSE
