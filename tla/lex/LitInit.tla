------------------------------- MODULE LitInit -------------------------------
(* C11, the string literal as an initializer (6.7.9p14-15, with p19-p21 as far as they
   decide what the literal's characters and its terminating null character land on).

   The other machines observe a literal through a FRESH array (`T s[] = "..."`,
   `T s[n] = "..."`): one initializer, zero-filled object.  Here the literal is one item
   of an initializer LIST, which has state: the subobject it designates may already
   hold what earlier items gave it, and the subobject it reaches may be found only
   by descending through enclosing aggregates (brace elision).

   family "ovr"  - one character array subobject of n elements (an element of T[2][n],
     the member `name` of a struct, an element of an array of such structs filled by a
     range designator) receives a SEQUENCE of <= 3 initializers, each of
        S(k, br)  a string literal of k characters, bare or enclosed in braces (p14),
        B(m)      a brace-enclosed list of m character constants,
        E(i)      a designated single element `[i] = 'c'`.
     Level A (StepA): p14 - successive characters of the literal, INCLUDING the
       terminating null character if there is room, initialise the elements; p19 - a
       later initializer for the same subobject overrides the earlier one, what it does
       not mention is zero (p21).  `expl` marks the elements the surviving initializers
       provide themselves (characters, terminator, listed constants); `old` collects, per
       element, the values that an override discarded.
     Level I (StepI): parse.c string_initializer - len = MIN(array_len, k + 1) element
       expressions are replaced; array_initializer1 replaces the m listed ones; nothing
       clears the rest of the Initializer subtree (open finding D35, property C05: a
       discarded value survives in an element that the later initializer does not provide).
     Invariants: Explicit - on every element that Level A provides explicitly Level I
       agrees (this includes the terminator); TailKnown - wherever Level I deviates, the
       element is outside `expl`, Level A says zero and Level I holds a discarded value
       (exactly D35, nothing else); Terminated - after a string of k < n characters with
       nothing designated afterwards the array is a string of length k.
     Variant "no-terminator": string_initializer stores only the k characters "because
       the object is zero-filled anyway" - true for a fresh object, false after an
       override.  TLC must reject it (Explicit, Terminated).

   family "elide" - WHICH subobject a string literal initialises.  The object is
     struct { int m1; SHAPE m2; int m3; } with a fully brace-elided (flat) list; SHAPE is
     one of Shapes: a character array, a pointer, arrays and structs of them.  The list
     is generated leaf by leaf (type directed): S(k) for a character array or a pointer,
     a number for an int.
     Level A (Leaves): p20 - without braces, initializers are taken in subobject order;
       p14 - only an array of character type is initialised by the literal as such;
       anywhere else the literal is an expression (array-to-pointer conversion): the
       pointer leaf points to the literal's anonymous object.
     Level I (I2 = initializer2 / array_initializer2 / struct_initializer2): a string token
       meeting an array whose elements are integers of the literal's width goes to
       string_initializer; every other aggregate is entered (brace elision).
     Invariant ElideRefines: Level I accepts every list and routes every item to the
       leaf Level A names, for every prefix of the list.
     Variant "str-any-array" (the tree before proposed/C11/fix-3-string-literal-elided-array): initializer2 hands
       a string token to string_initializer for ANY array type, which rejects
       (`struct { char *p[2]; } x = { "ab", "cd" }`; unreachable() before aa87a78).  TLC
       must reject it.

   Every state with a string item is written out (Emit) as a replay vector; DiagCases
   writes the constraint violations that concern the literal (element width, too long).

   Replay dimensions that are not state here (harness/c11_init.py): the container of
   the subobject (element of T[2][n] next to a sentinel / struct member / range-filled
   array of structs) and the storage class (static and automatic, always both).       *)
EXTENDS Integers, Sequences, FiniteSets, TLC, Json, CSV, IOUtils, SequencesExt

CONSTANTS Fams,      \* subset of {"ovr", "elide"}
          Variant,   \* "ok" | "no-terminator" | "str-any-array"
          MaxN,      \* family ovr: arrays of 1..MaxN elements
          Emit

PfxSet == {"", "u8", "u", "U", "L"}
Min2(a, b) == IF a < b THEN a ELSE b
(* the i-th character of the j-th initializer: a b c d / f g h i / k l m n; the first one of
   a wide literal needs the whole element (U+03B1.. for char16_t, U+1F601.. for char32_t, wchar_t) *)
Unit(pfx, j, i) == IF i = 1 /\ pfx = "u" THEN 944 + j
                   ELSE IF i = 1 /\ pfx \in {"U", "L"} THEN 128512 + j
                   ELSE 96 + 5 * (j - 1) + i
Tok(a, k, br) == [a |-> a, k |-> k, br |-> br]

VARIABLES fam, pfx, n,
          shape,     \* family elide: index into Shapes (0 otherwise)
          steps,     \* the initializers written so far
          A,         \* Level A: ovr [obj, expl, old, first]; elide: the leaves initialised so far
          I          \* Level I: ovr the element values; elide: recomputed from steps (unused)
vars == <<fam, pfx, n, shape, steps, A, I>>

----------------------------------------------------------------------------
(* family ovr *)
MaxSteps(m) == IF m >= 4 THEN 2 ELSE 3          \* bound: three initializers for n <= 3, two for n = 4
Cov(s, term) == IF s.a = "S" THEN Min2(n, IF term THEN s.k + 1 ELSE s.k) ELSE IF s.a = "B" THEN s.k ELSE 0
Elem(s, j, i) == IF s.a = "S" /\ i = s.k + 1 THEN 0 ELSE Unit(pfx, j, i)

StepA(a, s, j) ==
  IF s.a = "E"
  THEN [a EXCEPT !.obj[s.k] = Unit(pfx, j, 1), !.expl[s.k] = TRUE]
  ELSE LET cov == Cov(s, TRUE)
           obj == [i \in 1..n |-> IF i <= cov THEN Elem(s, j, i) ELSE 0]
       IN [obj   |-> obj,
           expl  |-> [i \in 1..n |-> i <= cov],
           old   |-> [i \in 1..n |-> IF a.expl[i] /\ i > cov THEN a.old[i] \cup {a.obj[i]} ELSE a.old[i]],
           first |-> a.first]

StepI(o, s, j) ==
  IF s.a = "E" THEN [o EXCEPT ![s.k] = Unit(pfx, j, 1)]
  ELSE LET len == Cov(s, Variant # "no-terminator")          \* MIN(init->ty->array_len, tok->ty->array_len)
       IN [i \in 1..n |-> IF i <= len THEN Elem(s, j, i) ELSE o[i]]

HasStr(ss) == \E x \in DOMAIN ss : ss[x].a = "S"
OvrCase == [kind |-> "strinit", fam |-> "ovr", pfx |-> pfx, n |-> n, steps |-> steps',
            units |-> [j \in 1..Len(steps') |-> [i \in 1..n |-> Unit(pfx, j, i)]],
            obj |-> A'.obj, expl |-> A'.expl, old |-> [i \in 1..n |-> SetToSeq(A'.old[i])], first |-> A'.first]
OvrStep(s) ==
  LET j == Len(steps) + 1 IN
  /\ fam = "ovr" /\ j <= MaxSteps(n) /\ (j = 3 => s.a = "S")       \* a third initializer only if it is the subject, a literal
  /\ steps' = Append(steps, s)
  /\ A' = (LET a2 == StepA(A, s, j) IN IF j = 1 THEN [a2 EXCEPT !.first = a2.obj] ELSE a2)   \* first: after one initializer
  /\ I' = StepI(I, s, j)
  /\ UNCHANGED <<fam, pfx, n, shape>>
  /\ (Emit /\ HasStr(steps')) => CSVWrite("%1$s", <<ToJson(OvrCase)>>, IOEnv.OUT)

----------------------------------------------------------------------------
(* family elide *)
Chr       == [k |-> "chars"]                    \* T[n], T the element type of the literal's prefix
Ptr       == [k |-> "ptr"]                      \* T *
Num       == [k |-> "int"]
Arr(c, e) == [k |-> "arr", c |-> c, e |-> e]
St(ms)    == [k |-> "st", ms |-> ms]
Shapes == << Chr, Ptr,
             Arr(2, Ptr), Arr(2, Chr),
             St(<<Chr, Num>>), St(<<Ptr, Chr>>),
             Arr(2, St(<<Chr, Num>>)), Arr(2, St(<<Ptr, Num>>)),
             St(<<Arr(2, Ptr), Num>>), St(<<Arr(2, Chr), Ptr>>), St(<<Num, Arr(2, Ptr)>>),
             Arr(2, Arr(2, Chr)), Arr(2, Arr(2, Ptr)) >>
Outer(sh) == St(<<Num, Shapes[sh], Num>>)
ElideN == 3

(* p20: the subobjects in order; the accessor is C text *)
RECURSIVE Leaves(_, _)
Leaves(t, p) ==
  IF t.k = "arr" THEN FlattenSeq([i \in 1..t.c |-> Leaves(t.e, p \o "[" \o ToString(i - 1) \o "]")])
  ELSE IF t.k = "st" THEN FlattenSeq([i \in 1..Len(t.ms) |-> Leaves(t.ms[i], p \o ".m" \o ToString(i))])
  ELSE <<[p |-> p, t |-> t.k]>>
LeavesOf == [sh \in 1..Len(Shapes) |-> Leaves(Outer(sh), "")]        \* constant: evaluated once
AllLeaves == LeavesOf[shape]
LevelA(m) == [i \in 1..m |-> [p |-> AllLeaves[i].p, t |-> AllLeaves[i].t, tok |-> i]]

(* initializer2(init of type t, accessor p) reading the tokens ts from position pos: the sequence of
   [accessor, kind, token] it initialises, one per token consumed; t = "rejected" is error_tok *)
RECURSIVE I2(_, _, _, _)
Loop(kids, ts, pos) ==      \* array_initializer2 / struct_initializer2 / struct_initializer1: until the list ends
  FoldLeft(LAMBDA acc, kid : IF acc # <<>> /\ acc[Len(acc)].t = "rejected" THEN acc
                             ELSE acc \o I2(kid.t, kid.p, ts, pos + Len(acc)),
           <<>>, kids)
I2(t, p, ts, pos) ==
  IF pos > Len(ts) THEN <<>>                                       \* is_end: the rest is zero
  ELSE IF t.k \in {"arr", "chars"} /\ ts[pos].a = "S" /\ (t.k = "chars" \/ Variant = "str-any-array")
  THEN (IF t.k = "chars"                                           \* string_initializer
        THEN <<[p |-> p, t |-> "chars", tok |-> pos]>>
        ELSE <<[p |-> p, t |-> "rejected", tok |-> pos]>>)         \* "array of inappropriate type initialized from a string literal"
  ELSE IF t.k = "arr" THEN Loop([i \in 1..t.c |-> [t |-> t.e, p |-> p \o "[" \o ToString(i - 1) \o "]"]], ts, pos)
  ELSE IF t.k = "st" THEN Loop([i \in 1..Len(t.ms) |-> [t |-> t.ms[i], p |-> p \o ".m" \o ToString(i)]], ts, pos)
  ELSE IF t.k = "chars" THEN <<[p |-> p, t |-> "rejected", tok |-> pos]>>        \* a number for a character array: not generated
  ELSE <<[p |-> p, t |-> t.k, tok |-> pos]>>                       \* init->expr = assign()
LevelI(ts) == I2(Outer(shape), "", ts, 1)

ElideCase == [kind |-> "strinit", fam |-> "elide", pfx |-> pfx, n |-> n, shape |-> Shapes[shape], steps |-> steps', leaves |-> A',
              units |-> [j \in 1..Len(steps') |-> [i \in 1..n |-> Unit(pfx, ((j - 1) % 3) + 1, i)]]]
(* constraints: p14-15 - a literal whose elements have another width than the array's is not an initializer for it
   (T x[] = other-width literal); p2 - a literal with more characters than the array has elements provides values
   for objects outside it (T x[m] = literal of m + 1 characters).  Both need a diagnostic. *)
Width(p) == IF p \in {"", "u8"} THEN 1 ELSE IF p = "u" THEN 2 ELSE 4
DiagCases ==
  /\ \A lp \in {x \in PfxSet : Width(x) # Width(pfx)} :
        CSVWrite("%1$s", <<ToJson([kind |-> "strdiag", cls |-> "string-init-element-width", apfx |-> pfx, lpfx |-> lp, n |-> 0, k |-> 2])>>, IOEnv.OUT)
  /\ \A m \in 1..2 :
        CSVWrite("%1$s", <<ToJson([kind |-> "strdiag", cls |-> "string-init-too-long", apfx |-> pfx, lpfx |-> pfx, n |-> m, k |-> m + 1])>>, IOEnv.OUT)

ElideStep(s) ==
  LET j == Len(steps) + 1 IN
  /\ fam = "elide" /\ j <= Len(AllLeaves)
  /\ LET lf == AllLeaves[j] IN
       \/ lf.t = "chars" /\ s.a = "S" /\ s.k \in {0, n - 1, n} /\ ~s.br
       \/ lf.t = "ptr" /\ s.a = "S" /\ s.k \in {0, 2} /\ ~s.br
       \/ lf.t = "int" /\ s.a = "V" /\ s.k = j /\ ~s.br
  /\ steps' = Append(steps, s)
  /\ A' = LevelA(j)
  /\ UNCHANGED <<fam, pfx, n, shape, I>>
  /\ (Emit /\ j = Len(AllLeaves)) => CSVWrite("%1$s", <<ToJson(ElideCase)>>, IOEnv.OUT)

----------------------------------------------------------------------------
Init == /\ fam \in Fams /\ pfx \in PfxSet /\ steps = <<>>
        /\ \/ /\ fam = "ovr" /\ n \in 1..MaxN /\ shape = 0
              /\ A = [obj |-> [i \in 1..n |-> 0], expl |-> [i \in 1..n |-> FALSE], old |-> [i \in 1..n |-> {}],
                      first |-> [i \in 1..n |-> 0]]
              /\ I = [i \in 1..n |-> 0]
           \/ /\ fam = "elide" /\ n = ElideN /\ shape \in 1..Len(Shapes)
              /\ A = <<>> /\ I = <<>>
              /\ (Emit /\ shape = 1) => DiagCases
Next == \/ \E k \in 0..MaxN, br \in BOOLEAN : k <= n /\ OvrStep(Tok("S", k, br))
        \/ \E m \in 1..MaxN : m <= n /\ OvrStep(Tok("B", m, FALSE))
        \/ \E i \in 1..MaxN : i <= n /\ OvrStep(Tok("E", i, FALSE))
        \/ \E k \in 0..ElideN : ElideStep(Tok("S", k, FALSE))
        \/ \E v \in 1..12 : ElideStep(Tok("V", v, FALSE))
Spec == Init /\ [][Next]_vars

----------------------------------------------------------------------------
IsOvr == fam = "ovr"
(* p14: what the surviving initializers provide - characters, terminator, listed constants - is in the object *)
Explicit == IsOvr => \A i \in 1..n : A.expl[i] => I[i] = A.obj[i]
(* the only deviation of the tree: an element outside the later initializer keeps a discarded value (D35) *)
TailKnown == IsOvr => \A i \in 1..n : I[i] # A.obj[i] => (~A.expl[i] /\ A.obj[i] = 0 /\ I[i] \in A.old[i])
(* after a string of k < n characters (and no element designated since) the array holds a string of length k *)
Terminated == (IsOvr /\ steps # <<>>) =>
  LET s == steps[Len(steps)] IN (s.a = "S" /\ s.k < n) => (I[s.k + 1] = 0 /\ \A i \in 1..s.k : I[i] # 0)
(* Level A itself: unmentioned elements are zero, characters are not *)
ASane == IsOvr => \A i \in 1..n : ~A.expl[i] => A.obj[i] = 0

ElideRefines == fam = "elide" =>
  LevelI(steps) = LevelA(Len(steps))
=============================================================================
