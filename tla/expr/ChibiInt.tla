------------------------------ MODULE ChibiInt ------------------------------
(* C01 / C07, Level I: what chibicc does with an integer expression.

   Part 1 (C01) is the typing rule and the code generator:
     Common        = type.c get_common_type (size and is_unsigned only)
     where casts are inserted = type.c add_type / usual_arith_conv, parse.c unary,
                     to_assign, new_inc_dec, funcall, return
     register model = codegen.c's invariant "a value of size < 8 lives in the low half of
                     %rax, extended to 32 bits; the upper half is garbage": Reg(t, v, g)
     Load / Store  = codegen.c load / store
     ICast         = codegen.c cast + the integer part of cast_table + getTypeId
     BinReg        = codegen.c gen_expr: 32/64-bit instruction selection on lhs->ty,
                     cdq/cqo, div/idiv, setb/setl, shr/sar, shift count in %cl
     CmpZero       = codegen.c cmp_zero
   Part 2 (C07) is parse.c eval2 / is_const_expr: ConstEval.

   Registers are naturals 0 .. 2^WL-1 (bit patterns).  Widths are the scaled
   ones of CIntN (WI = int, WL = long = register = host int64_t).

   The FIX_* constants select the pinned tree (FALSE) or the tree with the
   proposed fix applied (TRUE); MUT selects a deliberately wrong variant
   (sensitivity control: TLC must reject it).                               *)
EXTENDS CIntN, TLC

CONSTANTS FIX_D01,    \* promotion for ~ << >> and unary +
          FIX_D02,    \* _Bool x++ / x-- yield the old value
          FIX_D04,    \* getTypeId(TY_ENUM) = I32
          FIX_D10,    \* eval2: ND_CAST arm typed by signedness, _Bool cast, results re-wrapped, ND_MOD constant
          MUT         \* "none" | "setl" | "movz" | "cdq" | "castrow" | "ptrsx" (pointer offset always sign-extended)
                      \* | "atomicval" | "enumearly" | "asgskip" | "lenot" (enumerator in scope before its own value is evaluated)
                      \* | "castnoround" (eval_double rounds only in the four operators and in narrowing floating casts)
                      \* | "nonint" (is_const_expr: a node of non-integer type is not constant)
                      \* | "commaconst" (is_const_expr: `a, b` is constant if b is)  | "condtrunc" (is_const_expr selects the arm of ?: by eval(), truncating a floating condition)
                      \* | "bfnoconv" (static bit-field initializer not converted to the member's type)  | "bfmask" (mask (1L << width) - 1 with the host's shift count modulo the word size)

WI == WInt
WL == WLong
CLBits == 3           \* %cl holds the shift count (8 bits really; 3 bits cover 0..WL-1 at scale)
U(x, w) == NMod(x, w)
S(p, w) == IF p >= 2 ^ (w - 1) THEN p - 2 ^ w ELSE p
SExt(p, from, to) == U(S(U(p, from), from), to)
ZExt(p, from) == U(p, from)
Is64(t) == t \in {"long", "ulong"}

(* ---- register model ---------------------------------------------------- *)
GBits == WL - WI
(* _Bool registers are always exact (setne/movzx, movzx after calls, movsbl loads) *)
Garb(t) == IF Is64(t) \/ t = "bool" THEN {0} ELSE 0..(2 ^ GBits - 1)
Reg(t, v, g) == IF Is64(t) THEN U(v, WL) ELSE IF t = "bool" THEN v ELSE U(v, WI) + g * 2 ^ WI
RegOK(t, r, v) == \E g \in Garb(t) : r = Reg(t, v, g)

(* codegen.c load: movsbl/movzbl, movswl/movzwl (-> %eax, upper half zero), movsxd, mov *)
Load(t, m) ==
  LET sg == IF MUT = "movz" /\ t = "short" THEN FALSE ELSE Sg(t) IN      \* ty_bool is "signed": movsbl
  CASE StoreW(t) = WChar  -> IF sg \/ t = "bool" THEN SExt(m, WChar, WI) ELSE m
    [] StoreW(t) = WShort -> IF sg THEN SExt(m, WShort, WI) ELSE m
    [] StoreW(t) = WInt   -> SExt(m, WI, WL)                              \* movsxd for int and unsigned
    [] OTHER -> m
(* codegen.c store: mov %al / %ax / %eax / %rax *)
Store(t, r) == U(r, StoreW(t))

(* codegen.c cmp_zero: cmp $0,%eax for integer types of size <= 4, else %rax; TRUE = non-zero *)
CmpZero(t, r) == (IF Is64(t) THEN r ELSE U(r, WI)) # 0

(* codegen.c getTypeId *)
Tid(t) == CASE t = "char" -> "i8" [] t = "short" -> "i16" [] t = "int" -> "i32" [] t = "long" -> "i64"
            [] t = "uchar" -> "u8" [] t = "ushort" -> "u16" [] t = "uint" -> "u32" [] t = "ulong" -> "u64"
            [] t = "enum" -> IF FIX_D04 THEN "i32" ELSE "u64"
            [] OTHER -> "u64"                                             \* TY_BOOL: default
i32i8(r)  == SExt(r, WChar, WI)      \* movsbl %al, %eax
i32u8(r)  == ZExt(r, WChar)          \* movzbl %al, %eax
i32i16(r) == SExt(r, WShort, WI)     \* movswl %ax, %eax
i32u16(r) == ZExt(r, WShort)         \* movzwl %ax, %eax
i32i64(r) == SExt(r, WI, WL)         \* movsxd %eax, %rax
u32i64(r) == ZExt(r, WI)             \* mov %eax, %eax
(* codegen.c cast: _Bool first, then cast_table[getTypeId(from)][getTypeId(to)] *)
ICast(from, to, r) ==
  IF to = "bool" THEN (IF CmpZero(from, r) THEN 1 ELSE 0)                 \* setne %al; movzx %al, %eax
  ELSE LET f == Tid(from)  t == Tid(to) IN
  CASE t = "i8"  /\ f # "i8"                      -> i32i8(r)
    [] t = "i16" /\ f \notin {"i8", "i16", "u8"}  -> IF MUT = "castrow" /\ f = "u16" THEN r ELSE i32i16(r)
    [] t = "u8"  /\ f # "u8"                      -> i32u8(r)
    [] t = "u16" /\ f \notin {"u8", "u16"}        -> i32u16(r)
    [] t \in {"i64", "u64"} /\ f \in {"i8", "i16", "i32", "u8", "u16"} -> i32i64(r)
    [] t \in {"i64", "u64"} /\ f = "u32"          -> u32i64(r)
    [] OTHER -> r

(* type.c get_common_type, integer part *)
Common(a, b) ==
  LET a1 == IF StoreW(a) < WI THEN "int" ELSE a
      b1 == IF StoreW(b) < WI THEN "int" ELSE b
  IN IF StoreW(a1) # StoreW(b1) THEN (IF StoreW(a1) < StoreW(b1) THEN b1 ELSE a1)
     ELSE IF ~Sg(b1) THEN b1 ELSE a1
PromoI(a) == Common("int", a)

(* codegen.c gen_expr, the integer binary operators.  lt = node->lhs->ty (after add_type's
   casts), rl / rr = %rax / %rdi.  The 32-bit forms zero the upper half of %rax. *)
BinReg(op, lt, rl, rr) ==
  LET w  == IF Is64(lt) THEN WL ELSE WI             \* lhs->ty->kind == TY_LONG ? %rax : %eax
      ax == U(rl, w)
      di == U(rr, w)
      sg == Sg(lt)
      c  == U(rr, CLBits) % w                       \* mov %rdi,%rcx ; shift by %cl (hardware masks the count)
  IN
  CASE op = "add" -> U(ax + di, w) [] op = "sub" -> U(ax - di, w) [] op = "mul" -> U(ax * di, w)
    [] op = "band" -> ax & di [] op = "bor" -> ax | di [] op = "bxor" -> ax ^^ di
    [] op \in {"div", "mod"} ->
         IF di = 0 THEN 0                            \* #DE: outside the defined domain
         ELSE IF ~sg THEN (IF op = "div" THEN ax \div di ELSE ax % di)      \* mov $0,%edx ; div
         ELSE LET dw == IF MUT = "cdq" THEN WI ELSE w                       \* cdq / cqo by lhs->ty->size
                  sa == S(U(ax, dw), dw)  sd == S(di, w)
              IN IF op = "div" THEN U(NDivT(sa, sd), w) ELSE U(NModT(sa, sd), w)   \* idiv ; mov %rdx,%rax
    [] op = "shl" -> U(ax * 2 ^ c, w)
    [] op = "shr" -> IF ~sg THEN ax \div 2 ^ c ELSE U(S(ax, w) \div 2 ^ c, w)      \* shr / sar
    [] op = "eq" -> IF ax = di THEN 1 ELSE 0
    [] op = "ne" -> IF ax # di THEN 1 ELSE 0
    [] op = "lt" -> IF (IF sg \/ MUT = "setl" THEN S(ax, w) < S(di, w) ELSE ax < di) THEN 1 ELSE 0   \* setl / setb
    [] OTHER     -> IF (IF sg THEN S(ax, w) <= S(di, w) ELSE ax <= di) THEN 1 ELSE 0                 \* setle / setbe

IR(t, r) == [t |-> t, r |-> r]
Bool01(b) == IF b THEN 1 ELSE 0

(* a binary expression over operands already in registers (type a in ra, type b in rb) *)
IBin(op, a, ra, b, rb) ==
  CASE op \in ArithOps ->                                     \* usual_arith_conv; node->ty = lhs->ty
         LET ct == Common(a, b) IN IR(ct, BinReg(op, ct, ICast(a, ct, ra), ICast(b, ct, rb)))
    [] op \in {"lt", "le", "eq", "ne"} ->
         LET ct == Common(a, b) IN IR("int", BinReg(op, ct, ICast(a, ct, ra), ICast(b, ct, rb)))
    [] op \in {"gt", "ge"} ->                                 \* parse.c relational: a > b is ND_LT(b, a)
         LET ct == Common(b, a) IN IR("int", BinReg(IF op = "gt" THEN "lt" ELSE "le", ct, ICast(b, ct, rb), ICast(a, ct, ra)))
    [] op \in ShiftOps ->                                     \* pinned: node->ty = lhs->ty, no cast (D01)
         IF FIX_D01 THEN LET pt == PromoI(a) IN IR(pt, BinReg(op, pt, ICast(a, pt, ra), rb))
         ELSE IR(a, BinReg(op, a, ra, rb))
    [] op = "land" -> IR("int", Bool01(CmpZero(a, ra) /\ CmpZero(b, rb)))
    [] OTHER       -> IR("int", Bool01(CmpZero(a, ra) \/ CmpZero(b, rb)))

IUn(op, a, ra) ==
  CASE op = "neg"  -> LET pt == PromoI(a) IN IR(pt, U(-ICast(a, pt, ra), WL))          \* neg %rax
    [] op = "bnot" -> IF FIX_D01 THEN LET pt == PromoI(a) IN IR(pt, U(-ICast(a, pt, ra) - 1, WL))
                      ELSE IR(a, U(-ra - 1, WL))                                       \* not %rax
    [] op = "pos"  -> IF FIX_D01 THEN LET pt == PromoI(a) IN IR(pt, ICast(a, pt, ra))
                      ELSE IR(a, ra)                                                   \* parse.c unary: returns the operand
    [] OTHER       -> IR("int", Bool01(~CmpZero(a, ra)))                               \* sete ; movzx

ICastE(t, a, ra) == IR(t, ICast(a, t, ra))
ICond(tc, rc, a, ra, b, rb) ==
  LET ct == Common(a, b) IN IR(ct, IF CmpZero(tc, rc) THEN ICast(a, ct, ra) ELSE ICast(b, ct, rb))

(* what a program sees of a value: printf("%lu", (unsigned long)(expr)) *)
Obs(x) == ICast(x.t, "ulong", x.r)

(* contexts.  initializer / argument / return / assignment: new_cast to the destination type;
   the object (or the callee's parameter slot) then holds the stored low bytes.  The VALUE of an
   assignment expression is the register after that cast (codegen.c ND_ASSIGN leaves %rax alone after
   store), for every kind of object.  MUT = "asgskip": a narrowing cast is dropped because the store
   truncates anyway - the object is right, the value is not. *)
IAsIf(td, x) == IF MUT = "asgskip" /\ td # "bool" /\ StoreW(td) < StoreW(x.t) THEN IR(td, x.r)
                ELSE IR(td, ICast(x.t, td, x.r))
ObjAfter(td, x) == Store(td, IAsIf(td, x).r)
(* `A op= B` -> `tmp = &A, *tmp = *tmp op B` (parse.c to_assign); ml = the object's bits *)
IOpAssign(op, tl, ml, x) == IAsIf(tl, IBin(op, tl, Load(tl, ml), x.t, x.r))
(* _Atomic A (parse.c to_assign, atomic arm):
     T1 *addr = &A; T2 val = (B); T1 old = *addr; T1 new;
     do { new = old op val; } while (!atomic_compare_exchange_strong(addr, &old, new)); new
   T2 is the type of B (the operation is done in the common type of A and B, as for a plain object);
   every temporary is an object: stored and loaded again.  Single-threaded: the CAS succeeds at once
   and stores `new`.  MUT = "atomicval" gives val the type of A (the right operand is narrowed first). *)
IOpAssignA(op, tl, ml, x) ==
  LET vt   == IF MUT = "atomicval" THEN tl ELSE x.t
      valr == Load(vt, Store(vt, ICast(x.t, vt, x.r)))
      oldr == Load(tl, Store(tl, Load(tl, ml)))
      newm == Store(tl, IAsIf(tl, IBin(op, tl, oldr, vt, valr)).r)
  IN IR(tl, Load(tl, Store(tl, Load(tl, newm))))        \* the CAS stores `new`; the value is `new` loaded
IOpAssignG(atomic, op, tl, ml, x) == IF atomic THEN IOpAssignA(op, tl, ml, x) ELSE IOpAssign(op, tl, ml, x)
(* ++A -> A += 1 ; --A -> A -= 1 ; A++ -> (typeof A)((A += 1) - 1) ; A-- -> (typeof A)((A += -1) - -1) *)
IIncDecG(atomic, kind, tl, ml) ==
  LET one  == IR("int", Reg("int", 1, 0))
      mone == IR("int", Reg("int", -1, 0))
      new  == CASE kind = "preinc" -> IOpAssignG(atomic, "add", tl, ml, one)
                [] kind = "predec" -> IOpAssignG(atomic, "sub", tl, ml, one)
                [] kind = "postinc" -> IOpAssignG(atomic, "add", tl, ml, one)
                [] OTHER -> IOpAssignG(atomic, "add", tl, ml, mone)
      back == IF kind = "postinc" THEN mone ELSE one
      val  == IF kind \in {"preinc", "predec"} THEN new
              ELSE IF FIX_D02 /\ tl = "bool" THEN IR(tl, Load(tl, ml))     \* fix: keep the old value in a temporary
              ELSE IAsIf(tl, IBin("add", new.t, new.r, "int", back.r))
  IN [t |-> val.t, r |-> val.r, obj |-> Store(tl, new.r)]
IIncDec(kind, tl, ml) == IIncDecG(FALSE, kind, tl, ml)

(* switch: codegen.c ND_SWITCH compares %rax (8-byte controlling type) or %eax with the label narrowed to
   the same width; lbl is the int64_t eval2 produced for the label.  C11 6.8.4.2p5 *)
ICaseSelects(tc, rx, lbl) == LET w == IF Is64(tc) THEN WL ELSE WI IN U(rx, w) = U(lbl, w)

(* pointers (parse.c new_add / new_sub; addresses are WL-bit registers, rp = base + k * s):
   p + i  ->  ND_ADD(p, ND_MUL(i, new_long(s)))   the ND_MUL gets usual_arith_conv against the long
              literal (so i is sign- or zero-extended by the cast table), the ND_ADD is 64-bit because
              lhs->ty->base; i + p is canonicalised to p + i
   p - i  ->  ND_SUB(p, ND_MUL(i, new_long(s))) with node->ty preset (no conversion of the operands)
   p - q  ->  ND_DIV(ND_SUB(p, q) : long, new_num(s))   signed 64-bit division
   p < q  ->  usual_arith_conv leaves pointer types; 64-bit cmp; setb/setbe (pointer_to: is_unsigned) *)
IPtrArith(op, rp, a, ra, s) ==
  LET ct  == Common(a, "long")
      off == BinReg("mul", ct, IF MUT = "ptrsx" THEN i32i64(ra) ELSE ICast(a, ct, ra), U(s, WL))
  IN IF op = "psub" THEN U(rp - off, WL) ELSE U(rp + off, WL)
IPtrRel(op, rp, rq, s) ==
  CASE op = "pdiff" -> IR("long", BinReg("div", "long", U(rp - rq, WL), U(s, WL)))
    [] op = "plt" -> IR("int", BinReg("lt", "ulong", rp, rq))
    [] op = "ple" -> IR("int", BinReg("le", "ulong", rp, rq))
    [] op = "pgt" -> IR("int", BinReg("lt", "ulong", rq, rp))
    [] op = "pge" -> IR("int", BinReg("le", "ulong", rq, rp))
    [] op = "peq" -> IR("int", BinReg("eq", "ulong", rp, rq))
    [] OTHER      -> IR("int", BinReg("ne", "ulong", rp, rq))

(* ======================================================================== *)
(* Part 2: parse.c eval2 — constant folding in host int64_t arithmetic.     *)
H(x) == S(U(x, WL), WL)                       \* host arithmetic wraps to int64_t
(* the ND_CAST arm: explicit truncations by size *)
CastC(t, v) ==
  IF t = "bool" /\ FIX_D10 THEN Bool01(v # 0)
  ELSE CASE StoreW(t) = WChar  -> IF ~Sg(t) /\ t # "bool" THEN U(v, WChar) ELSE S(U(v, WChar), WChar)
         [] StoreW(t) = WShort -> IF Sg(t) THEN S(U(v, WShort), WShort) ELSE U(v, WShort)
         [] StoreW(t) = WInt   -> IF FIX_D10 /\ Sg(t) THEN S(U(v, WI), WI)
                                  ELSE U(v, WI)      \* pinned: `u ? (uint32_t)val : (int32_t)val` has type uint32_t
         [] OTHER -> v
(* pinned: results of the arithmetic arms are not wrapped to node->ty *)
Rew(t, v) == IF FIX_D10 THEN CastC(t, v) ELSE v
CR(t, v) == [t |-> t, v |-> v]
Pow2S(k) == IF k \in 0..(WL - 1) THEN 2 ^ k ELSE 1       \* host UB otherwise; not reached on defined input

CEBin(op, a, va, b, vb) ==
  CASE op \in ArithOps ->
         LET ct == Common(a, b)  x == CastC(ct, va)  y == CastC(ct, vb)
             r  == CASE op = "add" -> H(x + y) [] op = "sub" -> H(x - y) [] op = "mul" -> H(x * y)
                     [] op = "band" -> H(U(x, WL) & U(y, WL)) [] op = "bor" -> H(U(x, WL) | U(y, WL))
                     [] op = "bxor" -> H(U(x, WL) ^^ U(y, WL))
                     [] op = "div" -> IF y = 0 THEN 0 ELSE IF ~Sg(ct) THEN H(U(x, WL) \div U(y, WL)) ELSE H(NDivT(x, y))
                     [] OTHER      -> IF y = 0 THEN 0 ELSE IF ~Sg(ct) THEN H(U(x, WL) % U(y, WL)) ELSE H(NModT(x, y))
         IN CR(ct, Rew(ct, r))
    [] op \in {"lt", "le", "eq", "ne"} ->
         LET ct == Common(a, b)  x == CastC(ct, va)  y == CastC(ct, vb)
             r  == CASE op = "eq" -> x = y [] op = "ne" -> x # y
                     [] op = "lt" -> IF ~Sg(ct) THEN U(x, WL) < U(y, WL) ELSE x < y
                     [] OTHER     -> IF ~Sg(ct) THEN U(x, WL) <= U(y, WL) ELSE x <= y
         IN CR("int", Bool01(r))
    [] op \in {"gt", "ge"} ->
         LET ct == Common(b, a)  x == CastC(ct, vb)  y == CastC(ct, va)
             r  == IF op = "gt" THEN (IF ~Sg(ct) THEN U(x, WL) < U(y, WL) ELSE x < y)
                   ELSE (IF ~Sg(ct) THEN U(x, WL) <= U(y, WL) ELSE x <= y)
         IN CR("int", Bool01(r))
    [] op = "shl" -> LET pt == IF FIX_D01 THEN PromoI(a) ELSE a
                         x  == IF FIX_D01 THEN CastC(pt, va) ELSE va
                     IN CR(pt, Rew(pt, H(x * Pow2S(vb))))
    [] op = "shr" -> LET pt == IF FIX_D01 THEN PromoI(a) ELSE a
                         x  == IF FIX_D01 THEN CastC(pt, va) ELSE va
                     IN CR(pt, Rew(pt, IF ~Sg(pt) /\ Is64(pt) THEN H(U(x, WL) \div Pow2S(vb)) ELSE x \div Pow2S(vb)))
    [] op = "land" -> CR("int", Bool01(va # 0 /\ vb # 0))
    [] OTHER       -> CR("int", Bool01(va # 0 \/ vb # 0))

CEUn(op, a, va) ==
  CASE op = "neg"  -> LET pt == PromoI(a) IN CR(pt, Rew(pt, H(-CastC(pt, va))))
    [] op = "bnot" -> IF FIX_D01 THEN LET pt == PromoI(a) IN CR(pt, Rew(pt, H(-CastC(pt, va) - 1)))
                      ELSE CR(a, Rew(a, H(-va - 1)))
    [] op = "pos"  -> IF FIX_D01 THEN LET pt == PromoI(a) IN CR(pt, CastC(pt, va)) ELSE CR(a, va)
    [] OTHER       -> CR("int", Bool01(va = 0))

(* ---- floating nodes: parse.c eval_double / eval_flonum and the floating arms of eval3.  A floating value is a
   host long double; only integer-valued ones occur here, so it is an integer (PLdbl = WL: every int64_t /
   uint64_t is exact).  RoundTo = the host's `(float)val` / `(double)val` (round to nearest even).          *)
RoundTo(t, v) == FRound(Prec(t), v)
(* eval_double on a node of integer type: `is_unsigned ? (unsigned long)eval(node) : eval(node)` *)
AsLD(c) == IF IsF(c.t) THEN c.v ELSE IF ~Sg(c.t) THEN U(c.v, WL) ELSE c.v
(* type.c get_common_type with a floating operand *)
CommonG(a, b) == IF IsF(a) \/ IsF(b) THEN (IF FRank(a) >= FRank(b) THEN a ELSE b) ELSE Common(a, b)
(* a ND_CAST node of type t over an operand c = [t, v]:
     floating t: eval_double(node) = eval_flonum's `return eval_double(node->lhs)` rounded to node->ty
                 (MUT "castnoround": rounded only when a floating value is narrowed)
     integer t, floating operand: eval3's ND_CAST arm: _Bool `!= 0`, 8-byte unsigned `(uint64_t)fval`, otherwise
                 eval2(lhs) = `(int64_t)eval_double(lhs)` and then fit_int
     integer t, integer operand: fit_int *)
CECast(t, c) ==
  IF IsF(t) THEN CR(t, IF MUT = "castnoround" /\ ~(IsF(c.t) /\ FRank(t) < FRank(c.t)) THEN AsLD(c) ELSE RoundTo(t, AsLD(c)))
  ELSE IF IsF(c.t) THEN (IF t = "bool" THEN CR(t, Bool01(c.v # 0))
                         ELSE IF Is64(t) /\ ~Sg(t) THEN CR(t, H(c.v))
                         ELSE CR(t, CastC(t, H(c.v))))
  ELSE CR(t, CastC(t, c.v))
(* a binary operator with a floating operand: usual_arith_conv casts both to the common type; + - are computed in
   that type (EVAL_FLONUM_OP: `T x = lhs, y = rhs; return x + y;`, then eval_double rounds to node->ty once more);
   comparisons use the host's long double comparison; && || use eval_truth *)
CEFBin(op, a, b) ==
  LET ct == CommonG(a.t, b.t)  x == CECast(ct, a).v  y == CECast(ct, b).v IN
  CASE op = "add" -> CR(ct, RoundTo(ct, RoundTo(ct, x) + RoundTo(ct, y)))
    [] op = "sub" -> CR(ct, RoundTo(ct, RoundTo(ct, x) - RoundTo(ct, y)))
    [] op = "lt" -> CR("int", Bool01(x < y)) [] op = "gt" -> CR("int", Bool01(y < x))
    [] op = "le" -> CR("int", Bool01(x <= y)) [] op = "ge" -> CR("int", Bool01(y <= x))
    [] op = "eq" -> CR("int", Bool01(x = y)) [] op = "ne" -> CR("int", Bool01(x # y))
    [] op = "land" -> CR("int", Bool01(a.v # 0 /\ b.v # 0))
    [] OTHER -> CR("int", Bool01(a.v # 0 \/ b.v # 0))
CEFUn(op, a) ==
  CASE op = "neg" -> CR(a.t, IF MUT = "castnoround" THEN -a.v ELSE RoundTo(a.t, -a.v))
    [] op = "pos" -> a
    [] OTHER -> CR("int", Bool01(a.v = 0))                \* ND_NOT: !eval_truth

RECURSIVE CE(_)
(* eval_truth: a floating operand is compared with 0 as a floating value *)
CETruth(e) == IF e.k = "fv" THEN FTruth(e.x) ELSE CE(e).v # 0
CE(e) ==
  CASE e.k = "leaf" -> CR(e.t, IF IsF(e.t) THEN e.v ELSE H(e.v))      \* ND_NUM (val is int64_t / fval), or a cast of one
    [] e.k = "call" -> CR(e.t, 0)                          \* error_tok("not a compile-time constant"): see CEOk
    [] e.k = "fv"   -> CR(e.t, e.x.tr)                     \* only the type is used (the parent looks at e.x)
    [] e.k = "un"   -> IF e.a.k = "fv" THEN CR("int", Bool01(~FTruth(e.a.x)))
                       ELSE LET a == CE(e.a) IN IF IsF(a.t) THEN CEFUn(e.op, a) ELSE CEUn(e.op, a.t, a.v)
    [] e.k = "cast" -> IF e.a.k = "fv"                     \* (T)2.5: _Bool compares with 0, otherwise the host truncates
                       THEN CR(e.t, IF e.t = "bool" THEN Bool01(FTruth(e.a.x)) ELSE CastC(e.t, e.a.x.tr))
                       ELSE CECast(e.t, CE(e.a))
    [] e.k = "comma" -> CE(e.b)                            \* eval3 ND_COMMA: eval2(node->rhs); the left operand is dropped
    [] e.k = "bin"  -> IF e.op \in LogOps /\ (e.a.k = "fv" \/ e.b.k = "fv")
                       THEN CR("int", Bool01(IF e.op = "land" THEN CETruth(e.a) /\ CETruth(e.b) ELSE CETruth(e.a) \/ CETruth(e.b)))
                       ELSE LET a == CE(e.a)  b == CE(e.b) IN
                            IF IsF(a.t) \/ IsF(b.t) THEN CEFBin(e.op, a, b) ELSE CEBin(e.op, a.t, a.v, b.t, b.v)
    [] OTHER        -> LET a == CE(e.a)  b == CE(e.b)  ct == CommonG(a.t, b.t)
                       IN IF CETruth(e.c) THEN CECast(ct, a) ELSE CECast(ct, b)
(* the folder reaches no error_tok("not a compile-time constant") *)
RECURSIVE CEOk(_)
CEOk(e) ==
  CASE e.k \in {"leaf", "fv"} -> TRUE
    [] e.k = "call" -> FALSE
    [] e.k \in {"un", "cast"} -> CEOk(e.a)
    [] e.k = "comma" -> CEOk(e.b)
    [] e.k = "bin" -> (IF e.op = "land" THEN CEOk(e.a) /\ (CETruth(e.a) => CEOk(e.b))
                       ELSE IF e.op = "lor" THEN CEOk(e.a) /\ (~CETruth(e.a) => CEOk(e.b))
                       ELSE CEOk(e.a) /\ CEOk(e.b))
    [] OTHER -> CEOk(e.c) /\ CEOk(IF CETruth(e.c) THEN e.a ELSE e.b)

(* floating operands (eval3: fl/fr are host long doubles, C's own comparison operators; eval_truth).
   MUT = "lenot": a <= b computed as !(b < a), true for unordered operands. *)
CEFCmp(op, x, y) ==
  LET un == x.nan \/ y.nan
      lt(p, q) == ~(p.nan \/ q.nan) /\ p.ord < q.ord
  IN Bool01(CASE op = "lt" -> lt(x, y) [] op = "gt" -> lt(y, x)                       \* a > b is ND_LT(b, a)
              [] op = "le" -> (IF MUT = "lenot" THEN ~lt(y, x) ELSE ~un /\ x.ord <= y.ord)
              [] op = "ge" -> (IF MUT = "lenot" THEN ~lt(x, y) ELSE ~un /\ y.ord <= x.ord)
              [] op = "eq" -> ~un /\ x.ord = y.ord [] op = "ne" -> un \/ x.ord # y.ord
              [] op = "land" -> FTruth(x) /\ FTruth(y) [] op = "lor" -> FTruth(x) \/ FTruth(y)
              [] OTHER -> ~FTruth(x))

(* parse.c is_const_expr (decides array vs VLA).  eval(cond) of a floating condition truncates it (0.5 -> 0; NaN and
   huge values -> INT64_MIN on x86-64): MUT "condtrunc" *)
FvTrunc(x) == x.nan \/ x.big \/ x.tr # 0
RECURSIVE IsConst(_)
IsConst(e) ==
  IF MUT = "nonint" /\ IsF(CE(e).t) THEN FALSE ELSE
  CASE e.k \in {"leaf", "fv"} -> TRUE                      \* ND_NUM
    [] e.k = "call" -> FALSE
    [] e.k = "un"   -> IsConst(e.a)
    [] e.k = "cast" -> IsConst(e.a)
    [] e.k = "comma" -> IF MUT = "commaconst" THEN IsConst(e.b) ELSE FALSE
    [] e.k = "bin"  -> IF e.op = "mod" /\ ~FIX_D10 THEN FALSE ELSE IsConst(e.a) /\ IsConst(e.b)   \* ND_MOD is missing from the switch
    [] OTHER        -> IsConst(e.c) /\ IsConst(IF (IF MUT = "condtrunc" /\ e.c.k = "fv" THEN FvTrunc(e.c.x) ELSE CETruth(e.c))
                                                THEN e.a ELSE e.b)

(* static-storage bit-field initializer (parse.c write_gvar_data): newval = eval(new_cast(expr, mem->ty)),
   mask = width == 64 ? -1 : (1L << width) - 1; the object holds newval & mask.  BfRead = what a read of the
   member yields (codegen.c: shl / sar or shr by 64 - width; C04 checks that side) *)
BfStore(t, w, e) ==
  LET nv   == IF MUT = "bfnoconv" THEN (IF e.k = "fv" THEN e.x.tr ELSE CE(e).v) ELSE CE(CastE(t, e)).v
      mask == IF MUT = "bfmask" THEN 2 ^ (w % WL) - 1 ELSE 2 ^ w - 1
  IN U(nv, WL) & mask
BfRead(t, w, m) == IF Sg(t) THEN S(m, w) ELSE m

(* eval2's int64_t agrees with Level A: exactly for types narrower than the host word
   (so that every consumer may narrow or widen it), modulo 2^WL for long / unsigned long *)
ConstAgrees(e) ==
  LET a == Ev(e)  c == CE(e) IN
  a.ok => /\ TyObs(c.t) = TyObs(a.t)
          /\ IF IsF(a.t) THEN c.t = a.t /\ c.v = a.v
             ELSE IF W(a.t) < WL THEN c.v = a.v ELSE U(c.v, WL) = U(a.v, WL)
          /\ IsConst(e)
(* the array / VLA decision (parse.c array_dimensions): when is_const_expr says "constant" the bound is folded
   and nothing is evaluated at run time - so the folder must succeed, give the C11 value, and the expression
   must have no side effect to lose; every integer constant expression must be recognised (6.7.6.2p4) *)
ArrayDecision(e) ==
  LET a == Ev(e) IN
  a.ok => /\ IsConst(e) => CEOk(e) /\ Effects(e) = 0 /\ CE(e).v = a.v
          /\ IsICE(e) => IsConst(e)
=============================================================================
