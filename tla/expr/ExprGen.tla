------------------------------- MODULE ExprGen ------------------------------
(* C01 / C07 test-vector generation at the real widths (CInt over lib/BV).

   The domain D is closed and enumerated: one initial state per *case*
   (family, operator(s), operand types), one successor per choice of operand
   values from the per-type boundary tables.  Every successor whose evaluation
   is DEFINED (Level A's definedness guards) is written to IOEnv.OUT as one
   JSON line: the expression tree (leaves carry their type and their value as
   a decimal string), and what Level A says a conforming implementation must
   show: the value converted to unsigned long (decimal string `u`), the
   mathematical value (`s`), the type's sizeof (`sz`) and signedness (`sg`),
   and for the side-effecting contexts the object's value afterwards (`obj`).
   Division / remainder by a constant zero is emitted as a *diagnostic*
   behaviour (`dz`), used by C07 only.

   Base and D2Base (seed-independent) define D; Seed, Stride and D2Stride subsample D
   for the quick tier: a vector of D is emitted iff (hash(coordinates) \div Base + Seed)
   % Stride = 0; the guard is evaluated before any wide arithmetic, so the quick tier
   costs 1/Stride of the thorough tier, and no seed leaves D.

   Families:
     bin un cast cond           depth-1 expressions over every type (pair)
     init arg ret assign test   the implicit-conversion contexts (source type a, destination b)
     opasg incdec               the ten op= and the four ++/-- on an object of type a
     d2l d2r                    depth 2: (x op y) op2 z  /  z op2 (x op y), operators by lowering class
     cc                         cast chains (c)(b) x for every ordered triple of types (x : a)
     ccinit ccarg ccret ccassign  an explicit cast (b) x converted implicitly to an object of type c
                                (emitted as init/arg/ret/assign vectors whose expression is the cast)
     aopasg aincdec             op= and ++/-- on an _Atomic object (single-threaded value semantics)
     case                       switch (x : a) { [case L0: switch (y : tn) {...}] case (label : b): } - which case is
                                selected; the nested switch of another type precedes the label
     enum                       enum { N = v }; then in an inner scope enum { N = N op c, M } (shadow / blockshadow), or the
                                chain enum { A = v, B = A op c, C }: value of the redefined / dependent enumerator and its successor
     asgv                       the VALUE of an assignment d = x (d : b, x : a) used as initializer of a long, compared,
                                as a condition, returned, as an index, as an argument, and chained c = d = x
     wrap0                      (T)(x op y) with unsigned x, y whose result wraps to exactly 0 (or just past it) in the operand type
     fcmp                       floating operands (NaN, infinities, -0, ...) of < > <= >= == != && || ! ?: and casts to integer types
     fconv                      conversions between integer and floating types inside a constant expression, at the precision
                                boundaries of float / double / long double (2^24, 2^53, 2^63, 2^64 +- the ties): (c)(b)x, (c)(F2)(b)x,
                                (c)-(b)x, (c)(1 ? (b)x : (F2)0), (c)(1 ? x : (b)0), (c)((b)x +- (F2)y), (b)x rel (F2)y, (b)x rel y, and
                                finit: a static object of type F2 initialised with (b)x (its exact value is emitted)
     vla                        array bounds that are not (all) constant: a call, `(f(), k)`, `(k2, k)` alone, under an operator, a cast,
                                in either arm of ?: and right of && || with an int or floating condition - value and number of calls
     ptr                        pointers into an array of element size 1,2,4,8,12,24: p + i, i + p, p - i with i
                                of every integer type (value of i, not its conversion: unsigned int >= 2^31
                                moves forward), p - q (long), p < q ... (int); values are element indexes    *)
EXTENDS CIntBV, TLC, Json, CSV, IOUtils

CONSTANTS Fams, Seed, Stride,
          D2Stride,           \* seed-dependent thinning of the depth-2 *cases* (1 = all of D)
          Base, D2Base        \* seed-INDEPENDENT thinning that defines the domain D itself: value choices with
                              \* hash % Base = 0, depth-2 cases with hash % D2Base = 0.  The thorough tier
                              \* (Stride = D2Stride = 1) enumerates exactly D; seeds only subsample D.

VARIABLES fam, op, op2, a, b, c, i, j, k, ph,
          hb          \* hash of the case coordinates (computed once per case)
vars == <<fam, op, op2, a, b, c, i, j, k, ph, hb>>

TSeq == <<"bool", "char", "uchar", "short", "ushort", "int", "uint", "long", "ulong", "enum">>
TIdx(t) == CHOOSE n \in 1..Len(TSeq) : TSeq[n] = t
BinSeq == <<"mul", "div", "mod", "add", "sub", "shl", "shr", "lt", "gt", "le", "ge", "eq", "ne",
            "band", "bxor", "bor", "land", "lor">>
UnSeq == <<"pos", "neg", "bnot", "lnot">>
AsgSeq == <<"mul", "div", "mod", "add", "sub", "shl", "shr", "band", "bxor", "bor">>
KindSeq == <<"preinc", "predec", "postinc", "postdec">>
(* one operator per lowering class of codegen.c / eval2 *)
D2Ops1 == {"mul", "div", "add", "sub", "shl", "shr", "lt", "band"}
D2Ops2 == {"mul", "mod", "add", "shr", "shl", "ge", "eq", "bxor", "lor"}
D2TypesC == {"uchar", "short", "int", "uint", "long", "ulong"}
Types9 == Types \ {"enum"}

(* ---- boundary values ---------------------------------------------------- *)
Ks == <<7, 8, 15, 16, 31, 32, 63, 64>>
Cand ==
  FoldLeft(LAMBDA acc, kk :
             LET p == Pow2(kk) IN
             acc \o <<Sub(p, One), p, Neg(p), Sub(Neg(p), One)>>
                 \o (IF kk \in {31, 32, 63, 64} THEN <<Sub(p, FromInt(2)), Add(Neg(p), One)>> ELSE <<>>),
           <<FromInt(0), FromInt(1), FromInt(-1), FromInt(2), FromInt(-2), FromInt(31), FromInt(63),
             FromInt(100), FromInt(-100), FromInt(1234567), FromInt(-1234567)>>,
           Ks)
(* eager tables (a function constructor would be re-evaluated at every application) *)
BndT == FoldLeft(LAMBDA f, t : (t :> SelectSeq(Cand, LAMBDA zz : InRange(zz, t))) @@ f, <<>>, TSeq)
StrOf(s) == FoldLeft(LAMBDA acc, zz : Append(acc, ToDec(zz)), <<>>, s)
BndS == FoldLeft(LAMBDA f, t : (t :> StrOf(BndT[t])) @@ f, <<>>, TSeq)
(* three or four values per type for the deeper families *)
FewOf(t) == IF t = "bool" THEN <<Z0, Z1>>
            ELSE IF Sg(t) THEN <<MinV(t), FromInt(-1), FromInt(2), MaxV(t)>>
            ELSE <<FromInt(1), FromInt(2), Sub(MaxV(t), One), MaxV(t)>>
FewT == FoldLeft(LAMBDA f, t : (t :> FewOf(t)) @@ f, <<>>, TSeq)
FewS == FoldLeft(LAMBDA f, t : (t :> StrOf(FewT[t])) @@ f, <<>>, TSeq)

(* TLC re-evaluates these table definitions at every use (they are not recognised as
   constants because of the LAMBDAs), which costs ~10 ms per access.  They are therefore
   evaluated once, in an ASSUME, into TLC registers (inherited by every worker).       *)
(* cast chains: values that distinguish truncation, sign extension and the comparison with 0 of _Bool *)
CCCand == <<FromInt(0), FromInt(1), FromInt(2), FromInt(-1), FromInt(128), FromInt(256)>>
CCOf(t) == SelectSeq(CCCand, LAMBDA zz : InRange(zz, t) /\ zz # MinV(t) /\ zz # MaxV(t)) \o <<MinV(t), MaxV(t)>>
CCT == FoldLeft(LAMBDA f, t : (t :> CCOf(t)) @@ f, <<>>, TSeq)
CCS == FoldLeft(LAMBDA f, t : (t :> StrOf(CCT[t])) @@ f, <<>>, TSeq)
(* pointers: the array has NPtr elements (the replay reserves the address range, never touches it) *)
NPtr == Add(Pow2(32), FromInt(16))
KT == <<FromInt(0), FromInt(7), FromInt(300), FromInt(70000), Add(Pow2(31), FromInt(5)), Add(Pow2(32), FromInt(8))>>
KS == StrOf(KT)
SizeSeq == <<"1", "2", "4", "8", "12", "24">>
SizeOfTag(s) == CASE s = "1" -> 1 [] s = "2" -> 2 [] s = "4" -> 4 [] s = "8" -> 8 [] s = "12" -> 12 [] OTHER -> 24
PtrSeq == <<"padd", "pradd", "psub", "pdiff", "plt", "ple", "pgt", "pge", "peq", "pne">>
(* fconv: integers around the precision boundaries (ties, neighbours of ties, the extremes of each type) *)
P2m(kk, d) == Sub(Pow2(kk), FromInt(d))
P2p(kk, d) == Add(Pow2(kk), FromInt(d))
FPos == <<FromInt(0), FromInt(1), FromInt(3), P2m(24, 1), Pow2(24), P2p(24, 1), P2p(24, 2), P2p(24, 3),
          P2p(25, 1), P2p(25, 2), P2p(25, 3), P2p(25, 5), P2p(25, 6), FromInt(1234567891),
          P2m(31, 192), P2m(31, 129), P2m(31, 128), P2m(31, 65), P2m(31, 64), P2m(31, 1), Pow2(31),
          P2m(32, 257), P2m(32, 256), P2m(32, 129), P2m(32, 128), P2m(32, 1),
          P2m(53, 1), Pow2(53), P2p(53, 1), P2p(53, 2), P2p(53, 3), P2p(54, 1), P2p(54, 2), P2p(54, 3), P2p(54, 6),
          Add(Mul(FromInt(123456789), FromInt(1000000007)), FromInt(12345)),
          Sub(Pow2(63), Add(Pow2(39), Pow2(38))), Sub(Pow2(63), Pow2(38)), P2m(63, 1025), P2m(63, 1024), P2m(63, 513), P2m(63, 512), P2m(63, 1),
          Pow2(63), P2p(63, 1), P2p(63, 1024), P2p(63, 3072),
          Sub(Pow2(64), Pow2(40)), Sub(Pow2(64), Pow2(39)), P2m(64, 2049), P2m(64, 1025), P2m(64, 1024), P2m(64, 1)>>
FCand == FPos \o FoldLeft(LAMBDA acc, zz : IF IsZero(zz) THEN acc ELSE Append(acc, Neg(zz)), <<>>, FPos) \o <<Neg(Pow2(31)), Neg(Pow2(63))>>
FSrcG == {"ushort", "int", "uint", "long", "ulong"}
FBT == FoldLeft(LAMBDA f, t : (t :> SelectSeq(FCand, LAMBDA zz : InRange(zz, t))) @@ f, <<>>, <<"ushort", "int", "uint", "long", "ulong">>)
VlaK == <<1, 3, 200>>
VlaK2 == <<2, 5>>
NCKinds == {"call", "comma", "commac"}
VlaTypes == {"int", "long", "uchar"}
FvNames == {FV[n].n : n \in 1..Len(FV)}
FvByName(nm) == FV[CHOOSE n \in 1..Len(FV) : FV[n].n = nm]
ASSUME TLCSet(19, FBT)
ASSUME TLCSet(11, BndT) /\ TLCSet(12, BndS) /\ TLCSet(13, FewT) /\ TLCSet(14, FewS)
       /\ TLCSet(15, CCT) /\ TLCSet(16, CCS) /\ TLCSet(17, KT) /\ TLCSet(18, KS)

N1 == {"-"}
Cases ==
  ({"bin"} \X BinOps \X N1 \X Types \X Types \X N1)
  \cup ({"un"} \X UnOps \X N1 \X Types \X N1 \X N1)
  \cup ({"cast"} \X N1 \X N1 \X Types \X Types \X N1)
  \cup ({"cond"} \X N1 \X N1 \X Types9 \X Types9 \X Types9)
  \cup ({"init", "arg", "ret", "assign"} \X N1 \X N1 \X Types \X Types \X N1)
  \cup ({"test"} \X N1 \X N1 \X Types \X N1 \X N1)
  \cup ({"opasg"} \X AsgOps \X N1 \X Types \X Types \X N1)
  \cup ({"incdec"} \X {"preinc", "predec", "postinc", "postdec"} \X N1 \X Types \X N1 \X N1)
  \cup ({"d2l", "d2r"} \X D2Ops1 \X D2Ops2 \X Types9 \X Types9 \X D2TypesC)
  \cup ({"cc", "ccinit", "ccarg", "ccret", "ccassign"} \X N1 \X N1 \X Types \X Types \X Types)
  \cup ({"aopasg"} \X AsgOps \X N1 \X Types \X Types \X N1)
  \cup ({"aincdec"} \X {"preinc", "predec", "postinc", "postdec"} \X N1 \X Types \X N1 \X N1)
  \cup ({"case"} \X N1 \X {"-", "char", "uchar", "int", "uint", "long", "ulong"} \X Types \X Types \X N1)
  \cup ({"enum"} \X AsgOps \X {"shadow", "blockshadow", "chain"} \X Types \X N1 \X N1)
  \cup ({"asgv"} \X {"winit", "cmp", "cond", "ret", "index", "arg"} \X N1 \X Types \X Types \X N1)
  \cup ({"asgv"} \X {"chain"} \X N1 \X Types \X Types \X Types)
  \cup ({"wrap0"} \X {"add", "mul", "shl"} \X N1 \X {"uint", "ulong"} \X Types \X N1)
  \cup ({"fcmp"} \X {"lt", "gt", "le", "ge", "eq", "ne", "land", "lor", "lnot", "cond"} \X N1 \X {"float", "double", "ldouble"} \X N1 \X N1)
  \cup ({"fcmp"} \X {"toint"} \X N1 \X {"float", "double", "ldouble"} \X Types \X N1)
  \cup ({"fconv"} \X {"cast", "neg", "mixed"} \X N1 \X FSrcG \X FTypes \X Types)
  \cup ({"fconv"} \X {"chain", "cond"} \X FTypes \X FSrcG \X FTypes \X Types)
  \cup ({"fconv"} \X {"add", "sub"} \X FTypes \X FSrcG \X FTypes \X {"bool", "long", "ulong"})
  \cup ({"fconv"} \X RelOps \X (FTypes \cup N1) \X FSrcG \X FTypes \X N1)
  \cup ({"fconv"} \X {"finit"} \X FTypes \X FSrcG \X FTypes \X N1)
  \cup ({"vla"} \X {"top"} \X N1 \X NCKinds \X N1 \X VlaTypes)
  \cup ({"vla"} \X {"binl", "binr"} \X {"add", "sub", "mul", "bor", "shl", "lt"} \X NCKinds \X N1 \X VlaTypes)
  \cup ({"vla"} \X {"un"} \X {"pos", "long", "uchar", "bool"} \X NCKinds \X N1 \X VlaTypes)
  \cup ({"vla"} \X {"condt", "conde", "land", "lor"} \X {"int"} \X NCKinds \X {"0", "1"} \X VlaTypes)
  \cup ({"vla"} \X {"condt", "conde", "land", "lor"} \X FTypes \X NCKinds \X FvNames \X {"int"})
  \cup ({"vla"} \X {"fvcast"} \X FTypes \X N1 \X FvNames \X (VlaTypes \cup {"bool"}))
  \cup ({"ptr"} \X PtrArithOps \X {"1", "2", "4", "8", "12", "24"} \X Types \X N1 \X N1)
  \cup ({"ptr"} \X PtrRelOps \X {"1", "2", "4", "8", "12", "24"} \X N1 \X N1 \X N1)

CCFam == fam \in {"cc", "ccinit", "ccarg", "ccret", "ccassign"}
Deep == fam \in {"cond", "d2l", "d2r", "opasg", "aopasg"}
VT(t) == IF Deep THEN TLCGet(13)[t] ELSE IF CCFam THEN TLCGet(15)[t] ELSE TLCGet(11)[t]
VS(t) == IF Deep THEN TLCGet(14)[t] ELSE IF CCFam THEN TLCGet(16)[t] ELSE TLCGet(12)[t]
NV(t) == IF t = "-" THEN 1 ELSE Len(VT(t))
(* index ranges of the three value coordinates of the current case *)
(* operand pairs whose unsigned result wraps to 0, 0, and just past 0 *)
WrapPair(t, o, n) ==
  LET w == W(t)  h == Pow2(w - 1)  q == Pow2(w \div 2)  mx == MaxV(t) IN
  CASE o = "add" -> (IF n = 1 THEN <<mx, One>> ELSE IF n = 2 THEN <<h, h>> ELSE <<mx, FromInt(3)>>)
    [] o = "mul" -> (IF n = 1 THEN <<q, q>> ELSE IF n = 2 THEN <<h, FromInt(2)>> ELSE <<Add(h, One), FromInt(2)>>)
    [] OTHER     -> (IF n = 1 THEN <<h, One>> ELSE IF n = 2 THEN <<q, FromInt(w \div 2)>> ELSE <<Add(h, One), One>>)

NI == IF fam = "fconv" THEN Len(TLCGet(19)[a])
      ELSE IF fam = "vla" THEN (IF op = "fvcast" THEN 1 ELSE Len(VlaK))
      ELSE IF fam = "asgv" THEN Len(TLCGet(15)[a])
      ELSE IF fam = "wrap0" THEN 3
      ELSE IF fam = "fcmp" THEN Len(FV)
      ELSE IF fam = "ptr" /\ a = "-" THEN Len(KT)
      ELSE IF fam = "case" THEN 2                            \* the two controlling values
      ELSE IF fam = "enum" THEN Len(TLCGet(11)["int"])       \* value of the outer / first enumerator
      ELSE NV(a)
NJ == IF fam = "fconv" THEN (IF op \in RelOps \cup {"add", "sub"} THEN 3 ELSE 1)
      ELSE IF fam = "vla" THEN (IF op \in {"top", "un", "fvcast"} THEN 1 ELSE Len(VlaK2))
      ELSE IF fam \in {"asgv", "wrap0"} THEN 1
      ELSE IF fam = "fcmp" THEN (IF op \in {"lnot", "cond", "toint"} THEN 1 ELSE Len(FV))
      ELSE IF fam = "ptr" THEN Len(KT)
      ELSE IF fam = "enum" THEN Len(TLCGet(13)[a])
      ELSE IF CCFam \/ fam \in {"un", "cast", "init", "arg", "ret", "assign", "test", "incdec", "aincdec"} THEN 1 ELSE NV(b)
NK == IF CCFam \/ fam \in {"ptr", "case", "enum", "asgv", "wrap0", "fcmp", "fconv", "vla"} THEN 1 ELSE NV(c)

OIdxOf(o) == IF \E n \in 1..Len(BinSeq) : BinSeq[n] = o THEN CHOOSE n \in 1..Len(BinSeq) : BinSeq[n] = o
             ELSE IF \E n \in 1..4 : UnSeq[n] = o THEN CHOOSE n \in 1..4 : UnSeq[n] = o
             ELSE IF \E n \in 1..4 : KindSeq[n] = o THEN CHOOSE n \in 1..4 : KindSeq[n] = o
             ELSE IF \E n \in 1..10 : PtrSeq[n] = o THEN CHOOSE n \in 1..10 : PtrSeq[n] = o
             ELSE IF \E n \in 1..6 : SizeSeq[n] = o THEN CHOOSE n \in 1..6 : SizeSeq[n] = o
             ELSE IF o \in Types THEN TIdx(o)
             ELSE IF o = "blockshadow" THEN 1 ELSE IF o = "chain" THEN 2
             ELSE IF o \in {"float", "double", "ldouble"} THEN (IF o = "float" THEN 1 ELSE IF o = "double" THEN 2 ELSE 3)
             ELSE IF o \in {"winit", "cmp", "cond", "ret", "index", "arg", "toint"} THEN 3 ELSE 0
TI(t) == IF t \notin Types THEN (IF t = "float" THEN 11 ELSE IF t = "double" THEN 12 ELSE IF t = "ldouble" THEN 13 ELSE 0) ELSE TIdx(t)
CaseHash(cs) == OIdxOf(cs[2]) * 101 + OIdxOf(cs[3]) * 59 + TI(cs[4]) * 7 + TI(cs[5]) * 13 + TI(cs[6]) * 17
(* the depth-2 families are thinned by whole cases (D2Stride), every family by value choice (Stride) *)
CasePicked(cs) == cs[1] \in {"d2l", "d2r"} =>
                    /\ CaseHash(cs) % D2Base = 0
                    /\ ((CaseHash(cs) \div D2Base) + Seed) % D2Stride = 0
(* the small families (unary, casts, the conversion contexts, ++/--) are always enumerated completely;
   depth 2 is thinned by whole cases already, so its value choices are thinned 8 times less *)
VStride == IF fam = "vla" THEN (IF Stride < 48 THEN 1 ELSE Stride \div 48)
           ELSE IF fam = "fconv" THEN (IF op \in {"cast", "neg", "mixed"} THEN (IF Stride < 32 THEN 1 ELSE Stride \div 32)
                                       ELSE IF op \in {"finit", "chain", "cond"} THEN (IF Stride < 8 THEN 1 ELSE Stride \div 8)
                                       ELSE (IF Stride < 4 THEN 1 ELSE Stride \div 4))
           ELSE IF fam \in {"un", "cast", "init", "arg", "ret", "assign", "test", "incdec", "aincdec", "cc", "wrap0", "fcmp"} THEN 1
           ELSE IF fam = "asgv" THEN (IF op # "chain" \/ Stride < 8 THEN 1 ELSE 4)
           ELSE IF fam \in {"opasg", "aopasg"} THEN (IF Stride < 16 THEN 1 ELSE Stride \div 16)
           ELSE IF fam \in {"case", "enum"} THEN (IF Stride < 8 THEN 1 ELSE Stride \div 8)
           ELSE IF fam = "ptr" THEN (IF op \in PtrRelOps \/ Stride < 6 THEN 1 ELSE 6)
           ELSE IF fam \in {"ccinit", "ccarg", "ccret", "ccassign"} THEN (IF Stride < 8 THEN 1 ELSE 8)
           ELSE IF fam \in {"d2l", "d2r"} /\ Stride >= 8 THEN Stride \div 8 ELSE Stride
Pick(ii, jj, kk) == LET h == hb + ii * 31 + jj * 37 + kk * 41 IN
                    IF VStride = 1 /\ fam \notin {"bin", "cond", "opasg", "d2l", "d2r", "fconv"} THEN TRUE
                    ELSE IF fam \in {"ptr", "ccinit", "ccarg", "ccret", "ccassign", "aopasg", "case", "enum", "vla"} THEN (h + Seed) % VStride = 0
                    ELSE IF fam = "asgv" THEN (h + Seed) % VStride = 0
                    ELSE IF fam = "fconv" THEN (IF op = "finit" THEN (h + Seed) % VStride = 0
                                                ELSE h % 8 = 0 /\ ((h \div 8) + Seed) % VStride = 0)     \* D: value choices with hash % 8 = 0
                    ELSE h % Base = 0 /\ ((h \div Base) + Seed) % VStride = 0

LeafJ(t, n) == [k |-> "leaf", t |-> t, v |-> VS(t)[n]]
LeafZ(t, n) == Leaf(t, VT(t)[n])

(* the tree as JSON (decimal strings) and as a Level A term *)
TreeJ(ii, jj, kk) ==
  CASE fam \in {"bin", "opasg", "aopasg"} -> [k |-> "bin", op |-> op, a |-> LeafJ(a, ii), b |-> LeafJ(b, jj)]
    [] fam = "un"   -> [k |-> "un", op |-> op, a |-> LeafJ(a, ii)]
    [] fam = "cast" -> [k |-> "cast", t |-> b, a |-> LeafJ(a, ii)]
    [] fam = "cc"   -> [k |-> "cast", t |-> c, a |-> [k |-> "cast", t |-> b, a |-> LeafJ(a, ii)]]
    [] fam = "wrap0" -> LET p == WrapPair(a, op, ii) IN
                        [k |-> "cast", t |-> b, a |-> [k |-> "bin", op |-> op, a |-> [k |-> "leaf", t |-> a, v |-> ToDec(p[1])],
                                                       b |-> [k |-> "leaf", t |-> a, v |-> ToDec(p[2])]]]
    [] fam \in {"ccinit", "ccarg", "ccret", "ccassign"} -> [k |-> "cast", t |-> b, a |-> LeafJ(a, ii)]
    [] fam = "cond" -> [k |-> "cond", c |-> LeafJ(c, kk), a |-> LeafJ(a, ii), b |-> LeafJ(b, jj)]
    [] fam = "d2l"  -> [k |-> "bin", op |-> op2, a |-> [k |-> "bin", op |-> op, a |-> LeafJ(a, ii), b |-> LeafJ(b, jj)], b |-> LeafJ(c, kk)]
    [] fam = "d2r"  -> [k |-> "bin", op |-> op2, a |-> LeafJ(c, kk), b |-> [k |-> "bin", op |-> op, a |-> LeafJ(a, ii), b |-> LeafJ(b, jj)]]
    [] OTHER -> LeafJ(a, ii)
TreeZ(ii, jj, kk) ==
  CASE fam = "bin"  -> BinE(op, LeafZ(a, ii), LeafZ(b, jj))
    [] fam = "un"   -> UnE(op, LeafZ(a, ii))
    [] fam = "cast" -> CastE(b, LeafZ(a, ii))
    [] fam = "cc"   -> CastE(c, CastE(b, LeafZ(a, ii)))
    [] fam = "wrap0" -> LET p == WrapPair(a, op, ii) IN CastE(b, BinE(op, Leaf(a, p[1]), Leaf(a, p[2])))
    [] fam \in {"ccinit", "ccarg", "ccret", "ccassign"} -> CastE(b, LeafZ(a, ii))
    [] fam = "cond" -> CondE(LeafZ(c, kk), LeafZ(a, ii), LeafZ(b, jj))
    [] fam = "d2l"  -> BinE(op2, BinE(op, LeafZ(a, ii), LeafZ(b, jj)), LeafZ(c, kk))
    [] fam = "d2r"  -> BinE(op2, LeafZ(c, kk), BinE(op, LeafZ(a, ii), LeafZ(b, jj)))
    [] OTHER -> LeafZ(a, ii)

(* Level A on the current case: [ok, t, v] (+ obj for ++/--) *)
Expect(ii, jj, kk) ==
  LET r == Ev(TreeZ(ii, jj, kk)) IN
  CASE fam \in {"init", "arg", "ret", "assign"} -> AsIf(b, r)
    [] fam \in {"ccinit", "ccarg", "ccret", "ccassign"} -> AsIf(c, r)
    [] fam = "test"   -> Test(r)
    [] fam \in {"opasg", "aopasg"}  -> OpAssign(op, a, VT(a)[ii], Res(TRUE, b, VT(b)[jj]))
    [] fam \in {"incdec", "aincdec"} -> IncDec(op, a, VT(a)[ii])
    [] OTHER -> r

IsDivZero(ii, jj) == fam = "bin" /\ op \in {"div", "mod"} /\ IsZero(VT(b)[jj])

(* With(v, F) = F(v) with v evaluated exactly once (TLC's LET / argument thunks are re-evaluated
   at every use inside an action; a one-element eager fold is not) *)
With(v, F(_)) == FoldLeft(LAMBDA acc, xx : F(xx), FALSE, <<v>>)

FamOut == CASE fam = "ccinit" -> "init" [] fam = "ccarg" -> "arg" [] fam = "ccret" -> "ret" [] fam = "ccassign" -> "assign"
             [] OTHER -> fam
DestOut == IF CCFam THEN c ELSE b
EmitR(r, ii, jj, kk) ==
  IF r.ok
  THEN CSVWrite("%1$s", <<ToJson([f |-> FamOut, op |-> op, d |-> DestOut, e |-> TreeJ(ii, jj, kk),
                                   t |-> r.t, sz |-> StoreW(r.t) \div 8, sg |-> Sg(r.t),
                                   u |-> ToDecU(64, r.v), s |-> ToDec(r.v),
                                   obj |-> IF fam \in {"incdec", "aincdec"} THEN ToDecU(64, r.obj)
                                           ELSE IF FamOut \in {"opasg", "aopasg", "assign", "init", "arg", "ret"} THEN ToDecU(64, r.v) ELSE "",
                                   dz |-> FALSE])>>, IOEnv.OUT)
  ELSE IF IsDivZero(ii, jj)
  THEN CSVWrite("%1$s", <<ToJson([f |-> fam, op |-> op, d |-> b, e |-> TreeJ(ii, jj, kk),
                                   t |-> "int", sz |-> 0, sg |-> FALSE, u |-> "", s |-> "", obj |-> "", dz |-> TRUE])>>, IOEnv.OUT)
  ELSE FALSE
(* pointer vectors: i (type a, value string iv) and the element indexes k, k2; the expected observable is the
   byte offset of the result from the array start (arith), the index difference (pdiff) or 0/1 (comparisons) *)
EmitPtr(ii, jj) ==
  LET s  == SizeOfTag(op2)
      kt == TLCGet(17)  ks == TLCGet(18)
  IN IF op \in PtrArithOps
     THEN With(PtrArith(op, kt[jj], VT(a)[ii], NPtr),
               LAMBDA r : r.ok /\ CSVWrite("%1$s", <<ToJson([f |-> "ptr", op |-> op, es |-> s, it |-> a, iv |-> VS(a)[ii],
                                                              k |-> ks[jj], k2 |-> "", t |-> "ptr", sz |-> 8, sg |-> FALSE,
                                                              u |-> ToDecU(64, Mul(r.v, FromInt(s))), dz |-> FALSE])>>, IOEnv.OUT))
     ELSE With(PtrRel(op, kt[ii], kt[jj]),
               LAMBDA r : CSVWrite("%1$s", <<ToJson([f |-> "ptr", op |-> op, es |-> s, it |-> "-", iv |-> "",
                                                     k |-> ks[ii], k2 |-> ks[jj], t |-> r.t, sz |-> StoreW(r.t) \div 8, sg |-> TRUE,
                                                     u |-> ToDecU(64, r.v), dz |-> FALSE])>>, IOEnv.OUT))
(* switch vectors: controlling type a, nested switch type op2 ("-": none), label literal of type b;
   x1 = the label as a value of the controlling type, x2 = x1 + 1 *)
EmitCase(ii, jj) ==
  LET vl == VT(b)[jj]
      cv == Convert(vl, Promote(a))
      x1 == Convert(cv, a)
      x  == IF ii = 1 THEN x1 ELSE Convert(Add(x1, One), a)
  IN CSVWrite("%1$s", <<ToJson([f |-> "case", op |-> "-", tc |-> a, tn |-> op2, tl |-> b, lv |-> VS(b)[jj],
                                 x |-> ToDec(x), conv |-> ToDec(cv), sel |-> IF CaseSelects(a, x, vl) THEN 1 ELSE 0,
                                 dz |-> FALSE])>>, IOEnv.OUT)
(* enumerator vectors: first / outer enumerator value v0 (int), operand c : a *)
EmitEnum(ii, jj) ==
  LET v0 == TLCGet(11)["int"][ii]  cc == TLCGet(13)[a][jj] IN
  With(EnumDef(op, v0, a, cc),
       LAMBDA r : r.ok /\ CSVWrite("%1$s", <<ToJson([f |-> "enum", op |-> op, form |-> op2, tc |-> a, v0 |-> TLCGet(12)["int"][ii],
                                                      c |-> TLCGet(14)[a][jj], n |-> ToDec(r.v), m |-> ToDec(r.next),
                                                      dz |-> FALSE])>>, IOEnv.OUT))
(* the value of the assignment expression d = x is the value stored, Convert(x, b), of type b (6.5.16p3),
   whatever kind of object d is; u is what the use prints *)
EmitAsgv(ii) ==
  LET x == TLCGet(15)[a][ii]
      v == Convert(x, b)
      inidx == ~Lt(v, Zero) /\ Lt(v, FromInt(300))
      u == CASE op = "cmp" -> "1"
             [] op = "cond" -> (IF v = Zero THEN "0" ELSE "1")
             [] op = "index" -> ToDecU(64, Add(Mul(v, FromInt(3)), One))       \* tab[i] = 3 i + 1
             [] op = "chain" -> ToDecU(64, Convert(v, c))
             [] OTHER -> ToDecU(64, v)
  IN (op = "index" => inidx)
     /\ CSVWrite("%1$s", <<ToJson([f |-> "asgv", op |-> op, ta |-> a, td |-> b, tc |-> c, xv |-> TLCGet(16)[a][ii],
                                    v |-> ToDec(v), u |-> u, obj |-> ToDecU(64, v), dz |-> FALSE])>>, IOEnv.OUT)
EmitFcmp(ii, jj) ==
  LET x == FV[ii]  y == FV[jj]
      r == IF op = "toint" THEN FToInt(x, b) ELSE IF op = "cond" THEN FCond(x) ELSE FCmp(op, x, y)
  IN r.ok /\ CSVWrite("%1$s", <<ToJson([f |-> "fcmp", op |-> op, tf |-> a, td |-> b, x |-> x.n, y |-> y.n,
                                          t |-> r.t, sz |-> StoreW(r.t) \div 8, sg |-> Sg(r.t),
                                          u |-> ToDecU(64, r.v), s |-> ToDec(r.v), dz |-> FALSE])>>, IOEnv.OUT)
(* a Level A tree as JSON (leaf values as decimal strings) *)
RECURSIVE TJ(_)
TJ(e) ==
  CASE e.k = "leaf" -> [k |-> "leaf", t |-> e.t, v |-> ToDec(e.v)]
    [] e.k = "call" -> [k |-> "call", t |-> e.t, v |-> ToDec(e.v)]
    [] e.k = "fv"   -> [k |-> "fv", t |-> e.t, n |-> e.x.n]
    [] e.k = "un"   -> [k |-> "un", op |-> e.op, a |-> TJ(e.a)]
    [] e.k = "cast" -> [k |-> "cast", t |-> e.t, a |-> TJ(e.a)]
    [] e.k = "comma" -> [k |-> "comma", a |-> TJ(e.a), b |-> TJ(e.b)]
    [] e.k = "bin"  -> [k |-> "bin", op |-> e.op, a |-> TJ(e.a), b |-> TJ(e.b)]
    [] OTHER        -> [k |-> "cond", c |-> TJ(e.c), a |-> TJ(e.a), b |-> TJ(e.b)]
(* fconv: x = the ii-th boundary value of type a; y = x, x + 1, x - 1 *)
FconvTree(ii, jj) ==
  LET X  == TLCGet(19)[a][ii]
      Y  == IF jj = 1 THEN X ELSE IF jj = 2 THEN Add(X, One) ELSE Sub(X, One)
      fx == CastE(b, Leaf(a, X))
      one == Leaf("int", One)   zero == Leaf("int", Zero)
  IN CASE op = "cast"  -> CastE(c, fx)
       [] op = "neg"   -> CastE(c, UnE("neg", fx))
       [] op = "mixed" -> CastE(c, CondE(one, Leaf(a, X), CastE(b, zero)))
       [] op = "chain" -> CastE(c, CastE(op2, fx))
       [] op = "cond"  -> CastE(c, CondE(one, fx, CastE(op2, zero)))
       [] op \in {"add", "sub"} -> CastE(c, BinE(op, fx, CastE(op2, Leaf(a, Y))))
       [] op = "finit" -> CastE(op2, fx)
       [] OTHER        -> BinE(op, fx, IF op2 = "-" THEN Leaf(a, Y) ELSE CastE(op2, Leaf(a, Y)))
EmitFconv(ii, jj) ==
  LET X == TLCGet(19)[a][ii]
      Y == IF jj = 1 THEN X ELSE IF jj = 2 THEN Add(X, One) ELSE Sub(X, One)
  IN InRange(Y, a)
     /\ With(FconvTree(ii, jj), LAMBDA tr : With(Ev(tr), LAMBDA r :
           r.ok /\ CSVWrite("%1$s", <<ToJson([f |-> "fconv", op |-> op, e |-> TJ(tr), ice |-> FALSE,
                                                t |-> r.t, sz |-> StoreW(r.t) \div 8, sg |-> Sg(r.t),
                                                u |-> ToDecU(64, r.v), s |-> ToDec(r.v), dz |-> FALSE])>>, IOEnv.OUT)))
(* vla: NC = the non-constant operand, k = VlaK[ii] : c, k2 = VlaK2[jj] : c, condition b of type op2 *)
VlaTree(ii, jj) ==
  LET kx  == FromInt(VlaK[ii])   ky == FromInt(VlaK2[jj])
      nc  == CASE a = "call" -> CallE("int", kx)
               [] a = "comma" -> CommaE(CallE("int", Zero), Leaf(c, kx))
               [] OTHER -> CommaE(Leaf("int", ky), Leaf(c, kx))
      cnd == IF op2 = "int" THEN Leaf("int", IF b = "1" THEN One ELSE Zero) ELSE FvE(op2, FvByName(b))
  IN CASE op = "top" -> nc
       [] op = "fvcast" -> CastE(c, cnd)
       [] op = "binl" -> BinE(op2, nc, Leaf(c, ky))
       [] op = "binr" -> BinE(op2, Leaf(c, ky), nc)
       [] op = "un" -> IF op2 \in UnOps THEN UnE(op2, nc) ELSE CastE(op2, nc)
       [] op = "condt" -> CondE(cnd, nc, Leaf(c, ky))
       [] op = "conde" -> CondE(cnd, Leaf(c, ky), nc)
       [] op = "land" -> BinE("add", Leaf(c, ky), BinE("land", cnd, nc))
       [] OTHER -> BinE("add", Leaf(c, ky), BinE("lor", cnd, nc))
EmitVla(ii, jj) ==
  With(VlaTree(ii, jj), LAMBDA tr : With(Ev(tr), LAMBDA r :
    r.ok /\ ~Lt(r.v, One) /\ Lt(r.v, FromInt(2001))
    /\ ~(op = "un" /\ op2 = "bool" /\ a = "commac")          \* `char w[(_Bool)(2, 3)]`: gcc 12 dies with an internal error (no oracle)
    /\ (op2 \in FTypes /\ op # "fvcast" => ii = 2)            \* floating conditions: one value of k
    /\ CSVWrite("%1$s", <<ToJson([f |-> "vla", op |-> op, op2 |-> op2, nk |-> a, cnd |-> b, tc |-> c, e |-> TJ(tr),
                                   s |-> ToDec(r.v), calls |-> Effects(tr), ice |-> IsICE(tr), dz |-> FALSE])>>, IOEnv.OUT)))
Emit(ii, jj, kk) == IF fam = "ptr" THEN EmitPtr(ii, jj)
                    ELSE IF fam = "fconv" THEN EmitFconv(ii, jj)
                    ELSE IF fam = "vla" THEN EmitVla(ii, jj)
                    ELSE IF fam = "asgv" THEN EmitAsgv(ii)
                    ELSE IF fam = "fcmp" THEN EmitFcmp(ii, jj)
                    ELSE IF fam = "case" THEN EmitCase(ii, jj)
                    ELSE IF fam = "enum" THEN EmitEnum(ii, jj)
                    ELSE With(Expect(ii, jj, kk), LAMBDA r : EmitR(r, ii, jj, kk))

Init == /\ ph = 0 /\ i = 0 /\ j = 0 /\ k = 0
        /\ \E cs \in Cases : /\ cs[1] \in Fams
                             /\ CasePicked(cs)
                             /\ hb = CaseHash(cs)
                             /\ fam = cs[1] /\ op = cs[2] /\ op2 = cs[3] /\ a = cs[4] /\ b = cs[5] /\ c = cs[6]
Next == /\ ph = 0 /\ ph' = 1
        /\ UNCHANGED <<fam, op, op2, a, b, c, hb>>
        /\ \E ii \in 1..NI, jj \in 1..NJ, kk \in 1..NK :
             /\ Pick(ii, jj, kk)
             /\ Emit(ii, jj, kk)
             /\ i' = ii /\ j' = jj /\ k' = kk
Spec == Init /\ [][Next]_vars
=============================================================================
