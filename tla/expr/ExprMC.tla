------------------------------- MODULE ExprMC -------------------------------
(* C01 / C07 exhaustive design check at scaled widths.

   One initial state per *case* (shape, operator(s), operand types); one
   successor per assignment of operand values.  The invariants compare, in
   every such state and for EVERY garbage pattern in the unused upper register
   half of every operand,
     Level I (ChibiInt: typing + casts + registers + instruction selection,
              and ConstEval = eval2)
   with
     Level A (CInt: C11)
   on the value, on the register invariant (so that the result holds for
   expressions of any depth by induction: an operator's result is again a
   legal operand register), on the stored object, and on the observable type
   (sizeof, signedness).  Sanity theorems about Level A itself guard against
   a vacuous oracle.

   Shapes: bin un cast cond cc (cast chain) ptr (pointer +- integer, p - q, comparisons) | asg (initializer/argument/return/assignment) test
   opasg incdec | d2l d2r d2u (depth 2, boundary values; ConstEval only)
   | fcc fbin fun fcond (C07: conversions between integer and floating types inside a constant expression: cast
     chains through floating types, + - comparisons && || of converted integers, unary operators, ?:)
   | vla (C07: the array / VLA decision on bounds that contain a call, a comma operator, a floating condition)
   | bfinit bfinitf (C07: a static-storage bit-field initialised from an integer / a floating constant).   *)
EXTENDS ChibiInt

CONSTANTS Shapes,       \* which shapes this configuration explores
          D2Types, D2Ops1, D2Ops2,
          SanityBin,    \* TRUE: also the (costly) theorems about binary operators
          OpAsgAll      \* TRUE: op= over all value pairs; FALSE: boundary values (op= is Load + bin + asg, each checked over all values)

VARIABLES sh, op, op2, a, b, c, x, y, z, ph
vars == <<sh, op, op2, a, b, c, x, y, z, ph>>

IncDecKinds == {"preinc", "predec", "postinc", "postdec"}
FBinOps == {"add", "sub", "lt", "gt", "le", "ge", "eq", "ne", "land", "lor"}
FSrc == {"int", "uint", "long", "ulong"}
NCKinds == {"call", "comma", "commac"}      \* f(k) | (f(0), k) | (k2, k)
VlaTypes == {"int", "long", "uchar"}
FvNames == {FV[n].n : n \in 1..Len(FV)}
FvByName(nm) == FV[CHOOSE n \in 1..Len(FV) : FV[n].n = nm]
N1 == {"-"}
Cases ==
  ({"bin"} \X BinOps \X N1 \X Types \X Types \X N1)
  \cup ({"un"} \X UnOps \X N1 \X Types \X N1 \X N1)
  \cup ({"cast"} \X N1 \X N1 \X Types \X Types \X N1)            \* (b) x, x : a
  \cup ({"cond"} \X N1 \X N1 \X Types \X Types \X Types)         \* z:c ? x:a : y:b
  \cup ({"asg"} \X N1 \X N1 \X Types \X Types \X N1)             \* object of type b = x : a
  \cup ({"test"} \X N1 \X N1 \X Types \X N1 \X N1)
  \cup ({"opasg", "aopasg"} \X AsgOps \X N1 \X Types \X Types \X N1)       \* object x : a  op=  y : b  (aopasg: _Atomic a)
  \cup ({"incdec", "aincdec"} \X IncDecKinds \X N1 \X Types \X N1 \X N1)
  \cup ({"fcmp"} \X {"lt", "gt", "le", "ge", "eq", "ne", "land", "lor", "lnot"} \X N1 \X N1 \X N1 \X N1)   \* FV[x] op FV[y]
  \cup ({"case"} \X N1 \X N1 \X Types \X Types \X N1)          \* switch (x : a) { case (y : b): }
  \cup ({"enum"} \X AsgOps \X N1 \X Types \X N1 \X N1)          \* enum { N = x }; { enum { N = N op (y : a), M }; }
  \cup ({"cc"} \X N1 \X N1 \X Types \X Types \X Types)           \* (c)(b) x, x : a   (cast chain)
  \cup ({"ptr"} \X PtrArithOps \X N1 \X Types \X N1 \X N1)         \* &arr[y] + x, x : a
  \cup ({"ptr"} \X PtrRelOps \X N1 \X N1 \X N1 \X N1)              \* &arr[y] - &arr[z], <, ...
  \cup ({"d2l", "d2r"} \X D2Ops1 \X D2Ops2 \X D2Types \X D2Types \X D2Types)
  \cup ({"d2u"} \X D2Ops1 \X (UnOps \cup {"tolong", "tobool"}) \X D2Types \X D2Types \X N1)
  \cup ({"fcc"} \X N1 \X (FTypes \cup N1) \X Types \X FTypes \X (Types \cup FTypes))      \* (c)[(op2)](b) x, x : a
  \cup ({"fbin"} \X FBinOps \X N1 \X FSrc \X FTypes \X (FTypes \cup N1))                 \* (b) x  op  [(c)] y, x, y : a
  \cup ({"fun"} \X {"neg", "pos", "lnot"} \X N1 \X FSrc \X FTypes \X Types)              \* (c) op (b) x
  \cup ({"fcond"} \X N1 \X (FTypes \cup N1) \X FSrc \X FTypes \X N1)                     \* z ? (b) x : [(op2)] y
  \cup ({"vla"} \X {"top"} \X N1 \X NCKinds \X N1 \X VlaTypes)
  \cup ({"vla"} \X {"binl", "binr"} \X {"add", "sub", "mul", "bor", "shl", "lt"} \X NCKinds \X N1 \X VlaTypes)
  \cup ({"vla"} \X {"un"} \X {"pos", "neg", "lnot", "bnot", "long", "uchar", "bool"} \X NCKinds \X N1 \X VlaTypes)
  \cup ({"vla"} \X {"condt", "conde", "land", "lor"} \X {"int"} \X NCKinds \X {"0", "1"} \X VlaTypes)
  \cup ({"vla"} \X {"condt", "conde", "land", "lor"} \X FTypes \X NCKinds \X FvNames \X VlaTypes)
  \cup ({"vla"} \X {"fvcast"} \X FTypes \X N1 \X FvNames \X (VlaTypes \cup {"bool"}))      \* (c) 2.5 : an integer constant expression (6.6p6)
  \cup ({"bfinit"} \X N1 \X N1 \X Types \X Types \X N1)                                 \* static struct { b f : w; } s = { x : a }
  \cup ({"bfinitf"} \X N1 \X N1 \X FTypes \X Types \X N1)                               \* ... = { FV[x] : a }

Bnd(t) == IF t = "-" THEN {0} ELSE {MinV(t), -1, 0, 1, MaxV(t)} \cap Vals(t)
All(t) == IF t = "-" THEN {0} ELSE Vals(t)

Init == /\ ph = 0 /\ x = 0 /\ y = 0 /\ z = 0
        /\ \E cs \in Cases : /\ cs[1] \in Shapes
                             /\ sh = cs[1] /\ op = cs[2] /\ op2 = cs[3] /\ a = cs[4] /\ b = cs[5] /\ c = cs[6]
PtrMax == 2 ^ (WLong - 1) - 1   \* an object is smaller than PTRDIFF_MAX bytes
PtrNOf(s) == PtrMax \div s      \* elements of an array of element size s
PtrSizes == {1, 2, 3}           \* element sizes
PtrBases == {0, 5}              \* address of the array (base + PtrMax < 2^WLong)
Next == /\ ph = 0 /\ ph' = 1
        /\ UNCHANGED <<sh, op, op2, a, b, c>>
        /\ IF sh = "ptr" THEN x' \in All(a) /\ y' \in 0..PtrMax /\ z' \in (IF op \in PtrRelOps THEN 0..PtrMax ELSE {0})
           ELSE IF sh = "cc" THEN x' \in All(a) /\ y' = 0 /\ z' = 0
           ELSE IF sh \in {"d2l", "d2r", "d2u"}
           THEN x' \in Bnd(a) /\ y' \in Bnd(b) /\ z' \in Bnd(c)
           ELSE IF sh = "cond" THEN x' \in Bnd(a) /\ y' \in Bnd(b) /\ z' \in All(c)
           ELSE IF sh = "fcmp" THEN x' \in 1..Len(FV) /\ y' \in 1..Len(FV) /\ z' = 0
           ELSE IF sh = "fbin" THEN x' \in All(a) /\ y' \in ({-1, 1, MaxV(a)} \cap Vals(a)) /\ z' = 0
           ELSE IF sh = "fcond" THEN x' \in All(a) /\ y' \in Bnd(a) /\ z' \in {0, 1}
           ELSE IF sh = "vla" THEN x' \in 1..3 /\ y' \in 1..2 /\ z' = 0
           ELSE IF sh = "bfinitf" THEN x' \in 1..Len(FV) /\ y' = 0 /\ z' = 0
           ELSE IF sh = "case" THEN x' \in All(a) /\ y' \in All(b) /\ z' = 0
           ELSE IF sh = "enum" THEN x' \in Bnd("int") /\ y' \in All(a) /\ z' = 0
           ELSE IF sh \in {"opasg", "aopasg"} /\ ~OpAsgAll THEN x' \in Bnd(a) /\ y' \in Bnd(b) /\ z' = 0
           ELSE IF sh \in {"bin", "opasg", "aopasg"} THEN x' \in All(a) /\ y' \in All(b) /\ z' = 0
           ELSE x' \in All(a) /\ y' = 0 /\ z' = 0
Spec == Init /\ [][Next]_vars

(* ---- Level A and Level I on the current case --------------------------- *)
LA == CASE sh = "bin"    -> Bin(op, a, x, b, y)
        [] sh = "un"     -> Un(op, a, x)
        [] sh = "cast"   -> Cast(b, a, x)
        [] sh = "cond"   -> Cond(z, a, x, b, y)
        [] sh = "asg"    -> AsIf(b, Res(TRUE, a, x))
        [] sh = "test"   -> Test(Res(TRUE, a, x))
        [] sh \in {"opasg", "aopasg"}  -> OpAssign(op, a, x, Res(TRUE, b, y))
        [] sh \in {"incdec", "aincdec"} -> IncDec(op, a, x)
        [] sh = "cc"     -> Cast(c, b, Cast(b, a, x).v)
        [] OTHER -> Bad
Mem(t, v) == U(v, StoreW(t))
LI(g1, g2, g3) ==
  CASE sh = "bin"    -> IBin(op, a, Reg(a, x, g1), b, Reg(b, y, g2))
    [] sh = "un"     -> IUn(op, a, Reg(a, x, g1))
    [] sh = "cast"   -> ICastE(b, a, Reg(a, x, g1))
    [] sh = "cond"   -> ICond(c, Reg(c, z, g3), a, Reg(a, x, g1), b, Reg(b, y, g2))
    [] sh = "asg"    -> IAsIf(b, IR(a, Reg(a, x, g1)))
    [] sh = "test"   -> IR("int", Bool01(CmpZero(a, Reg(a, x, g1))))
    [] sh = "opasg"  -> IOpAssign(op, a, Mem(a, x), IR(b, Reg(b, y, g2)))
    [] sh = "aopasg" -> IOpAssignA(op, a, Mem(a, x), IR(b, Reg(b, y, g2)))
    [] sh = "incdec" -> IIncDec(op, a, Mem(a, x))
    [] sh = "aincdec" -> IIncDecG(TRUE, op, a, Mem(a, x))
    [] sh = "cc"     -> ICastE(c, b, ICastE(b, a, Reg(a, x, g1)).r)
    [] OTHER -> IR("int", 0)
G(t) == IF t = "-" THEN {0} ELSE Garb(t)
Depth1 == sh \in {"bin", "un", "cast", "cond", "asg", "test", "opasg", "incdec", "cc", "aopasg", "aincdec"}

(* the type chibicc gives the expression has the C11 size and signedness (whenever some operand values make it defined) *)
TypeInv == (ph = 1 /\ Depth1) => LET la == LA IN la.ok => TyObs(LI(0, 0, 0).t) = TyObs(la.t)

(* value: the result register is a legal register for the C11 value, and (unsigned long)expr prints it *)
ValueInv ==
  (ph = 1 /\ Depth1) =>
     LET la == LA IN
     la.ok => \A g1 \in G(a), g2 \in G(b), g3 \in G(c) :
                 LET i == LI(g1, g2, g3) IN RegOK(i.t, i.r, la.v) /\ Obs(i) = U(la.v, WL)

(* the object written by an initializer/argument/return/assignment, op= or ++/-- holds the C11 value,
   and loading it back yields a legal register *)
ObjInv ==
  (ph = 1 /\ sh \in {"asg", "opasg", "incdec", "aopasg", "aincdec"}) =>
     LET la == LA IN
     la.ok => \A g1 \in G(a), g2 \in G(b) :
        LET td == IF sh = "asg" THEN b ELSE a
            va == IF sh \in {"incdec", "aincdec"} THEN la.obj ELSE la.v
            m  == IF sh \in {"incdec", "aincdec"} THEN LI(g1, g2, 0).obj ELSE Store(td, LI(g1, g2, 0).r)
        IN m = Mem(td, va) /\ RegOK(td, Load(td, m), va)
LoadInv == (ph = 1 /\ sh = "un") => RegOK(a, Load(a, Mem(a, x)), x)

(* C07: eval2 = C11 on constant expressions (leaves are literals / casts of literals) *)
L(t, v) == Leaf(t, v)
Tree == CASE sh = "bin"  -> BinE(op, L(a, x), L(b, y))
          [] sh = "un"   -> UnE(op, L(a, x))
          [] sh = "cast" -> CastE(b, L(a, x))
          [] sh = "cond" -> CondE(L(c, z), L(a, x), L(b, y))
          [] sh = "cc"   -> CastE(c, CastE(b, L(a, x)))
          [] sh = "d2l"  -> BinE(op2, BinE(op, L(a, x), L(b, y)), L(c, z))
          [] sh = "d2r"  -> BinE(op2, L(c, z), BinE(op, L(a, x), L(b, y)))
          [] sh = "d2u"  -> IF op2 = "tolong" THEN CastE("long", BinE(op, L(a, x), L(b, y)))
                            ELSE IF op2 = "tobool" THEN CastE("bool", BinE(op, L(a, x), L(b, y)))
                            ELSE UnE(op2, BinE(op, L(a, x), L(b, y)))
          [] sh = "fcc"  -> IF op2 = "-" THEN CastE(c, CastE(b, L(a, x))) ELSE CastE(c, CastE(op2, CastE(b, L(a, x))))
          [] sh = "fbin" -> BinE(op, CastE(b, L(a, x)), IF c = "-" THEN L(a, y) ELSE CastE(c, L(a, y)))
          [] sh = "fun"  -> CastE(c, UnE(op, CastE(b, L(a, x))))
          [] sh = "fcond" -> CondE(L("int", z), CastE(b, L(a, x)), IF op2 = "-" THEN L(a, y) ELSE CastE(op2, L(a, y)))
          [] OTHER -> L("int", 0)
ConstInv == (ph = 1 /\ sh \in {"bin", "un", "cast", "cond", "cc", "d2l", "d2r", "d2u", "fcc", "fbin", "fun", "fcond"}) => ConstAgrees(Tree)

(* C07: array bounds that are not (all) constant.  NC = the non-constant operand: a call f(k), `(f(0), k)`, or the
   constant-only comma `(k2, k)`; k = x, k2 = y of type c; cnd = the condition of ?: / left operand of && || *)
NC == CASE a = "call" -> CallE("int", x)
        [] a = "comma" -> CommaE(CallE("int", 0), L(c, x))
        [] OTHER -> CommaE(L("int", y), L(c, x))
Cnd == IF op2 = "int" THEN L("int", IF b = "1" THEN 1 ELSE 0) ELSE FvE(op2, FvByName(b))
VlaTree ==
  CASE op = "top" -> NC
    [] op = "fvcast" -> CastE(c, Cnd)
    [] op = "binl" -> BinE(op2, NC, L(c, y))
    [] op = "binr" -> BinE(op2, L(c, y), NC)
    [] op = "un" -> IF op2 \in UnOps THEN UnE(op2, NC) ELSE CastE(op2, NC)
    [] op = "condt" -> CondE(Cnd, NC, L(c, y))
    [] op = "conde" -> CondE(Cnd, L(c, y), NC)
    [] op = "land" -> BinE("add", L(c, y), BinE("land", Cnd, NC))
    [] OTHER -> BinE("add", L(c, y), BinE("lor", Cnd, NC))
VlaInv == (ph = 1 /\ sh = "vla") => ArrayDecision(VlaTree)

(* C07: a static-storage bit-field member of type b and every width w it can have, initialised with x : a *)
BfWidths(t) == IF t = "bool" THEN {1} ELSE 1..W(t)
BfInv ==
  /\ (ph = 1 /\ sh = "bfinit") =>
        \A w \in BfWidths(b) : LET la == BitFieldInit(b, w, a, x) IN
                                la.ok => BfRead(b, w, BfStore(b, w, L(a, x))) = la.v
  /\ (ph = 1 /\ sh = "bfinitf") =>
        \A w \in BfWidths(b) : LET cv == FToInt(FV[x], b) IN
                                cv.ok => BfRead(b, w, BfStore(b, w, FvE(a, FV[x]))) = (IF b = "bool" THEN cv.v ELSE NWrap(w, Sg(b), cv.v))

(* floating operands of comparisons, !, &&, ||: eval3 folds them to the C11 / IEC 60559 truth value,
   in particular 0 for every ordered comparison with a NaN operand *)
FltInv == (ph = 1 /\ sh = "fcmp") => CEFCmp(op, FV[x], FV[y]) = FCmp(op, FV[x], FV[y]).v

(* switch: the case chibicc's compare selects is the case C11 selects, the label being what eval2 folded
   from a literal of type b (ConstEval), for every controlling value, label value and garbage pattern *)
CaseInv ==
  (ph = 1 /\ sh = "case") =>
    \A g1 \in G(a) : ICaseSelects(a, Reg(a, x, g1), CE(L(b, y)).v) = CaseSelects(a, x, y)
(* enumerators: `enum { N = x }; { enum { N = N op y, M }; }` - the inner N is defined from the OUTER N
   (chibicc: the scope entry is pushed after const_expr; MUT "enumearly" pushes it before, value 0) *)
EnumInv ==
  (ph = 1 /\ sh = "enum") =>
    LET la  == EnumDef(op, x, a, y)
        seen == IF MUT = "enumearly" THEN 0 ELSE x
        c1  == CE(BinE(op, L("int", seen), L(a, y)))
    IN la.ok => /\ S(U(c1.v, WI), WI) = la.v                 \* enum_specifier keeps `int val`
                /\ S(U(c1.v, WI), WI) + 1 = la.next

(* pointers: the address chibicc computes is the address of the element C11 designates, for every
   element size, array address and garbage pattern of the integer operand; p - q and the comparisons
   give the index difference / order *)
PtrInv ==
  (ph = 1 /\ sh = "ptr") =>
    \A s \in PtrSizes, bs \in PtrBases :
      IF y > PtrNOf(s) \/ z > PtrNOf(s) THEN TRUE
      ELSE IF op \in PtrArithOps
      THEN LET la == PtrArith(op, y, x, PtrNOf(s)) IN
           la.ok => \A g1 \in G(a) : IPtrArith(op, bs + y * s, a, Reg(a, x, g1), s) = bs + la.v * s
      ELSE LET la == PtrRel(op, y, z)
               i  == IPtrRel(op, bs + y * s, bs + z * s, s)
           IN TyObs(i.t) = TyObs(la.t) /\ RegOK(i.t, i.r, la.v) /\ Obs(i) = U(la.v, WL)

(* ---- sanity theorems about Level A (not vacuous, not self-contradictory) ---- *)
Commutes == {"add", "mul", "band", "bor", "bxor", "eq", "ne", "land", "lor"}
Mirror(o) == CASE o = "lt" -> "gt" [] o = "gt" -> "lt" [] o = "le" -> "ge" [] o = "ge" -> "le" [] OTHER -> o
SanityInv ==
  ph = 1 =>
  LET LAx == LA IN
  /\ Depth1 /\ LAx.ok => InRange(LAx.v, LAx.t)                                 \* type soundness
  /\ sh = "un" => /\ Convert(x, Promote(a)) = x                             \* promotion preserves the value
                  /\ InRange(x, a) /\ Convert(x, a) = x                     \* conversion is idempotent
                  /\ (op = "lnot" => LAx.v = (IF x = 0 THEN 1 ELSE 0))
  /\ sh = "bin" /\ SanityBin =>
       /\ TyObs(UAC(a, b)) = TyObs(UAC(b, a))                               \* 6.3.1.8 is symmetric
       /\ W(UAC(a, b)) >= WInt
       /\ (op \in Commutes \cup RelOps => LET m == Bin(Mirror(op), b, y, a, x) IN m.ok = LAx.ok /\ (LAx.ok => m.v = LAx.v))
       /\ (op \in RelOps \cup LogOps /\ LAx.ok => LAx.v \in {0, 1})
       /\ (op = "div" /\ LAx.ok =>                                          \* (a/b)*b + a%b = a  (6.5.5p6)
             LET r == Bin("mod", a, x, b, y)  ct == UAC(a, b)
             IN r.ok /\ LAx.v * Convert(y, ct) + r.v = Convert(x, ct))
       /\ (~Sg(UAC(a, b)) /\ op \in {"add", "sub", "mul", "band", "bor", "bxor"} => LAx.ok)   \* unsigned never overflows
  /\ sh \in {"opasg", "aopasg"} => LET r == Bin(op, a, x, b, y)                           \* a op= b  ==  a = (T)(a op b)
                     IN LAx.ok = r.ok /\ (LAx.ok => LAx.v = Cast(a, r.t, r.v).v /\ LAx.t = a)
  /\ sh \in {"incdec", "aincdec"} /\ LAx.ok =>
       /\ (op \in {"postinc", "postdec"} => LAx.v = x)                       \* x++ yields the old value
       /\ (op \in {"preinc", "predec"} => LAx.v = LAx.obj)
       /\ (a = "bool" => LAx.obj = (IF op \in {"preinc", "postinc"} THEN 1 ELSE 1 - x))
       /\ (a # "bool" => LAx.obj = Convert(IF op \in {"preinc", "postinc"} THEN x + 1 ELSE x - 1, a))
=============================================================================
