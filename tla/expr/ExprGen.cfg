SPECIFICATION Spec
CONSTANTS Fams = {"bin","un","cast","cond","init","arg","ret","assign","test","opasg","incdec","d2l","d2r","cc","ccinit","ccarg","ccret","ccassign","ptr","aopasg","aincdec","case","enum","asgv","wrap0","fcmp"}
 Seed = 0
 Stride = 1
 D2Stride = 1
 Base = 1
 D2Base = 8
CHECK_DEADLOCK FALSE
