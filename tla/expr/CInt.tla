-------------------------------- MODULE CInt --------------------------------
(* C01 / C07, Level A: the C11 semantics of integer expressions, written once
   against an abstract integer algebra (the Z* CONSTANT operators) and
   instantiated
     * by CIntN  with TLC's native integers at scaled-down widths
                 (bool=1 char=2 short=3 int=4 long=6|8 bits) for the exhaustive
                 Level I = Level A checks, and
     * by CIntBV with the 128-bit limb arithmetic of lib/BV.tla at the real
                 widths (8/16/32/64) for test-vector generation.
   A Z value is a *mathematical* integer; C's modular behaviour enters only
   through ZWrap.  References are to ISO C11 (N1570).

   Types: the 9 integer types of the property + "enum" (an enumerated type
   with a negative enumerator: compatible with int under gcc and chibicc).
   Plain char is signed (x86-64 psABI).  long long = long (same width, and
   chibicc has no distinct long long).                                      *)
EXTENDS Integers, Sequences

CONSTANTS WChar, WShort, WInt, WLong,          \* widths in bits, WChar < WShort < WInt < WLong
          ZI(_),                               \* a small TLC integer as a Z value
          ZAdd(_, _), ZSub(_, _), ZMul(_, _),  \* exact
          ZDivT(_, _), ZModT(_, _),            \* truncating division (6.5.5p6), divisor # 0
          ZLt(_, _),                           \* signed comparison
          ZAndW(_, _), ZOrW(_, _), ZXorW(_, _),\* bitwise on non-negative operands
          ZPow2(_),                            \* 2^k for a TLC integer k >= 0
          ZShr(_, _),                          \* floor(a / 2^k), k a TLC integer
          ZWrap(_, _, _),                      \* ZWrap(w, sg, a): low w bits of a read as signed/unsigned
          ZToInt(_),                           \* a small Z value as a TLC integer
          ZBitLen(_),                          \* number of significant bits of a Z value >= 0 (0 for 0), a TLC integer
          PFlt, PDbl, PLdbl                    \* significand precisions of float / double / long double (24 / 53 / 64)

Types == {"bool", "char", "uchar", "short", "ushort", "int", "uint", "long", "ulong", "enum"}
W(t) == CASE t = "bool" -> 1
          [] t \in {"char", "uchar"} -> WChar
          [] t \in {"short", "ushort"} -> WShort
          [] t \in {"int", "uint", "enum"} -> WInt
          [] OTHER -> WLong
(* width of the object representation (sizeof * CHAR_BIT); _Bool occupies a char *)
StoreW(t) == IF t = "bool" THEN WChar ELSE IF t = "float" THEN WInt ELSE IF t = "ldouble" THEN 2 * WLong ELSE W(t)
Sg(t) == t \in {"char", "short", "int", "long", "enum", "float", "double", "ldouble"}
(* the floating types.  Only integer-VALUED floating values are modelled (what conversions of integers,
   unary -, + and -, comparisons, ?: and casts make of them), so a floating value is a Z value too. *)
FTypes == {"float", "double", "ldouble"}
IsF(t) == t \in FTypes
Prec(t) == CASE t = "float" -> PFlt [] t = "double" -> PDbl [] OTHER -> PLdbl
FRank(t) == CASE t = "float" -> 1 [] t = "double" -> 2 [] t = "ldouble" -> 3 [] OTHER -> 0
Rank(t) == CASE t = "bool" -> 0
             [] t \in {"char", "uchar"} -> 1
             [] t \in {"short", "ushort"} -> 2
             [] t \in {"int", "uint", "enum"} -> 3
             [] OTHER -> 4
Uns(t) == CASE t \in {"int", "enum"} -> "uint" [] t = "long" -> "ulong" [] OTHER -> t
(* what a program can observe of a type: sizeof and signedness *)
TyObs(t) == <<StoreW(t), Sg(t)>>

Z0 == ZI(0)
Z1 == ZI(1)
ZBool(b) == IF b THEN Z1 ELSE Z0
ZNeg(a) == ZSub(Z0, a)
ZLe(a, b) == a = b \/ ZLt(a, b)

MinV(t) == IF Sg(t) THEN ZNeg(ZPow2(W(t) - 1)) ELSE Z0
MaxV(t) == ZSub(ZPow2(IF Sg(t) THEN W(t) - 1 ELSE W(t)), Z1)
InRange(v, t) == ZLe(MinV(t), v) /\ ZLe(v, MaxV(t))

(* 6.3.1.2, 6.3.1.3.  Out-of-range conversion to a signed type is
   implementation-defined; gcc (and the psABI world) define it as modular. *)
Convert(v, t) == IF t = "bool" THEN ZBool(v # Z0) ELSE ZWrap(W(t), Sg(t), v)

(* 6.3.1.1p2: int represents every value of every type of lower rank here *)
Promote(t) == IF Rank(t) < 3 \/ t = "enum" THEN "int" ELSE t
(* 6.3.1.8 *)
UAC(a0, b0) ==
  LET a == Promote(a0)  b == Promote(b0) IN
  IF a = b THEN a
  ELSE IF Sg(a) = Sg(b) THEN (IF Rank(a) > Rank(b) THEN a ELSE b)
  ELSE LET u == IF Sg(a) THEN b ELSE a
           s == IF Sg(a) THEN a ELSE b
       IN IF Rank(u) >= Rank(s) THEN u
          ELSE IF W(u) < W(s) THEN s       \* s represents all values of u
          ELSE Uns(s)

UnOps    == {"pos", "neg", "bnot", "lnot"}
ArithOps == {"mul", "div", "mod", "add", "sub", "band", "bxor", "bor"}
ShiftOps == {"shl", "shr"}
RelOps   == {"lt", "gt", "le", "ge", "eq", "ne"}
LogOps   == {"land", "lor"}
BinOps   == ArithOps \cup ShiftOps \cup RelOps \cup LogOps
(* the ten compound assignments *)
AsgOps   == {"mul", "div", "mod", "add", "sub", "shl", "shr", "band", "bxor", "bor"}

(* 6.5.3.3, 6.5.5 - 6.5.14 *)
ResultType(op, t1, t2) ==
  CASE op \in ArithOps -> UAC(t1, t2)
    [] op \in ShiftOps -> Promote(t1)
    [] op \in {"pos", "neg", "bnot"} -> Promote(t1)
    [] OTHER -> "int"

Res(ok, t, v) == [ok |-> ok, t |-> t, v |-> v]
Bad == Res(FALSE, "int", Z0)

BitOp(op, t, x, y) ==
  LET ux == ZWrap(W(t), FALSE, x)  uy == ZWrap(W(t), FALSE, y)
      r  == CASE op = "band" -> ZAndW(ux, uy) [] op = "bor" -> ZOrW(ux, uy) [] OTHER -> ZXorW(ux, uy)
  IN ZWrap(W(t), Sg(t), r)

(* ---- integer <-> floating conversions (6.3.1.4, 6.3.1.5; Annex F.3: conversions from integer types
   round to nearest, ties to even - the x86-64 psABI world gcc, clang and chibicc's generated code live in).
   BitLen(m): number of significant bits of m >= 0.  FRound(p, v): the nearest integer with a p-bit
   significand (the exponent range of every floating type exceeds the integers modelled). *)
BitLen(m) == ZBitLen(m)                  \* the k with 2^(k-1) <= m < 2^k
FRound(p, v) ==
  LET neg == ZLt(v, Z0)
      m   == IF neg THEN ZNeg(v) ELSE v
      n   == BitLen(m)
  IN IF n <= p THEN v
     ELSE LET e   == n - p
              q   == ZShr(m, e)
              r   == ZSub(m, ZMul(q, ZPow2(e)))
              h   == ZPow2(e - 1)
              up  == ZLt(h, r) \/ (r = h /\ ZAndW(q, Z1) = Z1)
              res == ZMul(IF up THEN ZAdd(q, Z1) ELSE q, ZPow2(e))
          IN IF neg THEN ZNeg(res) ELSE res
(* conversion of x : t1 to type t *)
ConvG(t, t1, x) ==
  IF IsF(t) THEN Res(TRUE, t, FRound(Prec(t), x))              \* exact when the value is representable (every widening is)
  ELSE IF IsF(t1) THEN (IF t = "bool" THEN Res(TRUE, t, ZBool(x # Z0))                \* 6.3.1.2
                        ELSE Res(InRange(x, t), t, x))          \* 6.3.1.4p1: undefined unless the integral part is representable
  ELSE Res(TRUE, t, Convert(x, t))
(* 6.3.1.8 with floating operands: the widest floating type involved *)
UACG(t1, t2) == IF IsF(t1) \/ IsF(t2) THEN (IF FRank(t1) >= FRank(t2) THEN t1 ELSE t2) ELSE UAC(t1, t2)
(* binary operators with a floating operand: + - (correctly rounded: the exact result rounded once, IEC 60559),
   comparisons (exact), && ||.  Other operators are outside the modelled domain. *)
FBin(op, t1, x, t2, y) ==
  LET ct == UACG(t1, t2)  cx == ConvG(ct, t1, x).v  cy == ConvG(ct, t2, y).v IN
  CASE op = "add" -> Res(TRUE, ct, FRound(Prec(ct), ZAdd(cx, cy)))
    [] op = "sub" -> Res(TRUE, ct, FRound(Prec(ct), ZSub(cx, cy)))
    [] op \in RelOps -> Res(TRUE, "int", ZBool(CASE op = "lt" -> ZLt(cx, cy) [] op = "gt" -> ZLt(cy, cx)
                                                  [] op = "le" -> ZLe(cx, cy) [] op = "ge" -> ZLe(cy, cx)
                                                  [] op = "eq" -> cx = cy [] OTHER -> cx # cy))
    [] op = "land" -> Res(TRUE, "int", ZBool(x # Z0 /\ y # Z0))
    [] op = "lor"  -> Res(TRUE, "int", ZBool(x # Z0 \/ y # Z0))
    [] OTHER -> Bad

(* a binary operator applied to operand values x : t1, y : t2 (each in range of its type) *)
Bin(op, t1, x, t2, y) ==
  IF IsF(t1) \/ IsF(t2) THEN FBin(op, t1, x, t2, y) ELSE
  LET rt == ResultType(op, t1, t2)
      ct == UAC(t1, t2)
  IN
  CASE op \in {"add", "sub", "mul"} ->
         LET cx == Convert(x, ct)  cy == Convert(y, ct)
             m  == CASE op = "add" -> ZAdd(cx, cy) [] op = "sub" -> ZSub(cx, cy) [] OTHER -> ZMul(cx, cy)
         IN Res(Sg(rt) => InRange(m, rt), rt, Convert(m, rt))          \* 6.5p5 signed overflow undefined
    [] op \in {"div", "mod"} ->
         LET cx == Convert(x, ct)  cy == Convert(y, ct) IN
         IF cy = Z0 THEN Bad                                           \* 6.5.5p5
         ELSE IF Sg(rt) /\ cx = MinV(rt) /\ cy = ZNeg(Z1) THEN Bad     \* INT_MIN / -1 and INT_MIN % -1 (6.5.5p6)
         ELSE Res(TRUE, rt, IF op = "div" THEN ZDivT(cx, cy) ELSE ZModT(cx, cy))
    [] op \in {"band", "bxor", "bor"} ->
         Res(TRUE, rt, BitOp(op, rt, Convert(x, ct), Convert(y, ct)))
    [] op \in ShiftOps ->
         LET cx == Convert(x, rt)  cy == Convert(y, Promote(t2)) IN
         IF ZLt(cy, Z0) \/ ~ZLt(cy, ZI(W(rt))) THEN Bad                \* 6.5.7p3
         ELSE LET k == ZToInt(cy) IN
              IF op = "shl"
              THEN LET m == ZMul(cx, ZPow2(k)) IN
                   IF Sg(rt) THEN Res(~ZLt(cx, Z0) /\ InRange(m, rt), rt, m)    \* 6.5.7p4
                   ELSE Res(TRUE, rt, Convert(m, rt))
              ELSE Res(TRUE, rt, ZShr(cx, k))          \* negative >> : implementation-defined, arithmetic (gcc)
    [] op \in RelOps ->
         LET cx == Convert(x, ct)  cy == Convert(y, ct)
             b  == CASE op = "lt" -> ZLt(cx, cy) [] op = "gt" -> ZLt(cy, cx)
                     [] op = "le" -> ZLe(cx, cy) [] op = "ge" -> ZLe(cy, cx)
                     [] op = "eq" -> cx = cy [] OTHER -> cx # cy
         IN Res(TRUE, "int", ZBool(b))
    [] op = "land" -> Res(TRUE, "int", ZBool(x # Z0 /\ y # Z0))
    [] OTHER       -> Res(TRUE, "int", ZBool(x # Z0 \/ y # Z0))

Un(op, t1, x) ==
  IF IsF(t1) THEN (CASE op = "pos" -> Res(TRUE, t1, x) [] op = "neg" -> Res(TRUE, t1, ZNeg(x))
                     [] op = "lnot" -> Res(TRUE, "int", ZBool(x = Z0)) [] OTHER -> Bad) ELSE
  LET rt == ResultType(op, t1, t1)  cx == Convert(x, rt) IN
  CASE op = "pos"  -> Res(TRUE, rt, cx)
    [] op = "neg"  -> LET m == ZNeg(cx) IN Res(Sg(rt) => InRange(m, rt), rt, Convert(m, rt))
    [] op = "bnot" -> Res(TRUE, rt, Convert(ZSub(ZNeg(cx), Z1), rt))      \* ~x = -x-1
    [] OTHER       -> Res(TRUE, "int", ZBool(x = Z0))

Cast(t, t1, x) == ConvG(t, t1, x)
(* c ? y : z  (6.5.15p5) *)
Cond(c, t2, y, t3, z) == LET rt == UACG(t2, t3) IN IF c # Z0 THEN ConvG(rt, t2, y) ELSE ConvG(rt, t3, z)

(* ---- floating operands of operators whose result is an integer (6.5.8p6, 6.5.9p3, 6.5.3.3p5,
   6.5.13-15, 6.3.1.2, 6.3.1.4; IEC 60559: NaN is unordered).  Only the order structure matters, so a
   floating constant is [nan, ord, big, tr]: NaN?, its rank among the constants used (-0 and +0 have
   the same rank 0), magnitude beyond every integer type?, and its value truncated toward zero; lit: the
   harness writes it as a plain floating constant (not as an expression such as -1.5 or 0.0/0.0), so that
   it may be the immediate operand of a cast in an integer constant expression (6.6p6). *)
(* the floating constants used by the model check and the generator (name: see harness/c07.py fconst) *)
FV == << [n |-> "nan",  nan |-> TRUE,  ord |-> 0,    big |-> FALSE, tr |-> 0, lit |-> FALSE],
         [n |-> "ninf", nan |-> FALSE, ord |-> -99,  big |-> TRUE,  tr |-> 0, lit |-> FALSE],
         [n |-> "m1_5", nan |-> FALSE, ord |-> -3,   big |-> FALSE, tr |-> -1, lit |-> FALSE],
         [n |-> "m0",   nan |-> FALSE, ord |-> 0,    big |-> FALSE, tr |-> 0, lit |-> FALSE],
         [n |-> "p0",   nan |-> FALSE, ord |-> 0,    big |-> FALSE, tr |-> 0, lit |-> TRUE],
         [n |-> "p0_5", nan |-> FALSE, ord |-> 1,    big |-> FALSE, tr |-> 0, lit |-> TRUE],
         [n |-> "p2",   nan |-> FALSE, ord |-> 4,    big |-> FALSE, tr |-> 2, lit |-> TRUE],
         [n |-> "big",  nan |-> FALSE, ord |-> 50,   big |-> TRUE,  tr |-> 0, lit |-> TRUE],
         [n |-> "inf",  nan |-> FALSE, ord |-> 99,   big |-> TRUE,  tr |-> 0, lit |-> FALSE] >>
FTruth(x) == x.nan \/ x.ord # 0                       \* compares unequal to 0 (NaN does)
FCmp(op, x, y) ==
  LET un == x.nan \/ y.nan IN
  Res(TRUE, "int", ZBool(
    CASE op = "lt" -> ~un /\ x.ord < y.ord  [] op = "gt" -> ~un /\ x.ord > y.ord
      [] op = "le" -> ~un /\ x.ord <= y.ord [] op = "ge" -> ~un /\ x.ord >= y.ord
      [] op = "eq" -> ~un /\ x.ord = y.ord  [] op = "ne" -> un \/ x.ord # y.ord
      [] op = "land" -> FTruth(x) /\ FTruth(y)
      [] op = "lor"  -> FTruth(x) \/ FTruth(y)
      [] op = "lnot" -> ~FTruth(x)
      [] OTHER       -> FALSE))
FCond(x) == Res(TRUE, "int", IF FTruth(x) THEN ZI(1) ELSE ZI(2))          \* x ? 1 : 2
(* (T)x: _Bool compares with 0; otherwise the truncated value must be representable (else undefined) *)
FToInt(x, td) == IF td = "bool" THEN Res(TRUE, td, ZBool(FTruth(x)))
                 ELSE IF x.nan \/ x.big THEN Bad
                 ELSE Res(InRange(ZI(x.tr), td), td, ZI(x.tr))

(* ---- expression trees ---------------------------------------------------
   [k |-> "leaf", t, v] | [k |-> "un", op, a] | [k |-> "bin", op, a, b]
   | [k |-> "cond", c, a, b] | [k |-> "cast", t, a]
   Ev(e) = [ok, t, v]: defined?, type, value.  All subexpressions must be
   defined (a slightly smaller domain than C's, which lets the unevaluated
   operand of && || ?: be anything).                                        *)
Leaf(t, v) == [k |-> "leaf", t |-> t, v |-> v]
UnE(op, a) == [k |-> "un", op |-> op, a |-> a]
BinE(op, a, b) == [k |-> "bin", op |-> op, a |-> a, b |-> b]
CondE(c, a, b) == [k |-> "cond", c |-> c, a |-> a, b |-> b]
CastE(t, a) == [k |-> "cast", t |-> t, a |-> a]

(* further nodes (C07, array bound / VLA decision and floating constants):
   [k |-> "comma", a, b]   the comma operator (6.5.17): value and type of b, a evaluated first
   [k |-> "call", t, v]    a call of a function returning v : t - not a constant; evaluating it is a side effect
   [k |-> "fv", t, x]      a floating constant of type t whose value is FV's record x (may be NaN, infinite,
                           fractional): only as the condition of ?:, as operand of ! && ||, or as the
                           immediate operand of a cast to an integer type                                 *)
CommaE(a, b) == [k |-> "comma", a |-> a, b |-> b]
CallE(t, v) == [k |-> "call", t |-> t, v |-> v]
FvE(t, x) == [k |-> "fv", t |-> t, x |-> x]

RECURSIVE Ev(_)
(* does the scalar e compare unequal to 0 (6.5.15p4, 6.5.13p3, 6.5.3.3p5) *)
Truth(e) == IF e.k = "fv" THEN FTruth(e.x) ELSE Ev(e).v # Z0
OkE(e) == e.k = "fv" \/ Ev(e).ok
Ev(e) ==
  CASE e.k \in {"leaf", "call"} -> Res(TRUE, e.t, e.v)
    [] e.k = "un"   -> IF e.a.k = "fv" THEN (IF e.op = "lnot" THEN Res(TRUE, "int", ZBool(~FTruth(e.a.x))) ELSE Bad)
                       ELSE LET a == Ev(e.a) IN IF ~a.ok THEN Bad ELSE Un(e.op, a.t, a.v)
    [] e.k = "cast" -> IF e.a.k = "fv" THEN FToInt(e.a.x, e.t)
                       ELSE LET a == Ev(e.a) IN IF ~a.ok THEN Bad ELSE Cast(e.t, a.t, a.v)
    [] e.k = "comma" -> IF ~OkE(e.a) THEN Bad ELSE Ev(e.b)
    [] e.k = "bin"  -> IF e.op \in LogOps /\ (e.a.k = "fv" \/ e.b.k = "fv")
                       THEN (IF ~OkE(e.a) \/ ~OkE(e.b) THEN Bad
                             ELSE Res(TRUE, "int", ZBool(IF e.op = "land" THEN Truth(e.a) /\ Truth(e.b) ELSE Truth(e.a) \/ Truth(e.b))))
                       ELSE LET a == Ev(e.a)  b == Ev(e.b) IN
                            IF ~a.ok \/ ~b.ok THEN Bad ELSE Bin(e.op, a.t, a.v, b.t, b.v)
    [] e.k = "cond" -> LET a == Ev(e.a)  b == Ev(e.b) IN
                       IF ~OkE(e.c) \/ ~a.ok \/ ~b.ok THEN Bad ELSE Cond(ZBool(Truth(e.c)), a.t, a.v, b.t, b.v)
    [] OTHER        -> Bad                                   \* a bare "fv" has no Z value

(* number of function calls the evaluation of e performs: both operands of an ordinary operator, the left
   operand of , && || and the condition of ?: always, the right operand of && / || only if the left one is
   true / false (6.5.13p4, 6.5.14p4), the selected arm of ?: only (6.5.15p4) *)
RECURSIVE Effects(_)
Effects(e) ==
  CASE e.k = "call" -> 1
    [] e.k \in {"leaf", "fv"} -> 0
    [] e.k \in {"un", "cast"} -> Effects(e.a)
    [] e.k = "comma" -> Effects(e.a) + Effects(e.b)
    [] e.k = "bin" -> (IF e.op = "land" THEN Effects(e.a) + (IF Truth(e.a) THEN Effects(e.b) ELSE 0)
                       ELSE IF e.op = "lor" THEN Effects(e.a) + (IF Truth(e.a) THEN 0 ELSE Effects(e.b))
                       ELSE Effects(e.a) + Effects(e.b))
    [] OTHER -> Effects(e.c) + (IF Truth(e.c) THEN Effects(e.a) ELSE Effects(e.b))
(* integer constant expression (6.6p6): integer type; operands integer constants (leaves) and floating
   constants that are the immediate operands of casts; casts only to integer types; no comma operator and
   no function call (6.6p3; the "unless not evaluated" exemption of p3 does not widen p6's list of operands -
   gcc and clang agree: `0 && f()` is folded but is not an integer constant expression) *)
RECURSIVE IsICE(_)
IsICE(e) ==
  CASE e.k = "leaf" -> ~IsF(e.t)
    [] e.k \in {"call", "fv", "comma"} -> FALSE
    [] e.k = "un" -> IsICE(e.a)
    [] e.k = "cast" -> ~IsF(e.t) /\ (IsICE(e.a) \/ (e.a.k = "fv" /\ e.a.x.lit) \/ (e.a.k = "leaf" /\ IsF(e.a.t)))
    [] e.k = "bin" -> IsICE(e.a) /\ IsICE(e.b)
    [] OTHER -> IsICE(e.c) /\ IsICE(e.a) /\ IsICE(e.b)

(* ---- pointers into an array (6.5.6p8-9, 6.5.8p5, 6.5.9p6) --------------
   A pointer value is the index k of the array element it points to, 0 <= k <= n
   (k = n: one past the last element).  The integer operand of + and - contributes
   its *value*, whatever its type (no conversion: an unsigned int >= 2^31 moves
   forward).  p - q has type ptrdiff_t = long; comparisons have type int.
   Result type "ptr" marks a pointer result (value = element index).              *)
PtrArithOps == {"padd", "pradd", "psub"}          \* p + i, i + p, p - i
PtrRelOps   == {"pdiff", "plt", "ple", "pgt", "pge", "peq", "pne"}
PtrArith(op, k, i, n) ==
  LET r == IF op = "psub" THEN ZSub(k, i) ELSE ZAdd(k, i)
  IN Res(ZLe(Z0, r) /\ ZLe(r, n), "ptr", r)       \* 6.5.6p8: otherwise undefined
PtrRel(op, k1, k2) ==
  CASE op = "pdiff" -> Res(TRUE, "long", ZSub(k1, k2))
    [] op = "plt" -> Res(TRUE, "int", ZBool(ZLt(k1, k2)))
    [] op = "ple" -> Res(TRUE, "int", ZBool(ZLe(k1, k2)))
    [] op = "pgt" -> Res(TRUE, "int", ZBool(ZLt(k2, k1)))
    [] op = "pge" -> Res(TRUE, "int", ZBool(ZLe(k2, k1)))
    [] op = "peq" -> Res(TRUE, "int", ZBool(k1 = k2))
    [] OTHER      -> Res(TRUE, "int", ZBool(k1 # k2))

(* ---- switch (6.8.4.2p5): each case label is converted to the promoted type of the controlling
   expression; the case is selected iff it equals the (promoted) controlling value.  The type is that of
   the *enclosing* switch: a nested switch does not change how later labels of the outer one convert. *)
CaseSelects(tc, x, vl) == Convert(x, Promote(tc)) = Convert(vl, Promote(tc))

(* ---- enumerators (6.7.2.2p3, scope 6.2.1p7): an enumeration constant has type int; its scope begins
   just after its own enumerator, so `enum { N = N op c }` in an inner scope refers to the OUTER N.
   EnumDef(op, outer, tc, c): value of N and of the next, implicit enumerator M; both must fit int. *)
EnumDef(op, outer, tc, c) ==
  LET r == Bin(op, "int", outer, tc, c) IN
  [ok |-> r.ok /\ InRange(r.v, "int") /\ InRange(ZAdd(r.v, Z1), "int"), v |-> r.v, next |-> ZAdd(r.v, Z1)]

(* ---- contexts: the implicit conversion each context performs ---------- *)
(* initializer / argument / return / simple assignment (6.5.16.1p2, 6.5.2.2p7, 6.8.6.4p3):
   the value is converted to the destination type; an assignment expression
   has that converted value and the (unqualified) type of the left operand. *)
AsIf(td, r) == IF ~r.ok THEN Bad ELSE Res(TRUE, td, Convert(r.v, td))
(* a static-storage bit-field member `t f : w` initialised with x : t1.  6.7.9p11: as by simple assignment, so
   the value is converted to the type of the member - _Bool: compared with 0 (6.3.1.2), from a floating type:
   truncated (6.3.1.4) -; 6.7.2.1p10: a bit-field is an integer type of the specified width; a value a
   signed bit-field cannot represent wraps (implementation-defined; gcc, clang) *)
BitFieldInit(t, w, t1, x) ==
  LET c == ConvG(t, t1, x) IN
  IF ~c.ok THEN Bad ELSE Res(TRUE, t, IF t = "bool" THEN c.v ELSE ZWrap(w, Sg(t), c.v))
(* controlling expression: compared unequal to 0 *)
Test(r) == IF ~r.ok THEN Bad ELSE Res(TRUE, "int", ZBool(r.v # Z0))
(* E1 op= E2  ==  E1 = E1 op (E2), E1 evaluated once (6.5.16.2p3) *)
OpAssign(op, tl, xl, r) ==
  IF ~r.ok THEN Bad ELSE AsIf(tl, Bin(op, tl, xl, r.t, r.v))
(* ++E == (E += 1); E++ has the old value (6.5.2.4p2, 6.5.3.1p2) *)
IncDec(kind, tl, xl) ==
  LET new == OpAssign(IF kind \in {"preinc", "postinc"} THEN "add" ELSE "sub", tl, xl, Res(TRUE, "int", Z1))
  IN [ok |-> new.ok, t |-> tl, v |-> IF kind \in {"preinc", "predec"} THEN new.v ELSE xl, obj |-> new.v]
=============================================================================
