------------------------------- MODULE CIntBV -------------------------------
(* CInt instantiated with the 128-bit limb integers of lib/BV.tla at the real
   x86-64 widths.  Z values are BV tuples (canonical, so = is equality).    *)
EXTENDS Integers, Sequences, BV

WChar == 8
WShort == 16
WInt == 32
WLong == 64
(* bit length of a non-negative BV: the highest non-zero limb and the bits of that limb *)
BVBitLen(a) == LET hi == FoldLeft(LAMBDA acc, i : IF a[i] # 0 THEN i ELSE acc, 0, Idx)
               IN IF hi = 0 THEN 0
                  ELSE 8 * (hi - 1) + (CHOOSE k \in 1..8 : a[hi] < 2 ^ k /\ a[hi] >= 2 ^ (k - 1))
PFlt == 24
PDbl == 53
PLdbl == 64

INSTANCE CInt WITH ZI <- FromInt, ZAdd <- Add, ZSub <- Sub, ZMul <- Mul, ZDivT <- DivT, ZModT <- ModT,
                   ZLt <- Lt, ZAndW <- BAnd, ZOrW <- BOr, ZXorW <- BXor, ZPow2 <- Pow2, ZShr <- ShrA,
                   ZWrap <- Wrap, ZToInt <- ToInt, ZBitLen <- BVBitLen
=============================================================================
