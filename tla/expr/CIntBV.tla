------------------------------- MODULE CIntBV -------------------------------
(* CInt instantiated with the 128-bit limb integers of lib/BV.tla at the real
   x86-64 widths.  Z values are BV tuples (canonical, so = is equality).    *)
EXTENDS Integers, Sequences, BV

WChar == 8
WShort == 16
WInt == 32
WLong == 64

INSTANCE CInt WITH ZI <- FromInt, ZAdd <- Add, ZSub <- Sub, ZMul <- Mul, ZDivT <- DivT, ZModT <- ModT,
                   ZLt <- Lt, ZAndW <- BAnd, ZOrW <- BOr, ZXorW <- BXor, ZPow2 <- Pow2, ZShr <- ShrA,
                   ZWrap <- Wrap, ZToInt <- ToInt
=============================================================================
