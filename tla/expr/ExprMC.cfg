SPECIFICATION Spec
CONSTANTS WChar = 2
 WShort = 3
 WInt = 4
 WLong = 6
 FIX_D01 = TRUE
 FIX_D02 = TRUE
 FIX_D04 = TRUE
 FIX_D10 = TRUE
 MUT = "none"
 Shapes = {"bin","un","cast","cond","cc","ptr","asg","test","opasg","incdec","aopasg","aincdec","case","enum","fcmp","d2l","d2r","d2u","fcc","fbin","fun","fcond","vla","bfinit","bfinitf"}
 SanityBin = TRUE
 OpAsgAll = TRUE
 D2Types = {"uchar","int","uint","long","ulong"}
 D2Ops1 = {"add","sub","mul","shl","shr","bor","lt"}
 D2Ops2 = {"add","div","shr","lt","land","bxor"}
INVARIANTS TypeInv ValueInv ObjInv LoadInv ConstInv SanityInv PtrInv CaseInv EnumInv FltInv VlaInv BfInv
CHECK_DEADLOCK FALSE
