------------------------------ MODULE TypeTrace -----------------------------
(* C01 trace validation (hook H4, proposed/C01/hook-H4-typing-events.diff).
   Every typing decision add_type took for an arithmetic node in a real
   compile - {"e":"ty","k":op,"l":type,"r":type,"t":type} - must give the node
   the size and signedness C11 prescribes (CInt.ResultType).  Events with a
   non-integer operand ("other": pointers, floating types) are skipped.
   Executions are concatenated with {"e":"reset"} events.                   *)
EXTENDS Integers, Sequences, TLC, Json, IOUtils

C == INSTANCE CIntN WITH WChar <- 8, WShort <- 16, WInt <- 32, WLong <- 64

Tr == ndJsonDeserialize(IOEnv.TRACE)
VARIABLE l
IntTy(t) == t \in C!Types
Expected(e) ==
  CASE e.k = "cond" -> C!UAC(e.l, e.r)
    [] e.k \in {"neg", "bnot", "lnot"} -> C!ResultType(e.k, e.l, e.l)
    [] e.k \in {"lt", "le", "eq", "ne", "land", "lor"} -> "int"
    [] OTHER -> C!ResultType(e.k, e.l, e.r)
Binary(e) == e.k \notin {"neg", "bnot", "lnot"}
Ty == /\ l <= Len(Tr) /\ Tr[l].e = "ty"
      /\ LET e == Tr[l] IN
         (IntTy(e.l) /\ (Binary(e) => IntTy(e.r))) => (IntTy(e.t) /\ C!TyObs(e.t) = C!TyObs(Expected(e)))
      /\ l' = l + 1
Reset == l <= Len(Tr) /\ Tr[l].e = "reset" /\ l' = l + 1
Init == l = 1
Next == Ty \/ Reset
Spec == Init /\ [][Next]_l
=============================================================================
