-------------------------------- MODULE CIntN -------------------------------
(* CInt instantiated with TLC's native integers at scaled-down widths
   (constants WChar < WShort < WInt < WLong, all < 16 bits).               *)
EXTENDS Integers, Sequences, Bitwise
CONSTANTS WChar, WShort, WInt, WLong

NMod(x, w) == ((x % (2 ^ w)) + 2 ^ w) % (2 ^ w)
NWrap(w, sg, a) == LET m == NMod(a, w) IN IF sg /\ m >= 2 ^ (w - 1) THEN m - 2 ^ w ELSE m
NAbs(x) == IF x < 0 THEN -x ELSE x
NDivT(x, y) == LET q == NAbs(x) \div NAbs(y) IN IF (x < 0) # (y < 0) THEN -q ELSE q
NModT(x, y) == x - y * NDivT(x, y)
NId(n) == n
NAdd(a, b) == a + b
NSub(a, b) == a - b
NMul(a, b) == a * b
NLt(a, b) == a < b
NAnd(a, b) == a & b
NOr(a, b) == a | b
NXor(a, b) == a ^^ b
NPow2(k) == 2 ^ k
NShr(a, k) == a \div (2 ^ k)            \* TLC's \div floors, as required

INSTANCE CInt WITH ZI <- NId, ZAdd <- NAdd, ZSub <- NSub, ZMul <- NMul, ZDivT <- NDivT, ZModT <- NModT,
                   ZLt <- NLt, ZAndW <- NAnd, ZOrW <- NOr, ZXorW <- NXor, ZPow2 <- NPow2, ZShr <- NShr,
                   ZWrap <- NWrap, ZToInt <- NId

Vals(t) == MinV(t)..MaxV(t)
=============================================================================
