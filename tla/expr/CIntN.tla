-------------------------------- MODULE CIntN -------------------------------
(* CInt instantiated with TLC's native integers at scaled-down widths
   (constants WChar < WShort < WInt < WLong, all < 16 bits).               *)
EXTENDS Integers, Sequences, Bitwise
CONSTANTS WChar, WShort, WInt, WLong

NMod(x, w) == ((x % (2 ^ w)) + 2 ^ w) % (2 ^ w)
NWrap(w, sg, a) == LET m == NMod(a, w) IN IF sg /\ m >= 2 ^ (w - 1) THEN m - 2 ^ w ELSE m
NAbs(x) == IF x < 0 THEN -x ELSE x
NDivT(x, y) == LET q == NAbs(x) \div NAbs(y) IN IF (x < 0) # (y < 0) THEN -q ELSE q
NModT(x, y) == x - y * NDivT(x, y)
NId(n) == n
NAdd(a, b) == a + b
NSub(a, b) == a - b
NMul(a, b) == a * b
NLt(a, b) == a < b
NAnd(a, b) == a & b
NOr(a, b) == a | b
NXor(a, b) == a ^^ b
NPow2(k) == 2 ^ k
NShr(a, k) == a \div (2 ^ k)            \* TLC's \div floors, as required
(* scaled significand precisions, in the same relation to the integer widths as the real ones:
   float cannot hold every int (24 < 32), double holds every int but not every long (32 <= 53 < 64),
   long double holds every long (64) *)
NBitLen(m) == CHOOSE k \in 0..62 : m < 2 ^ k /\ (k = 0 \/ m >= 2 ^ (k - 1))
PFlt == WInt - 1
PDbl == WLong - 1
PLdbl == WLong

INSTANCE CInt WITH ZI <- NId, ZAdd <- NAdd, ZSub <- NSub, ZMul <- NMul, ZDivT <- NDivT, ZModT <- NModT,
                   ZLt <- NLt, ZAndW <- NAnd, ZOrW <- NOr, ZXorW <- NXor, ZPow2 <- NPow2, ZShr <- NShr,
                   ZWrap <- NWrap, ZToInt <- NId, ZBitLen <- NBitLen

Vals(t) == MinV(t)..MaxV(t)
=============================================================================
