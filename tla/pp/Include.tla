------------------------------ MODULE Include ------------------------------
(* C10, part 2: #include / #include_next resolution and the re-inclusion shortcuts.

   A scenario is a closed little world: a command line (-I / -idirafter options
   over the directories 1..NOpt, optionally -D/-U/-include), a file system
   (directory 0 = the directory of the main file, 1..NOpt = option directories,
   NOpt+1 = the system directory; header `n` is present in the directories
   pres[n] and every copy has the shape shape[n]) and a main file.

   Level A: plain textual inclusion.  #include "n" looks in the including
     file's directory, then in the -I directories, the system directory and the
     -idirafter directories, in that order; #include <n> skips the first step;
     #include_next <n> continues after the position at which the *including
     file* was found (from the beginning if it was not found through the list);
     a file that executed #pragma once is not entered again; nothing else is
     ever skipped.  -D/-U are applied in command-line order before any
     -include file is read; -include files are read before the main file.

   Level I: main.c parse_args (the include_paths array it builds) and
     preprocess.c: the #include / #include_next branches of preprocess2,
     search_include_paths with its file-name cache (filled and consulted only for
     lookups through include_paths, i.e. AFTER the includer's directory has been
     tried for the quote form), search_include_next with
     include_next_idx, include_file with the pragma_once table and the
     include_guards memo fed by detect_include_guard.

   Both are deterministic interpreters over the same line alphabet (the
   conditional directives use Level A of CondIncl in both: chibicc's
   conditional machinery is judged by CondIncl.tla).  A behaviour runs Level A
   to the end, then Level I, then compares: the token streams must be equal.

   The constants GuardAlg / NextAlg / FixIdirArg / FixIdirOrder select between
   the algorithms of the pinned tree and of the proposed repairs (the former
   are the sensitivity controls: TLC must reject them).                      *)
EXTENDS Integers, Sequences, SequencesExt, FiniteSets, TLC, Json, CSV, IOUtils

CONSTANTS Fam,          \* "R1" | "R2" | "C" | "M" | "G" | "P" : scenario family
          NOpt,         \* option directories 1..NOpt
          Seed, Stride, \* scenario i is explored iff (i * 7919 + Seed) % Stride = 0
          GuardAlg,     \* "pinned" | "toknext" | "full"   (detect_include_guard)
          NextAlg,      \* "global" (pinned include_next_idx) | "perfile" (repaired)
          FixIdirArg,   \* FALSE: -idirafter pushes the option string and skips the directory
          FixIdirOrder, \* FALSE: -idirafter directories precede the system directory
          CompDir,      \* "directive": a computed #include is looked up beside the file containing the directive (tree);
                        \* "macro" (control): beside the file in which the macro was defined (the cwd for -D)
          OncePrescan,  \* TRUE (control): a file is marked once-only when it is OPENED if it contains a #pragma once line
                        \* anywhere, even in a group that is skipped
          CacheFirst,   \* TRUE (control): the file-name cache is consulted before the includer's directory
          MaxStack,     \* include depth at which a run is cut off (pinned tree recurses for ever)
          Emit

Sys == NOpt + 1
Dirs == 0..Sys
Names == {"a", "b"}

(* ---- lines -------------------------------------------------------------- *)
Ln(k, x, f) == [k |-> k, x |-> x, f |-> f]
Text(t)     == Ln("text", t, "")
Inc(f, n)   == Ln("inc", n, f)           \* f = "Q" | "A"
IncNext(n)  == Ln("next", n, "")
(* computed includes (6.10.2p4): via "Q" = object-like macro expanding to "n.h", "A" = to <n.h>, "S" = STR(n.h) with
   #define STR(x) #x.  After expansion the directive is processed like the literal form written at that place. *)
DefInc(n, via) == [k |-> "definc", x |-> n, f |-> via]
CInc(n, via)   == [k |-> "cinc", x |-> n, f |-> via]
G(n) == "G_" \o n
Tok(n, d, k) == n \o ToString(d) \o "_" \o ToString(k)

CShapes == {"ciQself", "ciAself", "ciSself", "ciQmain", "ciAmain", "ciSmain", "ciQcmd", "ciAcmd"}
ViaOf(sh) == SubSeq(sh, 3, 3)
SiteOf(sh) == SubSeq(sh, 4, Len(sh))
OShapes == {"onceskip", "onceelse", "oncetaken", "oncenest", "onceopt", "oncenopt"}   \* #pragma once inside a conditional group
Shapes == CShapes \cup OShapes \cup {"plain", "guard", "gtrail", "gnest", "gelse", "gtext", "gself", "once", "oncetrail",
           "next", "incbQ", "incbA", "incbnext"}
(* `last`: this copy is the last one on the search list, so its #include_next is left out *)
Content(n, d, sh, last) ==
  LET T(k) == Text(Tok(n, d, k))
      g == G(n)
      IFN == Ln("ifndef", g, "")
      DFN == Ln("define", g, "")
      END == Ln("endif", "", "")
      IF1 == Ln("if1", "", "")
      ELS == Ln("else", "", "")
  IN CASE sh = "plain"    -> <<T(1)>>
       [] sh = "guard"    -> <<IFN, DFN, T(1), END>>
       [] sh = "gtrail"   -> <<IFN, DFN, T(1), END, T(2), IF1, T(3), END>>
       [] sh = "gnest"    -> <<IFN, DFN, IF1, T(1), END, T(2), END>>
       [] sh = "gelse"    -> <<IFN, DFN, T(1), ELS, T(2), END>>
       [] sh = "gtext"    -> <<T(0), IFN, DFN, T(1), END>>
       [] sh = "gself"    -> <<IFN, DFN, T(1), Ln("undef", g, ""), END>>
       [] sh = "once"     -> <<Ln("once", "", ""), T(1)>>
       [] sh = "oncetrail"-> <<T(0), Ln("once", "", ""), T(1)>>
       \* a #pragma once that is not processed has no effect (Level A); one that is, holds from then on
       [] sh = "onceskip" -> <<T(1), Ln("if0", "", ""), Ln("once", "", ""), END, T(2)>>
       [] sh = "onceelse" -> <<IF1, T(1), ELS, Ln("once", "", ""), END, T(2)>>
       [] sh = "oncetaken"-> <<IF1, Ln("once", "", ""), END, T(1)>>
       [] sh = "oncenest" -> <<IF1, Ln("if0", "", ""), Ln("once", "", ""), END, T(1), END, T(2)>>
       [] sh = "onceopt"  -> <<Ln("ifdef", g, ""), Ln("once", "", ""), END, T(1)>>      \* depends on a macro the includer changes
       [] sh = "oncenopt" -> <<IFN, Ln("once", "", ""), ELS, T(0), END, T(1)>>
       [] sh = "next"     -> IF last THEN <<T(1), T(2)>> ELSE <<T(1), IncNext(n), T(2)>>
       [] sh \in CShapes  -> IF SiteOf(sh) = "self" THEN <<T(1), DefInc("b", ViaOf(sh)), CInc("b", ViaOf(sh)), T(2)>>
                             ELSE <<T(1), CInc("b", ViaOf(sh)), T(2)>>
       [] sh = "incbQ"    -> <<T(1), Inc("Q", "b"), T(2)>>
       [] sh = "incbA"    -> <<T(1), Inc("A", "b"), T(2)>>
       [] sh = "incbnext" -> IF last THEN <<T(1), Inc("A", "b"), T(2)>> ELSE <<T(1), Inc("A", "b"), IncNext(n), T(2)>>

Render(l) ==
  CASE l.k = "text" -> l.x
    [] l.k = "inc" -> IF l.f = "Q" THEN "#include \"" \o l.x \o ".h\"" ELSE "#include <" \o l.x \o ".h>"
    [] l.k = "next" -> "#include_next <" \o l.x \o ".h>"
    [] l.k = "definc" -> (CASE l.f = "Q" -> "#define INC_" \o l.x \o " \"" \o l.x \o ".h\""
                            [] l.f = "A" -> "#define INC_" \o l.x \o " <" \o l.x \o ".h>"
                            [] l.f = "S" -> "#define STR(x) #x")
    [] l.k = "cinc" -> IF l.f = "S" THEN "#include STR(" \o l.x \o ".h)" ELSE "#include INC_" \o l.x
    [] l.k = "ifndef" -> "#ifndef " \o l.x
    [] l.k = "define" -> "#define " \o l.x
    [] l.k = "undef" -> "#undef " \o l.x
    [] l.k = "endif" -> "#endif"
    [] l.k = "if1" -> "#if 1"
    [] l.k = "if0" -> "#if 0"
    [] l.k = "ifdef" -> "#ifdef " \o l.x
    [] l.k = "else" -> "#else"
    [] l.k = "once" -> "#pragma once"

(* ---- scenarios ---------------------------------------------------------- *)
(* sc = [kinds: Seq("I"|"A") (command-line order = directory 1, 2, ...),
         pre: Seq of ["D"|"U"|"inc", name]   (-DG_a, -UG_a, -include a.h; command-line order),
         pres: [Names -> SUBSET Dirs], shape: [Names -> Shapes], main: Seq(line)]     *)
KindSeqs == [1..NOpt -> {"I", "A"}]
SeqsUpTo(S, n) == UNION {[1..k -> S] : k \in 1..n}
NoB == [pres |-> {}, shape |-> "plain"]
Sc(kinds, pre, pa, sa, pb, sb, main) ==
  [kinds |-> kinds, pre |-> pre, pres |-> [n \in Names |-> IF n = "a" THEN pa ELSE pb],
   shape |-> [n \in Names |-> IF n = "a" THEN sa ELSE sb], main |-> main]

MainEnd == Text("END")
ScenariosOf(fam) ==
  CASE fam = "R1" ->    \* one header name, every placement, every search-list shape, included once or twice
         {Sc(k, <<>>, pa, sa, {}, "plain", m \o <<MainEnd>>) :
            k \in KindSeqs, pa \in (SUBSET Dirs) \ {{}}, sa \in {"plain", "next"},
            m \in SeqsUpTo({Inc("Q", "a"), Inc("A", "a")}, 2)}
    [] fam = "R2" ->    \* a header including another one (quote/angle), then continuing with #include_next
         {Sc(k, <<>>, pa, sa, pb, sb, <<m, MainEnd>>) :
            k \in KindSeqs, pa \in (SUBSET Dirs) \ {{}}, sa \in {"incbQ", "incbA", "incbnext"},
            pb \in (SUBSET Dirs) \ {{}}, sb \in {"plain", "next"}, m \in {Inc("Q", "a"), Inc("A", "a")}}
    [] fam = "C" ->     \* a name is first resolved through the search list (filling the file-name cache), then a
                        \* header that may have its own copy beside it asks for it with the quote form - and the reverse order
         {Sc(k, <<>>, pa, "incbQ", pb, "plain", m \o <<MainEnd>>) :
            k \in KindSeqs, pa \in (SUBSET Dirs) \ {{}}, pb \in (SUBSET Dirs) \ {{}},
            m \in {<<Inc(fb, "b"), Inc(fa, "a")>> : fb \in {"Q", "A"}, fa \in {"Q", "A"}}
                  \cup {<<Inc(fa, "a"), Inc(fb, "b")>> : fb \in {"Q", "A"}, fa \in {"Q", "A"}}}
    [] fam = "M" ->     \* computed includes: header a does `#include <macro>` naming b; the macro is defined in a itself,
                        \* in main.c (another directory, which may hold its own b) or by -D (cwd = directory 0)
         {Sc(k, IF SiteOf(sa) = "cmd" THEN << <<"DI", "b", ViaOf(sa)>> >> ELSE <<>>, pa, sa, pb, "plain",
             (IF SiteOf(sa) = "main" THEN <<DefInc("b", ViaOf(sa))>> ELSE <<>>) \o <<Inc(fa, "a"), MainEnd>>) :
            k \in KindSeqs, pa \in (SUBSET Dirs) \ {{}}, pb \in (SUBSET Dirs) \ {{}}, sa \in CShapes, fa \in {"Q", "A"}}
    [] fam = "G" ->     \* guard shapes x every short including program
         {Sc([i \in 1..NOpt |-> "I"], <<>>, {loc}, sa, {}, "plain", m \o <<MainEnd>>) :
            loc \in {0, 1}, sa \in {"plain", "guard", "gtrail", "gnest", "gelse", "gtext", "gself", "once", "oncetrail"} \cup OShapes,
            m \in SeqsUpTo({Inc("Q", "a"), Inc("A", "a"), Ln("undef", G("a"), ""), Ln("define", G("a"), "")}, 3)}
    [] fam = "P" ->     \* -D / -U / -include on the command line, any order
         {Sc([i \in 1..NOpt |-> "I"], p, {1}, sa, {}, "plain", m \o <<MainEnd>>) :
            p \in {q \in {<<>>} \cup SeqsUpTo({<<"D", G("a")>>, <<"U", G("a")>>, <<"inc", "a">>}, 3) :
                    Cardinality({i \in DOMAIN q : q[i][1] = "inc"}) <= 1},
            sa \in {"plain", "guard", "gtrail", "gelse", "once"},
            m \in {<<>>, <<Inc("A", "a")>>, <<Inc("Q", "a"), Inc("A", "a")>>}}
ScSeq == SetToSeq(ScenariosOf(Fam))
Chosen == {i \in DOMAIN ScSeq : (i * 7919 + Seed) % Stride = 0}

(* ---- search lists ------------------------------------------------------- *)
DirsOf(sc, o) == LET idx == SelectSeq([i \in 1..NOpt |-> i], LAMBDA i : sc.kinds[i] = o) IN idx
ListA(sc) == DirsOf(sc, "I") \o <<Sys>> \o DirsOf(sc, "A")
(* parse_args: -I pushes at once; -idirafter collects and appends at the end of parse_args;
   add_default_include_paths runs afterwards (cc1 mode).  -1 = a directory that does not exist *)
ListI(sc) ==
  LET after == IF FixIdirArg THEN DirsOf(sc, "A") ELSE [i \in DOMAIN DirsOf(sc, "A") |-> -1]
  IN IF FixIdirOrder THEN DirsOf(sc, "I") \o <<Sys>> \o after ELSE DirsOf(sc, "I") \o after \o <<Sys>>

Exists(sc, d, n) == d \in sc.pres[n]
IsLast(sc, d, n) == LET l == ListA(sc) IN
  \E p \in DOMAIN l : l[p] = d /\ \A q \in DOMAIN l : q > p => l[q] \notin sc.pres[n]
ContentOf(sc, d, n) == Content(n, d, sc.shape[n], IsLast(sc, d, n))
FileLines(sc, d, n) == IF d = 0 /\ n = "main" THEN sc.main ELSE ContentOf(sc, d, n)
(* first position >= from in list holding n; 0 if none *)
FirstFrom(sc, list, n, from) ==
  LET c == {p \in DOMAIN list : p >= from /\ Exists(sc, list[p], n)}
  IN IF c = {} THEN 0 ELSE CHOOSE p \in c : \A q \in c : p <= q

(* ---- conditional stack (Level A of CondIncl) ---------------------------- *)
AllActive(stk) == \A i \in DOMAIN stk : stk[i].active
Pop(s) == SubSeq(s, 1, Len(s) - 1)
CondStep(stk, mac, l) ==
  LET act == AllActive(stk) IN
  CASE l.k \in {"ifndef", "if1", "if0", "ifdef"} ->
         LET c == act /\ (CASE l.k = "if1" -> TRUE [] l.k = "if0" -> FALSE [] l.k = "ifdef" -> l.x \in mac [] OTHER -> l.x \notin mac)
         IN Append(stk, [taken |-> c, active |-> c])
    [] l.k = "else" -> LET t == stk[Len(stk)] IN
         [stk EXCEPT ![Len(stk)] = [taken |-> TRUE, active |-> AllActive(Pop(stk)) /\ ~t.taken]]
    [] l.k = "endif" -> Pop(stk)

(* ---- detect_include_guard (Level I) ------------------------------------- *)
IsIfLine(l) == l.k \in {"ifndef", "if1", "if0", "ifdef"}
IsDirective(l) == l.k # "text"
(* index of the line after the #endif matching a conditional opened before `i` (skip_cond_incl2) *)
RECURSIVE AfterEndif(_, _, _)
AfterEndif(ls, i, depth) ==
  IF i > Len(ls) THEN i
  ELSE IF IsIfLine(ls[i]) THEN AfterEndif(ls, i + 1, depth + 1)
  ELSE IF ls[i].k = "endif" THEN (IF depth = 0 THEN i + 1 ELSE AfterEndif(ls, i + 1, depth - 1))
  ELSE AfterEndif(ls, i + 1, depth)
(* index of the next #elif/#else/#endif of the conditional opened before `i` (skip_cond_incl) *)
RECURSIVE NextBranch(_, _)
NextBranch(ls, i) ==
  IF i > Len(ls) THEN i
  ELSE IF IsIfLine(ls[i]) THEN NextBranch(ls, AfterEndif(ls, i + 1, 0))
  ELSE IF ls[i].k \in {"else", "endif"} THEN i
  ELSE NextBranch(ls, i + 1)
RECURSIVE Scan(_, _, _)
Scan(ls, i, g) ==     \* the `while (tok->kind != TK_EOF)` loop, one iteration per line
  IF i > Len(ls) THEN ""
  ELSE IF ~IsDirective(ls[i]) THEN Scan(ls, i + 1, g)
  ELSE CASE GuardAlg = "pinned" ->      \* `equal(tok, "if")` is never true for the `#` token
              IF ls[i].k = "endif" /\ i = Len(ls) THEN g ELSE Scan(ls, i + 1, g)
         [] GuardAlg = "toknext" ->     \* tok -> tok->next only: lands on the nested conditional's own #else/#endif
              IF ls[i].k = "endif" /\ i = Len(ls) THEN g
              ELSE IF IsIfLine(ls[i]) THEN Scan(ls, NextBranch(ls, i + 1), g)
              ELSE Scan(ls, i + 1, g)
         [] GuardAlg = "full" ->        \* proposed repair
              IF ls[i].k = "endif" THEN (IF i = Len(ls) THEN g ELSE "")
              ELSE IF ls[i].k = "else" THEN ""
              ELSE IF IsIfLine(ls[i]) THEN Scan(ls, AfterEndif(ls, i + 1, 0), g)
              ELSE Scan(ls, i + 1, g)
DetectGuard(ls) ==
  IF Len(ls) >= 2 /\ ls[1].k = "ifndef" /\ ls[2].k = "define" /\ ls[2].x = ls[1].x
  THEN Scan(ls, 2, ls[1].x) ELSE ""

(* ---- the interpreter ----------------------------------------------------- *)
(* machine = [stack: Seq([d, n, pc, nidx]), cond, mac, once, out, fail,
              cache: name -> [p, nidx] (Level I), idx (Level I, global), memo: <<d,n>> -> guard] *)
Frame(d, n, nidx) == [d |-> d, n |-> n, pc |-> 1, nidx |-> nidx]
Start(sc) ==
  [stack |-> <<>>, cond |-> <<>>, mac |-> {}, once |-> {}, out |-> <<>>, fail |-> "",
   cache |-> <<>>, idx |-> 1, memo |-> <<>>, todo |-> sc.pre, started |-> FALSE,
   mdef |-> 0]     \* directory of the file that defined the include macro (0 = cwd = main directory for -D)

Fail(m, why) == [m EXCEPT !.fail = why, !.stack = <<>>]
Enter(m, d, n, nidx) ==
  IF Len(m.stack) >= MaxStack THEN Fail(m, "depth") ELSE [m EXCEPT !.stack = Append(@, Frame(d, n, nidx))]
Has(f, x) == \E i \in DOMAIN f : f[i][1] = x
Get(f, x) == LET i == CHOOSE i \in DOMAIN f : f[i][1] = x IN f[i][2]
Put(f, x, v) == IF Has(f, x) THEN [i \in DOMAIN f |-> IF f[i][1] = x THEN <<x, v>> ELSE f[i]] ELSE Append(f, <<x, v>>)

(* Level A: resolve and enter *)
IncludeA(sc, m, form, n, curDir, curNidx, isNext) ==
  LET list == ListA(sc)
      local == ~isNext /\ form = "Q" /\ Exists(sc, curDir, n)
      p == FirstFrom(sc, list, n, IF isNext THEN curNidx ELSE 1)
      d == IF local THEN curDir ELSE IF p = 0 THEN -1 ELSE list[p]
  IN IF d = -1 THEN Fail(m, "notfound")
     ELSE IF <<d, n>> \in m.once THEN m
     ELSE Enter(m, d, n, IF local THEN 1 ELSE p + 1)

(* Level I: include_file(tok, path, ...) *)
IncludeFileI(sc, m, d, n, nidx) ==
  IF <<d, n>> \in m.once THEN m                                             \* hashmap_get(&pragma_once, path)
  ELSE IF Has(m.memo, <<d, n>>) /\ Get(m.memo, <<d, n>>) \in m.mac THEN m     \* guard_name && macro defined
  ELSE LET g == DetectGuard(FileLines(sc, d, n))
           m2 == IF g # "" THEN [m EXCEPT !.memo = Put(@, <<d, n>>, g)] ELSE m
           m3 == IF OncePrescan /\ \E i \in DOMAIN FileLines(sc, d, n) : FileLines(sc, d, n)[i].k = "once"
                 THEN [m2 EXCEPT !.once = @ \cup {<<d, n>>}] ELSE m2      \* control: marked when opened, conditionals ignored
       IN Enter(m3, d, n, nidx)

(* search_include_paths(filename): <<position or 0, machine>> *)
SearchI(sc, m, n) ==
  LET list == ListI(sc) IN
  IF Has(m.cache, n)
  THEN LET e == Get(m.cache, n) IN
       <<e.p, IF NextAlg = "perfile" THEN [m EXCEPT !.idx = e.p + 1] ELSE m>>    \* pinned: idx left stale
  ELSE LET p == FirstFrom(sc, list, n, 1) IN
       IF p = 0 THEN <<0, m>>
       ELSE <<p, [m EXCEPT !.cache = Put(@, n, [p |-> p]), !.idx = p + 1]>>

IncludeI(sc, m, form, n, curDir, curNidx, isNext) ==
  LET list == ListI(sc) IN
  IF isNext
  THEN \* search_include_next: pinned = global index, left AT the directory found;
       \* repaired = the including file's own index, the new file continues after its directory
       LET from == IF NextAlg = "perfile" THEN curNidx ELSE m.idx
           p == FirstFrom(sc, list, n, from)
       IN IF p = 0 THEN Fail(m, "notfound")
          ELSE IF NextAlg = "perfile" THEN IncludeFileI(sc, m, list[p], n, p + 1)
          ELSE IncludeFileI(sc, [m EXCEPT !.idx = p], list[p], n, 0)
  ELSE IF CacheFirst /\ Has(m.cache, n)                          \* control: a cached include-path hit wins over the file beside the includer
  THEN LET e == Get(m.cache, n) IN IncludeFileI(sc, m, list[e.p], n, e.p + 1)
  ELSE IF form = "Q" /\ Exists(sc, curDir, n)
  THEN IncludeFileI(sc, m, curDir, n, 1)                       \* includer's directory first: no cache lookup, no cache entry
  ELSE LET r == SearchI(sc, m, n) IN
       IF r[1] = 0 THEN Fail(m, "notfound")
       ELSE IncludeFileI(sc, r[2], list[r[1]], n, r[1] + 1)

(* command line: -D/-U at parse time (in order), -include files afterwards, then the main file *)
PreStep(sc, m, lvl) ==
  LET ds == SelectSeq(m.todo, LAMBDA o : o[1] # "inc")
      is == SelectSeq(m.todo, LAMBDA o : o[1] = "inc")
  IN IF ds # <<>>
     THEN [m EXCEPT !.mac = IF ds[1][1] = "D" THEN @ \cup {ds[1][2]} ELSE IF ds[1][1] = "U" THEN @ \ {ds[1][2]} ELSE @,
                    !.todo = Tail(ds) \o is]
     ELSE IF is # <<>>
     THEN \* cc1(): file_exists(incl) relative to the cwd (= directory 0), else search_include_paths;
          \* must_tokenize_file: no once/guard check.  gcc: cwd, then the #include "..." chain.
          LET n == is[1][2]
              m1 == [m EXCEPT !.todo = Tail(is)]
          IN IF Exists(sc, 0, n) THEN Enter(m1, 0, n, 1)
             ELSE IF lvl = "A"
             THEN LET p == FirstFrom(sc, ListA(sc), n, 1) IN
                  IF p = 0 THEN Fail(m1, "notfound")
                  ELSE IF <<ListA(sc)[p], n>> \in m1.once THEN m1 ELSE Enter(m1, ListA(sc)[p], n, p + 1)
             ELSE LET r == SearchI(sc, m1, n) IN
                  IF r[1] = 0 THEN Fail(m1, "notfound") ELSE Enter(r[2], ListI(sc)[r[1]], n, r[1] + 1)
     ELSE Enter([m EXCEPT !.started = TRUE], 0, "main", 1)

Done(m) == m.fail # "" \/ (m.started /\ m.stack = <<>>)

Step(sc, m, lvl) ==
  IF m.stack = <<>> THEN PreStep(sc, m, lvl)
  ELSE
  LET fr == m.stack[Len(m.stack)]
      ls == FileLines(sc, fr.d, fr.n)
  IN IF fr.pc > Len(ls) THEN [m EXCEPT !.stack = Pop(@)]
     ELSE
     LET l == ls[fr.pc]
         m1 == [m EXCEPT !.stack[Len(m.stack)].pc = @ + 1]
         act == AllActive(m.cond)
     IN CASE l.k \in {"ifndef", "if1", "if0", "ifdef", "else", "endif"} -> [m1 EXCEPT !.cond = CondStep(@, m.mac, l)]
          [] ~act -> m1
          [] l.k = "text" -> [m1 EXCEPT !.out = Append(@, l.x)]
          [] l.k = "define" -> [m1 EXCEPT !.mac = @ \cup {l.x}]
          [] l.k = "undef" -> [m1 EXCEPT !.mac = @ \ {l.x}]
          [] l.k = "once" -> [m1 EXCEPT !.once = @ \cup {<<fr.d, fr.n>>}]
          [] l.k = "definc" -> [m1 EXCEPT !.mdef = fr.d]
          [] l.k = "cinc" ->     \* Level A: exactly like the literal directive written at this place
               LET form == IF l.f = "A" THEN "A" ELSE "Q" IN
               IF lvl = "A" THEN IncludeA(sc, m1, form, l.x, fr.d, fr.nidx, FALSE)
               ELSE IncludeI(sc, m1, form, l.x, IF CompDir = "macro" THEN m.mdef ELSE fr.d, fr.nidx, FALSE)
          [] l.k \in {"inc", "next"} ->
               IF lvl = "A" THEN IncludeA(sc, m1, l.f, l.x, fr.d, fr.nidx, l.k = "next")
               ELSE IncludeI(sc, m1, l.f, l.x, fr.d, fr.nidx, l.k = "next")

VARIABLES sc, A, I, emitted
vars == <<sc, A, I, emitted>>

FilesOf(s) == LET fs == {<<d, n>> \in Dirs \X Names : d \in s.pres[n]} IN
  [i \in DOMAIN SetToSeq(fs) |->
     LET f == SetToSeq(fs)[i] IN [d |-> f[1], n |-> f[2], text |-> [j \in DOMAIN ContentOf(s, f[1], f[2]) |-> Render(ContentOf(s, f[1], f[2])[j])]]]
EmitS ==
  IF Emit /\ A.fail = ""       \* scenarios in which plain inclusion fails are not in the domain
  THEN CSVWrite("%1$s", <<ToJson([fam |-> Fam, kinds |-> sc.kinds, pre |-> sc.pre, files |-> FilesOf(sc),
                                   shape |-> sc.shape["a"] \o "/" \o sc.shape["b"],
                                   main |-> [j \in DOMAIN sc.main |-> Render(sc.main[j])], exp |-> A.out,
                                   nopt |-> NOpt])>>, IOEnv.OUT)
  ELSE TRUE

Init == /\ sc \in {ScSeq[i] : i \in Chosen}
        /\ A = Start(sc) /\ I = Start(sc) /\ emitted = FALSE
Next == \/ /\ ~Done(A) /\ A' = Step(sc, A, "A") /\ UNCHANGED <<sc, I, emitted>>
        \/ /\ Done(A) /\ A.fail = "" /\ ~Done(I) /\ I' = Step(sc, I, "I") /\ UNCHANGED <<sc, A, emitted>>
        \/ /\ Done(A) /\ (Done(I) \/ A.fail # "") /\ ~emitted /\ emitted' = TRUE /\ EmitS /\ UNCHANGED <<sc, A, I>>
Spec == Init /\ [][Next]_vars

-----------------------------------------------------------------------------
(* the shortcuts never change the token stream, and never lose a file *)
SameStream == (Done(A) /\ A.fail = "" /\ Done(I)) => (I.fail = "" /\ I.out = A.out)
(* while both run: Level I never emits something Level A did not *)
Bounded == Len(I.stack) <= MaxStack /\ Len(A.stack) <= MaxStack
(* plain inclusion itself terminates within the bound *)
ATerminates == A.fail # "depth"
=============================================================================
