------------------------------- MODULE Layout -------------------------------
(* C09 (with C10): the LAYOUT of a directive line does not change its meaning.

   Translation phases 2 and 3 (5.1.1.2) run before directives are recognised:
   each backslash-newline is deleted, each comment — also one that spans
   several lines — is replaced by one space (6.4.9).  So a directive keeps
   its extent and its tokens whatever comments and line splices are written
   at its token boundaries, before its `#`, or before its terminating
   newline; and a `#` that follows other tokens on its (logical) line never
   starts a directive, even if a multi-line comment put it first on a
   physical line.

   Level A here is the text-level statement: Phase23(decorated text) has the
   same logical lines of pp-tokens as the plain spelling (LayoutEquivalent,
   checked by TLC for every scenario x boundary x decoration with Lexer.tla's
   Lex).  Every checked text is emitted with the token sequence the plain
   spelling must produce (`want`, fixed per scenario and validated against
   gcc at development time); harness/c09.py replays each one through
   `chibicc -E` in a process and directory of its own.

   Scenarios: #define (object-like, function-like incl. # and ##), #if,
   #elif, #ifdef, #else, #endif, #undef, #include "f", #line, #pragma, a
   definition after ordinary text, and a non-directive line with a `#` in
   the middle.  The boundary between a function-like macro's name and its
   `(` is never decorated (white space there changes the kind of macro).    *)
EXTENDS Lexer, SequencesExt, FiniteSets, Json, CSV, IOUtils

CONSTANTS Seed, Stride, Emit

Scen(pre, dir, glue, post, want) == [pre |-> pre, dir |-> dir, glue |-> glue, post |-> post, want |-> want]
Scenarios == <<
  Scen("", <<"#", "define", "A", "1", "+", "2">>, {}, "A ;\n", "1 + 2 ;"),
  Scen("", <<"#", "define", "F", "(", "x", ")", "(", "(", "x", ")", "*", "2", ")">>, {3}, "F(3) ;\n", "( ( 3 ) * 2 ) ;"),
  Scen("", <<"#", "if", "0", "+", "1">>, {}, "yes\n#else\nno\n#endif\n", "yes"),
  Scen("#if 0\nno\n", <<"#", "elif", "1", "+", "0">>, {}, "yes\n#endif\n", "yes"),
  Scen("#define A 1\n", <<"#", "undef", "A">>, {}, "A ;\n", "A ;"),
  Scen("", <<"#", "include", "\"lay.h\"">>, {}, "after ;\n", "inc_ok after ;"),
  Scen("", <<"#", "line", "100", "\"x.c\"">>, {}, "after ;\n", "after ;"),
  Scen("", <<"#", "pragma", "foo", "bar">>, {}, "after ;\n", "after ;"),
  Scen("#define A 1\n", <<"#", "ifdef", "A">>, {}, "yes\n#else\nno\n#endif\n", "yes"),
  Scen("", <<"#", "define", "G", "(", "x", ",", "y", ")", "x", "##", "y", "#", "x">>, {3}, "G(a,b) ;\n", "ab \"a\" ;"),
  Scen("before ;\n", <<"#", "define", "B", "7">>, {}, "B ;\n", "before ; 7 ;"),
  Scen("#if 1\nyes\n", <<"#", "else">>, {}, "no\n#endif\n", "yes"),
  Scen("#if 1\nyes\n", <<"#", "endif">>, {}, "after ;\n", "yes after ;"),
  Scen("", <<"x", "#", "define", "Q", "1">>, {}, "Q ;\n", "x # define Q 1 Q ;") >>

(* what is written at the chosen boundary instead of the single blank *)
Decos == <<" /* c */ ", "/* c */", " /* c\n   c */ ", "/*a*//* b\nb */", " \\\n ", "/*\n#define Z 9\n*/",
           " /* c */ \\\n /* d\n */ ", " // c">>
LineCommentDeco == 8          \* only before the terminating newline

(* the directive line with `d` at boundary k (0 = before the first token, n = after the last);
   d = "" gives the plain spelling *)
LineText(sc, k, d) ==
  LET n == Len(sc.dir)
      Sep(j) == IF d # "" /\ j = k THEN d ELSE IF j = 0 \/ j = n \/ j \in sc.glue THEN "" ELSE " "
  IN FoldLeft(LAMBDA acc, j : acc \o sc.dir[j] \o Sep(j), Sep(0), [j \in 1..n |-> j])
FileText(sc, k, d) == sc.pre \o LineText(sc, k, d) \o "\n" \o sc.post

(* phase 2: delete every backslash immediately followed by a newline *)
RECURSIVE Splice(_, _, _)
Splice(s, i, acc) == IF i > Len(s) THEN acc
                     ELSE IF Sub(s, i, 2) = "\\\n" THEN Splice(s, i + 2, acc)
                     ELSE Splice(s, i + 1, acc \o Ch(s, i))
(* phase 3 (comments only): every comment becomes one space; literals are copied through *)
RECURSIVE Uncomment(_, _, _)
Uncomment(s, i, acc) ==
  IF i > Len(s) THEN acc
  ELSE IF Sub(s, i, 2) = "/*" THEN (IF BlockEnd(s, i + 2) = 0 THEN acc \o BAD ELSE Uncomment(s, BlockEnd(s, i + 2), acc \o " "))
  ELSE IF Sub(s, i, 2) = "//" THEN Uncomment(s, LineEnd(s, i), acc \o " ")
  ELSE IF Ch(s, i) \in {"\"", "'"} /\ QuoteEnd(s, i + 1, Ch(s, i)) # 0
       THEN Uncomment(s, QuoteEnd(s, i + 1, Ch(s, i)), acc \o SubSeq(s, i, QuoteEnd(s, i + 1, Ch(s, i)) - 1))
  ELSE Uncomment(s, i + 1, acc \o Ch(s, i))
Phase23(s) == Uncomment(Splice(s, 1, ""), 1, "")

(* the non-empty logical lines of a text, each as its pp-token spellings *)
RECURSIVE LinesFrom(_, _, _)
LinesFrom(s, i, acc) ==
  IF i > Len(s) THEN acc
  ELSE LET e == LineEnd(s, i)
           toks == Lex(IF e > i THEN SubSeq(s, i, e - 1) ELSE "")
       IN LinesFrom(s, e + 1, IF toks = <<>> THEN acc ELSE Append(acc, toks))
LinesOf(s) == LinesFrom(s, 1, <<>>)

(* ---- enumeration: (scenario, boundary, decoration), mixed radix *)
ND == Len(Decos)
MaxB == 14                                         \* boundaries 0..13 at most
NCases == Len(Scenarios) * MaxB * ND
Coord(i) == LET j == i - 1 IN [s |-> (j \div (MaxB * ND)) + 1, k |-> (j \div ND) % MaxB, d |-> (j % ND) + 1]
Valid(c) == LET sc == Scenarios[c.s] IN
            /\ c.k <= Len(sc.dir) /\ c.k \notin sc.glue
            /\ (c.d = LineCommentDeco => c.k = Len(sc.dir))

VARIABLES ph, cs
vars == <<ph, cs>>
Init == ph = 0 /\ cs = [s |-> 0, k |-> 0, d |-> 0]
Rec(c) == LET sc == Scenarios[c.s] IN
          [fam |-> "L", id |-> (c.s * MaxB + c.k) * ND + c.d, scen |-> c.s, k |-> c.k, deco |-> c.d,
           text |-> FileText(sc, c.k, Decos[c.d]), plain |-> FileText(sc, c.k, ""), want |-> Lex(sc.want)]
Next == /\ ph = 0 /\ ph' = 1
        /\ \E i \in 1..NCases : /\ (i * 31 + Seed) % Stride = 0
                                /\ Valid(Coord(i))
                                /\ cs' = Coord(i)
                                /\ (IF Emit THEN CSVWrite("%1$s", <<ToJson(Rec(Coord(i)))>>, IOEnv.OUT) ELSE TRUE)
Spec == Init /\ [][Next]_vars

Text(c)  == FileText(Scenarios[c.s], c.k, Decos[c.d])
Plain(c) == FileText(Scenarios[c.s], c.k, "")
(* Level A: after phases 2-3 the decorated text has the logical lines of the plain spelling *)
LayoutEquivalent == ph = 1 => LinesOf(Phase23(Text(cs))) = LinesOf(Plain(cs))
(* the generator writes what it means to: the plain spelling's directive line is the scenario's tokens *)
PlainIsScenario == ph = 1 => \E l \in DOMAIN LinesOf(Plain(cs)) : LinesOf(Plain(cs))[l] = Scenarios[cs.s].dir
(* sensitivity control (Layout_ctl.cfg): reading a newline inside a comment as a line end must be rejected *)
NaiveLines == ph = 1 => LinesOf(Text(cs)) = LinesOf(Plain(cs))
=============================================================================
