SPECIFICATION Spec
CONSTANTS PFix = TRUE
 EmitLex = FALSE
INVARIANTS PrintFaithful PrintAFaithful PairSound
CHECK_DEADLOCK FALSE
