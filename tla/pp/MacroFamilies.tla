--------------------------- MODULE MacroFamilies ---------------------------
(* C09/C19: the closed, enumerated input families of Macro.tla (DESIGN 5 C09).
   A case is [fam, id, defs, inv, want, tag]: macro definitions, the text that is
   macro-replaced (source items = spelling + the white space written before
   it), and for the standard's own examples the result 6.10.3.5 prints.
   Every family is addressed by index (NCasesOf / CaseAt, mixed radix), never
   through set enumeration, so ids are stable across runs and seeds.        *)
EXTENDS Integers, Sequences, SequencesExt, TLC, Printer, DirLines

(* It, Src, MacroDef: DirLines.tla (source items; the reader of directive lines, family F16) *)
Obj(name, body) == MacroDef(name, FALSE, <<>>, FALSE, body)
Fun(name, params, body) == MacroDef(name, TRUE, params, FALSE, body)
FunV(name, params, body) == MacroDef(name, TRUE, params, TRUE, body)
(* tag: the root-cause class of the case (newer families), used in finding signatures *)
CaseT(fam, id, defs, inv, want, tag) == [fam |-> fam, id |-> id, defs |-> defs, inv |-> Src(inv), want |-> want, tag |-> tag]
Case(fam, id, defs, inv, want) == CaseT(fam, id, defs, inv, want, "")

JoinSp(ss) == FoldLeft(LAMBDA a, i : IF a = "" THEN ss[i] ELSE a \o " " \o ss[i], "", [i \in 1..Len(ss) |-> i])
(* text s followed by token b: without white space when the whole still lexes to the tokens of s and then b *)
AdjS(s, b) == IF Lex(s \o b) = Append(Lex(s), b) THEN s \o b ELSE s \o " " \o b
(* a, b written next to each other: without white space when that lexes back to <<a, b>> *)
Adj(a, b) == IF Lex(a \o b) = <<a, b>> THEN a \o b ELSE a \o " " \o b

(* ---- F1: one function-like macro f; every body of <= 3 items; 32 invocation shapes *)
F1Items == <<"x", "y", "#x", "#y", "##", "f", "1", "+", "__VA_ARGS__", "__VA_OPT__(,)", ", ## __VA_ARGS__">>
F1Invs == <<"f(1)", "f()", "f(1,2)", "f(,)", "f(1,)", "f(,2)", "f(1,2,3)", "f(,,)", "f((1,2))", "f((1),2)",
            "f((,),())", "f", "f 1", "f(f)(1)", "f(f(1))", "f(f(1),f(2))", "f(f)", "f(\n1\n)", "f\n(1,\n2)", "f(1 2)",
            "f( 1 + 2 , + )", "f(a b,c  d)", "f(1+2)", "f(\"s\", 'c')", "f(\"a\\\"b\\\\n\")", "f(1)(2)", "f(f(1,2),3)",
            "f((f)(1))", "1 f(2) 3 f(4)", "f(f(f(1)))", "f(,f(2))", "f(,f)(3)">>
NI1 == Len(F1Items)
F1Body(k) ==       \* k in 0 .. 1 + NI1 + NI1^2 + NI1^3 - 1
  IF k = 0 THEN ""
  ELSE IF k <= NI1 THEN F1Items[k]
  ELSE IF k <= NI1 + NI1 * NI1
       THEN LET j == k - NI1 - 1 IN JoinSp(<<F1Items[(j \div NI1) + 1], F1Items[(j % NI1) + 1]>>)
  ELSE LET j == k - NI1 - NI1 * NI1 - 1
       IN JoinSp(<<F1Items[(j \div (NI1 * NI1)) + 1], F1Items[((j \div NI1) % NI1) + 1], F1Items[(j % NI1) + 1]>>)
NB1 == 1 + NI1 + NI1 * NI1 + NI1 * NI1 * NI1
F1Def(shape, body) == IF shape = 0 THEN Fun("f", <<"x">>, body)
                      ELSE IF shape = 1 THEN Fun("f", <<"x", "y">>, body)
                      ELSE FunV("f", <<"x">>, body)
F1Case(i) == LET j == i - 1
                 inv == j % Len(F1Invs)
                 shape == (j \div Len(F1Invs)) % 3
                 body == j \div (3 * Len(F1Invs))
             IN Case("F1", i, <<F1Def(shape, F1Body(body))>>, F1Invs[inv + 1], "")
NF1 == NB1 * 3 * Len(F1Invs)

(* ---- F2: object-like A, B (every body of <= 2 items) + one function-like f: mutual recursion shapes *)
F2Items == <<"A", "B", "f", "1", "(", ")">>
NI2 == Len(F2Items)
F2Body(k) == IF k = 0 THEN "" ELSE IF k <= NI2 THEN F2Items[k]
             ELSE LET j == k - NI2 - 1 IN JoinSp(<<F2Items[(j \div NI2) + 1], F2Items[(j % NI2) + 1]>>)
NB2 == 1 + NI2 + NI2 * NI2
F2FBodies == <<"x", "A x", "f(x) B", "(x)">>
F2Invs == <<"A", "B", "A B", "f(A)", "f(B) A", "A(1)">>
F2Case(i) == LET j == i - 1
                 inv == j % Len(F2Invs)
                 fb == (j \div Len(F2Invs)) % Len(F2FBodies)
                 b == (j \div (Len(F2Invs) * Len(F2FBodies))) % NB2
                 a == j \div (Len(F2Invs) * Len(F2FBodies) * NB2)
             IN Case("F2", i, <<Obj("A", F2Body(a)), Obj("B", F2Body(b)), Fun("f", <<"x">>, F2FBodies[fb + 1])>>,
                     F2Invs[inv + 1], "")
NF2 == NB2 * NB2 * Len(F2FBodies) * Len(F2Invs)

(* ---- F7: hide-set algebra: complete function-like invocations inside nested object-like expansions,
   whose bodies name the enclosing macros (hide sets with two and three names meet at the intersection) *)
F7Items == <<"A", "B", "f(A)", "f(B)", "f(1)", "1">>
NI7 == Len(F7Items)
F7Body(k) == IF k = 0 THEN "" ELSE IF k <= NI7 THEN F7Items[k]
             ELSE LET j == k - NI7 - 1 IN JoinSp(<<F7Items[(j \div NI7) + 1], F7Items[(j % NI7) + 1]>>)
NB7 == 1 + NI7 + NI7 * NI7
F7FBodies == <<"x", "A", "x B", "A B x", "f(x)">>
F7Invs == <<"A", "B", "f(A) B", "f(f(A))">>
F7Case(i) == LET j == i - 1
                 inv == j % Len(F7Invs)
                 fb == (j \div Len(F7Invs)) % Len(F7FBodies)
                 b == (j \div (Len(F7Invs) * Len(F7FBodies))) % NB7
                 a == j \div (Len(F7Invs) * Len(F7FBodies) * NB7)
             IN Case("F7", i, <<Obj("A", F7Body(a)), Obj("B", F7Body(b)), Fun("f", <<"x">>, F7FBodies[fb + 1])>>,
                     F7Invs[inv + 1], "")
NF7 == NB7 * NB7 * Len(F7FBodies) * Len(F7Invs)

(* ---- F8: parameter names and body identifiers that are proper prefixes / extensions of one another
   (find_arg must compare whole spellings): every body of <= 3 items over {x xy xyz #x #xy ## 1} for the
   parameter lists (xy,x) (x,xy) (xyz,x) (x,xyz) *)
F8Items == <<"x", "xy", "xyz", "#x", "#xy", "##", "1">>
NI8 == Len(F8Items)
F8Body(k) ==
  IF k = 0 THEN ""
  ELSE IF k <= NI8 THEN F8Items[k]
  ELSE IF k <= NI8 + NI8 * NI8
       THEN LET j == k - NI8 - 1 IN JoinSp(<<F8Items[(j \div NI8) + 1], F8Items[(j % NI8) + 1]>>)
  ELSE LET j == k - NI8 - NI8 * NI8 - 1
       IN JoinSp(<<F8Items[(j \div (NI8 * NI8)) + 1], F8Items[((j \div NI8) % NI8) + 1], F8Items[(j % NI8) + 1]>>)
NB8 == 1 + NI8 + NI8 * NI8 + NI8 * NI8 * NI8
F8Params == << <<"xy", "x">>, <<"x", "xy">>, <<"xyz", "x">>, <<"x", "xyz">> >>
F8Invs == <<"f(1,2)", "f(a b,)">>
F8Case(i) == LET j == i - 1
                 inv == j % Len(F8Invs)
                 ps == (j \div Len(F8Invs)) % Len(F8Params)
                 body == j \div (Len(F8Invs) * Len(F8Params))
             IN Case("F8", i, <<Fun("f", F8Params[ps + 1], F8Body(body))>>, F8Invs[inv + 1], "")
NF8 == NB8 * Len(F8Params) * Len(F8Invs)

(* ---- F9: ## with an empty operand on one side and, on the other, an argument that is itself an
   invocation of the same macro (directly, or through g): operands of ## are used as written (6.10.3.1),
   so the inner name is found painted at the rescan; pre-expanding the argument gives another result *)
F9Bodies == <<"x ## y", "y ## x", "x ## y x", "[x ## y]", "x ## y ## x", "x y ## x", "x ## y y", "1 x ## y">>
F9Vals == <<"", "a", "f(a,b)", "g(a,b)", "f(,f(a,b))", "g(,a)", "f(f(a,b),)">>
F9Case(i) == LET j == i - 1
                 y == j % Len(F9Vals)
                 x == (j \div Len(F9Vals)) % Len(F9Vals)
                 b == j \div (Len(F9Vals) * Len(F9Vals))
             IN Case("F9", i, <<Fun("f", <<"x", "y">>, F9Bodies[b + 1]), Fun("g", <<"x", "y">>, "f(x,y)")>>,
                     "f(" \o F9Vals[x + 1] \o "," \o F9Vals[y + 1] \o ")", "")
NF9 == Len(F9Bodies) * Len(F9Vals) * Len(F9Vals)

(* ---- F10: # applied to string literals and character constants of every encoding prefix whose
   contents hold \ " ' and escape sequences (6.10.3.2p2: a \ is inserted before each " and \ of a string
   literal or character constant — whatever its prefix) *)
F10StrPre == <<"", "L", "u", "U", "u8">>
F10ChrPre == <<"", "L", "u", "U">>
F10StrBody == <<"a", "\\n", "\\\\", "\\\"", "'", "a\\tb\\\\", "">>
F10ChrBody == <<"a", "\\n", "\\\\", "\\'", "\"">>
F10NS == Len(F10StrPre) * Len(F10StrBody)
F10NC == Len(F10ChrPre) * Len(F10ChrBody)
F10Lit(k) ==       \* k in 0 .. F10NS + F10NC - 1
  IF k < F10NS THEN F10StrPre[(k \div Len(F10StrBody)) + 1] \o "\"" \o F10StrBody[(k % Len(F10StrBody)) + 1] \o "\""
  ELSE LET j == k - F10NS IN F10ChrPre[(j \div Len(F10ChrBody)) + 1] \o "'" \o F10ChrBody[(j % Len(F10ChrBody)) + 1] \o "'"
F10Case(i) == LET j == i - 1
                  lit == F10Lit(j \div 2)
              IN Case("F10", i, <<Fun("S", <<"x">>, "#x"), Fun("XS", <<"x">>, "S(x)")>>,
                      IF j % 2 = 0 THEN "S(" \o lit \o ")" ELSE "XS(1 " \o lit \o "  + " \o lit \o ")", "")
NF10 == 2 * (F10NS + F10NC)

(* ---- F3: arguments that are themselves invocations (complete, or completed late), to depth 2 *)
F3Atoms == <<"1", "f", "E", "g", "LP 1">>
NA3 == Len(F3Atoms)
F3Arg1(k) ==       \* k in 0 .. NA3*4 + NA3*NA3 - 1
  IF k < NA3 THEN F3Atoms[k + 1]
  ELSE IF k < 2 * NA3 THEN "f(" \o F3Atoms[k - NA3 + 1] \o ")"
  ELSE IF k < 3 * NA3 THEN "(" \o F3Atoms[k - 2 * NA3 + 1] \o ")"
  ELSE IF k < 4 * NA3 THEN "ID(" \o F3Atoms[k - 3 * NA3 + 1] \o ")"
  ELSE LET j == k - 4 * NA3 IN "g(" \o F3Atoms[(j \div NA3) + 1] \o "," \o F3Atoms[(j % NA3) + 1] \o ")"
N31 == 4 * NA3 + NA3 * NA3
F3Inv(k) ==        \* k in 0 .. 4*N31 + N31*N31 - 1
  IF k < N31 THEN "f(" \o F3Arg1(k) \o ")"
  ELSE IF k < 2 * N31 THEN "f(f(" \o F3Arg1(k - N31) \o "))"
  ELSE IF k < 3 * N31 THEN "f(ID(" \o F3Arg1(k - 2 * N31) \o "))"
  ELSE IF k < 4 * N31 THEN "f(" \o F3Arg1(k - 3 * N31) \o ")(2)"
  ELSE LET j == k - 4 * N31 IN "g(" \o F3Arg1(j \div N31) \o ", " \o F3Arg1(j % N31) \o ")"
N3I == 4 * N31 + N31 * N31
F3Defs == << <<Fun("f", <<"x">>, "<x>"), Fun("g", <<"x", "y">>, "[x|y]"), Fun("ID", <<"x">>, "x"), Obj("LP", "("), Obj("E", "")>>,
             <<Fun("f", <<"x">>, "g(x,f)"), Fun("g", <<"x", "y">>, "y x"), Fun("ID", <<"x">>, "x"), Obj("LP", "("), Obj("E", "")>>,
             <<Fun("f", <<"x">>, "#x x"), Fun("g", <<"x", "y">>, "x ## y f"), Fun("ID", <<"x">>, "x"), Obj("LP", "("), Obj("E", "")>> >>
F3Case(i) == LET j == i - 1 IN Case("F3", i, F3Defs[(j \div N3I) + 1], F3Inv(j % N3I), "")
NF3 == Len(F3Defs) * N3I

(* ---- F4: # and ## operand matrices *)
F4Ops  == <<"x", "y", "a", "1", "+", "\"s\"", "-", "=", "<", ".", "L">>
F4Vals == <<"", "a", "1", "+", "\"s\"", "-", "a b", "1 +", "f(a,1)", "g(a,1)">>
F4aN == Len(F4Ops) * Len(F4Ops) * Len(F4Vals) * Len(F4Vals)
F4aCase(i, j) == LET y == j % Len(F4Vals)
                     x == (j \div Len(F4Vals)) % Len(F4Vals)
                     r == (j \div (Len(F4Vals) * Len(F4Vals))) % Len(F4Ops)
                     l == j \div (Len(F4Vals) * Len(F4Vals) * Len(F4Ops))
                 IN Case("F4", i, <<Fun("f", <<"x", "y">>, F4Ops[l + 1] \o " ## " \o F4Ops[r + 1]), Fun("g", <<"x", "y">>, "f(x,y)")>>,
                         "f(" \o F4Vals[x + 1] \o "," \o F4Vals[y + 1] \o ")", "")
F4bBodies == <<"x ## y ## z", "p x ## y ## z", "x ## y ## z q", "x y ## z", "x ## y z">>
F4bVals == <<"", "1", "a">>
F4bN == Len(F4bBodies) * 27
F4bCase(i, j) == LET z == j % 3  y == (j \div 3) % 3  x == (j \div 9) % 3  b == j \div 27
                 IN Case("F4", i, <<Fun("f", <<"x", "y", "z">>, F4bBodies[b + 1])>>,
                         "f(" \o F4bVals[x + 1] \o "," \o F4bVals[y + 1] \o "," \o F4bVals[z + 1] \o ")", "")
F4cBodies == <<"#x", "# x", "#x y", "x #y", "#x + #y", "#x ## y", "x ## #y", "L ## #x">>
F4cX == <<"", "a", "a  b", "a+b", "\"s\"", "'c'", "\"a\\\"b\\\\n\"", "'\\''", "a\nb", "  a  ", "(1 , 2)", "L\"s\"">>
F4cY == <<"", "1">>
F4cN == Len(F4cBodies) * Len(F4cX) * Len(F4cY)
F4cCase(i, j) == LET y == j % Len(F4cY)  x == (j \div Len(F4cY)) % Len(F4cX)  b == j \div (Len(F4cY) * Len(F4cX))
                 IN Case("F4", i, <<Fun("f", <<"x", "y">>, F4cBodies[b + 1])>>,
                         "f(" \o F4cX[x + 1] \o "," \o F4cY[y + 1] \o ")", "")
(* ## in object-like macros (6.10.3.3 applies to both kinds) *)
F4dCases == << <<"x ## y", "A">>, <<"1 ## 2 + A", "A">>, <<"B ## 1", "A B1">>, <<"a ## b ## c", "A">>, <<"# x", "A">>, <<". ## 5", "A">> >>
F4dCase(i, j) == Case("F4", i, <<Obj("A", F4dCases[j + 1][1]), Obj("B1", "[b1]")>>, F4dCases[j + 1][2], "")
NF4 == F4aN + F4bN + F4cN + Len(F4dCases)
F4Case(i) == LET j == i - 1 IN
             IF j < F4aN THEN F4aCase(i, j)
             ELSE IF j < F4aN + F4bN THEN F4bCase(i, j - F4aN)
             ELSE IF j < F4aN + F4bN + F4cN THEN F4cCase(i, j - F4aN - F4bN)
             ELSE F4dCase(i, j - F4aN - F4bN - F4cN)

(* ---- F5: the examples of 6.10.3.5 (and 6.10.3.4), with the results the standard prints *)
Ex3Defs == <<Fun("f", <<"a">>, "f(x * (a))"), Obj("x", "2"), Obj("g", "f"), Obj("z", "z[0]"), Obj("h", "g(~"),
             Fun("m", <<"a">>, "a(w)"), Obj("w", "0,1"), Fun("t", <<"a">>, "a"), Fun("p", <<>>, "int"),
             Fun("q", <<"x">>, "x"), Fun("r", <<"x", "y">>, "x ## y"), Fun("str", <<"x">>, "# x")>>
Ex4Defs == <<Fun("str", <<"s">>, "# s"), Fun("xstr", <<"s">>, "str(s)"),
             Fun("debug", <<"s", "t">>, "printf(\"x\" # s \"= %d, x\" # t \"= %s\", x ## s, x ## t)"),
             Fun("INCFILE", <<"n">>, "vers ## n"), Fun("glue", <<"a", "b">>, "a ## b"), Fun("xglue", <<"a", "b">>, "glue(a, b)"),
             Obj("HIGHLOW", "\"hello\""), Obj("LOW", "LOW \", world\"")>>
Ex5Defs == <<Fun("t", <<"x", "y", "z">>, "x ## y ## z")>>
Ex7Defs == <<FunV("debug", <<>>, "fprintf(stderr, __VA_ARGS__)"), FunV("showlist", <<>>, "puts(#__VA_ARGS__)"),
             FunV("report", <<"test">>, "((test)?puts(#test): printf(__VA_ARGS__))")>>
ExHDefs == <<Obj("hash_hash", "# ## #"), Fun("mkstr", <<"a">>, "# a"), Fun("in_between", <<"a">>, "mkstr(a)"),
             Fun("join", <<"c", "d">>, "in_between(c hash_hash d)")>>
VoDefs == <<FunV("F", <<"x">>, "__VA_OPT__(x) | x __VA_OPT__(,) __VA_ARGS__"),
            FunV("G", <<"x">>, "[x __VA_OPT__(__VA_ARGS__ __VA_ARGS__)]"),
            FunV("H", <<"x">>, "f(x __VA_OPT__(,) __VA_ARGS__)")>>
Ex634Defs == <<Fun("f", <<"a">>, "a*g"), Fun("g", <<"a">>, "f(a)")>>
F5Cases == <<
  <<Ex3Defs, "f(y+1) + f(f(z)) % t(t(g)(0) + t)(1);", "f(2 * (y+1)) + f(2 * (f(2 * (z[0])))) % f(2 * (0)) + t(1);">>,
  <<Ex3Defs, "g(x+(3,4)-w) | h 5) & m\n(f)^m(m);", "f(2 * (2+(3,4)-0,1)) | f(2 * (~ 5)) & f(2 * (0,1))^m(0,1);">>,
  <<Ex3Defs, "p() i[q()] = { q(1), r(2,3), r(4,), r(,5), r(,) };", "int i[] = { 1, 23, 4, 5, };">>,
  <<Ex3Defs, "char c[2][6] = { str(hello), str() };", "char c[2][6] = { \"hello\", \"\" };">>,
  <<Ex4Defs, "debug(1, 2);", "printf(\"x\" \"1\" \"= %d, x\" \"2\" \"= %s\", x1, x2);">>,
  <<Ex4Defs, "fputs(str(strncmp(\"abc\\0d\", \"abc\", '\\4')\n == 0) str(: x), s);", "">>,
  <<Ex4Defs, "xstr(INCFILE(2).h)", "\"vers2.h\"">>,
  <<Ex4Defs, "glue(HIGH, LOW);", "\"hello\";">>,
  <<Ex4Defs, "xglue(HIGH, LOW)", "\"hello\" \", world\"">>,
  <<Ex5Defs, "int j[] = { t(1,2,3), t(,4,5), t(6,,7), t(8,9,),\n t(10,,), t(,11,), t(,,12), t(,,) };",
             "int j[] = { 123, 45, 67, 89, 10, 11, 12, };">>,
  <<Ex7Defs, "debug(\"Flag\");", "fprintf(stderr, \"Flag\");">>,
  <<Ex7Defs, "debug(\"X = %d\\n\", x);", "fprintf(stderr, \"X = %d\\n\", x);">>,
  <<Ex7Defs, "showlist(The first, second, and third items.);", "puts(\"The first, second, and third items.\");">>,
  <<Ex7Defs, "report(x>y, \"x is %d but y is %d\", x, y);", "((x>y)?puts(\"x>y\"): printf(\"x is %d but y is %d\", x, y));">>,
  <<ExHDefs, "char p[] = join(x, y);", "char p[] = \"x ## y\";">>,
  <<Ex634Defs, "f(2)(9)", "">>,
  <<Ex5Defs, "t(,,12)", "12">>,
  <<Ex5Defs, "t(,,)", "">>,
  <<Ex5Defs, "a t(,,3) b", "a 3 b">>,
  <<VoDefs, "F(1,2) F(1) G(a,b,c) G(a) G(a,)", "1 | 1 , 2 | 1 [a b,c b,c] [a ] [a ]">>,
  <<VoDefs, "H(1) H(1,2) H(1,2,3)", "f(1 ) f(1 , 2) f(1 , 2,3)">> >>
F5Case(i) == Case("F5", i, F5Cases[i][1], F5Cases[i][2], F5Cases[i][3])
NF5 == Len(F5Cases)

(* ---- F6: dynamic macros: __COUNTER__ is machine state; __LINE__ / __FILE__ print as <LINE> / <FILE> *)
F6Defs == <<Fun("D", <<"x">>, "x x"), Fun("S", <<"x">>, "#x"), Fun("ID", <<"x">>, "x"), Obj("C", "__COUNTER__"),
            Fun("CAT", <<"x", "y">>, "x ## y"), Fun("T", <<"x">>, "x ID(x) x"), Obj("L", "__LINE__"), Fun("XS", <<"x">>, "S(x)"),
            Fun("N", <<"x">>, "[]")>>
F6Invs == <<"__COUNTER__ __COUNTER__", "D(__COUNTER__)", "D(__COUNTER__) __COUNTER__", "ID(__COUNTER__) __COUNTER__", "D(C) C",
            "S(__COUNTER__) __COUNTER__", "XS(__COUNTER__) __COUNTER__", "D(D(__COUNTER__))", "T(__COUNTER__)", "T(C) C",
            "CAT(__COUNTER__, 1) __COUNTER__", "CAT(x, __COUNTER__)", "N(__COUNTER__) __COUNTER__", "D(ID(C)) D(C)",
            "__LINE__", "ID(__LINE__)", "D(__LINE__)", "S(__LINE__)", "XS(__LINE__)", "L", "D(L)", "CAT(__LINE__, 1)",
            "__FILE__", "D(__FILE__)", "S(__FILE__)", "__LINE__ __COUNTER__ __FILE__">>
F6Case(i) == Case("F6", i, F6Defs, F6Invs[i], "")
NF6 == Len(F6Invs)

(* ---- P: every ordered pair of the C19 alphabet in every adjacency context *)
NS == Len(Sigma)
PCtx == 12
(* a newline between two tokens of one argument; a `#` first on a line inside an invocation would be a
   directive there (6.10.3p11: undefined), so that one is written after a blank instead *)
NL(b) == IF b = "#" THEN " " ELSE "\n"
PCase(i) ==
  LET j == i - 1
      c == j % PCtx
      b == Sigma[((j \div PCtx) % NS) + 1]
      a == Sigma[(j \div (PCtx * NS)) + 1]
      ID == Fun("ID", <<"x">>, "x")
  IN CASE c = 0 -> Case("P", i, <<>>, Adj(a, b), "")                                      \* adjacent in the source
       [] c = 1 -> Case("P", i, <<Obj("M", b)>>, Adj(a, "M"), "")                          \* object-like macro starting with b
       [] c = 2 -> Case("P", i, <<Fun("F", <<"x">>, Adj(a, "x"))>>, "F(" \o b \o ")", "")   \* b substituted next to a
       [] c = 3 -> Case("P", i, <<Obj("E", "")>>, Adj(a, "E") \o " " \o b, "")              \* a E b, E empty
       [] c = 4 -> Case("P", i, <<Obj("E", "")>>, a \o " " \o Adj("E", b), "")
       [] c = 5 -> Case("P", i, <<ID>>, "ID(" \o a \o ")ID(" \o b \o ")", "")               \* end of one expansion / start of the next
       [] c = 6 -> Case("P", i, <<ID>>, "ID(" \o a \o ")" \o b, "")
       [] c = 7 -> Case("P", i, <<ID>>, "ID(" \o a \o NL(b) \o b \o ")", "")              \* a, b consecutive tokens of one argument, newline between
       [] c = 8 -> Case("P", i, <<ID, Fun("W", <<"y">>, "[ID(y)]")>>, "W(" \o a \o NL(b) \o b \o ")", "")   \* ... passed on through another macro's replacement
       \* an expansion to NOTHING between two SOURCE tokens, nothing written between them where that lexes:
       [] c = 9 -> Case("P", i, <<Obj("E", "")>>, AdjS(Adj(a, "E"), b), "")                            \* aEb, object-like
       [] c = 10 -> Case("P", i, <<Fun("N", <<"x">>, "")>>, AdjS(Adj(a, "N") \o "(q)", b), "")           \* aN(q)b, function-like
       [] OTHER -> Case("P", i, <<Fun("N", <<>>, ""), Obj("E", "")>>, AdjS(Adj(a, "N") \o "()N()", b) \o "\nE" \o Adj(a, "E"), "")   \* chain of empty expansions; empty expansion first / last on a line
NP == NS * NS * PCtx

NT == Len(Tri)
PTCase(i) ==
  LET j == i - 1
      k == j % 4
      c == Tri[((j \div 4) % NT) + 1]
      b == Tri[((j \div (4 * NT)) % NT) + 1]
      a == Tri[(j \div (4 * NT * NT)) + 1]
  IN IF k = 3 THEN Case("PT", i, <<Obj("E", ""), Fun("N", <<>>, "")>>, AdjS(AdjS(AdjS(Adj(a, "E"), b), "N") \o "()", c), "")   \* aEbN()c
     ELSE IF k = 2 THEN Case("PT", i, <<Fun("ID", <<"x">>, "x")>>, "ID(" \o a \o NL(b) \o b \o NL(c) \o c \o ")", "")
     ELSE IF k = 0 THEN Case("PT", i, <<Fun("ID", <<"x">>, "x")>>, "ID(" \o a \o ")ID(" \o b \o ")ID(" \o c \o ")", "")
     ELSE Case("PT", i, <<Obj("E", "")>>, Adj(a, "E") \o " " \o Adj(b, "E") \o " " \o c, "")
NPT == NT * NT * NT * 4

(* ---- PS: SEQUENCES of two adjacency cases in one file (each case is replayed in a process of its own, so
   nothing but the first pair precedes the second): every ordered pair of (a1,b1),(a2,b2) over
   representatives of the classes the separation decision depends on — last character of a, whether a is
   a pp-number, first character of b.  A printer that carries state from one decision to the next
   (a cache keyed by less than the decision depends on) shows here and nowhere in P/PT. *)
PSA == <<"e", "0xe", "E", "0xE", ".", "1.", "x", "carr@">>
PSB == <<"+", "-", "x", ".", "@t@">>
PSCase(i) == LET j == i - 1
                 b2 == PSB[(j % Len(PSB)) + 1]
                 a2 == PSA[((j \div Len(PSB)) % Len(PSA)) + 1]
                 b1 == PSB[((j \div (Len(PSB) * Len(PSA))) % Len(PSB)) + 1]
                 a1 == PSA[(j \div (Len(PSB) * Len(PSA) * Len(PSB))) + 1]
             IN Case("PS", i, <<Fun("ID", <<"x">>, "x")>>, "ID(" \o a1 \o ")" \o b1 \o " ; ID(" \o a2 \o ")" \o b2, "")
NPS == Len(PSA) * Len(PSB) * Len(PSA) * Len(PSB)

(* ---- F11: the result of ## used further: a pasted pp-number / identifier of every "last character" class
   (hex digits ending in e E, exponent letters e E p P, `.`, digit, letter) followed or preceded by more
   tokens and then stringized through a second macro level, compared, or pasted again *)
F11L == <<"0x", "1", "0xA", "1.", "x", ".">>
F11R == <<"FE", "e", "E", "p", "P", "5", ".", "e5", "z">>
F11Shapes == 4
F11Defs == <<Fun("CAT", <<"a", "b">>, "a##b"), Fun("S", <<"x">>, "#x"), Fun("XS", <<"x">>, "S(x)"), Fun("XCAT", <<"a", "b">>, "CAT(a,b)")>>
F11Case(i) == LET j == i - 1
                  k == j % F11Shapes
                  r == F11R[((j \div F11Shapes) % Len(F11R)) + 1]
                  l == F11L[(j \div (F11Shapes * Len(F11R))) + 1]
                  c == "CAT(" \o l \o "," \o r \o ")"
              IN Case("F11", i, F11Defs,
                      CASE k = 0 -> "XS(" \o c \o " z)"
                        [] k = 1 -> "XS(w " \o c \o ") " \o c \o " + 1"
                        [] k = 2 -> "XS(" \o c \o " + " \o c \o ") ;"
                        [] OTHER -> "XS(XCAT(" \o c \o ",1) z)", "")
NF11 == Len(F11L) * Len(F11R) * F11Shapes

(* ---- F12: a token made by ## is a NEW token: it carries the hide set of the expansion it is made in
   (Prosser: the intersection of its operands' hide sets, united with that of the expansion), not the hide
   set of its left operand — and never none.  The left operand comes out of an earlier expansion and the
   paste re-creates (a) the name of the macro it came from, (b) the name of another macro, (c) the name
   of the macro being expanded (termination). *)
F12Defs == <<Fun("CAT", <<"a", "b">>, "a##b"), Fun("XCAT", <<"a", "b">>, "CAT(a,b)"),
             Obj("N1", "N"), Fun("NEXT", <<"n">>, "XCAT(n,1)"), Obj("AB", "A"), Fun("F", <<"x">>, "CAT(x,B)"),
             Obj("X1", "Y"), Obj("Y2", "ok"), Fun("NEXT2", <<"n">>, "XCAT(n,2)"),
             Fun("GLUE", <<"a", "b">>, "a##b"), Obj("counter", "GLUE(coun, ter)"),
             Fun("checked_add", <<"a", "b">>, "checked_##add((a),(b))"), Fun("SELF", <<"x">>, "CAT(SE,LF)(x)"),
             Obj("OBJ", "OB ## J + 1")>>
F12Invs == <<"NEXT(N1)", "F(AB)", "NEXT2(X1)", "counter", "checked_add(1,2)", "SELF(1)", "XCAT(N1,)", "CAT(N,1)",
             "NEXT(NEXT(N1))", "counter counter", "CAT(coun,ter)", "OBJ", "F(AB) F(AB)", "XCAT(A,B)", "NEXT(N)",
             "checked_add(checked_add(1,2),3)", "SELF(SELF(1))", "GLUE(coun,ter) GLUE(N,1)">>
F12Case(i) == Case("F12", i, F12Defs, F12Invs[i], "")
NF12 == Len(F12Invs)

(* ---- F13: WHITE SPACE AROUND TOKENS THAT MACRO REPLACEMENT MAKES, observed through # one macro level up
   (6.10.3.2p2: each occurrence of white space between the argument's tokens becomes one space — and
   nothing else does).  T is every kind of item that is replaced by something new: the dynamic macros,
   a ## result (first token of its expansion, and in the middle of one), a # result (likewise), an
   object-like and a function-like expansion, an argument with blanks inside its parentheses, items that
   vanish (empty object-like / function-like expansion, empty argument first / last in a replacement list),
   dynamic macros inside replacement lists and as operands.  T is written between a token A and a token B,
   each time with and without a blank before it and after it; the text is stringized through XS, and
   (without blanks) also left as it is. *)
F13Defs == <<FunV("S", <<>>, "#__VA_ARGS__"), FunV("XS", <<>>, "S(__VA_ARGS__)"),       \* (variadic: a replacement may hold a comma)
             Fun("CAT", <<"a", "b">>, "a##b"), Fun("PQ", <<"a", "b">>, "p a##b q"),
             Fun("QS", <<"x">>, "q #x r"), Fun("ID", <<"x">>, "x"), Obj("E", ""), Fun("N", <<"x">>, ""), Obj("OBJ", "o"),
             Fun("G", <<"x">>, "g x"), Fun("H2", <<"x">>, "x h"), Obj("LN", "l __LINE__"), Obj("CT", "__COUNTER__ c"),
             Fun("P2", <<"a", "b">>, "p+a##b"), Fun("Q2", <<"x">>, "q+#x"), Fun("PS", <<"a", "b">>, "p a## #b q"),
             FunV("GC", <<"x">>, "g , ## __VA_ARGS__ h"), FunV("VO", <<"x">>, "v __VA_OPT__(+ x) w")>>
F13T == <<"__LINE__", "__COUNTER__", "__FILE__", "CAT(c,d)", "PQ(c,d)", "S(k)", "QS(k)", "OBJ", "ID(c)", "ID( c )", "E", "N(c)",
          "G()", "H2()", "G(c)", "LN", "CT", "ID(CAT(c,d))", "ID(__LINE__)", "CAT(c,__LINE__)", "CAT(__COUNTER__,d)", "ID()",
          "P2(c,d)", "Q2(k)", "PQ(,d)", "PQ(c,)", "PQ(,)", "PS(c,k)", "PS(,k)", "GC(1,2)", "GC(1, 2)", "GC(1)", "VO(1,2)", "VO(1)">>
F13Tag == <<"dyn", "dyn", "dyn", "paste-first", "paste-param", "strz-first", "strz-mid", "obj", "arg", "arg", "vanish", "vanish",
            "vanish", "vanish", "arg", "dyn", "dyn", "paste-first", "dyn", "paste-first", "paste-first", "vanish",
            "paste-mid", "strz-mid", "placemarker", "placemarker", "placemarker", "placemarker", "placemarker", "gnucomma", "gnucomma", "gnucomma", "vaopt", "vaopt">>
ASSUME Len(F13Tag) = Len(F13T)
F13A == <<"]", "+">>          \* (punctuators: every A, T, B lexes apart also when nothing is written between them)
F13B == <<"", "[", "+">>
F13Sep == <<"", " ">>
F13NStr == Len(F13A) * 2 * Len(F13T) * 2 * Len(F13B)
F13Text(j) == LET b == F13B[(j % Len(F13B)) + 1]
                  s2 == F13Sep[((j \div Len(F13B)) % 2) + 1]
                  t == F13T[((j \div (2 * Len(F13B))) % Len(F13T)) + 1]
                  s1 == F13Sep[((j \div (2 * Len(F13B) * Len(F13T))) % 2) + 1]
                  a == F13A[(j \div (4 * Len(F13B) * Len(F13T))) + 1]
              IN a \o s1 \o t \o s2 \o b
F13TagOf(j) == F13Tag[((j \div (2 * Len(F13B))) % Len(F13T)) + 1]
F13Case(i) == LET j == i - 1 IN
              IF j < F13NStr THEN CaseT("F13", i, F13Defs, "XS(" \o F13Text(j) \o ")", "", F13TagOf(j))
              ELSE LET k == j - F13NStr        \* not stringized, nothing written between A, T and B
                       b == F13B[(k % Len(F13B)) + 1]
                       t == F13T[((k \div Len(F13B)) % Len(F13T)) + 1]
                       a == F13A[(k \div (Len(F13B) * Len(F13T))) + 1]
                   IN CaseT("F13", i, F13Defs, "{" \o a \o t \o b \o "}", "", F13Tag[((k \div Len(F13B)) % Len(F13T)) + 1])
NF13 == F13NStr + Len(F13A) * Len(F13T) * Len(F13B)

(* ---- F14: # applied to the pp-token category "other" (6.4p1): a backslash that is not part of a string
   literal or character constant is copied as it is (6.10.3.2p2 inserts a \ only INSIDE those), alone and
   next to literals that do need the escapes; the last four give no valid string literal (undefined) *)
F14Args == <<"\\n", "\\\\", "a\\tb", "\\x41", "\\0", ": \\n", "\\n \"\\n\" '\\\\' \\t", "(\\n)", "\\", "\\q", "\\ n", "x\\">>
F14Case(i) == LET j == i - 1
                  a == F14Args[(j \div 2) + 1]
              IN CaseT("F14", i, <<Fun("S", <<"x">>, "#x"), Fun("XS", <<"x">>, "S(x)")>>,
                       IF j % 2 = 0 THEN "S(" \o a \o ")" ELSE "XS(1 " \o a \o " + " \o a \o ")", "", "strz-backslash")
NF14 == 2 * Len(F14Args)

(* ---- F15: macro replacement that PRODUCES a `#` first on a line, followed by every directive name
   (6.10.3.4p3: "the resulting completely macro-replaced preprocessing token sequence is not processed as a
   preprocessing directive even if it resembles one").  The # comes from an object-like macro, a
   function-like macro (through the object-like one: a # in its own list must precede a parameter), an argument, a replacement list that holds the whole would-be directive, or is
   written in the source behind an expansion to nothing; the line stands at the top level, inside an
   argument that is stringized, and inside an argument that is not.  X is not a macro, Y is. *)
F15Tails == <<"define X 1", "undef Y", "include \"q.h\"", "if 0", "ifdef X", "ifndef Y", "else", "elif 1", "endif", "line 77",
              "pragma once", "error e", "", "7 \"f.c\"", "foo">>
F15Starts == <<"H", "HF()", "ID(#)", "HT", "E #">>
F15Case(i) == LET j == i - 1
                  ctx == j % 3
                  st == F15Starts[((j \div 3) % Len(F15Starts)) + 1]
                  tl == F15Tails[(j \div (3 * Len(F15Starts))) + 1]
                  line == IF st = "HT" THEN "HT" ELSE IF tl = "" THEN st ELSE st \o " " \o tl
              IN CaseT("F15", i, <<Obj("H", "#"), Fun("HF", <<>>, "H"), Fun("ID", <<"x">>, "x"), Obj("HT", "# " \o tl), Obj("E", ""),
                                  Fun("S", <<"x">>, "#x"), Fun("XS", <<"x">>, "S(x)"), Obj("Y", "y")>>,
                      CASE ctx = 0 -> "\n" \o line \o "\nX Y"
                        [] ctx = 1 -> "XS(\n" \o line \o "\nX Y)"
                        [] OTHER -> "ID(a\n" \o line \o "\nX Y)", "", "hash-first-on-line")
NF15 == 3 * Len(F15Starts) * Len(F15Tails)

(* ---- F16: WHERE A DIRECTIVE ENDS (DirLines.tla): every directive scenario with a new-line written at every
   token boundary of the directive line, the rest of the would-be directive starting the next line (at column 0
   or after a blank), at the top level / in a processed group / in a skipped group.  The Level A reader of
   DirLines.tla turns the text into definitions + text lines (6.10p2: the directive is ended by the new-line);
   the machine replaces the text lines.  A case carries its text verbatim (`text`) and the reader's verdict
   (`dcls`: "bad" = a diagnostic is required). *)
F16Case(i) == LET c == DCoord(i)
                  ok == DValid(c)
                  sc == DScen[c.s]
                  text == IF ok THEN DText(c) ELSE ""
                  r == IF ok THEN ReadText(text) ELSE SetCls(R0, "excluded")
              IN [fam |-> "F16", id |-> i, defs |-> r.defs, inv |-> r.inv, want |-> "",
                  tag |-> "dirend:" \o (IF sc.dir[1] = "#" THEN sc.dir[2] ELSE "text") \o ":k" \o ToString(c.k),
                  text |-> text, dcls |-> r.cls]
NF16 == NDir

(* ---- F17: HIDE SETS OF THREE AND MORE NAMES THAT DIFFER BETWEEN THE MACRO NAME AND THE CLOSING PARENTHESIS.
   The name g of the invocation `g (1)` and its parentheses reach each other by different routes: the name comes
   out of an object-like macro (N), is handed on as an argument once or twice (ID(..), the parameter x of the
   host), or is written as it is; the parentheses are written in the host's replacement list or behind the
   host's invocation (and then perhaps handed through ID together with the host).  So the two hide sets share
   some names and the name's has others BEFORE, BETWEEN and AFTER the shared ones (the order in which the names
   were added).  g's replacement list probes every macro on the routes (N, ID(2), the host), so each member
   of the hide set of the expansion is observable.  6.10.3.4p4 allows two hide sets at each such invocation
   (the name's own, or its intersection with the parenthesis'); anything else - a name of the intersection
   forgotten, a name kept that only SOME of the name's expansions contribute - shows as a third result. *)
F17NameW == <<"g", "N", "ID(g)", "ID(N)", "ID(ID(N))">>
F17NameC == <<"x", "ID(x)", "ID(ID(x))", "ID(N)", "N">>
F17Paren == <<" (1)", "">>
F17Args == <<"g", "N", "ID(N)">>
F17Case(i) == LET j == i - 1
                  k == j % 3                               \* how the host is invoked
                  p == F17Paren[((j \div 3) % 2) + 1]
                  n == ((j \div 6) % 5) + 1
                  h == j \div 30                           \* 0: object-like host W; 1..3: function-like host C(x) with argument F17Args[h]
                  host == IF h = 0 THEN "W" ELSE "C(" \o F17Args[h] \o ")"
                  hdef == IF h = 0 THEN Obj("W", F17NameW[n] \o p) ELSE Fun("C", <<"x">>, F17NameC[n] \o p)
                  probe == IF h = 0 THEN "W" ELSE "C(3)"
              IN CaseT("F17", i, <<Obj("N", "g"), Fun("ID", <<"x">>, "x"), Fun("g", <<"a">>, "[a N ID(2) " \o probe \o "]"), hdef>>,
                       CASE k = 0 -> host [] k = 1 -> host \o " (1)" [] OTHER -> "ID(" \o host \o ") (1)", "", "hs-routes")
NF17 == 4 * 5 * 2 * 3

(* FS: the small families that are always run completely, enumerated by one TLC run;
   FD: the same for the two families with dynamic macros (one order of argument pre-expansion only) *)
NFS == NF5 + NF9 + NF10 + NF11 + NF12 + NF14 + NF15 + NF16 + NF17
FSCase(i) == IF i <= NF5 THEN F5Case(i) ELSE IF i <= NF5 + NF9 THEN F9Case(i - NF5)
             ELSE IF i <= NF5 + NF9 + NF10 THEN F10Case(i - NF5 - NF9)
             ELSE IF i <= NF5 + NF9 + NF10 + NF11 THEN F11Case(i - NF5 - NF9 - NF10)
             ELSE IF i <= NF5 + NF9 + NF10 + NF11 + NF12 THEN F12Case(i - NF5 - NF9 - NF10 - NF11)
             ELSE IF i <= NF5 + NF9 + NF10 + NF11 + NF12 + NF14 THEN F14Case(i - NF5 - NF9 - NF10 - NF11 - NF12)
             ELSE IF i <= NF5 + NF9 + NF10 + NF11 + NF12 + NF14 + NF15 THEN F15Case(i - NF5 - NF9 - NF10 - NF11 - NF12 - NF14)
             ELSE IF i <= NF5 + NF9 + NF10 + NF11 + NF12 + NF14 + NF15 + NF16 THEN F16Case(i - NF5 - NF9 - NF10 - NF11 - NF12 - NF14 - NF15)
             ELSE F17Case(i - NF5 - NF9 - NF10 - NF11 - NF12 - NF14 - NF15 - NF16)
NFD == NF6 + NF13
FDCase(i) == IF i <= NF6 THEN F6Case(i) ELSE F13Case(i - NF6)

NCasesOf(f) == CASE f = "F1" -> NF1 [] f = "F2" -> NF2 [] f = "F3" -> NF3 [] f = "F4" -> NF4
                 [] f = "F5" -> NF5 [] f = "F6" -> NF6 [] f = "F7" -> NF7 [] f = "F8" -> NF8 [] f = "F9" -> NF9 [] f = "F10" -> NF10 [] f = "F11" -> NF11 [] f = "F12" -> NF12 [] f = "F13" -> NF13 [] f = "F14" -> NF14 [] f = "F15" -> NF15 [] f = "F16" -> NF16 [] f = "F17" -> NF17 [] f = "FD" -> NFD [] f = "P" -> NP [] f = "PT" -> NPT [] f = "PS" -> NPS [] f = "FS" -> NFS
CaseAt(f, i) == CASE f = "F1" -> F1Case(i) [] f = "F2" -> F2Case(i) [] f = "F3" -> F3Case(i) [] f = "F4" -> F4Case(i)
                  [] f = "F5" -> F5Case(i) [] f = "F6" -> F6Case(i) [] f = "F7" -> F7Case(i) [] f = "F8" -> F8Case(i) [] f = "F9" -> F9Case(i) [] f = "F10" -> F10Case(i) [] f = "F11" -> F11Case(i) [] f = "F12" -> F12Case(i) [] f = "F13" -> F13Case(i) [] f = "F14" -> F14Case(i) [] f = "F15" -> F15Case(i) [] f = "F16" -> F16Case(i) [] f = "F17" -> F17Case(i) [] f = "FD" -> FDCase(i) [] f = "P" -> PCase(i) [] f = "PT" -> PTCase(i) [] f = "PS" -> PSCase(i) [] f = "FS" -> FSCase(i)
=============================================================================
