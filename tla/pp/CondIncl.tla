------------------------------ MODULE CondIncl ------------------------------
(* C10, part 1: conditional inclusion.

   Input: a sequence of logical source lines, each a directive or a text line.

   Level A (C11 6.10.1): a stack of [taken, active, else] per open conditional.
     A group is processed iff every enclosing group is active and it is the
     first group of its conditional whose condition holds.  Skipped groups have
     no effect: their directives are not executed, their #if/#elif expressions
     are not evaluated, but their nesting is tracked.  Tokens after the
     operand of #ifdef/#ifndef/#undef and after #else/#endif are ignored.

   Level I (preprocess.c): the cond_incl list with ctx IN_THEN/IN_ELIF/IN_ELSE
     and the `included` flag (push_cond_incl, the #if/#ifdef/#ifndef/#elif/
     #else/#endif branches of preprocess2), the scanners skip_cond_incl /
     skip_cond_incl2 (here: `skip` = 0 when not scanning, 1 inside
     skip_cond_incl, 1+n inside n nested skip_cond_incl2 frames; one step per
     source line instead of per token), and skip_line.

   Both machines consume the same line; `ok` records that they emitted exactly
   the same tokens at every step so far.  Because both are finite-state for a
   bounded nesting depth, TLC explores *every* directive sequence of *any*
   length with nesting <= MaxDepth (the history is hidden by VIEW).

   FixSkipLine = FALSE transcribes the pinned skip_line (loop condition
   inverted: nothing is skipped, D12) and is the sensitivity control.

   The directives that do not take part in the selection — #line, #pragma,
   the null directive `#`, and #error (in skipped groups only: in a processed
   group it is a diagnostic, C13) — are lines of the alphabet as well: in
   Level A they change nothing in any state of the group stack.  Level I:
   #pragma and `#` are no-ops of preprocess2; read_line_marker macro-replaces
   its operands — with FixLineInGroup = FALSE through preprocess(), whose
   final "unterminated conditional directive" test sees the conditionals that
   are open AROUND the directive and rejects the file (the tree before the
   repair; second sensitivity control), with TRUE through preprocess2().

   With Emit the spec is a test generator: one behaviour per transition of the
   complete state graph (shortest history + the line + every one-line
   extension), see harness/c10.py.                                          *)
EXTENDS Integers, Sequences, SequencesExt, FiniteSets, TLC, Json, CSV, IOUtils

CONSTANTS MaxDepth,      \* nesting bound
          FixSkipLine,   \* TRUE: skip_line skips the rest of the line; FALSE: pinned tree
          FixLineInGroup, \* TRUE: read_line_marker expands its operands with preprocess2; FALSE: with preprocess (rejects inside an open conditional)
          Emit, Look

(* ---- the line alphabet ------------------------------------------------- *)
Conds == {"0", "1", "X", "DX", "NDX"}      \* 0 | 1 | X | defined(X) | !defined X
L(k, a, j) == [k |-> k, a |-> a, j |-> j]   \* j: trailing junk tokens on the line
Alphabet ==
  {L("if", c, FALSE) : c \in Conds} \cup {L("elif", c, FALSE) : c \in Conds} \cup
  {L(k, "", j) : k \in {"ifdef", "ifndef", "else", "endif", "undef"}, j \in BOOLEAN} \cup
  {L("def", v, FALSE) : v \in {"0", "1"}} \cup {L("text", "", FALSE)} \cup
  {L(k, "", FALSE) : k \in {"line", "pragma", "null", "error"}}
Neutral == {"line", "pragma", "null", "error"}       \* directives without effect on the selection
AlphaSeq == SetToSeq(Alphabet)

(* the macro table is the state of the single macro X: "u" (undefined), "0", "1" *)
Defined(m) == m # "u"
(* 6.10.1p4: defined-operator, macro replacement, remaining identifiers -> 0 *)
Eval(c, m) == CASE c = "0" -> FALSE [] c = "1" -> TRUE [] c = "X" -> m = "1"
                [] c = "DX" -> Defined(m) [] c = "NDX" -> ~Defined(m)
IsIf(l) == l.k \in {"if", "ifdef", "ifndef"}
CondOf(l, m) == CASE l.k = "if" -> Eval(l.a, m) [] l.k = "ifdef" -> Defined(m) [] l.k = "ifndef" -> ~Defined(m)

(* ---- Level A ----------------------------------------------------------- *)
(* state: [stk: Seq([taken, active, els]), mac];  result adds `out` = tokens emitted by this line *)
AllActive(stk) == \A i \in DOMAIN stk : stk[i].active
Pop(s) == SubSeq(s, 1, Len(s) - 1)
Top(s) == s[Len(s)]
SetTop(s, r) == [s EXCEPT ![Len(s)] = r]
ParentActive(stk) == AllActive(Pop(stk))

AWellFormed(a, l) ==            \* well-nested continuation (ill-nested input belongs to C13)
  CASE IsIf(l) -> Len(a.stk) < MaxDepth
    [] l.k \in {"elif", "else"} -> Len(a.stk) > 0 /\ ~Top(a.stk).els
    [] l.k = "endif" -> Len(a.stk) > 0
    [] l.k = "error" -> ~AllActive(a.stk)          \* in a processed group #error is a diagnostic (C13)
    [] OTHER -> TRUE

ANext(a, l) ==
  LET act == AllActive(a.stk) IN
  CASE IsIf(l) ->
         LET c == act /\ CondOf(l, a.mac) IN       \* evaluated only in a processed group
         [stk |-> Append(a.stk, [taken |-> c, active |-> c, els |-> FALSE]), mac |-> a.mac, out |-> <<>>]
    [] l.k = "elif" ->
         LET t == Top(a.stk)
             c == ParentActive(a.stk) /\ ~t.taken /\ Eval(l.a, a.mac)
         IN [stk |-> SetTop(a.stk, [taken |-> t.taken \/ c, active |-> c, els |-> FALSE]), mac |-> a.mac, out |-> <<>>]
    [] l.k = "else" ->
         LET t == Top(a.stk)
             c == ParentActive(a.stk) /\ ~t.taken
         IN [stk |-> SetTop(a.stk, [taken |-> TRUE, active |-> c, els |-> TRUE]), mac |-> a.mac, out |-> <<>>]
    [] l.k = "endif" -> [stk |-> Pop(a.stk), mac |-> a.mac, out |-> <<>>]
    [] l.k = "def"   -> [stk |-> a.stk, mac |-> IF act THEN l.a ELSE a.mac, out |-> <<>>]
    [] l.k = "undef" -> [stk |-> a.stk, mac |-> IF act THEN "u" ELSE a.mac, out |-> <<>>]
    [] l.k = "text"  -> [stk |-> a.stk, mac |-> a.mac, out |-> IF act THEN <<"T">> ELSE <<>>]
    [] l.k \in Neutral -> [stk |-> a.stk, mac |-> a.mac, out |-> <<>>]

(* ---- Level I ----------------------------------------------------------- *)
(* state: [ci: Seq([ctx, inc]), skip, mac].  skip_line(tok): pinned = identity, so the junk
   tokens stay in the stream: they are emitted unless a scanner runs over them next. *)
Junk(l, scanned) == IF l.j /\ ~FixSkipLine /\ ~scanned THEN <<"J">> ELSE <<>>

(* preprocess2's directive branches (reached with skip = 0) *)
IDirective(ci, mac, l) ==
  CASE l.k = "if" ->          \* eval_const_expr; push_cond_incl(start, val); if (!val) skip_cond_incl
         LET v == Eval(l.a, mac) IN
         [ci |-> Append(ci, [ctx |-> "THEN", inc |-> v]), skip |-> IF v THEN 0 ELSE 1, mac |-> mac, out |-> <<>>]
    [] l.k \in {"ifdef", "ifndef"} ->   \* find_macro; push_cond_incl; skip_line; skip_cond_incl
         LET v == CondOf(l, mac) IN
         [ci |-> Append(ci, [ctx |-> "THEN", inc |-> v]), skip |-> IF v THEN 0 ELSE 1, mac |-> mac, out |-> Junk(l, ~v)]
    [] l.k = "elif" ->        \* ctx = IN_ELIF; if (!included && eval) included = true; else skip
         LET t == Top(ci)
             v == ~t.inc /\ Eval(l.a, mac)
         IN [ci |-> SetTop(ci, [ctx |-> "ELIF", inc |-> t.inc \/ v]), skip |-> IF v THEN 0 ELSE 1, mac |-> mac, out |-> <<>>]
    [] l.k = "else" ->        \* ctx = IN_ELSE; skip_line; if (included) skip
         LET t == Top(ci) IN
         [ci |-> SetTop(ci, [ctx |-> "ELSE", inc |-> t.inc]), skip |-> IF t.inc THEN 1 ELSE 0, mac |-> mac, out |-> Junk(l, t.inc)]
    [] l.k = "endif" ->       \* cond_incl = cond_incl->next; skip_line
         [ci |-> Pop(ci), skip |-> 0, mac |-> mac, out |-> Junk(l, FALSE)]
    [] l.k = "def"   -> [ci |-> ci, skip |-> 0, mac |-> l.a, out |-> <<>>]
    [] l.k = "undef" -> [ci |-> ci, skip |-> 0, mac |-> "u", out |-> Junk(l, FALSE)]
    [] l.k = "text"  -> [ci |-> ci, skip |-> 0, mac |-> mac, out |-> <<"T">>]
    [] l.k = "line"  ->       \* read_line_marker: preprocess() ends with `if (cond_incl) error_tok(...)`
         [ci |-> ci, skip |-> 0, mac |-> mac, out |-> IF ~FixLineInGroup /\ ci # <<>> THEN <<"REJECTED">> ELSE <<>>]
    [] l.k \in {"pragma", "null"} -> [ci |-> ci, skip |-> 0, mac |-> mac, out |-> <<>>]
    [] l.k = "error" -> [ci |-> ci, skip |-> 0, mac |-> mac, out |-> <<"REJECTED">>]     \* (never reached: AWellFormed)

INext(s, l) ==
  IF s.skip = 0 THEN IDirective(s.ci, s.mac, l)
  ELSE IF IsIf(l) THEN [s EXCEPT !.skip = @ + 1] @@ [out |-> <<>>]              \* tok = skip_cond_incl2(...)
  ELSE IF l.k = "endif" /\ s.skip > 1 THEN [s EXCEPT !.skip = @ - 1] @@ [out |-> <<>>]   \* skip_cond_incl2 returns
  ELSE IF l.k \in {"elif", "else", "endif"} /\ s.skip = 1 THEN IDirective(s.ci, s.mac, l)  \* break; back in preprocess2
  ELSE [ci |-> s.ci, skip |-> s.skip, mac |-> s.mac, out |-> <<>>]                         \* tok = tok->next

(* ---- the joint machine -------------------------------------------------- *)
VARIABLES a, s,        \* Level A / Level I states
          ok,          \* both emitted the same tokens at every step so far
          hist, outA   \* history (generation only; hidden from the fingerprint)
vars == <<a, s, ok, hist, outA>>
View == <<a, s, ok>>

StripOut(r) == [x \in DOMAIN r \ {"out"} |-> r[x]]
Render(out, pos) == [i \in DOMAIN out |-> out[i] \o ToString(pos)]

Closing(a2) == [stk |-> <<>>, mac |-> a2.mac]
EmitT(l, a2, o2) ==
  IF Emit
  THEN CSVWrite("%1$s", <<ToJson([lines |-> Append(hist, l), out |-> o2, mac |-> a2.mac, depth |-> Len(a2.stk),
            nx |-> IF Look
                   THEN LET cand == SelectSeq(AlphaSeq, LAMBDA m : AWellFormed(a2, m)) IN
                        [i \in DOMAIN cand |->
                           LET a3 == ANext(a2, cand[i]) IN
                           [l |-> cand[i], out |-> Render(a3.out, Len(hist) + 2), mac |-> a3.mac, depth |-> Len(a3.stk)]]
                   ELSE <<>>])>>, IOEnv.OUT)
  ELSE TRUE

Step(l) ==
  /\ AWellFormed(a, l)
  /\ LET a2 == ANext(a, l)
         s2 == INext(s, l)
         o2 == outA \o Render(a2.out, Len(hist) + 1)
     IN /\ a' = StripOut(a2)
        /\ s' = StripOut(s2)
        /\ ok' = (ok /\ a2.out = s2.out)
        /\ hist' = Append(hist, l)
        /\ outA' = o2
        /\ EmitT(l, a2, o2)

Init == /\ a = [stk |-> <<>>, mac |-> "u"]
        /\ s = [ci |-> <<>>, skip |-> 0, mac |-> "u"]
        /\ ok = TRUE /\ hist = <<>> /\ outA = <<>>
Next == \E l \in Alphabet : Step(l)
Spec == Init /\ [][Next]_vars

-----------------------------------------------------------------------------
(* the same tokens are selected *)
SameText == ok
(* the same macro table results whenever both are outside skipped text ...
   and at every point where the translation unit may end *)
SameMacros == a.mac = s.mac
(* nesting is tracked identically: open conditionals = cond_incl entries + scanner frames *)
SameNesting == Len(a.stk) = Len(s.ci) + (IF s.skip > 1 THEN s.skip - 1 ELSE 0)
(* the scanner runs exactly while Level A is in a skipped group *)
SkipIffInactive == (s.skip > 0) <=> ~AllActive(a.stk)
(* ctx mirrors else-seen for the conditionals preprocess2 knows about *)
CtxOK == \A i \in DOMAIN s.ci : (s.ci[i].ctx = "ELSE") <=> a.stk[i].els
TypeOK == /\ s.skip \in 0..(MaxDepth + 1) /\ Len(a.stk) <= MaxDepth
          /\ a.mac \in {"u", "0", "1"}
=============================================================================
