------------------------------ MODULE HideSet ------------------------------
(* C09: the hide-set rule of Prosser's algorithm, shared by the machine
   (Macro.tla: ExpandObj, CollectArgs) and by the trace validation of hook H3
   (MacroTrace.tla).  preprocess.c: hideset_union / hideset_intersection.     *)
ObjHS(h, m)    == h \cup {m}                 \* object-like: hs(T) u {T}
FunHS(h, r, m) == (h \cap r) \cup {m}        \* function-like: (hs(T) n hs(rparen)) u {T}
=============================================================================
