SPECIFICATION Spec
CONSTANTS Seed = 0
 Stride = 40
 KwStride = 1
 CastStride = 1
CHECK_DEADLOCK FALSE
