SPECIFICATION Spec
CONSTANTS Seed = 0
 Stride = 40
CHECK_DEADLOCK FALSE
