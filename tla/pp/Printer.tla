------------------------------ MODULE Printer ------------------------------
(* C19.  What `chibicc -E` writes for a token list, and when that text is a
   faithful program.

   Level A:  Faithful(T) == Lex(Print(T)) = spellings(T)  — the text re-lexes
             to exactly the tokens the compiler proper would have consumed.
             PrintA is the minimal faithful printer (white space exactly where
             the source had some or where NeedsSeparation says so).
   Level I:  PrintI = main.c:print_tokens — one blank iff has_space (a newline
             iff at_bol; both are white space to the lexer, `sp` stands for
             either).  With PFix the proposed repair is modelled as well:
             print_tokens also separates when AvoidPaste(prev, tok), a
             character-class test on the last character of the previous token
             and the first of the next (transcribed below from the patch
             proposed/C19/fix-print-tokens-avoid-paste.diff).

   The flags PrintI consumes are produced by Macro.tla's transcription of the
   flag propagation in expand_macro / subst / new_token; the family "P" of
   Macro.tla checks Faithful on the output of every (pair, adjacency context).
   The model PrinterMC.tla (Printer_mc.cfg) checks the predicate itself on
   every pair and triple of the alphabet:
       NeedsSeparation(a,b) => AvoidPaste(a,b)                  (PairSound)
       no AvoidPaste inside a triple => the triple lexes back    (TripleSound)
   and, as sensitivity control, that the pinned rule (no test) is NOT faithful.
   It also emits Lex(text) for every pair/triple under several separators so
   that the harness tokenizer can be validated against Lex.               *)
EXTENDS Lexer, SequencesExt, Json, CSV, IOUtils

(* ---- the alphabets ---------------------------------------------------- *)
Idents   == <<"x", "e", "L", "u8", "p1", "@", "carr@", "`x", "x$">>     \* extended characters (Lexer.tla: @ ` $ stand for 2-, 3-, 4-byte UTF-8 characters): whole, at the end, at the start
Numbers  == <<"1", "0xe", "1.", ".5", "1e5", "0">>
Literals == <<"\"s\"", "'c'", "L\"s\"", "L'c'", "\"@\"">>
Puncts   == <<"[", "]", "(", ")", "{", "}", ".", "->", "++", "--", "&", "*", "+", "-", "~", "!", "/", "%",
              "<<", ">>", "<", ">", "<=", ">=", "==", "!=", "^", "|", "&&", "||", "?", ":", ";", "...",
              "=", "*=", "/=", "%=", "+=", "-=", "<<=", ">>=", "&=", "^=", "|=", ",", "#", "##">>
(* (not in the alphabet: the backslash, Lexer.tla's category "other".  No program holds one outside a literal
   after preprocessing, and a printer cannot keep one that ends up last on a line of its output apart from the
   line end (phase 2 deletes the pair when the text is read back; gcc -E has the same property).  Its
   stringization is C09's family F14.) *)
Sigma    == Idents \o Numbers \o Literals \o Puncts
SigmaSet == {Sigma[i] : i \in DOMAIN Sigma}
(* triples are checked over the spellings that can take part in a 3-token fusion *)
Tri      == <<".", "...", "<", ">", "=", "<<", ">>", "+", "-", "1", "e", "/", "*", "#", "&", "|">>
TriSet   == {Tri[i] : i \in DOMAIN Tri}

Last1(a) == Ch(a, Len(a))
IsWord(c) == IsIdChar(c)                   \* main.c is_word_char: isalnum, _, any byte >= 0x80 (and $, which stands for an extended character here)

(* proposed print_tokens test (C transcription):
     a = last character of prev, b = first character of tok
     if (is_word(a) || (a == '.' && prev->kind == TK_NUM))
       return is_word(b) || b == '.' || b == '"' || b == '\'' ||
              (prev->kind == TK_NUM && strchr("eEpP", a) && (b == '+' || b == '-'));
     switch (a) { case '.': b == '.' || isdigit(b); case '+': b in "+="; case '-': b in "-=>";
       case '<': b in "<="; case '>': b in ">="; case '&': b in "&="; case '|': b in "|=";
       case '/': b in "/ * ="; case '*' '%' '^' '!' '=': b == '='; case '#': b == '#'; }          *)
AvoidPaste(pa, pb) ==
  LET a == Last1(pa)
      b == Ch(pb, 1)
      num == KindOf(pa) = "num"
  IN IF IsWord(a) \/ (a = "." /\ num)
     THEN IsWord(b) \/ b \in {".", "\"", "'"} \/ (num /\ a \in {"e", "E", "p", "P"} /\ b \in {"+", "-"})
     ELSE CASE a = "." -> b = "." \/ b \in Digit
            [] a = "+" -> b \in {"+", "="}
            [] a = "-" -> b \in {"-", "=", ">"}
            [] a = "<" -> b \in {"<", "="}
            [] a = ">" -> b \in {">", "="}
            [] a = "&" -> b \in {"&", "="}
            [] a = "|" -> b \in {"|", "="}
            [] a = "/" -> b \in {"/", "*", "="}
            [] a \in {"*", "%", "^", "!", "="} -> b = "="
            [] a = "#" -> b = "#"
            [] OTHER -> FALSE

Spell(T) == [i \in DOMAIN T |-> T[i].s]

(* main.c:print_tokens on tokens [s, sp] (sp = has_space or at_bol) *)
PrintI(T, fix) ==
  FoldLeft(LAMBDA acc, i : acc \o (IF i > 1 /\ (T[i].sp \/ (fix /\ AvoidPaste(T[i - 1].s, T[i].s))) THEN " " ELSE "") \o T[i].s,
           "", [i \in 1..Len(T) |-> i])
(* Level A printer *)
PrintA(T) ==
  FoldLeft(LAMBDA acc, i : acc \o (IF i > 1 /\ (T[i].sp \/ NeedsSeparation(T[i - 1].s, T[i].s)
                                                \/ (i > 2 /\ ~T[i - 1].sp /\ Lex(T[i - 2].s \o T[i - 1].s \o T[i].s) # <<T[i - 2].s, T[i - 1].s, T[i].s>>))
                                   THEN " " ELSE "") \o T[i].s,
           "", [i \in 1..Len(T) |-> i])

(* ---- Level I, step by step (fifth round) --------------------------------
   print_tokens as the loop it is, on tokens [s, bol, hs] that keep at_bol and
   has_space apart, with the loop's own state explicit:
       i     the token about to be written
       line  main.c `int line = 1; ... line++` (one more than the number of tokens written)
       prev  index of the token written last, 0 = NULL
       out   the text written so far
   `rule` selects the transcription: "tokens" is main.c as it stands (the newline before an at_bol token is
   guarded by `line > 1`, and line counts written tokens, i.e. the guard means "not the first token");
   "lines" is the sensitivity control of PrinterSeq.tla: line counts at_bol tokens only, so the guard means
   "not the first at_bol token" — the same text whenever the first token is at_bol, and only then.          *)
PT0 == [i |-> 1, line |-> 1, prev |-> 0, out |-> ""]
PTDone(T, st) == st.i > Len(T)
PTStep(T, st, fix, rule) ==
  LET tok == T[st.i]
      nl  == st.line > 1 /\ tok.bol
      bl  == (tok.hs \/ (st.prev # 0 /\ fix /\ AvoidPaste(T[st.prev].s, tok.s))) /\ ~tok.bol
  IN [i    |-> st.i + 1,
      line |-> IF rule = "tokens" \/ tok.bol THEN st.line + 1 ELSE st.line,
      prev |-> st.i,
      out  |-> st.out \o (IF nl THEN "\n" ELSE "") \o (IF bl THEN " " ELSE "") \o tok.s]
PTFinal(st) == st.out \o "\n"              \* the fprintf(out, "\n") after the loop

Faithful(T, fix) == Lex(PrintI(T, fix)) = Spell(T)
FaithfulA(T)     == Lex(PrintA(T)) = Spell(T)
=============================================================================
