SPECIFICATION Spec
CONSTANTS PFix = TRUE
 LineRule = "tokens"
 Emit = TRUE
 Stride = 1
 Seed = 0
INVARIANTS PrintedFaithful LoopState
CHECK_DEADLOCK FALSE
