SPECIFICATION Spec
CONSTANTS Seed = 0
 Stride = 1
 Emit = TRUE
INVARIANTS LayoutEquivalent PlainIsScenario
CHECK_DEADLOCK FALSE
