----------------------------- MODULE CondTrace -----------------------------
(* C10 trace validation, conditionals.  Every conditional directive the real
   preprocessor executed or passed over (hook H2, "e":"cond") must be a step of
   Level A of CondIncl.tla, the 6.10.1 group stack [taken, active, els]:

   * #if/#ifdef/#ifndef in a processed group is evaluated (val 0/1) and its
     group is taken iff the value is non-zero; in a skipped group it is only
     passed over (sk = 1, not evaluated, not taken);
   * #elif is evaluated iff the enclosing groups are processed and no earlier
     group of its section was taken, and is then taken iff its value is
     non-zero; otherwise it is not evaluated and not taken;
   * #else is taken iff the enclosing groups are processed and no earlier group
     of its section was taken; nothing follows #else but #endif;
   * #elif/#else/#endif belong to the file that opened the section;
   * depth is the number of open sections; sk = 1 exactly for directives inside
     a skipped group (for #elif/#else/#endif: of a section opened in one);
   * every section is closed when a process ends ("reset" events separate the
     processes; one is appended after the last).

   Event fields (integers, no nulls): d, file, line, val (-1 = not evaluated),
   taken (0/1), sk (0/1), depth.  Accepted iff TLC reaches depth Len(Tr)+1.  *)
EXTENDS Integers, Sequences, TLC, Json, IOUtils

Tr == ndJsonDeserialize(IOEnv.TRACE)

VARIABLES l,     \* next event
          stk    \* Level A: Seq of [taken, active, els, file]
vars == <<l, stk>>

AllActive(s) == \A i \in DOMAIN s : s[i].active
Pop(s) == SubSeq(s, 1, Len(s) - 1)
Top(s) == s[Len(s)]
SetTop(s, r) == [s EXCEPT ![Len(s)] = r]
B(c) == IF c THEN 1 ELSE 0

Init == l = 1 /\ stk = <<>>

Ev(ds) == l <= Len(Tr) /\ Tr[l].e = "cond" /\ Tr[l].d \in ds /\ l' = l + 1

If == /\ Ev({"if", "ifdef", "ifndef"})
      /\ LET e == Tr[l]
             par == AllActive(stk)
         IN /\ IF par THEN e.sk = 0 /\ e.val \in {0, 1} /\ e.taken = e.val
                      ELSE e.sk = 1 /\ e.val = -1 /\ e.taken = 0
            /\ e.depth = Len(stk) + 1
            /\ stk' = Append(stk, [taken |-> par /\ e.val = 1, active |-> par /\ e.val = 1, els |-> FALSE, file |-> e.file])

Elif == /\ Ev({"elif"})
        /\ Len(stk) > 0
        /\ LET e == Tr[l]
               t == Top(stk)
               par == AllActive(Pop(stk))
           IN /\ ~t.els /\ e.file = t.file
              /\ e.sk = B(~par)
              /\ IF par /\ ~t.taken THEN e.val \in {0, 1} /\ e.taken = e.val
                                    ELSE e.val = -1 /\ e.taken = 0
              /\ e.depth = Len(stk)
              /\ stk' = SetTop(stk, [t EXCEPT !.taken = t.taken \/ e.taken = 1, !.active = (e.taken = 1)])

Else == /\ Ev({"else"})
        /\ Len(stk) > 0
        /\ LET e == Tr[l]
               t == Top(stk)
               par == AllActive(Pop(stk))
           IN /\ ~t.els /\ e.file = t.file
              /\ e.sk = B(~par)
              /\ e.val = -1
              /\ e.taken = B(par /\ ~t.taken)
              /\ e.depth = Len(stk)
              /\ stk' = SetTop(stk, [t EXCEPT !.taken = TRUE, !.active = (e.taken = 1), !.els = TRUE])

Endif == /\ Ev({"endif"})
         /\ Len(stk) > 0
         /\ LET e == Tr[l]
                t == Top(stk)
            IN /\ e.file = t.file
               /\ e.sk = B(~AllActive(Pop(stk)))
               /\ e.depth = Len(stk) - 1
               /\ stk' = Pop(stk)

Reset == /\ l <= Len(Tr) /\ Tr[l].e = "reset" /\ l' = l + 1
         /\ stk = <<>>               \* every section was closed
         /\ stk' = <<>>

Next == If \/ Elif \/ Else \/ Endif \/ Reset
Spec == Init /\ [][Next]_vars
=============================================================================
