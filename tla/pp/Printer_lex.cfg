SPECIFICATION Spec
CONSTANTS PFix = TRUE
 EmitLex = TRUE
INVARIANTS
CHECK_DEADLOCK FALSE
