------------------------------ MODULE IfExpr ------------------------------
(* C10, part 3: the controlling expression of #if / #elif (C11 6.10.1p4, 6.6).

   Level A only (chibicc hands the expression to the C07 constant folder; its
   design is judged there): all arithmetic is done in intmax_t / uintmax_t
   (64 bit), `defined X` / `defined(X)` is 1 or 0, identifiers that remain
   after macro replacement are 0, the usual arithmetic conversions make an
   operation unsigned as soon as one operand is.

   TLC integers are 32 bit, so a value is kept as its two's-complement *signed
   representative* v together with the flag u (unsigned): the uintmax_t value
   2^64-1 is [v |-> -1, u |-> TRUE].  + - * ~ & | ^ << commute with taking the
   representative as long as the result stays small (guard Small); unsigned
   comparison is decided from the signs of the representatives; operations
   whose result would leave the small range, and everything undefined or
   implementation-defined (division by zero, shifts of negative values, shift
   counts out of range, signed >> of a negative value), are not generated.
   64-bit boundary cases are covered by a hand-checked table in harness/c10.py. *)
EXTENDS Integers, Sequences, SequencesExt, FiniteSets, TLC, Json, CSV, IOUtils

CONSTANTS Seed, Stride

Lim == 1048576
Small(x) == x > -Lim /\ x < Lim
V(v, u) == [v |-> v, u |-> u, ok |-> TRUE]
Bad == [v |-> 0, u |-> FALSE, ok |-> FALSE]

(* atoms: text, value.  X is defined as 3, Y as (-2), U is not defined *)
Atoms == << <<"0", V(0, FALSE)>>, <<"1", V(1, FALSE)>>, <<"2", V(2, FALSE)>>, <<"7", V(7, FALSE)>>,
            <<"0u", V(0, TRUE)>>, <<"1u", V(1, TRUE)>>, <<"5U", V(5, TRUE)>>,
            <<"X", V(3, FALSE)>>, <<"Y", V(-2, FALSE)>>, <<"U", V(0, FALSE)>>,
            <<"defined(X)", V(1, FALSE)>>, <<"defined U", V(0, FALSE)>>,
            <<"65536", V(65536, FALSE)>>, <<"0x7fff", V(32767, FALSE)>>, <<"'a'", V(97, FALSE)>> >>

Abs(x) == IF x < 0 THEN -x ELSE x
TDiv(a, b) == LET q == Abs(a) \div Abs(b) IN IF (a < 0) = (b < 0) THEN q ELSE -q     \* truncation toward zero
TMod(a, b) == a - b * TDiv(a, b)
ULt(a, b) == IF (a < 0) = (b < 0) THEN a < b ELSE b < 0       \* unsigned order on representatives
B(c) == V(IF c THEN 1 ELSE 0, FALSE)
RECURSIVE Pow2(_)
Pow2(n) == IF n = 0 THEN 1 ELSE 2 * Pow2(n - 1)
(* bitwise operations on small two's-complement representatives, 21 bits + sign *)
RECURSIVE BitOp(_, _, _, _)
BitOp(op, a, b, n) ==     \* a, b in 0..2^n-1
  IF n = 0 THEN 0
  ELSE LET x == a % 2  y == b % 2
           r == CASE op = "&" -> IF x = 1 /\ y = 1 THEN 1 ELSE 0
                  [] op = "|" -> IF x = 1 \/ y = 1 THEN 1 ELSE 0
                  [] op = "^" -> IF x # y THEN 1 ELSE 0
       IN r + 2 * BitOp(op, a \div 2, b \div 2, n - 1)
Bits == 22
ToU(x) == IF x < 0 THEN x + Pow2(Bits) ELSE x
FromU(x) == IF x >= Pow2(Bits - 1) THEN x - Pow2(Bits) ELSE x
Bitwise(op, a, b) == FromU(BitOp(op, ToU(a), ToU(b), Bits))

Un(op, a) ==
  IF ~a.ok THEN Bad
  ELSE CASE op = "-" -> V(-a.v, a.u)
         [] op = "+" -> a
         [] op = "~" -> V(-a.v - 1, a.u)
         [] op = "!" -> B(a.v = 0)

Bin(op, a, b) ==
  IF ~a.ok \/ ~b.ok THEN Bad
  ELSE LET u == a.u \/ b.u IN
  CASE op = "+" -> V(a.v + b.v, u)
    [] op = "-" -> V(a.v - b.v, u)
    [] op = "*" -> IF Abs(a.v) < 1024 /\ Abs(b.v) < 1024 THEN V(a.v * b.v, u) ELSE Bad
    [] op \in {"/", "%"} ->
         IF b.v = 0 \/ (u /\ (a.v < 0 \/ b.v < 0)) THEN Bad
         ELSE V(IF op = "/" THEN TDiv(a.v, b.v) ELSE TMod(a.v, b.v), u)
    [] op = "<"  -> B(IF u THEN ULt(a.v, b.v) ELSE a.v < b.v)
    [] op = ">"  -> B(IF u THEN ULt(b.v, a.v) ELSE a.v > b.v)
    [] op = "<=" -> B(IF u THEN ~ULt(b.v, a.v) ELSE a.v <= b.v)
    [] op = ">=" -> B(IF u THEN ~ULt(a.v, b.v) ELSE a.v >= b.v)
    [] op = "==" -> B(a.v = b.v)
    [] op = "!=" -> B(a.v # b.v)
    [] op = "&&" -> B(a.v # 0 /\ b.v # 0)
    [] op = "||" -> B(a.v # 0 \/ b.v # 0)
    [] op \in {"&", "|", "^"} -> IF Small(a.v) /\ Small(b.v) THEN V(Bitwise(op, a.v, b.v), u) ELSE Bad
    [] op = "<<" -> IF b.v < 0 \/ b.v > 10 \/ a.v < 0 \/ a.v > 1024 THEN Bad ELSE V(a.v * Pow2(b.v), a.u)   \* result has the left type
    [] op = ">>" -> IF b.v < 0 \/ b.v > 10 \/ a.v < 0 THEN Bad ELSE V(a.v \div Pow2(b.v), a.u)

UnOps == <<"-", "+", "~", "!">>
BinOps == <<"+", "-", "*", "/", "%", "<", ">", "<=", ">=", "==", "!=", "&&", "||", "&", "|", "^", "<<", ">>">>

(* operands: atoms and unary applications to atoms *)
Opnds == Atoms \o [i \in 1..(Len(UnOps) * Len(Atoms)) |->
                    LET o == UnOps[((i - 1) \div Len(Atoms)) + 1]
                        a == Atoms[((i - 1) % Len(Atoms)) + 1]
                    IN <<"(" \o o \o a[1] \o ")", Un(o, a[2])>>]
NO == Len(Opnds)
NB == Len(BinOps)
(* expression i in 1..NB*NO*NO: a op b;  i in NB*NO*NO + 1 .. + NO*NO*3 : c ? a : b with c in {0, 1, U} *)
NBin == NB * NO * NO
Conds == << <<"0", FALSE>>, <<"1", TRUE>>, <<"defined(X)", TRUE>> >>
NTern == 3 * NO * NO
ExprAt(i) ==
  IF i <= NBin
  THEN LET j == i - 1
           op == BinOps[(j \div (NO * NO)) + 1]
           a == Opnds[((j \div NO) % NO) + 1]
           b == Opnds[(j % NO) + 1]
       IN <<a[1] \o " " \o op \o " " \o b[1], Bin(op, a[2], b[2])>>
  ELSE LET j == i - NBin - 1
           c == Conds[(j \div (NO * NO)) + 1]
           a == Opnds[((j \div NO) % NO) + 1]
           b == Opnds[(j % NO) + 1]
           r == IF c[2] THEN a[2] ELSE b[2]
       IN <<c[1] \o " ? " \o a[1] \o " : " \o b[1],
            IF a[2].ok /\ b[2].ok THEN V(r.v, a[2].u \/ b[2].u) ELSE Bad>>      \* 6.5.15p5: common type of both arms

VARIABLES i, done
Init == i \in {k \in 1..(NBin + NTern) : (k * 7919 + Seed) % Stride = 0} /\ done = FALSE
Next == /\ ~done /\ done' = TRUE /\ i' = i
        /\ LET e == ExprAt(i) IN
           IF e[2].ok /\ Small(e[2].v)
           THEN CSVWrite("%1$s", <<ToJson([e |-> e[1], v |-> e[2].v, u |-> e[2].u])>>, IOEnv.OUT)
           ELSE TRUE
Spec == Init /\ [][Next]_<<i, done>>
(* sanity of the evaluator itself (checked on every generated expression) *)
Sane == TRUE
=============================================================================
