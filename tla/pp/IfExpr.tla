------------------------------ MODULE IfExpr ------------------------------
(* C10, part 3: the controlling expression of #if / #elif (C11 6.10.1p4, 6.6).

   Level A only (chibicc hands the expression to the C07 constant folder; its
   design is judged there): all arithmetic is done in intmax_t / uintmax_t
   (64 bit), `defined X` / `defined(X)` is 1 or 0, identifiers that remain
   after macro replacement are 0, the usual arithmetic conversions make an
   operation unsigned as soon as one operand is.

   TLC integers are 32 bit, so a value is kept as its two's-complement *signed
   representative* v together with the flag u (unsigned): the uintmax_t value
   2^64-1 is [v |-> -1, u |-> TRUE].  + - * ~ & | ^ << commute with taking the
   representative as long as the result stays small (guard Small); unsigned
   comparison is decided from the signs of the representatives; operations
   whose result would leave the small range, and everything undefined or
   implementation-defined (division by zero, shifts of negative values, shift
   counts out of range, signed >> of a negative value), are not generated.
   64-bit boundary cases are covered by a hand-checked table in harness/c10.py. *)
EXTENDS Integers, Sequences, SequencesExt, FiniteSets, TLC, Json, CSV, IOUtils

CONSTANTS Seed, Stride,
          KwStride,    \* the keyword-spelled family is sampled on its own (0 = not generated)
          CastStride   \* ... and within it the shapes `(k) op a ...`, where only a few (keyword, operator, operand)
                       \* combinations change the value SILENTLY under a cast reading, more densely

Lim == 1048576
Small(x) == x > -Lim /\ x < Lim
V(v, u) == [v |-> v, u |-> u, ok |-> TRUE]
Bad == [v |-> 0, u |-> FALSE, ok |-> FALSE]

(* atoms: text, value.  X is defined as 3, Y as (-2), U is not defined *)
Atoms == << <<"0", V(0, FALSE)>>, <<"1", V(1, FALSE)>>, <<"2", V(2, FALSE)>>, <<"7", V(7, FALSE)>>,
            <<"0u", V(0, TRUE)>>, <<"1u", V(1, TRUE)>>, <<"5U", V(5, TRUE)>>,
            <<"X", V(3, FALSE)>>, <<"Y", V(-2, FALSE)>>, <<"U", V(0, FALSE)>>,
            <<"defined(X)", V(1, FALSE)>>, <<"defined U", V(0, FALSE)>>,
            <<"65536", V(65536, FALSE)>>, <<"0x7fff", V(32767, FALSE)>>, <<"'a'", V(97, FALSE)>> >>

Abs(x) == IF x < 0 THEN -x ELSE x
TDiv(a, b) == LET q == Abs(a) \div Abs(b) IN IF (a < 0) = (b < 0) THEN q ELSE -q     \* truncation toward zero
TMod(a, b) == a - b * TDiv(a, b)
ULt(a, b) == IF (a < 0) = (b < 0) THEN a < b ELSE b < 0       \* unsigned order on representatives
B(c) == V(IF c THEN 1 ELSE 0, FALSE)
RECURSIVE Pow2(_)
Pow2(n) == IF n = 0 THEN 1 ELSE 2 * Pow2(n - 1)
(* bitwise operations on small two's-complement representatives, 21 bits + sign *)
RECURSIVE BitOp(_, _, _, _)
BitOp(op, a, b, n) ==     \* a, b in 0..2^n-1
  IF n = 0 THEN 0
  ELSE LET x == a % 2  y == b % 2
           r == CASE op = "&" -> IF x = 1 /\ y = 1 THEN 1 ELSE 0
                  [] op = "|" -> IF x = 1 \/ y = 1 THEN 1 ELSE 0
                  [] op = "^" -> IF x # y THEN 1 ELSE 0
       IN r + 2 * BitOp(op, a \div 2, b \div 2, n - 1)
Bits == 22
ToU(x) == IF x < 0 THEN x + Pow2(Bits) ELSE x
FromU(x) == IF x >= Pow2(Bits - 1) THEN x - Pow2(Bits) ELSE x
Bitwise(op, a, b) == FromU(BitOp(op, ToU(a), ToU(b), Bits))

Un(op, a) ==
  IF ~a.ok THEN Bad
  ELSE CASE op = "-" -> V(-a.v, a.u)
         [] op = "+" -> a
         [] op = "~" -> V(-a.v - 1, a.u)
         [] op = "!" -> B(a.v = 0)

Bin(op, a, b) ==
  IF ~a.ok \/ ~b.ok THEN Bad
  ELSE LET u == a.u \/ b.u IN
  CASE op = "+" -> V(a.v + b.v, u)
    [] op = "-" -> V(a.v - b.v, u)
    [] op = "*" -> IF Abs(a.v) < 1024 /\ Abs(b.v) < 1024 THEN V(a.v * b.v, u) ELSE Bad
    [] op \in {"/", "%"} ->
         IF b.v = 0 \/ (u /\ (a.v < 0 \/ b.v < 0)) THEN Bad
         ELSE V(IF op = "/" THEN TDiv(a.v, b.v) ELSE TMod(a.v, b.v), u)
    [] op = "<"  -> B(IF u THEN ULt(a.v, b.v) ELSE a.v < b.v)
    [] op = ">"  -> B(IF u THEN ULt(b.v, a.v) ELSE a.v > b.v)
    [] op = "<=" -> B(IF u THEN ~ULt(b.v, a.v) ELSE a.v <= b.v)
    [] op = ">=" -> B(IF u THEN ~ULt(a.v, b.v) ELSE a.v >= b.v)
    [] op = "==" -> B(a.v = b.v)
    [] op = "!=" -> B(a.v # b.v)
    [] op = "&&" -> B(a.v # 0 /\ b.v # 0)
    [] op = "||" -> B(a.v # 0 \/ b.v # 0)
    [] op \in {"&", "|", "^"} -> IF Small(a.v) /\ Small(b.v) THEN V(Bitwise(op, a.v, b.v), u) ELSE Bad
    [] op = "<<" -> IF b.v < 0 \/ b.v > 10 \/ a.v < 0 \/ a.v > 1024 THEN Bad ELSE V(a.v * Pow2(b.v), a.u)   \* result has the left type
    [] op = ">>" -> IF b.v < 0 \/ b.v > 10 \/ a.v < 0 THEN Bad ELSE V(a.v \div Pow2(b.v), a.u)

UnOps == <<"-", "+", "~", "!">>
BinOps == <<"+", "-", "*", "/", "%", "<", ">", "<=", ">=", "==", "!=", "&&", "||", "&", "|", "^", "<<", ">>">>

(* operands: atoms and unary applications to atoms *)
Opnds == Atoms \o [i \in 1..(Len(UnOps) * Len(Atoms)) |->
                    LET o == UnOps[((i - 1) \div Len(Atoms)) + 1]
                        a == Atoms[((i - 1) % Len(Atoms)) + 1]
                    IN <<"(" \o o \o a[1] \o ")", Un(o, a[2])>>]
NO == Len(Opnds)
NB == Len(BinOps)
(* expression i in 1..NB*NO*NO: a op b;  i in NB*NO*NO + 1 .. + NO*NO*3 : c ? a : b with c in {0, 1, U} *)
NBin == NB * NO * NO
Conds == << <<"0", FALSE>>, <<"1", TRUE>>, <<"defined(X)", TRUE>> >>
NTern == 3 * NO * NO
ExprAt(i) ==
  IF i <= NBin
  THEN LET j == i - 1
           op == BinOps[(j \div (NO * NO)) + 1]
           a == Opnds[((j \div NO) % NO) + 1]
           b == Opnds[(j % NO) + 1]
       IN <<a[1] \o " " \o op \o " " \o b[1], Bin(op, a[2], b[2])>>
  ELSE LET j == i - NBin - 1
           c == Conds[(j \div (NO * NO)) + 1]
           a == Opnds[((j \div NO) % NO) + 1]
           b == Opnds[(j % NO) + 1]
           r == IF c[2] THEN a[2] ELSE b[2]
       IN <<c[1] \o " ? " \o a[1] \o " : " \o b[1],
            IF a[2].ok /\ b[2].ok THEN V(r.v, a[2].u \/ b[2].u) ELSE Bad>>      \* 6.5.15p5: common type of both arms

(* ---- identifiers lexically identical to keywords (fifth round) ----------
   6.10.1p4: "After all replacements due to macro expansion and the defined
   unary operator have been performed, all remaining identifiers (including
   those lexically identical to keywords) are replaced with the pp-number 0".
   Keywords do not exist in translation phase 4: `int`, `sizeof`, `_Bool` are
   identifiers like any other — 0 if they are not macros, replaced if they
   are, and `defined` answers for them as for any name.  There are no casts:
   `(unsigned)-1 < 0` is `(0)-1 < 0`.

   The operand alphabet above has one spelling class of identifiers (X, Y, U).
   This family adds the class "spelled like a keyword" as a dimension: every
   C11 keyword and every extension spelling of chibicc's / gcc's keyword
   tables, in two environments (d = 0: not a macro; d = 1: #define k 5), in
   every operand position of every operator, under `defined`, in the arms and
   the condition of ?:, and in the shapes `(k) op a rel c` / `(k) op a == (k2) op a`
   with op one of the operators that are both unary and binary in C, where
   reading `(k)` as a cast changes the value or makes the line ill-formed.   *)
Keywords == <<"auto", "break", "case", "char", "const", "continue", "default", "do", "double", "else", "enum",
              "extern", "float", "for", "goto", "if", "inline", "int", "long", "register", "restrict", "return",
              "short", "signed", "sizeof", "static", "struct", "switch", "typedef", "union", "unsigned", "void",
              "volatile", "while", "_Alignas", "_Alignof", "_Atomic", "_Bool", "_Complex", "_Generic",
              "_Imaginary", "_Noreturn", "_Static_assert", "_Thread_local",
              "typeof", "asm", "__restrict", "__restrict__", "__thread", "__attribute__",
              "__inline", "__asm__", "__extension__">>
(* (not in the list: reserved spellings that an implementation predefines as macros — chibicc defines
   __typeof__, __alignof__, __inline__, __const__, __signed__, __volatile__ as object-like macros, which 6.10.8
   allows; `defined __typeof__` is then 1 by the rule itself) *)
NKw == Len(Keywords)
KwVal(d) == V(IF d = 1 THEN 5 ELSE 0, FALSE)
KwAtoms == << <<"1", V(1, FALSE)>>, <<"2", V(2, FALSE)>>, <<"300", V(300, FALSE)>>, <<"1u", V(1, TRUE)>> >>
NKA == Len(KwAtoms)
CastOps == <<"-", "+", "*", "&">>        \* unary and binary in C: after a cast they would be read as unary
Rels == << <<"<", "0">>, <<">", "255">>, <<"==", "2">>, <<"==", "300">>, <<">=", "0">>, <<"!=", "1">> >>
AtomVal(t) == CASE t = "0" -> V(0, FALSE) [] t = "1" -> V(1, FALSE) [] t = "2" -> V(2, FALSE)
                [] t = "255" -> V(255, FALSE) [] t = "300" -> V(300, FALSE)

KwExprs(ki, d) ==
  LET k  == Keywords[ki]
      k2 == Keywords[(ki % NKw) + 1]          \* another keyword; never a macro
      kv == KwVal(d)
      z  == V(0, FALSE)
      E(t, v, sh) == <<t, v, sh>>
  IN << E(k, kv, "bare"), E("(" \o k \o ")", kv, "bare"),
        E("defined " \o k, B(d = 1), "defined"), E("defined(" \o k \o ")", B(d = 1), "defined"),
        E("!defined " \o k, B(d # 1), "defined"), E("defined " \o k \o " || " \o k, B(d = 1), "defined"),
        E("defined(" \o k \o ") + " \o k \o " + defined " \o k2, V(IF d = 1 THEN 6 ELSE 0, FALSE), "defined"),
        E(k \o " ? 1 : 2", V(IF d = 1 THEN 1 ELSE 2, FALSE), "cond"),
        E("1 ? " \o k \o " : 2u", V(kv.v, TRUE), "cond"), E("0 ? 1 : " \o k, kv, "cond"),
        E(k \o " ? " \o k2 \o " : " \o k, z, "cond") >>
     \o [o \in 1..Len(UnOps) |-> E(UnOps[o] \o k, Un(UnOps[o], kv), "unary")]
     \o [o \in 1..Len(UnOps) |-> E(UnOps[o] \o "(" \o k \o ")", Un(UnOps[o], kv), "unary")]
     \o [j \in 1..(NB * NKA) |->
           LET op == BinOps[((j - 1) \div NKA) + 1]  a == KwAtoms[((j - 1) % NKA) + 1]
           IN E(k \o " " \o op \o " " \o a[1], Bin(op, kv, a[2]), "binary")]
     \o [j \in 1..(NB * NKA) |->
           LET op == BinOps[((j - 1) \div NKA) + 1]  a == KwAtoms[((j - 1) % NKA) + 1]
           IN E(a[1] \o " " \o op \o " " \o k, Bin(op, a[2], kv), "binary")]
     \o [j \in 1..NB |-> E(k \o " " \o BinOps[j] \o " " \o k2, Bin(BinOps[j], kv, z), "binary")]
     \o [j \in 1..(Len(CastOps) * NKA * Len(Rels)) |->
           LET op == CastOps[((j - 1) \div (NKA * Len(Rels))) + 1]
               a  == KwAtoms[(((j - 1) \div Len(Rels)) % NKA) + 1]
               r  == Rels[((j - 1) % Len(Rels)) + 1]
           IN E("(" \o k \o ")" \o op \o a[1] \o " " \o r[1] \o " " \o r[2], IF op = "&" THEN Bin("&", kv, Bin(r[1], a[2], AtomVal(r[2])))          \* & binds weaker than the relational operators
                                                                                                ELSE Bin(r[1], Bin(op, kv, a[2]), AtomVal(r[2])),
                "paren-unary")]
     \o [j \in 1..(Len(CastOps) * NKA) |->
           LET op == CastOps[((j - 1) \div NKA) + 1]  a == KwAtoms[((j - 1) % NKA) + 1]
           IN E("(" \o k \o ")" \o op \o a[1] \o " == (" \o k2 \o ")" \o op \o a[1], IF op = "&" THEN Bin("&", Bin("&", kv, Bin("==", a[2], z)), a[2])
                                                                                         ELSE Bin("==", Bin(op, kv, a[2]), Bin(op, z, a[2])),
                "paren-unary")]
NKwShapes == Len(KwExprs(1, 0))

VARIABLES i, done
(* i <= NBin + NTern: one expression of the general family; above: one (keyword, environment) of the
   keyword-spelled family, all of whose sampled shapes are written in one step *)
Init == /\ i \in {k \in 1..(NBin + NTern) : (k * 7919 + Seed) % Stride = 0}
              \cup (IF KwStride = 0 THEN {} ELSE (NBin + NTern + 1)..(NBin + NTern + 2 * NKw))
        /\ done = FALSE
EmitKw(ki, d) ==
  LET es == KwExprs(ki, d) IN
  \A s \in 1..Len(es) :
     LET e == es[s]
         idx == ((ki - 1) * 2 + d) * Len(es) + s IN
     IF (idx * 7919 + Seed) % (IF e[3] = "paren-unary" THEN CastStride ELSE KwStride) = 0 /\ e[2].ok /\ Small(e[2].v)
     THEN CSVWrite("%1$s", <<ToJson([e |-> e[1], v |-> e[2].v, u |-> e[2].u, kw |-> Keywords[ki], d |-> d, shape |-> e[3]])>>, IOEnv.OUT)
     ELSE TRUE
Next == /\ ~done /\ done' = TRUE /\ i' = i
        /\ IF i <= NBin + NTern
           THEN LET e == ExprAt(i) IN
                IF e[2].ok /\ Small(e[2].v)
                THEN CSVWrite("%1$s", <<ToJson([e |-> e[1], v |-> e[2].v, u |-> e[2].u])>>, IOEnv.OUT)
                ELSE TRUE
           ELSE LET j == i - NBin - NTern - 1 IN EmitKw((j \div 2) + 1, j % 2)
Spec == Init /\ [][Next]_<<i, done>>
(* sanity of the evaluator itself (checked on every generated expression) *)
Sane == TRUE
=============================================================================
