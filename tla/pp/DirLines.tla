------------------------------ MODULE DirLines ------------------------------
(* C09 (with C10): WHERE A DIRECTIVE ENDS.

   6.10p2: a preprocessing directive is a sequence of preprocessing tokens
   that begins with a `#` which is first on its line (after translation
   phase 3) "and is ended by the next new-line character".  So the operand of
   no directive ever reaches into the following line: a `#` alone on its line
   is the null directive (6.10.7) whatever the next line begins with;
   `#define X` followed by a line `(a) b` defines an object-like X with an
   empty replacement list and `(a) b` is text; `#pragma` followed by a line
   `once` is a pragma and a line of text; `#define` / `#undef` / `#ifdef` /
   `#include` / `#if` / `#line` without an operand on their own line violate
   the syntax (a diagnostic is required, 5.1.1.3) and the following line is
   not their operand.

   Level A here is a reader of LOGICAL LINES (phases 1-3 are Layout.tla's
   subject): ReadText(text) walks the lines of a text, keeps the macro table
   and the stack of conditional groups (6.10.1), and hands back
       defs   the macro definitions in force at the end,
       inv    the pp-tokens of all text lines of processed groups (a token that
              starts a line is preceded by "\n"), to be macro-replaced by the
              machine of Macro.tla,
       cls    "ok" | "bad" (some executed directive violates the syntax or a
              constraint: diagnostic required) | "excluded" (a form this reader
              does not model).
   The macro table is handed over as ONE set of definitions for the whole
   text, so a text whose earlier text lines name a macro that is defined or
   undefined later is "excluded" (the family below has none).

   The family (F16 of MacroFamilies.tla) is closed: every directive scenario
   x every token boundary of the directive line at which a NEW-LINE is
   written instead of the blank (the rest of the would-be directive starts
   the next line, at column 0 or after a blank) x the context (top level,
   inside a processed group, inside a skipped group).                        *)
EXTENDS Integers, Sequences, SequencesExt, FiniteSets, Lexer

It(s, w) == [s |-> s, w |-> w]               \* source item: spelling + white space before it ("", " ", "\n")

(* source text -> items (Lexer's TokEnd decides the token boundaries) *)
RECURSIVE LexItemsFrom(_, _, _, _)
LexItemsFrom(s, i, w, acc) ==
  IF i > Len(s) THEN acc
  ELSE IF Ch(s, i) = "\n" THEN LexItemsFrom(s, i + 1, "\n", acc)
  ELSE IF Ch(s, i) \in {" ", "\t"} THEN LexItemsFrom(s, i + 1, IF w = "\n" THEN w ELSE " ", acc)
  ELSE LET e == TokEnd(s, i) IN
       IF e = 0 THEN Append(acc, It(BAD, w)) ELSE LexItemsFrom(s, e, "", Append(acc, It(SubSeq(s, i, e - 1), w)))
Src(s) == LexItemsFrom(s, 1, "", <<>>)

MacroDef(name, fun, params, va, body) == [name |-> name, fun |-> fun, params |-> params, va |-> va, body |-> Src(body)]

(* ---- the lines of a text (without their new-line characters) *)
RECURSIVE TextLines(_, _, _)
TextLines(s, i, acc) ==
  IF i > Len(s) THEN acc
  ELSE LET e == LineEnd(s, i) IN TextLines(s, e + 1, Append(acc, IF e > i THEN SubSeq(s, i, e - 1) ELSE ""))

IsId(s) == KindOf(s) = "id"
Spell(its) == [i \in 1..Len(its) |-> its[i].s]
NoLead(its) == IF its = <<>> THEN its ELSE [its EXCEPT ![1].w = ""]
AtBol(its)  == IF its = <<>> THEN its ELSE [its EXCEPT ![1].w = "\n"]
IdsOf(its) == {its[i].s : i \in {j \in 1..Len(its) : IsId(its[j].s)}}

Defined(defs, n) == \E i \in 1..Len(defs) : defs[i].name = n
Without(defs, n) == SelectSeq(defs, LAMBDA d : d.name # n)

(* the identifier-list of a function-like definition: the spellings between the parentheses *)
ParamList(ts) ==
  LET n == Len(ts)
      Bad == [ok |-> FALSE, params |-> <<>>, va |-> FALSE]
  IN IF n = 0 THEN [ok |-> TRUE, params |-> <<>>, va |-> FALSE]
     ELSE IF n % 2 = 0 THEN Bad
     ELSE IF \A i \in 1..n : IF i % 2 = 0 THEN ts[i] = "," ELSE (IsId(ts[i]) \/ (i = n /\ ts[i] = "..."))
          THEN [ok |-> TRUE, params |-> SelectSeq(ts, IsId), va |-> ts[n] = "..."]
     ELSE Bad
FirstIdx(ts, s, from) == IF \E j \in from..Len(ts) : ts[j] = s THEN CHOOSE j \in from..Len(ts) : ts[j] = s /\ \A k \in from..(j - 1) : ts[k] # s ELSE 0

(* #if / #elif operand of the scenarios: operands 0, 1 and identifiers that are no macros (6.10.1p4: 0),
   joined by `+`.  [cls, val] *)
IfVal(E, defs) ==
  LET n == Len(E) IN
  IF n = 0 THEN [cls |-> "bad", val |-> FALSE]
  ELSE IF \E i \in 1..n : (i % 2 = 0 /\ E[i] # "+") \/ (i % 2 = 1 /\ ~(E[i] \in {"0", "1"} \/ (IsId(E[i]) /\ ~Defined(defs, E[i]) /\ E[i] # "defined")))
       THEN (IF \A i \in 1..n : E[i] \in {"0", "1", "+"} THEN [cls |-> "bad", val |-> FALSE] ELSE [cls |-> "excluded", val |-> FALSE])
  ELSE IF n % 2 = 0 THEN [cls |-> "bad", val |-> FALSE]
  ELSE [cls |-> "ok", val |-> \E i \in 1..n : E[i] = "1"]

R0 == [defs |-> <<>>, conds |-> <<>>, inv |-> <<>>, cls |-> "ok", seen |-> {}]
Active(st) == \A i \in 1..Len(st.conds) : st.conds[i].act
OuterActive(st) == \A i \in 1..(Len(st.conds) - 1) : st.conds[i].act
SetCls(st, c) == [st EXCEPT !.cls = c]
TopC(st) == st.conds[Len(st.conds)]
SetTopC(st, c) == [st EXCEPT !.conds = [@ EXCEPT ![Len(st.conds)] = c]]
Push(st, act, taken) == [st EXCEPT !.conds = Append(@, [act |-> act, taken |-> taken, els |-> FALSE])]

(* #define: D = the items after `#` (D[1] = define) *)
Define(st, D) ==
  LET n == Len(D) sp == Spell(D) IN
  IF n < 2 \/ ~IsId(sp[2]) \/ sp[2] = "defined" THEN SetCls(st, "bad")
  ELSE IF sp[2] \in st.seen \/ Defined(st.defs, sp[2]) THEN SetCls(st, "excluded")
  ELSE IF n >= 3 /\ sp[3] = "(" /\ D[3].w = ""                       \* 6.10.3p10: `(` immediately after the name
       THEN LET c == FirstIdx(sp, ")", 4) IN
            IF c = 0 THEN SetCls(st, "bad")
            ELSE LET pl == ParamList(SubSeq(sp, 4, c - 1)) IN
                 IF ~pl.ok THEN SetCls(st, "bad")
                 ELSE [st EXCEPT !.defs = Append(@, [name |-> sp[2], fun |-> TRUE, params |-> pl.params, va |-> pl.va,
                                                     body |-> NoLead(SubSeq(D, c + 1, n))])]
  ELSE IF n >= 3 /\ D[3].w = "" THEN SetCls(st, "excluded")           \* 6.10.3p3: white space required after the name
  ELSE [st EXCEPT !.defs = Append(@, [name |-> sp[2], fun |-> FALSE, params |-> <<>>, va |-> FALSE, body |-> NoLead(SubSeq(D, 3, n))])]

(* one directive line in a processed group *)
Directive(st, D) ==
  LET sp == Spell(D) n == Len(D) d == sp[1] IN
  CASE d = "define" -> Define(st, D)
    [] d = "undef" -> IF n # 2 \/ ~IsId(sp[2]) THEN SetCls(st, "bad")
                      ELSE IF sp[2] \in st.seen THEN SetCls(st, "excluded")
                      ELSE [st EXCEPT !.defs = Without(@, sp[2])]
    [] d \in {"ifdef", "ifndef"} -> IF n # 2 \/ ~IsId(sp[2]) THEN SetCls(st, "bad")
                                    ELSE LET v == (Defined(st.defs, sp[2]) <=> d = "ifdef") IN Push(st, v, v)
    [] d = "if" -> LET r == IfVal(SubSeq(sp, 2, n), st.defs) IN IF r.cls # "ok" THEN SetCls(st, r.cls) ELSE Push(st, r.val, r.val)
    [] d = "include" -> IF n < 2 THEN SetCls(st, "bad")
                        ELSE IF n = 2 /\ sp[2] = "\"lay.h\"" THEN [st EXCEPT !.inv = Append(@, It("inc_ok", "\n"))]     \* the header the harness writes
                        ELSE SetCls(st, "excluded")
    [] d = "line" -> IF n < 2 THEN SetCls(st, "bad")
                     ELSE IF sp[2] = "100" /\ (n = 2 \/ (n = 3 /\ sp[3] = "\"x.c\"")) THEN st
                     ELSE SetCls(st, "excluded")
    [] d = "pragma" -> st                                             \* no token of a #pragma line is text
    [] d = "error" -> SetCls(st, "bad")
    [] OTHER -> SetCls(st, "excluded")                                \* non-directive, GNU line marker, ...

(* #elif / #else / #endif close or switch the innermost group — also when that group is being skipped *)
CondDirective(st, sp) ==
  LET n == Len(sp) d == sp[1] IN
  IF st.conds = <<>> THEN SetCls(st, "bad")
  ELSE LET t == TopC(st) IN
    CASE d = "endif" -> IF n # 1 /\ OuterActive(st) THEN SetCls(st, "excluded") ELSE [st EXCEPT !.conds = SubSeq(@, 1, Len(@) - 1)]
      [] d = "else" -> IF ~OuterActive(st) THEN st
                       ELSE IF t.els THEN SetCls(st, "bad")
                       ELSE IF n # 1 THEN SetCls(st, "excluded")
                       ELSE SetTopC(st, [act |-> ~t.taken, taken |-> TRUE, els |-> TRUE])
      [] OTHER ->      IF ~OuterActive(st) THEN st                     \* elif
                       ELSE IF t.els THEN SetCls(st, "bad")
                       ELSE IF t.taken THEN SetTopC(st, [t EXCEPT !.act = FALSE])      \* not evaluated (6.10.1p6)
                       ELSE LET r == IfVal(SubSeq(sp, 2, n), st.defs) IN
                            IF r.cls # "ok" THEN SetCls(st, r.cls) ELSE SetTopC(st, [t EXCEPT !.act = r.val, !.taken = r.val])

ReadLine(st, line) ==
  LET L == Src(line) IN
  IF st.cls # "ok" \/ L = <<>> THEN st
  ELSE IF L[1].s = "#"
       THEN LET D == Tail(L) IN
            IF D = <<>> THEN st                                              \* 6.10.7: null directive
            ELSE IF D[1].s \in {"elif", "else", "endif"} THEN CondDirective(st, Spell(D))
            ELSE IF ~Active(st) THEN (IF D[1].s \in {"if", "ifdef", "ifndef"} THEN Push(st, FALSE, TRUE) ELSE st)
            ELSE Directive(st, D)
  ELSE IF ~Active(st) THEN st
  ELSE [st EXCEPT !.inv = @ \o AtBol(L), !.seen = @ \cup IdsOf(L)]

ReadText(text) ==
  LET lines == TextLines(text, 1, <<>>)
      st == FoldLeft(ReadLine, R0, lines)
  IN IF st.cls = "ok" /\ st.conds # <<>> THEN SetCls(st, "bad") ELSE st       \* unterminated conditional

(* ---- the scenarios: lines before, the directive's tokens (glue = boundaries at which nothing is written),
   lines after *)
Sc(pre, dir, glue, post) == [pre |-> pre, dir |-> dir, glue |-> glue, post |-> post]
DScen == <<
  Sc(<<>>, <<"#", "define", "A", "1", "+", "2">>, {}, <<"A ;">>),
  Sc(<<>>, <<"#", "define", "F", "(", "x", ")", "(", "(", "x", ")", "*", "2", ")">>, {3}, <<"F(3) ;">>),
  Sc(<<>>, <<"#", "if", "0", "+", "1">>, {}, <<"yes", "#else", "no", "#endif">>),
  Sc(<<"#if 0", "no">>, <<"#", "elif", "1", "+", "0">>, {}, <<"yes", "#endif">>),
  Sc(<<"#define A 1">>, <<"#", "undef", "A">>, {}, <<"A ;">>),
  Sc(<<>>, <<"#", "include", "\"lay.h\"">>, {}, <<"after ;">>),
  Sc(<<>>, <<"#", "line", "100", "\"x.c\"">>, {}, <<"after ;">>),
  Sc(<<>>, <<"#", "pragma", "foo", "bar">>, {}, <<"after ;">>),
  Sc(<<>>, <<"#", "pragma", "once", "x">>, {}, <<"after ;">>),
  Sc(<<"#define A 1">>, <<"#", "ifdef", "A">>, {}, <<"yes", "#else", "no", "#endif">>),
  Sc(<<>>, <<"#", "ifndef", "A">>, {}, <<"yes", "#else", "no", "#endif">>),
  Sc(<<>>, <<"#", "define", "G", "(", "x", ",", "y", ")", "x", "##", "y", "#", "x">>, {3}, <<"G(a,b) ;">>),
  Sc(<<"before ;">>, <<"#", "define", "B", "7">>, {}, <<"B ;">>),
  Sc(<<"#if 1", "yes">>, <<"#", "else">>, {}, <<"no", "#endif">>),
  Sc(<<"#if 1", "yes">>, <<"#", "endif">>, {}, <<"after ;">>),
  Sc(<<"#if 1", "yes">>, <<"#", "endif">>, {}, <<"#endif", "after ;">>),
  Sc(<<"#if 1", "yes">>, <<"#", "elif", "1">>, {}, <<"no", "#endif">>),
  Sc(<<>>, <<"#", "42", "\"f.c\"">>, {}, <<"after ;">>),
  Sc(<<>>, <<"#", "error", "e">>, {}, <<"after ;">>),
  Sc(<<>>, <<"#", "define", "E">>, {}, <<"[E] ;">>),
  Sc(<<>>, <<"#", "define", "H", "(", ")", "h">>, {3}, <<"H() ;">>),
  Sc(<<>>, <<"#", "define", "V", "(", "x", ",", "...", ")", "x", "__VA_ARGS__">>, {3}, <<"V(1,2,3) ;">>),
  Sc(<<>>, <<"x", "#", "define", "Q", "1">>, {}, <<"Q ;">>) >>

JoinLines(ls) == FoldLeft(LAMBDA a, i : a \o ls[i] \o "\n", "", [i \in 1..Len(ls) |-> i])
(* tokens a..b of the scenario's directive, written with one blank at every boundary that is not glued *)
Piece(sc, a, b) == FoldLeft(LAMBDA acc, j : acc \o sc.dir[j] \o (IF j = b \/ j \in sc.glue THEN "" ELSE " "), "", [j \in 1..(b - a + 1) |-> a + j - 1])
(* a new-line at boundary k (k = Len(dir): the plain spelling), `ind` written in front of the continuation *)
CutLines(sc, k, ind) == IF k >= Len(sc.dir) THEN <<Piece(sc, 1, Len(sc.dir))>>
                        ELSE <<Piece(sc, 1, k), ind \o Piece(sc, k + 1, Len(sc.dir))>>
DWrap(ctx, ls) == IF ctx = 0 THEN ls
                  ELSE IF ctx = 1 THEN <<"#if 1">> \o ls \o <<"#endif", "tail ;">>
                  ELSE <<"#if 0">> \o ls \o <<"#endif", "tail ;">>
DMaxB == 13                                   \* cuts 1..13 at most (13 = the longest directive uncut)
DVar == 5                                     \* (context, indentation): (0,""), (0," "), (1,""), (1," "), (2,"")
NDir == Len(DScen) * DMaxB * DVar
DCoord(i) == LET j == i - 1 IN [s |-> (j \div (DMaxB * DVar)) + 1, k |-> ((j \div DVar) % DMaxB) + 1, v |-> j % DVar]
DValid(c) == LET sc == DScen[c.s] IN c.k <= Len(sc.dir) /\ (c.k = Len(sc.dir) => c.v \in {0, 2, 4})    \* uncut: the indentation has no meaning
DText(c) == LET sc == DScen[c.s]
                ctx == IF c.v <= 1 THEN 0 ELSE IF c.v <= 3 THEN 1 ELSE 2
                ind == IF c.v \in {1, 3} THEN " " ELSE ""
            IN JoinLines(DWrap(ctx, sc.pre \o CutLines(sc, c.k, ind) \o sc.post))
=============================================================================
