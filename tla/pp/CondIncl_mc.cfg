SPECIFICATION Spec
CONSTANTS MaxDepth = 3
 FixSkipLine = TRUE
 FixLineInGroup = TRUE
 Emit = FALSE
 Look = FALSE
VIEW View
INVARIANTS SameText SameMacros SameNesting SkipIffInactive CtxOK TypeOK
CHECK_DEADLOCK FALSE
