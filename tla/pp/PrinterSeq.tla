----------------------------- MODULE PrinterSeq ------------------------------
(* C19 (fifth round): print_tokens as a LOOP WITH STATE over a token stream
   whose flags are free.

   PrinterMC.tla judges the separation test on pairs and triples, Macro.tla's
   families P/PT/PS judge it on the flags that macro expansion produces — both
   with has_space and at_bol folded into one bit `sp`, and with every stream
   starting at the beginning of a line.  What neither has is the printer's own
   state (main.c: `line`, `prev`) next to the two flags it reads, for EVERY
   token including the first one.  The preprocessor can hand print_tokens a
   first token that is not at_bol: when a translation unit starts (after its
   directives) with a macro invocation that expands to nothing, the token
   after it keeps at_bol = false (preprocess.c inherit_flags, is_empty case).

   Model.  A stream T = <<t1, t2, t3>> of tokens [s, bol, hs]: s over the
   alphabet K (representatives of the classes that lex together: identifier,
   pp-number, and punctuators with two- and three-character fusions and the
   two comment openers), and (bol, hs) of EVERY token over all four
   combinations.  Step = one iteration of the loop (Printer.tla PTStep, which
   carries i, line, prev, out).  Invariant
       PrintedFaithful ==  loop finished  =>  Lex(out) = Spell(T)
   i.e. Level I (the loop with its state) refines Level A (Lexer.tla) on every
   stream.  Sensitivity control: LineRule = "lines" (the counter counts output
   lines instead of tokens) must be rejected.

   Binding.  At the last step the model writes, for each stream, the source
   texts that make the preprocessor produce exactly these flags (Source
   below): a lead-in that vanishes (seven shapes: object-like, function-like
   without/with parameters, an empty argument, an argument that vanishes, two
   in a row, after an #include of an empty header) on the first token's line if
   t1 is not at_bol, on a line of its own (or absent) if it is; each later token
   after a newline / newline+blank / blank / nothing; in mode "src" the tokens
   are written as they are, in mode "id" each one is the argument of ID(v) v.
   A text is emitted only if it is Realisable: lexing it gives exactly the
   intended source tokens (`Ex`, `1.`, `//` written back to back would be other
   tokens).  The harness runs one compiler process per text (the state under
   test lives for one output file) and compares tokens with Spell(T).        *)
EXTENDS Printer

CONSTANTS PFix,       \* TRUE: print_tokens with the paste-avoidance test (the tree since fix-print-tokens-avoid-paste)
          LineRule,   \* "tokens": main.c as it stands; "lines": sensitivity control
          Emit,       \* TRUE: write the source texts to IOEnv.OUT
          Stride, Seed   \* emit the texts whose index is Seed modulo Stride (the model itself is always complete)

K     == <<"x", "1", "-", "=", ".", "/", "*">>
Flags == <<[bol |-> TRUE, hs |-> FALSE], [bol |-> TRUE, hs |-> TRUE], [bol |-> FALSE, hs |-> TRUE], [bol |-> FALSE, hs |-> FALSE]>>
NK == Len(K)
NF == Len(Flags)
Tok(k, f) == [s |-> K[k], bol |-> Flags[f].bol, hs |-> Flags[f].hs]

(* ---- lead-ins that expand to nothing ---------------------------------- *)
Defs == "#define E\n#define N()\n#define N1(q)\n#define ID(v) v\n"
NLead == 7                   \* 0 = no lead-in (t1 is then the first token of the file and at_bol)
LeadText(l) == CASE l = 1 -> "E" [] l = 2 -> "N()" [] l = 3 -> "ID()" [] l = 4 -> "ID(E)" [] l = 5 -> "N1(q)"
                 [] l = 6 -> "N()N1(q)" [] l = 7 -> "E" [] OTHER -> ""
LeadToks(l) == CASE l = 1 -> <<"E">> [] l = 2 -> <<"N", "(", ")">> [] l = 3 -> <<"ID", "(", ")">>
                 [] l = 4 -> <<"ID", "(", "E", ")">> [] l = 5 -> <<"N1", "(", "q", ")">>
                 [] l = 6 -> <<"N", "(", ")", "N1", "(", "q", ")">> [] l = 7 -> <<"E">> [] OTHER -> <<>>
LeadInc(l) == IF l = 7 THEN "#include \"c19_empty.h\"\n" ELSE ""
Modes == <<"src", "id">>

Piece(t, mode)     == IF mode = "id" THEN "ID(" \o t.s \o ")" ELSE t.s
PieceToks(t, mode) == IF mode = "id" THEN <<"ID", "(", t.s, ")">> ELSE <<t.s>>
Ws(t) == (IF t.bol THEN "\n" ELSE "") \o (IF t.hs THEN " " ELSE "")

(* the text from the first token's line on *)
Body(S, l, mode) ==
  FoldLeft(LAMBDA acc, i : acc \o Ws(S[i]) \o Piece(S[i], mode),
           (IF S[1].bol THEN "" ELSE LeadText(l)) \o (IF S[1].hs THEN " " ELSE "") \o Piece(S[1], mode),
           [i \in 1..(Len(S) - 1) |-> i + 1])
BodyToks(S, l, mode) ==
  FoldLeft(LAMBDA acc, i : acc \o PieceToks(S[i], mode), IF S[1].bol THEN <<>> ELSE LeadToks(l), [i \in 1..Len(S) |-> i])
Source(S, l, mode) ==
  Defs \o LeadInc(l) \o (IF S[1].bol /\ l # 0 THEN LeadText(l) \o "\n" ELSE "") \o Body(S, l, mode) \o "\n"
(* the preprocessor can produce the stream from this text: a first token that is not at_bol needs a lead-in
   on its line, and the text must lex to the tokens it was assembled from *)
Realisable(S, l, mode) == (S[1].bol \/ l # 0) /\ Lex(Body(S, l, mode)) = BodyToks(S, l, mode)

(* ---- the model ---------------------------------------------------------- *)
VARIABLES T, st, idx
vars == <<T, st, idx>>

EmitCases ==
  IF Emit
  THEN \A l \in 0..NLead, m \in 1..2 :
         LET id == (idx * (NLead + 1) + l) * 2 + (m - 1) IN
         IF id % Stride = Seed /\ Realisable(T, l, Modes[m])
         THEN CSVWrite("%1$s", <<ToJson([id |-> id, text |-> Source(T, l, Modes[m]), toks |-> Spell(T), lead |-> l, mode |-> Modes[m],
                                        flags |-> [i \in 1..Len(T) |-> (IF T[i].bol THEN "B" ELSE "-") \o (IF T[i].hs THEN "S" ELSE "-")],
                                        out |-> PTFinal(st')])>>, IOEnv.OUT)
         ELSE TRUE
  ELSE TRUE

Init == T = <<>> /\ st = PT0 /\ idx = 0
Choose == /\ T = <<>>
          /\ \E a \in 1..NK, b \in 1..NK, c \in 1..NK, f \in 1..NF, g \in 1..NF, h \in 1..NF :
               /\ T' = <<Tok(a, f), Tok(b, g), Tok(c, h)>>
               /\ idx' = ((((a - 1) * NK + (b - 1)) * NK + (c - 1)) * NF + (f - 1)) * NF * NF + (g - 1) * NF + (h - 1)
          /\ st' = PT0
Step == /\ T # <<>> /\ ~PTDone(T, st)
        /\ st' = PTStep(T, st, PFix, LineRule)
        /\ UNCHANGED <<T, idx>>
        /\ (IF PTDone(T, st') THEN EmitCases ELSE TRUE)
Next == Choose \/ Step
Spec == Init /\ [][Next]_vars

(* Level I refines Level A: the finished output re-lexes to the stream *)
PrintedFaithful == (T # <<>> /\ PTDone(T, st)) => Lex(PTFinal(st)) = Spell(T)
(* the loop state is what main.c says it is *)
LoopState == T # <<>> => /\ st.prev = st.i - 1
                         /\ (LineRule = "tokens" => st.line = st.i)
ASSUME KOK == \A k \in 1..NK : IsOneToken(K[k])
=============================================================================
