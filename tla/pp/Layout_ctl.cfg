SPECIFICATION Spec
CONSTANTS Seed = 0
 Stride = 1
 Emit = FALSE
INVARIANTS NaiveLines
CHECK_DEADLOCK FALSE
