SPECIFICATION FairSpec
CONSTANTS Family = "F5"
 Seed = 0
 Stride = 1
 Emit = FALSE
 MaxSteps = 400
 ArgOrder = "any"
 Unspec = TRUE
 EmptyFix = TRUE
 PFix = TRUE
 HideFix = TRUE
PROPERTIES Terminates
CHECK_DEADLOCK FALSE
