------------------------------- MODULE Macro -------------------------------
(* C09 (and the flag-propagation half of C19).

   Dave Prosser's macro-expansion algorithm — the algorithm behind C11 6.10.3,
   and the one preprocess.c says it implements — as a state machine.

   token      [s, sp, hs, der, tv]   spelling, preceded by white space, hide set.
                                 WHITE SPACE (Level A, 6.10.3.2p2 "each occurrence
                                 of white space between the argument's preprocessing
                                 tokens becomes a single space"): a token is preceded
                                 by white space iff white space is written before it in
                                 the text it was written in (source or replacement
                                 list); the first token of what replaces an item (macro
                                 name or invocation, parameter, `#x`, `l ## r`,
                                 __LINE__ ...) stands in that item's place and takes ITS
                                 white space; the token after it keeps its own.  Macro
                                 replacement never creates white space.  Where an item
                                 VANISHES (empty expansion, empty argument, placemarker,
                                 absent __VA_OPT__) the standard does not say whether
                                 the white space written before it still separates its
                                 neighbours: der = "the blank before this token is
                                 optional", tv = "a blank after this token is optional";
                                 a stringized text carries a TAB at such a place and the
                                 harness accepts a blank or nothing there.
   macro      [name, fun, params, va, body]     (cs.defs, fixed per behaviour)
   frame      [inp, out, call]   a token list being scanned; frame 1 is the
                                 source text, deeper frames are arguments being
                                 completely macro-replaced in isolation (6.10.3.1)
   call       the pending function-like invocation of a frame: raw arguments,
              pre-expanded arguments, which one is being expanded
   ctr        __COUNTER__ (machine state: an argument is replaced once)

   actions    Pass            preprocess2: ordinary / hidden token     -> out
              NotInvoked      function-like name not followed by `(`    -> out
              Dyn             __COUNTER__ / __LINE__ / __FILE__
              ExpandObj       expand_macro, object-like:  hs' = hs(T) \cup {T}
              CollectArgs     read_macro_args (nesting, commas, variadics)
              ArgError / Unterminated        diagnostics expected
              PreExpandArg / ArgDone         6.10.3.1 (not for # / ## operands)
              ExpandFunc      subst + hs' = (hs(T) \cap hs(rparen)) \cup {T}
              Finish          frame 1 exhausted: result = out of frame 1

   Level I = Level A: chibicc claims exactly this algorithm; the `sp` flags
   follow expand_macro/subst/new_token (pinned rule, or with EmptyFix the
   proposed repair) and feed Printer.tla's print_tokens model (family "P").

   TLC checks (Macro_mc*.cfg): NeverExpandHidden, StepBound (termination:
   every behaviour finishes within MaxSteps), RescanStable (rescanning the
   result expands nothing), Deterministic result for any order of argument
   pre-expansion (ArgOrder = "any" explores all orders; FinalAgree compares
   with the left-to-right result computed by the functional definition
   RefExpand), PrintedFaithful (C19) and <>Finished under weak fairness.
   Generation (Macro_gen.cfg): one NDJSON line per finished behaviour.
   Hide-set rule: HideSet.tla (shared with MacroTrace.tla, the H3 trace spec).  *)
EXTENDS Integers, Sequences, SequencesExt, FiniteSets, TLC, Json, CSV, IOUtils, MacroFamilies, HideSet

CONSTANTS Family,     \* "F1" .. "F6", "P", "PT" : which enumerated family of inputs
          Seed, Stride, \* quick tier: only cases with (idx * 31 + Seed) % Stride = 0
          Emit,       \* TRUE: write every finished behaviour to IOEnv.OUT
          MaxSteps,   \* bound asserted by StepBound
          ArgOrder,   \* "ltr": arguments pre-expanded left to right; "any": every order
          Unspec,     \* TRUE: at a 6.10.3.4p4 situation explore both conforming hide sets
          EmptyFix,   \* FALSE: pinned expand_macro flag copy; TRUE: proposed repair (flags or-ed onto the next token)
          PFix,       \* print_tokens as modelled by Printer.tla: TRUE with the proposed paste-avoidance test
          HideFix     \* TRUE: Prosser's hide sets; FALSE: sensitivity control (function-like expansion forgets the macro's own name)

VARIABLES cs, stack, ctr, steps, flags, status, last
vars == <<cs, stack, ctr, steps, flags, status, last>>

(* ------------------------------------------------------------ tokens *)
Tk(it)   == [s |-> it.s, sp |-> it.w # "", hs |-> {}, der |-> FALSE, tv |-> FALSE]
Tks(its) == [i \in 1..Len(its) |-> Tk(its[i])]
AddHS(ts, H) == [i \in 1..Len(ts) |-> [ts[i] EXCEPT !.hs = @ \cup H]]
WithSp(ts, sp) == IF ts = <<>> THEN ts ELSE [ts EXCEPT ![1].sp = sp]
(* ts stands in the place of item t (fields sp, der, tv) *)
InPlace(ts, t) == IF ts = <<>> THEN ts
                  ELSE LET a == [ts EXCEPT ![1].sp = t.sp, ![1].der = @ \/ t.der] IN [a EXCEPT ![Len(a)].tv = @ \/ t.tv]
(* an item preceded by white space (or by an optional blank) vanished just before ts / just after ts *)
VanishBefore(ts, v) == IF ts = <<>> \/ ~v \/ ts[1].sp THEN ts ELSE [ts EXCEPT ![1].der = TRUE]
VanishAfter(ts, v)  == IF ts = <<>> \/ ~v THEN ts ELSE [ts EXCEPT ![Len(ts)].tv = TRUE]
SpellT(ts) == [i \in 1..Len(ts) |-> ts[i].s]

Names(c) == {c.defs[i].name : i \in DOMAIN c.defs}
Def(c, n) == c.defs[CHOOSE i \in DOMAIN c.defs : c.defs[i].name = n]
Dynamic == {"__COUNTER__", "__LINE__", "__FILE__"}

PN(m) == IF m.va THEN Append(m.params, "__VA_ARGS__") ELSE m.params
PIdx(m, s) == IF \E i \in 1..Len(PN(m)) : PN(m)[i] = s THEN CHOOSE i \in 1..Len(PN(m)) : PN(m)[i] = s ELSE 0

(* index of the ")" matching the "(" at position p of ts (token records or items); 0 if none *)
RECURSIVE MatchFrom(_, _, _)
MatchFrom(ts, i, lvl) ==
  IF i > Len(ts) THEN 0
  ELSE IF ts[i].s = "(" THEN MatchFrom(ts, i + 1, lvl + 1)
  ELSE IF ts[i].s = ")" THEN (IF lvl = 1 THEN i ELSE MatchFrom(ts, i + 1, lvl - 1))
  ELSE MatchFrom(ts, i + 1, lvl)
Match(ts, p) == MatchFrom(ts, p, 0)

(* read_macro_arg_one / read_macro_args: split ts[a..b] at top-level commas, at most maxp parts (0 = no limit) *)
RECURSIVE Split(_, _, _, _, _, _)
Split(ts, i, b, lvl, acc, maxp) ==
  IF i > b THEN acc
  ELSE IF ts[i].s = "," /\ lvl = 0 /\ (maxp = 0 \/ Len(acc) < maxp)
       THEN Split(ts, i + 1, b, lvl, Append(acc, <<>>), maxp)
  ELSE Split(ts, i + 1, b, IF ts[i].s = "(" THEN lvl + 1 ELSE IF ts[i].s = ")" THEN lvl - 1 ELSE lvl,
             [acc EXCEPT ![Len(acc)] = Append(@, ts[i])], maxp)

(* arguments of an invocation whose "(" is ts[2] and ")" is ts[close];
   [ok, raw, omitted]; omitted: the variable argument is absent (not merely empty) *)
Args(m, ts, close) ==
  LET n   == Len(m.params)
      raw == Split(ts, 3, close - 1, 0, << <<>> >>, IF m.va THEN n + 1 ELSE 0)
  IN IF ~m.va
     THEN IF n = 0 THEN [ok |-> close = 3, raw |-> <<>>, omitted |-> FALSE]
          ELSE [ok |-> Len(raw) = n, raw |-> raw, omitted |-> FALSE]
     ELSE IF Len(raw) = n + 1 THEN [ok |-> TRUE, raw |-> raw, omitted |-> n = 0 /\ raw[1] = <<>>]
          ELSE IF Len(raw) = n /\ n >= 1 THEN [ok |-> TRUE, raw |-> Append(raw, <<>>), omitted |-> TRUE]
          ELSE [ok |-> FALSE, raw |-> raw, omitted |-> FALSE]

(* ------------------------------------------------- definition guards *)
(* 6.10.3.2p1, 6.10.3.3p1, 6.10.3p5 constraints ("constraint": a diagnostic is
   expected) and shapes left out of the domain ("excluded": consecutive ##,
   __VA_OPT__ next to ## (C2x corner), `, ## __VA_ARGS__` next to another ##) *)
DefClass(m) ==
  LET b == m.body
      n == Len(b)
      S(i) == IF i >= 1 /\ i <= n THEN b[i].s ELSE ""
      VaOptBad(i) == S(i) = "__VA_OPT__" /\ (S(i + 1) # "(" \/ Match(b, i + 1) = 0)
      VaOptEdge(i) == /\ S(i) = "__VA_OPT__" /\ ~VaOptBad(i)
                      /\ LET c == Match(b, i + 1) IN
                         \/ S(i - 1) \in {"##", "#"} \/ S(c + 1) = "##" \/ S(i + 2) = "##" \/ S(c - 1) = "##"
                         \/ \E j \in (i + 2)..(c - 1) : S(j) = "__VA_OPT__"
      Gnu(i) == S(i) = "," /\ S(i + 1) = "##" /\ S(i + 2) = "__VA_ARGS__" /\ m.va
  IN IF n > 0 /\ (S(1) = "##" \/ S(n) = "##") THEN "constraint"
     ELSE IF m.fun /\ \E i \in 1..n : S(i) = "#" /\ PIdx(m, S(i + 1)) = 0 THEN "constraint"
     ELSE IF ~m.va /\ \E i \in 1..n : S(i) \in {"__VA_ARGS__", "__VA_OPT__"} THEN "constraint"
     ELSE IF \E i \in 1..n : VaOptBad(i) THEN "constraint"
     ELSE IF \E i \in 1..n : S(i) = "##" /\ S(i + 1) = "##" THEN "excluded"
     ELSE IF \E i \in 1..n : VaOptEdge(i) THEN "excluded"
     ELSE IF \E i \in 1..n : Gnu(i) /\ (S(i - 1) = "##" \/ S(i + 3) = "##") THEN "excluded"
     ELSE "ok"

(* ---------------------------------------------------- # and ## *)
EscCh(c) == IF c \in {"\"", "\\"} THEN "\\" \o c ELSE c
Esc(s)   == IF KindOf(s) \in {"str", "chr"}                                   \* 6.10.3.2p2; quote_string
            THEN FoldLeft(LAMBDA a, j : a \o EscCh(Ch(s, j)), "", [j \in 1..Len(s) |-> j])
            ELSE s
(* stringize / join_tokens: one blank where the argument had white space, none at the ends; a TAB where
   the blank is optional (a vanished item stood there) *)
OptBlank == "\t"
StrOf(ts) == "\"" \o FoldLeft(LAMBDA a, j : a \o (IF j = 1 THEN "" ELSE IF ts[j].der \/ ts[j - 1].tv THEN OptBlank
                                                  ELSE IF ts[j].sp THEN " " ELSE "") \o Esc(ts[j].s),
                              "", [j \in 1..Len(ts) |-> j]) \o "\""
(* 6.10.3.2p2: "If the replacement that results is not a valid character string literal, the behavior
   is undefined" — a lone backslash (pp-token of the category "other") is copied as it is *)
RECURSIVE EscSeqOK(_, _)
EscSeqOK(s, i) == IF i >= Len(s) THEN TRUE
                  ELSE IF Ch(s, i) # "\\" THEN EscSeqOK(s, i + 1)
                  ELSE IF Ch(s, i + 1) \in {"n", "t", "\\", "'", "\"", "?", "a", "b", "f", "r", "v", "0", "1", "2", "3", "4", "5", "6", "7"} THEN EscSeqOK(s, i + 2)
                  ELSE IF Ch(s, i + 1) = "x" /\ Ch(s, i + 2) \in Digit \cup {"a", "b", "c", "d", "e", "f", "A", "B", "C", "D", "E", "F"} THEN EscSeqOK(s, i + 3)
                  ELSE FALSE
StrValid(str) == LET s == FoldLeft(LAMBDA a, j : a \o (IF Ch(str, j) = OptBlank THEN " " ELSE Ch(str, j)), "", [j \in 1..Len(str) |-> j])
                 IN IsOneToken(s) /\ EscSeqOK(s, 2)

PMTok(sp) == [s |-> "", sp |-> sp, hs |-> {}, der |-> FALSE, tv |-> FALSE]       \* placemarker (6.10.3.3p2); also what an item that vanishes leaves behind
(* Prosser's glue; a placemarker born from two placemarkers is marked (der) for finding classification *)
Glue(l, r) == IF l.s = "" /\ r.s = "" THEN [l EXCEPT !.der = TRUE]
              ELSE IF l.s = "" THEN [r EXCEPT !.sp = l.sp]
              ELSE IF r.s = "" THEN l
              ELSE [s |-> l.s \o r.s, sp |-> l.sp, hs |-> l.hs \cap r.hs, der |-> l.der, tv |-> r.tv]   \* the new token stands where its operands stood

(* subst(): the replacement list `b` of m with the parameters replaced.
   raw[p] = argument tokens as written, exp[p] = completely macro-replaced
   (only consulted where 6.10.3.1 asks for it).  An item that produces nothing
   leaves a placemarker carrying its white space; the placemarkers that are
   not consumed by ## are folded away at the end (VanishBefore / VanishAfter).
   Result [out, undef, pmpm, vcarry]; vcarry: nothing is left and white space
   was written before something that vanished. *)
StrTok(ts, sp) == [s |-> StrOf(ts), sp |-> sp, hs |-> {}, der |-> FALSE, tv |-> FALSE]
FoldPM(ts) ==       \* (lead: something vanished in front of the first token that is left, whose own white space
                    \*  then lies INSIDE what replaces the item, after nothing: optional as well)
  LET r == FoldLeft(LAMBDA st, j :
                      IF ts[j].s = "" THEN [st EXCEPT !.carry = @ \/ ts[j].sp, !.lead = (st.out = <<>>)]
                      ELSE [out |-> st.out \o (IF st.lead /\ ts[j].sp THEN <<[ts[j] EXCEPT !.der = TRUE]>> ELSE VanishBefore(<<ts[j]>>, st.carry)),
                            carry |-> FALSE, lead |-> FALSE],
                    [out |-> <<>>, carry |-> FALSE, lead |-> FALSE], [j \in 1..Len(ts) |-> j])
  IN [out |-> VanishAfter(r.out, r.carry), vcarry |-> r.carry /\ r.out = <<>>]

RECURSIVE SubstBody(_, _, _, _, _)
SubstBody(m, b, raw, exp, omitted) ==
  LET n == Len(b)
      S(i) == IF i >= 1 /\ i <= n THEN b[i].s ELSE ""
      P(i) == IF m.fun /\ i >= 1 /\ i <= n THEN PIdx(m, b[i].s) ELSE 0
      va == Len(PN(m))
      OrPM(ts, sp) == IF ts = <<>> THEN <<PMTok(sp)>> ELSE WithSp(ts, sp)
      Step(acc, i) ==
        IF acc.skip > 0 THEN [acc EXCEPT !.skip = @ - 1]
        ELSE IF S(i) = "##" THEN [acc EXCEPT !.pend = TRUE]
        ELSE
        LET t == b[i]
            sp == t.w # ""
            o == \* operand produced at position i: [ts, skip, bad]
              IF m.fun /\ S(i) = "#"
              THEN [ts |-> <<StrTok(raw[P(i + 1)], sp)>>, skip |-> 1, bad |-> ~StrValid(StrOf(raw[P(i + 1)]))]
              ELSE IF m.va /\ S(i) = "," /\ S(i + 1) = "##" /\ S(i + 2) = "__VA_ARGS__"
              THEN (IF omitted THEN [ts |-> <<PMTok(sp)>>, skip |-> 2, bad |-> FALSE]              \* [GNU] comma deleted
                    ELSE [ts |-> <<Tk(t)>> \o (IF raw[va] = <<>> THEN <<PMTok(FALSE)>> ELSE raw[va]), skip |-> 2, bad |-> FALSE])   \* (as written in the invocation: gcc)
              ELSE IF m.va /\ S(i) = "__VA_OPT__"
              THEN LET c == Match(b, i + 1)
                       r == SubstBody(m, SubSeq(b, i + 2, c - 1), raw, exp, omitted)
                   IN [ts |-> IF raw[va] # <<>> THEN OrPM(r.out, sp \/ (r.out = <<>> /\ r.vcarry)) ELSE <<PMTok(sp)>>, skip |-> c - i, bad |-> r.undef]
              ELSE IF P(i) # 0
              THEN (IF acc.pend \/ S(i + 1) = "##"
                    THEN [ts |-> OrPM(raw[P(i)], sp), skip |-> 0, bad |-> FALSE]
                    ELSE [ts |-> OrPM(exp[P(i)], sp), skip |-> 0, bad |-> FALSE])
              ELSE [ts |-> <<Tk(t)>>, skip |-> 0, bad |-> FALSE]
        IN IF acc.pend
           THEN LET l == IF acc.out = <<>> THEN PMTok(FALSE) ELSE Last(acc.out)
                    r == o.ts[1]
                IN [out |-> (IF acc.out = <<>> THEN <<>> ELSE Front(acc.out)) \o <<Glue(l, r)>> \o Tail(o.ts),
                    pend |-> FALSE, skip |-> o.skip,
                    undef |-> acc.undef \/ o.bad \/ (l.s # "" /\ r.s # "" /\ ~IsOneToken(l.s \o r.s)),
                    pmpm |-> acc.pmpm \/ (l.s = "" /\ l.der)]
           ELSE [acc EXCEPT !.out = @ \o o.ts, !.skip = o.skip, !.undef = @ \/ o.bad]
      r == FoldLeft(Step, [out |-> <<>>, pend |-> FALSE, skip |-> 0, undef |-> FALSE, pmpm |-> FALSE],
                    [i \in 1..n |-> i])
      f == FoldPM(r.out)
  IN [out |-> f.out, undef |-> r.undef, pmpm |-> r.pmpm, vcarry |-> f.vcarry]

(* [GNU] `, ## __VA_ARGS__`: gcc and clang delete the comma only when the variable argument is
   absent, and keep it when it is present but empty (`f(1,)`); the GNU documentation says "omitted or
   empty".  Invocations with a present-but-empty variable argument of such a macro are excluded. *)
HasGnuComma(m) == \E i \in 1..(Len(m.body) - 2) : m.body[i].s = "," /\ m.body[i + 1].s = "##" /\ m.body[i + 2].s = "__VA_ARGS__"

(* __VA_OPT__ (C2x): present iff the variable argument has tokens.  C2x/C++20 decide that after macro
   replacement of the argument (F(EMPTY) counts as empty), chibicc before; the machine expands the
   argument whenever the body has __VA_OPT__ and excludes the inputs where the two readings differ. *)
HasVaOpt(m) == m.va /\ \E i \in 1..Len(m.body) : m.body[i].s = "__VA_OPT__"

(* parameter p (index into PN(m)) must be completely macro-replaced: it occurs
   somewhere not as an operand of # or ##  (6.10.3.1) *)
NeedExp(m, p) ==
  LET b == m.body
      S(i) == IF i >= 1 /\ i <= Len(b) THEN b[i].s ELSE ""
  IN \/ \E i \in 1..Len(b) : PIdx(m, S(i)) = p /\ S(i - 1) # "##" /\ S(i + 1) # "##" /\ S(i - 1) # "#"
     \/ (HasVaOpt(m) /\ p = Len(PN(m)))

(* ------------------------------------------------------ input families *)
NCases == NCasesOf(Family)     \* MacroFamilies.tla: CaseAt(Family, i) = [fam, id, defs, inv, want]
Selected(i) == (i * 31 + Seed) % Stride = 0

(* ------------------------------------------------------------- machine *)
NoCall == [on |-> FALSE, name |-> "", hs |-> {}, sp |-> FALSE, der |-> FALSE, tv |-> FALSE, raw |-> <<>>, exp |-> <<>>, todo |-> {}, cur |-> 0, omitted |-> FALSE]
Frame(inp) == [inp |-> inp, out |-> <<>>, call |-> NoCall]
Top == stack[Len(stack)]
SetTop(f) == [stack EXCEPT ![Len(stack)] = f]
Running == status = "run"
Scanning == Running /\ ~Top.call.on /\ Top.inp # <<>>
T0 == Top.inp[1]
IsMacro(t) == t.s \in Names(cs) /\ t.s \notin Dynamic
Expandable(t) == IsMacro(t) /\ t.s \notin t.hs                     \* expand_macro: hideset_contains
Step == steps' = steps + 1
ClassOfDefs(c) == IF \E i \in DOMAIN c.defs : DefClass(c.defs[i]) = "constraint" THEN "constraint"
                  ELSE IF \E i \in DOMAIN c.defs : DefClass(c.defs[i]) = "excluded" THEN "excluded"
                  ELSE "ok"

(* family F16 (DirLines.tla): the verdict of the reader of directive lines on the case's text *)
DirFlags(c) == IF "dcls" \notin DOMAIN c \/ c.dcls = "ok" THEN {} ELSE IF c.dcls = "bad" THEN {"baddirective"} ELSE {"excluded"}
Init == /\ \E i \in 1..NCases : Selected(i) /\ cs = CaseAt(Family, i)
        /\ stack = <<Frame(Tks(cs.inv))>>
        /\ ctr = 0 /\ steps = 0
        /\ flags = (IF ClassOfDefs(cs) = "ok" THEN {} ELSE {ClassOfDefs(cs)}) \cup DirFlags(cs)
        /\ status = IF ClassOfDefs(cs) = "ok" /\ DirFlags(cs) = {} THEN "run" ELSE "stop"
        /\ last = [act |-> "init", name |-> "", hs |-> {}]

(* `res` replaces the item t (a macro name or a whole invocation; t has the fields sp, der, tv) in front of
   `rest`, behind `out`.  If nothing is left of it the item vanished: v says that white space (or an optional
   blank) stood before it.  The `sp` written onto the next token is expand_macro's flag handling (it feeds
   print_tokens: Printer.tla), pinned rule or with EmptyFix the repair (flags or-ed onto the next token). *)
VanishV(t, r) == t.sp \/ t.der \/ t.tv \/ r.vcarry
AfterEmpty(rest, t, v, lead) == IF rest = <<>> THEN rest
                                ELSE [rest EXCEPT ![1].der = @ \/ (v /\ ~rest[1].sp) \/ (lead /\ rest[1].sp),
                                                  ![1].sp = IF EmptyFix THEN @ \/ t.sp ELSE t.sp]
SpliceInp(res, rest, t, v, lead) == IF res = <<>> THEN AfterEmpty(rest, t, v, lead) ELSE InPlace(res, t) \o rest
SpliceOut(res, out, v) == IF res = <<>> THEN VanishAfter(out, v) ELSE out

Pass == /\ Scanning
        /\ ~Expandable(T0) /\ T0.s \notin Dynamic
        /\ stack' = SetTop([Top EXCEPT !.inp = Tail(@), !.out = Append(@, T0)])
        /\ flags' = IF T0.s = "(" /\ Top.out # <<>> /\ Expandable(Last(Top.out)) THEN flags \cup {"lateparen"} ELSE flags
        /\ last' = [act |-> "pass", name |-> T0.s, hs |-> T0.hs]
        /\ Step /\ UNCHANGED <<cs, ctr, status>>

NotInvoked == /\ Scanning
              /\ Expandable(T0) /\ Def(cs, T0.s).fun
              /\ (IF Len(Top.inp) = 1 THEN TRUE ELSE Top.inp[2].s # "(")
              /\ stack' = SetTop([Top EXCEPT !.inp = Tail(@), !.out = Append(@, T0)])
              /\ last' = [act |-> "notinvoked", name |-> T0.s, hs |-> T0.hs]
              /\ Step /\ UNCHANGED <<cs, ctr, flags, status>>

DynTok(t) == [s |-> IF t.s = "__COUNTER__" THEN ToString(ctr) ELSE IF t.s = "__LINE__" THEN "<LINE>" ELSE "<FILE>",
              sp |-> t.sp, hs |-> {}, der |-> t.der, tv |-> t.tv]          \* the new token stands where the name stood
Dyn == /\ Scanning
       /\ T0.s \in Dynamic
       /\ stack' = SetTop([Top EXCEPT !.inp = <<DynTok(T0)>> \o Tail(@)])
       /\ ctr' = IF T0.s = "__COUNTER__" THEN ctr + 1 ELSE ctr
       /\ last' = [act |-> "dyn", name |-> T0.s, hs |-> T0.hs]
       /\ Step /\ UNCHANGED <<cs, flags, status>>

ExpandObj ==
  /\ Scanning
  /\ Expandable(T0) /\ ~Def(cs, T0.s).fun
  /\ LET m == Def(cs, T0.s)
         r == SubstBody(m, m.body, <<>>, <<>>, FALSE)
         res == AddHS(r.out, ObjHS(T0.hs, T0.s))
     IN /\ stack' = SetTop([Top EXCEPT !.inp = SpliceInp(res, Tail(Top.inp), T0, VanishV(T0, r), Top.out = <<>>), !.out = SpliceOut(res, @, VanishV(T0, r))])
        /\ flags' = flags \cup (IF r.undef THEN {"undef"} ELSE {}) \cup (IF r.pmpm THEN {"pmpm"} ELSE {})
                          \cup (IF \E i \in DOMAIN m.body : m.body[i].s = "##" THEN {"objpaste"} ELSE {})
  /\ last' = [act |-> "obj", name |-> T0.s, hs |-> T0.hs]
  /\ Step /\ UNCHANGED <<cs, ctr, status>>

Invoked == Scanning /\ Expandable(T0) /\ Def(cs, T0.s).fun /\ Len(Top.inp) >= 2 /\ Top.inp[2].s = "("

Unterminated == /\ Invoked /\ Match(Top.inp, 2) = 0
                /\ flags' = flags \cup {"unterminated"} /\ status' = "stop"
                /\ last' = [act |-> "unterminated", name |-> T0.s, hs |-> T0.hs]
                /\ Step /\ UNCHANGED <<cs, stack, ctr>>

ArgError == /\ Invoked /\ Match(Top.inp, 2) # 0
            /\ ~Args(Def(cs, T0.s), Top.inp, Match(Top.inp, 2)).ok
            /\ flags' = flags \cup {"argerr"} /\ status' = "stop"
            /\ last' = [act |-> "argerr", name |-> T0.s, hs |-> T0.hs]
            /\ Step /\ UNCHANGED <<cs, stack, ctr>>

(* read_macro_args + the hide set of the expansion: Prosser's (hs(T) \cap hs(rparen)) \cup {T}.
   When hs(T) has names the ")" lacks, the invocation straddles the end of an
   enclosing replacement list: 6.10.3.4p4 leaves it unspecified whether those
   enclosing macros are still "being replaced"; with Unspec both choices are explored. *)
CollectArgs ==
  /\ Invoked /\ Match(Top.inp, 2) # 0
  /\ LET m == Def(cs, T0.s)
         c == Match(Top.inp, 2)
         a == Args(m, Top.inp, c)
         inter == T0.hs \cap Top.inp[c].hs
     IN /\ a.ok
        /\ \E R \in (IF Unspec /\ inter # T0.hs THEN {Top.inp[c].hs, T0.hs} ELSE {Top.inp[c].hs}) :   \* R = hs(T): the other conforming choice
             stack' = SetTop([Top EXCEPT !.inp = SubSeq(Top.inp, c + 1, Len(Top.inp)),
                                         !.call = [on |-> TRUE, name |-> T0.s,
                                                   hs |-> IF HideFix THEN FunHS(T0.hs, R, T0.s) ELSE T0.hs \cap R, sp |-> T0.sp, der |-> T0.der, tv |-> Top.inp[c].tv,
                                                   raw |-> a.raw, exp |-> [p \in 1..Len(a.raw) |-> <<>>],
                                                   todo |-> {p \in 1..Len(a.raw) : NeedExp(m, p) /\ a.raw[p] # <<>>},
                                                   cur |-> 0, omitted |-> a.omitted]])
        /\ flags' = flags \cup (IF inter # T0.hs THEN {"straddle"} ELSE {})
                          \cup (IF m.va /\ a.raw[Len(a.raw)] = <<>> /\ ~a.omitted /\ HasGnuComma(m) THEN {"excluded"} ELSE {})
  /\ last' = [act |-> "fun", name |-> T0.s, hs |-> T0.hs]
  /\ Step /\ UNCHANGED <<cs, ctr, status>>

PreExpandArg ==
  /\ Running /\ Top.call.on /\ Top.call.cur = 0 /\ Top.call.todo # {}
  /\ \E p \in (IF ArgOrder = "any" THEN Top.call.todo ELSE {CHOOSE q \in Top.call.todo : \A r \in Top.call.todo : q <= r}) :
       stack' = Append(SetTop([Top EXCEPT !.call.cur = p]), Frame(Top.call.raw[p]))
  /\ last' = [act |-> "prearg", name |-> Top.call.name, hs |-> {}]
  /\ Step /\ UNCHANGED <<cs, ctr, flags, status>>

ArgDone ==
  /\ Running /\ Len(stack) > 1 /\ ~Top.call.on /\ Top.inp = <<>>
  /\ LET par == stack[Len(stack) - 1]
         p == par.call.cur
     IN stack' = SubSeq(stack, 1, Len(stack) - 2) \o
                  <<[par EXCEPT !.call.exp[p] = Top.out, !.call.todo = @ \ {p}, !.call.cur = 0]>>
  /\ last' = [act |-> "argdone", name |-> "", hs |-> {}]
  /\ Step /\ UNCHANGED <<cs, ctr, flags, status>>

ExpandFunc ==
  /\ Running /\ Top.call.on /\ Top.call.cur = 0 /\ Top.call.todo = {}
  /\ LET cl == Top.call
         m == Def(cs, cl.name)
         r == SubstBody(m, m.body, cl.raw, cl.exp, cl.omitted)
         res == AddHS(r.out, cl.hs)
     IN /\ stack' = SetTop([Top EXCEPT !.inp = SpliceInp(res, Top.inp, cl, VanishV(cl, r), Top.out = <<>>), !.out = SpliceOut(res, @, VanishV(cl, r)), !.call = NoCall])
        /\ flags' = flags \cup (IF r.undef THEN {"undef"} ELSE {})
                          \cup (IF r.pmpm THEN {"pmpm"} ELSE {})
                          \cup (IF HasVaOpt(m) /\ cl.raw[Len(cl.raw)] # <<>> /\ cl.exp[Len(cl.raw)] = <<>> THEN {"excluded"} ELSE {})
  /\ last' = [act |-> "subst", name |-> Top.call.name, hs |-> Top.call.hs]
  /\ Step /\ UNCHANGED <<cs, ctr, status>>

ClassOf(fl) == IF fl \cap {"constraint", "argerr", "unterminated", "undef", "baddirective"} # {} THEN "diag"
               ELSE IF "excluded" \in fl THEN "excluded"
               ELSE "ok"

Result == SpellT(stack[1].out)
Record(st, fl) == [fam |-> cs.fam, id |-> cs.id, tag |-> cs.tag, defs |-> cs.defs, inv |-> cs.inv,
                   text |-> IF "text" \in DOMAIN cs THEN cs.text ELSE "",
                   out |-> Result, sp |-> [i \in 1..Len(stack[1].out) |-> stack[1].out[i].sp],
                   flags |-> SetToSeq(fl), class |-> ClassOf(fl), steps |-> steps, ctr |-> ctr]
EmitRec(fl) == IF Emit THEN CSVWrite("%1$s", <<ToJson(Record("done", fl))>>, IOEnv.OUT) ELSE TRUE

Finish == /\ Running /\ Len(stack) = 1 /\ ~Top.call.on /\ Top.inp = <<>>
          /\ status' = "done"
          /\ EmitRec(flags)
          /\ last' = [act |-> "finish", name |-> "", hs |-> {}]
          /\ UNCHANGED <<cs, stack, ctr, steps, flags>>
(* a stopped behaviour (diagnostic expected / excluded) is emitted too: replay checks that the
   compiler answers with output or a diagnostic, never a crash or a hang *)
Stopped == /\ status = "stop"
           /\ status' = "stopped"
           /\ EmitRec(flags)
           /\ last' = [act |-> "stopped", name |-> "", hs |-> {}]
           /\ UNCHANGED <<cs, stack, ctr, steps, flags>>

Next == Pass \/ NotInvoked \/ Dyn \/ ExpandObj \/ Unterminated \/ ArgError \/ CollectArgs
        \/ PreExpandArg \/ ArgDone \/ ExpandFunc \/ Finish \/ Stopped
Spec == Init /\ [][Next]_vars
FairSpec == Spec /\ WF_vars(Next)

(* ---------------------------------------------------------- properties *)
Finished == status \in {"done", "stopped"}
Terminates == <>Finished                                       \* under FairSpec
StepBound == steps <= MaxSteps                                  \* every behaviour ends within MaxSteps steps
NeverExpandHidden == last.act \in {"obj", "fun"} => last.name \notin last.hs
(* rescanning the result replaces nothing: every macro name left in it is hidden, or is a
   function-like name not followed by "(" — unless a "(" arrived after the name had been
   passed (`f LP 1)`: 6.10.3.4 does not re-examine it; flag lateparen) *)
RescanStable ==
  status = "done" /\ "lateparen" \notin flags =>
    LET o == stack[1].out IN
    \A i \in 1..Len(o) : Expandable(o[i]) => Def(cs, o[i].s).fun /\ (i = Len(o) \/ o[i + 1].s # "(")
(* C19: what print_tokens writes for the result re-lexes to the result *)
PrintedFaithful == status = "done" /\ ClassOf(flags) = "ok" /\ BAD \notin {Result[i] : i \in DOMAIN Result}
                   => Faithful(stack[1].out, PFix)

(* functional definition of the same expansion (left-to-right argument order, Prosser hide
   sets): the machine must produce this result for every order of argument pre-expansion *)
RECURSIVE RefExpand(_, _, _)
RefExpand(c, ts, fuel) ==
  IF ts = <<>> \/ fuel = 0 THEN ts
  ELSE LET t == ts[1] rest == Tail(ts) IN
    IF ~(t.s \in Names(c) /\ t.s \notin Dynamic /\ t.s \notin t.hs) THEN <<t>> \o RefExpand(c, rest, fuel)
    ELSE LET m == Def(c, t.s) IN
      IF ~m.fun THEN RefExpand(c, InPlace(AddHS(SubstBody(m, m.body, <<>>, <<>>, FALSE).out, t.hs \cup {t.s}), t) \o rest, fuel - 1)
      ELSE IF rest = <<>> \/ rest[1].s # "(" \/ Match(ts, 2) = 0 \/ ~Args(m, ts, Match(ts, 2)).ok
           THEN <<t>> \o RefExpand(c, rest, fuel)
      ELSE LET cl == Match(ts, 2)
               a == Args(m, ts, cl)
               ex == [p \in 1..Len(a.raw) |-> IF NeedExp(m, p) THEN RefExpand(c, a.raw[p], fuel - 1) ELSE <<>>]
           IN RefExpand(c, InPlace(AddHS(SubstBody(m, m.body, a.raw, ex, a.omitted).out, (t.hs \cap ts[cl].hs) \cup {t.s}), t)
                           \o SubSeq(ts, cl + 1, Len(ts)), fuel - 1)
(* (the functional definition does not track where items vanished: stringized texts are compared without their blanks) *)
Squash(sps) == [i \in DOMAIN sps |-> IF KindOf(sps[i]) = "str"
                                     THEN FoldLeft(LAMBDA a, j : IF Ch(sps[i], j) \in {" ", OptBlank} THEN a ELSE a \o Ch(sps[i], j), "", [j \in 1..Len(sps[i]) |-> j])
                                     ELSE sps[i]]
DynFams == {"F6", "F13"}      \* families with __COUNTER__: one order of argument pre-expansion only
FinalAgree == status = "done" /\ "straddle" \notin flags /\ cs.fam \notin DynFams => Squash(Result) = Squash(SpellT(RefExpand(cs, Tks(cs.inv), MaxSteps)))

(* 6.10.3.5: the machine prints what the standard prints for its own examples *)
StandardExamples == status = "done" /\ cs.want # "" => Result = Lex(cs.want)
=============================================================================
