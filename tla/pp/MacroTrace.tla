----------------------------- MODULE MacroTrace -----------------------------
(* C09 trace validation.  Every macro expansion the real preprocessor performed
   (hook H3 in expand_macro: macro name, kind, hide set of the macro token,
   of the closing parenthesis, and the hide set given to the result) must be a
   step of Macro.tla's ExpandObj / CollectArgs+ExpandFunc / Dyn:
     - the name is not in the token's hide set           (NeverExpandHidden)
     - object-like:   hout = ObjHS(hin, m)
     - function-like: hout = FunHS(hin, hrp, m)
   Executions of several processes are concatenated with "reset" events.    *)
EXTENDS Integers, Sequences, TLC, Json, IOUtils, HideSet

Tr == ndJsonDeserialize(IOEnv.TRACE)
ToSet(q) == {q[i] : i \in DOMAIN q}

VARIABLES l
vars == <<l>>
Init == l = 1
Ev(k) == l <= Len(Tr) /\ Tr[l].e = "exp" /\ Tr[l].k = k /\ l' = l + 1

Obj == /\ Ev("obj")
       /\ Tr[l].m \notin ToSet(Tr[l].hin)
       /\ ToSet(Tr[l].hout) = ObjHS(ToSet(Tr[l].hin), Tr[l].m)
Fun == /\ Ev("fun")
       /\ Tr[l].m \notin ToSet(Tr[l].hin)
       /\ ToSet(Tr[l].hout) = FunHS(ToSet(Tr[l].hin), ToSet(Tr[l].hrp), Tr[l].m)
Dyn == /\ Ev("dyn")
       /\ Tr[l].m \notin ToSet(Tr[l].hin)
Reset == l <= Len(Tr) /\ Tr[l].e = "reset" /\ l' = l + 1

Next == Obj \/ Fun \/ Dyn \/ Reset
Spec == Init /\ [][Next]_vars
=============================================================================
