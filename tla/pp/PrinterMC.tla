----------------------------- MODULE PrinterMC ------------------------------
(* C19: the model over Printer.tla — every ordered pair of the alphabet Sigma
   and every triple of Tri, printed without white space by the modelled
   print_tokens.  See the header of Printer.tla for what is checked.        *)
EXTENDS Printer

CONSTANTS PFix,       \* TRUE: print_tokens with the paste-avoidance test; FALSE: pinned print_tokens
          EmitLex     \* TRUE: write text -> tokens lines to IOEnv.OUT

(* ---- the model: every pair and triple --------------------------------- *)
VARIABLES ph, tr
vars == <<ph, tr>>
Tk0(s) == [s |-> s, sp |-> FALSE]

Texts(a, b, c) == <<a \o b \o c, a \o " " \o b \o c, a \o b \o " " \o c, a \o "\n" \o b \o " " \o c,
                    a \o "/**/" \o b \o c, a \o "//" \o b \o "\n" \o c>>

EmitTexts(a, b, c) ==
  IF EmitLex
  THEN \A i \in 1..6 : CSVWrite("%1$s", <<ToJson([text |-> Texts(a, b, c)[i], toks |-> Lex(Texts(a, b, c)[i])])>>, IOEnv.OUT)
  ELSE TRUE

Init == ph = 0 /\ tr = <<"", "", "">>
Next == /\ ph = 0 /\ ph' = 1
        /\ \/ \E a \in SigmaSet, b \in SigmaSet : tr' = <<a, b, "">> /\ EmitTexts(a, b, "")
           \/ \E a \in TriSet, b \in TriSet, c \in TriSet : tr' = <<a, b, c>> /\ EmitTexts(a, b, c)
Spec == Init /\ [][Next]_vars

ToksOf(t) == IF t[3] = "" THEN <<Tk0(t[1]), Tk0(t[2])>> ELSE <<Tk0(t[1]), Tk0(t[2]), Tk0(t[3])>>

(* the unspaced printing of tr is faithful under the modelled print_tokens *)
PrintFaithful == ph = 1 => Faithful(ToksOf(tr), PFix)
(* the Level A printer is faithful (sanity of NeedsSeparation incl. the triple rule) *)
PrintAFaithful == ph = 1 => FaithfulA(ToksOf(tr))
(* the character-class test implies the lexical criterion on every pair *)
PairSound == ph = 1 /\ tr[3] = "" => (NeedsSeparation(tr[1], tr[2]) => AvoidPaste(tr[1], tr[2]))
(* every alphabet spelling is one pp-token *)
ASSUME AlphabetOK == \A s \in SigmaSet \cup TriSet : IsOneToken(s)
=============================================================================
