------------------------------- MODULE Lexer -------------------------------
(* C19 / C09.  Level A: the maximal-munch preprocessing-token lexer of C11
   6.4 (translation phase 3) on *character strings*.  TLC's strings support
   Len, \o and SubSeq, so a text is a TLA+ string and Ch(s,i) its i-th
   character.  Lex(s) is the sequence of pp-token spellings of s; white space
   and comments separate tokens and are dropped; if some character cannot
   start a token, or a literal / block comment is unterminated, the result
   ends with the marker BAD (so it is never equal to a sequence of spellings).

   Covered: identifiers, pp-numbers (with e+ E- p+ P-), every C11 punctuator
   except the digraphs (chibicc does not know them), string literals with the
   prefixes u8 u U L, character constants with u U L, // and /* */ comments,
   and the last category of 6.4p1, "each non-white-space character that
   cannot be one of the above": the backslash (the only such character of
   the basic source character set besides a lone quote, which 6.4p3 leaves
   undefined).  Texts are phase-3 texts: a backslash is never written
   directly before a newline (that would be a phase-2 line splice).
   Transcribes what tokenize.c:tokenize() does at pp-token level (read_punct,
   read_ident, the pp-number loop, read_string_literal's end search); the one
   deliberate difference: `_` continues a pp-number here (6.4.8) and does not
   in tokenize.c — no spelling of the checked alphabets puts `_` after a
   number.                                                                  *)
EXTENDS Integers, Sequences, TLC

BAD == "<BAD>"

Ch(s, i)     == IF i >= 1 /\ i <= Len(s) THEN SubSeq(s, i, i) ELSE ""
Sub(s, i, n) == IF i > Len(s) THEN "" ELSE SubSeq(s, i, IF i + n - 1 <= Len(s) THEN i + n - 1 ELSE Len(s))

Digit  == {"0", "1", "2", "3", "4", "5", "6", "7", "8", "9"}
Letter == {"a", "b", "c", "d", "e", "f", "g", "h", "i", "j", "k", "l", "m", "n", "o", "p", "q", "r", "s",
           "t", "u", "v", "w", "x", "y", "z", "A", "B", "C", "D", "E", "F", "G", "H", "I", "J", "K", "L",
           "M", "N", "O", "P", "Q", "R", "S", "T", "U", "V", "W", "X", "Y", "Z", "_"}
IdChar == Letter \cup Digit
(* Extended characters.  Every character outside the basic source character set counts as an identifier
   character (6.4.2.1: universal character names / implementation-defined extended characters;
   tokenize.c accepts the Annex D ranges).  TLC corrupts characters >= 0x80 in states that are swapped to
   its disk queue (seen: U+00E9 came back as U+FFE9), so the specifications never hold such characters:
   three ASCII characters that are not in the basic source character set stand for them, and the harness
   (ppcase.XCH) writes the real characters into every file it produces and into every expected spelling:
       "@" = U+00E9 (2 UTF-8 bytes)   "`" = U+3042 (3 bytes)   "$" = U+1D465 (4 bytes) *)
NonAscii(c) == c \in {"@", "`", "$"}
IsIdStart(c) == c \in Letter \/ NonAscii(c)
IsIdChar(c) == c \in IdChar \/ NonAscii(c)
Space  == {" ", "\t", "\n"}

Punct3 == {"<<=", ">>=", "..."}
Punct2 == {"->", "++", "--", "<<", ">>", "<=", ">=", "==", "!=", "&&", "||",
           "*=", "/=", "%=", "+=", "-=", "&=", "^=", "|=", "##"}
Punct1 == {"[", "]", "(", ")", "{", "}", ".", "&", "*", "+", "-", "~", "!", "/", "%", "<", ">",
           "^", "|", "?", ":", ";", "=", ",", "#"}
Punctuators == Punct1 \cup Punct2 \cup Punct3
Other  == {"\\"}              \* 6.4p1: a single character that is no other kind of pp-token (tokenize.c: ispunct)

(* each scanner returns the index just after the token that starts at i *)
RECURSIVE IdEnd(_, _)
IdEnd(s, i) == IF IsIdChar(Ch(s, i)) THEN IdEnd(s, i + 1) ELSE i

RECURSIVE NumEnd(_, _)          \* 6.4.8; tokenize.c "Numeric literal" loop
NumEnd(s, i) ==
  IF Ch(s, i) \in {"e", "E", "p", "P"} /\ Ch(s, i + 1) \in {"+", "-"} THEN NumEnd(s, i + 2)
  ELSE IF IsIdChar(Ch(s, i)) \/ Ch(s, i) = "." THEN NumEnd(s, i + 1)
  ELSE i

RECURSIVE QuoteEnd(_, _, _)     \* closing quote; 0 = unterminated (string_literal_end)
QuoteEnd(s, i, q) ==
  LET c == Ch(s, i) IN
  IF c = "" \/ c = "\n" THEN 0
  ELSE IF c = "\\" THEN (IF Ch(s, i + 1) = "" THEN 0 ELSE QuoteEnd(s, i + 2, q))
  ELSE IF c = q THEN i + 1
  ELSE QuoteEnd(s, i + 1, q)

RECURSIVE LineEnd(_, _)         \* first newline at or after i (or end of text)
LineEnd(s, i) == IF Ch(s, i) \in {"", "\n"} THEN i ELSE LineEnd(s, i + 1)

RECURSIVE BlockEnd(_, _)        \* index after the closing */ ; 0 = unclosed
BlockEnd(s, i) == IF Ch(s, i) = "" THEN 0
                  ELSE IF Sub(s, i, 2) = "*/" THEN i + 2 ELSE BlockEnd(s, i + 1)

PunctEnd(s, i) == IF Sub(s, i, 3) \in Punct3 THEN i + 3
                  ELSE IF Sub(s, i, 2) \in Punct2 THEN i + 2
                  ELSE IF Ch(s, i) \in Punct1 \cup Other THEN i + 1
                  ELSE 0

(* length of the encoding prefix of a string literal / character constant at i, -1 if none starts here *)
StrPrefix(s, i) == IF Ch(s, i) = "\"" THEN 0
                   ELSE IF Sub(s, i, 3) = "u8\"" THEN 2
                   ELSE IF Ch(s, i) \in {"u", "U", "L"} /\ Ch(s, i + 1) = "\"" THEN 1
                   ELSE -1
ChrPrefix(s, i) == IF Ch(s, i) = "'" THEN 0
                   ELSE IF Ch(s, i) \in {"u", "U", "L"} /\ Ch(s, i + 1) = "'" THEN 1
                   ELSE -1

(* end of the token starting at i (i is not white space / comment); 0 = no token *)
TokEnd(s, i) ==
  LET c == Ch(s, i) IN
  IF c \in Digit \/ (c = "." /\ Ch(s, i + 1) \in Digit) THEN NumEnd(s, i + 1)
  ELSE IF StrPrefix(s, i) >= 0 THEN QuoteEnd(s, i + StrPrefix(s, i) + 1, "\"")
  ELSE IF ChrPrefix(s, i) >= 0 THEN QuoteEnd(s, i + ChrPrefix(s, i) + 1, "'")
  ELSE IF IsIdStart(c) THEN IdEnd(s, i)
  ELSE PunctEnd(s, i)

RECURSIVE LexFrom(_, _, _)
LexFrom(s, i, acc) ==
  IF i > Len(s) THEN acc
  ELSE IF Ch(s, i) \in Space THEN LexFrom(s, i + 1, acc)
  ELSE IF Sub(s, i, 2) = "//" THEN LexFrom(s, LineEnd(s, i), acc)
  ELSE IF Sub(s, i, 2) = "/*"
       THEN (IF BlockEnd(s, i + 2) = 0 THEN Append(acc, BAD) ELSE LexFrom(s, BlockEnd(s, i + 2), acc))
  ELSE LET e == TokEnd(s, i) IN
       IF e = 0 THEN Append(acc, BAD)
       ELSE LexFrom(s, e, Append(acc, SubSeq(s, i, e - 1)))

Lex(s) == LexFrom(s, 1, <<>>)

(* s is the spelling of exactly one pp-token (used by ## in Macro.tla) *)
IsOneToken(s) == s # "" /\ TokEnd(s, 1) = Len(s) + 1 /\ Ch(s, 1) \notin Space
                 /\ Sub(s, 1, 2) \notin {"//", "/*"}

(* the kind of a pp-token spelling *)
KindOf(t) == IF Ch(t, 1) \in Digit \/ (Ch(t, 1) = "." /\ Ch(t, 2) \in Digit) THEN "num"
             ELSE IF StrPrefix(t, 1) >= 0 THEN "str"
             ELSE IF ChrPrefix(t, 1) >= 0 THEN "chr"
             ELSE IF IsIdStart(Ch(t, 1)) THEN "id"
             ELSE "punct"

(* Level A statement of C19 for two adjacent tokens: the printer must put
   white space between a and b iff their concatenation does not lex back to
   <<a, b>>.                                                                *)
NeedsSeparation(a, b) == Lex(a \o b) # <<a, b>>
=============================================================================
