---------------------------- MODULE IncludeTrace ----------------------------
(* C10 trace validation, #include resolution and re-inclusion shortcuts.
   Every #include / #include_next the real preprocessor resolved (hook H2,
   "e":"inc") must be a step of Level A of Include.tla:

   * #include "n": the file beside the including file if it exists (idx -1),
     else - and always for #include <n> - the FIRST directory of the search list
     (logged once at start-up) that holds n;
   * #include_next <n>: the first directory holding n AFTER the position at
     which the including file was found.  The including file's position is
     taken from the trace itself: one of the positions with which that path
     was entered before (position 0 = "from the beginning" for a file that was
     never entered through an #include - the main file, -include files - or that
     was found beside its includer);
   * a file is skipped as "once" only if it executed #pragma once before, as
     "guard" only if it was entered before, an include guard was recorded for it
     and that macro is defined at this moment (macro table from the H1 events of
     the `macros` map); a file that executed #pragma once is never entered again.

   Which candidate files exist is a fact about the file system, not about the
   preprocessor: the harness adds to every event ex (0/1 per search-list
   position), exl (0/1: exists beside the includer), ldir (the includer's
   directory) and dirs (the search list); TLC does the judging.
   Events: inc, once, guard, def/undef (guard macros only), reset.           *)
EXTENDS Integers, Sequences, FiniteSets, TLC, Json, IOUtils

Tr == ndJsonDeserialize(IOEnv.TRACE)

VARIABLES l,
          entered,   \* path -> set of positions (idx) with which it was entered
          once,      \* paths that executed #pragma once
          guard,     \* path -> guard macro recorded by detect_include_guard
          defd       \* guard macros currently defined
vars == <<l, entered, once, guard, defd>>

Empty == [x \in {} |-> {}]
Init == l = 1 /\ entered = Empty /\ once = {} /\ guard = [x \in {} |-> ""] /\ defd = {}

Ev(k) == l <= Len(Tr) /\ Tr[l].e = k /\ l' = l + 1

(* first position (0-based idx) >= from holding the name, -2 if none *)
FirstFrom(ex, from) ==
  LET c == {p \in DOMAIN ex : p - 1 >= from /\ ex[p] = 1}
  IN IF c = {} THEN -2 ELSE (CHOOSE p \in c : \A q \in c : p <= q) - 1

Starts(from) ==      \* admissible positions at which #include_next in `from` may resume
  IF from \in DOMAIN entered THEN {IF k < 0 THEN 0 ELSE k + 1 : k \in entered[from]} ELSE {0}

ResolvedOK(e) ==
  IF e.idx = -2
  THEN \* found nowhere: chibicc then opens the name as written (relative to the cwd).  Level A has no such step;
       \* it is tolerated only when really no candidate exists, so the fallback can never shadow a file.
       /\ e.resolved = e.name
       /\ IF e.form = "next" THEN \E s \in Starts(e.from) : FirstFrom(e.ex, s) = -2
                              ELSE FirstFrom(e.ex, 0) = -2 /\ (e.form = "quote" => e.exl = 0)
  ELSE
  /\ IF e.idx = -1 THEN e.resolved = e.ldir \o "/" \o e.name
                   ELSE e.idx >= 0 /\ e.idx < Len(e.dirs) /\ e.resolved = e.dirs[e.idx + 1] \o "/" \o e.name
  /\ CASE e.form = "quote" -> IF e.exl = 1 THEN e.idx = -1 ELSE e.idx = FirstFrom(e.ex, 0)
       [] e.form = "angle" -> e.idx = FirstFrom(e.ex, 0)
       [] e.form = "next"  -> \E s \in Starts(e.from) : e.idx = FirstFrom(e.ex, s)

Inc == /\ Ev("inc")
       /\ LET e == Tr[l] IN
          /\ ResolvedOK(e)
          /\ CASE e.skipped = "once"  -> e.resolved \in once /\ UNCHANGED entered
               [] e.skipped = "guard" -> /\ e.resolved \in DOMAIN entered
                                         /\ e.resolved \in DOMAIN guard
                                         /\ guard[e.resolved] \in defd
                                         /\ UNCHANGED entered
               [] e.skipped = "none"  -> /\ e.resolved \notin once
                                         /\ entered' = [x \in DOMAIN entered \cup {e.resolved} |->
                                                          IF x = e.resolved
                                                          THEN (IF x \in DOMAIN entered THEN entered[x] ELSE {}) \cup {e.idx}
                                                          ELSE entered[x]]
       /\ UNCHANGED <<once, guard, defd>>

Once == Ev("once") /\ once' = once \cup {Tr[l].file} /\ UNCHANGED <<entered, guard, defd>>
Guard == /\ Ev("guard")
         /\ guard' = [x \in DOMAIN guard \cup {Tr[l].file} |-> IF x = Tr[l].file THEN Tr[l].macro ELSE guard[x]]
         /\ UNCHANGED <<entered, once, defd>>
Def == Ev("def") /\ defd' = defd \cup {Tr[l].k} /\ UNCHANGED <<entered, once, guard>>
Undef == Ev("undef") /\ defd' = defd \ {Tr[l].k} /\ UNCHANGED <<entered, once, guard>>
Reset == Ev("reset") /\ entered' = Empty /\ once' = {} /\ guard' = [x \in {} |-> ""] /\ defd' = {}

Next == Inc \/ Once \/ Guard \/ Def \/ Undef \/ Reset
Spec == Init /\ [][Next]_vars
=============================================================================
