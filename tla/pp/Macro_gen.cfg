SPECIFICATION Spec
CONSTANTS Family = "F5"
 Seed = 0
 Stride = 1
 Emit = TRUE
 MaxSteps = 400
 ArgOrder = "ltr"
 Unspec = TRUE
 EmptyFix = TRUE
 PFix = TRUE
 HideFix = TRUE
INVARIANTS NeverExpandHidden StepBound RescanStable StandardExamples
CHECK_DEADLOCK FALSE
