SPECIFICATION Spec
CONSTANTS Family = "F5"
 Seed = 0
 Stride = 1
 Emit = TRUE
 MaxSteps = 400
 ArgOrder = "any"
 Unspec = TRUE
 EmptyFix = TRUE
 PFix = TRUE
 HideFix = TRUE
INVARIANTS NeverExpandHidden StepBound RescanStable FinalAgree StandardExamples
CHECK_DEADLOCK FALSE
