SPECIFICATION Spec
CONSTANTS Fam = "R1"
 NOpt = 3
 Seed = 0
 Stride = 1
 GuardAlg = "full"
 NextAlg = "perfile"
 FixIdirArg = TRUE
 FixIdirOrder = TRUE
 CompDir = "directive"
 OncePrescan = FALSE
 CacheFirst = FALSE
 MaxStack = 8
 Emit = FALSE
INVARIANTS SameStream Bounded ATerminates
CHECK_DEADLOCK FALSE
