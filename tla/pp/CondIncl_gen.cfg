SPECIFICATION Spec
CONSTANTS MaxDepth = 2
 FixSkipLine = TRUE
 FixLineInGroup = TRUE
 Emit = TRUE
 Look = TRUE
VIEW View
INVARIANTS SameText SameMacros SameNesting SkipIffInactive CtxOK TypeOK
CHECK_DEADLOCK FALSE
