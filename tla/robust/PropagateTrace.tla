--------------------------- MODULE PropagateTrace ---------------------------
(* C13 trace validation of the driver layer: every observed run of the real
   driver under an injected end of one of its children (one `drv` event per run:
   harness/c13.py family "fate", harness/c/c13_fate.c) must be a terminal the
   robust driver of Propagate.tla can reach - "Clean" (no child ended badly:
   exit 0 and the output exists) or "Propagated" (a child ended badly: the
   command exits non-zero and is not itself killed).  An event that is not is
   rejected: its index and class are recorded and written out at eof;
   validation goes on with the next event.                                   *)
EXTENDS Propagate, Json, IOUtils, CSV

Tr == ndJsonDeserialize(IOEnv.TRACE)

VARIABLES l, rej
tvars == <<vars, l, rej>>
ev == Tr[l]

ObsOf(e) == [md |-> e.md, ch |-> e.ch, how |-> e.how, n |-> e.n, w |-> e.w, status |-> e.status, sig |-> e.sig,
             out |-> e.out, ran |-> e.ran]

TInit == /\ md = 1 /\ fate = <<>> /\ k = 1 /\ ran = <<>> /\ outp = FALSE /\ term = "none" /\ obs = NoObs
         /\ l = 1 /\ rej = <<>>

RunOf(e) == LET o == ObsOf(e)  c == Classify(o) IN
            /\ o.md \in Modes
            /\ c \in Allowed
            /\ md' = o.md /\ k' = Len(o.ran) + 1 /\ ran' = o.ran /\ outp' = o.out /\ term' = c /\ obs' = o
            /\ UNCHANGED fate

Normal == /\ l <= Len(Tr) /\ ev.e = "drv"
          /\ RunOf(ev)
          /\ l' = l + 1 /\ UNCHANGED rej

Reject == /\ l <= Len(Tr) /\ ev.e = "drv"
          /\ ~ENABLED Normal
          /\ rej' = Append(rej, [at |-> l, c |-> Classify(ObsOf(ev))])
          /\ l' = l + 1 /\ UNCHANGED vars

Eof == /\ l <= Len(Tr) /\ ev.e = "eof"
       /\ CSVWrite("%1$s", <<ToJson([rejected |-> rej, events |-> l])>>, IOEnv.OUT)
       /\ l' = l + 1 /\ UNCHANGED <<vars, rej>>

TNext == Normal \/ Reject \/ Eof
TSpec == TInit /\ [][TNext]_tvars
=============================================================================
