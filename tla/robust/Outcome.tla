------------------------------ MODULE Outcome ------------------------------
(* C13 - every input is answered with output or a located diagnostic.

   The front end (`chibicc -cc1`) followed by the assembler as a pipeline
   automaton:   tokenize -> preprocess -> parse -> codegen -> write -> as
   (tokenize_file, preprocess, parse, codegen, the fwrite of cc1()'s memstream
   buffer into the output file, and `as` run on that file).

   Terminal states:
     Accepted            exit 0, output written, `as` accepts it
     Diagnosed(f, line)  exit <> 0, the first line of stderr starts "f:line:",
                         f is one of the inputs / included files and
                         1 <= line <= lines(f)   (lines(f) counts the position
                         after the final newline, where the EOF token sits)
   Forbidden terminals:
     Signalled           the wait status is a signal (SIGSEGV, SIGFPE, SIGABRT of assert ...)
     InternalError       stderr carries "internal error" (unreachable()) or an assertion text
     Silent              exit <> 0 with empty stderr
     Timeout             no answer within the limit
     BadLocation         exit <> 0 and a message, but no file:line / a line that does not exist /
                         a file that is not an input
     NoOutput            exit 0 without an output file
     AsRejected          exit 0, but the assembler rejects the output

   An observation is what the harness sees of one run:
     [status, sig, tmo, internal, errempty, hasloc, fileok, line, nlines, out, as]
   Classify maps an observation to its terminal.  Model checking: the
   automaton's terminal and the classification of the observation it produces
   agree on every path (ClassifierAgrees); with Robust = TRUE - stages fail only
   by a located diagnostic - no forbidden terminal is reachable (NoForbidden) and
   a valid input is Accepted (ValidAccepted).  Robust = FALSE (a stage may die,
   hang, fail silently, lose the location, write nothing, emit what `as`
   rejects) is the sensitivity control: TLC must reject it.                   *)
EXTENDS Integers, Sequences, TLC

CONSTANTS Robust, MaxLines

Stages == <<"tokenize", "preprocess", "parse", "codegen", "write", "as">>
FrontEnd == 1..4
Allowed == {"Accepted", "Diagnosed"}
Forbidden == {"Signalled", "InternalError", "Silent", "Timeout", "BadLocation", "NoOutput", "AsRejected"}

NoObs == [status |-> 0, sig |-> 0, tmo |-> FALSE, internal |-> FALSE, errempty |-> TRUE, hasloc |-> FALSE,
          fileok |-> FALSE, line |-> 0, nlines |-> 0, out |-> FALSE, as |-> -1]

LocOK(o) == o.hasloc /\ o.fileok /\ 1 <= o.line /\ o.line <= o.nlines

Classify(o) ==
  IF o.tmo THEN "Timeout"
  ELSE IF o.sig # 0 THEN "Signalled"
  ELSE IF o.internal THEN "InternalError"
  ELSE IF o.status = 0 THEN (IF ~o.out THEN "NoOutput" ELSE IF o.as # 0 THEN "AsRejected" ELSE "Accepted")
  ELSE IF o.errempty THEN "Silent"
  ELSE IF LocOK(o) THEN "Diagnosed"
  ELSE "BadLocation"

VARIABLES pc,      \* index into Stages, 7 = finished
          valid,   \* the input is a program of the supported language
          nl,      \* lines of the input
          term, obs
vars == <<pc, valid, nl, term, obs>>

Init == pc = 1 /\ valid \in BOOLEAN /\ nl \in 1..MaxLines /\ term = "none" /\ obs = NoObs

Finish(t, o) == pc' = 7 /\ term' = t /\ obs' = o /\ UNCHANGED <<valid, nl>>

Pass(k) == pc = k /\ k <= 5 /\ pc' = k + 1 /\ obs' = [obs EXCEPT !.out = (k = 5) \/ @] /\ UNCHANGED <<valid, nl, term>>

(* error_tok / error_at / verror_at: "file:line: source\n  ^ message", exit(1) *)
Diagnose(k, ln) ==
  /\ pc = k /\ k \in FrontEnd /\ ~valid
  /\ Finish("Diagnosed", [NoObs EXCEPT !.status = 1, !.errempty = FALSE, !.hasloc = TRUE, !.fileok = TRUE,
                                       !.line = ln, !.nlines = nl])

AsOK == pc = 6 /\ Finish("Accepted", [obs EXCEPT !.as = 0, !.nlines = nl])

(* ---- what a front end that is not robust may also do (sensitivity control) *)
Crash(k, s) == pc = k /\ k \in FrontEnd /\ Finish("Signalled", [NoObs EXCEPT !.sig = s, !.nlines = nl])
AssertFail(k) == pc = k /\ k \in FrontEnd
                 /\ Finish("Signalled", [NoObs EXCEPT !.sig = 6, !.internal = TRUE, !.errempty = FALSE, !.nlines = nl])
Unreachable(k) == pc = k /\ k \in FrontEnd
                  /\ Finish("InternalError", [NoObs EXCEPT !.status = 1, !.internal = TRUE, !.errempty = FALSE, !.nlines = nl])
SilentFail(k) == pc = k /\ k \in 1..5 /\ Finish("Silent", [NoObs EXCEPT !.status = 1, !.nlines = nl])
Hang(k) == pc = k /\ k \in FrontEnd /\ Finish("Timeout", [NoObs EXCEPT !.tmo = TRUE, !.nlines = nl])
LoseLocation(k, ln, hasloc, fileok) ==
  /\ pc = k /\ k \in FrontEnd
  /\ ~(hasloc /\ fileok /\ ln \in 1..nl)
  /\ Finish("BadLocation", [NoObs EXCEPT !.status = 1, !.errempty = FALSE, !.hasloc = hasloc, !.fileok = fileok,
                                         !.line = ln, !.nlines = nl])
WriteNothing == pc = 5 /\ Finish("NoOutput", [NoObs EXCEPT !.nlines = nl])
AsRejects == pc = 6 /\ Finish("AsRejected", [obs EXCEPT !.as = 1, !.nlines = nl])
RejectValid(k) == pc = k /\ k \in FrontEnd /\ valid
                  /\ Finish("Diagnosed", [NoObs EXCEPT !.status = 1, !.errempty = FALSE, !.hasloc = TRUE, !.fileok = TRUE,
                                                       !.line = 1, !.nlines = nl])

Next ==
  \/ \E k \in 1..5 : Pass(k)
  \/ \E k \in FrontEnd, ln \in 1..nl : Diagnose(k, ln)
  \/ AsOK
  \/ /\ ~Robust
     /\ \/ \E k \in FrontEnd, s \in {8, 11} : Crash(k, s)
        \/ \E k \in FrontEnd : AssertFail(k) \/ Unreachable(k) \/ Hang(k) \/ RejectValid(k)
        \/ \E k \in 1..5 : SilentFail(k)
        \/ \E k \in FrontEnd, ln \in 0..(MaxLines + 1), h \in BOOLEAN, f \in BOOLEAN : LoseLocation(k, ln, h, f)
        \/ WriteNothing \/ AsRejects

Spec == Init /\ [][Next]_vars /\ WF_vars(Next)

ClassifierAgrees == term # "none" => Classify(obs) = term
NoForbidden      == term \notin Forbidden
ValidAccepted    == (valid /\ term # "none") => term = "Accepted"
Answers          == <>(term \in Allowed)          \* every input is answered
=============================================================================
