SPECIFICATION TSpec
CONSTANTS Robust = TRUE
 ExitCodes = {}
 Signals = {}
CHECK_DEADLOCK FALSE
