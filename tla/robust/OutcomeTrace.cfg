SPECIFICATION TSpec
CONSTANTS Robust = TRUE
 MaxLines = 3
CHECK_DEADLOCK FALSE
