SPECIFICATION Spec
CONSTANTS Robust = FALSE
 MaxLines = 3
INVARIANTS NoForbidden
CHECK_DEADLOCK FALSE
