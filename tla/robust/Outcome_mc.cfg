SPECIFICATION Spec
CONSTANTS Robust = TRUE
 MaxLines = 3
INVARIANTS ClassifierAgrees NoForbidden ValidAccepted
PROPERTIES Answers
CHECK_DEADLOCK FALSE
