SPECIFICATION Spec
CONSTANTS Robust = FALSE
 MaxLines = 3
INVARIANTS ClassifierAgrees
CHECK_DEADLOCK FALSE
