---------------------------- MODULE OutcomeTrace ----------------------------
(* C13 trace validation: every observed outcome of the real front end (one
   event per input: harness/c13.py) must be a terminal the robust automaton of
   Outcome.tla can reach - Accepted or Diagnosed(file, line) - and an input that
   is known to be a program of the supported language (a valid seed, a program
   of the C12 corpus: must = "accept") must be Accepted.  An event that is not
   is rejected: its index and its class are recorded and written out at eof;
   validation goes on with the next event.                                   *)
EXTENDS Outcome, Json, IOUtils, CSV

Tr == ndJsonDeserialize(IOEnv.TRACE)

VARIABLES l, rej
tvars == <<vars, l, rej>>
ev == Tr[l]

ObsOf(e) == [status |-> e.status, sig |-> e.sig, tmo |-> e.tmo, internal |-> e.internal, errempty |-> e.errempty,
             hasloc |-> e.hasloc, fileok |-> e.fileok, line |-> e.line, nlines |-> e.nlines, out |-> e.out, as |-> e.as]

TInit == /\ pc = 1 /\ valid = FALSE /\ nl = 1 /\ term = "none" /\ obs = NoObs
         /\ l = 1 /\ rej = <<>>

(* one run of the automaton from its initial state to the observed terminal *)
Run(e) == LET o == ObsOf(e)  c == Classify(o) IN
          /\ c \in Allowed
          /\ (e.must = "accept") => c = "Accepted"
          /\ pc' = 7 /\ valid' = (e.must = "accept") /\ nl' = e.nlines /\ term' = c /\ obs' = o

Normal == /\ l <= Len(Tr) /\ ev.e = "obs"
          /\ Run(ev)
          /\ l' = l + 1 /\ UNCHANGED rej

Reject == /\ l <= Len(Tr) /\ ev.e = "obs"
          /\ ~ENABLED Normal
          /\ rej' = Append(rej, [at |-> l, c |-> Classify(ObsOf(ev))])
          /\ l' = l + 1 /\ UNCHANGED vars

Eof == /\ l <= Len(Tr) /\ ev.e = "eof"
       /\ CSVWrite("%1$s", <<ToJson([rejected |-> rej, events |-> l])>>, IOEnv.OUT)
       /\ l' = l + 1 /\ UNCHANGED <<vars, rej>>

TNext == Normal \/ Reject \/ Eof
TSpec == TInit /\ [][TNext]_tvars
=============================================================================
