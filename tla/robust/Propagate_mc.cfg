SPECIFICATION Spec
CONSTANTS Robust = TRUE
 ExitCodes = {1, 3}
 Signals = {9, 11}
INVARIANTS ClassifierAgrees NoForbidden Answer StopsAtFailure
PROPERTIES Terminates
CHECK_DEADLOCK FALSE
