----------------------------- MODULE Propagate -----------------------------
(* C13 - "never fails silently", one level above Outcome.tla: the driver
   (main.c main / run_cc1 / assemble / run_linker -> run_subprocess) runs the
   front end, the assembler and the linker as child processes, and whatever way
   a child ends other than exit status 0 is a failure of the whole command.

   (Added in the fifth round after seeded change C13-8: run_subprocess tested
   `WIFEXITED(status) && WEXITSTATUS(status) != 0`, so a child killed by a
   signal counted as a success.  Outcome.tla and its harness observe `cc1`
   directly and never looked at the layer that turns a child's end into the
   command's answer; the missing dimension is HOW A CHILD ENDS.)

   A command of mode md runs the children Plan(md) one after the other:
     1 "-E"   cc1            3 "-c"    cc1, as
     2 "-S"   cc1            4 link    cc1, as, ld
   A child ends in one of the ways of Ends:
     [how |-> "ok"]                       exit status 0
     [how |-> "exit",   n |-> 1..255]     exit status n
     [how |-> "signal", n |-> signal]     killed by a signal (no exit status at all)
   and, independently, either before it has done anything (w = "before") or
   after it has done all of its work and written its output completely
   (w = "after": a complete-looking output file does not make the run a success).

   Level A (Answer): the command exits 0 iff every child it ran ended "ok", and
   then the requested output exists; if some child did not end "ok" the command
   exits with a non-zero status (any) and is itself not killed by a signal.
   Which status, what is printed, and what happens to temporary files are not
   this module's (C14 judges the files).

   The driver model: Run(k) starts child k of the plan and waits for it;
   with Robust = TRUE the only continuation after an end other than "ok" is
   Fail (exit 1).  Robust = FALSE (sensitivity control) adds what a wrong
   run_subprocess may do: carry on after a signalled child (IgnoreSignal), after a
   child that exited non-zero (IgnoreExit), or die itself (DieToo).
   An observation is what the harness sees of one run of the real driver:
     [md, ch, how, n, w, status, sig, out, ran]
   (the injected end of child ch; the driver's own exit status / signal; whether
   the requested output exists; which children were started).  Classify maps it
   to "Clean" / "Propagated" (allowed) or "Swallowed" / "DriverDied" /
   "CleanFailed" / "NoOutput" (forbidden).                                    *)
EXTENDS Integers, Sequences, FiniteSets, TLC

CONSTANTS Robust,
          ExitCodes,      \* exit statuses other than 0 a child may end with
          Signals         \* signals a child may be killed by

Children == <<"cc1", "as", "ld">>
Modes == 1..4
Plan(md) == IF md <= 2 THEN <<1>> ELSE IF md = 3 THEN <<1, 2>> ELSE <<1, 2, 3>>

Ok == [how |-> "ok", n |-> 0]
Ends == {Ok} \cup [how : {"exit"}, n : ExitCodes] \cup [how : {"signal"}, n : Signals]

NoObs == [md |-> 0, ch |-> 0, how |-> "ok", n |-> 0, w |-> "before", status |-> 0, sig |-> 0, out |-> FALSE, ran |-> <<>>]

(* the classification of one observation of the real driver *)
Classify(o) ==
  LET injected == o.how # "ok" /\ o.ch \in {o.ran[j] : j \in 1..Len(o.ran)} IN     \* the child with the bad end was really run
  IF o.sig # 0 THEN "DriverDied"
  ELSE IF injected THEN (IF o.status = 0 THEN "Swallowed" ELSE "Propagated")
  ELSE IF o.status # 0 THEN "CleanFailed"
  ELSE IF ~o.out THEN "NoOutput"
  ELSE "Clean"
Allowed == {"Clean", "Propagated"}
Forbidden == {"Swallowed", "DriverDied", "CleanFailed", "NoOutput"}

VARIABLES md,        \* the command's mode
          fate,      \* fate[j]: how the j-th child of the plan will end, and when
          k,         \* next child of the plan; Len(plan)+1 = all done
          ran, outp, \* children started so far; the requested output exists
          term, obs
vars == <<md, fate, k, ran, outp, term, obs>>

Init == /\ md \in Modes
        /\ fate \in [1..3 -> [e : Ends, w : {"before", "after"}]]
        /\ \A j \in 1..3 : fate[j].e = Ok => fate[j].w = "after"       \* a child that ends ok has done its work
        /\ Cardinality({j \in 1..Len(Plan(md)) : fate[j].e # Ok}) <= 1     \* at most one injected end per run
        /\ \A j \in (Len(Plan(md)) + 1)..3 : fate[j].e = Ok                  \* (children outside the plan do not exist)
        /\ k = 1 /\ ran = <<>> /\ outp = FALSE /\ term = "none" /\ obs = NoObs

BadChild == IF \E j \in 1..Len(ran) : fate[j].e # Ok THEN CHOOSE j \in 1..Len(ran) : fate[j].e # Ok ELSE 0
ObsNow(st, sg) ==
  LET b == BadChild IN
  [md |-> md, ch |-> IF b = 0 THEN 0 ELSE Plan(md)[b], how |-> IF b = 0 THEN "ok" ELSE fate[b].e.how,
   n |-> IF b = 0 THEN 0 ELSE fate[b].e.n, w |-> IF b = 0 THEN "before" ELSE fate[b].w,
   status |-> st, sig |-> sg, out |-> outp, ran |-> [j \in 1..Len(ran) |-> Plan(md)[ran[j]]]]

(* run_subprocess: fork, exec, wait.  The last child of the plan writes the requested output when it does its work. *)
Run == /\ term = "none" /\ k <= Len(Plan(md))
       /\ (k > 1 => fate[k - 1].e = Ok \/ ~Robust)
       /\ ran' = Append(ran, k)
       /\ outp' = (outp \/ (k = Len(Plan(md)) /\ fate[k].w = "after"))
       /\ k' = k + 1
       /\ UNCHANGED <<md, fate, term, obs>>

LastEnd == IF k = 1 THEN Ok ELSE fate[k - 1].e

(* `if (status != 0) exit(1)` *)
Fail == /\ term = "none" /\ k > 1 /\ LastEnd # Ok
        /\ term' = "Propagated" /\ obs' = ObsNow(1, 0)
        /\ UNCHANGED <<md, fate, k, ran, outp>>

Done == /\ term = "none" /\ k = Len(Plan(md)) + 1
        /\ (Robust => LastEnd = Ok)
        /\ term' = (IF \E j \in 1..Len(ran) : fate[j].e # Ok THEN "Swallowed" ELSE "Clean")
        /\ obs' = ObsNow(0, 0)
        /\ UNCHANGED <<md, fate, k, ran, outp>>

(* ---- what a wrong run_subprocess may also do (Robust = FALSE only: Run is then enabled after a bad end) *)
DieToo == /\ ~Robust /\ term = "none" /\ k > 1 /\ LastEnd.how = "signal"
          /\ term' = "DriverDied" /\ obs' = ObsNow(0, LastEnd.n)
          /\ UNCHANGED <<md, fate, k, ran, outp>>

Next == Run \/ Fail \/ Done \/ DieToo
Spec == Init /\ [][Next]_vars /\ WF_vars(Next)

ClassifierAgrees == term # "none" => Classify(obs) = term
NoForbidden      == term \notin Forbidden
(* Level A *)
Answer == term # "none" =>
            /\ obs.sig = 0
            /\ (obs.status = 0) = (\A j \in 1..Len(ran) : fate[j].e = Ok)
            /\ (obs.status = 0 => obs.out)
StopsAtFailure == \A j \in 1..Len(ran) : j < Len(ran) => fate[j].e = Ok
Terminates == <>(term # "none")
=============================================================================
