SPECIFICATION Spec
CONSTANTS Robust = FALSE
 ExitCodes = {1, 3}
 Signals = {9, 11}
INVARIANTS NoForbidden
CHECK_DEADLOCK FALSE
