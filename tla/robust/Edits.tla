------------------------------- MODULE Edits -------------------------------
(* C13 - the input space.  A seed is a token sequence; the specification works
   on token indices: seed s has SeedLens[s] tokens 1..n, the edit alphabet is
   1..NAlpha (harness/c13.py ALPHABET).  An edited input is a sequence over
   seed positions (j > 0: the seed's j-th token) and alphabet tokens (-t).

   Single edits of a seed of n tokens (all of them):
     Delete(i)     i in 1..n         Replace(i,t)  i in 1..n,   t in 1..NAlpha
     Insert(i,t)   i in 1..n+1       Dup(i)        i in 1..n
     Swap(i)       i in 1..n-1 (tokens i and i+1)
   Pairs of edits (the second applied to the result of the first) for seeds of
   at most PairMax tokens, with alphabet tokens restricted to PairTok.

   Byte-level end-of-file family (added after seeded change C13-1): every seed,
   unedited, followed by one of NDir trailing directive lines (0 = none; the
   harness's DIRS: #if 1/#endif, #pragma once, #include <stddef.h>, #define X,
   #line 3, #error x, #undef X, #ifdef X/#else/#endif) and closed by one of NEnd
   endings (ENDS: nothing, newline, backslash-newline, lone backslash, CR LF, CR,
   backslash CR LF, blank, an unterminated comment, a line comment without
   newline, an unterminated string / character constant): tail = [d, e].
   Edits carry tail = [d |-> 0, e |-> 0] (the ordinary rendering, one newline).

   Redeclaration family (added after seeded change C13-5): one identifier declared
   twice, as every ordered pair of kinds (harness KINDS: 1 enumerator, 2 typedef
   name, 3 object, 4 object with initializer, 5 function declaration, 6 function
   definition, 7 tag, 8 label, 9 parameter) in every scope arrangement sc:
   1 both at file scope, 2 both in one block, 3 file scope then block, 4 parameter
   then block, 5 block then nested block.  Labels exist in blocks only, parameter
   only as the first of arrangement 4.  rd = [a, b, sc]; s = 0 (no seed).
   Every other input carries rd = NoRd.

   Zero-sized family (added in the fourth round: an empty struct passed by value
   killed the code generator, `union E {} e = {}` the parser): an object type of
   size 0 in every context an object or a value can appear in.  zs = [z, c, p],
   s = 0 (no seed).  z = the zero-sized type (harness ZTYPES: 1 empty struct,
   2 empty union, 3 struct of a zero-length array, 4 struct of an empty struct,
   5 struct of an array of empty structs and a zero-length array of double,
   6 struct of a zero-width bit-field, 7 zero-length array, 8 array of empty
   structs); 1..NZStruct are struct / union types, the others array types.
   c = the context (harness CNAMES), 1..NValCtx use the *value* (parameter,
   argument of a declared function, return value, member of a struct passed and
   returned by value, assignment, ?: / comma / statement expression, variadic
   argument, va_arg, named parameter of a variadic function, parameter after the
   argument registers are exhausted, compound literal, call without prototype /
   through a pointer / recursive) and need a type that can be passed and assigned
   (z <= NZStruct); the others use the *object* (local, global, sizeof / _Alignof,
   array element, member initializer, pointer arithmetic) and take every z.
   p = 1..3 is the position / variant inside the context (first, middle, last
   among an int and a double; plain, chained, through a pointer; ...).
   Every other input carries zs = NoZs.  Level A: gcc accepts and runs every
   member correctly except c = 18, p = 3 (pointer difference, which divides by
   the size: gcc rejects it), so each must be Accepted or Diagnosed.

   Fate family (fifth round, seeded change C13-8: the driver took a child killed
   by a signal for a success): HOW A CHILD OF THE DRIVER ENDS.  ft = [ch, md, how,
   n, w], s = 0: the command of mode md (1 -E, 2 -S, 3 -c, 4 compile+assemble+link)
   is run with the real driver and child ch of its plan (1 cc1, 2 as, 3 ld; Propagate.tla
   Plan) ends by exit status n in FtExit (how = "exit") or killed by signal n in
   FtSignals (how = "signal"), before doing anything or after having done all of
   its work (w); how = "ok", ch = 0 is the clean run of the mode.  Judged by
   PropagateTrace.tla (Level A: Propagate.tla Answer).  Quick: the clean runs and 1/FateStride
   of the others (consecutive exit statuses / signals of one (child, mode, when) fall into different residues).

   Prefix family (fifth round, seeded change C13-9: the caret placement looped on
   a stray UTF-8 continuation byte in front of the caret): WHAT ELSE STANDS ON THE
   DIAGNOSED LINE.  px = [c, b, cs] on host seed s (an invalid seed: s > NValid):
   in front of the host's text stands a construct in which every byte is
   acceptable - c = 1 a comment (in front of every line that starts outside a
   comment / literal / continued line), 2 a declaration with a string literal,
   3 one with a character constant (2 and 3: hosts without directives, which are
   rendered on one line that starts at file scope; seed attribute d) - that
   holds the byte string: lead byte no. b of the harness's LEADS (stray
   continuation bytes 0x80 0xBF, the invalid leads 0xC0 0xF5 0xFF, 2-, 3- and
   4-byte leads incl. the ones with restricted second bytes 0xE0 0xED 0xF0 0xF4, and
   the ASCII control 0x7F) followed by the continuation bytes cs, a sequence of
   length 0..3 over CONTS (0x80 0xA0 0xBF): every well-formed sequence class and
   every way of being ill-formed (truncated, overlong, surrogate, > U+10FFFF,
   stray and surplus continuation bytes, a lead after a lead).  Level A: a
   comment is replaced by one space and a declaration of another identifier
   changes nothing, so the input is invalid as its host is: Accepted or
   Diagnosed like every input.  Hosts per byte string: one (rank (index + Seed)
   among the eligible hosts) when PrefStride = 0 - the quick tier - else every
   PrefStride-th.

   Atomic-operand family (fifth round: __builtin_compare_and_swap on a long double
   or a 3-byte struct hit unreachable() in the code generator): THE OPERAND TYPES
   OF THE ATOMIC BUILTINS AND OPERATORS.  at = [f, t, u], s = 0; t, u in
   1..NAType (harness ATYPES: _Bool char short int long float double long double
   pointer enum, structs of 0 1 2 3 4 8 16 bytes, union, array, function, void,
   incomplete struct, bit-field).  Forms 1..NAForm2 take two types: 1
   compare-and-swap on a T object with a new value of type U, 2 exchange
   likewise, 3 compare-and-swap on a T object with the expected value in a U
   object; forms NAForm2+1..NAForm take one (u = 0): the object itself where its
   address is expected (2 forms), and the standard C forms on an `_Atomic T`
   object (op=, ++, --, atomic_fetch_add, atomic_exchange,
   atomic_compare_exchange_strong, atomic_load + atomic_store, atomic_init).
   Quick: every one-type member, the diagonal t = u, and 1/AtomStride of the rest.

   Qualifier family (fifth round: `int * _Atomic p;` and `int a[const 3]` as a
   parameter - C11 programs - were rejected): A TYPE-QUALIFIER-LIST IN EVERY
   POSITION THE GRAMMAR HAS ONE.  qa = [q, p], s = 0: q = the list (harness QUALS:
   const, volatile, restrict and its two GNU spellings, _Atomic, and lists of two),
   p = the position (QPOS: declaration specifiers before / after the type
   specifier; after `*` in an object, pointer-to-pointer, member, function
   pointer, named and unnamed parameter, cast, sizeof, local, typedef and
   return-type declarator; inside the brackets of an array parameter alone, before
   the size, after and before `static`, in a definition).  Level A (C11 6.7.3,
   6.7.6.1, 6.7.6.2, 6.7.6.3; validated against gcc over the whole domain): a
   program unless restrict qualifies something that is not a pointer to an
   object type; must be Accepted then (except _Atomic inside array brackets,
   which the supported language does not have).  All members in every tier.

   One TLC state per edited input; every state emits its input (CSVWrite).  The
   quick tier takes the VERIF_SEED-selected 1/Stride (pairs: 1/PairStride) of
   this closed domain; the guard is evaluated before the edit is applied.      *)
EXTENDS Integers, Sequences, FiniteSets, TLC, Json, IOUtils, CSV

CONSTANTS NAlpha,       \* size of the edit alphabet
          PairMax,      \* seeds of at most this many tokens also get pairs of edits
          PairTok,      \* alphabet indices used in pairs
          NDir, NEnd,   \* trailing directive lines 1..NDir (0 = none), endings 1..NEnd
          NZ, NZStruct, NCtx, NValCtx,   \* zero-sized family: types 1..NZ (1..NZStruct struct/union), contexts 1..NCtx (1..NValCtx by value)
          FtExit, FtSignals, FateStride, \* fate family: exit statuses and signals a child of the driver ends with
          NValid, NCont, NLead, NContByte, PrefStride,   \* prefix family: seeds 1..NValid are valid; containers, lead bytes, continuation bytes
          NAType, NAForm2, NAForm, AtomStride,           \* atomic-operand family
          NQual, NQPos,                                  \* qualifier family
          Seed, Stride, PairStride, TailStride,
          Emit

(* number of tokens of seed s: one JSON line {"n": ...} per seed, written by the harness after
   tokenising seeds/ (a TLC configuration file cannot hold a sequence) *)
SeedRecs == ndJsonDeserialize(IOEnv.SEEDS)
SeedLensFromFile == [s \in 1..Len(SeedRecs) |-> SeedRecs[s].n]     \* read once, in Init (variable lens)
SeedDirsFromFile == [s \in 1..Len(SeedRecs) |-> SeedRecs[s].d]     \* 1 = the seed has directives (several lines)
Kinds == <<"del", "rep", "ins", "dup", "swap">>
KNo(k) == CHOOSE j \in 1..5 : Kinds[j] = k

(* every edit applicable to a sequence of length n, alphabet tokens from A *)
EditsOf(n, A) ==
     [k : {"del"}, i : 1..n, t : {0}]
  \cup [k : {"rep"}, i : 1..n, t : A]
  \cup [k : {"ins"}, i : 1..(n + 1), t : A]
  \cup [k : {"dup"}, i : 1..n, t : {0}]
  \cup [k : {"swap"}, i : 1..(n - 1), t : {0}]

Apply(S, e) ==
  LET n == Len(S) IN
  CASE e.k = "del"  -> SubSeq(S, 1, e.i - 1) \o SubSeq(S, e.i + 1, n)
    [] e.k = "rep"  -> SubSeq(S, 1, e.i - 1) \o <<-e.t>> \o SubSeq(S, e.i + 1, n)
    [] e.k = "ins"  -> SubSeq(S, 1, e.i - 1) \o <<-e.t>> \o SubSeq(S, e.i, n)
    [] e.k = "dup"  -> SubSeq(S, 1, e.i) \o <<S[e.i]>> \o SubSeq(S, e.i + 1, n)
    [] e.k = "swap" -> SubSeq(S, 1, e.i - 1) \o <<S[e.i + 1], S[e.i]>> \o SubSeq(S, e.i + 2, n)

Ident(n) == [j \in 1..n |-> j]

(* index of an edit for the seed-selected subsample (small enough for 32-bit arithmetic) *)
Ix(s, e) == s * 7919 + KNo(e.k) * 104729 + e.i * 1299709 + e.t * 15485863
Sel1(s, e) == (Ix(s, e) + Seed) % Stride = 0
Sel2(s, e1, e2) == ((Ix(s, e1) % 1000003) * 31 + (Ix(s, e2) % 1000003) + Seed) % PairStride = 0

NoTail == [d |-> 0, e |-> 0]
NoRd == [a |-> 0, b |-> 0, sc |-> 0]
NoZs == [z |-> 0, c |-> 0, p |-> 0]
NoFt == [ch |-> 0, md |-> 0, how |-> "", n |-> 0, w |-> ""]
NoPx == [c |-> 0, b |-> 0, cs |-> <<>>]
NoAt == [f |-> 0, t |-> 0, u |-> 0]
NoQa == [q |-> 0, p |-> 0]
(* an input of no family: no seed, no edit, the ordinary rendering *)
Base == [s |-> 0, ed |-> <<>>, tail |-> NoTail, rd |-> NoRd, zs |-> NoZs, ft |-> NoFt, px |-> NoPx, at |-> NoAt, qa |-> NoQa]

ZsOK(x) == x.z \in 1..NZ /\ x.c \in 1..NCtx /\ x.p \in 1..3 /\ (x.c <= NValCtx => x.z <= NZStruct)
Zeros == {[Base EXCEPT !.zs = r] : r \in {x \in [z : 1..NZ, c : 1..NCtx, p : 1..3] : ZsOK(x)}}
FileKinds == 1..7
BlockKinds == 1..8
Redecls == {[Base EXCEPT !.rd = r] :
              r \in    [a : FileKinds, b : FileKinds, sc : {1}]
                  \cup [a : BlockKinds, b : BlockKinds, sc : {2, 5}]
                  \cup [a : FileKinds, b : BlockKinds, sc : {3}]
                  \cup [a : {9}, b : BlockKinds, sc : {4}]}
Sel3(s, d, e) == (s * 7919 + d * 104729 + e * 1299709 + Seed) % TailStride = 0

(* fate family: child ch is in the plan of mode md (Propagate.tla Plan) *)
InPlan(ch, md) == ch = 1 \/ (ch = 2 /\ md >= 3) \/ (ch = 3 /\ md = 4)
FtOK(x) == /\ x.md \in 1..4
           /\ \/ x.how = "ok" /\ x.ch = 0 /\ x.n = 0 /\ x.w = "after"
              \/ x.how = "exit" /\ x.n \in FtExit /\ x.w \in {"before", "after"} /\ x.ch \in 1..3 /\ InPlan(x.ch, x.md)
              \/ x.how = "signal" /\ x.n \in FtSignals /\ x.w \in {"before", "after"} /\ x.ch \in 1..3 /\ InPlan(x.ch, x.md)
SelF(x) == x.how = "ok" \/ (x.ch * 3 + x.md * 5 + x.n + (IF x.w = "after" THEN 1 ELSE 0) + Seed) % FateStride = 0
Fates == {[Base EXCEPT !.ft = r] :
            r \in {x \in      [ch : 1..3, md : 1..4, how : {"exit"}, n : FtExit, w : {"before", "after"}]
                         \cup [ch : 1..3, md : 1..4, how : {"signal"}, n : FtSignals, w : {"before", "after"}]
                         \cup [ch : {0}, md : 1..4, how : {"ok"}, n : {0}, w : {"after"}] : FtOK(x) /\ SelF(x)}}

(* prefix family *)
CB == 1..NContByte
ContSeqs == {<<>>} \cup {<<a>> : a \in CB} \cup {<<a, b>> : a \in CB, b \in CB} \cup {<<a, b, c>> : a \in CB, b \in CB, c \in CB}
CsIx(cs) == IF Len(cs) = 0 THEN 0 ELSE IF Len(cs) = 1 THEN cs[1]
            ELSE IF Len(cs) = 2 THEN 3 + cs[1] * 3 + cs[2] ELSE 15 + cs[1] * 9 + cs[2] * 3 + cs[3]
PIx(x) == x.c * 7 + x.b * 131 + CsIx(x.cs) * 17
PxOK(x) == x.c \in 1..NCont /\ x.b \in 1..NLead /\ x.cs \in ContSeqs
HostOK(L, D, s, c) == s \in (NValid + 1)..Len(L) /\ (c = 1 \/ D[s] = 0)
HostSet(L, D, c) == {s \in 1..Len(L) : HostOK(L, D, s, c)}
PrefixedC(L, D, c) ==
  LET H    == HostSet(L, D, c)
      rank == [s \in H |-> Cardinality({h \in H : h <= s})]          \* 1..Cardinality(H), in seed order
      st   == IF PrefStride = 0 THEN Cardinality(H) ELSE PrefStride IN
  {x \in [s : H, ed : {<<>>}, tail : {NoTail}, rd : {NoRd}, zs : {NoZs}, ft : {NoFt}, at : {NoAt}, qa : {NoQa},
           px : [c : {c}, b : 1..NLead, cs : ContSeqs]] :
     (rank[x.s] + PIx(x.px) + Seed) % st = 0}
Prefixed(L, D) == UNION {PrefixedC(L, D, c) : c \in 1..NCont}

(* atomic-operand family *)
AtOK(x) == x.f \in 1..NAForm /\ x.t \in 1..NAType /\ (IF x.f <= NAForm2 THEN x.u \in 1..NAType ELSE x.u = 0)
SelA(x) == x.u = 0 \/ x.u = x.t \/ (x.f * 7 + x.t * 13 + x.u * 31 + Seed) % AtomStride = 0
Atoms == {[Base EXCEPT !.at = r] :
            r \in {x \in [f : 1..NAForm2, t : 1..NAType, u : 1..NAType] \cup [f : (NAForm2 + 1)..NAForm, t : 1..NAType, u : {0}] : SelA(x)}}

(* qualifier family *)
QaOK(x) == x.q \in 1..NQual /\ x.p \in 1..NQPos
Quals == {[Base EXCEPT !.qa = r] : r \in [q : 1..NQual, p : 1..NQPos]}

(* (record-set constructors, not [Base EXCEPT ...]: TLC enumerates them two orders of magnitude faster) *)
Singles(L) == {x \in UNION {[s : {s}, ed : {<<e>> : e \in EditsOf(L[s], 1..NAlpha)}, tail : {NoTail}, rd : {NoRd}, zs : {NoZs}, ft : {NoFt}, px : {NoPx}, at : {NoAt}, qa : {NoQa}] :
                               s \in 1..Len(L)} :
                 Sel1(x.s, x.ed[1])}
Tails(L) == {x \in [s : 1..Len(L), ed : {<<>>}, tail : [d : 0..NDir, e : 1..NEnd], rd : {NoRd}, zs : {NoZs}, ft : {NoFt}, px : {NoPx}, at : {NoAt}, qa : {NoQa}] :
               Sel3(x.s, x.tail.d, x.tail.e)}
Pairs(L) == UNION {UNION {{[Base EXCEPT !.s = s, !.ed = <<e1, e2>>] :
                             e2 \in {e \in EditsOf(Len(Apply(Ident(L[s]), e1)), PairTok) : Sel2(s, e1, e)}} :
                          e1 \in EditsOf(L[s], PairTok)} :
                   s \in {z \in 1..Len(L) : L[z] <= PairMax}}

VARIABLES lens, dirs,  \* number of tokens of each seed, its directive attribute (constant after Init)
          cur, done
SeedLens == lens

Result(x) == IF x.s = 0 THEN <<>>
             ELSE IF Len(x.ed) = 0 THEN Ident(SeedLens[x.s])
             ELSE IF Len(x.ed) = 1 THEN Apply(Ident(SeedLens[x.s]), x.ed[1])
             ELSE Apply(Apply(Ident(SeedLens[x.s]), x.ed[1]), x.ed[2])

Init == /\ lens = SeedLensFromFile /\ dirs = SeedDirsFromFile
        /\ cur \in Singles(lens) \cup Pairs(lens) \cup Tails(lens) \cup Redecls \cup Zeros
                  \cup Fates \cup Prefixed(lens, dirs) \cup Atoms \cup Quals
        /\ done = FALSE
Next == /\ ~done /\ done' = TRUE /\ UNCHANGED <<cur, lens, dirs>>
        /\ Emit => CSVWrite("%1$s", <<ToJson([s |-> cur.s, ed |-> cur.ed, tail |-> cur.tail, rd |-> cur.rd, zs |-> cur.zs,
                                               ft |-> cur.ft, px |-> cur.px, at |-> cur.at, qa |-> cur.qa, r |-> Result(cur)])>>, IOEnv.OUT)
Spec == Init /\ [][Next]_<<cur, done, lens, dirs>>

(* what an edited input is: only seed tokens and alphabet tokens, length within the edit distance, and
   really different from the seed's own index sequence *)
OnlyFamily(f) == /\ (f # "rd" => cur.rd = NoRd) /\ (f # "zs" => cur.zs = NoZs) /\ (f # "ft" => cur.ft = NoFt)
                 /\ (f # "px" => cur.px = NoPx) /\ (f # "at" => cur.at = NoAt) /\ (f # "qa" => cur.qa = NoQa)
WellFormed ==
  IF cur.s = 0 /\ cur.zs # NoZs THEN OnlyFamily("zs") /\ ZsOK(cur.zs)
  ELSE IF cur.s = 0 /\ cur.ft # NoFt THEN OnlyFamily("ft") /\ FtOK(cur.ft)
  ELSE IF cur.s = 0 /\ cur.at # NoAt THEN OnlyFamily("at") /\ AtOK(cur.at)
  ELSE IF cur.s = 0 /\ cur.qa # NoQa THEN OnlyFamily("qa") /\ QaOK(cur.qa)
  ELSE IF cur.s = 0
  THEN OnlyFamily("rd") /\ cur.rd.sc \in 1..5 /\ cur.rd.b \in 1..8 /\ cur.rd.a \in 1..9
       /\ (cur.rd.a = 9 <=> cur.rd.sc = 4) /\ (cur.rd.sc = 1 => cur.rd.a # 8 /\ cur.rd.b # 8)
  ELSE IF cur.px # NoPx
  THEN OnlyFamily("px") /\ PxOK(cur.px) /\ HostOK(lens, dirs, cur.s, cur.px.c) /\ cur.ed = <<>> /\ cur.tail = NoTail
  ELSE
  LET n == SeedLens[cur.s]  r == Result(cur)  m == Len(cur.ed) IN
  /\ OnlyFamily("")
  /\ Len(r) \in (n - m)..(n + m)
  /\ \A j \in 1..Len(r) : r[j] \in 1..n \/ -r[j] \in 1..NAlpha
  /\ (m = 1 => r # Ident(n))
  /\ (m = 0 => r = Ident(n) /\ cur.tail.d \in 0..NDir /\ cur.tail.e \in 1..NEnd)
  /\ (m > 0 => cur.tail = NoTail)
=============================================================================
