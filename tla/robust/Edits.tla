------------------------------- MODULE Edits -------------------------------
(* C13 - the input space.  A seed is a token sequence; the specification works
   on token indices: seed s has SeedLens[s] tokens 1..n, the edit alphabet is
   1..NAlpha (harness/c13.py ALPHABET).  An edited input is a sequence over
   seed positions (j > 0: the seed's j-th token) and alphabet tokens (-t).

   Single edits of a seed of n tokens (all of them):
     Delete(i)     i in 1..n         Replace(i,t)  i in 1..n,   t in 1..NAlpha
     Insert(i,t)   i in 1..n+1       Dup(i)        i in 1..n
     Swap(i)       i in 1..n-1 (tokens i and i+1)
   Pairs of edits (the second applied to the result of the first) for seeds of
   at most PairMax tokens, with alphabet tokens restricted to PairTok.

   Byte-level end-of-file family (added after seeded change C13-1): every seed,
   unedited, followed by one of NDir trailing directive lines (0 = none; the
   harness's DIRS: #if 1/#endif, #pragma once, #include <stddef.h>, #define X,
   #line 3, #error x, #undef X, #ifdef X/#else/#endif) and closed by one of NEnd
   endings (ENDS: nothing, newline, backslash-newline, lone backslash, CR LF, CR,
   backslash CR LF, blank, an unterminated comment, a line comment without
   newline, an unterminated string / character constant): tail = [d, e].
   Edits carry tail = [d |-> 0, e |-> 0] (the ordinary rendering, one newline).

   Redeclaration family (added after seeded change C13-5): one identifier declared
   twice, as every ordered pair of kinds (harness KINDS: 1 enumerator, 2 typedef
   name, 3 object, 4 object with initializer, 5 function declaration, 6 function
   definition, 7 tag, 8 label, 9 parameter) in every scope arrangement sc:
   1 both at file scope, 2 both in one block, 3 file scope then block, 4 parameter
   then block, 5 block then nested block.  Labels exist in blocks only, parameter
   only as the first of arrangement 4.  rd = [a, b, sc]; s = 0 (no seed).
   Every other input carries rd = NoRd.

   Zero-sized family (added in the fourth round: an empty struct passed by value
   killed the code generator, `union E {} e = {}` the parser): an object type of
   size 0 in every context an object or a value can appear in.  zs = [z, c, p],
   s = 0 (no seed).  z = the zero-sized type (harness ZTYPES: 1 empty struct,
   2 empty union, 3 struct of a zero-length array, 4 struct of an empty struct,
   5 struct of an array of empty structs and a zero-length array of double,
   6 struct of a zero-width bit-field, 7 zero-length array, 8 array of empty
   structs); 1..NZStruct are struct / union types, the others array types.
   c = the context (harness CNAMES), 1..NValCtx use the *value* (parameter,
   argument of a declared function, return value, member of a struct passed and
   returned by value, assignment, ?: / comma / statement expression, variadic
   argument, va_arg, named parameter of a variadic function, parameter after the
   argument registers are exhausted, compound literal, call without prototype /
   through a pointer / recursive) and need a type that can be passed and assigned
   (z <= NZStruct); the others use the *object* (local, global, sizeof / _Alignof,
   array element, member initializer, pointer arithmetic) and take every z.
   p = 1..3 is the position / variant inside the context (first, middle, last
   among an int and a double; plain, chained, through a pointer; ...).
   Every other input carries zs = NoZs.  Level A: gcc accepts and runs every
   member correctly except c = 18, p = 3 (pointer difference, which divides by
   the size: gcc rejects it), so each must be Accepted or Diagnosed.

   One TLC state per edited input; every state emits its input (CSVWrite).  The
   quick tier takes the VERIF_SEED-selected 1/Stride (pairs: 1/PairStride) of
   this closed domain; the guard is evaluated before the edit is applied.      *)
EXTENDS Integers, Sequences, FiniteSets, TLC, Json, IOUtils, CSV

CONSTANTS NAlpha,       \* size of the edit alphabet
          PairMax,      \* seeds of at most this many tokens also get pairs of edits
          PairTok,      \* alphabet indices used in pairs
          NDir, NEnd,   \* trailing directive lines 1..NDir (0 = none), endings 1..NEnd
          NZ, NZStruct, NCtx, NValCtx,   \* zero-sized family: types 1..NZ (1..NZStruct struct/union), contexts 1..NCtx (1..NValCtx by value)
          Seed, Stride, PairStride, TailStride,
          Emit

(* number of tokens of seed s: one JSON line {"n": ...} per seed, written by the harness after
   tokenising seeds/ (a TLC configuration file cannot hold a sequence) *)
SeedRecs == ndJsonDeserialize(IOEnv.SEEDS)
SeedLensFromFile == [s \in 1..Len(SeedRecs) |-> SeedRecs[s].n]     \* read once, in Init (variable lens)
Kinds == <<"del", "rep", "ins", "dup", "swap">>
KNo(k) == CHOOSE j \in 1..5 : Kinds[j] = k

(* every edit applicable to a sequence of length n, alphabet tokens from A *)
EditsOf(n, A) ==
     [k : {"del"}, i : 1..n, t : {0}]
  \cup [k : {"rep"}, i : 1..n, t : A]
  \cup [k : {"ins"}, i : 1..(n + 1), t : A]
  \cup [k : {"dup"}, i : 1..n, t : {0}]
  \cup [k : {"swap"}, i : 1..(n - 1), t : {0}]

Apply(S, e) ==
  LET n == Len(S) IN
  CASE e.k = "del"  -> SubSeq(S, 1, e.i - 1) \o SubSeq(S, e.i + 1, n)
    [] e.k = "rep"  -> SubSeq(S, 1, e.i - 1) \o <<-e.t>> \o SubSeq(S, e.i + 1, n)
    [] e.k = "ins"  -> SubSeq(S, 1, e.i - 1) \o <<-e.t>> \o SubSeq(S, e.i, n)
    [] e.k = "dup"  -> SubSeq(S, 1, e.i) \o <<S[e.i]>> \o SubSeq(S, e.i + 1, n)
    [] e.k = "swap" -> SubSeq(S, 1, e.i - 1) \o <<S[e.i + 1], S[e.i]>> \o SubSeq(S, e.i + 2, n)

Ident(n) == [j \in 1..n |-> j]

(* index of an edit for the seed-selected subsample (small enough for 32-bit arithmetic) *)
Ix(s, e) == s * 7919 + KNo(e.k) * 104729 + e.i * 1299709 + e.t * 15485863
Sel1(s, e) == (Ix(s, e) + Seed) % Stride = 0
Sel2(s, e1, e2) == ((Ix(s, e1) % 1000003) * 31 + (Ix(s, e2) % 1000003) + Seed) % PairStride = 0

NoTail == [d |-> 0, e |-> 0]
NoRd == [a |-> 0, b |-> 0, sc |-> 0]
NoZs == [z |-> 0, c |-> 0, p |-> 0]
ZsOK(x) == x.z \in 1..NZ /\ x.c \in 1..NCtx /\ x.p \in 1..3 /\ (x.c <= NValCtx => x.z <= NZStruct)
Zeros == {[s |-> 0, ed |-> <<>>, tail |-> NoTail, rd |-> NoRd, zs |-> r] : r \in {x \in [z : 1..NZ, c : 1..NCtx, p : 1..3] : ZsOK(x)}}
FileKinds == 1..7
BlockKinds == 1..8
Redecls == {[s |-> 0, ed |-> <<>>, tail |-> NoTail, zs |-> NoZs, rd |-> r] :
              r \in    [a : FileKinds, b : FileKinds, sc : {1}]
                  \cup [a : BlockKinds, b : BlockKinds, sc : {2, 5}]
                  \cup [a : FileKinds, b : BlockKinds, sc : {3}]
                  \cup [a : {9}, b : BlockKinds, sc : {4}]}
Sel3(s, d, e) == (s * 7919 + d * 104729 + e * 1299709 + Seed) % TailStride = 0

Singles(L) == {x \in UNION {[s : {s}, ed : {<<e>> : e \in EditsOf(L[s], 1..NAlpha)}, tail : {NoTail}, rd : {NoRd}, zs : {NoZs}] : s \in 1..Len(L)} :
                 Sel1(x.s, x.ed[1])}
Tails(L) == {x \in [s : 1..Len(L), ed : {<<>>}, tail : [d : 0..NDir, e : 1..NEnd], rd : {NoRd}, zs : {NoZs}] : Sel3(x.s, x.tail.d, x.tail.e)}
Pairs(L) == UNION {UNION {{[s |-> s, ed |-> <<e1, e2>>, tail |-> NoTail, rd |-> NoRd, zs |-> NoZs] :
                             e2 \in {e \in EditsOf(Len(Apply(Ident(L[s]), e1)), PairTok) : Sel2(s, e1, e)}} :
                          e1 \in EditsOf(L[s], PairTok)} :
                   s \in {z \in 1..Len(L) : L[z] <= PairMax}}

VARIABLES lens,        \* number of tokens of each seed (constant after Init)
          cur, done
SeedLens == lens

Result(x) == IF x.s = 0 THEN <<>>
             ELSE IF Len(x.ed) = 0 THEN Ident(SeedLens[x.s])
             ELSE IF Len(x.ed) = 1 THEN Apply(Ident(SeedLens[x.s]), x.ed[1])
             ELSE Apply(Apply(Ident(SeedLens[x.s]), x.ed[1]), x.ed[2])

Init == /\ lens = SeedLensFromFile
        /\ cur \in Singles(lens) \cup Pairs(lens) \cup Tails(lens) \cup Redecls \cup Zeros
        /\ done = FALSE
Next == /\ ~done /\ done' = TRUE /\ UNCHANGED <<cur, lens>>
        /\ Emit => CSVWrite("%1$s", <<ToJson([s |-> cur.s, ed |-> cur.ed, tail |-> cur.tail, rd |-> cur.rd, zs |-> cur.zs, r |-> Result(cur)])>>, IOEnv.OUT)
Spec == Init /\ [][Next]_<<cur, done, lens>>

(* what an edited input is: only seed tokens and alphabet tokens, length within the edit distance, and
   really different from the seed's own index sequence *)
WellFormed ==
  IF cur.s = 0 /\ cur.zs # NoZs
  THEN cur.rd = NoRd /\ ZsOK(cur.zs)
  ELSE IF cur.s = 0
  THEN cur.zs = NoZs /\ cur.rd.sc \in 1..5 /\ cur.rd.b \in 1..8 /\ cur.rd.a \in 1..9
       /\ (cur.rd.a = 9 <=> cur.rd.sc = 4) /\ (cur.rd.sc = 1 => cur.rd.a # 8 /\ cur.rd.b # 8)
  ELSE
  LET n == SeedLens[cur.s]  r == Result(cur)  m == Len(cur.ed) IN
  /\ cur.rd = NoRd /\ cur.zs = NoZs
  /\ Len(r) \in (n - m)..(n + m)
  /\ \A j \in 1..Len(r) : r[j] \in 1..n \/ -r[j] \in 1..NAlpha
  /\ (m = 1 => r # Ident(n))
  /\ (m = 0 => r = Ident(n) /\ cur.tail.d \in 0..NDir /\ cur.tail.e \in 1..NEnd)
  /\ (m > 0 => cur.tail = NoTail)
=============================================================================
