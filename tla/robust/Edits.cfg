SPECIFICATION Spec
CONSTANTS NAlpha = 68
 PairMax = 6
 PairTok = {1,28,36,37,38,39,42}
 Seed = 0
 Stride = 1
 PairStride = 1
 TailStride = 1
 NDir = 8
 NEnd = 12
 NZ = 8
 NZStruct = 6
 NCtx = 18
 NValCtx = 12
 FtExit = {1,2,3,126,127,128,255}
 FtSignals = {1,2,3,4,6,7,8,9,11,13,14,15,24,25,31}
 FateStride = 1
 NValid = 1
 NCont = 3
 NLead = 14
 NContByte = 3
 PrefStride = 1
 NAType = 23
 NAForm2 = 3
 NAForm = 13
 AtomStride = 1
 NQual = 9
 NQPos = 18
 Emit = TRUE
INVARIANT WellFormed
CHECK_DEADLOCK FALSE
