SPECIFICATION Spec
CONSTANTS NAlpha = 68
 PairMax = 6
 PairTok = {1,28,36,37,38,39,42}
 Seed = 0
 Stride = 1
 PairStride = 1
 TailStride = 1
 NDir = 8
 NEnd = 12
 NZ = 8
 NZStruct = 6
 NCtx = 18
 NValCtx = 12
 Emit = TRUE
INVARIANT WellFormed
CHECK_DEADLOCK FALSE
