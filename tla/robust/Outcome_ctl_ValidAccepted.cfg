SPECIFICATION Spec
CONSTANTS Robust = FALSE
 MaxLines = 3
INVARIANTS ValidAccepted
CHECK_DEADLOCK FALSE
