-------------------------------- MODULE Init --------------------------------
(* C05.  The "current object" automaton of C11 6.7.9 (plus the GNU range
   designator and the GNU static initialisation of a flexible array member).

   The state is exactly what 6.7.9 talks about:
     ty      the type of the object being initialised (a name of the table TT)
     items   the initializer tokens written so far (the program text)
     stack   the stack of current objects: one frame per aggregate whose
             initializer list is being consumed, innermost last.  A frame is
             explicit (opened by a brace, `br`) or implicit (entered by brace
             elision p20 or by a designator chain p17); `c` is its cursor, the
             1-based index of the next subobject in declaration order.
     val     the object value so far: subobject path -> scalar value.  A path
             absent from val holds the implicit zero of p10/p21.
     log     what every initializer did, in source order (for the invariants)
   One action per token group of the grammar

       initializer-list:  designation? initializer (, designation? initializer)* ,?
       designation:       designator+ =          designator: [i] | [i ... j] | .m
       initializer:       assignment-expression | string-literal | { initializer-list }

   Value(vc) a scalar expression of value class vc: initialises the next *scalar* of the current
             object, entering aggregates on the way (brace elision, p20);
   Str(l,pre) a string literal for the next array of character type (p14-15);
   Open      `{`: the next subobject becomes the current object (p16-17, p20);
             everything listed earlier for that subobject is overridden (p19);
   Close     `}`: back to the enclosing brace level, short lists zero-fill (p21);
   DesigField/DesigIndex/DesigRange  the current object of the *closest brace
             pair* gets a new cursor (p17); further designators descend;
             afterwards initialisation continues "with the next subobject after
             that described by the designator" (p17) - the frames pushed by a
             designator chain behave exactly like brace elision frames;
   TrailingComma   `,` before `}`.

   Rules that are not in the grammar:  unnamed bit-fields are not subobjects
   for initialisation (p9): the cursor skips them;  a union takes one
   initializer for its first named member or for the designated one, and
   selecting another member discards the previous one (p17, p19);  an array of
   unknown bound gets the size largest index + 1 (p22);  a string fills its
   array, with the terminating NUL only if there is room (p14);  an anonymous
   struct/union member is entered by brace elision and its members can be
   designated directly (6.7.2.1p13).

   Only *defined* initializers are behaviours: no excess elements (p2), no
   empty braces, no {{scalar}}, strings fit, designators in range.  Corners on
   which gcc 12 and clang 14 disagree are excluded too: a range designator is
   always the last designator and is followed by a scalar for a scalar
   element, a string for a character array element, or a braced list.

   The object value is a function of (type, initializer) alone: it does not depend on
   the storage class, nor on the machine state in which the definition is reached.
   The harness therefore reaches every automatic definition on a poisoned stack and
   with all caller-saved registers holding non-zero patterns.

   Every completed behaviour (the outermost list closed) is written out with
   Emit as one test vector: type, tokens, value map.  harness/c05.py turns it
   into `static T s = I;` and `T a = I;` and compares both object values.

   Broken = TRUE is the sensitivity control (and the record of the pinned
   tree's parser): `{` and a string do not discard what was listed earlier for
   the same subobject.  TLC must reject it (invariant LastWins).             *)
EXTENDS Integers, Sequences, FiniteSets, TLC, Json, CSV, IOUtils, SequencesExt

CONSTANTS Types,      \* the type names explored (subset of DOMAIN TT)
          MaxItems,   \* initializers (Value / Str / Open) per behaviour
          MaxDesig,   \* designators per item
          MaxUnk,     \* designated indices into an array of unknown bound are < MaxUnk
          MaxTC,      \* trailing commas per behaviour
          Ranges,     \* TRUE: GNU range designators are in the domain
          ValClasses, \* the value classes an initializer expression is drawn from (subset of AllValClasses)
          Emit,
          Broken

----------------------------------------------------------------------------
(* The structural type language.  A type is a name of TT.
     sc   scalar; c = kind.  "ptr": the k-th Value is the address constant &G.m[k] + 1 (class "k")
     arr  n elements of type e; n = 0: unknown bound (top level or flexible member)
     st   struct; un union.  member: n = name ("" = none), t = type,
          w = bit-field width (0 = not a bit-field).
          n = "" and t scalar: unnamed bit-field (w may be 0);  n = "" and t struct/union:
          anonymous struct/union *)
Sc(c)      == [k |-> "sc", c |-> c]
Arr(n, e)  == [k |-> "arr", n |-> n, e |-> e]
(* Layout attributes.  6.7.9 does not mention them: the value of every member is the same whatever the
   offsets are.  They are part of the type alphabet because both back ends work on offsets: a struct may be
   `packed` (at = "packed": members, in particular pointers = relocations, at offsets that are not multiples
   of their alignment, elements of arrays of such structs at odd strides), a member may be over-aligned
   (al = n: _Alignas(n), padding in the middle of the image). *)
St(ms)     == [k |-> "st", ms |-> ms, at |-> ""]
StP(ms)    == [k |-> "st", ms |-> ms, at |-> "packed"]
Un(ms)     == [k |-> "un", ms |-> ms, at |-> ""]
M(n, t)    == [n |-> n, t |-> t, w |-> 0, al |-> 0]
MA(n, t, a) == [n |-> n, t |-> t, w |-> 0, al |-> a]
B(n, t, w) == [n |-> n, t |-> t, w |-> w, al |-> 0]

TT == [
  \* scalars
  int |-> Sc("int"), char |-> Sc("char"), short |-> Sc("short"), long |-> Sc("long"), uint |-> Sc("uint"),
  bool |-> Sc("bool"), float |-> Sc("float"), double |-> Sc("double"), ptr |-> Sc("ptr"),
  uchar |-> Sc("uchar"), c16 |-> Sc("c16"), c32 |-> Sc("c32"), wchar |-> Sc("wchar"), ldouble |-> Sc("ldouble"),
  \* arrays
  i2 |-> Arr(2, "int"), i3 |-> Arr(3, "int"), i0 |-> Arr(0, "int"), i22 |-> Arr(2, "i2"), i02 |-> Arr(0, "i2"),
  l3 |-> Arr(3, "long"), p2 |-> Arr(2, "ptr"), d2 |-> Arr(2, "double"),
  \* objects of 32, 36, 40, 56 and 100 bytes, mostly left to the implicit zero (block zero-fill paths)
  i8 |-> Arr(8, "int"), i33 |-> Arr(3, "i3"), c100 |-> Arr(100, "char"),
  l4 |-> Arr(4, "long"), l5 |-> Arr(5, "long"), c12 |-> Arr(12, "char"),
  s56 |-> St(<<M("tag", "int"), M("v", "l4"), M("name", "c12")>>),
  u40 |-> Un(<<M("c", "char"), M("w", "l5")>>),
  \* character arrays
  c4 |-> Arr(4, "char"), c0 |-> Arr(0, "char"), c3 |-> Arr(3, "char"), uc4 |-> Arr(4, "uchar"),
  h4 |-> Arr(4, "c16"), h0 |-> Arr(0, "c16"), U4 |-> Arr(4, "c32"), w4 |-> Arr(4, "wchar"), w0 |-> Arr(0, "wchar"),
  c24 |-> Arr(2, "c4"), w2 |-> Arr(2, "wchar"), h3 |-> Arr(3, "c16"),
  \* structs
  sii  |-> St(<<M("a", "int"), M("b", "int")>>),
  scl  |-> St(<<M("a", "char"), M("b", "long"), M("c", "short")>>),
  sfd  |-> St(<<M("a", "float"), M("b", "double"), M("c", "bool")>>),
  sn   |-> St(<<M("a", "int"), M("s", "sii"), M("b", "int")>>),
  sn2  |-> St(<<M("s", "scl"), M("t", "sii")>>),
  sa   |-> St(<<M("a", "i2"), M("b", "int")>>),
  sa3  |-> St(<<M("a", "char"), M("b", "i3")>>),
  as   |-> Arr(2, "sii"), as0 |-> Arr(0, "sii"), asa |-> Arr(2, "sa"),
  sbf  |-> St(<<M("a", "int"), B("b", "uint", 5), B("c", "uint", 5), M("d", "int")>>),
  sbf2 |-> St(<<B("a", "int", 7), B("b", "long", 33), M("c", "char"), B("d", "uint", 4)>>),
  sub  |-> St(<<M("a", "int"), B("", "int", 3), M("b", "int")>>),
  sub2 |-> St(<<B("", "int", 3), M("a", "int"), B("", "int", 0), M("b", "char"), B("", "int", 5)>>),
  san  |-> St(<<M("a", "int"), M("", "sxy"), M("b", "int")>>),
  sxy  |-> St(<<M("x", "int"), M("y", "int")>>),
  sau  |-> St(<<M("a", "int"), M("", "uxy"), M("b", "int")>>),
  uxy  |-> Un(<<M("x", "int"), M("y", "char")>>),
  sau2 |-> St(<<M("", "uxy"), M("b", "int")>>),
  u    |-> Un(<<M("a", "int"), M("b", "c4")>>),
  us   |-> Un(<<M("s", "sii"), M("c", "long"), M("d", "char")>>),
  ub   |-> Un(<<B("", "int", 3), M("a", "char"), M("b", "int")>>),
  su   |-> St(<<M("a", "int"), M("u", "u"), M("b", "int")>>),
  au   |-> Arr(2, "us"),
  sf   |-> St(<<M("n", "int"), M("f", "i0")>>),
  sfs  |-> St(<<M("n", "char"), M("f", "as0")>>),
  sfc  |-> St(<<M("n", "int"), M("f", "c0")>>),
  sc4  |-> St(<<M("a", "c4"), M("b", "int")>>),
  \* an array of character arrays inside a struct: a string literal reaches its element by brace elision (p20)
  c3x2 |-> Arr(2, "c3"), sc23 |-> St(<<M("a", "c3x2"), M("b", "int")>>),
  sw   |-> St(<<M("a", "char"), M("w", "w2"), M("h", "h3")>>),
  sp   |-> St(<<M("p", "ptr"), M("a", "int"), M("q", "ptr")>>),
  \* layouts off the natural alignment: packed (pointers, floating and integer members at odd offsets; an
  \* array with the odd stride 19; a packed struct inside an ordinary one) and over-aligned members
  spk  |-> StP(<<M("t", "char"), M("p", "ptr"), M("h", "short"), M("q", "ptr")>>),
  spk2 |-> StP(<<M("a", "char"), M("d", "double"), M("l", "long"), M("f", "float")>>),
  apk  |-> Arr(2, "spk"),
  snpk |-> St(<<M("c", "char"), M("s", "spk"), M("r", "ptr")>>),
  sal  |-> St(<<M("a", "char"), MA("p", "ptr", 16), M("b", "char"), MA("c", "char", 8)>>),
  \* floating members of every format, for the value classes
  sfl  |-> St(<<M("a", "float"), M("b", "double"), M("c", "ldouble")>>),
  ufd  |-> Un(<<M("a", "float"), M("b", "double")>>)
]

(* The value alphabet of an initializer expression.  The automaton is data independent: an initializer is
   a token, the k-th one (k = 1, 2, ...) is distinguishable from all others.  Which VALUE the k-th expression
   has is a second dimension, the value class:
     "k"        the positive value k            (k, k.5f, k.25, k.25L, &G.m[k] + 1)
     "zero"     an explicit zero                (0, 0.0f, 0.0, 0.0L, the null pointer constant 0): by p10/p21 the
                same object value as no initializer at all, but an initializer: it overrides (p19)
     "negzero"  a negated zero literal          (-0 = 0 for integers, a null pointer constant cast to pointer-to-void
                for pointers, NEGATIVE ZERO for floating types: a value distinct from +0.0 = all bits zero,
                6.7.9p10 speaks of "positive zero")
     "neg"      the negative value -k           (-k, -k.5f, -k.25, &G.m[k] - 1 = an address constant with a
                negative offset), converted to the member's type as if by assignment (p11)
   val holds the code of (class, k); IntValue is the mathematical value for the integer kinds, NegZero says
   that a floating member holds negative zero.  The harness spells the expression (plain, parenthesised,
   cast from another type, negation of a parenthesised literal) and compares REPRESENTATIONS of floating
   members, so that -0.0 and +0.0 differ. *)
AllValClasses == <<"k", "zero", "negzero", "neg">>
ClassIdx(vc)  == CHOOSE i \in 1..Len(AllValClasses) : AllValClasses[i] = vc
VCode(vc, k)  == (ClassIdx(vc) - 1) * 10000 + k     \* (string literals write their code units, all < 10000: class "k")
ClassOf(code) == AllValClasses[(code \div 10000) + 1]
Ordinal(code) == code % 10000
IntValue(code) == CASE ClassOf(code) = "k" -> Ordinal(code) [] ClassOf(code) = "neg" -> 0 - Ordinal(code) [] OTHER -> 0
NegZero(code)  == ClassOf(code) = "negzero"

K(t)      == TT[t].k
IsAgg(t)  == K(t) # "sc"
Big       == 999
NKids(t)  == IF K(t) = "arr" THEN (IF TT[t].n = 0 THEN Big ELSE TT[t].n) ELSE Len(TT[t].ms)
KidT(t, i) == IF K(t) = "arr" THEN TT[t].e ELSE TT[t].ms[i].t
(* p9: unnamed bit-fields do not take part in initialisation *)
Skippable(t, i) == K(t) # "arr" /\ TT[t].ms[i].n = "" /\ K(TT[t].ms[i].t) = "sc"
IsAnon(t, i)    == K(t) # "arr" /\ TT[t].ms[i].n = "" /\ K(TT[t].ms[i].t) # "sc"
Mn(S) == CHOOSE x \in S : \A y \in S : x <= y
Mx(S) == CHOOSE x \in S : \A y \in S : x >= y
(* the subobject after i in declaration order; a union has one *)
NextKid(t, i) ==
  IF K(t) = "arr" THEN i + 1
  ELSE IF K(t) = "un" /\ i > 0 THEN NKids(t) + 1
  ELSE Mn({j \in (i + 1)..NKids(t) : ~Skippable(t, j)} \cup {NKids(t) + 1})
FirstKid(t) == NextKid(t, 0)
CharKind(c) == c \in {"char", "uchar", "c16", "c32", "wchar"}
IsCharArr(t) == K(t) = "arr" /\ K(TT[t].e) = "sc" /\ CharKind(TT[TT[t].e].c)
(* 6.7.9p14/15: which literal prefixes may initialise an array of element kind c *)
LitPrefixes(c) == CASE c = "char" -> {""} [] c = "uchar" -> {"u8"} [] c = "c16" -> {"u"} [] c = "c32" -> {"U"}
                 [] c = "wchar" -> {"L"} [] OTHER -> {}
(* the i-th code unit of the literal of length l: a b c d; the wide ones have U+03B2 second *)
Unit(pre, i) == IF i = 2 /\ pre \in {"u", "U", "L"} THEN 946 ELSE 96 + i
(* lengths tried for an array of n elements: shorter (zero fill), exactly with the NUL, NUL dropped; "" where n <= 3 *)
StrLens(n) == IF n = 0 THEN {0, 2} ELSE IF n <= 3 THEN {0, n - 1, n} ELSE IF n = 4 THEN {2, 3, 4} ELSE {2, 3}

RECURSIVE TypeAt(_, _)
TypeAt(t, q) == IF q = <<>> THEN t ELSE TypeAt(KidT(t, q[1]), Tail(q))
RECURSIVE ValidLeaf(_, _)
ValidLeaf(t, q) == IF q = <<>> THEN ~IsAgg(t)
                   ELSE IsAgg(t) /\ q[1] \in 1..NKids(t) /\ ~Skippable(t, q[1]) /\ ValidLeaf(KidT(t, q[1]), Tail(q))
PathPrefix(p, q) == Len(p) <= Len(q) /\ SubSeq(q, 1, Len(p)) = p

(* field names that `.m` may name in a struct/union: its own and those of anonymous members *)
OwnIdx(t, m)  == {i \in 1..NKids(t) : TT[t].ms[i].n = m}
AnonIdx(t, m) == {i \in 1..NKids(t) : IsAnon(t, i) /\ OwnIdx(TT[t].ms[i].t, m) # {}}
FieldNames0(t) == {TT[t].ms[i].n : i \in 1..NKids(t)} \ {""}
FieldNames(t) == FieldNames0(t) \cup UNION {FieldNames0(TT[t].ms[i].t) : i \in {j \in 1..NKids(t) : IsAnon(t, j)}}

----------------------------------------------------------------------------
VARIABLES ty, items, stack, val, log,
          dz,      \* designators of the item being written (0 = none pending)
          rng,     \* pending range designator [i ... i+rng]
          tc,      \* a trailing comma was just written
          nit, ntc \* initializers / trailing commas so far
vars == <<ty, items, stack, val, log, dz, rng, tc, nit, ntc>>

Top(s)  == s[Len(s)]
Root    == [p |-> <<>>, t |-> "ROOT", c |-> 1, br |-> TRUE, n |-> 0, rep |-> 0]
IsRoot(f) == f.t = "ROOT"
Plain(f)  == IsRoot(f) \/ ~IsAgg(f.t)            \* the root and a braced scalar have one "subobject": the object itself
LastKid(f)  == IF Plain(f) THEN 1 ELSE NKids(f.t)
Exhausted(f) == f.c > LastKid(f)
KidTy(f)   == IF IsRoot(f) THEN ty ELSE IF IsAgg(f.t) THEN KidT(f.t, f.c) ELSE f.t
KidPath(f) == IF Plain(f) THEN f.p ELSE Append(f.p, f.c)
Adv(f, by) == [f EXCEPT !.c = IF Plain(f) THEN 2 ELSE IF by > 0 THEN f.c + by + 1 ELSE NextKid(f.t, f.c)]
AdvTop(s, by) == [s EXCEPT ![Len(s)] = Adv(@, by)]
SetCur(s, c)  == [s EXCEPT ![Len(s)].c = c]

(* implicit frames whose last subobject is initialised are left (p20: "any remaining
   initializers are left to initialize the next element or member of the aggregate
   of which the current subaggregate is a part") *)
RECURSIVE Norm(_)
Norm(s) == IF Len(s) > 1 /\ ~Top(s).br /\ Exhausted(Top(s)) THEN Norm(SubSeq(s, 1, Len(s) - 1)) ELSE s
(* p17: a designation is relative to the current object of the closest surrounding brace pair *)
RECURSIVE PopToExplicit(_)
PopToExplicit(s) == IF Top(s).br THEN s ELSE PopToExplicit(SubSeq(s, 1, Len(s) - 1))
(* the next subobject becomes the current object *)
Push(s, br, rep) ==
  LET f == Top(s) kt == KidTy(f)
  IN Append(AdvTop(s, rep), [p |-> KidPath(f), t |-> kt, c |-> IF IsAgg(kt) THEN FirstKid(kt) ELSE 1,
                             br |-> br, n |-> 0, rep |-> rep])
(* p20 brace elision: enter aggregates until the next subobject is a scalar / satisfies stop *)
RECURSIVE Descend(_)
Descend(s) == IF IsAgg(KidTy(Top(s))) THEN Descend(Push(s, FALSE, 0)) ELSE s
RECURSIVE DescendStr(_, _)
DescendStr(s, pre) ==
  LET kt == KidTy(Top(s))
  IN IF Exhausted(Top(s)) THEN <<>>
     ELSE IF IsCharArr(kt) /\ pre \in LitPrefixes(TT[TT[kt].e].c) THEN s
     ELSE IF IsAgg(kt) /\ ~IsCharArr(kt) THEN DescendStr(Push(s, FALSE, 0), pre)
     ELSE <<>>                                   \* no character array of that kind comes next
(* the initializer just written belongs to the list of the closest brace pair *)
Mark(s) == LET i == Mx({j \in 1..Len(s) : s[j].br}) IN [s EXCEPT ![i].n = 1]

(* ---- the value map ---- *)
UnionKill(k, path) ==       \* k lies in another member of a union that `path` selects a member of
  \E i \in 1..(IF Len(k) < Len(path) THEN Len(k) ELSE Len(path)) :
     /\ SubSeq(k, 1, i - 1) = SubSeq(path, 1, i - 1) /\ k[i] # path[i]
     /\ K(TypeAt(ty, SubSeq(path, 1, i - 1))) = "un"
Put(vm, path, v) == LET keep == {k \in DOMAIN vm : ~UnionKill(k, path)} \cup {path}
                    IN [k \in keep |-> IF k = path THEN v ELSE vm[k]]
Clear(vm, path) == IF Broken THEN vm ELSE [k \in {x \in DOMAIN vm : ~PathPrefix(path, x)} |-> vm[k]]
PutAll(vm, ws)  == FoldLeft(LAMBDA m, w : IF w.k = "w" THEN Put(m, w.p, w.v) ELSE Clear(m, w.p), vm, ws)
W(p, v) == [k |-> "w", p |-> p, v |-> v]
Cl(p)   == [k |-> "c", p |-> p]
(* a string literal of l units written to the array of n elements at path p (n = 0: unknown bound) *)
StrWrites(p, n, l, pre) ==
  LET m == IF n = 0 THEN l + 1 ELSE IF l + 1 < n THEN l + 1 ELSE n
  IN <<Cl(p)>> \o [i \in 1..m |-> W(Append(p, i), IF i <= l THEN Unit(pre, i) ELSE 0)]
(* [i ... j] = {list}: the list initialises every element of the range *)
Copies(vm, p, from, rep) ==
  LET src == {k \in DOMAIN vm : PathPrefix(Append(p, from), k)}
      n   == Len(p) + 1
  IN FlattenSeq([d \in 1..rep |->
        <<Cl(Append(p, from + d))>> \o
        [j \in 1..Cardinality(src) |-> LET k == SetToSeq(src)[j] IN W([k EXCEPT ![n] = from + d], vm[k])]])

Budget == MaxItems - nit
Done(s) == Len(s) = 1 /\ Exhausted(s[1])
(* dis: the initializers (path, value) that a later `{` or string for an enclosing subobject discarded
   (p19); the harness uses it to recognise the open finding D35 (they survive in chibicc) exactly *)
Discarded(lg) == {[p |-> lg[j].p, v |-> lg[j].v] :
                    j \in {x \in 1..Len(lg) : lg[x].k = "w" /\ \E i \in (x + 1)..Len(lg) :
                                                   lg[i].k = "c" /\ PathPrefix(lg[i].p, lg[x].p)}}
Case(it, vm, lg) == [ty |-> ty, toks |-> it, val |-> {[p |-> k, v |-> vm[k]] : k \in DOMAIN vm}, dis |-> Discarded(lg)]
Finish(s, it, vm, lg) == (Emit /\ Done(s)) => CSVWrite("%1$s", <<ToJson(Case(it, vm, lg))>>, IOEnv.OUT)

----------------------------------------------------------------------------
Init == /\ ty \in Types
        /\ items = <<>> /\ stack = <<Root>> /\ val = [k \in {} |-> 0] /\ log = <<>>
        /\ dz = 0 /\ rng = 0 /\ tc = FALSE /\ nit = 0 /\ ntc = 0
        /\ (Emit => CSVWrite("%1$s", <<ToJson([tt |-> TT])>>, IOEnv.OUT))      \* the type table, for the harness

(* the stack an initializer applies to: after a designator the cursor is where the
   designation put it; otherwise finished elision frames have been left already *)
Cur == stack

Value(vc) ==
  LET v  == VCode(vc, nit + 1)             \* the k-th initializer carries the value (class vc, k)
      s0 == Cur
      s1 == IF rng > 0 THEN s0 ELSE Descend(s0)
      f  == Top(s1)
      ws == [d \in 1..(rng + 1) |-> W(IF Plain(f) THEN f.p ELSE Append(f.p, f.c + d - 1), v)]
      s2 == Norm(Mark(AdvTop(s1, rng)))
      it == Append(items, [a |-> "V", v |-> v, c |-> TT[KidTy(f)].c, p |-> ws[1].p,
                           x |-> IntValue(v), nz |-> NegZero(v), vc |-> vc])
  IN /\ ~tc /\ Budget >= 1
     /\ ~Exhausted(Top(s0))                              \* no excess initializers (p2)
     /\ (rng > 0 \/ IsRoot(Top(s0))) => ~IsAgg(KidTy(Top(s0)))
     /\ val' = PutAll(val, ws) /\ log' = log \o ws
     /\ stack' = s2 /\ items' = it
     /\ dz' = 0 /\ rng' = 0 /\ nit' = nit + 1 /\ UNCHANGED <<ty, tc, ntc>>
     /\ Finish(s2, it, val', log')

Str(l, pre) ==
  LET s0 == Cur
      f0 == Top(s0)
      \* p14: "optionally enclosed in braces": the only item of a braced list for a character array
      own == /\ f0.br /\ ~IsRoot(f0) /\ f0.n = 0 /\ dz = 0 /\ IsCharArr(f0.t)
             /\ pre \in LitPrefixes(TT[TT[f0.t].e].c)
      s1 == IF own THEN s0
            ELSE IF rng > 0 \/ IsRoot(f0)      \* no brace elision for a range, or without braces at all
            THEN (IF IsCharArr(KidTy(f0)) /\ pre \in LitPrefixes(TT[TT[KidTy(f0)].e].c) THEN s0 ELSE <<>>)
            ELSE DescendStr(s0, pre)
      f  == Top(s1)
      at == IF own THEN f.t ELSE KidTy(f)
      n  == TT[at].n
      ws == IF own THEN StrWrites(f.p, n, l, pre)
            ELSE FlattenSeq([d \in 1..(rng + 1) |-> StrWrites(IF Plain(f) THEN f.p ELSE Append(f.p, f.c + d - 1), n, l, pre)])
      s2 == IF own THEN Mark([s1 EXCEPT ![Len(s1)].c = Big + 1])     \* nothing may follow inside these braces
            ELSE Norm(Mark(AdvTop(s1, rng)))
      it == Append(items, [a |-> "S", l |-> l, pre |-> pre, p |-> ws[1].p])
  IN /\ ~tc /\ Budget >= 1
     /\ ~Exhausted(f0)
     /\ s1 # <<>>
     /\ l \in StrLens(n)
     /\ val' = PutAll(val, ws) /\ log' = log \o ws
     /\ stack' = s2 /\ items' = it
     /\ dz' = 0 /\ rng' = 0 /\ nit' = nit + 1 /\ UNCHANGED <<ty, tc, ntc>>
     /\ Finish(s2, it, val', log')

Open ==
  LET s0 == Cur
      f  == Top(s0)
      ws == [d \in 1..(rng + 1) |-> Cl(IF Plain(f) THEN f.p ELSE Append(f.p, f.c + d - 1))]
      s1 == Push(Mark(s0), TRUE, rng)
  IN /\ ~tc /\ Budget >= 2                              \* a list is not empty
     /\ ~Exhausted(f)
     /\ (IF IsRoot(f) THEN TRUE ELSE IsAgg(f.t))                        \* no {{scalar}}
     /\ val' = PutAll(val, ws) /\ log' = log \o ws
     /\ stack' = s1 /\ items' = Append(items, [a |-> "O", p |-> ws[1].p])
     /\ dz' = 0 /\ rng' = 0 /\ nit' = nit + 1 /\ UNCHANGED <<ty, tc, ntc>>

CanClose == /\ dz = 0
            /\ LET s == PopToExplicit(stack) IN ~IsRoot(Top(s)) /\ Top(s).n = 1

Close ==
  LET s0 == PopToExplicit(stack)
      f  == Top(s0)
      par == SubSeq(s0, 1, Len(s0) - 1)
      \* f.p = parent path ++ <<first index of the range>>
      ws == IF f.rep > 0 THEN Copies(val, SubSeq(f.p, 1, Len(f.p) - 1), f.p[Len(f.p)], f.rep) ELSE <<>>
      s1 == Norm(par)
      it == Append(items, [a |-> "C"])
  IN /\ CanClose
     /\ val' = PutAll(val, ws) /\ log' = log \o ws
     /\ stack' = s1 /\ items' = it
     /\ tc' = FALSE /\ UNCHANGED <<ty, dz, rng, nit, ntc>>
     /\ Finish(s1, it, val', log')

TrailingComma ==
  /\ CanClose /\ ~tc /\ ntc < MaxTC
  /\ tc' = TRUE /\ ntc' = ntc + 1 /\ items' = Append(items, [a |-> "T"])
  /\ UNCHANGED <<ty, stack, val, log, dz, rng, nit>>

(* the frame a designator applies to: the closest brace pair for the first one,
   the subobject just designated for the following ones *)
DesigBase == IF dz = 0 THEN PopToExplicit(stack) ELSE Push(stack, FALSE, 0)
DesigOK(kind) ==
  /\ ~tc /\ rng = 0 /\ dz < MaxDesig /\ Budget >= 1
  /\ IF dz = 0 THEN LET f == Top(PopToExplicit(stack)) IN ~IsRoot(f) /\ IsAgg(f.t) /\ K(f.t) \in kind
                                                          /\ ~(IsCharArr(f.t) /\ f.c > Big)   \* not after {"str"
     ELSE LET f == Top(stack) IN IsAgg(KidTy(f)) /\ K(KidTy(f)) \in kind

DesigField(m) ==
  LET s0 == DesigBase
      t  == Top(s0).t
      s1 == IF OwnIdx(t, m) # {} THEN SetCur(s0, CHOOSE i \in OwnIdx(t, m) : TRUE)
            ELSE LET a  == CHOOSE i \in AnonIdx(t, m) : TRUE          \* 6.7.2.1p13
                     s  == Push(SetCur(s0, a), FALSE, 0)
                 IN SetCur(s, CHOOSE i \in OwnIdx(TT[t].ms[a].t, m) : TRUE)
  IN /\ DesigOK({"st", "un"})
     /\ m \in FieldNames(t)
     /\ stack' = s1 /\ items' = Append(items, [a |-> "F", m |-> m])
     /\ dz' = dz + 1 /\ UNCHANGED <<ty, val, log, rng, tc, nit, ntc>>

IdxBound(t) == IF TT[t].n = 0 THEN MaxUnk ELSE TT[t].n
DesigIndex(i) ==
  LET s0 == DesigBase
      t  == Top(s0).t
  IN /\ DesigOK({"arr"})
     /\ i < IdxBound(t)
     /\ stack' = SetCur(s0, i + 1) /\ items' = Append(items, [a |-> "I", i |-> i])
     /\ dz' = dz + 1 /\ UNCHANGED <<ty, val, log, rng, tc, nit, ntc>>

DesigRange(i, j) ==
  LET s0 == DesigBase
      t  == Top(s0).t
      et == TT[t].e
  IN /\ Ranges /\ DesigOK({"arr"})
     /\ i < j /\ j < IdxBound(t)
     /\ IsAgg(et) /\ ~IsCharArr(et) => Budget >= 2            \* only a braced list can follow
     /\ stack' = SetCur(s0, i + 1) /\ items' = Append(items, [a |-> "R", i |-> i, j |-> j])
     /\ dz' = MaxDesig /\ rng' = j - i                         \* always the last designator
     /\ UNCHANGED <<ty, val, log, tc, nit, ntc>>

AllFields == UNION {FieldNames0(t) : t \in {x \in DOMAIN TT : K(x) \in {"st", "un"}}}
MaxIdx == 3
Next == \/ (\E vc \in ValClasses : Value(vc)) \/ Open \/ Close \/ TrailingComma
        \/ \E l \in 0..4, pre \in {"", "u8", "u", "U", "L"} : Str(l, pre)
        \/ \E m \in AllFields : DesigField(m)
        \/ \E i \in 0..MaxIdx : DesigIndex(i)
        \/ \E i \in 0..MaxIdx, j \in 0..MaxIdx : DesigRange(i, j)
        \/ (Done(stack) /\ UNCHANGED vars)                     \* completed: stutter (so that a stuck state is a deadlock)
Spec == Init /\ [][Next]_vars

----------------------------------------------------------------------------
(* The cursor never leaves the object: every frame designates a subobject of ty, its cursor
   is at a member/element or one past the last, and every value sits at a scalar leaf. *)
CursorInObject ==
  /\ \A i \in 1..Len(stack) :
       LET f == stack[i] IN
       /\ f.c >= 1
       /\ f.c <= LastKid(f) + 1 \/ (~Plain(f) /\ IsCharArr(f.t) /\ f.c = Big + 1)
       /\ ~IsRoot(f) => TypeAt(ty, f.p) = f.t
       /\ (~Exhausted(f) /\ ~Plain(f)) => ~Skippable(f.t, f.c)
  /\ \A k \in DOMAIN val : ValidLeaf(ty, k)
  /\ stack[1].t = "ROOT" /\ \A i \in 2..Len(stack) : ~IsRoot(stack[i])
(* only explicit frames are ever exhausted while on the stack below the top; after a designator
   the designated subobject exists *)
DesignatedExists == dz > 0 => ~Exhausted(Top(stack))

(* Every scalar holds the value of its LAST initializer in source order, and everything
   else is zero (absent).  Stated over the log, independently of Put/Clear:
   w = last write to q; nothing after w discards q (a `{`/string for an enclosing
   subobject, or the selection of another member of an enclosing union). *)
Kills(e, q) == \/ e.k = "c" /\ PathPrefix(e.p, q)
               \/ e.k = "w" /\ UnionKill(q, e.p)
LastWins ==
  LET qs == {log[i].p : i \in {j \in 1..Len(log) : log[j].k = "w"}} \cup DOMAIN val
  IN \A q \in qs :
       LET ws == {i \in 1..Len(log) : log[i].k = "w" /\ log[i].p = q}
           ks == {i \in 1..Len(log) : Kills(log[i], q)}
           lw == IF ws = {} THEN 0 ELSE Mx(ws)
           lk == IF ks = {} THEN 0 ELSE Mx(ks)
       IN IF lw > lk THEN q \in DOMAIN val /\ val[q] = log[lw].v
          ELSE q \notin DOMAIN val
(* at most one member of every union holds values *)
OneUnionMember ==
  \A k1, k2 \in DOMAIN val : ~UnionKill(k1, k2)
(* p22: when the list is complete the size of an array of unknown bound is determined: it is
   the largest initialised index + 1, at least 1, and no value lies beyond it (trivially) *)
UnkPaths == IF K(ty) = "arr" /\ TT[ty].n = 0 THEN {<<>>}
            ELSE IF K(ty) = "st" /\ K(TT[ty].ms[NKids(ty)].t) = "arr" /\ TT[TT[ty].ms[NKids(ty)].t].n = 0 THEN {<<NKids(ty)>>}
            ELSE {}
Bound(p) == LET ix == {k[Len(p) + 1] : k \in {x \in DOMAIN val : PathPrefix(p, x) /\ Len(x) > Len(p)}}
            IN IF ix = {} THEN 0 ELSE Mx(ix)
BoundDetermined ==
  Done(stack) => \A p \in UnkPaths : (p = <<>> => Bound(p) >= 1) /\ Bound(p) <= MaxItems + MaxUnk
(* the machine always terminates: every step writes one token, the text is bounded, and
   (deadlock check) every state that is not complete has a successor *)
Progress == [][Done(stack) \/ Len(items') = Len(items) + 1]_vars
Bounded  == Len(items) <= MaxItems * (MaxDesig + 2) + MaxTC
(* a completed behaviour initialised something and left only the root *)
Complete == Done(stack) => (DOMAIN val # {} /\ dz = 0 /\ rng = 0 /\ ~tc)
TypeOK == /\ dz \in 0..MaxDesig /\ rng \in 0..MaxIdx /\ nit \in 0..MaxItems /\ ntc \in 0..MaxTC
          /\ Len(stack) >= 1
=============================================================================
