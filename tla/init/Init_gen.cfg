SPECIFICATION Spec
CONSTANTS Types = {"i3","sii"}
 MaxItems = 4
 MaxDesig = 2
 MaxUnk = 3
 MaxTC = 1
 Ranges = TRUE
 ValClasses = {"k"}
 Emit = TRUE
 Broken = FALSE
INVARIANTS TypeOK CursorInObject DesignatedExists LastWins OneUnionMember BoundDetermined Bounded Complete
PROPERTY Progress
