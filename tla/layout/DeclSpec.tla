------------------------------ MODULE DeclSpec ------------------------------
(* C08: type specifiers.  Level A = the multiset table of C11 6.7.2p2 (each
   valid multiset of keywords, in any order, names one type); Level I =
   chibicc's declspec(): one additive/or-ed integer counter updated per keyword
   and looked up in a switch after every keyword ("invalid type" otherwise).
   One action per keyword consumed.  TLC visits every keyword sequence up to
   MaxLen; for every sequence whose multiset is valid the type chosen by the
   counter must be the table's, and no prefix may have been rejected.        *)
EXTENDS Integers, Sequences, FiniteSets, TLC, Json, CSV, IOUtils, SequencesExt, Bags

CONSTANTS MaxLen, Emit, Broken   \* Broken: a wrong switch arm (sensitivity control)

KW == <<"void", "_Bool", "char", "short", "int", "long", "float", "double", "signed", "unsigned">>
Keywords == {KW[i] : i \in DOMAIN KW}

(* ---- Level A: 6.7.2p2.  type = [k: kind, sz: size, sg: signed] on x86-64 psABI *)
T(k, sz, sg) == [k |-> k, sz |-> sz, sg |-> sg]
B(s) == SetToBag(s)
LL == (B({"long"}) (+) B({"long"}))
Table ==
  << <<B({"void"}), T("void", 1, FALSE)>>,
     <<B({"_Bool"}), T("bool", 1, FALSE)>>,
     <<B({"char"}), T("int", 1, TRUE)>>,
     <<B({"signed", "char"}), T("int", 1, TRUE)>>,
     <<B({"unsigned", "char"}), T("int", 1, FALSE)>>,
     <<B({"short"}), T("int", 2, TRUE)>>, <<B({"signed", "short"}), T("int", 2, TRUE)>>,
     <<B({"short", "int"}), T("int", 2, TRUE)>>, <<B({"signed", "short", "int"}), T("int", 2, TRUE)>>,
     <<B({"unsigned", "short"}), T("int", 2, FALSE)>>, <<B({"unsigned", "short", "int"}), T("int", 2, FALSE)>>,
     <<B({"int"}), T("int", 4, TRUE)>>, <<B({"signed"}), T("int", 4, TRUE)>>, <<B({"signed", "int"}), T("int", 4, TRUE)>>,
     <<B({"unsigned"}), T("int", 4, FALSE)>>, <<B({"unsigned", "int"}), T("int", 4, FALSE)>>,
     <<B({"long"}), T("int", 8, TRUE)>>, <<B({"signed", "long"}), T("int", 8, TRUE)>>,
     <<B({"long", "int"}), T("int", 8, TRUE)>>, <<B({"signed", "long", "int"}), T("int", 8, TRUE)>>,
     <<B({"unsigned", "long"}), T("int", 8, FALSE)>>, <<B({"unsigned", "long", "int"}), T("int", 8, FALSE)>>,
     <<LL, T("int", 8, TRUE)>>, <<LL (+) B({"signed"}), T("int", 8, TRUE)>>,
     <<LL (+) B({"int"}), T("int", 8, TRUE)>>, <<LL (+) B({"signed", "int"}), T("int", 8, TRUE)>>,
     <<LL (+) B({"unsigned"}), T("int", 8, FALSE)>>, <<LL (+) B({"unsigned", "int"}), T("int", 8, FALSE)>>,
     <<B({"float"}), T("float", 4, TRUE)>>,
     <<B({"double"}), T("float", 8, TRUE)>>,
     <<B({"long", "double"}), T("float", 16, TRUE)>> >>
BagOfSeq(s) == FoldLeft(LAMBDA b, x : b (+) SetToBag({x}), EmptyBag, s)
Row(b) == {i \in DOMAIN Table : Table[i][1] = b}
ValidA(s) == Row(BagOfSeq(s)) # {}
TypeA(s) == Table[CHOOSE i \in Row(BagOfSeq(s)) : TRUE][2]

(* ---- Level I: declspec()'s counter *)
VOID == 1  BOOL == 4  CHAR == 16  SHORT == 64  INT == 256  LONG == 1024
FLOAT == 4096  DOUBLE == 16384  SIGNED == 131072  UNSIGNED == 262144
Inc(c, k) ==
  CASE k = "void" -> c + VOID [] k = "_Bool" -> c + BOOL [] k = "char" -> c + CHAR
    [] k = "short" -> c + SHORT [] k = "int" -> c + INT [] k = "long" -> c + LONG
    [] k = "float" -> c + FLOAT [] k = "double" -> c + DOUBLE
    [] k = "signed" -> IF (c \div SIGNED) % 2 = 1 THEN c ELSE c + SIGNED          \* counter |= SIGNED
    [] k = "unsigned" -> IF (c \div UNSIGNED) % 2 = 1 THEN c ELSE c + UNSIGNED    \* counter |= UNSIGNED
ERR == T("error", 0, FALSE)
Switch(c) ==
  CASE c = VOID -> T("void", 1, FALSE)
    [] c = BOOL -> T("bool", 1, FALSE)
    [] c \in {CHAR, SIGNED + CHAR} -> T("int", 1, TRUE)
    [] c = UNSIGNED + CHAR -> T("int", 1, FALSE)
    [] c \in {SHORT, SHORT + INT, SIGNED + SHORT, SIGNED + SHORT + INT} -> T("int", 2, TRUE)
    [] c \in {UNSIGNED + SHORT, UNSIGNED + SHORT + INT} -> T("int", 2, FALSE)
    [] c \in {INT, SIGNED, SIGNED + INT} -> T("int", 4, TRUE)
    [] c \in {UNSIGNED, UNSIGNED + INT} -> T("int", 4, FALSE)
    [] c \in {LONG, LONG + INT, LONG + LONG, LONG + LONG + INT, SIGNED + LONG, SIGNED + LONG + INT,
              SIGNED + LONG + LONG, SIGNED + LONG + LONG + INT} -> T("int", 8, TRUE)
    [] c \in {UNSIGNED + LONG, UNSIGNED + LONG + INT, UNSIGNED + LONG + LONG} -> T("int", 8, FALSE)
    [] c = UNSIGNED + LONG + LONG + INT -> IF Broken THEN T("int", 8, TRUE) ELSE T("int", 8, FALSE)
    [] c = FLOAT -> T("float", 4, TRUE)
    [] c = DOUBLE -> T("float", 8, TRUE)
    [] c = LONG + DOUBLE -> T("float", 16, TRUE)
    [] OTHER -> ERR

(* ---- <stddef.h>: the psABI types behind the standard typedef names *)
StdTypes == << [name |-> "size_t", sz |-> 8, al |-> 8, sg |-> FALSE, arith |-> TRUE],
               [name |-> "ptrdiff_t", sz |-> 8, al |-> 8, sg |-> TRUE, arith |-> TRUE],
               [name |-> "wchar_t", sz |-> 4, al |-> 4, sg |-> TRUE, arith |-> TRUE],
               [name |-> "max_align_t", sz |-> 32, al |-> 16, sg |-> FALSE, arith |-> FALSE] >>

VARIABLES seq, counter, ty
vars == <<seq, counter, ty>>
Init == /\ seq = <<>> /\ counter = 0 /\ ty = T("int", 4, TRUE)      \* Type *ty = ty_int
        /\ (Emit => \A i \in DOMAIN StdTypes : CSVWrite("%1$s", <<ToJson([std |-> StdTypes[i]])>>, IOEnv.OUT))
Key(k) == /\ Len(seq) < MaxLen
          /\ seq' = Append(seq, k)
          /\ counter' = Inc(counter, k)
          /\ ty' = IF ty = ERR THEN ERR ELSE Switch(counter')    \* error_tok() exits: rejection is final
          /\ (Emit /\ ValidA(seq') =>
                CSVWrite("%1$s", <<ToJson([kw |-> seq', sz |-> TypeA(seq').sz, sg |-> TypeA(seq').sg,
                                           k |-> TypeA(seq').k])>>, IOEnv.OUT))
Next == \E k \in Keywords : Key(k)
Spec == Init /\ [][Next]_vars

(* every valid specifier sequence, in every order, gets its type *)
Agrees == ValidA(seq) => ty = TypeA(seq)
(* sanity of the table: a multiset names at most one type *)
TableFunctional == \A i, j \in DOMAIN Table : Table[i][1] = Table[j][1] => Table[i][2] = Table[j][2]
=============================================================================
