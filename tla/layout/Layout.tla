------------------------------- MODULE Layout -------------------------------
(* C08 (and the layout oracle of C04/C05).  struct/union layout.

   Level A — System V x86-64 psABI (as implemented by gcc):
     * a non-bit-field member goes to the next multiple of its alignment
       (1 in a packed aggregate), the aggregate's alignment is the maximum
       member alignment (1 if packed) raised by aligned(n), the size is
       rounded up to the alignment;
     * a bit-field of declared type T and width w is placed at the next bit
       such that it does not cross a sizeof(T)-aligned storage unit (no such
       constraint when packed); width 0 closes the current unit of T;
       unnamed bit-fields do not contribute to the alignment;
     * union: every member at 0, size = largest member (a bit-field counts
       ceil(w/8) bytes), rounded up to the alignment.
   Level I — chibicc's struct_decl/union_decl loops (parse.c): running `bits`,
     align_to / align_down, the straddle test, the packed skip, the alignment
     update, union max/round.  `Pinned = TRUE` is the algorithm of the pinned
     tree (unnamed bit-fields raise the alignment; packed bit-fields still
     obey the straddle test; packed unions keep member alignment) and must be
     REJECTED by TLC (sensitivity control / record of the defects).

   One action per loop iteration: Add(m) appends a member to the aggregate
   being declared (both levels step), so every reachable state is one complete
   aggregate type: all member sequences up to MaxLen over the alphabet x all
   attribute sets.  With Emit every state is written out as a test case.     *)
EXTENDS Integers, Sequences, FiniteSets, TLC, Json, CSV, IOUtils, SequencesExt

CONSTANTS MaxLen,      \* members per aggregate
          Small,       \* TRUE: reduced alphabet (for longer sequences)
          Pinned,      \* TRUE: Level I of the pinned tree (must be rejected)
          Emit

AlignTo(n, a) == ((n + a - 1) \div a) * a
AlignDown(n, a) == (n \div a) * a
Mx(a, b) == IF a > b THEN a ELSE b
CeilDiv(a, b) == (a + b - 1) \div b

----------------------------------------------------------------------------
(* Member alphabet.  k = "obj" | "bf"; w = bit width (bf only); nm = named;
   ua = the member carries its own _Alignas (honoured even when packed).    *)
Obj(id, sz, al) == [id |-> id, k |-> "obj", sz |-> sz, al |-> al, w |-> -1, nm |-> TRUE, ua |-> FALSE,
                   lal |-> al, flex |-> FALSE]
Bf(t, sz, w, nm) == [id |-> (IF nm THEN "bf_" ELSE "ubf_") \o t \o "_" \o ToString(w),
                     k |-> "bf", sz |-> sz, al |-> sz, w |-> w, nm |-> nm, ua |-> FALSE, lal |-> sz, flex |-> FALSE]

(* ---- depth 2: nested aggregates are laid out by this very specification ---- *)
StepA(c, m, packed, union) ==
  IF m.k = "obj"
  THEN LET a   == IF packed /\ ~m.ua THEN 1 ELSE m.al
           b1  == IF union THEN 0 ELSE AlignTo(c.bits, a * 8)
       IN [bits |-> IF union THEN Mx(c.bits, m.sz * 8) ELSE b1 + m.sz * 8,
           al   |-> Mx(c.al, a),
           pl   |-> Append(c.pl, [pos |-> b1, w |-> m.sz * 8])]
  ELSE IF m.w = 0
  THEN [bits |-> IF union \/ packed THEN c.bits ELSE AlignTo(c.bits, m.sz * 8),
        al   |-> c.al,
        pl   |-> Append(c.pl, [pos |-> -1, w |-> 0])]
  ELSE LET u  == m.sz * 8
           b1 == IF union THEN 0
                 ELSE IF ~packed /\ (c.bits % u) + m.w > u THEN AlignTo(c.bits, u) ELSE c.bits
       IN [bits |-> IF union THEN Mx(c.bits, CeilDiv(m.w, 8) * 8) ELSE b1 + m.w,
           al   |-> IF m.nm /\ ~packed THEN Mx(c.al, m.al) ELSE c.al,
           pl   |-> Append(c.pl, [pos |-> b1, w |-> m.w])]

Start(aln) == [bits |-> 0, al |-> IF aln > 0 THEN aln ELSE 1, pl |-> <<>>]
SizeOf(c) == AlignTo(c.bits, c.al * 8) \div 8
LayoutA(ms, packed, union, aln) ==
  FoldLeft(LAMBDA c, m : StepA(c, m, packed, union), Start(aln), ms)

MChar == Obj("char", 1, 1)    MShort == Obj("short", 2, 2)   MInt == Obj("int", 4, 4)
MLong == Obj("long", 8, 8)    MChar3 == Obj("char3", 3, 1)
Nest(id, ms, packed, union, aln) ==
  LET c == LayoutA(ms, packed, union, aln) IN Obj(id, SizeOf(c), c.al)

AlignAsType(id, t) == [MChar EXCEPT !.id = id, !.al = t.al, !.lal = t.al, !.ua = TRUE]
Flex(id, elem) == [Obj(id, 0, elem.al) EXCEPT !.flex = TRUE]
Objs == { MChar, MShort, MInt, MLong, Obj("float", 4, 4), Obj("double", 8, 8), Obj("ldouble", 16, 16),
          Obj("ptr", 8, 8), MChar3, Obj("int2", 8, 4),
          Nest("s_ci", <<MChar, MInt>>, FALSE, FALSE, 0),          \* struct {char a; int b;}
          Nest("s_c3", <<MChar3>>, FALSE, FALSE, 0),              \* struct {char a[3];}
          Nest("u_lc", <<MLong, MChar>>, FALSE, TRUE, 0),          \* union {long a; char b;}
          Nest("sp_ci", <<MChar, MInt>>, TRUE, FALSE, 0),          \* packed struct {char a; int b;}
          Nest("s16_i", <<MInt>>, FALSE, FALSE, 16),              \* aligned(16) struct {int a;}
          Nest("anon_cs", <<MChar, MShort>>, FALSE, FALSE, 0),     \* anonymous struct {char x; short y;}
          [MChar EXCEPT !.id = "al8_char", !.al = 8, !.lal = 8, !.ua = TRUE], \* _Alignas(8) char
          \* _Alignas(type-name): the ALIGNMENT of the type (8 resp. 4), not its size (16 resp. 8)
          AlignAsType("alS_char", Nest("", <<MLong, MLong>>, FALSE, FALSE, 0)),       \* _Alignas(struct {long a, b;}) char
          AlignAsType("alI2_char", Obj("", 8, 4)),                                     \* _Alignas(int[2]) char
          \* several _Alignas: the strictest wins (C11 6.7.5p6); the pinned tree took the last
          [MChar EXCEPT !.id = "al28_char", !.al = 8, !.lal = 8, !.ua = TRUE],          \* _Alignas(2) _Alignas(8) char
          [MChar EXCEPT !.id = "al82_char", !.al = 8, !.lal = 2, !.ua = TRUE],          \* _Alignas(8) _Alignas(2) char
          \* flexible array members: size 0, alignment of the element type; last member only
          Flex("flex_char", MChar), Flex("flex_int", MInt), Flex("flex_long", MLong),
          Flex("flex_sci", Nest("", <<MChar, MInt>>, FALSE, FALSE, 0))
        }
BfTypes == << <<"char", 1>>, <<"short", 2>>, <<"int", 4>>, <<"uint", 4>>, <<"long", 8>> >>
Widths == {1, 3, 7, 8, 9, 15, 17, 31, 32, 33, 63}
Bfs == UNION { { Bf(BfTypes[i][1], BfTypes[i][2], w, TRUE) : w \in {x \in Widths : x <= BfTypes[i][2] * 8} }
               : i \in DOMAIN BfTypes }
       \cup { Bf("int", 4, 3, FALSE), Bf("short", 2, 9, FALSE), Bf("long", 8, 33, FALSE),
              Bf("char", 1, 0, FALSE), Bf("int", 4, 0, FALSE), Bf("long", 8, 0, FALSE) }
SmallIds == {"char", "int", "long", "char3", "ldouble", "s_ci", "al8_char", "alS_char", "flex_int", "flex_long",
             "bf_char_3", "bf_short_9", "bf_int_1", "bf_int_17", "bf_int_31", "bf_uint_32", "bf_long_33",
             "bf_long_63", "ubf_int_3", "ubf_int_0", "ubf_long_0"}
Alphabet == IF Small THEN {m \in Objs \cup Bfs : m.id \in SmallIds} ELSE Objs \cup Bfs

Attrs == { [packed |-> p, aln |-> a] : p \in BOOLEAN, a \in {0, 2, 16} }

----------------------------------------------------------------------------
(* Level I: one iteration of the loops in struct_decl / union_decl.  `mal` is
   mem->align (attr.align if given, else the type's).                       *)
StepI(c, m0, packed, union) ==
  LET m == IF Pinned THEN [m0 EXCEPT !.al = m0.lal] ELSE m0       \* pinned: the last _Alignas wins
      raise == IF Pinned THEN (~packed \/ union) /\ c.al < m.al
               ELSE ~packed /\ c.al < m.al /\ (m.k = "obj" \/ m.nm)       \* repaired: unnamed bit-fields / packed unions
      al2   == IF raise THEN m.al ELSE c.al
  IN
  IF union
  THEN [bits |-> (IF Pinned \/ m.k = "obj" THEN Mx(c.bits, m.sz * 8)
                  ELSE Mx(c.bits, CeilDiv(m.w, 8) * 8)),
        al |-> al2,
        pl |-> Append(c.pl, IF m.k = "bf" /\ m.w = 0 THEN [pos |-> -1, w |-> 0]
                            ELSE [pos |-> 0, w |-> IF m.k = "bf" THEN m.w ELSE m.sz * 8])]
  ELSE IF m.k = "bf" /\ m.w = 0
  THEN [bits |-> AlignTo(c.bits, m.sz * 8), al |-> al2,
        pl |-> Append(c.pl, [pos |-> -1, w |-> 0])]
  ELSE IF m.k = "bf"
  THEN LET sz   == m.sz
           b1   == IF c.bits \div (sz * 8) # (c.bits + m.w - 1) \div (sz * 8)      \* also when packed: D24
                   THEN AlignTo(c.bits, sz * 8) ELSE c.bits
           off  == AlignDown(b1 \div 8, sz)        \* mem->offset
           boff == b1 - off * 8                    \* mem->bit_offset (repaired: relative to mem->offset)
       IN [bits |-> b1 + m.w, al |-> al2,
           pl |-> Append(c.pl, [pos |-> off * 8 + boff, w |-> m.w])]
  ELSE LET b1 == IF ~packed THEN AlignTo(c.bits, m.al * 8)
                 ELSE IF Pinned THEN c.bits             \* pinned: mem->offset = bits / 8 overlaps a preceding bit-field
                 ELSE AlignTo(c.bits, 8)
       IN [bits |-> b1 + m.sz * 8, al |-> al2,
           pl |-> Append(c.pl, [pos |-> b1, w |-> m.sz * 8])]

----------------------------------------------------------------------------
VARIABLES union, attr, ms, curA, curI
vars == <<union, attr, ms, curA, curI>>

Init == /\ union \in BOOLEAN
        /\ attr \in Attrs
        /\ ms = <<>>
        /\ curA = Start(attr.aln) /\ curI = Start(attr.aln)

(* cases outside the compared domain (documented in DESIGN.md C08):
   zero-width bit-fields in packed aggregates and in unions; a member with its
   own _Alignas inside a packed aggregate                                    *)
InDomain(m) == /\ ~(m.k = "bf" /\ m.w = 0 /\ (attr.packed \/ union))
               /\ ~(m.ua /\ attr.packed)
               /\ (m.flex => ~union /\ \E i \in DOMAIN ms : ms[i].nm)   \* a flexible array member needs a named member before it
               /\ (ms # <<>> => ~ms[Len(ms)].flex)                 \* ... and is the last member

Case(ms2, a2) == [union |-> union, packed |-> attr.packed, aln |-> attr.aln,
                  ms |-> [i \in DOMAIN ms2 |-> ms2[i].id],
                  size |-> SizeOf(a2), align |-> a2.al,
                  pl |-> a2.pl]

Add(m) == /\ Len(ms) < (IF union THEN Mx(2, MaxLen - 1) ELSE MaxLen)
          /\ InDomain(m)
          /\ ms' = Append(ms, m)
          /\ curA' = StepA(curA, m, attr.packed, union)
          /\ curI' = StepI(curI, m, attr.packed, union)
          /\ UNCHANGED <<union, attr>>
          /\ (Emit => CSVWrite("%1$s", <<ToJson(Case(ms', curA'))>>, IOEnv.OUT))

Next == \E m \in Alphabet : Add(m)
Spec == Init /\ [][Next]_vars

----------------------------------------------------------------------------
(* Known deviation D24 (recorded finding, not repaired): in a packed struct gcc
   lets a bit-field cross the storage units of its declared type; chibicc keeps
   the straddle test because its bit-field access loads exactly one unit.  From
   the first such member on, the two layouts legitimately differ.            *)
CrossesUnit == /\ attr.packed /\ ~union
               /\ \E i \in DOMAIN ms : /\ ms[i].k = "bf" /\ ms[i].w > 0
                                        /\ (curA.pl[i].pos % (ms[i].sz * 8)) + ms[i].w > ms[i].sz * 8
(* Level I = Level A: size, alignment, and the bits every member occupies *)
SameSize  == ~CrossesUnit => SizeOf(curA) = SizeOf(curI)
SameAlign == curA.al = curI.al
SamePlace == ~CrossesUnit => curA.pl = curI.pl
(* sanity of Level A itself *)
AWellFormed ==
  /\ SizeOf(curA) % curA.al = 0
  /\ \A i \in DOMAIN curA.pl : curA.pl[i].pos >= 0 => curA.pl[i].pos + curA.pl[i].w <= SizeOf(curA) * 8
  /\ ~union => \A i, j \in DOMAIN curA.pl :
        (i < j /\ curA.pl[i].pos >= 0 /\ curA.pl[j].pos >= 0) => curA.pl[i].pos + curA.pl[i].w <= curA.pl[j].pos
  /\ \A i \in DOMAIN ms : (ms[i].k = "obj" /\ (~attr.packed \/ ms[i].ua)) => curA.pl[i].pos % (ms[i].al * 8) = 0
  /\ \A i \in DOMAIN ms : (ms[i].k = "bf" /\ ms[i].w > 0 /\ ~attr.packed /\ ~union) =>
        curA.pl[i].pos \div (ms[i].sz * 8) = (curA.pl[i].pos + ms[i].w - 1) \div (ms[i].sz * 8)
=============================================================================
