SPECIFICATION Spec
CONSTANTS MaxLen = 2
 Small = FALSE
 Pinned = FALSE
 Emit = FALSE
INVARIANTS SameSize SameAlign SamePlace AWellFormed
CHECK_DEADLOCK FALSE
