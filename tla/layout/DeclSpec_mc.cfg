SPECIFICATION Spec
CONSTANTS MaxLen = 4
 Emit = FALSE
 Broken = FALSE
INVARIANTS Agrees TableFunctional
CHECK_DEADLOCK FALSE
