SPECIFICATION Spec
CONSTANTS MaxLen = 4
 MaxG = 2
 Emit = FALSE
 Broken = FALSE
 ParamFirst = TRUE
INVARIANT ParsesBack
CHECK_DEADLOCK FALSE
