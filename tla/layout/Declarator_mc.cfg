SPECIFICATION Spec
CONSTANTS MaxLen = 5
 Emit = FALSE
 Broken = FALSE
INVARIANT ParsesBack
CHECK_DEADLOCK FALSE
