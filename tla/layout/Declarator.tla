----------------------------- MODULE Declarator -----------------------------
(* C08: declarators.

   Level A.  A declarator is a piece of SYNTAX, and several syntaxes denote
   the same type.  The state `s` is the parse tree of a declarator of the
   grammar (C11 6.7.6, 6.7.7)
        declarator = "*" declarator | direct
        direct     = x | "(" declarator ")" | direct "[n]" | direct "(void)"
   written as the sequence of productions applied from the identifier
   outwards: "P" (a pointer prefix), "A2"/"A3"/"F" (an array / function
   suffix) and "G" (a pair of grouping parentheses).  A suffix can only be
   applied to a `direct`, i.e. not immediately after "P" (WellFormed): the
   parentheses precedence requires are explicit "G" steps, and every other
   "G" - around the identifier, around a suffix, doubled - is redundant but
   valid.  6.7.6.1-3 give the meaning: each production adds one derivation
   next to the base type, parentheses add nothing, so the type is
   Type(s) = s without "G" ("x is a pointer to an array of 3 pointers to
   functions returning int" = <<P, A3, P, F>>).  The abstract declarator of
   the same tree is the rendering without the identifier; it exists unless
   the innermost production is "G" ("()" is a parameter list, not a group).
   An abstract declarator whose innermost production is "F" begins with a
   parameter list: "(void)", "* (void)", "( * (void) )[3]".

   Level I is chibicc's parser (parse.c: pointers / declarator /
   abstract_declarator / type_suffix / func_params / array_dimensions) on the
   token sequence: pointers are applied first; at "(" the inner declarator is
   skipped with a dummy type, ")" is required, the suffix is applied, then the
   inner declarator is re-parsed on the result.  With ParamFirst, a "(" that
   is followed by a type name or ")" is left to type_suffix where no
   identifier can be declared (type names, parameters).  A syntax error is a
   position >= ErrPos.

   One action per production added; invariant ParsesBack: parsing the
   rendering gives back Type(s), for a declaration, a parameter and a type
   name.                                                                     *)
EXTENDS Integers, Sequences, TLC, Json, CSV, IOUtils, SequencesExt

CONSTANTS MaxLen,       \* derivations (productions other than "G")
          MaxG,         \* pairs of parentheses
          Emit,
          Broken,       \* suffix applied after the inner declarator (sensitivity control)
          ParamFirst    \* FALSE: "(" always opens a parenthesised declarator (the tree before fix-1; second control)

Ops == {"P", "A2", "A3", "F"}
IsArr(o) == o \in {"A2", "A3"}
IsSfx(o) == o \in {"A2", "A3", "F"}
Toks(o) == CASE o = "A2" -> <<"[2]">> [] o = "A3" -> <<"[3]">> [] o = "F" -> <<"(", "void", ")">>

(* ---- Level A *)
Type(s) == SelectSeq(s, LAMBDA o : o # "G")
NumG(s) == Len(s) - Len(Type(s))
(* the grammar: a suffix applies to a direct-declarator only *)
WellFormed(s) == \A i \in 1..(Len(s) - 1) : ~(s[i] = "P" /\ IsSfx(s[i + 1]))
(* C constraints on the type: no array of functions, no function returning array/function *)
Valid(d) == \A i \in 1..(Len(d) - 1) :
              /\ ~(IsArr(d[i]) /\ d[i + 1] = "F")
              /\ ~(d[i] = "F" /\ (IsArr(d[i + 1]) \/ d[i + 1] = "F"))
HasAbstract(s) == s = <<>> \/ s[1] # "G"

Render(s, named) ==
  FoldLeft(LAMBDA acc, o : IF o = "P" THEN <<"*">> \o acc
                           ELSE IF o = "G" THEN <<"(">> \o acc \o <<")">>
                           ELSE acc \o Toks(o),
           IF named THEN <<"x">> ELSE <<>>, s)

RECURSIVE SizeA(_)
SizeA(d) == IF d = <<>> THEN 4                       \* base type int
            ELSE IF d[1] = "P" THEN 8
            ELSE IF d[1] = "A2" THEN 2 * SizeA(Tail(d))
            ELSE IF d[1] = "A3" THEN 3 * SizeA(Tail(d))
            ELSE -1                                   \* function: no size
RECURSIVE AlignA(_)
AlignA(d) == IF d = <<>> THEN 4
             ELSE IF d[1] = "P" THEN 8
             ELSE IF IsArr(d[1]) THEN AlignA(Tail(d))
             ELSE -1
(* sizes of x, then of what each derivation leads to (dereference for a pointer or array, call for a function), down to int;
   -1 where the expression is a function designator *)
RECURSIVE Sizes(_)
Sizes(d) == <<SizeA(d)>> \o (IF d = <<>> THEN <<>> ELSE Sizes(Tail(d)))
(* struct { char c; T x; char e; }: offsets of x and e, size (psABI) *)
Up(n, a) == ((n + a - 1) \div a) * a
Member(d) == IF d # <<>> /\ d[1] = "F" THEN <<>>
             ELSE LET a == AlignA(d) IN <<Up(1, a), Up(1, a) + SizeA(d), Up(Up(1, a) + SizeA(d) + 1, a)>>

(* ---- Level I: the recursive-descent parser; types are derivation sequences, outermost first *)
ErrPos == 1000
At(t, p) == IF p >= 1 /\ p <= Len(t) THEN t[p] ELSE "<eof>"
Skip(t, p, k) == IF At(t, p) = k THEN p + 1 ELSE ErrPos                   \* skip(tok, k)
RECURSIVE Suffix(_, _, _)
Suffix(t, p, ty) ==
  IF At(t, p) = "("                                                        \* func_params: "void" ")" (returns at once)
  THEN IF At(t, p + 1) = "void" /\ At(t, p + 2) = ")" THEN <<<<"F">> \o ty, p + 3>>
       ELSE <<ty, ErrPos>>                                                 \* declspec: "typename expected"
  ELSE IF At(t, p) \in {"[2]", "[3]"}                                       \* array_dimensions
       THEN LET r == Suffix(t, p + 1, ty) IN <<<<IF At(t, p) = "[2]" THEN "A2" ELSE "A3">> \o r[1], r[2]>>
  ELSE <<ty, p>>
RECURSIVE Ptrs(_, _, _)
Ptrs(t, p, ty) == IF At(t, p) = "*" THEN Ptrs(t, p + 1, <<"P">> \o ty) ELSE <<ty, p>>
(* is_typename(tok->next) || equal(tok->next, ")"): a parameter list follows *)
ParamsAhead(t, p) == At(t, p + 1) \in {"void", ")"}
(* mode: "decl" = declarator() for a declaration, "param" = declarator() for a parameter,
         "type" = abstract_declarator() *)
RECURSIVE Decl(_, _, _, _)
Decl(t, p0, ty0, mode) ==
  LET pr == Ptrs(t, p0, ty0)
      ty == pr[1]
      p  == pr[2]
  IN IF At(t, p) = "(" /\ ~(ParamFirst /\ mode # "decl" /\ ParamsAhead(t, p))
     THEN LET skipped == Decl(t, p + 1, <<"dummy">>, mode)   \* declarator(&tok, start->next, &dummy)
              p2      == Skip(t, skipped[2], ")")
              sfx     == Suffix(t, p2, ty)
              inner   == Decl(t, p + 1, IF Broken THEN ty ELSE sfx[1], mode)
          IN <<IF Broken THEN Suffix(t, p2, inner[1])[1] ELSE inner[1], sfx[2]>>
     ELSE Suffix(t, IF At(t, p) = "x" /\ mode # "type" THEN p + 1 ELSE p, ty)

VARIABLES s
Init == s = <<>>
Apply(o) == /\ IF o = "G" THEN NumG(s) < MaxG ELSE Len(Type(s)) < MaxLen
            /\ WellFormed(Append(s, o))
            /\ Valid(Type(Append(s, o)))
            /\ s' = Append(s, o)
            /\ (Emit => CSVWrite("%1$s", <<ToJson([s |-> s', d |-> Type(s'), g |-> NumG(s'), named |-> Render(s', TRUE),
                                                     abstract |-> IF HasAbstract(s') THEN Render(s', FALSE) ELSE <<"-">>,
                                                     sizes |-> Sizes(Type(s')), member |-> Member(Type(s'))])>>, IOEnv.OUT))
Next == \E o \in Ops \cup {"G"} : Apply(o)
Spec == Init /\ [][Next]_s

Parses(t, mode) == Decl(t, 1, <<>>, mode) = <<Type(s), Len(t) + 1>>
ParsesBack == /\ Parses(Render(s, TRUE), "decl")
              /\ Parses(Render(s, TRUE), "param")
              /\ HasAbstract(s) => Parses(Render(s, FALSE), "type") /\ Parses(Render(s, FALSE), "param")
=============================================================================
