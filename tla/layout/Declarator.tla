----------------------------- MODULE Declarator -----------------------------
(* C08: declarators.  A declarator is, semantically, the sequence `d` of type
   derivations read from the identifier outwards ("x is a pointer to an array
   of 3 pointers to functions returning int" = <<P, A3, P, F>>); that sequence
   IS the type (Level A).  Render(d) prints it in C's inside-out syntax with
   the parentheses precedence requires.  Level I is chibicc's parser
   (parse.c: pointers / declarator / type_suffix / array_dimensions): pointers
   are applied first, a parenthesised inner declarator is skipped with a dummy
   type, the suffix is applied, then the inner declarator is re-parsed on the
   result.  One action per derivation added; invariant: parsing the rendering
   gives back the type, for named and abstract declarators.                  *)
EXTENDS Integers, Sequences, TLC, Json, CSV, IOUtils, SequencesExt

CONSTANTS MaxLen, Emit, Broken   \* Broken: suffix applied after the inner declarator (sensitivity control)

Ops == {"P", "A2", "A3", "F"}
IsArr(o) == o \in {"A2", "A3"}
Tok(o) == CASE o = "A2" -> "[2]" [] o = "A3" -> "[3]" [] o = "F" -> "(void)"

(* C constraints: no array of functions, no function returning array/function *)
Valid(d) == \A i \in 1..(Len(d) - 1) :
              /\ ~(IsArr(d[i]) /\ d[i + 1] = "F")
              /\ ~(d[i] = "F" /\ (IsArr(d[i + 1]) \/ d[i + 1] = "F"))

(* ---- Level A: rendering and sizes *)
Render(d, named) ==
  FoldLeft(LAMBDA acc, o :
             IF o = "P" THEN <<<<"*">> \o acc[1], TRUE>>
             ELSE <<(IF acc[2] THEN <<"(">> \o acc[1] \o <<")">> ELSE acc[1]) \o <<Tok(o)>>, FALSE>>,
           <<IF named THEN <<"x">> ELSE <<>>, FALSE>>, d)[1]
RECURSIVE SizeA(_)
SizeA(d) == IF d = <<>> THEN 4                       \* base type int
            ELSE IF d[1] = "P" THEN 8
            ELSE IF d[1] = "A2" THEN 2 * SizeA(Tail(d))
            ELSE IF d[1] = "A3" THEN 3 * SizeA(Tail(d))
            ELSE -1                                   \* function: no size
(* sizes of x, *x, **x, ... as far as dereferencing is allowed and yields an object *)
RECURSIVE Sizes(_)
Sizes(d) == IF d # <<>> /\ d[1] = "F" THEN <<>>
            ELSE <<SizeA(d)>> \o (IF d # <<>> /\ (d[1] = "P" \/ IsArr(d[1])) THEN Sizes(Tail(d)) ELSE <<>>)

(* ---- Level I: the recursive-descent parser; types are derivation sequences, outermost first *)
At(t, p) == IF p <= Len(t) THEN t[p] ELSE "<eof>"
RECURSIVE Suffix(_, _, _)
Suffix(t, p, ty) ==
  IF At(t, p) = "(void)" THEN <<<<"F">> \o ty, p + 1>>                    \* func_params
  ELSE IF At(t, p) \in {"[2]", "[3]"}                                       \* array_dimensions
       THEN LET r == Suffix(t, p + 1, ty) IN <<<<IF At(t, p) = "[2]" THEN "A2" ELSE "A3">> \o r[1], r[2]>>
  ELSE <<ty, p>>
RECURSIVE Ptrs(_, _, _)
Ptrs(t, p, ty) == IF At(t, p) = "*" THEN Ptrs(t, p + 1, <<"P">> \o ty) ELSE <<ty, p>>
RECURSIVE Decl(_, _, _)
Decl(t, p0, ty0) ==
  LET pr == Ptrs(t, p0, ty0)
      ty == pr[1]
      p  == pr[2]
  IN IF At(t, p) = "("
     THEN LET skipped == Decl(t, p + 1, <<"dummy">>)       \* declarator(&tok, start->next, &dummy)
              p2      == skipped[2] + 1                     \* skip(tok, ")")
              sfx     == Suffix(t, p2, ty)
              inner   == Decl(t, p + 1, IF Broken THEN ty ELSE sfx[1])
          IN <<IF Broken THEN Suffix(t, p2, inner[1])[1] ELSE inner[1], sfx[2]>>
     ELSE Suffix(t, IF At(t, p) = "x" THEN p + 1 ELSE p, ty)

VARIABLES d
Init == d = <<>>
Derive(o) == /\ Len(d) < MaxLen
             /\ Valid(Append(d, o))
             /\ d' = Append(d, o)
             /\ (Emit => CSVWrite("%1$s", <<ToJson([d |-> d', named |-> Render(d', TRUE), abstract |-> Render(d', FALSE),
                                                     sizes |-> Sizes(d')])>>, IOEnv.OUT))
Next == \E o \in Ops : Derive(o)
Spec == Init /\ [][Next]_d

ParsesBack == /\ Decl(Render(d, TRUE), 1, <<>>) = <<d, Len(Render(d, TRUE)) + 1>>
              /\ Decl(Render(d, FALSE), 1, <<>>) = <<d, Len(Render(d, FALSE)) + 1>>
=============================================================================
