------------------------------- MODULE Driver -------------------------------
(* C14.  Process / file-system model of the chibicc driver (main.c).

   One directory, ND drivers started in it.  A command is a shape
   (mode -E / -S / -c / link, with or without -o, 1..MaxIn inputs of kinds
   .c / .s / .o named in<i>.<kind>); main()'s loop over the inputs is compiled
   by ProgOf into the straight-line list of steps the driver will take
   (create_tmpfile, run_cc1, assemble, run_linker), and one action is one
   system-level step of that list:

     ParseArgs   parse_args() + the "-o with several files" check
     CreateTmp   create_tmpfile(): mkstemp = atomic exclusive create of a fresh name
     Spawn       run_subprocess(): fork + execvp of cc1 (argv[0] -cc1) / as / ld
     SpawnFail   the same, but the program cannot be executed (ENOENT / EACCES): no
                 tool ever runs; the step has failed (the code: the forked child prints
                 "exec failed" and _exit(1)s, which the parent sees as a failed step)
     ChildRun    what the child does to the file system, and how it ends
     Wait        wait(&status); status != 0 -> exit(1)
     Cleanup     atexit cleanup(): one unlink per step (interleavable)
     Exit        process exit with code 0 / 1

   What the children do is the environment; it is transcribed from the tools
   as observed with strace (and re-validated on every recorded run):
     cc1  buffers the assembly in memory (open_memstream in cc1()) and opens
          its output once, after parsing and code generation succeeded; on any
          failure it touches nothing.  (-E: print_tokens opens -o after
          preprocess() returned.)
     as   unlink(out); open(out, O_CREAT|O_TRUNC) first, then reads its input;
          on an error it unlinks out again.   ld: the same.
   Faults (at most one per run): the k-th call of cc1 / as / ld dies before
   doing anything, by exit status or by a signal, or cannot be started at all
   ("noexec": the tool is missing from PATH or not executable at that moment); an input file is missing
   (root cannot make a file unreadable) or erroneous; the -o path cannot be
   created.  For a C source the point at which the front end rejects it is
   explicit: "bad" is rejected by the tokenizer / preprocessor / parser, i.e.
   before any front end, buffered or not, has a reason to open its output;
   "badgen" passes parse() and is rejected inside codegen() (gen_addr: "not an
   lvalue") -- after a front end that streams its listing has already created
   or truncated the output.  Under -E a badgen file is an ordinary source.

   The driver can also abort by itself between steps: get_file_type() calls
   error() for an input with an unknown extension ("unkext": position i of the
   command names in<i>.x; `-x none` in front of it changes nothing), after the
   earlier inputs have been compiled and their temporaries exist.  That is not
   a step of its own (nothing observable happens but exit(1)): the step list
   holds a "reject" marker there and whichever action completes the step before
   it goes to the exit path with `failed` set.  Under -E every input is C
   (opt_x = FILE_C), so nothing is rejected.

   Fourth round (defects of HEAD nobody had a behaviour for: `chibicc -E <directory>` exits 0
   with empty output, `-D` / `-U` / `-MQ` as the last argument kill the driver, `-L` as the
   last argument and `-I <dir>` are misparsed).  Two more dimensions:
     * what an input path *is*: besides a regular file ("src" / "bad" / "badgen") and nothing
       ("missing") it may be a directory ("isdir": fopen() succeeds, the first read fails
       with EISDIR) or a name that cannot be opened for a reason other than ENOENT ("eloop":
       a symbolic link to itself -- the stand-in for "unreadable", which does not exist for
       root).  No tool can read either: cc1 fails without touching anything, as / ld create
       their output, fail and remove it again (observed with strace), exactly as for a
       missing input; the path is still there afterwards.  The -o path may likewise be an
       existing directory (fault "unwritable" with how = "isdir"; how = "-" is the
       non-existent directory of the earlier rounds): nobody can create the output.
     * the option table: every option of parse_args() that takes an argument (ArgOpts) is
       given (fault t = "opt", k = its index) either as the very last word of the command
       without its argument (how = "noarg": parse_args() must print the usage message and
       exit 1 before anything is created or started) or in front of the inputs with a
       harmless argument in the separate-word form (how = "val": -I / -idirafter / -L <an
       empty directory>, -include <an empty header>, -x none, -MF / -MT / -MQ <name> without
       -MD, -Xlinker --as-needed, -D X=1, -U X; the command must behave exactly as without
       it); for -include, the one option whose argument is a file that is read, the file
       may also be missing or a directory (how = "missing" / "isdir": every front end
       fails, touching nothing).  Bounds: option faults are enumerated for the commands
       with the single input in1.c, directory inputs for commands with at most two inputs,
       unopenable inputs for commands with one input.

   Deviations of the code from the intended discipline are switchable so that
   TLC shows what each breaks (sensitivity controls):
     Pinned = TRUE      main.c before fix-1 / fix-2 of proposed/C14 (D24, D25): (a) run_linker() runs whenever
                        ld_args is non-empty, also under -c / -S (an .o input
                        is enough); (b) in link mode a .s input is assembled
                        to the -o / default .o path and never given to ld
     DoCleanup = FALSE  atexit(cleanup) dropped
     AtExit = FALSE     cleanup() called explicitly where a child fails and at the
                        end of main() instead of from an exit handler: error() in
                        the driver itself leaves the temporaries behind
     CheckWait = FALSE  wait status ignored
     Buffered = FALSE   cc1 opens (truncates) its output after parse() and streams
                        codegen() into it: only a badgen input shows the difference
     ExclTmp = FALSE    predictable temporary names, no O_EXCL
     DirIsEmpty = TRUE  tokenize.c read_file() before fix-3 of proposed/C14: a failing read is taken
                        for the end of the file, so the front end compiles a directory as an
                        empty translation unit (exit 0, output written)
     ArgCheck = FALSE   parse_args() does not check that an option has its argument
   Named difference to gcc that is *not* treated as a defect: -E sets
   opt_x = FILE_C, so under -E every input, whatever its suffix, is preprocessed.
*)
EXTENDS Integers, Sequences, FiniteSets, TLC, Json, CSV, IOUtils, SequencesExt

CONSTANTS ND,          \* number of drivers started in the directory (1 or 2)
          MaxIn,       \* inputs per command: 1..MaxIn
          Pinned, DoCleanup, AtExit, CheckWait, Buffered, ExclTmp, DirIsEmpty, ArgCheck,
          Emit         \* TRUE: write one line per terminated single-driver behaviour to IOEnv.OUT

D == 1..ND
KindSet == {"c", "s", "o"}
AllKinds == KindSet \cup {"x"}     \* "x": unknown extension, only through dirfault "unkext"
Modes == {"E", "S", "c", "link"}
Tools == {"cc1", "as", "ld"}

In(i, k) == "in" \o ToString(i) \o "." \o k
OPath(d) == "out" \o ToString(d)
NT == 2 * MaxIn * ND
TmpName(n) == "t" \o ToString(n)
TmpPaths == {TmpName(n) : n \in 1..NT}
UserPaths == {In(i, k) : i \in 1..MaxIn, k \in AllKinds} \cup {"a.out"} \cup {OPath(d) : d \in D}
AllPaths == UserPaths \cup TmpPaths

(* parse_args(): the options that take an argument as a separate word (take_arg() lists some of
   them; -D -U -MQ -L are taken with argv[++i] as well); the harness's ARGOPTS, same order *)
ArgOpts == <<"-o", "-I", "-idirafter", "-include", "-x", "-MF", "-MT", "-Xlinker", "-D", "-U", "-MQ", "-L">>
IncludeOpt == 4
Unreadable == {"absent", "dir", "loop"}      \* what no tool can read: nothing, a directory, a name that cannot be opened

NoF == [t |-> "none", k |-> 0, how |-> "-"]
NoDF == [t |-> "none", i |-> 0]
NoChild == [tool |-> "none", ins |-> <<>>, out |-> "-", fin |-> "-", status |-> "-"]
NoStep == [tool |-> "none", out |-> "-", fin |-> "-"]

VARIABLES ins,       \* kinds of the input files in the directory, shared by the drivers
          pre,       \* "old" | "absent": what every possible output path holds initially
          dirfault,  \* [t: none|missing|isdir|eloop|bad|badgen|unkext, i]   a property of the directory / the command line
          cmd,       \* d -> [mode, o]
          fault,     \* d -> [t: none|cc1|as|ld, k, how: exit|signal|noexec] | [t: unwritable, how: -|isdir]
                     \*      | [t: opt, k: index into ArgOpts, how: noarg|val|missing|isdir]
          prog,      \* d -> the step list of the command (ProgOf)
          fs,        \* path -> content tag
          pc, ip, tmps, child, ncall, failed, code, cl,
          sf, failstep, wrote, clob, owner, interf, log     \* ghosts
vars == <<ins, pre, dirfault, cmd, fault, prog, fs, pc, ip, tmps, child, ncall, failed, code, cl,
          sf, failstep, wrote, clob, owner, interf, log>>

(* prog and log are functions of the rest of the state: kept out of the fingerprint *)
View == <<ins, pre, dirfault, cmd, fault, fs, pc, ip, tmps, child, ncall, failed, code, cl,
          sf, failstep, wrote, clob, owner, interf>>

-----------------------------------------------------------------------------
(* main(): the loop over input_paths, as a list of steps.  A path is either a
   literal <<"P", name>> or <<"T", n>> = the n-th temporary this driver made.  *)
P(p) == <<"P", p>>
T(n) == <<"T", n>>
TmpOp == [op |-> "tmp", ins |-> <<>>, out |-> P("-"), fin |-> "-"]
RejectOp == [op |-> "reject", ins |-> <<>>, out |-> P("-"), fin |-> "-"]     \* error("unknown file extension")
Op(tool, i, ou, fi) == [op |-> tool, ins |-> i, out |-> ou, fin |-> fi]

ExePath(c, d) == IF c.o THEN OPath(d) ELSE "a.out"
OutOf(c, d, i, ext) == IF c.o THEN OPath(d) ELSE In(i, ext)       \* opt_o, else replace_extn(input)

InputOps(c, d, i, k, nt) ==            \* <<steps, temporaries made so far, ld_args pushed>>
  LET src == P(In(i, k))
      eo == IF c.o THEN OPath(d) ELSE "-"
      so == OutOf(c, d, i, "s")
      oo == OutOf(c, d, i, "o")
      x  == ExePath(c, d)
      ModeE == <<<<Op("cc1", <<src>>, P(eo), eo)>>, nt, <<>>>>       \* opt_x = FILE_C: every input is preprocessed
      ModeS == IF k = "c" THEN <<<<Op("cc1", <<src>>, P(so), so)>>, nt, <<>>>>
               ELSE <<<<>>, nt, IF k = "o" THEN <<src>> ELSE <<>>>>
      ModeC == IF k = "c" THEN <<<<TmpOp, Op("cc1", <<src>>, T(nt + 1), oo), Op("as", <<T(nt + 1)>>, P(oo), oo)>>, nt + 1, <<>>>>
               ELSE IF k = "s" THEN <<<<Op("as", <<src>>, P(oo), oo)>>, nt, <<>>>>
               ELSE <<<<>>, nt, <<src>>>>
      ModeL == IF k = "c" THEN <<<<TmpOp, TmpOp, Op("cc1", <<src>>, T(nt + 1), x), Op("as", <<T(nt + 1)>>, T(nt + 2), x)>>,
                                 nt + 2, <<T(nt + 2)>>>>
               ELSE IF k = "s" THEN (IF Pinned THEN <<<<Op("as", <<src>>, P(oo), oo)>>, nt, <<>>>>
                                     ELSE <<<<TmpOp, Op("as", <<src>>, T(nt + 1), x)>>, nt + 1, <<T(nt + 1)>>>>)
               ELSE <<<<>>, nt, <<src>>>>
  IN IF k = "x" /\ c.mode # "E" THEN <<<<RejectOp>>, nt, <<>>>>
     ELSE CASE c.mode = "E" -> ModeE [] c.mode = "S" -> ModeS [] c.mode = "c" -> ModeC [] c.mode = "link" -> ModeL

EK(insV, dfV) == [i \in DOMAIN insV |-> IF dfV.t = "unkext" /\ dfV.i = i THEN "x" ELSE insV[i]]    \* kinds as named on the command line

ProgOf(insV, c, d) ==
  LET acc == FoldLeft(LAMBDA a, i : LET r == InputOps(c, d, i, insV[i], a.nt)
                                    IN [ops |-> a.ops \o r[1], nt |-> r[2], ld |-> a.ld \o r[3]],
                      [ops |-> <<>>, nt |-> 0, ld |-> <<>>], [i \in 1..Len(insV) |-> i])
      link == IF Pinned THEN acc.ld # <<>> ELSE c.mode = "link" /\ acc.ld # <<>>
  IN IF link THEN Append(acc.ops, Op("ld", acc.ld, P(ExePath(c, d)), ExePath(c, d))) ELSE acc.ops

Usage(insV, c) == Len(insV) > 1 /\ c.o /\ c.mode # "link"     \* "cannot specify '-o' with '-c,' '-S' or '-E' with multiple files"

(* outputs the command asks for (what gcc would produce for it) *)
Requested(insV, c, d) ==
  CASE c.mode = "E" -> IF c.o THEN {OPath(d)} ELSE {}
    [] c.mode = "S" -> {OutOf(c, d, i, "s") : i \in {j \in 1..Len(insV) : insV[j] = "c"}}
    [] c.mode = "c" -> {OutOf(c, d, i, "o") : i \in {j \in 1..Len(insV) : insV[j] \in {"c", "s"}}}
    [] c.mode = "link" -> {ExePath(c, d)}
TypeOf(mode) == CASE mode = "E" -> "E" [] mode = "S" -> "S" [] mode = "c" -> "O" [] mode = "link" -> "X"
Fresh(tool, mode, d) == (CASE tool = "cc1" -> (IF mode = "E" THEN "E" ELSE "S") [] tool = "as" -> "O" [] tool = "ld" -> "X") \o ToString(d)

NCalls(pr, tool) == Len(SelectSeq(pr, LAMBDA o : o.op = tool))

InitTag(insV, preV, dfV, fltV, p) ==
  IF \E i \in 1..Len(insV) : p = In(i, insV[i])
  THEN LET i == CHOOSE j \in 1..Len(insV) : p = In(j, insV[j])
       IN IF dfV.i = i /\ dfV.t # "unkext"
          THEN (CASE dfV.t = "missing" -> "absent" [] dfV.t = "isdir" -> "dir" [] dfV.t = "eloop" -> "loop" [] OTHER -> dfV.t)
          ELSE "src"
  ELSE IF p \in TmpPaths THEN "absent"
  ELSE IF \E d \in D : p = OPath(d) /\ fltV[d].t = "unwritable" /\ fltV[d].how = "isdir" THEN "dir"   \* -o names a directory
  ELSE IF \E d \in D : p = OPath(d) /\ fltV[d].t = "unwritable" THEN "absent"     \* its directory does not exist
  ELSE preV

-----------------------------------------------------------------------------
InitState(insV, preV, dfV, cmdV, fltV) ==
  [ins |-> insV, pre |-> preV, dirfault |-> dfV, cmd |-> cmdV, fault |-> fltV,
   prog |-> [d \in D |-> ProgOf(EK(insV, dfV), cmdV[d], d)],
   fs |-> [p \in AllPaths |-> InitTag(EK(insV, dfV), preV, dfV, fltV, p)]]

Load(s) ==   \* primed copy of an initial state (the trace specification's reset)
  /\ ins' = s.ins /\ pre' = s.pre /\ dirfault' = s.dirfault /\ cmd' = s.cmd /\ fault' = s.fault
  /\ prog' = s.prog /\ fs' = s.fs
  /\ pc' = [d \in D |-> "start"] /\ ip' = [d \in D |-> 1] /\ tmps' = [d \in D |-> <<>>]
  /\ child' = [d \in D |-> NoChild] /\ ncall' = [d \in D |-> [t \in Tools |-> 0]]
  /\ failed' = [d \in D |-> FALSE] /\ code' = [d \in D |-> -1] /\ cl' = [d \in D |-> 0]
  /\ sf' = [d \in D |-> FALSE] /\ failstep' = [d \in D |-> NoStep]
  /\ wrote' = {} /\ clob' = {} /\ owner' = [p \in TmpPaths |-> 0] /\ interf' = FALSE
  /\ log' = [d \in D |-> <<>>]

Rest ==      \* the part of the initial state that does not depend on the command
  /\ pc = [d \in D |-> "start"] /\ ip = [d \in D |-> 1] /\ tmps = [d \in D |-> <<>>]
  /\ child = [d \in D |-> NoChild] /\ ncall = [d \in D |-> [t \in Tools |-> 0]]
  /\ failed = [d \in D |-> FALSE] /\ code = [d \in D |-> -1] /\ cl = [d \in D |-> 0]
  /\ sf = [d \in D |-> FALSE] /\ failstep = [d \in D |-> NoStep]
  /\ wrote = {} /\ clob = {} /\ owner = [p \in TmpPaths |-> 0] /\ interf = FALSE
  /\ log = [d \in D |-> <<>>]

InitFrom(s) ==
  /\ ins = s.ins /\ pre = s.pre /\ dirfault = s.dirfault /\ cmd = s.cmd /\ fault = s.fault
  /\ prog = s.prog /\ fs = s.fs
  /\ Rest

ToolFaults(pr) == {[t |-> tool, k |-> k, how |-> h] : tool \in Tools, k \in 1..MaxIn, h \in {"exit", "signal", "noexec"}}
OptFaults == {[t |-> "opt", k |-> k, how |-> "noarg"] : k \in 1..Len(ArgOpts)}
             \cup {[t |-> "opt", k |-> k, how |-> "val"] : k \in 2..Len(ArgOpts)}        \* (-o with its argument is cmd.o)
             \cup {[t |-> "opt", k |-> IncludeOpt, how |-> h] : h \in {"missing", "isdir"}}
FaultsOf(insV, c, d) ==
  LET pr == ProgOf(insV, c, d) IN
  {NoF} \cup (IF Usage(insV, c) THEN {} ELSE
              {f \in ToolFaults(pr) : f.k <= NCalls(pr, f.t)}
              \cup (IF c.o THEN {[t |-> "unwritable", k |-> 0, how |-> h] : h \in {"-", "isdir"}} ELSE {})
              \cup (IF insV = <<"c">> /\ ND = 1 THEN OptFaults ELSE {}))     \* (two drivers: an option fault adds no interleaving)
NoArg(d) == fault[d].t = "opt" /\ fault[d].how = "noarg"          \* parse_args(): usage(1)
BadInclude(d) == fault[d].t = "opt" /\ fault[d].how \in {"missing", "isdir"}   \* cc1(): the -include file cannot be read

Rank(c) == (CASE c.mode = "E" -> 0 [] c.mode = "S" -> 2 [] c.mode = "c" -> 4 [] c.mode = "link" -> 6) + (IF c.o THEN 1 ELSE 0)

Init ==
  /\ ins \in UNION {[1..n -> KindSet] : n \in 1..MaxIn}
  /\ cmd \in [D -> [mode : Modes, o : BOOLEAN]]
  /\ ND = 2 => Rank(cmd[1]) <= Rank(cmd[2])       \* the drivers are interchangeable (out1 / out2 renamed)
  /\ dirfault \in {NoDF} \cup {[t |-> x, i |-> i] : x \in {"missing", "bad"}, i \in 1..Len(ins)}
                      \cup {[t |-> "isdir", i |-> i] : i \in {j \in 1..Len(ins) : Len(ins) <= 2}}    \* (bounds of the closed domain:
                      \cup {[t |-> "eloop", i |-> i] : i \in {j \in 1..Len(ins) : Len(ins) = 1}}     \*  the model treats both as "missing")
                      \cup {[t |-> x, i |-> i] : x \in {"badgen", "unkext"}, i \in {j \in 1..Len(ins) : ins[j] = "c"}}
  /\ \E f1 \in (IF dirfault = NoDF THEN FaultsOf(ins, cmd[1], 1) ELSE {NoF}) :          \* a single fault
       IF ND = 1 THEN fault = <<f1>>
       ELSE \E f2 \in (IF dirfault = NoDF /\ f1 = NoF THEN FaultsOf(ins, cmd[2], 2) ELSE {NoF}) : fault = <<f1, f2>>
  /\ pre \in {"old", "absent"}
  /\ LET s == InitState(ins, pre, dirfault, cmd, fault) IN prog = s.prog /\ fs = s.fs
  /\ Rest

-----------------------------------------------------------------------------
Res(d, ref) == IF ref[1] = "P" THEN ref[2] ELSE tmps[d][ref[2]]
(* where main() goes when it returns / calls exit(): the atexit handler, then _exit *)
AfterMain(tm) == IF DoCleanup /\ tm # <<>> THEN "cleanup" ELSE "exit"
(* error() in the driver: exit(1); the temporaries go only if cleanup is an exit handler *)
AfterErr(tm) == IF AtExit THEN AfterMain(tm) ELSE "exit"
(* the step after the one being completed is the point where the driver rejects an input *)
Rej(d, n) == n <= Len(prog[d]) /\ prog[d][n].op = "reject"
Advance(d, tm) == IF Rej(d, ip[d] + 1) THEN AfterErr(tm)
                  ELSE IF ip[d] + 1 > Len(prog[d]) THEN AfterMain(tm) ELSE "run"
Foreign(d, paths) == \E p \in paths \cap TmpPaths : owner[p] \notin {0, d}

ParseArgs(d) ==
  /\ pc[d] = "start"
  /\ IF Usage(ins, cmd[d]) \/ (ArgCheck /\ NoArg(d))
     THEN /\ failed' = [failed EXCEPT ![d] = TRUE] /\ sf' = [sf EXCEPT ![d] = TRUE]
          /\ pc' = [pc EXCEPT ![d] = AfterMain(<<>>)]
     ELSE /\ failed' = [failed EXCEPT ![d] = Rej(d, 1)] /\ sf' = [sf EXCEPT ![d] = Rej(d, 1)]
          /\ pc' = [pc EXCEPT ![d] = IF prog[d] = <<>> \/ Rej(d, 1) THEN AfterMain(<<>>) ELSE "run"]
  /\ UNCHANGED <<ins, pre, dirfault, cmd, fault, prog, fs, ip, tmps, child, ncall, code, cl, failstep, wrote, clob, owner, interf, log>>

(* mkstemp: a name nobody has used before (random 6-character suffix + O_EXCL); a name is
   never handed out twice, so a temporary an assembler removed on failure is not re-created
   by the other driver under the same name while its first owner still has it on its list *)
MinFreeTmp == LET free == {n \in 1..NT : fs[TmpName(n)] = "absent" /\ owner[TmpName(n)] = 0}
              IN TmpName(CHOOSE n \in free : \A m \in free : n <= m)
PickTmp(d) == IF ExclTmp THEN MinFreeTmp ELSE TmpName(Len(tmps[d]) + 1)

CreateTmp(d, n) ==            \* create_tmpfile()
  /\ pc[d] = "run" /\ prog[d][ip[d]].op = "tmp"
  /\ n \in TmpPaths
  /\ ExclTmp => fs[n] = "absent" /\ owner[n] = 0      \* O_CREAT|O_EXCL on a fresh name
  /\ fs' = [fs EXCEPT ![n] = "T" \o ToString(d)]
  /\ tmps' = [tmps EXCEPT ![d] = Append(@, n)]        \* strarray_push(&tmpfiles, path)
  /\ interf' = (interf \/ owner[n] \notin {0, d})
  /\ owner' = [owner EXCEPT ![n] = d]
  /\ ip' = [ip EXCEPT ![d] = @ + 1]
  /\ pc' = [pc EXCEPT ![d] = Advance(d, tmps'[d])]
  /\ failed' = [failed EXCEPT ![d] = @ \/ Rej(d, ip[d] + 1)] /\ sf' = [sf EXCEPT ![d] = @ \/ Rej(d, ip[d] + 1)]
  /\ UNCHANGED <<ins, pre, dirfault, cmd, fault, prog, child, ncall, code, cl, failstep, wrote, clob, log>>

NoExec(d) == LET o == prog[d][ip[d]] IN       \* this call is the one that cannot be started
  fault[d].t = o.op /\ fault[d].how = "noexec" /\ fault[d].k = ncall[d][o.op] + 1

Spawn(d) ==                   \* fork + execvp
  /\ pc[d] = "run" /\ prog[d][ip[d]].op \in Tools /\ ~NoExec(d)
  /\ LET o == prog[d][ip[d]] IN
     /\ child' = [child EXCEPT ![d] = [tool |-> o.op, ins |-> [j \in DOMAIN o.ins |-> Res(d, o.ins[j])],
                                       out |-> Res(d, o.out), fin |-> o.fin, status |-> "run"]]
     /\ ncall' = [ncall EXCEPT ![d][o.op] = @ + 1]
  /\ pc' = [pc EXCEPT ![d] = "child"]
  /\ UNCHANGED <<ins, pre, dirfault, cmd, fault, prog, fs, ip, tmps, failed, code, cl, sf, failstep, wrote, clob, owner, interf, log>>

SpawnFail(d) ==               \* execvp fails: nothing runs, nothing is touched, the step has failed
  /\ pc[d] = "run" /\ prog[d][ip[d]].op \in Tools /\ NoExec(d)
  /\ LET o == prog[d][ip[d]]  out == Res(d, o.out)  bad == CheckWait IN
     /\ ncall' = [ncall EXCEPT ![d][o.op] = @ + 1]
     /\ sf' = [sf EXCEPT ![d] = TRUE]
     /\ failstep' = IF failstep[d] = NoStep THEN [failstep EXCEPT ![d] = [tool |-> o.op, out |-> out, fin |-> o.fin]] ELSE failstep
     /\ failed' = [failed EXCEPT ![d] = @ \/ bad \/ Rej(d, ip[d] + 1)]
     /\ pc' = [pc EXCEPT ![d] = IF bad THEN AfterMain(tmps[d]) ELSE Advance(d, tmps[d])]
     /\ ip' = [ip EXCEPT ![d] = IF bad THEN @ ELSE @ + 1]
     /\ log' = [log EXCEPT ![d] = Append(@, [tool |-> o.op, ins |-> [j \in DOMAIN o.ins |-> Res(d, o.ins[j])], out |-> out, status |-> "noexec"])]
  /\ UNCHANGED <<ins, pre, dirfault, cmd, fault, prog, fs, tmps, child, code, cl, wrote, clob, owner, interf>>

(* outcome of a child: <<status, fs', wrote-new-content?, clobbered?>> *)
Outcome(d) ==
  LET c == child[d]
      hit == fault[d].t = c.tool /\ fault[d].k = ncall[d][c.tool]
      asEmpty == IF DirIsEmpty /\ c.tool = "cc1" THEN {"dir"} ELSE {}                \* (the front end before fix-3)
      inOK == /\ \A j \in DOMAIN c.ins : fs[c.ins[j]] \notin (Unreadable \ asEmpty) \cup {"bad"}   \* readable, accepted by parse()
              /\ ~(c.tool = "cc1" /\ BadInclude(d) /\ ~(DirIsEmpty /\ fault[d].how = "isdir"))
      genOK == cmd[d].mode = "E" \/ \A j \in DOMAIN c.ins : fs[c.ins[j]] # "badgen"    \* accepted by codegen()
      tracked == c.out # "-"
      canW == ~(fault[d].t = "unwritable" /\ c.out = OPath(d))
      new == Fresh(c.tool, cmd[d].mode, d)
      put(v) == IF tracked THEN [fs EXCEPT ![c.out] = v] ELSE fs
  IN IF hit THEN <<fault[d].how, fs, FALSE, FALSE>>
     ELSE IF c.tool = "cc1"
     THEN IF Buffered
          THEN IF inOK /\ genOK /\ canW THEN <<"ok", put(new), tracked, FALSE>> ELSE <<"exit", fs, FALSE, FALSE>>
          ELSE IF ~inOK \/ ~canW THEN <<"exit", fs, FALSE, FALSE>>          \* rejected before / at the open
               ELSE IF genOK THEN <<"ok", put(new), tracked, FALSE>>
               ELSE <<"exit", put("Z" \o ToString(d)), FALSE, tracked>>      \* output truncated, partial listing, then the error
     ELSE IF ~canW THEN <<"exit", fs, FALSE, FALSE>>                          \* as / ld: cannot create the output
     ELSE IF inOK THEN <<"ok", put(new), tracked, FALSE>>
     ELSE <<"exit", put("absent"), FALSE, tracked>>                          \* created, error, unlinked again

ChildRun(d) ==
  /\ pc[d] = "child"
  /\ LET c == child[d]  r == Outcome(d) IN
     /\ child' = [child EXCEPT ![d].status = r[1]]
     /\ fs' = r[2]
     /\ wrote' = IF r[3] THEN wrote \cup {<<d, c.out>>} ELSE wrote
     /\ clob' = IF r[4] THEN clob \cup {<<d, c.out>>} ELSE clob
     /\ sf' = [sf EXCEPT ![d] = @ \/ r[1] # "ok"]
     /\ failstep' = IF r[1] # "ok" /\ failstep[d] = NoStep
                    THEN [failstep EXCEPT ![d] = [tool |-> c.tool, out |-> c.out, fin |-> c.fin]] ELSE failstep
     /\ interf' = (interf \/ Foreign(d, {c.ins[j] : j \in DOMAIN c.ins} \cup {c.out}))
  /\ pc' = [pc EXCEPT ![d] = "wait"]
  /\ UNCHANGED <<ins, pre, dirfault, cmd, fault, prog, ip, tmps, ncall, failed, code, cl, owner, log>>

Wait(d) ==                    \* while (wait(&status) > 0); if (status != 0) exit(1);
  /\ pc[d] = "wait"
  /\ LET c == child[d]  bad == CheckWait /\ c.status # "ok"  rej == ~bad /\ Rej(d, ip[d] + 1) IN
     /\ failed' = [failed EXCEPT ![d] = @ \/ bad \/ rej]
     /\ sf' = [sf EXCEPT ![d] = @ \/ rej]
     /\ pc' = [pc EXCEPT ![d] = IF bad THEN AfterMain(tmps[d]) ELSE Advance(d, tmps[d])]
     /\ ip' = [ip EXCEPT ![d] = IF bad THEN @ ELSE @ + 1]
     /\ log' = [log EXCEPT ![d] = Append(@, [tool |-> c.tool, ins |-> c.ins, out |-> c.out, status |-> c.status])]
  /\ child' = [child EXCEPT ![d] = NoChild]
  /\ UNCHANGED <<ins, pre, dirfault, cmd, fault, prog, fs, tmps, ncall, code, cl, failstep, wrote, clob, owner, interf>>

Cleanup(d) ==                 \* cleanup(): unlink(tmpfiles.data[i])
  /\ pc[d] = "cleanup"
  /\ LET n == tmps[d][cl[d] + 1] IN
     /\ fs' = [fs EXCEPT ![n] = "absent"]
     /\ interf' = (interf \/ owner[n] \notin {0, d})
     /\ UNCHANGED owner
  /\ cl' = [cl EXCEPT ![d] = @ + 1]
  /\ pc' = [pc EXCEPT ![d] = IF cl[d] + 1 = Len(tmps[d]) THEN "exit" ELSE "cleanup"]
  /\ UNCHANGED <<ins, pre, dirfault, cmd, fault, prog, ip, tmps, child, ncall, failed, code, sf, failstep, wrote, clob, log>>

UserFs(f) == LET ps == SetToSeq({p \in AllPaths : f[p] # "absent"})
             IN [j \in DOMAIN ps |-> [p |-> ps[j], t |-> f[ps[j]]]]

Exit(d) ==
  /\ pc[d] = "exit"
  /\ code' = [code EXCEPT ![d] = IF failed[d] THEN 1 ELSE 0]
  /\ pc' = [pc EXCEPT ![d] = "done"]
  /\ IF Emit /\ ND = 1
     THEN CSVWrite("%1$s", <<ToJson([ins |-> ins, mode |-> cmd[d].mode, o |-> cmd[d].o, pre |-> pre,
                                      df |-> dirfault, fault |-> fault[d], code |-> code'[d],
                                      fs |-> UserFs(fs), log |-> log[d], ntmp |-> Len(tmps[d]),
                                      req |-> SetToSeq(Requested(ins, cmd[d], d))])>>, IOEnv.OUT)
     ELSE TRUE
  /\ UNCHANGED <<ins, pre, dirfault, cmd, fault, prog, fs, ip, tmps, child, ncall, failed, cl, sf, failstep, wrote, clob, owner, interf, log>>

DNext(d) == ParseArgs(d) \/ CreateTmp(d, PickTmp(d)) \/ Spawn(d) \/ SpawnFail(d) \/ ChildRun(d) \/ Wait(d) \/ Cleanup(d) \/ Exit(d)
Next == \E d \in D : DNext(d)
Spec == Init /\ [][Next]_vars /\ \A d \in D : WF_vars(DNext(d))
(* a slice for the two-driver sensitivity control: both commands compile and link *)
SpecLink == (Init /\ \A d \in D : cmd[d].mode = "link" /\ fault[d] = NoF) /\ [][Next]_vars

-----------------------------------------------------------------------------
AllDone == \A d \in D : pc[d] = "done"

(* P1  at exit no temporary of that driver exists *)
P1 == \A d \in D : pc[d] = "done" => \A n \in TmpPaths : owner[n] = d => fs[n] = "absent"
(* P2  exit code # 0 iff some step failed *)
P2 == \A d \in D : pc[d] = "done" => ((code[d] # 0) <=> sf[d])
(* P3  a translation unit that failed to compile: neither its own output (unless that is one of
       the driver's temporaries, which nobody else sees and cleanup removes) nor the user-visible
       output it contributes to was created, overwritten or removed by this driver; a failed
       assembler / linker step left no new content in its output *)
P3 == \A d \in D :
        LET s == failstep[d]  touched == wrote \cup clob IN
        /\ s.tool = "cc1" => (s.out \notin TmpPaths => <<d, s.out>> \notin touched) /\ <<d, s.fin>> \notin touched
        /\ s.tool = "as" => <<d, s.out>> \notin wrote /\ (s.fin # s.out => <<d, s.fin>> \notin touched)
        /\ s.tool = "ld" => <<d, s.out>> \notin wrote
(* P4  on success exactly the requested outputs exist, freshly written; nothing else in the
       directory changed *)
P4 == AllDone =>
        /\ \A d \in D : code[d] = 0 =>
             \A p \in Requested(ins, cmd[d], d) : fs[p] \in {TypeOf(cmd[d].mode) \o ToString(e) : e \in D}
        /\ \A p \in UserPaths \ UNION {Requested(ins, cmd[d], d) : d \in D} :
             fs[p] = InitTag(EK(ins, dirfault), pre, dirfault, fault, p)
(* P5  no driver (or child of it) reads, writes, replaces or unlinks a temporary the other owns *)
P5 == ~interf
(* P6  a command that names an input nobody can read (nothing there, a directory, a name that
       cannot be opened) in a position where the mode consumes it, an unreadable -include file
       for a front end that runs, or an option without its argument, does not exit 0 *)
Consumed(c, k) == CASE c.mode = "E" -> TRUE [] c.mode = "S" -> k = "c" [] c.mode = "c" -> k \in {"c", "s"} [] c.mode = "link" -> TRUE
P6 == \A d \in D : (pc[d] = "done" /\ code[d] = 0) =>
        /\ ~NoArg(d)
        /\ ~(BadInclude(d) /\ ncall[d]["cc1"] > 0)
        /\ (dirfault.t \in {"missing", "isdir", "eloop"} => ~Consumed(cmd[d], ins[dirfault.i]))
TypeOK == /\ \A d \in D : pc[d] \in {"start", "run", "child", "wait", "cleanup", "exit", "done"}
          /\ \A d \in D : code[d] \in {-1, 0, 1}
          /\ \A d \in D : Len(tmps[d]) <= 2 * MaxIn
Termination == <>AllDone
=============================================================================
