---------------------------- MODULE DriverTrace ----------------------------
(* C14 trace validation.  A recorded run of the real driver (strace -f of the
   driver, its cc1 / as / ld children; harness/c14.py turns the system calls
   into events) must be a behaviour of Driver.tla for the same command and the
   same fault plan: one event = one action.

     reset    (synthetic) command shape, directory contents, fault plan -> Load
     start    execve of the driver                         -> ParseArgs
     mkstemp  openat(/tmp/chibicc-XXXXXX, O_CREAT|O_EXCL)  -> CreateTmp
     exec     first execve of a child: tool, inputs, output-> Spawn
     execfail a forked / spawned child none of whose execve
              calls succeeded, reaped by the driver          -> SpawnFail
     run      what that child opened / unlinked            -> ChildRun
     wait     wait4 returning the child's status           -> Wait
     unlink   unlink by the driver                         -> Cleanup
     exit     exit_group / death of the driver             -> Exit
     final    directory listing + surviving temporaries    -> must equal fs
     eof      (synthetic) end of file: the list of rejected runs is written out

   Many runs are concatenated.  A run whose next event is not a step of the
   specification is rejected: the cursor jumps to the next reset and the run
   number and event index are recorded, so one deviating run does not hide the
   others.                                                                  *)
EXTENDS Driver

Tr == ndJsonDeserialize(IOEnv.TRACE)

VARIABLES l,      \* next event
          rej     \* rejected runs: <<[at |-> event index]>>
tvars == <<vars, l, rej>>

Set(s) == {s[j] : j \in DOMAIN s}
ev == Tr[l]

TInit == /\ InitFrom(InitState(<<"c">>, "absent", NoDF, <<[mode |-> "E", o |-> FALSE]>>, <<NoF>>))
         /\ l = 1 /\ rej = <<>>

Cfg(r) == InitState(r.ins, r.pre, r.df, <<[mode |-> r.mode, o |-> r.o]>>, <<r.fault>>)

Class(t) == IF t \in {"absent", "src", "bad", "badgen", "old", "dir", "loop"} THEN t ELSE SubSeq(t, 1, 1)

(* what the child was seen doing must fit what it was started for (no other watched path is
   touched: in particular no temporary of another process), a successful child has written its
   output, a failing front end has touched no user-visible file (what it does to the driver's own
   temporary is the driver's business: cleanup removes it), a child killed at once has done nothing *)
RunOK(c, status) ==
  LET hit == fault[1].t = c.tool /\ fault[1].k = ncall[1][c.tool] IN
  /\ Set(ev.writes) \subseteq {c.out}
  /\ Set(ev.unlinks) \subseteq {c.out}
  /\ Set(ev.reads) \subseteq Set(c.ins) \cup {c.out}
  /\ (status = "ok" /\ c.out # "-") => c.out \in Set(ev.writes)
  /\ (c.tool = "cc1" /\ status # "ok" /\ c.out \notin TmpPaths) => ev.writes = <<>> /\ ev.unlinks = <<>>
  /\ hit => ev.writes = <<>> /\ ev.unlinks = <<>> /\ ev.reads = <<>>

Step ==
  \/ /\ ev.e = "start" /\ ParseArgs(1)
  \/ /\ ev.e = "mkstemp" /\ CreateTmp(1, ev.n)
  \/ /\ ev.e = "exec" /\ Spawn(1)
     /\ child'[1].tool = ev.tool /\ child'[1].ins = ev.ins /\ child'[1].out = ev.out
  \/ /\ ev.e = "execfail" /\ SpawnFail(1) /\ prog[1][ip[1]].op = ev.tool
  \/ /\ ev.e = "run" /\ ChildRun(1) /\ RunOK(child[1], child'[1].status)
  \/ /\ ev.e = "wait" /\ Wait(1) /\ child[1].status = ev.status
  \/ /\ ev.e = "unlink" /\ Cleanup(1) /\ ev.p = tmps[1][cl[1] + 1]
  \/ /\ ev.e = "exit" /\ Exit(1) /\ code'[1] = ev.code
  \/ /\ ev.e = "final" /\ pc[1] = "done"
     /\ \A r \in Set(ev.fs) : r.p \in AllPaths /\ Class(fs[r.p]) = r.c
     /\ \A p \in AllPaths : fs[p] # "absent" => \E r \in Set(ev.fs) : r.p = p
     /\ UNCHANGED vars

Normal == /\ l <= Len(Tr) /\ ev.e \notin {"reset", "eof"}
          /\ Step
          /\ l' = l + 1 /\ UNCHANGED rej

Reset == /\ l <= Len(Tr) /\ ev.e = "reset"
         /\ Load(Cfg(ev))
         /\ l' = l + 1 /\ UNCHANGED rej

NextReset(i) == CHOOSE j \in (i + 1)..Len(Tr) :
                  /\ Tr[j].e \in {"reset", "eof"}
                  /\ \A m \in (i + 1)..(j - 1) : Tr[m].e \notin {"reset", "eof"}

Reject == /\ l <= Len(Tr) /\ ev.e \notin {"reset", "eof"}
          /\ ~ENABLED Normal
          /\ rej' = Append(rej, [at |-> l])
          /\ l' = NextReset(l)
          /\ UNCHANGED vars

Eof == /\ l <= Len(Tr) /\ ev.e = "eof"
       /\ CSVWrite("%1$s", <<ToJson([rejected |-> rej, events |-> l])>>, IOEnv.OUT)
       /\ l' = l + 1 /\ UNCHANGED <<vars, rej>>

TNext == Normal \/ Reset \/ Reject \/ Eof
TSpec == TInit /\ [][TNext]_tvars
=============================================================================
