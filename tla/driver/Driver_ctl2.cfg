SPECIFICATION SpecLink
CONSTANTS ND = 2
 MaxIn = 1
 Pinned = FALSE
 DoCleanup = TRUE
 AtExit = TRUE
 CheckWait = TRUE
 Buffered = TRUE
 ExclTmp = TRUE
 DirIsEmpty = FALSE
 ArgCheck = TRUE
 Emit = FALSE
VIEW View
INVARIANTS P1 P2 P3 P4 P5 P6 TypeOK
CHECK_DEADLOCK FALSE
