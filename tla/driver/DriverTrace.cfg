SPECIFICATION TSpec
CONSTANTS ND = 1
 MaxIn = 3
 Pinned = FALSE
 DoCleanup = TRUE
 AtExit = TRUE
 CheckWait = TRUE
 Buffered = TRUE
 ExclTmp = TRUE
 DirIsEmpty = FALSE
 ArgCheck = TRUE
 Emit = FALSE
CHECK_DEADLOCK FALSE
