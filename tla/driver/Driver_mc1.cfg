SPECIFICATION Spec
CONSTANTS ND = 1
 MaxIn = 3
 Pinned = FALSE
 DoCleanup = TRUE
 AtExit = TRUE
 CheckWait = TRUE
 Buffered = TRUE
 ExclTmp = TRUE
 DirIsEmpty = FALSE
 ArgCheck = TRUE
 Emit = TRUE
INVARIANTS P1 P2 P3 P4 P5 P6 TypeOK
CHECK_DEADLOCK FALSE
