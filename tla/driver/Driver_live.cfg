SPECIFICATION Spec
CONSTANTS ND = 1
 MaxIn = 2
 Pinned = FALSE
 DoCleanup = TRUE
 AtExit = TRUE
 CheckWait = TRUE
 Buffered = TRUE
 ExclTmp = TRUE
 DirIsEmpty = FALSE
 ArgCheck = TRUE
 Emit = FALSE
INVARIANTS P1 P2 P3 P4 P5 P6 TypeOK
PROPERTIES Termination
CHECK_DEADLOCK FALSE
