SPECIFICATION Spec
CONSTANTS LFirst = FALSE
 Emit = FALSE
INVARIANTS OrderKept SameOutcome ASane
CHECK_DEADLOCK FALSE
