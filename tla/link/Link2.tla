------------------------------- MODULE Link2 -------------------------------
(* C15, multi-unit layer.  Two translation units are composed (one action per
   unit added), then linked in one of five configurations; the specification
   predicts whether the link succeeds and what the program prints.

   Each unit u in {1, 2} declares three shared names in one of several ways
   and has fixed accessor functions (rendered by harness/c15.py):
     g  (int object)          T   int g;            TT  int g; int g;
                              D   int g = G(u);     E   extern int g;
                              ST  static int g;     SD  static int g = G(u);
     t  (thread-local int)    T   _Thread_local int t;      D  ... = W(u);
                              E   extern _Thread_local int t;
                              SD  static _Thread_local int t = W(u);
     h  (function)            def    int h(void) { return H(u); }
                              decl   int h(void);
                              sdef   static int h(void) { ... }
                              si     static inline int h(void) { ... }
                              eidef  extern inline int h(void) { ... }  (external definition)
                              idef   inline int h(void) { ... }         (inline definition, 6.7.4p7)
   and names g inside its accessor functions through one of four scopes (field ga):
     file   the file-scope declaration is visible
     be     { extern int g; ... g ... }                     a block-scope extern (6.2.2p4: same object)
     hid    { int g = 5; { extern int g; ... g ... } }      a block-scope extern behind an automatic object:
     hids   { static int g = 5; { extern int g; ... } }     or a block-scope static: the visible prior declaration
                                                            has no linkage, so this is the external g (6.2.2p4)
   (hid/hids only where g has external linkage: next to an internal g they are undefined, 6.2.2p7).
   The prediction does not depend on ga: it is the same object.
   Level A is the summary of the unit's symbol table given by Linkage.tla
   (strong / common / undefined / local) followed by ELF symbol resolution:
     static link (default, nocommon, pic, static): two strong definitions are
       an error; one strong definition wins over common ones; common symbols
       merge into one zero-initialised object; an undefined reference without
       definition is an error.  Under -fno-common a tentative definition is a
       strong one.  Thread-local objects are never common.
     shared (unit 2 is a -fPIC -shared library, unit 1 + main the executable):
       no multiple-definition error: the executable's strong definition
       preempts the library's, else the library's strong one is used (also over
       a common symbol of the executable), else a common one (measured with
       GNU ld 2.40 on gcc objects).
   An inline definition may or may not be used by its own unit: the case is
   only in the domain when the other unit provides the external definition and
   both return the same value.                                               *)
EXTENDS Integers, Sequences, FiniteSets, TLC, Json, CSV, IOUtils

CONSTANTS Emit

Configs == {"default", "nocommon", "pic", "shared", "static"}
GK == {"T", "TT", "D", "E", "ST", "SD"}
TK == {"T", "D", "E", "SD"}
HK == {"def", "decl", "sdef", "si", "eidef", "idef"}
(* three families: one name varies over all pairs, the others stay benign *)
Benign(u) == [g |-> IF u = 1 THEN "D" ELSE "E", t |-> IF u = 1 THEN "E" ELSE "D", h |-> IF u = 1 THEN "decl" ELSE "def", ga |-> "file"]
GA == {"be", "hid", "hids"}
GAOK(k, a) == a \in {"hid", "hids"} => k \notin {"ST", "SD"}
(* the units that reach g through a block scope; they are paired with the benign other unit only *)
ScopedKinds(u) == { [Benign(u) EXCEPT !.g = k, !.ga = a] : k \in GK, a \in GA } 
UnitKinds(u) == { [Benign(u) EXCEPT !.g = k] : k \in GK } \cup { [Benign(u) EXCEPT !.t = k] : k \in TK }
                \cup { [Benign(u) EXCEPT !.h = k] : k \in HK }
                \cup { [g |-> a, t |-> b, h |-> c, ga |-> "file"] : a \in {"T", "SD"}, b \in {"D", "SD"}, c \in {"def", "si"} }

G(u) == 11 * u       W(u) == 30 + 10 * u
AnyIdef(us) == \E i \in DOMAIN us : us[i].h = "idef"
H(us, u) == IF AnyIdef(us) THEN 7 ELSE 100 + u

VARIABLES units, cfg, res
vars == <<units, cfg, res>>

(* ---- what one unit contributes for a name: strength and initial value ---- *)
GSym(k, u, c) == CASE k \in {"T", "TT"} -> [s |-> IF c = "nocommon" THEN "strong" ELSE "common", v |-> 0]
                   [] k = "D"  -> [s |-> "strong", v |-> G(u)]
                   [] k = "E"  -> [s |-> "undef", v |-> 0]
                   [] k = "ST" -> [s |-> "local", v |-> 0]
                   [] k = "SD" -> [s |-> "local", v |-> G(u)]
TSym(k, u) == CASE k = "T"  -> [s |-> "strong", v |-> 0]
                [] k = "D"  -> [s |-> "strong", v |-> W(u)]
                [] k = "E"  -> [s |-> "undef", v |-> 0]
                [] k = "SD" -> [s |-> "local", v |-> W(u)]
HSym(k, us, u) == CASE k \in {"def", "eidef"} -> [s |-> "strong", v |-> H(us, u)]
                    [] k = "decl"           -> [s |-> "undef", v |-> 0]
                    [] k \in {"sdef", "si"}  -> [s |-> "local", v |-> H(us, u)]
                    [] k = "idef"           -> [s |-> "inline", v |-> H(us, u)]

(* ---- ELF symbol resolution for one global name over two units ----
   result: [err |-> "" | "dup" | "undef", v |-> <<value seen by unit 1, by unit 2>>, same |-> same object?] *)
Resolve(s1, s2, c) ==
  LET ss     == <<s1, s2>>
      strong == { i \in 1..2 : ss[i].s = "strong" }
      common == { i \in 1..2 : ss[i].s = "common" }
      needs  == { i \in 1..2 : ss[i].s \in {"undef", "inline"} }       \* references the global symbol (possibly)
      glob   == IF c = "shared"
                THEN (IF 1 \in strong THEN <<TRUE, ss[1].v>> ELSE IF 2 \in strong THEN <<TRUE, ss[2].v>>
                      ELSE IF common # {} THEN <<TRUE, 0>> ELSE <<FALSE, 0>>)
                ELSE (IF strong # {} THEN <<TRUE, ss[CHOOSE i \in strong : TRUE].v>>
                      ELSE IF common # {} THEN <<TRUE, 0>> ELSE <<FALSE, 0>>)
      seen(i) == IF ss[i].s = "local" THEN ss[i].v ELSE glob[2]          \* "inline": same value by construction
  IN IF c # "shared" /\ Cardinality(strong) = 2 THEN [err |-> "dup", v |-> <<0, 0>>, same |-> FALSE]
     ELSE IF needs # {} /\ ~glob[1] THEN [err |-> "undef", v |-> <<0, 0>>, same |-> FALSE]
     ELSE [err |-> "", v |-> <<seen(1), seen(2)>>, same |-> ss[1].s # "local" /\ ss[2].s # "local"]

Predict(us, c) ==
  LET g == Resolve(GSym(us[1].g, 1, c), GSym(us[2].g, 2, c), c)
      t == Resolve(TSym(us[1].t, 1), TSym(us[2].t, 2), c)
      h == Resolve(HSym(us[1].h, us, 1), HSym(us[2].h, us, 2), c)
      errs == { x.err : x \in {g, t, h} } \ {""}
  IN [link |-> IF errs = {} THEN "ok" ELSE "fail",
      errs |-> errs,
      (* G line: value seen by unit 1, by unit 2, same address?, value unit 2 sees after unit 1 stored 77 *)
      gl |-> <<g.v[1], g.v[2], IF g.same THEN 1 ELSE 0, IF g.same THEN 77 ELSE g.v[2]>>,
      (* T line: main thread increments through unit 1 twice, then through unit 2; same address?; a new thread
         increments through unit 1 (fresh copy); its address differs from the main thread's *)
      tl |-> <<t.v[1] + 1, t.v[1] + 2, IF t.same THEN t.v[1] + 3 ELSE t.v[2] + 1, IF t.same THEN 1 ELSE 0, t.v[1] + 1, 1>>,
      (* H line: h() called from unit 1, from unit 2, through unit 1's and unit 2's initialised function pointers *)
      hl |-> <<h.v[1], h.v[2], h.v[1], h.v[2]>>]

(* an inline definition needs the external definition in the other unit (else whether the link
   succeeds is unspecified: gcc references the external symbol, chibicc uses its local copy) *)
(* and: two strong definitions of one name are undefined behaviour (6.9p5); a static link
   diagnoses it (predicted: "dup"), a link against a shared library silently lets the
   executable's definition preempt the library's except where the library bound its own
   reference early (gcc does for `extern inline`) - not predicted, excluded *)
BothStrong(us, c) == \/ GSym(us[1].g, 1, c).s = "strong" /\ GSym(us[2].g, 2, c).s = "strong"
                     \/ TSym(us[1].t, 1).s = "strong" /\ TSym(us[2].t, 2).s = "strong"
                     \/ HSym(us[1].h, us, 1).s = "strong" /\ HSym(us[2].h, us, 2).s = "strong"
InDomain(us, c) == /\ \A i \in 1..2 : us[i].h = "idef" => us[3 - i].h \in {"def", "eidef"}
                   /\ \A i \in 1..2 : GAOK(us[i].g, us[i].ga)
                   /\ c = "shared" => ~BothStrong(us, c)

Init == units = <<>> /\ cfg \in Configs /\ res = "-"
AddUnit(k) == /\ Len(units) < 2 /\ units' = Append(units, k) /\ UNCHANGED <<cfg, res>>
              /\ (Len(units) = 1 /\ units[1].ga # "file") => k = Benign(2)
Link == /\ Len(units) = 2 /\ res = "-" /\ InDomain(units, cfg)
        /\ res' = Predict(units, cfg).link
        /\ UNCHANGED <<units, cfg>>
        /\ Emit => CSVWrite("%1$s", <<ToJson([cfg |-> cfg, u1 |-> units[1], u2 |-> units[2], pred |-> Predict(units, cfg)])>>, IOEnv.OUT)
Next == \/ \E k \in UnitKinds(Len(units) + 1) : AddUnit(k)
        \/ \E k \in ScopedKinds(Len(units) + 1) : /\ GAOK(k.g, k.ga)
                                                  /\ Len(units) = 1 => units[1] = Benign(1)
                                                  /\ AddUnit(k)
        \/ Link
Spec == Init /\ [][Next]_vars

----------------------------------------------------------------------------
(* the property's last sentence, as a theorem about Level A: whenever the plain
   static link succeeds, the -fPIC and -static builds print the same, and so
   does the shared build unless both units define the same name strongly, or
   a strong library definition meets a tentative one of the executable (where
   the dynamic-linking rules pick differently)                              *)
ConfigIndependent ==
  (Len(units) = 2 /\ InDomain(units, "default")) =>
    LET d == Predict(units, "default") IN
    /\ Predict(units, "pic") = d /\ Predict(units, "static") = d
    /\ (d.link = "ok" /\ InDomain(units, "shared") /\ ~(units[1].g \in {"T", "TT"} /\ units[2].g = "D")) => Predict(units, "shared") = d
    /\ (d.link = "ok" /\ Predict(units, "nocommon").link = "ok") => Predict(units, "nocommon") = d
(* -fno-common only ever turns a successful link into a multiple-definition error *)
NoCommonMonotone ==
  (Len(units) = 2 /\ InDomain(units, "nocommon") /\ Predict(units, "nocommon").link = "fail" /\ Predict(units, "default").link = "ok")
       => (units[1].g \in {"T", "TT"} /\ units[2].g \in {"T", "TT", "D"}) \/ (units[2].g \in {"T", "TT"} /\ units[1].g \in {"T", "TT", "D"})
=============================================================================
