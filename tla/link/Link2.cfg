SPECIFICATION Spec
CONSTANTS Emit = FALSE
INVARIANTS ConfigIndependent NoCommonMonotone
CHECK_DEADLOCK FALSE
