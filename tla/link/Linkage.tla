------------------------------ MODULE Linkage ------------------------------
(* C15 — linkage, storage duration and symbol emission of ONE translation unit.

   A unit is a sequence of declaration events; one action per event (one call
   of parse.c global_variable() / declaration() / function()).  Every reachable
   state is a complete translation unit, so TLC's state graph is the set of
   all units of the domain, and with Emit every judged state is written out as
   a test case (the C text is rendered from `es` by harness/c15.py).

   Level A (reference): C11 6.2.2 (linkage), 6.9.2 (tentative definitions),
     6.7.4p7 (inline definitions), the ELF conventions of the x86-64 toolchain
     (-fcommon: an external tentative definition is a COMMON symbol, otherwise
     .bss; TLS objects live in .tdata/.tbss and are never common), and the
     property's own rule for `static inline`: emitted iff reachable from a root
     (an external definition or a file-scope initializer) through references.
     Computed as a pure function of the event sequence `es`.
   Level I (chibicc): new_gvar's list of Obj (`gl`, newest first, ONE Obj PER
     DECLARATION — chibicc never merges redeclarations of objects),
     global_variable()'s flags, declaration()'s anonymous globals for static
     locals, function()'s attribute merging and is_root, primary()'s
     reference booking through `current_fn` (`cur`), mark_live, scan_globals,
     and the gating of emit_data / emit_text.  Computed incrementally.
   ResetCurFn = FALSE (with everything else repaired) is D23 alone and must be
   REJECTED by TLC as well; so must SkipSizeof = TRUE (references inside sizeof
   operands not booked: wrong for VLA type names, whose length is evaluated).
   Fixed = FALSE is Level I of the pinned tree and must be REJECTED by TLC
     (sensitivity control and record of D23 and the defects found with it):
       - current_fn is never reset after function()            (D23)
       - function() overwrites is_root on every redeclaration   (D29)
       - scan_globals drops BOTH of two tentative definitions   (D30)
       - _Thread_local objects are never tentative -> redefined (D31)
       - .bss/.tbss objects get neither .type nor .size         (D32)
       - an inline definition that another declaration turns into an
         external definition stays internal                     (D33)
   (D34, block-scope `static _Thread_local` placed in .data, is outside
   Level I: the model gives anonymous objects the unit's TLS flag.)

   (Fifth round.)  Two more dimensions of the object alphabet:
     - how the TYPE of x gets complete (Unb = TRUE, family "objty"): a declarator may omit the
       array bound (`T x[];`); the object's type is then the composite type of all file-scope
       declarations (6.2.7p4), completed by the initializer (6.7.9p22) or, for a tentative
       definition that stays incomplete, one element (6.9.2p2, p5); and every defining
       declaration may carry `_Alignas(aln)` (6.7.5).  Level I keeps what chibicc keeps per
       Obj: the size its own declarator/initializer gave it and var->align, and applies the
       psABI array rule at emission time on the final type.  AlignAtCreation = TRUE (the rule
       folded into var->align when the Obj is created, i.e. before the initializer completed the
       type: seeded change C15-9) and Fixed5 = FALSE (HEAD before the fifth-round repairs: no
       composite type - the kept Obj's own incomplete type is emitted (finding
       C15-R5-composite-array-type); `_Alignas` ignored on block-scope statics (finding
       C15-R5-static-local-alignas)) must be REJECTED by TLC.
     - SCOPES (Mode = "scope"): event "F" is a function whose body nests blocks; level j of
       `blk` declares x as an automatic object "A", the parameter "P" (level 1 only), a
       block-scope static "BS"/"BSD" or a block-scope extern "BE"; the function refers to x
       at nesting level `at` (after the deeper blocks are closed).  Level A: 6.2.1p4 (the inner
       declaration hides the outer one until its block ends) and 6.2.2p4 (a block-scope extern
       denotes the object with linkage - whatever no-linkage declaration is visible).
       Level I: find_var's scope chain.  ReuseVisible = TRUE (a block-scope extern binds to
       whatever declaration of the name is visible: seeded change C15-8) must be REJECTED.

   Event generators (constant Mode):
     "obj"   all sequences of <= MaxLen events on one object name x
     "scope" [file-scope declaration of x] F-event [file-scope declaration of x | reference]
     "fn"    all sequences of <= MaxLen events on one function name f
     "graph" N static inline functions: every reference digraph x every root
             assignment {none, global function, initializer before all
             definitions, initializer right after the own definition (if
             InitAfterOwn), initializer after all definitions}             *)
EXTENDS Integers, Sequences, FiniteSets, TLC, Json, CSV, IOUtils, SequencesExt

CONSTANTS Mode, MaxLen, N, SelfLoops, InitAfterOwn, FreeKinds, Fixed, ResetCurFn, SkipSizeof, Emit,
          Unb, Fixed5, AlignAtCreation, ReuseVisible

Mx(a, b) == IF a > b THEN a ELSE b

----------------------------------------------------------------------------
(* Object types: size, natural alignment, array?  *)
Types == { [id |-> "int",    size |-> 4,  al |-> 4, arr |-> FALSE, el |-> 4],
           [id |-> "long",   size |-> 8,  al |-> 8, arr |-> FALSE, el |-> 8],
           [id |-> "char3",  size |-> 3,  al |-> 1, arr |-> TRUE,  el |-> 1],
           [id |-> "char20", size |-> 20, al |-> 1, arr |-> TRUE,  el |-> 1] }
(* the types of the family "objty" (Unb): arrays, whose bound a declarator may omit; el = element size *)
UTypes == { [id |-> "int5",   size |-> 20, al |-> 4, arr |-> TRUE,  el |-> 4],
            [id |-> "char20", size |-> 20, al |-> 1, arr |-> TRUE,  el |-> 1] }
(* the types of the family "scope" *)
STypes == { t \in Types : t.id \in {"int", "char20"} }
TInt == CHOOSE t \in Types : t.id = "int"
(* psABI: an array variable of at least 16 bytes is aligned to 16 (gcc does not
   apply this to thread-local arrays, so Level A only demands the natural
   alignment there; more alignment than demanded is always acceptable) *)
(* the rule on an object of array type t whose (final) size is sz and whose alignment is otherwise a *)
VarAlignS(t, sz, a) == IF t.arr /\ sz >= 16 THEN Mx(16, a) ELSE a
VarAlign(t) == VarAlignS(t, t.size, t.al)

(* Events.  One record shape for all kinds.
   k = "obj":  ev in T   `ty x;`            D   `ty x = v;`      E `extern ty x;`
                     ST  `static ty x;`     SD  `static ty x = v;`
                     BE  block scope `extern ty x;` (inside a function that returns &x)
                     BS  block scope `static ty x;`    BSD  block scope `static ty x = v;`
                     R   a function that returns &x (a reference from emitted code)
                     F   a function with nested blocks: level j declares x as blk[j] in
                         {"A" automatic, "P" parameter (level 1), "BS", "BSD", "BE"} and the function
                         refers to x at level `at`
               (with tls = TRUE every one of them carries _Thread_local - except A and P;
                with aln > 0 every defining one carries _Alignas(aln);
                ub = TRUE: the declarator omits the array bound, `T x[]`)
   k = "fn":   declaration/definition of function `name` with storage class
               sc in {none, static, extern}, inline specifier, and (for a
               definition) the set of functions its body references
   k = "init": a file-scope pointer-to-function object initialised with `name`                              *)
ObjE(ev) == [k |-> "obj", name |-> "x", ev |-> ev, sc |-> "-", inl |-> FALSE, def |-> FALSE, refs |-> {}, urefs |-> {},
             ub |-> FALSE, blk |-> <<>>, at |-> 0]
ObjU(ev) == [ObjE(ev) EXCEPT !.ub = TRUE]
ObjF(blk, at) == [ObjE("F") EXCEPT !.blk = blk, !.at = at]
(* A definition's body references the functions `refs` in POTENTIALLY EVALUATED expressions, all written in
   the way `kind` (field ev) says:
     "call"      r(d - 1) and a call through &r, alternating       (call, address-taking)
     "vlatype"   sizeof(char[r(d - 1) + 1])      - the operand of sizeof is a VLA type name: its length
     "vlatype2"  sizeof(char[d + 2][r(d - 1) + 1])   expression IS evaluated (C11 6.5.3.4p2, 6.7.6.2p5)
     "vlabound"  { char a[r(d - 1) + 1]; ... }   - bound of a block-scope VLA
   and the functions `urefs` only in operands that are NOT evaluated: sizeof(u(d - 1)) and
   _Alignof(char[sizeof(u(d - 1))]).  C11 6.9p3 does not count those as a use of u. *)
Kinds == {"call", "vlatype", "vlatype2", "vlabound"}
SizeofKinds == {"vlatype", "vlatype2"}
(* (fifth round) ... and through a BLOCK-SCOPE DECLARATION of the callee:
     "blkcall"   { int r(int); v += r(d - 1); }
     "hidcall"   { int r = d; { int r(int); v += r(d - 1); } v += r - d; }   behind an automatic object of that name
   6.2.2p4/p5: the block-scope declaration denotes the function with linkage (behind an object without linkage it
   has external linkage, so "hidcall" is only defined for a callee with external linkage, 6.2.2p7);
   6.7.4p7 speaks of FILE-SCOPE declarations: a block-scope declaration without `inline` does not turn an inline
   definition into an external one.  Level A needs no new rule: these are references, not elements of FDecls. *)
BlockKinds == {"blkcall", "hidcall"}
FnEK(n, sc, inl, def, refs, urefs, kind) ==
  [k |-> "fn", name |-> n, ev |-> kind, sc |-> sc, inl |-> inl, def |-> def, refs |-> refs, urefs |-> urefs,
   ub |-> FALSE, blk |-> <<>>, at |-> 0]
FnE(n, sc, inl, def, refs) == FnEK(n, sc, inl, def, refs, {}, "call")
InitE(n) == [k |-> "init", name |-> n, ev |-> "-", sc |-> "-", inl |-> FALSE, def |-> FALSE, refs |-> {}, urefs |-> {},
             ub |-> FALSE, blk |-> <<>>, at |-> 0]

VARIABLES es,        \* the unit: events so far
          fcommon, ty, tls,   \* unit parameters: -fcommon?, type of x, _Thread_local on every declaration of x
          aln,       \* unit parameter: 0, or the _Alignas(aln) carried by every defining declaration of x
          gl,        \* Level I: globals list of object Obj records, newest first
          xref,      \* Level I: some emitted function refers to an Obj that is emitted as the symbol x
          fns,       \* Level I: function name -> Obj record
          cur,       \* Level I: current_fn ("" = NULL)
          inits,     \* Level I: targets of relocations in emitted data (file-scope initializers)
          st         \* generator bookkeeping (graph mode)
vars == <<es, fcommon, ty, tls, aln, gl, xref, fns, cur, inits, st>>

(* symbol-table rows *)
None == [st |-> "none", bind |-> "-", type |-> "-", sect |-> "-", size |-> 0, align |-> 0]
Und  == [st |-> "und", bind |-> "GLOBAL", type |-> "-", sect |-> "UND", size |-> 0, align |-> 0]
Dup  == [st |-> "dup", bind |-> "-", type |-> "-", sect |-> "-", size |-> 0, align |-> 0]   \* symbol defined twice: assembler error
DefRow(bind, type, sect, size, align) ==
  [st |-> "def", bind |-> bind, type |-> type, sect |-> sect, size |-> size, align |-> align]

----------------------------------------------------------------------------
(* ================= Level A: objects (C11 6.2.2, 6.9.2) ================= *)
IsObj(e, evs) == e.k = "obj" /\ e.ev \in evs
(* scopes (6.2.1p4): the declaration of x that is visible at level j of the nested blocks `blk` is
   the one of level j itself - every level declares x, and an inner declaration hides the outer ones
   until its block ends.  6.2.2p4: a block-scope `extern` declares the object with linkage; which
   linkage is decided by the visible prior declaration ONLY IF THAT ONE HAS LINKAGE, so behind an
   automatic object, a parameter or a block-scope static it is the external x.
   "sym" = the object with linkage named x, "loc" = an object without linkage *)
BindA(blk, j) == IF blk[j] = "BE" THEN "sym" ELSE "loc"
HasBE(blk) == \E j \in DOMAIN blk : blk[j] = "BE"
(* a block-scope extern behind a declaration without linkage: external linkage whatever the file scope says *)
HiddenBE(blk) == \E j \in DOMAIN blk : blk[j] = "BE" /\ \E i \in 1..(j - 1) : blk[i] # "BE"
IsF(e) == e.k = "obj" /\ e.ev = "F"
LinkDecls(s) == SelectSeq(s, LAMBDA e : IsObj(e, {"T", "D", "E", "ST", "SD", "BE"}) \/ (IsF(e) /\ HasBE(e.blk)))
InternalObj(s) == LET d == LinkDecls(s) IN Len(d) > 0 /\ d[1].ev \in {"ST", "SD"}    \* 6.2.2p3-p5
HasInit(s) == \E i \in DOMAIN s : IsObj(s[i], {"D", "SD"})
DefinedObj(s) == \E i \in DOMAIN s : IsObj(s[i], {"T", "D", "ST", "SD"})             \* 6.9.2p2
ReferencedObj(s) == \E i \in DOMAIN s : IsObj(s[i], {"R", "BE"}) \/ (IsF(s[i]) /\ BindA(s[i].blk, s[i].at) = "sym")
(* the type of x (6.2.7p4 composite type of the file-scope declarations, 6.7.9p22 completion by the
   initializer; 6.9.2p2 + p5: a tentative definition whose type is still incomplete at the end of the
   unit behaves as if it had the initializer {0}: one element) *)
HasBound(s) == \/ \E i \in DOMAIN s : IsObj(s[i], {"T", "D", "E", "ST", "SD"}) /\ ~s[i].ub
               \/ HasInit(s)
SizeA(s) == IF ~ty.arr \/ HasBound(s) THEN ty.size ELSE ty.el
(* (finding C15-R5-composite-array-type, repaired by fix-R5-composite-array-type) units in which a tentative
   definition of x omits the bound and no initializer completes the type: chibicc emitted the tentative
   definition it kept with ITS OWN incomplete type (size -1 x element size).  Flagged in the emitted cases so
   that the replay classifies discrepancies on x in these units narrowly. *)
KnownUnboundTentative(s) == ty.arr /\ ~HasInit(s) /\ \E i \in DOMAIN s : IsObj(s[i], {"T"}) /\ s[i].ub
(* alignment demanded of an object of the unit's type whose size is sz: the psABI array rule (not demanded
   of thread-local arrays: gcc does not apply it there), at least the _Alignas of its definition (6.7.5) *)
AlignA(sz) == Mx(aln, IF tls THEN ty.al ELSE VarAlignS(ty, sz, ty.al))
VisibleObj(s) == \E i \in DOMAIN s : IsObj(s[i], {"T", "D", "E", "ST", "SD"})

(* may object event e follow s?  (constraints and undefined behaviour excluded:
   6.2.2p7 internal+external linkage, 6.9p5 two initializers, use before declaration) *)
ObjOK(s, e) ==
  LET d == LinkDecls(s) IN
  CASE e.ev \in {"T", "D"}   -> (Len(d) = 0 \/ ~InternalObj(s)) /\ (e.ev = "D" => ~HasInit(s))
    [] e.ev \in {"ST", "SD"} -> (Len(d) = 0 \/ InternalObj(s)) /\ (e.ev = "SD" => ~HasInit(s))
    [] e.ev = "R"            -> VisibleObj(s)
    [] e.ev = "F"            -> HiddenBE(e.blk) => ~InternalObj(s)       \* 6.2.2p7: internal and external linkage
    [] OTHER                 -> TRUE

RowObjA(s) ==
  IF ~DefinedObj(s) THEN (IF ReferencedObj(s) THEN Und ELSE None)
  ELSE LET int  == InternalObj(s)
           sect == IF tls THEN (IF HasInit(s) THEN "tdata" ELSE "tbss")
                   ELSE IF HasInit(s) THEN "data"
                   ELSE IF fcommon /\ ~int THEN "common" ELSE "bss"
       IN DefRow(IF int THEN "LOCAL" ELSE "GLOBAL", IF tls THEN "TLS" ELSE "OBJECT", sect, SizeA(s), AlignA(SizeA(s)))

(* objects with no linkage and static storage duration (6.2.2p6, 6.2.4p3): one
   anonymous local object per block-scope `static` declaration *)
IsBS(b) == b \in {"BS", "BSD"}
AnonEvs(s) == FoldLeft(LAMBDA acc, e : acc \o (IF IsObj(e, {"BS", "BSD"}) THEN <<e.ev>>
                                               ELSE IF IsF(e) THEN SelectSeq(e.blk, IsBS) ELSE <<>>), <<>>, s)
AnonA(s) ==
  LET b == AnonEvs(s)
  IN [i \in DOMAIN b |-> [sect |-> IF tls THEN (IF b[i] = "BSD" THEN "tdata" ELSE "tbss")
                                   ELSE (IF b[i] = "BSD" THEN "data" ELSE "bss"),
                          size |-> ty.size, align |-> AlignA(ty.size)]]

(* ================= Level I: objects ================= *)
(* global_variable() (file scope and block-scope extern) / declaration() (block-scope static): one Obj.
   size0 = the size of the declared type at new_gvar()/new_anon_gvar() time (-1: array of unknown bound),
   size  = the size of the Obj's OWN type once the declaration is parsed (gvar_initializer replaces var->ty by
           the type the initializer completed),
   al    = var->align: the element alignment, or the _Alignas of the declaration (pinned: not for block-scope
           statics).  AlignAtCreation (seeded C15-9): the psABI array rule folded in here, on size0. *)
NewObjI(e, anonname) ==
  LET tent  == IF Fixed THEN TRUE ELSE ~tls        \* pinned: `else if (!attr->is_extern && !attr->is_tls)`
      init  == e.ev \in {"D", "SD", "BSD"}
      size0 == IF ty.arr /\ e.ub THEN -1 ELSE ty.size
      size  == IF init THEN ty.size ELSE size0
      al0   == IF aln > 0 /\ e.ev \notin {"E", "BE"} /\ (e.ev \in {"BS", "BSD"} => Fixed5) THEN aln ELSE ty.al
      al    == IF AlignAtCreation THEN VarAlignS(ty, size0, al0) ELSE al0
      O(name, def, static, t) == [name |-> name, def |-> def, static |-> static, tent |-> t, init |-> init,
                                  size |-> size, al |-> al]
  IN CASE e.ev = "T"  -> O("x", TRUE, FALSE, tent)
       [] e.ev = "D"  -> O("x", TRUE, FALSE, FALSE)
       [] e.ev \in {"E", "BE"} -> O("x", FALSE, FALSE, FALSE)
       [] e.ev = "ST" -> O("x", TRUE, TRUE, tent)
       [] e.ev = "SD" -> O("x", TRUE, TRUE, FALSE)
       [] e.ev \in {"BS", "BSD"} -> O(anonname, TRUE, TRUE, FALSE)      \* new_anon_gvar

(* find_var(): the scope chain.  Level j of the nested blocks holds one VarScope for x; a block-scope
   extern is a fresh Obj named x without definition (global_variable), so a reference to it is a reference to
   the symbol x.  ReuseVisible (seeded C15-8): a block-scope extern reuses the Obj of whatever declaration of
   the name find_var() returns, provided the type kinds agree (a parameter of array type is a pointer). *)
RECURSIVE BindI(_, _)
BindI(blk, j) == IF blk[j] # "BE" THEN "loc"
                 ELSE IF ReuseVisible /\ j > 1 /\ BindI(blk, j - 1) = "loc" /\ ~(blk[j - 1] = "P" /\ ty.arr) THEN "loc"
                 ELSE "sym"
(* the Objs (newest first) a function with nested blocks adds to the globals list *)
FObjsI(e) == FoldLeft(LAMBDA acc, j :
                        IF e.blk[j] \in {"BS", "BSD"} \/ (e.blk[j] = "BE" /\ BindI(e.blk, j) = "sym")
                        THEN <<NewObjI([e EXCEPT !.ev = e.blk[j]], ".L" \o ToString(Len(gl) + j))>> \o acc ELSE acc,
                      <<>>, [j \in 1..Len(e.blk) |-> j])

(* scan_globals(): indices of gl that survive.  Pinned: a tentative definition
   is dropped when ANY other definition of the name exists — including another
   tentative one, so `int x; int x;` loses both (the pinned loop walks a list
   it is relinking; as long as nothing of that name has been kept it still sees
   the original list, which is the case that matters here).  Repaired: dropped
   only for a non-tentative definition or an earlier (list order) tentative one. *)
KeptI == { i \in DOMAIN gl :
           ~(gl[i].tent /\ \E j \in DOMAIN gl : /\ j # i /\ gl[j].def /\ gl[j].name = gl[i].name
                                                 /\ (Fixed => (~gl[j].tent \/ j < i))) }
(* emit_data() for one Obj.  The size is the one of var->ty; repaired (Fixed5): an Obj whose own type is an
   array of unknown bound has got the composite type before (any declaration of the name with a complete
   type; a tentative definition with none: one element).  The psABI array rule is applied here, on that type. *)
DataRowI(o) ==
  LET viaComm == fcommon /\ o.tent /\ ~tls                      \* `.comm` (repaired: never for TLS)
      sect    == IF viaComm THEN (IF o.static THEN "bss" ELSE "common")   \* .local + .comm = .bss
                 ELSE IF o.init THEN (IF tls THEN "tdata" ELSE "data")
                 ELSE (IF tls THEN "tbss" ELSE "bss")
      sized   == viaComm \/ o.init \/ Fixed                      \* pinned: no .type/.size on the .bss/.tbss path
      fsize   == IF o.size >= 0 THEN o.size
                 ELSE IF ~Fixed5 THEN -1
                 ELSE IF \E j \in DOMAIN gl : gl[j].name = o.name /\ gl[j].size >= 0 THEN ty.size
                 ELSE IF o.tent THEN ty.el ELSE -1
      align   == IF AlignAtCreation THEN o.al ELSE VarAlignS(ty, fsize, o.al)
  IN DefRow(IF o.static THEN "LOCAL" ELSE "GLOBAL",
            IF tls THEN "TLS" ELSE IF sized THEN "OBJECT" ELSE "NOTYPE",
            sect, IF sized THEN fsize ELSE 0, align)
RowObjI ==
  LET rows == { i \in KeptI : gl[i].def /\ gl[i].name = "x" }
  IN IF rows = {} THEN (IF xref THEN Und ELSE None)       \* referenced by emitted code through an Obj named x?
     ELSE IF Cardinality(rows) > 1 THEN Dup
     ELSE DataRowI(gl[CHOOSE i \in rows : TRUE])
AnonI ==
  LET idx == SelectSeq([i \in 1..Len(gl) |-> Len(gl) + 1 - i],          \* creation order
                       LAMBDA i : i \in KeptI /\ gl[i].name # "x" /\ gl[i].def)
  IN [k \in DOMAIN idx |-> LET r == DataRowI(gl[idx[k]]) IN [sect |-> r.sect, size |-> ty.size, align |-> r.align]]

----------------------------------------------------------------------------
(* ================= Level A: functions (6.2.2, 6.7.4, 6.9) ================= *)
IsFn(e, n) == e.k = "fn" /\ e.name = n
FDecls(s, n) == SelectSeq(s, LAMBDA e : IsFn(e, n))
FNames(s) == { s[i].name : i \in { j \in DOMAIN s : s[j].k = "fn" } }
InternalFn(s, n) == Len(FDecls(s, n)) > 0 /\ FDecls(s, n)[1].sc = "static"                        \* 6.2.2p3; later declarations inherit (p4, p5)
HasDef(s, n) == \E i \in DOMAIN s : IsFn(s[i], n) /\ s[i].def
AllInline(s, n) == \A i \in DOMAIN s : IsFn(s[i], n) => s[i].inl
AnyInline(s, n) == \E i \in DOMAIN s : IsFn(s[i], n) /\ s[i].inl
(* 6.7.4p7: all file-scope declarations `inline` without `extern` => inline definition, no external one *)
InlineDefn(s, n) == ~InternalFn(s, n) /\ \A i \in DOMAIN s : IsFn(s[i], n) => (s[i].inl /\ s[i].sc # "extern")
ExtDef(s, n) == ~InternalFn(s, n) /\ HasDef(s, n) /\ ~InlineDefn(s, n)
Body(s, n) == UNION { s[i].refs : i \in { j \in DOMAIN s : IsFn(s[j], n) /\ s[j].def } }      \* evaluated references
UBody(s, n) == UNION { s[i].urefs : i \in { j \in DOMAIN s : IsFn(s[j], n) /\ s[j].def } }    \* unevaluated ones
InitTargets(s) == { s[i].name : i \in { j \in DOMAIN s : s[j].k = "init" } }
RootsA(s) == { n \in FNames(s) : ExtDef(s, n) } \cup InitTargets(s)
RECURSIVE ClosureA(_, _)
ClosureA(s, S) == LET S2 == S \cup UNION { Body(s, n) : n \in S \cap FNames(s) }
                  IN IF S2 = S THEN S ELSE ClosureA(s, S2)
ReachA(s) == ClosureA(s, RootsA(s))      \* functions referenced (in evaluated code) by something that must be emitted
(* functions that are at most named in unevaluated operands of emitted code, or referenced by such a
   function: they need not be emitted (gcc does not), emitting them is harmless (chibicc does) - but
   whatever is emitted must not leave an undefined reference behind *)
RECURSIVE ClosureM(_, _)
ClosureM(s, S) == LET S2 == S \cup UNION { Body(s, n) \cup UBody(s, n) : n \in S \cap FNames(s) }
                  IN IF S2 = S THEN S ELSE ClosureM(s, S2)
MayA(s) == ClosureM(s, RootsA(s))
RefdAnywhere(s) == InitTargets(s) \cup UNION { Body(s, n) : n \in FNames(s) }

FnOK(s, e) ==                           \* may fn event e follow s?
  /\ e.def => ~HasDef(s, e.name)                                           \* 6.9p3/p5
  /\ e.sc = "static" => (Len(FDecls(s, e.name)) = 0 \/ InternalFn(s, e.name))  \* 6.2.2p7
  /\ e.refs \cup e.urefs \subseteq FNames(s) \cup {e.name}                    \* declared before use
  /\ e.ev = "hidcall" => \A r \in e.refs : ~InternalFn(s, r)                  \* 6.2.2p7
InitOK(s, e) == e.name \in FNames(s)

(* a unit is judged when it is a valid complete unit: every inline function is
   defined (6.7.4p7) and no internal function is used without a definition (6.9p3) *)
JudgedFn(s) == \A n \in FNames(s) :
                 /\ AnyInline(s, n) => HasDef(s, n)
                 /\ (InternalFn(s, n) /\ ~HasDef(s, n)) => n \notin RefdAnywhere(s)

(* "nonglobal": an inline definition — the unit must not define the symbol
   GLOBAL (using the inline definition as a local copy, or calling the external
   one, are both allowed by 6.7.4p7: gcc does the latter, chibicc the former).
   "optlocal": an unreferenced internal function that is not declared inline on
   every declaration may or may not be emitted (gcc -O0 keeps `static` ones).   *)
RowFnA3(s, n, reach, may) ==
  IF ExtDef(s, n) THEN DefRow("GLOBAL", "FUNC", "text", 0, 0)
  ELSE IF ~InternalFn(s, n) /\ HasDef(s, n) THEN [None EXCEPT !.st = "nonglobal"]
  ELSE IF ~InternalFn(s, n) THEN (IF n \in reach THEN Und ELSE IF n \in may THEN [None EXCEPT !.st = "optund"] ELSE None)
  ELSE IF HasDef(s, n) THEN (IF n \in reach THEN DefRow("LOCAL", "FUNC", "text", 0, 0)
                             ELSE IF n \in may THEN [None EXCEPT !.st = "optlocal"]
                             ELSE IF AllInline(s, n) THEN None
                             ELSE [None EXCEPT !.st = "optlocal"])
  ELSE None
RowFnA2(s, n, reach) == RowFnA3(s, n, reach, MayA(s))
RowFnA(s, n) == RowFnA3(s, n, ReachA(s), MayA(s))

Match(i, a) == CASE a.st \in {"nonglobal"} -> i.st \in {"none", "und"} \/ (i.st = "def" /\ i.bind = "LOCAL")
                 [] a.st = "optlocal"     -> i.st = "none" \/ (i.st = "def" /\ i.bind = "LOCAL")
                 [] a.st = "optund"       -> i.st \in {"none", "und"}
                 [] OTHER                 -> i = a

(* D33 (pinned tree; repaired): chibicc decided "static" when the FIRST declaration is a bare
   `inline` and a later `extern`/non-inline declaration did not undo it.  The units of this
   class are flagged in the emitted cases so that the replay classifies them narrowly. *)
KnownInlineExt(s, n) == Len(FDecls(s, n)) > 0 /\ ExtDef(s, n) /\ FDecls(s, n)[1].inl /\ FDecls(s, n)[1].sc = "none"
(* functions that are also declared in a block scope (flagged in the emitted cases: the replay classifies
   discrepancies on them narrowly) *)
BlockDeclared(s, n) == \E i \in DOMAIN s : s[i].k = "fn" /\ s[i].def /\ s[i].ev \in BlockKinds /\ n \in s[i].refs

(* ================= Level I: functions ================= *)
(* function(): find_func / new_gvar, attribute merging, is_root, current_fn *)
FnStepI(e) ==
  LET old == e.name \in DOMAIN fns
      (* repaired (D33): is_inline_only remembers that `static` came from a bare `inline`; a later
         declaration without `inline` or with `extern` makes the definition external (6.7.4p7) *)
      undo == Fixed /\ old /\ fns[e.name].ionly /\ e.sc # "static" /\ (~e.inl \/ e.sc = "extern")
      f0  == IF old THEN [fns[e.name] EXCEPT !.def = @ \/ e.def,
                                             !.ionly = @ /\ ~undo,
                                             !.static = @ /\ ~undo]
             ELSE [def |-> e.def, static |-> e.sc = "static" \/ (e.inl /\ e.sc # "extern"),
                   inline |-> e.inl, ionly |-> e.inl /\ e.sc = "none", root |-> FALSE, refs |-> {}]
      f1  == [f0 EXCEPT !.root = (Fixed /\ @) \/ ~(f0.static /\ f0.inline)]   \* pinned: plain assignment
      (* primary() books EVERY identifier that names a function on current_fn = fn, whatever the
         context.  SkipSizeof = TRUE is a parser that skips the booking inside the operands of
         sizeof/_Alignof (seeded change C15-4): right for urefs, wrong for VLA type names *)
      booked == IF SkipSizeof THEN (IF e.ev \in SizeofKinds THEN {} ELSE e.refs)
                ELSE e.refs \cup e.urefs
      (* function() is also called for a block-scope declaration `int r(int);`: it found the Obj of r.  Before the
         fifth-round repair it applied the 6.7.4p7 rule there too (a declaration without `inline`...), making an
         inline definition external and a root (finding C15-R5-block-declaration-makes-inline-external).
         (It also did not enter the declaration into the block's scope, so that behind an object of the same name
         the call was rejected as "not a function": finding C15-R5-block-function-declaration-hidden; a rejected
         unit has no Level I, the replay reports it.) *)
      blk(n) == e.def /\ e.ev \in BlockKinds /\ n \in e.refs /\ n # e.name /\ ~Fixed5 /\ fns[n].ionly
      f2  == IF e.def THEN [f1 EXCEPT !.refs = @ \cup booked] ELSE f1
  IN /\ fns' = [n \in DOMAIN fns \cup {e.name} |-> IF n = e.name THEN f2
                                                    ELSE IF blk(n) THEN [fns[n] EXCEPT !.ionly = FALSE, !.static = FALSE, !.root = TRUE]
                                                    ELSE fns[n]]
     /\ cur' = IF e.def THEN (IF Fixed /\ ResetCurFn THEN "" ELSE e.name) ELSE cur   \* repaired: current_fn = NULL after the body
     /\ UNCHANGED <<gl, inits>>
(* gvar_initializer -> primary(): booked on current_fn if set, else the target becomes a root *)
InitStepI(e) ==
  /\ fns' = IF cur # "" THEN [fns EXCEPT ![cur].refs = @ \cup {e.name}]
            ELSE [fns EXCEPT ![e.name].root = TRUE]
  /\ inits' = inits \cup {e.name}
  /\ UNCHANGED <<gl, cur>>
(* mark_live() from every is_root function *)
RECURSIVE ClosureI(_)
ClosureI(S) == LET S2 == S \cup UNION { fns[n].refs \cap DOMAIN fns : n \in S }
               IN IF S2 = S THEN S ELSE ClosureI(S2)
LiveI == ClosureI({ n \in DOMAIN fns : fns[n].root })
EmittedI == { n \in DOMAIN fns : fns[n].def /\ n \in LiveI }                 \* emit_text gating
RefdByEmittedI == inits \cup UNION { Body(es, n) : n \in EmittedI }           \* what the assembler sees referenced
RowFnI(n) == IF n \in EmittedI THEN DefRow(IF fns[n].static THEN "LOCAL" ELSE "GLOBAL", "FUNC", "text", 0, 0)
             ELSE IF n \in RefdByEmittedI THEN Und ELSE None

----------------------------------------------------------------------------
Case(s) == [mode |-> IF Mode = "scope" THEN "obj" ELSE Mode, fcommon |-> fcommon, ty |-> ty.id, tls |-> tls, aln |-> aln, es |-> s,
            objrow |-> IF Mode \in {"obj", "scope"} THEN RowObjA(s) ELSE None,
            objcls |-> IF Mode = "obj" /\ KnownUnboundTentative(s) THEN "tentative-array-of-unknown-bound" ELSE "",
            anon |-> IF Mode \in {"obj", "scope"} THEN AnonA(s) ELSE <<>>,
            fnrows |-> LET reach == ReachA(s)
                           may   == MayA(s)
                       IN { [name |-> n, row |-> RowFnA3(s, n, reach, may), known |-> KnownInlineExt(s, n), blk |-> BlockDeclared(s, n)] : n \in FNames(s) }]
HasF(s) == \E i \in DOMAIN s : IsF(s[i])
Out(s) == (Emit /\ JudgedFn(s) /\ (Mode = "scope" => HasF(s))) => CSVWrite("%1$s", <<ToJson(Case(s))>>, IOEnv.OUT)

StepObj(e) == /\ es' = Append(es, e)
              /\ gl' = CASE e.ev = "R" -> gl
                         [] e.ev = "F" -> FObjsI(e) \o gl
                         [] OTHER      -> <<NewObjI(e, ".L" \o ToString(Len(gl)))>> \o gl
              /\ xref' = (xref \/ e.ev \in {"R", "BE"} \/ (e.ev = "F" /\ BindI(e.blk, e.at) = "sym"))
              /\ UNCHANGED <<fcommon, ty, tls, aln, fns, cur, inits, st>>
              /\ Out(es')
StepFn(e, st2) == /\ es' = Append(es, e)
                  /\ IF e.k = "fn" THEN FnStepI(e) ELSE InitStepI(e)
                  /\ st' = st2
                  /\ UNCHANGED <<fcommon, ty, tls, aln, xref>>
                  /\ Out(es')

Idx == ToString(Len(es) + 1)
FnAlphabet ==
  { FnE("f", sc, inl, def, {}) : sc \in {"none", "static", "extern"}, inl \in BOOLEAN, def \in BOOLEAN }
  \cup { FnEK("r" \o Idx, "none", FALSE, TRUE, {"f"}, {}, k) : k \in Kinds \cup BlockKinds }   \* a global function referencing f, in each way: a root
  \cup { FnEK("v" \o Idx, "none", FALSE, TRUE, {}, {"f"}, "call"),               \* a global function naming f in unevaluated operands only
         FnE("u" \o Idx, "static", TRUE, TRUE, {"f"}),     \* an unreferenced static inline calling f: NOT a root
         InitE("f") }                                       \* a file-scope initializer naming f: a root

S(i) == "s" \o ToString(i)
KindSeq == <<"call", "vlatype", "vlabound", "vlatype2">>
DefKinds(i) == IF FreeKinds THEN Kinds ELSE {KindSeq[((i - 1) % 4) + 1]}     \* fixed rotation unless FreeKinds
DefURefs(i) == IF FreeKinds THEN SUBSET ((1..N) \ {i}) ELSE {{}}
Callees(i) == SUBSET (IF SelfLoops THEN 1..N ELSE (1..N) \ {i})
GraphNext ==
  \/ /\ st.ph = "proto"
     /\ StepFn(FnE(S(Len(es) + 1), "static", TRUE, FALSE, {}),
               IF Len(es) + 1 = N THEN [st EXCEPT !.ph = "ib"] ELSE st)
  \/ /\ st.ph = "ib"                          \* initializer before any function definition
     /\ \E j \in st.c..N : StepFn(InitE(S(j)), [st EXCEPT !.c = j + 1, !.rooted = @ \cup {j}])
  \/ /\ st.ph \in {"ib", "def"} /\ st.d < N   \* definition of s(d+1) with its callees
     /\ \E C \in Callees(st.d + 1), kd \in DefKinds(st.d + 1), U \in DefURefs(st.d + 1) :
          StepFn(FnEK(S(st.d + 1), "static", TRUE, TRUE, {S(j) : j \in C}, {S(j) : j \in U \ C}, kd),
                 [st EXCEPT !.ph = "def", !.d = @ + 1, !.c = 1, !.fresh = TRUE])
  \/ /\ InitAfterOwn /\ st.ph = "def" /\ st.fresh /\ st.d \notin st.rooted      \* initializer right after the own definition
     /\ StepFn(InitE(S(st.d)), [st EXCEPT !.fresh = FALSE, !.rooted = @ \cup {st.d}])
  \/ /\ st.ph = "def" /\ st.d = N             \* initializer after all definitions
     /\ \E j \in st.c..N : /\ j \notin st.rooted /\ ~(st.fresh /\ j = N)
                           /\ StepFn(InitE(S(j)), [st EXCEPT !.c = j + 1, !.fresh = FALSE, !.rooted = @ \cup {j}])
  \/ /\ st.ph = "def" /\ st.d = N             \* a global function referencing R: the last event
     /\ \E R \in SUBSET ((1..N) \ st.rooted), kd \in (IF N <= 3 THEN {"call", "vlatype"} ELSE {"vlatype"}) :
          StepFn(FnEK("user", "none", FALSE, TRUE, {S(j) : j \in R}, {}, kd), [st EXCEPT !.ph = "done"])

(* family "objty" (Mode = "obj", Unb): declarations with (ObjE) and without (ObjU) the array bound; a tentative
   definition with internal linkage and a block-scope static without initializer must be complete (6.9.2p3,
   6.7p7); block-scope externs always omit the bound here (whether a bound that only a block-scope
   declaration gives completes the file-scope type is not judged) *)
ObjAlphabet == IF Unb THEN { ObjE(ev) : ev \in {"T", "D", "E", "ST", "SD", "BS", "BSD"} }
                           \cup { ObjU(ev) : ev \in {"T", "D", "E", "SD", "BE", "BSD"} }
               ELSE { ObjE(ev) : ev \in {"T", "D", "E", "ST", "SD", "BE", "BS", "BSD", "R"} }
(* family "scope": one function with two nested levels, between at most one file-scope declaration before
   and one file-scope declaration or reference after it *)
FAlphabet == { ObjF(<<o, i>>, a) : o \in {"A", "P", "BS", "BSD", "BE"}, i \in {"BE", "BS", "A"}, a \in 1..2 }
ScopeNext ==
  \/ /\ es = <<>> /\ \E ev \in {"T", "D", "E", "ST", "SD"} : StepObj(ObjE(ev))
  \/ /\ ~HasF(es) /\ \E e \in FAlphabet : ObjOK(es, e) /\ StepObj(e)
  \/ /\ es # <<>> /\ IsF(es[Len(es)])
     /\ \E ev \in {"T", "D", "E", "ST", "SD", "R"} : ObjOK(es, ObjE(ev)) /\ StepObj(ObjE(ev))

Init == /\ es = <<>> /\ gl = <<>> /\ fns = [n \in {} |-> 0] /\ cur = "" /\ inits = {} /\ xref = FALSE
        /\ st = [ph |-> IF N > 0 THEN "proto" ELSE "done", d |-> 0, c |-> 1, rooted |-> {}, fresh |-> FALSE]
        /\ IF Mode = "obj" THEN /\ fcommon \in BOOLEAN /\ tls \in BOOLEAN
                                /\ IF Unb THEN ty \in UTypes /\ aln \in (IF tls THEN {0} ELSE {0, 32}) ELSE ty \in Types /\ aln = 0
           ELSE IF Mode = "scope" THEN fcommon \in BOOLEAN /\ tls \in BOOLEAN /\ ty \in STypes /\ aln = 0
           ELSE fcommon = TRUE /\ ty = TInt /\ tls = FALSE /\ aln = 0

Next == \/ /\ Mode = "obj" /\ Len(es) < MaxLen
           /\ \E e \in ObjAlphabet : ObjOK(es, e) /\ StepObj(e)
        \/ Mode = "scope" /\ ScopeNext
        \/ /\ Mode = "fn" /\ Len(es) < MaxLen
           /\ \E e \in FnAlphabet : /\ IF e.k = "fn" THEN FnOK(es, e) ELSE InitOK(es, e)
                                    /\ StepFn(e, st)
        \/ Mode = "graph" /\ GraphNext
Spec == Init /\ [][Next]_vars

----------------------------------------------------------------------------
(* Level I = Level A *)
(* alignment: exactly the demanded one for a common symbol (it is the symbol's
   value), otherwise any multiple of it *)
RowsAgree(i, a) == /\ [i EXCEPT !.align = 0] = [a EXCEPT !.align = 0]
                   /\ a.sect = "common" => i.align = a.align
                   /\ a.st = "def" => i.align % a.align = 0
AnonAgree(i, a) == /\ Len(i) = Len(a)
                   /\ \A k \in DOMAIN i : i[k].sect = a[k].sect /\ i[k].size = a[k].size /\ i[k].align % a[k].align = 0
ObjRefines == Mode \in {"obj", "scope"} => (RowsAgree(RowObjI, RowObjA(es)) /\ AnonAgree(AnonI, AnonA(es)))
FnRefines  == JudgedFn(es) =>
                LET reach == ReachA(es)              \* evaluated once per state
                    may   == MayA(es)
                    live  == LiveI
                    emit  == { n \in DOMAIN fns : fns[n].def /\ n \in live }
                    refd  == inits \cup UNION { Body(es, n) : n \in emit }
                    rowI(n) == IF n \in emit THEN DefRow(IF fns[n].static THEN "LOCAL" ELSE "GLOBAL", "FUNC", "text", 0, 0)
                               ELSE IF n \in refd THEN Und ELSE None
                IN \A n \in FNames(es) : Match(rowI(n), RowFnA3(es, n, reach, may))
(* sanity of Level A: a symbol is common only under -fcommon, never when
   initialised, internal or thread-local; internal <=> LOCAL *)
AWellFormed ==
  LET r == RowObjA(es) IN
  /\ r.sect = "common" => (fcommon /\ ~tls /\ r.bind = "GLOBAL" /\ ~HasInit(es))
  /\ r.st = "def" => (r.bind = "LOCAL") = InternalObj(es)
=============================================================================
