------------------------------ MODULE Linkage ------------------------------
(* C15 — linkage, storage duration and symbol emission of ONE translation unit.

   A unit is a sequence of declaration events; one action per event (one call
   of parse.c global_variable() / declaration() / function()).  Every reachable
   state is a complete translation unit, so TLC's state graph is the set of
   all units of the domain, and with Emit every judged state is written out as
   a test case (the C text is rendered from `es` by harness/c15.py).

   Level A (reference): C11 6.2.2 (linkage), 6.9.2 (tentative definitions),
     6.7.4p7 (inline definitions), the ELF conventions of the x86-64 toolchain
     (-fcommon: an external tentative definition is a COMMON symbol, otherwise
     .bss; TLS objects live in .tdata/.tbss and are never common), and the
     property's own rule for `static inline`: emitted iff reachable from a root
     (an external definition or a file-scope initializer) through references.
     Computed as a pure function of the event sequence `es`.
   Level I (chibicc): new_gvar's list of Obj (`gl`, newest first, ONE Obj PER
     DECLARATION — chibicc never merges redeclarations of objects),
     global_variable()'s flags, declaration()'s anonymous globals for static
     locals, function()'s attribute merging and is_root, primary()'s
     reference booking through `current_fn` (`cur`), mark_live, scan_globals,
     and the gating of emit_data / emit_text.  Computed incrementally.
   ResetCurFn = FALSE (with everything else repaired) is D23 alone and must be
   REJECTED by TLC as well; so must SkipSizeof = TRUE (references inside sizeof
   operands not booked: wrong for VLA type names, whose length is evaluated).
   Fixed = FALSE is Level I of the pinned tree and must be REJECTED by TLC
     (sensitivity control and record of D23 and the defects found with it):
       - current_fn is never reset after function()            (D23)
       - function() overwrites is_root on every redeclaration   (D29)
       - scan_globals drops BOTH of two tentative definitions   (D30)
       - _Thread_local objects are never tentative -> redefined (D31)
       - .bss/.tbss objects get neither .type nor .size         (D32)
       - an inline definition that another declaration turns into an
         external definition stays internal                     (D33)
   (D34, block-scope `static _Thread_local` placed in .data, is outside
   Level I: the model gives anonymous objects the unit's TLS flag.)

   Three event generators (constant Mode):
     "obj"   all sequences of <= MaxLen events on one object name x
     "fn"    all sequences of <= MaxLen events on one function name f
     "graph" N static inline functions: every reference digraph x every root
             assignment {none, global function, initializer before all
             definitions, initializer right after the own definition (if
             InitAfterOwn), initializer after all definitions}             *)
EXTENDS Integers, Sequences, FiniteSets, TLC, Json, CSV, IOUtils, SequencesExt

CONSTANTS Mode, MaxLen, N, SelfLoops, InitAfterOwn, FreeKinds, Fixed, ResetCurFn, SkipSizeof, Emit

Mx(a, b) == IF a > b THEN a ELSE b

----------------------------------------------------------------------------
(* Object types: size, natural alignment, array?  *)
Types == { [id |-> "int",    size |-> 4,  al |-> 4, arr |-> FALSE],
           [id |-> "long",   size |-> 8,  al |-> 8, arr |-> FALSE],
           [id |-> "char3",  size |-> 3,  al |-> 1, arr |-> TRUE],
           [id |-> "char20", size |-> 20, al |-> 1, arr |-> TRUE] }
TInt == CHOOSE t \in Types : t.id = "int"
(* psABI: an array variable of at least 16 bytes is aligned to 16 (gcc does not
   apply this to thread-local arrays, so Level A only demands the natural
   alignment there; more alignment than demanded is always acceptable) *)
VarAlign(t) == IF t.arr /\ t.size >= 16 THEN Mx(16, t.al) ELSE t.al
VarAlignA(t, thr) == IF thr THEN t.al ELSE VarAlign(t)

(* Events.  One record shape for all kinds.
   k = "obj":  ev in T   `ty x;`            D   `ty x = v;`      E `extern ty x;`
                     ST  `static ty x;`     SD  `static ty x = v;`
                     BE  block scope `extern ty x;` (inside a function that returns &x)
                     BS  block scope `static ty x;`    BSD  block scope `static ty x = v;`
                     R   a function that returns &x (a reference from emitted code)
               (with tls = TRUE every one of them carries _Thread_local)
   k = "fn":   declaration/definition of function `name` with storage class
               sc in {none, static, extern}, inline specifier, and (for a
               definition) the set of functions its body references
   k = "init": a file-scope pointer-to-function object initialised with `name`                              *)
ObjE(ev) == [k |-> "obj", name |-> "x", ev |-> ev, sc |-> "-", inl |-> FALSE, def |-> FALSE, refs |-> {}, urefs |-> {}]
(* A definition's body references the functions `refs` in POTENTIALLY EVALUATED expressions, all written in
   the way `kind` (field ev) says:
     "call"      r(d - 1) and a call through &r, alternating       (call, address-taking)
     "vlatype"   sizeof(char[r(d - 1) + 1])      - the operand of sizeof is a VLA type name: its length
     "vlatype2"  sizeof(char[d + 2][r(d - 1) + 1])   expression IS evaluated (C11 6.5.3.4p2, 6.7.6.2p5)
     "vlabound"  { char a[r(d - 1) + 1]; ... }   - bound of a block-scope VLA
   and the functions `urefs` only in operands that are NOT evaluated: sizeof(u(d - 1)) and
   _Alignof(char[sizeof(u(d - 1))]).  C11 6.9p3 does not count those as a use of u. *)
Kinds == {"call", "vlatype", "vlatype2", "vlabound"}
SizeofKinds == {"vlatype", "vlatype2"}
FnEK(n, sc, inl, def, refs, urefs, kind) ==
  [k |-> "fn", name |-> n, ev |-> kind, sc |-> sc, inl |-> inl, def |-> def, refs |-> refs, urefs |-> urefs]
FnE(n, sc, inl, def, refs) == FnEK(n, sc, inl, def, refs, {}, "call")
InitE(n) == [k |-> "init", name |-> n, ev |-> "-", sc |-> "-", inl |-> FALSE, def |-> FALSE, refs |-> {}, urefs |-> {}]

VARIABLES es,        \* the unit: events so far
          fcommon, ty, tls,   \* unit parameters: -fcommon?, type of x, _Thread_local on every declaration of x
          gl,        \* Level I: globals list of object Obj records, newest first
          fns,       \* Level I: function name -> Obj record
          cur,       \* Level I: current_fn ("" = NULL)
          inits,     \* Level I: targets of relocations in emitted data (file-scope initializers)
          st         \* generator bookkeeping (graph mode)
vars == <<es, fcommon, ty, tls, gl, fns, cur, inits, st>>

(* symbol-table rows *)
None == [st |-> "none", bind |-> "-", type |-> "-", sect |-> "-", size |-> 0, align |-> 0]
Und  == [st |-> "und", bind |-> "GLOBAL", type |-> "-", sect |-> "UND", size |-> 0, align |-> 0]
Dup  == [st |-> "dup", bind |-> "-", type |-> "-", sect |-> "-", size |-> 0, align |-> 0]   \* symbol defined twice: assembler error
DefRow(bind, type, sect, size, align) ==
  [st |-> "def", bind |-> bind, type |-> type, sect |-> sect, size |-> size, align |-> align]

----------------------------------------------------------------------------
(* ================= Level A: objects (C11 6.2.2, 6.9.2) ================= *)
IsObj(e, evs) == e.k = "obj" /\ e.ev \in evs
LinkDecls(s) == SelectSeq(s, LAMBDA e : IsObj(e, {"T", "D", "E", "ST", "SD", "BE"}))
InternalObj(s) == LET d == LinkDecls(s) IN Len(d) > 0 /\ d[1].ev \in {"ST", "SD"}    \* 6.2.2p3-p5
HasInit(s) == \E i \in DOMAIN s : IsObj(s[i], {"D", "SD"})
DefinedObj(s) == \E i \in DOMAIN s : IsObj(s[i], {"T", "D", "ST", "SD"})             \* 6.9.2p2
ReferencedObj(s) == \E i \in DOMAIN s : IsObj(s[i], {"R", "BE"})
VisibleObj(s) == \E i \in DOMAIN s : IsObj(s[i], {"T", "D", "E", "ST", "SD"})

(* may object event e follow s?  (constraints and undefined behaviour excluded:
   6.2.2p7 internal+external linkage, 6.9p5 two initializers, use before declaration) *)
ObjOK(s, e) ==
  LET d == LinkDecls(s) IN
  CASE e.ev \in {"T", "D"}   -> (Len(d) = 0 \/ ~InternalObj(s)) /\ (e.ev = "D" => ~HasInit(s))
    [] e.ev \in {"ST", "SD"} -> (Len(d) = 0 \/ InternalObj(s)) /\ (e.ev = "SD" => ~HasInit(s))
    [] e.ev = "R"            -> VisibleObj(s)
    [] OTHER                 -> TRUE

RowObjA(s) ==
  IF ~DefinedObj(s) THEN (IF ReferencedObj(s) THEN Und ELSE None)
  ELSE LET int  == InternalObj(s)
           sect == IF tls THEN (IF HasInit(s) THEN "tdata" ELSE "tbss")
                   ELSE IF HasInit(s) THEN "data"
                   ELSE IF fcommon /\ ~int THEN "common" ELSE "bss"
       IN DefRow(IF int THEN "LOCAL" ELSE "GLOBAL", IF tls THEN "TLS" ELSE "OBJECT", sect, ty.size, VarAlignA(ty, tls))

(* objects with no linkage and static storage duration (6.2.2p6, 6.2.4p3): one
   anonymous local object per block-scope `static` declaration *)
AnonA(s) ==
  LET b == SelectSeq(s, LAMBDA e : IsObj(e, {"BS", "BSD"}))
  IN [i \in DOMAIN b |-> [sect |-> IF tls THEN (IF b[i].ev = "BSD" THEN "tdata" ELSE "tbss")
                                   ELSE (IF b[i].ev = "BSD" THEN "data" ELSE "bss"),
                          size |-> ty.size]]

(* ================= Level I: objects ================= *)
(* global_variable() (file scope and block-scope extern) / declaration() (block-scope static) *)
NewObjI(e) ==
  LET tent == IF Fixed THEN TRUE ELSE ~tls        \* pinned: `else if (!attr->is_extern && !attr->is_tls)`
      O(name, def, static, t, init) == [name |-> name, def |-> def, static |-> static, tent |-> t, init |-> init]
  IN CASE e.ev = "T"  -> O("x", TRUE, FALSE, tent, FALSE)
       [] e.ev = "D"  -> O("x", TRUE, FALSE, FALSE, TRUE)
       [] e.ev \in {"E", "BE"} -> O("x", FALSE, FALSE, FALSE, FALSE)
       [] e.ev = "ST" -> O("x", TRUE, TRUE, tent, FALSE)
       [] e.ev = "SD" -> O("x", TRUE, TRUE, FALSE, TRUE)
       [] e.ev = "BS" -> O(".L" \o ToString(Len(gl)), TRUE, TRUE, FALSE, FALSE)      \* new_anon_gvar
       [] e.ev = "BSD" -> O(".L" \o ToString(Len(gl)), TRUE, TRUE, FALSE, TRUE)

(* scan_globals(): indices of gl that survive.  Pinned: a tentative definition
   is dropped when ANY other definition of the name exists — including another
   tentative one, so `int x; int x;` loses both (the pinned loop walks a list
   it is relinking; as long as nothing of that name has been kept it still sees
   the original list, which is the case that matters here).  Repaired: dropped
   only for a non-tentative definition or an earlier (list order) tentative one. *)
KeptI == { i \in DOMAIN gl :
           ~(gl[i].tent /\ \E j \in DOMAIN gl : /\ j # i /\ gl[j].def /\ gl[j].name = gl[i].name
                                                 /\ (Fixed => (~gl[j].tent \/ j < i))) }
(* emit_data() for one Obj *)
DataRowI(o) ==
  LET viaComm == fcommon /\ o.tent /\ ~tls                      \* `.comm` (repaired: never for TLS)
      sect    == IF viaComm THEN (IF o.static THEN "bss" ELSE "common")   \* .local + .comm = .bss
                 ELSE IF o.init THEN (IF tls THEN "tdata" ELSE "data")
                 ELSE (IF tls THEN "tbss" ELSE "bss")
      sized   == viaComm \/ o.init \/ Fixed                      \* pinned: no .type/.size on the .bss/.tbss path
  IN DefRow(IF o.static THEN "LOCAL" ELSE "GLOBAL",
            IF tls THEN "TLS" ELSE IF sized THEN "OBJECT" ELSE "NOTYPE",
            sect, IF sized THEN ty.size ELSE 0, VarAlign(ty))
RowObjI ==
  LET rows == { i \in KeptI : gl[i].def /\ gl[i].name = "x" }
  IN IF rows = {} THEN (IF ReferencedObj(es) THEN Und ELSE None)       \* the reference is a syntactic fact of the unit
     ELSE IF Cardinality(rows) > 1 THEN Dup
     ELSE DataRowI(gl[CHOOSE i \in rows : TRUE])
AnonI ==
  LET idx == SelectSeq([i \in 1..Len(gl) |-> Len(gl) + 1 - i],          \* creation order
                       LAMBDA i : i \in KeptI /\ gl[i].name # "x" /\ gl[i].def)
  IN [k \in DOMAIN idx |-> LET r == DataRowI(gl[idx[k]]) IN [sect |-> r.sect, size |-> ty.size]]

----------------------------------------------------------------------------
(* ================= Level A: functions (6.2.2, 6.7.4, 6.9) ================= *)
IsFn(e, n) == e.k = "fn" /\ e.name = n
FDecls(s, n) == SelectSeq(s, LAMBDA e : IsFn(e, n))
FNames(s) == { s[i].name : i \in { j \in DOMAIN s : s[j].k = "fn" } }
InternalFn(s, n) == Len(FDecls(s, n)) > 0 /\ FDecls(s, n)[1].sc = "static"                        \* 6.2.2p3; later declarations inherit (p4, p5)
HasDef(s, n) == \E i \in DOMAIN s : IsFn(s[i], n) /\ s[i].def
AllInline(s, n) == \A i \in DOMAIN s : IsFn(s[i], n) => s[i].inl
AnyInline(s, n) == \E i \in DOMAIN s : IsFn(s[i], n) /\ s[i].inl
(* 6.7.4p7: all file-scope declarations `inline` without `extern` => inline definition, no external one *)
InlineDefn(s, n) == ~InternalFn(s, n) /\ \A i \in DOMAIN s : IsFn(s[i], n) => (s[i].inl /\ s[i].sc # "extern")
ExtDef(s, n) == ~InternalFn(s, n) /\ HasDef(s, n) /\ ~InlineDefn(s, n)
Body(s, n) == UNION { s[i].refs : i \in { j \in DOMAIN s : IsFn(s[j], n) /\ s[j].def } }      \* evaluated references
UBody(s, n) == UNION { s[i].urefs : i \in { j \in DOMAIN s : IsFn(s[j], n) /\ s[j].def } }    \* unevaluated ones
InitTargets(s) == { s[i].name : i \in { j \in DOMAIN s : s[j].k = "init" } }
RootsA(s) == { n \in FNames(s) : ExtDef(s, n) } \cup InitTargets(s)
RECURSIVE ClosureA(_, _)
ClosureA(s, S) == LET S2 == S \cup UNION { Body(s, n) : n \in S \cap FNames(s) }
                  IN IF S2 = S THEN S ELSE ClosureA(s, S2)
ReachA(s) == ClosureA(s, RootsA(s))      \* functions referenced (in evaluated code) by something that must be emitted
(* functions that are at most named in unevaluated operands of emitted code, or referenced by such a
   function: they need not be emitted (gcc does not), emitting them is harmless (chibicc does) - but
   whatever is emitted must not leave an undefined reference behind *)
RECURSIVE ClosureM(_, _)
ClosureM(s, S) == LET S2 == S \cup UNION { Body(s, n) \cup UBody(s, n) : n \in S \cap FNames(s) }
                  IN IF S2 = S THEN S ELSE ClosureM(s, S2)
MayA(s) == ClosureM(s, RootsA(s))
RefdAnywhere(s) == InitTargets(s) \cup UNION { Body(s, n) : n \in FNames(s) }

FnOK(s, e) ==                           \* may fn event e follow s?
  /\ e.def => ~HasDef(s, e.name)                                           \* 6.9p3/p5
  /\ e.sc = "static" => (Len(FDecls(s, e.name)) = 0 \/ InternalFn(s, e.name))  \* 6.2.2p7
  /\ e.refs \cup e.urefs \subseteq FNames(s) \cup {e.name}                    \* declared before use
InitOK(s, e) == e.name \in FNames(s)

(* a unit is judged when it is a valid complete unit: every inline function is
   defined (6.7.4p7) and no internal function is used without a definition (6.9p3) *)
JudgedFn(s) == \A n \in FNames(s) :
                 /\ AnyInline(s, n) => HasDef(s, n)
                 /\ (InternalFn(s, n) /\ ~HasDef(s, n)) => n \notin RefdAnywhere(s)

(* "nonglobal": an inline definition — the unit must not define the symbol
   GLOBAL (using the inline definition as a local copy, or calling the external
   one, are both allowed by 6.7.4p7: gcc does the latter, chibicc the former).
   "optlocal": an unreferenced internal function that is not declared inline on
   every declaration may or may not be emitted (gcc -O0 keeps `static` ones).   *)
RowFnA3(s, n, reach, may) ==
  IF ExtDef(s, n) THEN DefRow("GLOBAL", "FUNC", "text", 0, 0)
  ELSE IF ~InternalFn(s, n) /\ HasDef(s, n) THEN [None EXCEPT !.st = "nonglobal"]
  ELSE IF ~InternalFn(s, n) THEN (IF n \in reach THEN Und ELSE IF n \in may THEN [None EXCEPT !.st = "optund"] ELSE None)
  ELSE IF HasDef(s, n) THEN (IF n \in reach THEN DefRow("LOCAL", "FUNC", "text", 0, 0)
                             ELSE IF n \in may THEN [None EXCEPT !.st = "optlocal"]
                             ELSE IF AllInline(s, n) THEN None
                             ELSE [None EXCEPT !.st = "optlocal"])
  ELSE None
RowFnA2(s, n, reach) == RowFnA3(s, n, reach, MayA(s))
RowFnA(s, n) == RowFnA3(s, n, ReachA(s), MayA(s))

Match(i, a) == CASE a.st \in {"nonglobal"} -> i.st \in {"none", "und"} \/ (i.st = "def" /\ i.bind = "LOCAL")
                 [] a.st = "optlocal"     -> i.st = "none" \/ (i.st = "def" /\ i.bind = "LOCAL")
                 [] a.st = "optund"       -> i.st \in {"none", "und"}
                 [] OTHER                 -> i = a

(* D33 (pinned tree; repaired): chibicc decided "static" when the FIRST declaration is a bare
   `inline` and a later `extern`/non-inline declaration did not undo it.  The units of this
   class are flagged in the emitted cases so that the replay classifies them narrowly. *)
KnownInlineExt(s, n) == Len(FDecls(s, n)) > 0 /\ ExtDef(s, n) /\ FDecls(s, n)[1].inl /\ FDecls(s, n)[1].sc = "none"

(* ================= Level I: functions ================= *)
(* function(): find_func / new_gvar, attribute merging, is_root, current_fn *)
FnStepI(e) ==
  LET old == e.name \in DOMAIN fns
      (* repaired (D33): is_inline_only remembers that `static` came from a bare `inline`; a later
         declaration without `inline` or with `extern` makes the definition external (6.7.4p7) *)
      undo == Fixed /\ old /\ fns[e.name].ionly /\ e.sc # "static" /\ (~e.inl \/ e.sc = "extern")
      f0  == IF old THEN [fns[e.name] EXCEPT !.def = @ \/ e.def,
                                             !.ionly = @ /\ ~undo,
                                             !.static = @ /\ ~undo]
             ELSE [def |-> e.def, static |-> e.sc = "static" \/ (e.inl /\ e.sc # "extern"),
                   inline |-> e.inl, ionly |-> e.inl /\ e.sc = "none", root |-> FALSE, refs |-> {}]
      f1  == [f0 EXCEPT !.root = (Fixed /\ @) \/ ~(f0.static /\ f0.inline)]   \* pinned: plain assignment
      (* primary() books EVERY identifier that names a function on current_fn = fn, whatever the
         context.  SkipSizeof = TRUE is a parser that skips the booking inside the operands of
         sizeof/_Alignof (seeded change C15-4): right for urefs, wrong for VLA type names *)
      booked == IF SkipSizeof THEN (IF e.ev \in SizeofKinds THEN {} ELSE e.refs) ELSE e.refs \cup e.urefs
      f2  == IF e.def THEN [f1 EXCEPT !.refs = @ \cup booked] ELSE f1
  IN /\ fns' = [n \in DOMAIN fns \cup {e.name} |-> IF n = e.name THEN f2 ELSE fns[n]]
     /\ cur' = IF e.def THEN (IF Fixed /\ ResetCurFn THEN "" ELSE e.name) ELSE cur   \* repaired: current_fn = NULL after the body
     /\ UNCHANGED <<gl, inits>>
(* gvar_initializer -> primary(): booked on current_fn if set, else the target becomes a root *)
InitStepI(e) ==
  /\ fns' = IF cur # "" THEN [fns EXCEPT ![cur].refs = @ \cup {e.name}]
            ELSE [fns EXCEPT ![e.name].root = TRUE]
  /\ inits' = inits \cup {e.name}
  /\ UNCHANGED <<gl, cur>>
(* mark_live() from every is_root function *)
RECURSIVE ClosureI(_)
ClosureI(S) == LET S2 == S \cup UNION { fns[n].refs \cap DOMAIN fns : n \in S }
               IN IF S2 = S THEN S ELSE ClosureI(S2)
LiveI == ClosureI({ n \in DOMAIN fns : fns[n].root })
EmittedI == { n \in DOMAIN fns : fns[n].def /\ n \in LiveI }                 \* emit_text gating
RefdByEmittedI == inits \cup UNION { Body(es, n) : n \in EmittedI }           \* what the assembler sees referenced
RowFnI(n) == IF n \in EmittedI THEN DefRow(IF fns[n].static THEN "LOCAL" ELSE "GLOBAL", "FUNC", "text", 0, 0)
             ELSE IF n \in RefdByEmittedI THEN Und ELSE None

----------------------------------------------------------------------------
Case(s) == [mode |-> Mode, fcommon |-> fcommon, ty |-> ty.id, tls |-> tls, es |-> s,
            objrow |-> IF Mode = "obj" THEN RowObjA(s) ELSE None,
            anon |-> IF Mode = "obj" THEN AnonA(s) ELSE <<>>,
            fnrows |-> LET reach == ReachA(s)
                           may   == MayA(s)
                       IN { [name |-> n, row |-> RowFnA3(s, n, reach, may), known |-> KnownInlineExt(s, n)] : n \in FNames(s) }]
Out(s) == (Emit /\ JudgedFn(s)) => CSVWrite("%1$s", <<ToJson(Case(s))>>, IOEnv.OUT)

StepObj(e) == /\ es' = Append(es, e)
              /\ gl' = IF e.ev = "R" THEN gl ELSE <<NewObjI(e)>> \o gl
              /\ UNCHANGED <<fcommon, ty, tls, fns, cur, inits, st>>
              /\ Out(es')
StepFn(e, st2) == /\ es' = Append(es, e)
                  /\ IF e.k = "fn" THEN FnStepI(e) ELSE InitStepI(e)
                  /\ st' = st2
                  /\ UNCHANGED <<fcommon, ty, tls>>
                  /\ Out(es')

Idx == ToString(Len(es) + 1)
FnAlphabet ==
  { FnE("f", sc, inl, def, {}) : sc \in {"none", "static", "extern"}, inl \in BOOLEAN, def \in BOOLEAN }
  \cup { FnEK("r" \o Idx, "none", FALSE, TRUE, {"f"}, {}, k) : k \in Kinds }   \* a global function referencing f, in each way: a root
  \cup { FnEK("v" \o Idx, "none", FALSE, TRUE, {}, {"f"}, "call"),               \* a global function naming f in unevaluated operands only
         FnE("u" \o Idx, "static", TRUE, TRUE, {"f"}),     \* an unreferenced static inline calling f: NOT a root
         InitE("f") }                                       \* a file-scope initializer naming f: a root

S(i) == "s" \o ToString(i)
KindSeq == <<"call", "vlatype", "vlabound", "vlatype2">>
DefKinds(i) == IF FreeKinds THEN Kinds ELSE {KindSeq[((i - 1) % 4) + 1]}     \* fixed rotation unless FreeKinds
DefURefs(i) == IF FreeKinds THEN SUBSET ((1..N) \ {i}) ELSE {{}}
Callees(i) == SUBSET (IF SelfLoops THEN 1..N ELSE (1..N) \ {i})
GraphNext ==
  \/ /\ st.ph = "proto"
     /\ StepFn(FnE(S(Len(es) + 1), "static", TRUE, FALSE, {}),
               IF Len(es) + 1 = N THEN [st EXCEPT !.ph = "ib"] ELSE st)
  \/ /\ st.ph = "ib"                          \* initializer before any function definition
     /\ \E j \in st.c..N : StepFn(InitE(S(j)), [st EXCEPT !.c = j + 1, !.rooted = @ \cup {j}])
  \/ /\ st.ph \in {"ib", "def"} /\ st.d < N   \* definition of s(d+1) with its callees
     /\ \E C \in Callees(st.d + 1), kd \in DefKinds(st.d + 1), U \in DefURefs(st.d + 1) :
          StepFn(FnEK(S(st.d + 1), "static", TRUE, TRUE, {S(j) : j \in C}, {S(j) : j \in U \ C}, kd),
                 [st EXCEPT !.ph = "def", !.d = @ + 1, !.c = 1, !.fresh = TRUE])
  \/ /\ InitAfterOwn /\ st.ph = "def" /\ st.fresh /\ st.d \notin st.rooted      \* initializer right after the own definition
     /\ StepFn(InitE(S(st.d)), [st EXCEPT !.fresh = FALSE, !.rooted = @ \cup {st.d}])
  \/ /\ st.ph = "def" /\ st.d = N             \* initializer after all definitions
     /\ \E j \in st.c..N : /\ j \notin st.rooted /\ ~(st.fresh /\ j = N)
                           /\ StepFn(InitE(S(j)), [st EXCEPT !.c = j + 1, !.fresh = FALSE, !.rooted = @ \cup {j}])
  \/ /\ st.ph = "def" /\ st.d = N             \* a global function referencing R: the last event
     /\ \E R \in SUBSET ((1..N) \ st.rooted), kd \in (IF N <= 3 THEN {"call", "vlatype"} ELSE {"vlatype"}) :
          StepFn(FnEK("user", "none", FALSE, TRUE, {S(j) : j \in R}, {}, kd), [st EXCEPT !.ph = "done"])

Init == /\ es = <<>> /\ gl = <<>> /\ fns = [n \in {} |-> 0] /\ cur = "" /\ inits = {}
        /\ st = [ph |-> IF N > 0 THEN "proto" ELSE "done", d |-> 0, c |-> 1, rooted |-> {}, fresh |-> FALSE]
        /\ IF Mode = "obj" THEN fcommon \in BOOLEAN /\ ty \in Types /\ tls \in BOOLEAN
           ELSE fcommon = TRUE /\ ty = TInt /\ tls = FALSE

Next == \/ /\ Mode = "obj" /\ Len(es) < MaxLen
           /\ \E ev \in {"T", "D", "E", "ST", "SD", "BE", "BS", "BSD", "R"} :
                ObjOK(es, ObjE(ev)) /\ StepObj(ObjE(ev))
        \/ /\ Mode = "fn" /\ Len(es) < MaxLen
           /\ \E e \in FnAlphabet : /\ IF e.k = "fn" THEN FnOK(es, e) ELSE InitOK(es, e)
                                    /\ StepFn(e, st)
        \/ Mode = "graph" /\ GraphNext
Spec == Init /\ [][Next]_vars

----------------------------------------------------------------------------
(* Level I = Level A *)
(* alignment: exactly the demanded one for a common symbol (it is the symbol's
   value), otherwise any multiple of it *)
RowsAgree(i, a) == /\ [i EXCEPT !.align = 0] = [a EXCEPT !.align = 0]
                   /\ a.sect = "common" => i.align = a.align
                   /\ a.st = "def" => i.align % a.align = 0
ObjRefines == Mode = "obj" => (RowsAgree(RowObjI, RowObjA(es)) /\ AnonI = AnonA(es))
FnRefines  == JudgedFn(es) =>
                LET reach == ReachA(es)              \* evaluated once per state
                    may   == MayA(es)
                    live  == LiveI
                    emit  == { n \in DOMAIN fns : fns[n].def /\ n \in live }
                    refd  == inits \cup UNION { Body(es, n) : n \in emit }
                    rowI(n) == IF n \in emit THEN DefRow(IF fns[n].static THEN "LOCAL" ELSE "GLOBAL", "FUNC", "text", 0, 0)
                               ELSE IF n \in refd THEN Und ELSE None
                IN \A n \in FNames(es) : Match(rowI(n), RowFnA3(es, n, reach, may))
(* sanity of Level A: a symbol is common only under -fcommon, never when
   initialised, internal or thread-local; internal <=> LOCAL *)
AWellFormed ==
  LET r == RowObjA(es) IN
  /\ r.sect = "common" => (fcommon /\ ~tls /\ r.bind = "GLOBAL" /\ ~HasInit(es))
  /\ r.st = "def" => (r.bind = "LOCAL") = InternalObj(es)
=============================================================================
