SPECIFICATION Spec
CONSTANTS Mode = "obj"
 MaxLen = 3
 N = 0
 SelfLoops = TRUE
 InitAfterOwn = TRUE
 FreeKinds = FALSE
 Fixed = TRUE
 ResetCurFn = TRUE
 SkipSizeof = FALSE
 Emit = FALSE
 Unb = FALSE
 Fixed5 = TRUE
 AlignAtCreation = FALSE
 ReuseVisible = FALSE
INVARIANTS ObjRefines FnRefines AWellFormed
CHECK_DEADLOCK FALSE
