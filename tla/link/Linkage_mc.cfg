SPECIFICATION Spec
CONSTANTS Mode = "obj"
 MaxLen = 3
 N = 0
 SelfLoops = TRUE
 InitAfterOwn = TRUE
 Fixed = TRUE
 ResetCurFn = TRUE
 Emit = FALSE
INVARIANTS ObjRefines FnRefines AWellFormed
CHECK_DEADLOCK FALSE
