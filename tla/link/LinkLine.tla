------------------------------ MODULE LinkLine ------------------------------
(* C15, library layer.  Some of the units of a program are delivered as
   libraries named with -L/-l: liba (member a1: defines fa, needs fb) and libb
   (members b1: defines fb; b2: defines fc), each installed as a static archive
   (ar rcs), as a shared object, or as both.  The program main references fa
   (and, with mrefs = 2, also fc).

   A driver command line is a sequence of words; one action per word (one
   iteration of main.c parse_args):
       M                 the input main.c (compiled, its object is a link input)
       -la  -lb          the libraries
       -Wl,-Bstatic  -Wl,-Bdynamic     a bracket around one -l: take the archive

   Level A — what the command line means: the link line is processed left to
     right IN COMMAND-LINE ORDER.  An object contributes its definitions and
     its undefined references; an archive contributes (repeatedly) exactly
     those members that define a currently undefined symbol — so an archive
     named before anything needs it contributes nothing; a shared object
     always contributes its exports (and its own needs must be met by the end);
     -l picks the shared object unless -static / -Bstatic is in force or only
     the archive is installed.  The link succeeds iff nothing stays undefined
     and every -l is found.
   Level I — main.c: parse_args() files every word either in input_paths or
     in ld_extra_args; main() turns input_paths into ld_args in order (a -Wl,
     word is split at the commas); run_linker() emits ld_extra_args BEFORE the
     inputs.  HEAD keeps M, -l and -Wl, words together in input_paths.
     LFirst = TRUE is the driver that treats -l / -Wl, like -L (seeded change
     C15-3): TLC must REJECT it (sensitivity control).

   Invariants: the ld line of Level I is the command line (OrderKept) and links
   exactly when the command line does (SameOutcome).                          *)
EXTENDS Integers, Sequences, FiniteSets, TLC, Json, CSV, IOUtils, SequencesExt

CONSTANTS LFirst, Emit

Cfgs == {"default", "nocommon", "pic", "static"}
Deliv == {"a", "so", "both"}

VARIABLES line,              \* command-line words so far
          cfg, da, db, mrefs,  \* configuration, how liba / libb are installed, what main references
          inputs, extras     \* Level I: input_paths, ld_extra_args (only the words modelled here)
vars == <<line, cfg, da, db, mrefs, inputs, extras>>

Has(s, w) == \E i \in DOMAIN s : s[i] = w
LastW(s) == IF Len(s) = 0 THEN "" ELSE s[Len(s)]
Open(s) == Has(s, "-Wl,-Bstatic") /\ ~Has(s, "-Wl,-Bdynamic")
Complete(s) == Has(s, "M") /\ Has(s, "-la") /\ Has(s, "-lb") /\ ~Open(s)

(* may word w follow s?  every input once; at most one bracket, tightly around one -l;
   no bracket in a -static link (-Bdynamic would switch the C library, too) *)
WordOK(s, w) ==
  /\ ~Has(s, w)
  /\ w = "-Wl,-Bstatic" => cfg # "static" /\ ~(Has(s, "-la") /\ Has(s, "-lb"))
  /\ w = "-Wl,-Bdynamic" => Open(s) /\ LastW(s) \in {"-la", "-lb"}
  /\ LastW(s) = "-Wl,-Bstatic" => w \in {"-la", "-lb"}
  /\ (Open(s) /\ LastW(s) \in {"-la", "-lb"}) => w = "-Wl,-Bdynamic"

----------------------------------------------------------------------------
(* ---- the link itself: GNU ld's left-to-right symbol resolution ---- *)
MainRefs == IF mrefs = 1 THEN {"fa"} ELSE {"fa", "fc"}
Members(l) == IF l = "-la" THEN { [def |-> {"fa"}, ref |-> {"fb"}] }
              ELSE { [def |-> {"fb"}, ref |-> {}], [def |-> {"fc"}, ref |-> {}] }
Exports(l) == UNION { m.def : m \in Members(l) }
Needs(l) == UNION { m.ref : m \in Members(l) }
DelivOf(l) == IF l = "-la" THEN da ELSE db

RECURSIVE Pull(_, _)         \* archive: members that resolve currently undefined symbols, to a fixpoint
Pull(stt, ms) ==
  LET hit == { m \in ms : m.def \cap stt.und # {} }
  IN IF hit = {} THEN stt
     ELSE LET d2 == stt.def \cup UNION { m.def : m \in hit }
              u2 == (stt.und \cup UNION { m.ref : m \in hit }) \ d2
          IN Pull([stt EXCEPT !.def = d2, !.und = u2], ms \ hit)

Step(stt, w) ==
  CASE w = "M" -> [stt EXCEPT !.def = @ \cup {"main"}, !.und = (@ \cup MainRefs) \ stt.def]
    [] w \in {"-Wl,-Bstatic", "-Bstatic"}   -> [stt EXCEPT !.bstatic = TRUE]
    [] w \in {"-Wl,-Bdynamic", "-Bdynamic"} -> [stt EXCEPT !.bstatic = FALSE]
    [] OTHER ->                                      \* -la / -lb
       LET d == DelivOf(w)
           wantA == cfg = "static" \/ stt.bstatic
       IN IF wantA /\ d = "so" THEN [stt EXCEPT !.nolib = TRUE]          \* cannot find -lX
          ELSE IF wantA \/ d = "a" THEN Pull(stt, Members(w))            \* archive
          ELSE LET d2 == stt.def \cup Exports(w)                          \* shared object
               IN [stt EXCEPT !.def = d2, !.und = (@ \cup Needs(w)) \ d2]
Start == [def |-> {}, und |-> {}, bstatic |-> FALSE, nolib |-> FALSE]
LinkOf(s) == LET e == FoldLeft(Step, Start, s)
             IN IF e.nolib THEN "nolib" ELSE IF e.und # {} THEN "undef" ELSE "ok"

(* ---- Level I: the words as run_linker() hands them to ld ---- *)
Split(w) == IF w = "-Wl,-Bstatic" THEN "-Bstatic" ELSE IF w = "-Wl,-Bdynamic" THEN "-Bdynamic" ELSE w
LdLineI == extras \o [i \in DOMAIN inputs |-> Split(inputs[i])]
LdLineA == [i \in DOMAIN line |-> Split(line[i])]

Case == [cfg |-> cfg, da |-> da, db |-> db, mrefs |-> mrefs, line |-> line, ld |-> LdLineA, pred |-> LinkOf(line)]

Init == /\ line = <<>> /\ inputs = <<>> /\ extras = <<>>
        /\ cfg \in Cfgs /\ da \in Deliv /\ db \in Deliv /\ mrefs \in {1, 2}
Word(w) == /\ WordOK(line, w)
           /\ line' = Append(line, w)
           /\ IF LFirst /\ w # "M"
              THEN extras' = Append(extras, Split(w)) /\ UNCHANGED inputs    \* -l / -Wl, handled like -L
              ELSE inputs' = Append(inputs, w) /\ UNCHANGED extras
           /\ UNCHANGED <<cfg, da, db, mrefs>>
           /\ (Emit /\ Complete(line')) =>
                CSVWrite("%1$s", <<ToJson([cfg |-> cfg, da |-> da, db |-> db, mrefs |-> mrefs, line |-> line',
                                           ld |-> [i \in DOMAIN line' |-> Split(line'[i])], pred |-> LinkOf(line')])>>, IOEnv.OUT)
Next == \E w \in {"M", "-la", "-lb", "-Wl,-Bstatic", "-Wl,-Bdynamic"} : Word(w)
Spec == Init /\ [][Next]_vars

----------------------------------------------------------------------------
OrderKept == Complete(line) => LdLineI = LdLineA
SameOutcome == Complete(line) => LinkOf(LdLineI) = LinkOf(line)
(* sanity of Level A: with every library installed as a shared object the order of the words does
   not matter; with archives the dependency order main, liba, libb always links *)
ASane == Complete(line) =>
           /\ (cfg # "static" /\ da # "a" /\ db # "a" /\ ~Has(line, "-Wl,-Bstatic")) => LinkOf(line) = "ok"
           /\ (LdLineA = <<"M", "-la", "-lb">> /\ (cfg = "static" => da # "so" /\ db # "so")) => LinkOf(line) = "ok"
=============================================================================
