----------------------------- MODULE SwitchCmp -----------------------------
(* C03, the width arithmetic of `switch`: does `case lo ... hi` (lo = hi for a
   plain case) select the value v of the controlling expression?

   Scaled widths (TLC integers are 32-bit; the arithmetic is uniform in the
   width): char = WC bits, int = WI bits, long = WL bits, WC < WI < WL.
   A case constant is any integer a C constant expression can denote: the
   union of the ranges of long and unsigned long.

   Level A (C11 6.8.4.2): the controlling expression is promoted, every case
   constant is converted to the promoted type, the range is compared in that
   type.  Ranges that are empty after conversion are outside the domain.
   Level I: parse.c stores const_expr() (an int64_t) in `begin`/`end` — `int`
   in the pinned tree (FIXED = FALSE), `long` in the repaired tree — and
   rejects `end < begin`; codegen.c compares in %eax or %rax by the size of
   the controlling type: cmp $begin / je, or  mov; sub $begin; cmp $(end -
   begin); jbe  (one unsigned comparison of the wrapped difference).        *)
EXTENDS Integers, TLC

CONSTANTS WC, WI, WL, FIXED,
          Low32,       \* TRUE: a wrong Level I that always compares in the 32-bit registers, e.g. a jump-table
                       \* dispatch `sub $lo,%eax; cmp $span,%eax; ja` for a long controlling value (must be rejected)
          NarrowWrap   \* TRUE: a wrong Level I that converts labels to the UNPROMOTED controlling type (must be rejected)

Pow(n) == 2 ^ n
WrapU(x, w) == x % Pow(w)
WrapS(x, w) == LET u == x % Pow(w) IN IF u >= Pow(w - 1) THEN u - Pow(w) ELSE u

Types == { [n |-> "bool",  w |-> 1,  s |-> FALSE],
           [n |-> "char",  w |-> WC, s |-> TRUE],  [n |-> "uchar", w |-> WC, s |-> FALSE],
           [n |-> "int",   w |-> WI, s |-> TRUE],  [n |-> "uint",  w |-> WI, s |-> FALSE],
           [n |-> "long",  w |-> WL, s |-> TRUE],  [n |-> "ulong", w |-> WL, s |-> FALSE] }
Consts == (-Pow(WL - 1))..(Pow(WL) - 1)
ValuesOf(t) == IF t.s THEN (-Pow(t.w - 1))..(Pow(t.w - 1) - 1) ELSE 0..(Pow(t.w) - 1)

(* integer promotion: everything narrower than int becomes (signed) int *)
Promoted(t) == IF t.w < WI THEN [n |-> "int", w |-> WI, s |-> TRUE] ELSE t
Conv(c, t) == IF t.s THEN WrapS(c, t.w) ELSE WrapU(c, t.w)

(* the range must not wrap inside the promoted type *)
RangeOK(t, lo, hi) == Conv(hi, Promoted(t)) - Conv(lo, Promoted(t)) = hi - lo
MatchA(t, v, lo, hi) == LET p == Promoted(t) IN Conv(lo, p) <= v /\ v <= Conv(hi, p)

(* ---- Level I ---- *)
(* const_expr() is int64_t; `int begin` truncates (pinned tree).  The labels are NOT converted to the
   narrow type of a char/short/_Bool controlling expression: the comparison happens after promotion,
   so `case 200` on a signed char can never match (NarrowWrap would make it match -56).          *)
Stored0(c) == IF FIXED THEN WrapS(c, WL) ELSE WrapS(WrapS(c, WL), WI)
StoredT(tt, c) == IF NarrowWrap THEN Conv(Stored0(c), tt) ELSE Stored0(c)
RejectI(t, lo, hi) ==
  LET b == Stored0(lo)  e == Stored0(hi)  p == Promoted(t) IN
  IF ~FIXED THEN e < b
  ELSE IF p.w = WL /\ ~p.s THEN WrapU(e, WL) < WrapU(b, WL)
  ELSE IF p.w = WI /\ ~p.s THEN WrapU(e, WI) < WrapU(b, WI)
  ELSE IF p.w = WI THEN WrapS(e, WI) < WrapS(b, WI)
  ELSE e < b
MatchI(t, v, lo, hi) ==
  LET b  == StoredT(t, lo)  e == StoredT(t, hi)
      w  == IF t.w = WL /\ ~Low32 THEN WL ELSE WI    \* node->cond->ty->size == 8 ? %rax : %eax
      ax == WrapU(v, w)                             \* the register after gen_expr (sign/zero extended load)
      d  == IF FIXED THEN e - b ELSE WrapS(e - b, WI)   \* pinned: int arithmetic, immediate sign-extended
  IN IF lo = hi THEN ax = WrapU(b, w)
     ELSE WrapU(ax - WrapU(b, w), w) <= WrapU(d, w)

VARIABLES t, v, lo, hi
Init == /\ t \in Types /\ v \in ValuesOf(t) /\ lo \in Consts /\ hi \in Consts
        /\ (lo = hi \/ (lo < hi /\ RangeOK(t, lo, hi)))
        /\ (\/ lo = hi \/ hi = lo + 1 \/ hi = lo + 3 \/ lo \in {-Pow(WL - 1), -Pow(WI - 1), -1, 0, Pow(WI - 1), Pow(WI)}
            \/ hi \in {-1, 0, Pow(WI - 1) - 1, Pow(WI) - 1, Pow(WL - 1) - 1, Pow(WL) - 1})
Next == UNCHANGED <<t, v, lo, hi>>
Spec == Init /\ [][Next]_<<t, v, lo, hi>>

Accepts == ~RejectI(t, lo, hi)
SameMatch == ~RejectI(t, lo, hi) => (MatchI(t, v, lo, hi) <=> MatchA(t, v, lo, hi))
=============================================================================
