------------------------------- MODULE CFlow -------------------------------
(* C03, control flow.  Statements of a C function as a tree, two semantics.

   Program.  `prog` is the pre-order sequence of the nodes of one function
   body; a node is [k, a, b, par, pos, kids, d]: kind, two parameters, parent
   index, position among the parent's children, child indices, depth.
     statements   Mark | Seq (a = arity) | If | IfElse | While | Do | For |
                  Switch (a = controlling value) | Case (a = value) |
                  CaseR (a..b) | Default | Break | Continue | Goto (a = label
                  name) | GotoStar (a = index into the label table) |
                  Label (a = name) | Expr
     expressions  T | F (marks that yield 1 / 0; a = the SHAPE of the operand: 0 an
                  rvalue call T(i), 1 a dereference *TP(i), 2 a member TS(i)->m,
                  3 a subscript tv[MX(i, v)], 4 a member of a call result TV(i).m -
                  the same single mark and the same value in every shape) |
                  Not | And | Or | Cond | Elvis (GNU `a ?: b`: a is evaluated ONCE;
                  if it is nonzero it is the value, else b is evaluated) |
                  Comma | SE (statement expression: one statement, then the
                  value expression) | CntLt (a = k: own counter++ < k, only as
                  the condition of an if: makes backward gotos terminate)
     loops and switches whose controlling expressions are expression SUBTREES
     (so that a statement expression with break / continue / goto can sit in
     them): WhileE [cond, body] | DoE [body, cond] | ForE [cond, body, inc]
     (written for (c = 0; cond; inc) body) | SwitchE [cond, body].  The
     controlling expressions of a loop are not part of its body: a break or
     continue in them belongs to the ENCLOSING loop / switch.
     loop conditions of While/Do/For are attributes (terminating condition language):
                  a = 0: constant 0; a = 9: constant 1; a = k in 1..3: own
                  counter < k;  b bit 0: the condition is `(mark, cond)`;
                  b bit 1 (For): the increment is `(mark, counter++)`.
   The program is built by actions, one node per action, filling the holes in
   pre-order, so that TLC enumerates every program with <= MaxN nodes and
   nesting <= MaxD over the alphabet selected by the constants.

   Level A.  Small-step abstract machine of C: a control stack of frames, the
   value of the last full expression, one counter per loop / CntLt node, the
   output trace of mark ids.  break/continue unwind the control stack to the
   innermost loop/switch frame; goto / switch dispatch rebuild the control
   stack from the ancestors of the target (StackAt).

   Level I.  Lower(prog) = what chibicc does: parse.c stmt() hands out unique
   labels and keeps brk_label / cont_label / current_switch in globals that it
   saves and restores around each construct, cases are prepended to
   current_switch->case_next, gotos are matched to labels after the function
   (resolve_goto_labels); codegen.c gen_stmt()/gen_expr() emit a flat
   label/jump program (.L.begin/.L.else/.L.end/.L.false/.L.true numbered by
   count(), the compare chain in case_next order, `jmp default`, `jmp brk`).
   The flat program runs on a jump machine (pc, acc = %rax, counters, out).

   Checked for every complete program: the two traces are equal (TraceEq),
   every break/continue jumps to the label of the innermost enclosing
   construct of the right kind (JumpsInnermost), every label is defined once
   and every jump target is defined (LabelsOK).  `Variant` selects a
   deliberately wrong lowering (sensitivity controls; TLC must reject each).  *)
EXTENDS Integers, Sequences, FiniteSets, TLC, Json, CSV, IOUtils, SequencesExt

CONSTANTS MaxN,       \* nodes per program
          MaxD,       \* nesting depth
          Kinds,      \* node kinds in the alphabet
          LoopConds,  \* subset of {0, 1, 2, 3, 9}
          LoopB,      \* subset of 0..3 (mark in the condition / in the increment)
          SwVals,     \* controlling values of Switch
          CaseVals,   \* case label values (CaseR uses lo < hi from this set)
          NLab,       \* label names 1..NLab
          Fuel,       \* Level A step bound (programs that need more are discarded)
          Shapes,     \* operand shapes of the T / F leaves, subset of 0..4
          ForLate,    \* TRUE: stmt() sets brk/cont_label of a `for` only after its three clauses (repaired tree);
                      \* FALSE: before them (pinned: a break in a clause binds to the for itself) - must be rejected
          Variant,    \* "do-restore-late" | "elvis-reeval" | "ok" | "norestore-cont" | "norestore-brk" | "norestore-sw" | "and-or-mixup" | "default-first" | "range-open"
          Emit

Loops == {"While", "Do", "For"}
ELoops == {"WhileE", "DoE", "ForE"}
StmtKinds == {"Mark", "Seq", "If", "IfElse", "While", "Do", "For", "Switch", "Case", "CaseR", "Default",
              "Break", "Continue", "Goto", "GotoStar", "Label", "Expr", "WhileE", "DoE", "ForE", "SwitchE"}
ExprKinds == {"T", "F", "Not", "And", "Or", "Cond", "Elvis", "Comma", "SE", "CntLt"}

Node(k, a, b, par, pos, d) == [k |-> k, a |-> a, b |-> b, par |-> par, pos |-> pos, kids |-> <<>>, d |-> d]

(* hole types of the children of a node: "s" statement, "e" expression, "c" if-condition *)
ChildTypes(k, a) ==
  CASE k = "Seq"    -> [i \in 1..a |-> "s"]
    [] k = "If"     -> <<"c", "s">>
    [] k = "IfElse" -> <<"c", "s", "s">>
    [] k \in {"While", "Do", "For", "Switch", "Case", "CaseR", "Default", "Label"} -> <<"s">>
    [] k = "Expr"   -> <<"e">>
    [] k = "Not"    -> <<"e">>
    [] k \in {"And", "Or", "Comma", "Elvis"} -> <<"e", "e">>
    [] k = "Cond"   -> <<"e", "e", "e">>
    [] k = "SE"     -> <<"s", "e">>
    [] k = "WhileE" -> <<"c", "s">>
    [] k = "DoE"    -> <<"s", "c">>
    [] k = "ForE"   -> <<"c", "s", "e">>
    [] k = "SwitchE" -> <<"e", "s">>
    [] OTHER        -> <<>>

----------------------------------------------------------------------------
(* tree accessors over a program P *)
RECURSIVE AncWith(_, _, _)
(* nearest proper-or-self ancestor of i whose kind is in S; 0 if none *)
AncWith(P, i, S) == IF i = 0 THEN 0 ELSE IF P[i].k \in S THEN i ELSE AncWith(P, P[i].par, S)
(* the position of the body among the children of a construct with expression clauses *)
BodyPos(k) == CASE k = "WhileE" -> 2 [] k = "DoE" -> 1 [] k = "ForE" -> 2 [] k = "SwitchE" -> 2 [] OTHER -> 0
RECURSIVE EnclIn(_, _, _, _)
(* nearest construct of a kind in S around the pos-th child of p, counting a construct with expression
   clauses only if we come from its BODY; 0 if none *)
EnclIn(P, p, pos, S) ==
  IF p = 0 THEN 0
  ELSE IF P[p].k \in S /\ (BodyPos(P[p].k) = 0 \/ BodyPos(P[p].k) = pos) THEN p
  ELSE EnclIn(P, P[p].par, P[p].pos, S)
EnclBreak(P, i)  == EnclIn(P, P[i].par, P[i].pos, Loops \cup ELoops \cup {"Switch", "SwitchE"})
EnclLoop(P, i)   == EnclIn(P, P[i].par, P[i].pos, Loops \cup ELoops)
EnclSwitch(P, i) == EnclIn(P, P[i].par, P[i].pos, {"Switch", "SwitchE"})
CasesOf(P, s)    == {j \in DOMAIN P : P[j].k \in {"Case", "CaseR", "Default"} /\ EnclSwitch(P, j) = s}
Covers(nd, v)    == \/ nd.k = "Case" /\ nd.a = v
                    \/ nd.k = "CaseR" /\ nd.a <= v /\ v <= nd.b
LabelNode(P, n)  == IF \E j \in DOMAIN P : P[j].k = "Label" /\ P[j].a = n
                    THEN CHOOSE j \in DOMAIN P : P[j].k = "Label" /\ P[j].a = n ELSE 0
Bit(b, i) == (b \div (2 ^ i)) % 2 = 1

----------------------------------------------------------------------------
(* ------------------------------ Level A -------------------------------- *)
Fr(t, n, j) == [t |-> t, n |-> n, j |-> j]
X(n) == Fr("x", n, 0)

(* frames that lie under the j-th child of node p while that child executes *)
FramesUnder(P, p, j) ==
  LET k == P[p].k IN
  CASE k = "Seq"    -> <<Fr("seq", p, j + 1)>>
    [] k = "While"  -> <<Fr("loop", p, 0)>>
    [] k = "Do"     -> <<Fr("do", p, 0)>>
    [] k = "For"    -> <<Fr("fori", p, 0)>>
    [] k = "Switch" -> <<Fr("sw", p, 0)>>
    [] k = "WhileE" -> IF j = 1 THEN <<Fr("wdec", p, 0)>> ELSE <<Fr("loopE", p, 0)>>
    [] k = "DoE"    -> IF j = 1 THEN <<Fr("doE", p, 0)>> ELSE <<Fr("ddec", p, 0)>>
    [] k = "ForE"   -> IF j = 1 THEN <<Fr("fdec", p, 0)>> ELSE IF j = 2 THEN <<Fr("fincE", p, 0)>> ELSE <<Fr("ftest", p, 0)>>
    [] k = "SwitchE" -> IF j = 1 THEN <<Fr("swdec", p, 0)>> ELSE <<Fr("sw", p, 0)>>
    [] k \in {"If", "IfElse"} -> IF j = 1 THEN <<Fr("ifc", p, 0)>> ELSE <<>>
    [] k = "Not"    -> <<Fr("not", p, 0)>>
    [] k = "And"    -> IF j = 1 THEN <<Fr("and", p, 0)>> ELSE <<Fr("bool", p, 0)>>
    [] k = "Or"     -> IF j = 1 THEN <<Fr("or", p, 0)>> ELSE <<Fr("bool", p, 0)>>
    [] k = "Cond"   -> IF j = 1 THEN <<Fr("cnd", p, 0)>> ELSE <<>>
    [] k = "Elvis"  -> IF j = 1 THEN <<Fr("elv", p, 0)>> ELSE <<>>
    [] k \in {"Comma", "SE"} -> IF j = 1 THEN <<X(P[p].kids[2])>> ELSE <<>>
    [] OTHER        -> <<>>

RECURSIVE StackAt(_, _)
(* the control stack (bottom first) on which node i executes *)
StackAt(P, i) == IF P[i].par = 0 THEN <<>>
                 ELSE StackAt(P, P[i].par) \o FramesUnder(P, P[i].par, P[i].pos)

(* value of the condition of loop node i; whether the counter is post-incremented *)
CondVal(P, c, i) == IF P[i].a = 0 THEN 0 ELSE IF P[i].a = 9 THEN 1 ELSE IF c[i] < P[i].a THEN 1 ELSE 0
CondOut(P, o, i) == IF Bit(P[i].b, 0) THEN Append(o, 100 + i) ELSE o

InitA(P) == [st |-> IF Len(P) = 0 THEN <<>> ELSE <<X(1)>>, acc |-> 0, cnt |-> [i \in DOMAIN P |-> 0], out |-> <<>>, halt |-> FALSE]

PopTo(st, S, keep) ==   \* unwind to the innermost frame whose tag is in S (drop it unless keep)
  LET idx == {i \in DOMAIN st : st[i].t \in S} IN
  IF idx = {} THEN <<>>
  ELSE LET m == CHOOSE i \in idx : \A j \in idx : j <= i IN SubSeq(st, 1, IF keep THEN m ELSE m - 1)

StepA(P, s) ==
  IF s.halt THEN s
  ELSE IF s.st = <<>> THEN [s EXCEPT !.halt = TRUE]
  ELSE
  LET f   == s.st[Len(s.st)]
      r   == SubSeq(s.st, 1, Len(s.st) - 1)
      i   == f.n
      nd  == P[i]
      kid(j) == nd.kids[j]
  IN
  CASE f.t = "x" ->
        (CASE nd.k = "Mark"   -> [s EXCEPT !.st = r, !.out = Append(@, i)]
           [] nd.k = "Seq"    -> [s EXCEPT !.st = Append(r, Fr("seq", i, 1))]
           [] nd.k \in {"If", "IfElse"} -> [s EXCEPT !.st = r \o <<Fr("ifc", i, 0), X(kid(1))>>]
           [] nd.k = "While"  -> [s EXCEPT !.st = Append(r, Fr("loop", i, 0)), !.cnt[i] = 0]
           [] nd.k = "Do"     -> [s EXCEPT !.st = r \o <<Fr("do", i, 0), X(kid(1))>>, !.cnt[i] = 0]
           [] nd.k = "For"    -> [s EXCEPT !.st = Append(r, Fr("forc", i, 0)), !.cnt[i] = 0]
           [] nd.k = "WhileE" -> [s EXCEPT !.st = Append(r, Fr("loopE", i, 0))]
           [] nd.k = "DoE"    -> [s EXCEPT !.st = r \o <<Fr("doE", i, 0), X(kid(1))>>]
           [] nd.k = "ForE"   -> [s EXCEPT !.st = Append(r, Fr("ftest", i, 0)), !.cnt[i] = 0]
           [] nd.k = "SwitchE" -> [s EXCEPT !.st = r \o <<Fr("swdec", i, 0), X(kid(1))>>]
           [] nd.k = "Switch" ->
                LET cs == CasesOf(P, i)
                    hit == {j \in cs : Covers(P[j], nd.a)}
                    df  == {j \in cs : P[j].k = "Default"}
                    tg  == IF hit # {} THEN CHOOSE j \in hit : TRUE
                           ELSE IF df # {} THEN CHOOSE j \in df : TRUE ELSE 0
                IN IF tg = 0 THEN [s EXCEPT !.st = r, !.acc = nd.a]
                   ELSE [s EXCEPT !.st = Append(StackAt(P, tg), X(tg)), !.acc = nd.a]
           [] nd.k \in {"Case", "CaseR", "Default", "Label", "Expr"} -> [s EXCEPT !.st = Append(r, X(kid(1)))]
           [] nd.k = "Break"    -> [s EXCEPT !.st = PopTo(r, {"loop", "do", "fori", "sw", "loopE", "doE", "fincE"}, FALSE)]
           [] nd.k = "Continue" -> [s EXCEPT !.st = PopTo(r, {"loop", "do", "fori", "loopE", "doE", "fincE"}, TRUE)]
           [] nd.k \in {"Goto", "GotoStar"} ->
                LET tg == LabelNode(P, nd.a) IN
                IF tg = 0 THEN [s EXCEPT !.halt = TRUE, !.out = Append(@, -1)]
                ELSE [s EXCEPT !.st = Append(StackAt(P, tg), X(tg))]
           [] nd.k = "T"      -> [s EXCEPT !.st = r, !.out = Append(@, i), !.acc = 1]
           [] nd.k = "F"      -> [s EXCEPT !.st = r, !.out = Append(@, i), !.acc = 0]
           [] nd.k = "CntLt"  -> [s EXCEPT !.st = r, !.acc = IF s.cnt[i] < nd.a THEN 1 ELSE 0, !.cnt[i] = @ + 1]
           [] nd.k = "Not"    -> [s EXCEPT !.st = r \o <<Fr("not", i, 0), X(kid(1))>>]
           [] nd.k = "And"    -> [s EXCEPT !.st = r \o <<Fr("and", i, 0), X(kid(1))>>]
           [] nd.k = "Or"     -> [s EXCEPT !.st = r \o <<Fr("or", i, 0), X(kid(1))>>]
           [] nd.k = "Cond"   -> [s EXCEPT !.st = r \o <<Fr("cnd", i, 0), X(kid(1))>>]
           [] nd.k = "Elvis"  -> [s EXCEPT !.st = r \o <<Fr("elv", i, 0), X(kid(1))>>]
           [] nd.k \in {"Comma", "SE"} -> [s EXCEPT !.st = r \o <<X(kid(2)), X(kid(1))>>])
    [] f.t = "seq"  -> IF f.j <= nd.a THEN [s EXCEPT !.st = r \o <<Fr("seq", i, f.j + 1), X(kid(f.j))>>]
                       ELSE [s EXCEPT !.st = r]
    [] f.t = "ifc"  -> IF s.acc # 0 THEN [s EXCEPT !.st = Append(r, X(kid(2)))]
                       ELSE IF nd.k = "IfElse" THEN [s EXCEPT !.st = Append(r, X(kid(3)))]
                       ELSE [s EXCEPT !.st = r]
    [] f.t = "loop" ->  \* while: (mark,) counter++ < k
         LET v == CondVal(P, s.cnt, i)
             c2 == IF nd.a \in 1..3 THEN [s.cnt EXCEPT ![i] = @ + 1] ELSE s.cnt
         IN [s EXCEPT !.out = CondOut(P, @, i), !.cnt = c2, !.acc = v,
                      !.st = IF v = 1 THEN r \o <<Fr("loop", i, 0), X(kid(1))>> ELSE r]
    [] f.t = "do"   ->
         LET v == CondVal(P, s.cnt, i)
             c2 == IF nd.a \in 1..3 THEN [s.cnt EXCEPT ![i] = @ + 1] ELSE s.cnt
         IN [s EXCEPT !.out = CondOut(P, @, i), !.cnt = c2, !.acc = v,
                      !.st = IF v = 1 THEN r \o <<Fr("do", i, 0), X(kid(1))>> ELSE r]
    [] f.t = "forc" ->  \* for: (mark,) counter < k
         LET v == CondVal(P, s.cnt, i)
         IN [s EXCEPT !.out = CondOut(P, @, i), !.acc = v,
                      !.st = IF v = 1 THEN r \o <<Fr("fori", i, 0), X(kid(1))>> ELSE r]
    [] f.t = "fori" ->  \* for increment: (mark,) counter++
         [s EXCEPT !.out = IF Bit(nd.b, 1) THEN Append(@, 200 + i) ELSE @,
                   !.cnt[i] = @ + 1, !.st = Append(r, Fr("forc", i, 0))]
    [] f.t = "sw"   -> [s EXCEPT !.st = r]
    (* constructs with expression clauses: the marker frame (loopE / doE / fincE) is on the stack only
       while the BODY runs; the clauses run on wdec / ddec / fdec / ftest, which break and continue skip *)
    [] f.t = "loopE" -> [s EXCEPT !.st = r \o <<Fr("wdec", i, 0), X(kid(1))>>]
    [] f.t = "wdec"  -> IF s.acc # 0 THEN [s EXCEPT !.st = r \o <<Fr("loopE", i, 0), X(kid(2))>>] ELSE [s EXCEPT !.st = r]
    [] f.t = "doE"   -> [s EXCEPT !.st = r \o <<Fr("ddec", i, 0), X(kid(2))>>]
    [] f.t = "ddec"  -> IF s.acc # 0 THEN [s EXCEPT !.st = r \o <<Fr("doE", i, 0), X(kid(1))>>] ELSE [s EXCEPT !.st = r]
    [] f.t = "ftest" -> [s EXCEPT !.st = r \o <<Fr("fdec", i, 0), X(kid(1))>>]
    [] f.t = "fdec"  -> IF s.acc # 0 THEN [s EXCEPT !.st = r \o <<Fr("fincE", i, 0), X(kid(2))>>] ELSE [s EXCEPT !.st = r]
    [] f.t = "fincE" -> [s EXCEPT !.st = r \o <<Fr("ftest", i, 0), X(kid(3))>>]
    [] f.t = "swdec" ->
         LET cs == CasesOf(P, i)
             hit == {j \in cs : Covers(P[j], s.acc)}
             df  == {j \in cs : P[j].k = "Default"}
             tg  == IF hit # {} THEN CHOOSE j \in hit : TRUE
                    ELSE IF df # {} THEN CHOOSE j \in df : TRUE ELSE 0
         IN IF tg = 0 THEN [s EXCEPT !.st = r] ELSE [s EXCEPT !.st = Append(StackAt(P, tg), X(tg))]
    [] f.t = "not"  -> [s EXCEPT !.st = r, !.acc = IF @ = 0 THEN 1 ELSE 0]
    [] f.t = "bool" -> [s EXCEPT !.st = r, !.acc = IF @ = 0 THEN 0 ELSE 1]
    [] f.t = "and"  -> IF s.acc = 0 THEN [s EXCEPT !.st = r, !.acc = 0]
                       ELSE [s EXCEPT !.st = r \o <<Fr("bool", i, 0), X(kid(2))>>]
    [] f.t = "or"   -> IF s.acc # 0 THEN [s EXCEPT !.st = r, !.acc = 1]
                       ELSE [s EXCEPT !.st = r \o <<Fr("bool", i, 0), X(kid(2))>>]
    [] f.t = "cnd"  -> [s EXCEPT !.st = Append(r, X(IF s.acc # 0 THEN kid(2) ELSE kid(3)))]
    (* a ?: b - the value of a, if nonzero, IS the result: a is not evaluated again *)
    [] f.t = "elv"  -> IF s.acc # 0 THEN [s EXCEPT !.st = r] ELSE [s EXCEPT !.st = Append(r, X(kid(2)))]

(* Fuel steps, in chunks of 10 so that a halted machine costs next to nothing *)
Ten == <<1, 2, 3, 4, 5, 6, 7, 8, 9, 10>>
RunA(P) == FoldLeft(LAMBDA s, u : IF s.halt THEN s ELSE FoldLeft(LAMBDA s2, u2 : StepA(P, s2), s, Ten),
                    InitA(P), [u \in 1..(Fuel \div 10) |-> u])

----------------------------------------------------------------------------
(* ------------------------------ Level I -------------------------------- *)
NoL == <<"none", 0>>
U(n) == <<"u", n>>                          \* new_unique_name(): .L..n
Op(op, a, b, l, src) == [op |-> op, a |-> a, b |-> b, l |-> l, src |-> src, t |-> 0]
Lbl(l)        == Op("label", 0, 0, l, 0)
Jmp(l, src)   == Op("jmp", 0, 0, l, src)
Jz(l)         == Op("jz", 0, 0, l, 0)
Jnz(l)        == Op("jnz", 0, 0, l, 0)
SetA(v)       == Op("set", v, 0, NoL, 0)

(* gen_expr of a loop condition / increment *)
CondCode(P, i, incr) ==
  (IF Bit(P[i].b, 0) THEN <<Op("mark", 100 + i, -1, NoL, 0)>> ELSE <<>>) \o
  (IF P[i].a = 0 THEN <<SetA(0)>> ELSE IF P[i].a = 9 THEN <<SetA(1)>>
   ELSE <<Op(IF incr THEN "cntlt" ELSE "cmpcnt", i, P[i].a, NoL, 0)>>)
IncCode(P, i) ==
  (IF Bit(P[i].b, 1) THEN <<Op("mark", 200 + i, -1, NoL, 0)>> ELSE <<>>) \o <<Op("inc", i, 0, NoL, 0)>>

InitL(P) == [code |-> <<>>, fr |-> <<>>, brk |-> NoL, cont |-> NoL, sw |-> 0,
             swc |-> [i \in DOMAIN P |-> [cases |-> <<>>, dflt |-> NoL]],
             labs |-> <<>>, uq |-> 1, ct |-> 1,
             own |-> [i \in DOMAIN P |-> [brk |-> NoL, cont |-> NoL]], up |-> FALSE]

LF(n, j, c) == [n |-> n, j |-> j, c |-> c, brk |-> NoL, cont |-> NoL, sw |-> 0, l |-> NoL, ph |-> 0]
Emit1(L, ops) == [L EXCEPT !.code = @ \o ops]

(* stmt() / gen_stmt() on entering node i (parse order = emission order = pre-order) *)
Enter(P, L0, i) ==
  LET nd == P[i]
      k  == nd.k
      L  == [L0 EXCEPT !.up = (ChildTypes(k, nd.a) = <<>>)]
      push(LL, f) == [LL EXCEPT !.fr = Append(@, f)]
  IN
  CASE k = "Mark" -> Emit1(L, <<Op("mark", i, -1, NoL, 0)>>)
    [] k \in {"Seq", "Expr", "Not", "Comma", "SE"} -> push(L, LF(i, 1, 0))
    [] k \in {"If", "IfElse", "And", "Or", "Cond"} -> push([L EXCEPT !.ct = @ + 1], LF(i, 1, L.ct))
    (* conditional(): `a ?: b` becomes `tmp = a, tmp ? tmp : b`; ph = where the code of a begins *)
    [] k = "Elvis" -> push(L, [LF(i, 1, 0) EXCEPT !.ph = Len(L.code) + 1])
    [] k \in Loops ->
         LET b == U(L.uq)  c == U(L.uq + 1)  n == L.ct
             f == [LF(i, 1, n) EXCEPT !.brk = L.brk, !.cont = L.cont]     \* char *brk = brk_label; char *cont = cont_label;
             pre == <<Op("reset", i, 0, NoL, 0), Lbl(<<"begin", n>>)>> \o
                    (IF k = "Do" THEN <<>>
                     ELSE IF k = "For" /\ nd.a = 9 /\ ~Bit(nd.b, 0) THEN <<>>    \* for (;;): no condition
                     ELSE CondCode(P, i, k = "While") \o <<Jz(b)>>)
         IN push([L EXCEPT !.uq = @ + 2, !.ct = @ + 1, !.brk = b, !.cont = c, !.code = @ \o pre,
                           !.own[i] = [brk |-> b, cont |-> c]], f)
    (* while (cond) body: the condition is parsed BEFORE brk/cont_label are set *)
    [] k = "WhileE" -> push([L EXCEPT !.ct = @ + 1, !.code = Append(@, Lbl(<<"begin", L.ct>>))], LF(i, 1, L.ct))
    (* do body while (cond): labels set, body, labels restored, THEN the condition *)
    [] k = "DoE" ->
         LET b == U(L.uq)  c == U(L.uq + 1)
             f == [LF(i, 1, L.ct) EXCEPT !.brk = L.brk, !.cont = L.cont]
         IN push([L EXCEPT !.uq = @ + 2, !.ct = @ + 1, !.brk = b, !.cont = c, !.code = Append(@, Lbl(<<"begin", L.ct>>)),
                           !.own[i] = [brk |-> b, cont |-> c]], f)
    (* for (init; cond; inc) body *)
    [] k = "ForE" ->
         LET b == U(L.uq)  c == U(L.uq + 1)
             f == [LF(i, 1, L.ct) EXCEPT !.brk = L.brk, !.cont = L.cont]
             L1 == [L EXCEPT !.uq = @ + 2, !.ct = @ + 1, !.own[i] = [brk |-> b, cont |-> c],
                             !.code = @ \o <<Op("reset", i, 0, NoL, 0), Lbl(<<"begin", L.ct>>)>>]
         IN push(IF ForLate THEN L1 ELSE [L1 EXCEPT !.brk = b, !.cont = c], f)
    (* switch (cond) body: the condition is parsed before current_switch / brk_label are set *)
    [] k = "SwitchE" -> push(L, LF(i, 1, 0))
    [] k = "Switch" ->
         LET b == U(L.uq)
             f == [LF(i, 1, 0) EXCEPT !.brk = L.brk, !.sw = L.sw, !.ph = Len(L.code) + 2]
         IN push([L EXCEPT !.uq = @ + 1, !.brk = b, !.sw = i, !.own[i] = [brk |-> b, cont |-> NoL],
                           !.code = @ \o <<Op("load", nd.a, 0, NoL, 0), Op("dispatch", i, 0, NoL, 0)>>], f)
    [] k \in {"Case", "CaseR", "Default"} ->
         push([L EXCEPT !.uq = @ + 1, !.code = Append(@, Lbl(U(L.uq)))], [LF(i, 1, 0) EXCEPT !.l = U(L.uq)])
    [] k = "Break"    -> Emit1(L, <<Jmp(L.brk, i)>>)
    [] k = "Continue" -> Emit1(L, <<Jmp(L.cont, i)>>)
    [] k = "Goto"     -> Emit1(L, <<Op("goto", nd.a, 0, NoL, i)>>)
    [] k = "GotoStar" -> Emit1(L, <<Op("gotoind", nd.a, 0, NoL, i)>>)     \* lea tab[a] ; jmp *%rax
    [] k = "Label"    -> push([L EXCEPT !.uq = @ + 1, !.code = Append(@, Lbl(U(L.uq))),
                                        !.labs = <<[n |-> nd.a, l |-> U(L.uq)]>> \o @], LF(i, 1, 0))
    [] k = "T"        -> Emit1(L, <<Op("mark", i, 1, NoL, 0)>>)
    [] k = "F"        -> Emit1(L, <<Op("mark", i, 0, NoL, 0)>>)
    [] k = "CntLt"    -> Emit1(L, <<Op("cntlt", i, nd.a, NoL, 0)>>)

(* the compare chain of ND_SWITCH, in case_next order, then default, then break *)
Chain(L, i, brk) ==
  LET cs == L.swc[i].cases
      one(c) == IF c.lo = c.hi THEN Op("cmpje", c.lo, 0, c.l, 0)
                ELSE Op("cmprange", c.lo, IF Variant = "range-open" THEN c.hi - 1 ELSE c.hi, c.l, 0)
      cmps == [x \in DOMAIN cs |-> one(cs[x])]
      dj   == IF L.swc[i].dflt # NoL THEN <<Jmp(L.swc[i].dflt, 0)>> ELSE <<>>
  IN IF Variant = "default-first" THEN dj \o cmps \o <<Jmp(brk, 0)>> ELSE cmps \o dj \o <<Jmp(brk, 0)>>

(* the j-th child of the node on top of the frame stack has been parsed and generated *)
After(P, L) ==
  IF ~L.up \/ L.fr = <<>> THEN [L EXCEPT !.up = FALSE]
  ELSE
  LET f  == L.fr[Len(L.fr)]
      i  == f.n
      nd == P[i]
      k  == nd.k
      c  == f.c
      n  == Len(ChildTypes(k, nd.a))
      last == f.j = n
      rest == SubSeq(L.fr, 1, Len(L.fr) - 1)
      L1 == IF last THEN [L EXCEPT !.fr = rest, !.up = TRUE]
            ELSE [L EXCEPT !.fr = Append(rest, [f EXCEPT !.j = @ + 1]), !.up = FALSE]
      e(ops) == Emit1(L1, ops)
      own == L.own[i]
  IN
  CASE k \in {"Seq", "Expr", "Comma", "SE", "Label"} -> L1
    [] k = "Not" -> e(<<Op("not", 0, 0, NoL, 0)>>)
    [] k = "If" -> IF f.j = 1 THEN e(<<Jz(<<"else", c>>)>>)
                   ELSE e(<<Jmp(<<"end", c>>, 0), Lbl(<<"else", c>>), Lbl(<<"end", c>>)>>)
    [] k \in {"IfElse", "Cond"} ->
                   IF f.j = 1 THEN e(<<Jz(<<"else", c>>)>>)
                   ELSE IF f.j = 2 THEN e(<<Jmp(<<"end", c>>, 0), Lbl(<<"else", c>>)>>)
                   ELSE e(<<Lbl(<<"end", c>>)>>)
    (* ND_COMMA(ND_ASSIGN(tmp, a), ND_COND(tmp, tmp, b)): count() is called when the ND_COND is generated, i.e. after a.
       Variant "elvis-reeval": no temporary when the top node of a is ND_DEREF / ND_MEMBER (operand shapes 1..4) -
       the operand subtree is used as the condition AND as the then-arm, so its code is emitted twice. *)
    [] k = "Elvis" ->
         IF f.j = 1
         THEN LET c2  == L.ct
                  seg == SubSeq(L.code, f.ph, Len(L.code))
                  top == P[nd.kids[1]]
                  ops == IF Variant = "elvis-reeval" /\ top.k \in {"T", "F"} /\ top.a # 0
                         THEN <<Jz(<<"else", c2>>)>> \o seg \o <<Jmp(<<"end", c2>>, 0), Lbl(<<"else", c2>>)>>
                         ELSE <<Op("settmp", i, 0, NoL, 0), Op("gettmp", i, 0, NoL, 0), Jz(<<"else", c2>>),
                                Op("gettmp", i, 0, NoL, 0), Jmp(<<"end", c2>>, 0), Lbl(<<"else", c2>>)>>
              IN [e(ops) EXCEPT !.ct = @ + 1, !.fr = Append(rest, [f EXCEPT !.j = 2, !.c = c2])]
         ELSE e(<<Lbl(<<"end", c>>)>>)
    [] k = "And" -> IF f.j = 1 THEN e(<<Jz(<<"false", c>>)>>)
                    ELSE e(<<Jz(<<"false", c>>), SetA(1), Jmp(<<"end", c>>, 0), Lbl(<<"false", c>>), SetA(0), Lbl(<<"end", c>>)>>)
    [] k = "Or"  -> IF f.j = 1 THEN e(<<IF Variant = "and-or-mixup" THEN Jz(<<"true", c>>) ELSE Jnz(<<"true", c>>)>>)
                    ELSE e(<<Jnz(<<"true", c>>), SetA(0), Jmp(<<"end", c>>, 0), Lbl(<<"true", c>>), SetA(1), Lbl(<<"end", c>>)>>)
    [] k = "While" ->
         [e(<<Lbl(own.cont), Jmp(<<"begin", c>>, 0), Lbl(own.brk)>>)
            EXCEPT !.brk = IF Variant = "norestore-brk" THEN @ ELSE f.brk,
                   !.cont = IF Variant = "norestore-cont" THEN @ ELSE f.cont]
    [] k = "Do" ->
         [e(<<Lbl(own.cont)>> \o CondCode(P, i, TRUE) \o <<Jnz(<<"begin", c>>), Lbl(own.brk)>>)
            EXCEPT !.brk = f.brk, !.cont = f.cont]
    [] k = "For" ->
         [e(<<Lbl(own.cont)>> \o IncCode(P, i) \o <<Jmp(<<"begin", c>>, 0), Lbl(own.brk)>>)
            EXCEPT !.brk = f.brk, !.cont = f.cont]
    [] k = "WhileE" ->
         IF f.j = 1
         THEN LET b == U(L.uq)  cc == U(L.uq + 1) IN
              [e(<<Jz(b)>>) EXCEPT !.uq = @ + 2, !.brk = b, !.cont = cc, !.own[i] = [brk |-> b, cont |-> cc],
                                   !.fr = Append(rest, [f EXCEPT !.j = 2, !.brk = L.brk, !.cont = L.cont])]
         ELSE [e(<<Lbl(own.cont), Jmp(<<"begin", c>>, 0), Lbl(own.brk)>>) EXCEPT !.brk = f.brk, !.cont = f.cont]
    [] k = "DoE" ->
         IF f.j = 1
         THEN (IF Variant = "do-restore-late" THEN e(<<Lbl(own.cont)>>)
               ELSE [e(<<Lbl(own.cont)>>) EXCEPT !.brk = f.brk, !.cont = f.cont])
         ELSE [e(<<Jnz(<<"begin", c>>), Lbl(own.brk)>>) EXCEPT !.brk = f.brk, !.cont = f.cont]
    [] k = "ForE" ->
         IF f.j = 1 THEN (IF ForLate THEN [e(<<Jz(own.brk)>>) EXCEPT !.brk = own.brk, !.cont = own.cont] ELSE e(<<Jz(own.brk)>>))
         ELSE IF f.j = 2 THEN (IF ForLate THEN [e(<<Lbl(own.cont)>>) EXCEPT !.brk = f.brk, !.cont = f.cont] ELSE e(<<Lbl(own.cont)>>))
         ELSE [e(<<Op("inc", i, 0, NoL, 0), Jmp(<<"begin", c>>, 0), Lbl(own.brk)>>) EXCEPT !.brk = f.brk, !.cont = f.cont]
    [] k = "SwitchE" ->
         IF f.j = 1
         THEN LET b == U(L.uq) IN
              [e(<<Op("dispatch", i, 0, NoL, 0)>>) EXCEPT !.uq = @ + 1, !.brk = b, !.sw = i, !.own[i] = [brk |-> b, cont |-> NoL],
                     !.fr = Append(rest, [f EXCEPT !.j = 2, !.brk = L.brk, !.sw = L.sw, !.ph = Len(L.code) + 1])]
         ELSE LET ch == Chain(L, i, own.brk)
                  patched == SubSeq(L.code, 1, f.ph - 1) \o ch \o SubSeq(L.code, f.ph + 1, Len(L.code))
              IN [L1 EXCEPT !.code = Append(patched, Lbl(own.brk)), !.brk = f.brk, !.sw = f.sw]
    [] k = "Switch" ->
         LET ch == Chain(L, i, own.brk)
             patched == SubSeq(L.code, 1, f.ph - 1) \o ch \o SubSeq(L.code, f.ph + 1, Len(L.code))
         IN [L1 EXCEPT !.code = Append(patched, Lbl(own.brk)), !.brk = f.brk,
                       !.sw = IF Variant = "norestore-sw" THEN @ ELSE f.sw]
    [] k \in {"Case", "CaseR"} ->     \* node->case_next = current_switch->case_next; current_switch->case_next = node
         IF L.sw = 0 THEN L1
         ELSE [L1 EXCEPT !.swc[L.sw].cases = <<[lo |-> nd.a, hi |-> IF k = "Case" THEN nd.a ELSE nd.b, l |-> f.l]>> \o @]
    [] k = "Default" -> IF L.sw = 0 THEN L1 ELSE [L1 EXCEPT !.swc[L.sw].dflt = f.l]

Lookup(labs, n) == LET idx == {x \in DOMAIN labs : labs[x].n = n} IN
                   IF idx = {} THEN NoL ELSE labs[CHOOSE x \in idx : \A y \in idx : x <= y].l

(* resolve_goto_labels(), then the assembler's symbol resolution *)
Resolve(L) ==
  LET c1 == [p \in DOMAIN L.code |->
               IF L.code[p].op \in {"goto", "gotoind"} THEN [L.code[p] EXCEPT !.op = "jmp", !.l = Lookup(L.labs, L.code[p].a)]
               ELSE L.code[p]]
      pos(l) == LET ps == {p \in DOMAIN c1 : c1[p].op = "label" /\ c1[p].l = l} IN
                IF ps = {} THEN 0 ELSE CHOOSE p \in ps : \A q \in ps : p <= q
  IN [p \in DOMAIN c1 |-> IF c1[p].l # NoL /\ c1[p].op # "label" THEN [c1[p] EXCEPT !.t = pos(c1[p].l)] ELSE c1[p]]

Lower(P) ==
  LET L == FoldLeft(LAMBDA acc, i :
                      FoldLeft(LAMBDA a2, u : After(P, a2), Enter(P, acc, i), [u \in 1..(MaxD + 1) |-> u]),
                    InitL(P), [i \in DOMAIN P |-> i])
  IN [code |-> Resolve(L), own |-> L.own]

(* the jump machine *)
InitI(P) == [pc |-> 1, acc |-> 0, cnt |-> [i \in DOMAIN P |-> 0], out |-> <<>>, halt |-> FALSE]
StepI(C, m) ==
  IF m.halt THEN m
  ELSE IF m.pc > Len(C) THEN [m EXCEPT !.halt = TRUE]
  ELSE
  LET o == C[m.pc]
      nx == [m EXCEPT !.pc = @ + 1]
      go == IF o.t = 0 THEN [m EXCEPT !.halt = TRUE, !.out = Append(@, -2)] ELSE [m EXCEPT !.pc = o.t]
  IN
  CASE o.op = "mark"   -> [nx EXCEPT !.out = Append(@, o.a), !.acc = IF o.b >= 0 THEN o.b ELSE @]
    [] o.op = "label"  -> nx
    [] o.op = "set"    -> [nx EXCEPT !.acc = o.a]
    [] o.op = "load"   -> [nx EXCEPT !.acc = o.a]
    [] o.op = "not"    -> [nx EXCEPT !.acc = IF @ = 0 THEN 1 ELSE 0]
    [] o.op = "jmp"    -> go
    [] o.op = "jz"     -> IF m.acc = 0 THEN go ELSE nx
    [] o.op = "jnz"    -> IF m.acc # 0 THEN go ELSE nx
    [] o.op = "cmpje"  -> IF m.acc = o.a THEN go ELSE nx
    [] o.op = "cmprange" -> IF o.a <= m.acc /\ m.acc <= o.b THEN go ELSE nx
    [] o.op = "reset"  -> [nx EXCEPT !.cnt[o.a] = 0]
    [] o.op = "inc"    -> [nx EXCEPT !.cnt[o.a] = @ + 1]
    [] o.op = "cntlt"  -> [nx EXCEPT !.acc = IF m.cnt[o.a] < o.b THEN 1 ELSE 0, !.cnt[o.a] = @ + 1]
    [] o.op = "cmpcnt" -> [nx EXCEPT !.acc = IF m.cnt[o.a] < o.b THEN 1 ELSE 0]
    [] o.op = "settmp" -> [nx EXCEPT !.cnt[o.a] = m.acc]          \* the unnamed local of `a ?: b`
    [] o.op = "gettmp" -> [nx EXCEPT !.acc = m.cnt[o.a]]
    [] OTHER           -> [m EXCEPT !.halt = TRUE, !.out = Append(@, -3)]     \* unpatched dispatch etc.

RunI(P, C) == FoldLeft(LAMBDA m, u : IF m.halt THEN m ELSE FoldLeft(LAMBDA m2, u2 : StepI(C, m2), m, Ten),
                       InitI(P), [u \in 1..((4 * Fuel) \div 10) |-> u])

----------------------------------------------------------------------------
(* ------------------------- building programs ---------------------------- *)
VARIABLES prog, holes, code, own, ra, ri, done
vars == <<prog, holes, code, own, ra, ri, done>>

Hole(par, pos, t, d) == [par |-> par, pos |-> pos, t |-> t, d |-> d]

Init == /\ prog = <<>> /\ holes = <<Hole(0, 1, "s", 1)>>
        /\ code = <<>> /\ own = <<>> /\ ra = <<>> /\ ri = <<>> /\ done = FALSE

(* context of a hole below node p *)
RECURSIVE FirstOf(_, _)
FirstOf(p, S) == IF p = 0 THEN 0 ELSE IF prog[p].k \in S THEN p ELSE FirstOf(prog[p].par, S)
InSE(p)      == FirstOf(p, {"SE"}) # 0
CaseOK(p, q)   == LET x == EnclIn(prog, p, q, {"Switch", "SwitchE", "SE"}) IN x # 0 /\ prog[x].k # "SE"
SwitchOf(p, q) == EnclIn(prog, p, q, {"Switch", "SwitchE"})
Taken(s, lo, hi) == \E j \in DOMAIN prog : /\ prog[j].k \in {"Case", "CaseR"}
                                            /\ EnclSwitch(prog, j) = s
                                            /\ LET jl == prog[j].a  jh == IF prog[j].k = "Case" THEN prog[j].a ELSE prog[j].b
                                               IN ~(hi < jl \/ jh < lo)
HasDefault(s) == \E j \in DOMAIN prog : prog[j].k = "Default" /\ EnclSwitch(prog, j) = s

(* candidate nodes <<kind, a, b>> for a hole of type t below node p *)
Cands(t, p, q) ==
  LET K(S) == S \cap Kinds
      stm == { <<k, 0, 0>> : k \in K({"Mark", "If", "IfElse", "Expr", "WhileE", "DoE", "ForE", "SwitchE"}) }
             \cup { <<"Seq", a, 0>> : a \in IF "Seq" \in Kinds THEN {2, 3} ELSE {} }
             \cup { <<k, a, b>> : k \in K({"While", "Do"}), a \in LoopConds, b \in LoopB \cap {0, 1} }
             \cup { <<"For", a, b>> : a \in IF "For" \in Kinds THEN LoopConds ELSE {}, b \in LoopB }
             \cup { <<"Switch", v, 0>> : v \in IF "Switch" \in Kinds THEN SwVals ELSE {} }
             \cup { <<"Case", v, 0>> : v \in IF "Case" \in Kinds /\ CaseOK(p, q) THEN {x \in CaseVals : ~Taken(SwitchOf(p, q), x, x)} ELSE {} }
             \cup { <<"CaseR", c[1], c[2]>> : c \in IF "CaseR" \in Kinds /\ CaseOK(p, q)
                                                   THEN {y \in CaseVals \X CaseVals : y[1] < y[2] /\ ~Taken(SwitchOf(p, q), y[1], y[2])} ELSE {} }
             \cup { <<"Default", 0, 0>> : x \in IF "Default" \in Kinds /\ CaseOK(p, q) /\ ~HasDefault(SwitchOf(p, q)) THEN {1} ELSE {} }
             \cup { <<"Break", 0, 0>> : x \in IF "Break" \in Kinds /\ EnclIn(prog, p, q, Loops \cup ELoops \cup {"Switch", "SwitchE"}) # 0 THEN {1} ELSE {} }
             \cup { <<"Continue", 0, 0>> : x \in IF "Continue" \in Kinds /\ EnclIn(prog, p, q, Loops \cup ELoops) # 0 THEN {1} ELSE {} }
             \cup { <<k, n, 0>> : k \in K({"Goto", "GotoStar"}), n \in 1..NLab }
             \cup { <<"Label", n, 0>> : n \in IF "Label" \in Kinds /\ ~InSE(p)
                                              THEN {x \in 1..NLab : \A j \in DOMAIN prog : ~(prog[j].k = "Label" /\ prog[j].a = x)} ELSE {} }
      exp == { <<k, 0, 0>> : k \in K({"Not", "And", "Or", "Cond", "Elvis", "Comma", "SE"}) }
             \cup { <<k, sh, 0>> : k \in K({"T", "F"}), sh \in Shapes }
  IN IF t = "s" THEN stm
     ELSE IF t = "e" THEN exp
     ELSE exp \cup { <<"CntLt", a, 0>> : a \in IF "CntLt" \in Kinds THEN {1, 2} ELSE {} }

GotosResolved(P) == \A j \in DOMAIN P : P[j].k \in {"Goto", "GotoStar"} => LabelNode(P, P[j].a) # 0

Case3(P, a) == [p |-> [i \in DOMAIN P |-> [k |-> P[i].k, a |-> P[i].a, b |-> P[i].b, kids |-> P[i].kids]], tr |-> a.out]

Add(c) ==
  LET h   == holes[Len(holes)]
      i   == Len(prog) + 1
      cts == ChildTypes(c[1], c[2])
      n   == Len(cts)
      nd  == Node(c[1], c[2], c[3], h.par, h.pos, h.d)
      p1  == Append(IF h.par = 0 THEN prog ELSE [prog EXCEPT ![h.par].kids = Append(@, i)], nd)
      nh  == [j \in 1..n |-> Hole(i, n + 1 - j, cts[n + 1 - j], h.d + 1)]     \* first child on top
      h2  == SubSeq(holes, 1, Len(holes) - 1) \o nh
  IN /\ ~done /\ holes # <<>>
     /\ i + Len(h2) <= MaxN
     /\ n > 0 => h.d < MaxD
     /\ prog' = p1 /\ holes' = h2
     /\ IF h2 = <<>>
        THEN /\ GotosResolved(p1)
             /\ done' = TRUE
             /\ LET lw == Lower(p1) IN code' = lw.code /\ own' = lw.own
             /\ ra' = RunA(p1)
             /\ ri' = RunI(p1, code')
             /\ (Emit /\ ra'.halt) => CSVWrite("%1$s", <<ToJson(Case3(p1, ra'))>>, IOEnv.OUT)
        ELSE UNCHANGED <<code, own, ra, ri, done>>

Next == /\ ~done /\ holes # <<>>
        /\ \E c \in Cands(holes[Len(holes)].t, holes[Len(holes)].par, holes[Len(holes)].pos) : Add(c)
Spec == Init /\ [][Next]_vars

----------------------------------------------------------------------------
Terminates == done /\ ra.halt
(* compiled code executes the same marks in the same order, the same number of times *)
TraceEq == Terminates => (ri.halt /\ ri.out = ra.out)
(* break / continue reach the innermost enclosing loop or switch / loop *)
JumpsInnermost ==
  done => \A p \in DOMAIN code :
            (code[p].op = "jmp" /\ code[p].src # 0) =>
              LET i == code[p].src IN
              /\ prog[i].k = "Break"    => code[p].l = own[EnclBreak(prog, i)].brk
              /\ prog[i].k = "Continue" => code[p].l = own[EnclLoop(prog, i)].cont
(* labels unique per function, every jump target defined *)
LabelsOK ==
  done => /\ \A p, q \in DOMAIN code : (p # q /\ code[p].op = "label" /\ code[q].op = "label") => code[p].l # code[q].l
          /\ \A p \in DOMAIN code : code[p].op \in {"jmp", "jz", "jnz", "cmpje", "cmprange"} => code[p].t # 0
          /\ \A p \in DOMAIN code : code[p].op # "dispatch"
(* Level A sanity: the trace only contains marks of the program *)
AWellFormed ==
  done => \A x \in DOMAIN ra.out :
            LET m == ra.out[x] IN
            \/ m \in DOMAIN prog /\ prog[m].k \in {"Mark", "T", "F"}
            \/ m - 100 \in DOMAIN prog /\ prog[m - 100].k \in Loops
            \/ m - 200 \in DOMAIN prog /\ prog[m - 200].k = "For"
=============================================================================
