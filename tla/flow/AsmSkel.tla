------------------------------ MODULE AsmSkel ------------------------------
(* C03, optional: the label/jump skeleton of an emitted -S file is well formed.
   The assembly text is reduced by the harness to the events
     [e |-> "label", l |-> name]    a local label definition (.L...:)
     [e |-> "jump",  l |-> name]    jmp/je/jne/jbe/... to a local label, or lea .L...(%rip)
     [e |-> "end"]                  end of the file
   (function-local symbols only).  The trace is accepted iff no label is
   defined twice and, at the end, every jump target has been defined.  This is
   deliberately not a comparison with Lower(P) of CFlow.tla: any correct
   lowering passes.                                                          *)
EXTENDS Integers, Sequences, FiniteSets, TLC, Json, IOUtils

Tr == ndJsonDeserialize(IOEnv.TRACE)

VARIABLES l, defined, wanted
vars == <<l, defined, wanted>>

Init == l = 1 /\ defined = {} /\ wanted = {}

Label == /\ l <= Len(Tr) /\ Tr[l].e = "label"
         /\ Tr[l].l \notin defined                 \* labels unique
         /\ defined' = defined \cup {Tr[l].l} /\ UNCHANGED wanted /\ l' = l + 1
Jump  == /\ l <= Len(Tr) /\ Tr[l].e = "jump"
         /\ wanted' = wanted \cup {Tr[l].l} /\ UNCHANGED defined /\ l' = l + 1
End   == /\ l <= Len(Tr) /\ Tr[l].e = "end"
         /\ wanted \subseteq defined               \* every jump target defined
         /\ defined' = {} /\ wanted' = {} /\ l' = l + 1

Next == Label \/ Jump \/ End
Spec == Init /\ [][Next]_vars
=============================================================================
