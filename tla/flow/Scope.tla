------------------------------- MODULE Scope -------------------------------
(* C03, lexical scoping.  One identifier `x`, declared up to MaxDecl times in
   up to MaxDepth nested scopes, in every name space:
     ordinary identifiers ("ord": object | typedef name | enumerator share one
     name space), tags ("tag"), members ("mem": one name space per struct),
     labels ("lab": function scope, one label per function).
   A history is a sequence of events
     Decl(ns, kind)        declare x (file scope or the current block)
     Open("fn", p)         start of the function definition; p: it has a parameter x
     Open("block", FALSE)  compound statement
     Open("for", p)        for statement; p: its clause-1 declares an object x;
                           the body is a compound statement
     Close                 end of the innermost of these
   and after every event inside the function every name space is probed.

   Level A (C11 6.2.1, 6.2.3): a stack of scopes; a use denotes the declaration
   of the innermost scope that declares x in that name space.  Parameters and
   the outermost block of the function body are ONE scope; clause-1 of a for
   statement is a scope of its own that encloses the body.
   Level I (parse.c): `scope` is a chain of Scope records with two maps, `vars`
   (objects, typedefs and enumerators alike: push_scope) and `tags`
   (push_tag_scope); function(): enter_scope for the parameters, compound_stmt:
   enter_scope again for the body; stmt() "for": enter_scope / leave_scope
   around the whole statement; find_var / find_tag walk the chain.  Labels are
   kept in the per-function list `labels`, matched by resolve_goto_labels() and
   reset after each function.  Members are looked up in the struct type.

   Invariant SameBinding: both levels bind every probe to the same declaration.
   `Variant` selects a wrong Level I (sensitivity controls).                  *)
EXTENDS Integers, Sequences, FiniteSets, TLC, Json, CSV, IOUtils

CONSTANTS MaxDecl, MaxDepth, MaxOpen, Variant, Emit
   \* Variant: "ok" | "for-noleave" | "typedef-own-map"

None == [k |-> "none", id |-> 0]
OrdKinds == {"obj", "typedef", "enum"}

VARIABLES stA,      \* Level A: sequence of scopes [kind, ord, tag]  (innermost last)
          chI,      \* Level I: the chain: sequence of [vars, tdefs, tags]  (innermost last)
          kinds,    \* which construct opened each Level I group: sequence of [kind, n] (n scopes entered)
          labA, labI, \* label x of the current function: id or 0 / list of ids
          nd,       \* declarations so far
          phase,    \* "file" | "fn" | "after"
          hist
vars == <<stA, chI, kinds, labA, labI, nd, phase, hist>>

ScA(kind) == [kind |-> kind, ord |-> None, tag |-> 0]
ScI == [vars |-> None, tdefs |-> None, tags |-> 0]

(* ---- resolution ---- *)
RECURSIVE InnermostA(_, _, _)
InnermostA(st, i, ns) == IF i = 0 THEN (IF ns = "ord" THEN None ELSE 0)
                         ELSE IF ns = "ord" /\ st[i].ord # None THEN st[i].ord
                         ELSE IF ns = "tag" /\ st[i].tag # 0 THEN st[i].tag
                         ELSE InnermostA(st, i - 1, ns)
BindA(ns) == InnermostA(stA, Len(stA), ns)

RECURSIVE FindVar(_, _)        \* find_var(): first scope of the chain whose `vars` map has x
FindVar(ch, i) == IF i = 0 THEN None ELSE IF ch[i].vars # None THEN ch[i].vars ELSE FindVar(ch, i - 1)
RECURSIVE FindTdef(_, _)
FindTdef(ch, i) == IF i = 0 THEN None ELSE IF ch[i].tdefs # None THEN ch[i].tdefs ELSE FindTdef(ch, i - 1)
RECURSIVE FindTag(_, _)        \* find_tag()
FindTag(ch, i) == IF i = 0 THEN 0 ELSE IF ch[i].tags # 0 THEN ch[i].tags ELSE FindTag(ch, i - 1)
BindI(ns) == IF ns = "tag" THEN FindTag(chI, Len(chI))
             ELSE IF Variant = "typedef-own-map"
                  THEN (IF FindVar(chI, Len(chI)) # None THEN FindVar(chI, Len(chI)) ELSE FindTdef(chI, Len(chI)))
                  ELSE FindVar(chI, Len(chI))
LabelBindA == labA
LabelBindI == IF labI = <<>> THEN 0 ELSE labI[1]       \* resolve_goto_labels: first match in the (prepended) list

Probe == [ord |-> BindA("ord"), tag |-> BindA("tag"), lab |-> LabelBindA]
Ev(e, k, p, id) == [e |-> e, k |-> k, p |-> p, id |-> id, exp |-> Probe']

(* ---- events ---- *)
Depth == Len(kinds)

Decl(ns, k) ==
  LET id == nd + 1
      top == Len(stA)
  IN /\ nd < MaxDecl /\ phase \in {"file", "fn"}
     /\ ns = "ord" => stA[top].ord = None          \* one declaration of x per scope and name space
     /\ ns = "tag" => stA[top].tag = 0
     /\ ns \in {"lab", "mem"} => phase = "fn"
     /\ ns = "lab" => labA = 0
     /\ nd' = id
     /\ stA' = IF ns = "ord" THEN [stA EXCEPT ![top].ord = [k |-> k, id |-> id]]
               ELSE IF ns = "tag" THEN [stA EXCEPT ![top].tag = id] ELSE stA
     /\ chI' = LET t == Len(chI) IN
               IF ns = "ord" THEN (IF Variant = "typedef-own-map" /\ k = "typedef"
                                   THEN [chI EXCEPT ![t].tdefs = [k |-> k, id |-> id]]
                                   ELSE [chI EXCEPT ![t].vars = [k |-> k, id |-> id]])     \* push_scope(name)
               ELSE IF ns = "tag" THEN [chI EXCEPT ![t].tags = id]                          \* push_tag_scope
               ELSE chI
     /\ labA' = IF ns = "lab" THEN id ELSE labA
     /\ labI' = IF ns = "lab" THEN <<id>> \o labI ELSE labI
     /\ UNCHANGED <<kinds, phase>>
     /\ hist' = Append(hist, Ev("decl", IF ns = "ord" THEN k ELSE ns, FALSE, id))

Open(kind, p) ==
  LET id == nd + 1
      decl == [k |-> "obj", id |-> id]
  IN /\ IF kind = "fn" THEN phase = "file" ELSE phase = "fn" /\ Depth < MaxDepth
     /\ Cardinality({i \in DOMAIN hist : hist[i].e = "open"}) < MaxOpen      \* bounds the history
     /\ p => nd < MaxDecl
     /\ nd' = IF p THEN id ELSE nd
     /\ phase' = "fn"
     /\ stA' = IF kind = "fn" THEN Append(stA, [ScA("fn") EXCEPT !.ord = IF p THEN decl ELSE None])
               ELSE IF kind = "for" THEN stA \o <<[ScA("for") EXCEPT !.ord = IF p THEN decl ELSE None], ScA("block")>>
               ELSE Append(stA, ScA("block"))
     /\ chI' = IF kind = "block" THEN Append(chI, ScI)                            \* compound_stmt: enter_scope
               ELSE chI \o <<[ScI EXCEPT !.vars = IF p THEN decl ELSE None], ScI>>   \* enter_scope; declaration; body: enter_scope
     /\ kinds' = Append(kinds, [kind |-> kind, nA |-> IF kind = "for" THEN 2 ELSE 1, nI |-> IF kind = "block" THEN 1 ELSE 2])
     /\ UNCHANGED <<labA, labI>>
     /\ hist' = Append(hist, Ev("open", kind, p, IF p THEN id ELSE 0))

Close ==
  LET g == kinds[Len(kinds)]
      popI == IF Variant = "for-noleave" /\ g.kind = "for" THEN g.nI - 1 ELSE g.nI
  IN /\ phase = "fn" /\ kinds # <<>>
     /\ kinds' = SubSeq(kinds, 1, Len(kinds) - 1)
     /\ stA' = SubSeq(stA, 1, Len(stA) - g.nA)
     /\ chI' = SubSeq(chI, 1, Len(chI) - popI)
     /\ phase' = IF g.kind = "fn" THEN "after" ELSE "fn"
     /\ UNCHANGED <<nd, labA, labI>>
     /\ hist' = Append(hist, Ev("close", g.kind, FALSE, 0))
     /\ (Emit /\ g.kind = "fn") => CSVWrite("%1$s", <<ToJson([h |-> hist'])>>, IOEnv.OUT)

(* a second function g with its own label x follows every history: labels are per function *)
SecondFn ==
  /\ phase = "after"
  /\ phase' = "done"
  /\ labA' = 99
  /\ labI' = <<99>>                      \* gotos = labels = NULL after f, then g declares its own x
  /\ UNCHANGED <<stA, chI, kinds, nd>>
  /\ hist' = Append(hist, Ev("g", "lab", FALSE, 99))

Init == /\ stA = <<ScA("file")>> /\ chI = <<ScI>> /\ kinds = <<>>
        /\ labA = 0 /\ labI = <<>> /\ nd = 0 /\ phase = "file" /\ hist = <<>>

Next == \/ \E k \in OrdKinds : Decl("ord", k)
        \/ \E ns \in {"tag", "mem", "lab"} : Decl(ns, ns)
        \/ \E kind \in {"fn", "block", "for"}, p \in BOOLEAN : (kind = "block" => ~p) /\ Open(kind, p)
        \/ Close
        \/ SecondFn
Spec == Init /\ [][Next]_vars

----------------------------------------------------------------------------
SameBinding == /\ BindI("ord") = BindA("ord")
               /\ BindI("tag") = BindA("tag")
               /\ LabelBindI = LabelBindA
(* enter_scope / leave_scope are balanced: after the function the chain is the file scope again *)
Balanced == phase \in {"after", "done"} => Len(chI) = 1 /\ Len(stA) = 1
=============================================================================
