------------------------------- MODULE Scope -------------------------------
(* C03, lexical scoping.  One identifier `x`, declared up to MaxDecl times in
   up to MaxDepth nested scopes, in every name space:
     ordinary identifiers ("ord": object | typedef name | enumerator share one
     name space), tags ("tag"), members ("mem": one name space per struct),
     labels ("lab": function scope, one label per function).
   A history is a sequence of events
     Decl(ns, kind)        declare x (file scope or the current block)
     Open("fn", p)         start of the function definition; p: it has a parameter x
     Open("block", FALSE)  compound statement
     Open("for", p)        for statement; p: its clause-1 declares an object x;
                           the body is a compound statement
     Close                 end of the innermost of these
   and after every event inside the function every name space is probed.

   Level A (C11 6.2.1, 6.2.3): a stack of scopes; a use denotes the declaration
   of the innermost scope that declares x in that name space.  Parameters and
   the outermost block of the function body are ONE scope; clause-1 of a for
   statement is a scope of its own that encloses the body.
   Level I (parse.c): `scope` is a chain of Scope records with two maps, `vars`
   (objects, typedefs and enumerators alike: push_scope) and `tags`
   (push_tag_scope); function(): enter_scope for the parameters, compound_stmt:
   enter_scope again for the body; stmt() "for": enter_scope / leave_scope
   around the whole statement; find_var / find_tag walk the chain.  Labels are
   kept in the per-function list `labels`, matched by resolve_goto_labels() and
   reset after each function.  Members are looked up in the struct type.

   Tags (C11 6.7.2.3).  A scope maps the tag x to a TYPE; a type is incomplete
   until a definition completes it.  Three forms are distinguished:
     definition   `struct x { ... };`  ALWAYS concerns the CURRENT scope: it
                  completes the incomplete type the current scope already has for
                  x, otherwise it declares a new type there — even if an enclosing
                  scope holds a (complete or incomplete) x;
     "tagfwd"     `struct x;`   declares x in the current scope (a new incomplete
                  type that hides an outer x) unless the scope already has one;
     "tagref"     `struct x *p;`  refers to the visible x if there is one, else
                  declares an incomplete type in the current scope; the pointer
                  object p<id> stays bound to that type and is probed later.
   Level I: struct_union_decl(): without `{`: find_tag() through the whole chain
   (only for `struct x;`: the current scope), else push an incomplete type; with
   `{`: look in the CURRENT scope's tags only, overwrite that type in place if
   found, else push_tag_scope.
   After the function, file scope may still define the tag (phase "after").

   Invariant SameBinding: both levels bind every probe to the same declaration.
   `Variant` selects a wrong Level I (sensitivity controls).                  *)
EXTENDS Integers, Sequences, FiniteSets, TLC, Json, CSV, IOUtils

CONSTANTS MaxDecl, MaxDepth, MaxOpen, Variant, Emit,
          Decls        \* the declaration kinds of the alphabet: subset of {"obj","typedef","enum","tag","tagfwd","tagref","mem","lab"}
   \* Variant: "ok" | "for-noleave" | "typedef-own-map" | "def-completes-outer" (a definition completes an
   \*          incomplete tag of an ENCLOSING scope) | "fwd-finds-outer" (`struct x;` binds to an outer tag)

None == [k |-> "none", id |-> 0]
OrdKinds == {"obj", "typedef", "enum"}

VARIABLES stA,      \* Level A: sequence of scopes [kind, ord, tag]  (innermost last)
          chI,      \* Level I: the chain: sequence of [vars, tdefs, tags]  (innermost last)
          kinds,    \* which construct opened each Level I group: sequence of [kind, n] (n scopes entered)
          labA, labI, \* label x of the current function: id or 0 / list of ids
          nd,       \* declarations so far
          phase,    \* "file" | "fn" | "after"
          hist,
          defA, defI,   \* type (named by the event that created it) -> defining event, 0 = incomplete
          ptrA, ptrI    \* pointer objects `struct x *p<id>;` in scope: sequence of [pid, tid, lvl]
vars == <<stA, chI, kinds, labA, labI, nd, phase, hist, defA, defI, ptrA, ptrI>>

ScA(kind) == [kind |-> kind, ord |-> None, tag |-> 0]
ScI == [vars |-> None, tdefs |-> None, tags |-> 0]

(* ---- resolution ---- *)
RECURSIVE InnermostA(_, _, _)
InnermostA(st, i, ns) == IF i = 0 THEN (IF ns = "ord" THEN None ELSE 0)
                         ELSE IF ns = "ord" /\ st[i].ord # None THEN st[i].ord
                         ELSE IF ns = "tag" /\ st[i].tag # 0 THEN st[i].tag
                         ELSE InnermostA(st, i - 1, ns)
BindA(ns) == InnermostA(stA, Len(stA), ns)

RECURSIVE FindVar(_, _)        \* find_var(): first scope of the chain whose `vars` map has x
FindVar(ch, i) == IF i = 0 THEN None ELSE IF ch[i].vars # None THEN ch[i].vars ELSE FindVar(ch, i - 1)
RECURSIVE FindTdef(_, _)
FindTdef(ch, i) == IF i = 0 THEN None ELSE IF ch[i].tdefs # None THEN ch[i].tdefs ELSE FindTdef(ch, i - 1)
RECURSIVE FindTag(_, _)        \* find_tag()
FindTag(ch, i) == IF i = 0 THEN 0 ELSE IF ch[i].tags # 0 THEN ch[i].tags ELSE FindTag(ch, i - 1)
BindI(ns) == IF ns = "tag" THEN FindTag(chI, Len(chI))
             ELSE IF Variant = "typedef-own-map"
                  THEN (IF FindVar(chI, Len(chI)) # None THEN FindVar(chI, Len(chI)) ELSE FindTdef(chI, Len(chI)))
                  ELSE FindVar(chI, Len(chI))
LabelBindA == labA
LabelBindI == IF labI = <<>> THEN 0 ELSE labI[1]       \* resolve_goto_labels: first match in the (prepended) list

DefOf(d, tid) == IF tid = 0 THEN 0 ELSE d[tid]
(* what a probe sees: the ordinary binding, the defining event of the visible tag (0: none or incomplete),
   the label, and for every pointer in scope the defining event of the type it points to *)
Probe == [ord |-> BindA("ord"), tag |-> DefOf(defA, BindA("tag")), lab |-> LabelBindA,
          ptrs |-> [i \in DOMAIN ptrA |-> [pid |-> ptrA[i].pid, def |-> DefOf(defA, ptrA[i].tid)]]]
Ev(e, k, p, id) == [e |-> e, k |-> k, p |-> p, id |-> id, exp |-> Probe']

(* ---- events ---- *)
Depth == Len(kinds)

Decl(ns, k) ==
  LET id   == nd + 1
      top  == Len(stA)
      t    == Len(chI)
      curA == stA[top].tag
      curI == chI[t].tags
      visA == BindA("tag")
      visI == FindTag(chI, t)
      (* Level A: <<scope entry, type the declaration denotes>> *)
      tA   == IF k = "tag" \/ k = "tagfwd" THEN (IF curA # 0 THEN curA ELSE id)
              ELSE (IF visA # 0 THEN visA ELSE id)
      (* Level I: struct_union_decl *)
      outerI == IF visI # 0 /\ curI = 0 /\ defI[visI] = 0 THEN visI ELSE 0
      tI   == IF k = "tag" THEN (IF curI # 0 THEN curI
                                 ELSE IF Variant = "def-completes-outer" /\ outerI # 0 THEN outerI ELSE id)
              ELSE IF k = "tagfwd" /\ Variant # "fwd-finds-outer" THEN (IF curI # 0 THEN curI ELSE id)
              ELSE (IF visI # 0 THEN visI ELSE id)
  IN /\ nd < MaxDecl
     /\ IF ns = "tag" /\ k = "tag" THEN phase \in {"file", "fn", "after"} ELSE phase \in {"file", "fn"}
     /\ ns = "ord" => stA[top].ord = None          \* one declaration of x per scope and name space
     /\ (ns = "tag" /\ k = "tag") => (IF curA = 0 THEN TRUE ELSE defA[curA] = 0)      \* no redefinition in one scope
     /\ ns \in {"lab", "mem"} => phase = "fn"
     /\ ns = "lab" => labA = 0
     /\ nd' = id
     /\ stA' = IF ns = "ord" THEN [stA EXCEPT ![top].ord = [k |-> k, id |-> id]]
               ELSE IF ns = "tag" /\ tA = id THEN [stA EXCEPT ![top].tag = id] ELSE stA
     /\ chI' = IF ns = "ord" THEN (IF Variant = "typedef-own-map" /\ k = "typedef"
                                   THEN [chI EXCEPT ![t].tdefs = [k |-> k, id |-> id]]
                                   ELSE [chI EXCEPT ![t].vars = [k |-> k, id |-> id]])     \* push_scope(name)
               ELSE IF ns = "tag" /\ tI = id THEN [chI EXCEPT ![t].tags = id]               \* push_tag_scope
               ELSE chI
     /\ defA' = IF ns = "tag" /\ k = "tag" THEN [defA EXCEPT ![tA] = id] ELSE defA
     /\ defI' = IF ns = "tag" /\ k = "tag" THEN [defI EXCEPT ![tI] = id] ELSE defI       \* *ty2 = *ty / new type
     /\ ptrA' = IF k = "tagref" THEN Append(ptrA, [pid |-> id, tid |-> tA, lvl |-> top]) ELSE ptrA
     /\ ptrI' = IF k = "tagref" THEN Append(ptrI, [pid |-> id, tid |-> tI, lvl |-> t]) ELSE ptrI
     /\ labA' = IF ns = "lab" THEN id ELSE labA
     /\ labI' = IF ns = "lab" THEN <<id>> \o labI ELSE labI
     /\ UNCHANGED <<kinds, phase>>
     /\ hist' = Append(hist, Ev("decl", IF ns = "ord" THEN k ELSE IF ns = "tag" THEN k ELSE ns, FALSE, id))

Open(kind, p) ==
  LET id == nd + 1
      decl == [k |-> "obj", id |-> id]
  IN /\ IF kind = "fn" THEN phase = "file" ELSE phase = "fn" /\ Depth < MaxDepth
     /\ Cardinality({i \in DOMAIN hist : hist[i].e = "open"}) < MaxOpen      \* bounds the history
     /\ p => nd < MaxDecl
     /\ nd' = IF p THEN id ELSE nd
     /\ phase' = "fn"
     /\ stA' = IF kind = "fn" THEN Append(stA, [ScA("fn") EXCEPT !.ord = IF p THEN decl ELSE None])
               ELSE IF kind = "for" THEN stA \o <<[ScA("for") EXCEPT !.ord = IF p THEN decl ELSE None], ScA("block")>>
               ELSE Append(stA, ScA("block"))
     /\ chI' = IF kind = "block" THEN Append(chI, ScI)                            \* compound_stmt: enter_scope
               ELSE chI \o <<[ScI EXCEPT !.vars = IF p THEN decl ELSE None], ScI>>   \* enter_scope; declaration; body: enter_scope
     /\ kinds' = Append(kinds, [kind |-> kind, nA |-> IF kind = "for" THEN 2 ELSE 1, nI |-> IF kind = "block" THEN 1 ELSE 2])
     /\ UNCHANGED <<labA, labI, defA, defI, ptrA, ptrI>>
     /\ hist' = Append(hist, Ev("open", kind, p, IF p THEN id ELSE 0))

Close ==
  LET g == kinds[Len(kinds)]
      popI == IF Variant = "for-noleave" /\ g.kind = "for" THEN g.nI - 1 ELSE g.nI
  IN /\ phase = "fn" /\ kinds # <<>>
     /\ kinds' = SubSeq(kinds, 1, Len(kinds) - 1)
     /\ stA' = SubSeq(stA, 1, Len(stA) - g.nA)
     /\ chI' = SubSeq(chI, 1, Len(chI) - popI)
     /\ phase' = IF g.kind = "fn" THEN "after" ELSE "fn"
     /\ UNCHANGED <<nd, labA, labI, defA, defI>>
     /\ ptrA' = SelectSeq(ptrA, LAMBDA q : q.lvl <= Len(stA'))          \* pointers of the closed scopes are gone
     /\ ptrI' = SelectSeq(ptrI, LAMBDA q : q.lvl <= Len(chI) - g.nI)
     /\ hist' = Append(hist, Ev("close", g.kind, FALSE, 0))

(* a second function g with its own label x follows every history: labels are per function *)
SecondFn ==
  /\ phase = "after"
  /\ phase' = "done"
  /\ labA' = 99
  /\ labI' = <<99>>                      \* gotos = labels = NULL after f, then g declares its own x
  /\ UNCHANGED <<stA, chI, kinds, nd, defA, defI, ptrA, ptrI>>
  /\ hist' = Append(hist, Ev("g", "lab", FALSE, 99))
  /\ Emit => CSVWrite("%1$s", <<ToJson([h |-> hist'])>>, IOEnv.OUT)

Init == /\ stA = <<ScA("file")>> /\ chI = <<ScI>> /\ kinds = <<>>
        /\ labA = 0 /\ labI = <<>> /\ nd = 0 /\ phase = "file" /\ hist = <<>>
        /\ defA = [i \in 1..MaxDecl |-> 0] /\ defI = [i \in 1..MaxDecl |-> 0] /\ ptrA = <<>> /\ ptrI = <<>>

Next == \/ \E k \in OrdKinds \cap Decls : Decl("ord", k)
        \/ \E ns \in {"mem", "lab"} \cap Decls : Decl(ns, ns)
        \/ \E k \in {"tag", "tagfwd", "tagref"} \cap Decls : Decl("tag", k)
        \/ \E kind \in {"fn", "block", "for"}, p \in BOOLEAN : (kind = "block" => ~p) /\ (p => "obj" \in Decls) /\ Open(kind, p)
        \/ Close
        \/ SecondFn
Spec == Init /\ [][Next]_vars

----------------------------------------------------------------------------
SameBinding == /\ BindI("ord") = BindA("ord")
               /\ BindI("tag") = BindA("tag")
               /\ DefOf(defI, BindI("tag")) = DefOf(defA, BindA("tag"))
               /\ Len(ptrI) = Len(ptrA)
               /\ \A i \in DOMAIN ptrA : i \in DOMAIN ptrI =>
                     /\ ptrI[i].pid = ptrA[i].pid /\ ptrI[i].tid = ptrA[i].tid
                     /\ DefOf(defI, ptrI[i].tid) = DefOf(defA, ptrA[i].tid)
               /\ LabelBindI = LabelBindA
(* enter_scope / leave_scope are balanced: after the function the chain is the file scope again *)
Balanced == phase \in {"after", "done"} => Len(chI) = 1 /\ Len(stA) = 1
=============================================================================
