SPECIFICATION Spec
CONSTANTS MaxN = 4
 MaxD = 3
 Kinds = {"Mark","Seq","If","While","Break","Continue","T","F"}
 LoopConds = {2}
 LoopB = {0}
 SwVals = {1}
 CaseVals = {0,1,2}
 NLab = 1
 Fuel = 120
 Shapes = {0}
 ForLate = TRUE
 Variant = "ok"
 Emit = FALSE
INVARIANTS TraceEq JumpsInnermost LabelsOK AWellFormed
CHECK_DEADLOCK FALSE
