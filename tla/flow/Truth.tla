------------------------------- MODULE Truth -------------------------------
(* C03: the truth value of a scalar controlling expression does not depend on
   its type.  Operands of && || ! ?: and the conditions of if/while/do/for may
   be int, long, pointer, float, double or long double.

   Level A (6.5.13, 6.5.14, 6.8.4.1): an operand is true iff it compares
   unequal to 0 — 0x100000000L, 0.5, a non-null pointer and NaN are true,
   -0.0 and a null pointer are false.
   Level I (codegen.c): gen_expr leaves the operand in the register of its
   class — %rax (only %eax is defined for int), %xmm0 (float, double), the x87
   top (long double) — and cmp_zero(ty) tests THAT register at THAT width:
   cmp $0,%eax | cmp $0,%rax | ucomiss/ucomisd + parity | fucomip + parity.
   `a || b`, `a && b`: gen_expr(lhs); cmp_zero(lhs->ty); jcc; gen_expr(rhs);
   cmp_zero(rhs->ty); jcc.   Variant "rhs-in-lhs-class" tests the right operand
   with the left operand's type (a stale or half register) and must be
   rejected; "nan-false" forgets the parity flag.

   A comparison `x OP y` (== != < <=) of long, unsigned long or pointer
   operands that controls if/while/for/do/?:/&&/||/! is evaluated at the width
   and signedness of its OPERANDS (the usual arithmetic conversions), whatever
   the type of its result (int): CmpI/CmpA below, at scaled widths (a "long" of
   4 bits whose low half has 2).  Variant "cmp-width-of-result" compares at the
   width of the result type, i.e. the low halves only, and must be rejected.

   Values are abstract: an operand is [ty, v] with v one of
     "zero" "negzero" (floating only) "small" (fits the low 32 bits)
     "high" (integers/pointers: low 32 bits zero, high bits set; floating: 0.5)
     "nan" (floating only).                                                   *)
EXTENDS Integers, TLC

CONSTANT Variant     \* "ok" | "rhs-in-lhs-class" | "nan-false" | "cmp-width-of-result"

IntTys == {"int", "long", "ptr"}
FpTys  == {"float", "double", "ldouble"}
Operands == {[ty |-> t, v |-> v] : t \in {"int"}, v \in {"zero", "small"}}
       \cup {[ty |-> t, v |-> v] : t \in {"long", "ptr"}, v \in {"zero", "small", "high"}}
       \cup {[ty |-> t, v |-> v] : t \in FpTys, v \in {"zero", "negzero", "high", "nan"}}

TruthA(x) == x.v \notin {"zero", "negzero"}

(* the machine registers after gen_expr(x), given their previous contents *)
Class(t) == IF t \in IntTys THEN "gp" ELSE IF t = "ldouble" THEN "x87" ELSE "sse"
Regs0 == [lo |-> "zero", hi |-> "zero", sse |-> "zero", x87 |-> "zero"]
Load(r, x) ==
  IF Class(x.ty) = "gp"
  THEN [r EXCEPT !.lo = IF x.v = "small" THEN "nz" ELSE "zero",
                 !.hi = IF x.v = "high" THEN "nz" ELSE "zero"]
  ELSE IF Class(x.ty) = "sse" THEN [r EXCEPT !.sse = x.v] ELSE [r EXCEPT !.x87 = x.v]
FpTrue(v) == IF v = "nan" THEN Variant # "nan-false" ELSE v \notin {"zero", "negzero"}
CmpZero(r, t) ==       \* TRUE iff "not equal to zero" by cmp_zero(t)
  IF t = "int" THEN r.lo = "nz"
  ELSE IF t \in {"long", "ptr"} THEN r.lo = "nz" \/ r.hi = "nz"
  ELSE IF t = "ldouble" THEN FpTrue(r.x87) ELSE FpTrue(r.sse)

VARIABLES a, b
Init == a \in Operands /\ b \in Operands
Next == UNCHANGED <<a, b>>
Spec == Init /\ [][Next]_<<a, b>>

OrI  == LET r1 == Load(Regs0, a) IN
        IF CmpZero(r1, a.ty) THEN TRUE
        ELSE CmpZero(Load(r1, b), IF Variant = "rhs-in-lhs-class" THEN a.ty ELSE b.ty)
AndI == LET r1 == Load(Regs0, a) IN
        IF ~CmpZero(r1, a.ty) THEN FALSE
        ELSE CmpZero(Load(r1, b), IF Variant = "rhs-in-lhs-class" THEN a.ty ELSE b.ty)

(* ---- 64-bit comparisons as controlling expressions (scaled: 4-bit long, 2-bit low half) ---- *)
WrapS(x, w) == LET u == x % (2 ^ w) IN IF u >= 2 ^ (w - 1) THEN u - 2 ^ w ELSE u
WrapU(x, w) == x % (2 ^ w)
Ops == {"eq", "ne", "lt", "le"}
Rel(op, x, y) == CASE op = "eq" -> x = y [] op = "ne" -> x # y [] op = "lt" -> x < y [] op = "le" -> x <= y
CmpA(op, signed, x, y) == Rel(op, x, y)
CmpI(op, signed, x, y) ==       \* cmp %rdi,%rax / cmp %edi,%eax; setcc by signedness of the operands
  LET w == IF Variant = "cmp-width-of-result" THEN 2 ELSE 4 IN
  IF signed THEN Rel(op, WrapS(x, w), WrapS(y, w)) ELSE Rel(op, WrapU(x, w), WrapU(y, w))
CmpOK == (a = [ty |-> "int", v |-> "zero"] /\ b = [ty |-> "int", v |-> "zero"]) =>      \* evaluated once
           /\ \A op \in Ops, x \in -8..7, y \in -8..7 : CmpI(op, TRUE, x, y) = CmpA(op, TRUE, x, y)
           /\ \A op \in Ops, x \in 0..15, y \in 0..15 : CmpI(op, FALSE, x, y) = CmpA(op, FALSE, x, y)

SameTruth == /\ CmpZero(Load(Regs0, a), a.ty) = TruthA(a)          \* ! ?: if while do for
             /\ OrI = (TruthA(a) \/ TruthA(b))
             /\ AndI = (TruthA(a) /\ TruthA(b))
=============================================================================
