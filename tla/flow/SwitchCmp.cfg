SPECIFICATION Spec
CONSTANTS WC = 2
 WI = 3
 WL = 5
 FIXED = TRUE
 NarrowWrap = FALSE
 Low32 = FALSE
INVARIANTS Accepts SameMatch
CHECK_DEADLOCK FALSE
