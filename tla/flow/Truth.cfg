SPECIFICATION Spec
CONSTANTS Variant = "ok"
INVARIANTS SameTruth
CHECK_DEADLOCK FALSE
