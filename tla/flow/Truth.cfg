SPECIFICATION Spec
CONSTANTS Variant = "ok"
INVARIANTS SameTruth CmpOK
CHECK_DEADLOCK FALSE
