SPECIFICATION Spec
CONSTANTS MaxDecl = 3
 MaxDepth = 3
 MaxOpen = 3
 Variant = "ok"
 Emit = FALSE
 Decls = {"obj","typedef","enum","tag","tagfwd","tagref","mem","lab"}
INVARIANTS SameBinding Balanced
CHECK_DEADLOCK FALSE
