SPECIFICATION Spec
CONSTANTS MaxDecl = 3
 MaxDepth = 3
 MaxOpen = 3
 Variant = "ok"
 Emit = FALSE
INVARIANTS SameBinding Balanced
CHECK_DEADLOCK FALSE
