----------------------------- MODULE LiveCalls -----------------------------
(* C20, "every value-producing expression, including calls of every type,
   leaves exactly one usable value": builder spec + Level A for expressions in
   which the values of two or three calls returning the SAME struct/union type
   are alive at once.  The value of a call of aggregate type is a temporary
   object whose lifetime ends with the full expression (C11 6.2.4p8); an array
   member of it decays to a pointer into that temporary, so

        comb(mkA(x1).v, mkB(x2).v [, mkA(x3).v])

   hands the callee pointers into two or three temporaries that must all still
   hold their own value - whatever the implementation does with its return
   buffers.  Level A (this module) says what comb returns:

     element j of the value returned by function f for argument x is
         Elem(f, x, j) = f * 100 + x * 10 + j          (f = 0: mkA, f = 1: mkB)
     comb reads element c % 2 of its c-th pointer (c = 0, 1, 2) and returns
         sum over c of 1000^c * Elem(f_c, x_c, c % 2).

   Coordinates: return class (INTEGER / SSE registers, small with a char array,
   union, MEMORY class, MEMORY class with long double members), number of calls,
   the argument of each call, which function each call names, how the last
   value is used (decayed pointer, or the struct passed by value while the
   earlier pointers are live), syntactic context.  Seed / Stride subsample.    *)
EXTENDS Integers, Sequences, TLC, Json, CSV, IOUtils

CONSTANTS Seed, Stride

Classes == <<"ri", "rs", "rc", "un", "mi", "ml">>
Ctxs    == <<"assign", "init", "return">>
Uses    == <<"decay", "lastbyval">>
FnPats  == <<"same", "alternate">>

Elem(f, x, j) == f * 100 + x * 10 + j
Pow1000(c) == IF c = 0 THEN 1 ELSE IF c = 1 THEN 1000 ELSE 1000000

VARIABLES cl, n, xs, fp, us, cx, out
vars == <<cl, n, xs, fp, us, cx, out>>

Fn(c) == IF FnPats[fp] = "same" THEN 0 ELSE c % 2
Expected == LET term(c) == Pow1000(c) * Elem(Fn(c), xs[c + 1], c % 2)
            IN term(0) + term(1) + (IF n = 3 THEN term(2) ELSE 0)

Index == ((((((cl - 1) * 2 + (n - 2)) * 3 + (xs[1] - 1)) * 3 + (xs[2] - 1)) * 3 + (xs[3] - 1)) * 2 + (fp - 1)) * 6
         + (us - 1) * 3 + (cx - 1)

Init == /\ cl \in 1..Len(Classes) /\ n \in 2..3
        /\ xs \in [1..3 -> 1..3] /\ (n = 2 => xs[3] = 1)
        /\ fp \in 1..2 /\ us \in 1..2 /\ cx \in 1..3
        /\ (Index * 7919 + Seed) % Stride = 0
        /\ out = FALSE

EmitCase == /\ ~out /\ out' = TRUE /\ UNCHANGED <<cl, n, xs, fp, us, cx>>
            /\ CSVWrite("%1$s", <<ToJson([cls |-> Classes[cl], n |-> n, xs |-> [c \in 1..n |-> xs[c]],
                                          fns |-> [c \in 1..n |-> Fn(c - 1)], use |-> Uses[us], ctx |-> Ctxs[cx],
                                          exp |-> Expected, idx |-> Index])>>, IOEnv.OUT)

Spec == Init /\ [][EmitCase]_vars
=============================================================================
