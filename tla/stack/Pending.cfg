SPECIFICATION Spec
CONSTANTS Seed = 0
 Stride = 1
 Variant = "ok"
 TreeDepth = 2
INVARIANTS NeedOK Fits
CHECK_DEADLOCK FALSE
