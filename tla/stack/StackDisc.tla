----------------------------- MODULE StackDisc -----------------------------
(* C20: the stack-discipline machine.  An abstract interpreter for emitted
   code whose state is exactly what the property talks about:

     pc     position in the function (0 = path ended)
     d      rsp8: displacement of rsp from its post-prologue value, in 8-byte
            units (push = -1, pop = +1, add/sub $n,%rsp = +-n/8)
     x      displacement of the x87 TOP-of-stack pointer relative to the start (loads +1, pops -1;
            `ffree` only retags a register and leaves TOP where it is, `ffreep`/`fincstp` -1, `fdecstp` +1):
            the property is about where the register stack IS, not about which registers are tagged empty
     xu     x is unknown (a call whose return class nobody told us: unhooked tree only)
     al     inside chibicc's builtin_alloca sequence (its rsp arithmetic is the
            storage deliberately obtained with alloca / a VLA: exempt)

   THE PROGRAM IS NOT WRITTEN HERE: it is the `-S` output of the compiler
   under test (IOEnv.PROG), one effect record per instruction
       [k, n, m, t, s, ln]      (harness/asmparse.py: stack_function)
   and Next follows every control-flow edge: both arms of every conditional
   jump, every address-taken label for `jmp *%rax`.

   Two explorations (Init):
     mode "fn"   from a function's entry with (0, 0):
                 X87Range, RspBounded (a leaking loop makes d grow until the
                 bound trips), RetBalanced (at ret d = 0 and x = [returns long
                 double]), DepthLogged (at every `# V:stmt` marker the generator's
                 own `depth` equals -d: Level I accounting = Level A machine),
                 CallAligned (d even at every call; frames are multiples of 16),
                 X87EmptyAtCall (psABI 3.2.1/3.2.3: the x87 registers are scratch and %st0 carries the
                 result, so a callee may use all eight: a value left on the register stack across a
                 call is lost as soon as the callee needs the registers).
     mode "st"   from `# V:stmt+ s` with (0, 0), stopping at `# V:stmt- s`:
                 StmtBalanced: every arrival there is with (0, 0) - evaluating
                 the statement any number of times leaves both stacks where
                 they were.  Start-relative, so break/continue/goto/return out
                 of s (which never reach its stmt-) cannot raise a false alarm.

   With Emit the first failed check of a path is written to IOEnv.OUT and the
   path ends (all violations of a whole corpus in one run); without Emit the
   same checks are the invariant NoViolation (counterexample path).          *)
EXTENDS Integers, Sequences, TLC, Json, CSV, IOUtils

CONSTANTS Emit,      \* TRUE: report failed checks on IOEnv.OUT and go on
          Bound,     \* |d| <= Bound
          Modes      \* subset of {"fn", "st"}

Prog == JsonDeserialize(IOEnv.PROG)      \* sequence of [fn, code, starts]

VARIABLES f, mode, sid, m0, pc, d, x, xu, al, viol
vars == <<f, mode, sid, m0, pc, d, x, xu, al, viol>>

Code == Prog[f].code
Ins  == Code[pc]

Init ==
  /\ f \in 1..Len(Prog)
  /\ d = 0 /\ x = 0 /\ xu = FALSE /\ al = FALSE /\ viol = ""
  /\ \/ "fn" \in Modes /\ mode = "fn" /\ sid = -1 /\ m0 = 0 /\ pc = 1
     \/ "st" \in Modes /\ mode = "st"
        /\ \E j \in 1..Len(Prog[f].starts) :
             /\ pc = Prog[f].starts[j] + 1                \* just behind the `# V:stmt+ s` marker
             /\ sid = Prog[f].code[Prog[f].starts[j]].n
             /\ m0 = Prog[f].code[Prog[f].starts[j]].m           \* the generator's logged depth at the start

(* ---- the checks: each is a predicate of the state about to execute Ins ---- *)
Check ==
  LET i == Ins IN
  IF ~xu /\ (x < 0 \/ x > 8) THEN (IF x < 0 THEN "x87-underflow" ELSE "x87-overflow")
  ELSE IF d > Bound \/ d < -Bound THEN "rsp-unbounded"
  ELSE IF mode = "fn" /\ d > 0 THEN "rsp-above-frame"
  ELSE IF i.k = "ret" /\ mode = "fn" /\ d # 0 THEN "rsp-residue-at-ret"
  ELSE IF i.k = "ret" /\ mode = "fn" /\ ~xu /\ i.n >= 0 /\ x # i.n THEN "x87-residue-at-ret"
  ELSE IF i.k \in {"stmt+", "stmt-"} /\ i.m - m0 # -d THEN "logged-depth-differs"
  ELSE IF i.k = "call" /\ mode = "fn" /\ d % 2 # 0 THEN "call-misaligned"
  ELSE IF i.k = "base" /\ i.n % 16 # 0 THEN "frame-misaligned"
  ELSE IF i.k = "stmt-" /\ mode = "st" /\ i.n = sid /\ d # 0 THEN "rsp-residue-at-stmt-end"
  ELSE IF i.k = "stmt-" /\ mode = "st" /\ i.n = sid /\ ~xu /\ x # 0 THEN "x87-residue-at-stmt-end"
  ELSE ""

(* a check that does not end the path (so that it cannot hide what lies behind the call) *)
Soft ==
  IF Ins.k = "call" /\ mode = "fn" /\ ~xu /\ x # 0 THEN "x87-live-at-call" ELSE ""

Report(kind) ==
  IF Emit
  THEN CSVWrite("%1$s", <<ToJson([f |-> f, fn |-> Prog[f].fn, kind |-> kind, mode |-> mode, sid |-> sid,
                                  pc |-> pc, ln |-> Ins.ln, s |-> Ins.s, d |-> d, x |-> x])>>, IOEnv.OUT)
  ELSE TRUE

Stop == pc' = 0 /\ UNCHANGED <<d, x, xu, al>>

Step ==
  /\ pc # 0 /\ viol = ""
  /\ UNCHANGED <<f, mode, sid, m0>>
  /\ IF pc > Len(Code) THEN viol' = "fell-off-the-end" /\ Report("fell-off-the-end") /\ Stop
     ELSE LET i == Ins
              c == Check
          IN IF c # "" THEN viol' = c /\ Report(c) /\ Stop
             ELSE IF Soft # "" /\ ~Emit THEN viol' = Soft /\ Stop
             ELSE /\ viol' = viol
                  /\ (Soft # "" => Report(Soft))
                  /\ CASE i.k = "d"     -> pc' = pc + 1 /\ d' = d + i.n /\ UNCHANGED <<x, xu, al>>
                       [] i.k = "x"     -> pc' = pc + 1 /\ x' = (IF xu THEN x ELSE x + i.n) /\ UNCHANGED <<d, xu, al>>
                       [] i.k = "xinit" -> pc' = pc + 1 /\ x' = 0 /\ xu' = FALSE /\ UNCHANGED <<d, al>>
                       \* `and $-16, %rsp`: the post-prologue rsp is 16-aligned (frames are multiples of 16, checked
                       \* by "frame-misaligned"), so the parity of the absolute displacement d - m0 is the alignment:
                       \* aligned: nothing happens; otherwise one more 8-byte word is taken (and nobody gives it back).
                       [] i.k = "align16" -> pc' = pc + 1 /\ d' = (IF (d - m0) % 2 = 0 THEN d ELSE d - 1) /\ UNCHANGED <<x, xu, al>>
                       [] i.k = "base"  -> pc' = pc + 1 /\ d' = 0 /\ UNCHANGED <<x, xu, al>>
                       [] i.k = "reset" -> pc' = pc + 1 /\ d' = 0 /\ UNCHANGED <<x, xu, al>>
                       [] i.k = "call"  -> pc' = pc + 1 /\ x' = (IF xu \/ i.m = 1 THEN 0 ELSE x + i.n) /\ xu' = (xu \/ i.m = 1) /\ UNCHANGED <<d, al>>
                       [] i.k = "jmp"   -> pc' = i.t[1] /\ UNCHANGED <<d, x, xu, al>>
                       [] i.k = "jcc"   -> pc' \in {i.t[1], pc + 1} /\ UNCHANGED <<d, x, xu, al>>
                       [] i.k = "ijmp"  -> pc' \in {i.t[j] : j \in 1..Len(i.t)} /\ UNCHANGED <<d, x, xu, al>>
                       \* end of the body reached without `return`: the function's value is indeterminate (6.9.1p12)
                       [] i.k = "falloff" -> pc' = pc + 1 /\ x' = 0 /\ xu' = TRUE /\ UNCHANGED <<d, al>>
                       [] i.k = "ret"   -> Stop
                       [] i.k = "stmt-" -> IF mode = "st" /\ i.n = sid THEN Stop
                                           ELSE pc' = pc + 1 /\ UNCHANGED <<d, x, xu, al>>
                       [] i.k = "alloca+" -> pc' = pc + 1 /\ al' = TRUE /\ UNCHANGED <<d, x, xu>>
                       [] i.k = "alloca-" -> pc' = pc + 1 /\ al' = FALSE /\ UNCHANGED <<d, x, xu>>
                       [] i.k = "alloca"  -> pc' = pc + 1 /\ UNCHANGED <<d, x, xu, al>>
                       [] OTHER         -> pc' = pc + 1 /\ UNCHANGED <<d, x, xu, al>>

Spec == Init /\ [][Step]_vars

NoViolation == viol = ""
=============================================================================
