------------------------------ MODULE Pending ------------------------------
(* C20, "every value-producing expression ... leaves exactly one usable value",
   "alloca interaction with pending temporaries": the dimension HOW MANY values
   of an enclosing expression are pending while an inner expression E is
   evaluated, and in which bank they wait.

   chibicc keeps the intermediate values of an expression on two stacks: the
   machine stack (push/pop of 8-byte words; arguments of a call are all pushed
   before the call) and the x87 register stack (long double; 8 registers).  A
   behaviour of this module is

     bank    "sum"   r = ((E + t1) + t2) + ... + tN      the right operand of every + is
                     evaluated and pushed first: E runs with N temporaries on the machine stack
             "args"  r = pickN(E, t1, ..., tN)            all arguments are evaluated right to
                     left and pushed: E runs with N arguments (+ padding) on the machine stack
             "x87"   r = t1 + (t2 + (... + (tN + E)))     the left operand of a long double
                     operator is evaluated first: E runs with N values on the x87 stack
     pat     the types of the pending values: long / double / alternating for sums; long or a
             rotation of long, double, long double (16 bytes), 24-byte struct by value for arguments
     n       0 .. 12 (machine stack);  0 .. 8 - Need(E) (x87: the register stack has 8 entries)
     form    E: an object, a call, an assignment, ..., and in particular alloca / a VLA, which
             MOVES the pending machine-stack temporaries (builtin_alloca) - they must arrive

   Level A.  The value: t_i = 3^i, the objects a = 3, b = 5, d = 9 (long double: 1.5, 2.5, 4.5;
   everything is carried doubled so that it stays integral), Val(form, c) below, pick = E +
   sum (i+1) * t_i.  The x87 budget: Need(e), the number of x87 registers an expression may use,
     leaf 1;  l op r  max(Need(l), 1 + Need(r))  (l waits while r is evaluated);
     assignment Need(rhs)  (the stored value IS the value of the expression: an assignment yields
     a usable value wherever its operand does);  unary, comma, statement expression, cast: their
     operand;  ?: the larger arm;  call: the largest argument (each is stored away) and 1.
   So E fits under n pending values iff n + Need(E) <= 8, and the generated n go up to that.
   A CALL is different: the x87 registers are scratch registers of the callee (psABI), which may need all
   eight ("calldeep": a callee that does); a value must not wait on the register stack across a call at
   all.  That rule is checked on the emitted code (StackDisc.tla, x87-live-at-call); here the call forms
   are generated with n > 0 as well and their VALUE must arrive.

   Level I.  Peak(e, d): the highest x87 depth chibicc's code for e reaches from depth d
   (gen_expr: lhs, rhs, faddp; store(): fstpt + fldt; push_args2: fstpt per argument).
   Invariants: Peak(e, d) <= d + Need(e) for every tree to depth 2 and every form (NeedOK); every
   generated x87 case stays within 8 registers (Fits).  Variant "assign-dup" (store keeps the value
   with `fld %st(0); fstpt`: one register more than the operand) must be rejected.

   Seed / Stride subsample; the cases with the largest n of every (bank, pat, form) are always in. *)
EXTENDS Integers, Sequences, FiniteSets, TLC, Json, CSV, IOUtils

CONSTANTS Seed, Stride, Variant, TreeDepth

Max2(a, b) == IF a >= b THEN a ELSE b
MaxOf(S) == CHOOSE m \in S : \A y \in S : y <= m

(* ------------------------------ x87 expression trees ------------------------------ *)
Tr(k, kids) == [k |-> k, kids |-> kids]
L == Tr("L", <<>>)

RECURSIVE Need(_)
Need(e) == CASE e.k = "L"    -> 1
             [] e.k = "Bin"  -> Max2(Need(e.kids[1]), 1 + Need(e.kids[2]))
             [] e.k = "Cnd"  -> Max2(Need(e.kids[1]), Need(e.kids[2]))
             [] e.k = "Call" -> MaxOf({1} \cup {Need(e.kids[j]) : j \in DOMAIN e.kids})
             [] OTHER        -> Need(e.kids[1])                   \* Asg Un Com SE

RECURSIVE Peak(_, _)
Peak(e, d) == CASE e.k = "L"    -> d + 1                                                      \* fldt
                [] e.k = "Bin"  -> Max2(Peak(e.kids[1], d), Peak(e.kids[2], d + 1))           \* lhs, rhs, faddp
                [] e.k = "Cnd"  -> Max2(Peak(e.kids[1], d), Peak(e.kids[2], d))
                [] e.k = "Call" -> MaxOf({d + 1} \cup {Peak(e.kids[j], d) : j \in DOMAIN e.kids})   \* arg; fstpt (%rsp) ... call
                [] e.k = "Asg"  -> IF Variant = "assign-dup" THEN Max2(Peak(e.kids[1], d), d + 2)     \* fld %st(0); fstpt
                                   ELSE Peak(e.kids[1], d)                                           \* fstpt; fldt
                [] OTHER        -> Peak(e.kids[1], d)

RECURSIVE Trees(_)
Trees(n) == IF n = 0 THEN {L}
            ELSE LET S == Trees(n - 1) IN
                 {L} \cup {Tr("Bin", <<l, r>>) : l \in S, r \in S} \cup {Tr("Cnd", <<l, r>>) : l \in S, r \in S}
                     \cup {Tr(k, <<x>>) : k \in {"Asg", "Un", "Com", "SE"}, x \in S}
                     \cup {Tr("Call", <<>>)} \cup {Tr("Call", <<l, r>>) : l \in S, r \in S}

(* the long double forms of Discard.tla as trees *)
XForms == <<"var", "lit", "binary", "neg", "call", "callarg", "assign", "chain", "opassign", "postinc", "preinc",
            "cond", "comma", "cast", "member", "deref", "index", "stmtexpr", "calldeep">>
FormTree(f) ==
  CASE f \in {"var", "lit", "cast", "member", "deref", "index"} -> L
    [] f = "binary"   -> Tr("Bin", <<L, L>>)
    [] f = "neg"      -> Tr("Un", <<L>>)
    [] f \in {"call", "calldeep"} -> Tr("Call", <<>>)      \* calldeep: the callee itself uses the whole register stack
    [] f = "callarg"  -> Tr("Call", <<L, L>>)
    [] f = "assign"   -> Tr("Asg", <<L>>)
    [] f = "chain"    -> Tr("Asg", <<Tr("Asg", <<L>>)>>)
    [] f \in {"opassign", "preinc"} -> Tr("Asg", <<Tr("Bin", <<L, L>>)>>)          \* a = a + b
    [] f = "postinc"  -> Tr("Bin", <<Tr("Asg", <<Tr("Bin", <<L, L>>)>>), L>>)      \* (a = a + 1) - 1
    [] f = "cond"     -> Tr("Cnd", <<L, L>>)
    [] f = "comma"    -> Tr("Com", <<L>>)
    [] f = "stmtexpr" -> Tr("SE", <<L>>)

Pow3(i) == 3 ^ i
SumT(n) == LET RECURSIVE S(_)  S(i) == IF i = 0 THEN 0 ELSE Pow3(i) + S(i - 1) IN S(n)
PickT(n) == LET RECURSIVE S(_)  S(i) == IF i = 0 THEN 0 ELSE (i + 1) * Pow3(i) + S(i - 1) IN S(n)

(* doubled values (a = 1.5, b = 2.5, d = 4.5, literal 2.5, k = 3, s.m = 5.5, arr[1] = 6.5); c = iteration & 1 *)
XVal2(f, c) ==
  CASE f \in {"var", "neg", "call", "postinc", "comma", "deref", "stmtexpr"} -> IF f = "neg" THEN -3 ELSE 3
    [] f \in {"lit", "callarg", "assign", "preinc"} -> 5
    [] f \in {"binary", "opassign"} -> 8
    [] f = "chain"  -> 9
    [] f = "cond"   -> IF c = 1 THEN 3 ELSE 5
    [] f = "cast"   -> 6
    [] f = "member" -> 11
    [] f = "index"  -> 13
    [] f = "calldeep" -> 3 + 2 * SumT(7)                  \* deep8() = t1 + (t2 + ... (t7 + 1.5))

(* ------------------------------ machine-stack forms (type long) ------------------------------ *)
GForms == <<"var", "call", "alloca8", "alloca24", "alloca100", "allocan", "vla", "stmtexpr", "cond", "assign", "chain", "postinc", "call8">>
GVal(f, c) == CASE f \in {"var", "call", "alloca8", "alloca24", "alloca100", "allocan", "vla", "stmtexpr", "postinc"} -> 3
                [] f = "cond"   -> IF c = 1 THEN 3 ELSE 5
                [] f = "assign" -> 5
                [] f = "chain"  -> 9
                [] f = "call8"  -> 3 + 2 * 5 + 3 * 9 + 4 * 1 + 5 * 2 + 6 * 3 + 7 * 4 + 8 * 5       \* sum8(a, b, d, 1, 2, 3, 4, 5) = sum j * arg_j

Banks == <<"sum", "args", "x87">>
Pats(b) == CASE b = "sum" -> <<"long", "double", "alt">> [] b = "args" -> <<"long", "mix">> [] b = "x87" -> <<"ldouble">>
FormsOf(b) == IF b = "x87" THEN XForms ELSE GForms
NMax(b, f) == IF b = "x87" THEN 8 - Need(FormTree(f)) ELSE 12

(* Level A value of the whole expression, doubled *)
Exp2(b, f, n, c) == CASE b = "sum"  -> 2 * (GVal(f, c) + SumT(n))
                      [] b = "args" -> 2 * (GVal(f, c) + PickT(n))
                      [] b = "x87"  -> XVal2(f, c) + 2 * SumT(n)

VARIABLES mode, t, bi, pi, fi, n, out
vars == <<mode, t, bi, pi, fi, n, out>>

Index == (((bi - 1) * 3 + (pi - 1)) * 19 + (fi - 1)) * 13 + n

Init == \/ /\ mode = "tree" /\ t \in Trees(TreeDepth) /\ bi = 0 /\ pi = 0 /\ fi = 0 /\ n = 0 /\ out = TRUE
        \/ /\ mode = "gen" /\ t = L /\ out = FALSE
           /\ bi \in 1..Len(Banks)
           /\ pi \in 1..Len(Pats(Banks[bi]))
           /\ fi \in 1..Len(FormsOf(Banks[bi]))
           /\ n \in 0..NMax(Banks[bi], FormsOf(Banks[bi])[fi])
           /\ ((Index * 7919 + Seed) % Stride = 0 \/ n = NMax(Banks[bi], FormsOf(Banks[bi])[fi]))

EmitCase == /\ ~out /\ out' = TRUE /\ UNCHANGED <<mode, t, bi, pi, fi, n>>
            /\ LET b == Banks[bi]  f == FormsOf(b)[fi] IN
               CSVWrite("%1$s", <<ToJson([bank |-> b, pat |-> Pats(b)[pi], form |-> f, n |-> n,
                                          need |-> IF b = "x87" THEN Need(FormTree(f)) ELSE 0,
                                          exp |-> <<Exp2(b, f, n, 0), Exp2(b, f, n, 1)>>, idx |-> Index])>>, IOEnv.OUT)

Spec == Init /\ [][EmitCase]_vars

(* Level I needs no more registers than Level A grants, from every starting depth (an evaluation scheme that
   needs fewer - e.g. one that keeps waiting operands on the machine stack - is fine) *)
NeedOK == /\ mode = "tree" => \A d \in 0..2 : Peak(t, d) <= d + Need(t)
          /\ mode = "gen" /\ Banks[bi] = "x87" => Peak(FormTree(XForms[fi]), 0) <= Need(FormTree(XForms[fi]))
(* every generated x87 case stays within the 8 registers *)
Fits == mode = "gen" /\ Banks[bi] = "x87" => Peak(FormTree(XForms[fi]), n) <= 8
=============================================================================
