------------------------------- MODULE Jumps -------------------------------
(* C20, builder spec: control LEAVES an expression in the middle.  A statement
   expression may contain a jump statement; when it is an operand of a larger
   expression, values of that larger expression are already waiting - on the
   machine stack (the pushed right operand of a binary operator, the address
   pushed by an assignment, arguments of a call pushed so far) or on the x87
   register stack (the left operand of a long double operator).  The jump
   abandons the evaluation; the abstract machine simply continues at the
   target (6.8.6), so for the enclosing iteration statement the property reads
   as for every other statement: evaluated any number of times it leaves rsp
   and the x87 stack where they were - the waiting values must be dropped.

   A behaviour is (jump, construct, pending):

     jump       continue | break | gotofwd (to a label behind the statement) |
                gotoback (to a label before it: the loop is made of the goto) |
                return (from a helper function called in the loop)
     construct  the statement the jump leaves / re-enters: for, while, do
                (continue, break), switch in a loop (break), a block (goto),
                the function (return)
     pending    what waits while the statement expression runs:
                none      expression statement
                assign    k = SE            (address of k pushed)
                rhs       SE + k            (right operand pushed)
                rhsf      SE + dk           (double right operand pushed)
                args7     use7(SE, 1, ..., 7)   (arguments are evaluated right to left: seven pushed)
                structarg uses(SE, sv)      (40-byte struct argument pushed)
                ldarg     usel(SE, LA)      (16-byte long double argument pushed)
                x87       LA + SE           (left operand on the x87 stack)
                x87cmp    LA < SE
                x87two    LA + (LB + SE)    (two values on the x87 stack)

   The harness renders each behaviour with the jump taken in every second
   iteration, lets StackDisc.tla check the emitted code (per function and per
   statement: the iteration statement must be balanced at its end on every
   path) and runs it with the rsp / x87 probes.                              *)
EXTENDS Integers, Sequences, TLC, Json, CSV, IOUtils

CONSTANTS Seed, Stride

JC == << <<"continue", "for">>, <<"continue", "while">>, <<"continue", "do">>,
         <<"break", "for">>, <<"break", "while">>, <<"break", "do">>, <<"break", "switch">>,
         <<"gotofwd", "block">>, <<"gotoback", "block">>, <<"return", "fn">> >>
Pend == <<"none", "assign", "rhs", "rhsf", "args7", "structarg", "ldarg", "x87", "x87cmp", "x87two">>

(* words on the machine stack / values on the x87 stack that wait while the statement expression runs *)
Words(p) == CASE p = "assign" -> 1 [] p = "rhs" -> 1 [] p = "rhsf" -> 1 [] p = "args7" -> 7 [] p = "structarg" -> 6
              [] p = "ldarg" -> 2 [] OTHER -> 0
X87(p)   == CASE p = "x87" -> 1 [] p = "x87cmp" -> 1 [] p = "x87two" -> 2 [] OTHER -> 0

VARIABLES ji, pi, out
vars == <<ji, pi, out>>
Index == (ji - 1) * Len(Pend) + (pi - 1)

Init == /\ ji \in 1..Len(JC) /\ pi \in 1..Len(Pend)
        /\ (Index * 7919 + Seed) % Stride = 0
        /\ out = FALSE

EmitCase == /\ ~out /\ out' = TRUE /\ UNCHANGED <<ji, pi>>
            /\ CSVWrite("%1$s", <<ToJson([jump |-> JC[ji][1], construct |-> JC[ji][2], pend |-> Pend[pi],
                                          words |-> Words(Pend[pi]), x87 |-> X87(Pend[pi]), idx |-> Index])>>, IOEnv.OUT)

Spec == Init /\ [][EmitCase]_vars
=============================================================================
