SPECIFICATION Spec
CONSTANTS Emit = TRUE
 Bound = 1024
 Modes = {"fn","st"}
CHECK_DEADLOCK FALSE
