SPECIFICATION Spec
CONSTANTS Emit = TRUE
 Bound = 2048
 Modes = {"fn","st"}
CHECK_DEADLOCK FALSE
