------------------------------- MODULE Chains -------------------------------
(* C20, builder spec: comma expressions of every grouping.  Parenthesised groups
   (typically from macros: `RESET(a), RESET(b)`) give every binary tree over
   2..4 operands, not only the chain an unparenthesised `a, b, c` parses to.
   A behaviour is (tree shape, type of every operand, operand kind, context):

     shape   one of the 1 + 2 + 5 binary trees with 2, 3, 4 leaves, written
             with the leaves as A B C D
     types   every operand independently long double / double / int / struct
     kind    the operands are plain variables or assignments (`x = y`, what a
             RESET-like macro expands to)
     ctx     the whole expression is a statement, a for-increment, or its
             value (the value of the LAST operand) is assigned

   Every operand but the last is evaluated for its side effects only: its
   value must not stay anywhere (6.5.17); the last one is the value of the
   expression.  The harness renders each behaviour as a C function, lets
   StackDisc.tla check the emitted code and runs it with rsp/x87 probes.
   Seed and Stride subsample for the quick tier.                            *)
EXTENDS Integers, Sequences, TLC, Json, CSV, IOUtils

CONSTANTS Seed, Stride

Shapes == << [n |-> 2, s |-> "(A, B)"],
             [n |-> 3, s |-> "((A, B), C)"], [n |-> 3, s |-> "(A, (B, C))"],
             [n |-> 4, s |-> "(((A, B), C), D)"], [n |-> 4, s |-> "((A, (B, C)), D)"], [n |-> 4, s |-> "((A, B), (C, D))"],
             [n |-> 4, s |-> "(A, ((B, C), D))"], [n |-> 4, s |-> "(A, (B, (C, D)))"] >>
Types == <<"ldouble", "double", "int", "struct">>
Kinds == <<"var", "assign">>
Ctxs  == <<"stmt", "forinc", "value">>

VARIABLES sh, ty, ki, cx, out
vars == <<sh, ty, ki, cx, out>>

(* operands beyond the shape's length have type index 1: one representative *)
Digit(j) == ty[j] - 1
Index == (((((sh - 1) * 4 + Digit(1)) * 4 + Digit(2)) * 4 + Digit(3)) * 4 + Digit(4)) * 6 + (ki - 1) * 3 + (cx - 1)

Init == /\ sh \in 1..Len(Shapes)
        /\ ty \in [1..4 -> 1..4]
        /\ \A j \in 1..4 : j > Shapes[sh].n => ty[j] = 1
        /\ ki \in 1..2 /\ cx \in 1..3
        /\ (Index * 7919 + Seed) % Stride = 0
        /\ out = FALSE

EmitCase == /\ ~out /\ out' = TRUE /\ UNCHANGED <<sh, ty, ki, cx>>
            /\ CSVWrite("%1$s", <<ToJson([shape |-> Shapes[sh].s, n |-> Shapes[sh].n,
                                          types |-> [j \in 1..Shapes[sh].n |-> Types[ty[j]]],
                                          kind |-> Kinds[ki], ctx |-> Ctxs[cx], idx |-> Index])>>, IOEnv.OUT)

Spec == Init /\ [][EmitCase]_vars
=============================================================================
