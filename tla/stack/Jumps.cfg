SPECIFICATION Spec
CONSTANTS Seed = 0
 Stride = 1
CHECK_DEADLOCK FALSE
