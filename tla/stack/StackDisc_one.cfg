SPECIFICATION Spec
CONSTANTS Emit = FALSE
 Bound = 1024
 Modes = {"fn","st"}
INVARIANT NoViolation
CHECK_DEADLOCK FALSE
