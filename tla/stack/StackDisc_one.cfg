SPECIFICATION Spec
CONSTANTS Emit = FALSE
 Bound = 2048
 Modes = {"fn","st"}
INVARIANT NoViolation
CHECK_DEADLOCK FALSE
