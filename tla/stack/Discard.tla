------------------------------ MODULE Discard ------------------------------
(* C20, builder spec: the closed domain of "an expression of some form and
   type, evaluated in a context that discards or consumes its value".  Every
   (form, type, context) with Valid is one behaviour; the harness renders it
   as a C function (the construct inside a loop of N iterations), has the
   compiler under test translate it, lets StackDisc.tla check the emitted
   code and runs it with rsp / x87 probes.  Seed and Stride subsample the
   domain for the quick tier: (index * 7919 + Seed) % Stride = 0.           *)
EXTENDS Integers, Sequences, TLC, Json, CSV, IOUtils

CONSTANTS Seed, Stride

Forms == <<"var", "lit", "binary", "neg", "call", "callarg", "assign", "chain", "opassign", "postinc", "preinc",
           "cond", "comma", "cast", "member", "deref", "index", "stmtexpr">>
Types == <<"int", "long", "ptr", "float", "double", "ldouble", "small", "big">>
Ctxs  == <<"exprstmt", "commalhs", "forinc", "condarm", "condarmvoid", "logand", "logor", "voidcast", "arg", "arg7", "oddnest", "vararg",
           "init", "return", "ifcond", "assignrhs", "stmtexprdiscard", "stmtexprvalue",
           "ldpendcomma", "ldpendstmtexpr", "ldpendvoid",
           "condmixthen", "condmixelse", "whilecond", "forcond", "docond">>

IsStruct(t) == t \in {"small", "big"}
Scalar(t)   == ~IsStruct(t)

(* 6.5: which forms exist for which types; which contexts need a scalar *)
Valid(f, t, c) ==
  /\ (IsStruct(t) => f \in {"var", "call", "callarg", "assign", "chain", "cond", "comma", "member", "deref", "index", "stmtexpr"})
  /\ (t = "ptr" => f \notin {"neg", "lit"})
  /\ (c \in {"logand", "logor", "ifcond", "whilecond", "forcond", "docond"} => Scalar(t))
  /\ (c = "vararg" => t \notin {"float"})        \* a float argument is promoted: covered by double
  \* "arg7": the value is the 8th argument after seven ints, so one 8-byte word (the 7th int) is passed on
  \* the stack next to it: an odd number of pending words while the argument itself is pushed

(* A small family every subsample contains completely: a long double travelling as an argument (it is
   spilled to the stack with its own rsp arithmetic), in every context - in particular with an even and
   with an odd number of 8-byte temporaries pending ("oddnest": the call is the left operand of `+`,
   evaluated after the right operand has been pushed).                                               *)
Always(f, t, c) == t = "ldouble" /\ (f = "callarg" \/ c \in {"arg", "arg7", "oddnest", "vararg", "ldpendcomma", "ldpendstmtexpr", "ldpendvoid",
                                                              "condmixthen", "condmixelse"})

(* "ldpend...": the value is discarded while a long double operand of an enclosing operation is pending on
   the x87 stack underneath it:  LA + ((E), LB),  LA * ({ E; LB; }),  LA < ((void)(E), LB).              *)
(* "condmixthen" / "condmixelse": `c ? (E) : (void)0` and `c ? (void)0 : (E)` - a conditional expression with ONE
   void operand has type void (accepted by chibicc and gcc as an extension of 6.5.15p3): the value of the other
   operand is evaluated and dropped, so it must not stay anywhere.
   "whilecond" / "forcond" / "docond": the value is the controlling expression of an iteration statement
   (6.8.5: compared with 0 and gone), as "ifcond" is for the selection statement.                          *)
VARIABLES fi, ti, ci, out
vars == <<fi, ti, ci, out>>

Index == ((fi - 1) * Len(Types) + (ti - 1)) * Len(Ctxs) + (ci - 1)

Init == /\ fi \in 1..Len(Forms) /\ ti \in 1..Len(Types) /\ ci \in 1..Len(Ctxs)
        /\ Valid(Forms[fi], Types[ti], Ctxs[ci])
        /\ ((Index * 7919 + Seed) % Stride = 0 \/ Always(Forms[fi], Types[ti], Ctxs[ci]))
        /\ out = FALSE

EmitCase == /\ ~out /\ out' = TRUE /\ UNCHANGED <<fi, ti, ci>>
            /\ CSVWrite("%1$s", <<ToJson([form |-> Forms[fi], type |-> Types[ti], ctx |-> Ctxs[ci], idx |-> Index])>>, IOEnv.OUT)

Spec == Init /\ [][EmitCase]_vars
=============================================================================
