-------------------------- MODULE BootstrapTrace --------------------------
(* C12 trace validation: the log written by harness/c12.py must be a behaviour
   of Bootstrap.tla in which the properties hold after every step.

     build  {stage, by, objs}                 -> Build(stage, by, objs)
     key    {input, opts}                     -> Forget: a new (input, options) group;
                                                 the log is sorted by (input, options)
     run    {stage, env, rc, sha, err}        -> SetEnv(env) ; Compile(stage, input, opts,
                                                 <<rc, sha, err>>), and Agree must hold after it
     eof    the list of rejected events is written out

   A run event after which StageAgree / EnvIndep would be false (any two stages, or
   any two environments, disagree on exit status, output bytes or stderr), or a build
   event that breaks ObjFix / BuildOrder, is not a step: the event is rejected, its
   index is recorded, and validation goes on with the next group (a deviating
   input does not hide the others).                                           *)
EXTENDS Bootstrap, Json, IOUtils, CSV

Tr == ndJsonDeserialize(IOEnv.TRACE)

VARIABLES l,      \* next event
          cur,    \* current group: [input, opts]
          rej     \* rejected events
tvars == <<obs, mcv, l, cur, rej>>

ev == Tr[l]

TInit == /\ bin = [k \in Stages |-> NoBin]
         /\ out = [x \in {} |-> 0]
         /\ env = "-"
         /\ sem = 0 /\ beh = 0 /\ objOf = 0
         /\ l = 1 /\ cur = [input |-> "-", opts |-> "-"] /\ rej = <<>>

Step ==
  \/ /\ ev.e = "build"
     /\ Build(ev.stage, ev.by, ev.objs)
     /\ UNCHANGED cur
  \/ /\ ev.e = "run"
     /\ bin[ev.stage].built
     /\ LET k == Key(ev.stage, cur.input, cur.opts, ev.env) IN
          /\ k \notin DOMAIN out          \* SetEnv(ev.env) followed by Compile(...)
          /\ env' = ev.env
          /\ out' = [x \in DOMAIN out \cup {k} |-> IF x \in DOMAIN out THEN out[x] ELSE <<ev.rc, ev.sha, ev.err>>]
          /\ UNCHANGED <<bin, cur>>

Normal == /\ l <= Len(Tr) /\ ev.e \in {"build", "run"}
          /\ Step
          /\ Agree'
          /\ l' = l + 1 /\ UNCHANGED rej

NewKey == /\ l <= Len(Tr) /\ ev.e = "key"
          /\ Forget
          /\ cur' = [input |-> ev.input, opts |-> ev.opts]
          /\ l' = l + 1 /\ UNCHANGED rej

NextKey(i) == CHOOSE j \in (i + 1)..Len(Tr) :
                /\ Tr[j].e \in {"key", "eof"}
                /\ \A m \in (i + 1)..(j - 1) : Tr[m].e \notin {"key", "eof"}

Reject == /\ l <= Len(Tr) /\ ev.e \in {"build", "run"}
          /\ ~ENABLED Normal
          /\ rej' = Append(rej, [at |-> l])
          /\ l' = IF ev.e = "build" THEN l + 1 ELSE NextKey(l)
          /\ UNCHANGED <<obs, cur>>

Eof == /\ l <= Len(Tr) /\ ev.e = "eof"
       /\ CSVWrite("%1$s", <<ToJson([rejected |-> rej, events |-> l])>>, IOEnv.OUT)
       /\ l' = l + 1 /\ UNCHANGED <<obs, cur, rej>>

TNext == (Normal \/ NewKey \/ Reject \/ Eof) /\ UNCHANGED mcv
TSpec == TInit /\ [][TNext]_tvars
=============================================================================
