SPECIFICATION Spec
CONSTANTS Inputs = {"src"}
 Opts = {"-S"}
 Envs = {"A", "B"}
 Results = {"r1", "r2"}
 ObjDigests = {"d1", "d2"}
 Correct = FALSE
 CtxDep = FALSE
INVARIANTS StageAgree
CHECK_DEADLOCK FALSE
