SPECIFICATION Spec
CONSTANTS Inputs = {"src"}
 Opts = {"-S"}
 Envs = {"A", "B"}
 Results = {"r1", "r2"}
 ObjDigests = {"d1", "d2"}
 Correct = TRUE
 CtxDep = TRUE
INVARIANTS SelfAgree EnvIndep ObjFix BuildOrder TypeOK
CHECK_DEADLOCK FALSE
