----------------------------- MODULE Bootstrap -----------------------------
(* C12 - self-hosting fixpoint.  Deliberately thin (DESIGN 5, C12: level
   "exploration"): the substance of the check is the set of inputs the three
   stage binaries are run on; this module only says precisely what is compared
   with what, and is the monitor the recorded log is validated against
   (BootstrapTrace.tla).

   bin[k]   stage binaries: 1 = the sources compiled by the reference compiler
            (cc), k > 1 = every *.c of the tree compiled by bin[k-1] (Makefile
            rule stage2/%.o) and linked by cc.  objs = digest of the object
            files bin[k] was linked from.
   out      what has been observed so far: a partial function
            <<stage, input, opts, env>> -> result, result = <<exit status,
            digest of the output file, digest of stderr>>.
   env      the environment of the process currently observed: ASLR on/off, depth
            of the working directory, parity of the pid, time.  It is state the
            compiler must NOT look at.

   Build(k, by, o)          Makefile: chibicc / stage2/chibicc (/ stage 3)
   SetEnv(e)                the harness moves to another environment
   Compile(k, i, o, r)      main(): one run of bin[k] on input i with options o

   Properties (state predicates over what has been observed):
     StageAgree  out[1] = out[2] = out[3] on every (input, options, env)
     EnvIndep    out[k] does not depend on env
     ObjFix      stage-2 objects = stage-3 objects (the compiler reproduces itself)

   Build context (added in the fifth round after seeded change C12-8).  The
   Makefile's stage-2 rule does not compile the sources in the same context as
   the reference compiler does: stage 1 is compiled by cc against cc's own
   <float.h>, <limits.h>, predefined macros ..., stages 2 and 3 by chibicc against
   the bundled include/ directory and chibicc's predefined macros.  ctx[k] is
   that context ("host" for k = 1, "self" for k > 1).  A source text whose
   meaning depends on it - init_macros() taking __LDBL_MANT_DIG__ from
   <float.h>, an `#ifdef __GNUC__` branch that changes what the compiler does -
   gives  beh[1] # beh[2] = beh[3]:  stage 2 reproduces itself (ObjFix and
   SelfAgree hold) and still is not the reference compiler, so only the
   comparison with stage 1 on an input that reaches the context-dependent part
   can show it.  CtxDep = TRUE leaves the semantics per context arbitrary
   (Bootstrap_ctl_CtxDep.cfg: StageAgree must be violated while SelfAgree and
   ObjFix hold).  The inputs that reach such parts are names: everything the
   compiler knows without the input having declared it - predefined macros,
   keywords, builtins, attribute and pragma names (harness/c12.py family
   `vocab`, taken from the string tables of the three stage binaries).

   Model checking (Bootstrap_mc.cfg): the behaviour of each binary is a function
   beh[k] chosen in Init.  With Correct = TRUE a binary's behaviour is the
   semantics `sem` of the source text (cc is assumed correct for stage 1, and
   chibicc compiles itself correctly), and TLC proves the three properties over
   every order of builds, environment changes and runs.  Correct = FALSE leaves
   beh[2], beh[3] and the env-dependence arbitrary (any self-miscompilation, any
   address/time/pid dependence): TLC must find a counterexample to each property
   - the sensitivity control (harness/c12.py exits 2 if it does not).            *)
EXTENDS Integers, Sequences, FiniteSets, TLC

CONSTANTS Inputs, Opts, Envs, Results, ObjDigests,
          Correct,           \* TRUE: stages behave as the source semantics says
          CtxDep             \* TRUE: the meaning of the source text may depend on the context it is compiled in

Contexts == {"host", "self"}
CtxOf(k) == IF k = 1 THEN "host" ELSE "self"

Stages == 1..3
NoBin == [built |-> FALSE, by |-> "-", objs |-> "-"]

VARIABLES bin, out, env,
          sem, beh, objOf     \* model checking only: chosen in Init, then constant

vars == <<bin, out, env, sem, beh, objOf>>
obs  == <<bin, out, env>>
mcv  == <<sem, beh, objOf>>        \* not used by trace validation (held at 0)

Key(k, i, o, e) == <<k, i, o, e>>

(* ---------------------------------------------------------------- actions *)
Build(k, by, o) ==
  /\ k \in Stages /\ ~bin[k].built
  /\ IF k = 1 THEN by = "cc" ELSE by = k - 1 /\ bin[k - 1].built
  /\ bin' = [bin EXCEPT ![k] = [built |-> TRUE, by |-> by, objs |-> o]]
  /\ UNCHANGED <<out, env>>

SetEnv(e) == env' = e /\ UNCHANGED <<bin, out>>

Compile(k, i, o, r) ==
  /\ k \in Stages /\ bin[k].built
  /\ Key(k, i, o, env) \notin DOMAIN out
  /\ out' = [x \in DOMAIN out \cup {Key(k, i, o, env)} |-> IF x \in DOMAIN out THEN out[x] ELSE r]
  /\ UNCHANGED <<bin, env>>

(* a new (input, options) group: the harness's log is sorted by (input, options) and only the
   current group is kept (trace validation; never taken in the model-checking configuration) *)
Forget == out' = [x \in {} |-> 0] /\ UNCHANGED <<bin, env>>

(* ------------------------------------------------------------- properties *)
StageAgree == \A x, y \in DOMAIN out :
                (x[2] = y[2] /\ x[3] = y[3] /\ x[4] = y[4]) => out[x] = out[y]
EnvIndep   == \A x, y \in DOMAIN out :
                (x[1] = y[1] /\ x[2] = y[2] /\ x[3] = y[3]) => out[x] = out[y]
SelfAgree  == \A x, y \in DOMAIN out :          \* (implied by StageAgree: what a stage2-vs-stage3 comparison alone establishes)
                (x[1] > 1 /\ y[1] > 1 /\ x[2] = y[2] /\ x[3] = y[3] /\ x[4] = y[4]) => out[x] = out[y]
ObjFix     == (bin[2].built /\ bin[3].built) => bin[2].objs = bin[3].objs
BuildOrder == \A k \in 2..3 : bin[k].built => bin[k - 1].built /\ bin[k].by = k - 1

Agree == StageAgree /\ EnvIndep /\ ObjFix /\ BuildOrder

(* ------------------------------------------------- model-checking wrapper *)
BehSpace == [Stages \X Inputs \X Opts \X Envs -> Results]

Init ==
  /\ bin = [k \in Stages |-> NoBin]
  /\ out = [x \in {} |-> 0]
  /\ env \in Envs
  /\ sem \in [Contexts \X Inputs \X Opts -> Results]
  /\ (~CtxDep => \A i \in Inputs, o \in Opts : sem[<<"host", i, o>>] = sem[<<"self", i, o>>])
  /\ IF Correct
       THEN /\ beh = [x \in Stages \X Inputs \X Opts \X Envs |-> sem[<<CtxOf(x[1]), x[2], x[3]>>]]
            /\ objOf \in [2..3 -> {CHOOSE d \in ObjDigests : TRUE}]
       ELSE /\ beh \in BehSpace
            /\ objOf \in [2..3 -> ObjDigests]

Next ==
  \/ \E k \in Stages : Build(k, IF k = 1 THEN "cc" ELSE k - 1, IF k = 1 THEN "-" ELSE objOf[k])
       /\ UNCHANGED <<sem, beh, objOf>>
  \/ \E e \in Envs : e # env /\ SetEnv(e) /\ UNCHANGED <<sem, beh, objOf>>
  \/ \E k \in Stages, i \in Inputs, o \in Opts :
       Compile(k, i, o, beh[<<k, i, o, env>>]) /\ UNCHANGED <<sem, beh, objOf>>

Spec == Init /\ [][Next]_vars

TypeOK == /\ \A k \in Stages : bin[k].built \in BOOLEAN
          /\ DOMAIN out \subseteq Stages \X Inputs \X Opts \X Envs
          /\ env \in Envs
=============================================================================
