SPECIFICATION Spec
CONSTANTS Inputs = {"src", "prog"}
 Opts = {"-S"}
 Envs = {"A", "B"}
 Results = {"r1", "r2"}
 ObjDigests = {"d1", "d2"}
 Correct = TRUE
 CtxDep = FALSE
INVARIANTS StageAgree SelfAgree EnvIndep ObjFix BuildOrder TypeOK
CHECK_DEADLOCK FALSE
