SPECIFICATION TSpec
CONSTANTS Inputs = {}
 Opts = {}
 Envs = {}
 Results = {}
 ObjDigests = {}
 Correct = TRUE
 CtxDep = FALSE
CHECK_DEADLOCK FALSE
