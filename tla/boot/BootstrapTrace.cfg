SPECIFICATION TSpec
CONSTANTS Inputs = {}
 Opts = {}
 Envs = {}
 Results = {}
 ObjDigests = {}
 Correct = TRUE
CHECK_DEADLOCK FALSE
