SPECIFICATION Spec
CONSTANTS
 Shared = FALSE
 Emit = TRUE
INVARIANTS ValuesOK
CHECK_DEADLOCK FALSE
