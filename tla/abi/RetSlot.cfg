SPECIFICATION Spec
CONSTANTS
 InPlace = FALSE
 Emit = TRUE
INVARIANTS ValueOK
CHECK_DEADLOCK FALSE
