SPECIFICATION Spec
CONSTANTS
 TrustOwn = TRUE
 Emit = FALSE
INVARIANTS ValueOK
CHECK_DEADLOCK FALSE
