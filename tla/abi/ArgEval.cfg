SPECIFICATION Spec
CONSTANTS
 Direct = FALSE
 MaxActive = 1
 Emit = TRUE
INVARIANTS AtCall
CHECK_DEADLOCK FALSE
