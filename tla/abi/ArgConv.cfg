SPECIFICATION Spec
CONSTANTS
 CastAlways = TRUE
 Emit = TRUE
INVARIANTS ConvOK
CHECK_DEADLOCK FALSE
