SPECIFICATION Spec
CONSTANTS
 Hoisted = FALSE
 Emit = TRUE
INVARIANTS Truncates Preserved
CHECK_DEADLOCK FALSE
