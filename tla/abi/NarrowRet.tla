----------------------------- MODULE NarrowRet -----------------------------
(* C06, a _Bool / char / short return value between ANY callee and a chibicc
   caller.  psABI 3.2.3 (return of values) + the footnote on _Bool: the value
   is in al / ax; the bits of rax above the type's width are not specified
   (for _Bool: bit 0 is the truth value, bits 1-7 are zero, nothing is said
   about bits 8-63).  So the only thing a caller may assume is the low byte /
   word - whoever compiled the callee, wherever its definition is, however the
   call reaches it.  C11 6.5.2.2 / 6.3.1.1: the value of the call expression
   is the returned value, and using it in arithmetic promotes it to int.

   The dimensions this module adds to C06's alphabet:
     place : where the callee's definition is relative to the call -
             other (another translation unit) | otherptr (same, called through a pointer)
             | same (this translation unit, external linkage, defined after the call)
             | samestatic (static, defined before the call) | sameptr (through a pointer)
     prod  : how the callee's body leaves the value in the register -
             conv  `return (T)x;`                        chibicc's cast extends to 32 bits
             fwd   `return g(x);`                        the callee normalised g's result itself
             exch  `return atomic_exchange(&obj, new);`  `xchg %al,(%rdi)`: al = old value, the
                                                         bits above are those of the NEW value
                                                         (HEAD; with the ND_EXCH repair, fix-10,
                                                         the extension of the old value)
             asm   the body returns from an asm statement (the idiom of test/asm.c): any bits
             ref   compiled by another ABI-conforming compiler: any bits
   Level A: consumed value = extension of the low bits according to T.
   Level I (codegen.c ND_FUNCALL): movzx / movsbl / movzbl / movswl / movzwl
   after EVERY call whose type is narrow.  TrustOwn = TRUE is the variant "no
   normalisation when the designator names a function defined in this
   translation unit" (sensitivity control, must be rejected).

   A register is modelled as [low: the value in the low w bits, up: bits
   w..31 as a pattern zeros | ones | junk]; the extension the type demands is
   zeros, or ones for a signed type with the sign bit set.                    *)
EXTENDS Integers, Sequences, FiniteSets, TLC, Json, CSV, IOUtils

CONSTANTS TrustOwn, Emit

Types == {"bool", "char", "schar", "uchar", "short", "ushort"}
Width(t) == IF t \in {"short", "ushort"} THEN 16 ELSE 8
Signed(t) == t \in {"char", "schar", "short"}
Vals(t) == IF t = "bool" THEN {0, 1}
           ELSE IF Width(t) = 8 THEN {0, 1, 5, 127, 128, 251, 255}
           ELSE {0, 1, 5, 32767, 32768, 65531, 65535}
SignBit(t, v) == v >= (IF Width(t) = 8 THEN 128 ELSE 32768)
Ext(t, v) == IF Signed(t) /\ SignBit(t, v) THEN "ones" ELSE "zeros"         \* Level A: bits w..31 of the promoted value
Ups == {"zeros", "ones", "junk"}
Places == {"other", "otherptr", "same", "samestatic", "sameptr"}
Prods == {"conv", "fwd", "exch", "asm", "ref"}

(* ---- the callee: the register it returns with *)
RetReg(t, prod, v, nv, up) ==
  CASE prod \in {"conv", "fwd"} -> [low |-> v, up |-> Ext(t, v)]      \* cast() / the callee's own normalisation after its call
    [] prod = "exch" -> [low |-> v, up |-> up]                        \* Ext(t, nv): eax held the new value, xchg replaces al / ax only;
                                                                      \* or Ext(t, v) once ND_EXCH extends its result (Init picks either)
    [] prod \in {"asm", "ref"} -> [low |-> v, up |-> up]              \* anything the psABI allows
(* ---- the caller: ND_FUNCALL after `call` *)
OwnDef(place) == place \in {"same", "samestatic"}                     \* lhs is ND_VAR of a function with is_definition
Normalised(place) == ~(TrustOwn /\ OwnDef(place))
Consumed(t, place, r) == IF Normalised(place) THEN [low |-> r.low, up |-> Ext(t, r.low)] ELSE r

VARIABLES ty, place, prod, v, nv, up, done
vars == <<ty, place, prod, v, nv, up, done>>
Init == /\ ty \in Types /\ place \in Places /\ prod \in Prods
        /\ v \in Vals(ty)
        /\ nv \in (IF prod = "exch" THEN Vals(ty) ELSE {0})
        /\ up \in (IF prod \in {"asm", "ref"} THEN Ups ELSE IF prod = "exch" THEN {Ext(ty, v), Ext(ty, nv)} ELSE {"zeros"})
        /\ (prod = "ref" => place \in {"other", "otherptr"})          \* another compiler's callee is in another translation unit
        /\ done = FALSE
Check == /\ ~done /\ done' = TRUE /\ UNCHANGED <<ty, place, prod, v, nv, up>>
         /\ IF Emit THEN CSVWrite("%1$s", <<ToJson([ty |-> ty, place |-> place, prod |-> prod, v |-> v, nv |-> nv, up |-> up,
                                                    ext |-> Ext(ty, v)])>>, IOEnv.OUT) ELSE TRUE
Spec == Init /\ [][Check]_vars
ValueOK == Consumed(ty, place, RetReg(ty, prod, v, nv, up)) = [low |-> v, up |-> Ext(ty, v)]
=============================================================================
