------------------------------ MODULE ArgConv ------------------------------
(* C06, integer arguments.  C11 6.5.2.2p7: an argument is converted, as if by
   assignment, to the type of the corresponding parameter - in the CALLER; the
   psABI then guarantees the callee exactly the bits of the parameter type in
   the register / stack slot (for _Bool: the low byte is 0 or 1), nothing above.

   Values are 64-bit patterns as 8 little-endian bytes (TLC integers are 32-bit);
   an argument value is given in canonical form (sign- or zero-extended to 64
   bits according to the argument's type).

   Level A: ConvA = conversion as if by assignment.
   Level I: what chibicc does for `f(e)` with e of type `from` and the parameter
   of type `to`: load() of the operand (LoadI), parse.c funcall's new_cast(arg,
   param_ty) and codegen.c cast(): the TY_BOOL special case and cast_table
   (CastOp transcribes the 8x8 integer part; _Bool has type id U64).
   Invariant ConvOK: the low sizeof(to) bytes handed over are ConvA's.
   CastAlways = FALSE is the "no cast when the sizes are equal" variant
   (sensitivity control; it must be rejected: char 2 -> _Bool).            *)
EXTENDS Integers, Sequences, FiniteSets, TLC, Json, CSV, IOUtils

CONSTANTS CastAlways,   \* TRUE: funcall converts every non-aggregate argument to the parameter type (the code)
          Emit

Types == <<"bool", "char", "schar", "uchar", "short", "ushort", "int", "uint", "long", "ulong">>
TypeSet == {Types[i] : i \in DOMAIN Types}
Size(t) == CASE t \in {"bool", "char", "schar", "uchar"} -> 1 [] t \in {"short", "ushort"} -> 2
             [] t \in {"int", "uint"} -> 4 [] OTHER -> 8
Signed(t) == t \in {"char", "schar", "short", "int", "long"}      \* chibicc's ty_bool has is_unsigned = false, but holds 0/1

Ext(b, n, sg) == [i \in 1..8 |-> IF i <= n THEN b[i] ELSE IF sg /\ b[n] >= 128 THEN 255 ELSE 0]
Low(b, n) == [i \in 1..n |-> b[i]]
NonZero(b, n) == \E i \in 1..n : b[i] # 0
Z32(b) == [i \in 1..8 |-> IF i <= 4 THEN b[i] ELSE 0]
One == <<1, 0, 0, 0, 0, 0, 0, 0>>
Zero == <<0, 0, 0, 0, 0, 0, 0, 0>>

(* Level A *)
ConvA(b, to) == IF to = "bool" THEN (IF NonZero(b, 8) THEN One ELSE Zero) ELSE Ext(b, Size(to), Signed(to))

(* Level I *)
LoadI(t, b) ==                      \* codegen.c load(): movs/movz bl|wl -> eax, movsxd, mov
  IF Size(t) = 1 THEN Z32(Ext(b, 1, Signed(t)))
  ELSE IF Size(t) = 2 THEN Z32(Ext(b, 2, Signed(t)))
  ELSE IF Size(t) = 4 THEN Ext(b, 4, TRUE)
  ELSE b
TypeId(t) == CASE t \in {"char", "schar"} -> "i8" [] t = "short" -> "i16" [] t = "int" -> "i32" [] t = "long" -> "i64"
               [] t = "uchar" -> "u8" [] t = "ushort" -> "u16" [] t = "uint" -> "u32" [] OTHER -> "u64"   \* _Bool falls to U64
(* cast_table[t1][t2], integer part *)
CastOp(f, t) ==
  IF t \in {"i8"} THEN (IF f = "i8" THEN "none" ELSE "i32i8")
  ELSE IF t = "i16" THEN (IF f \in {"i8", "i16", "u8"} THEN "none" ELSE "i32i16")
  ELSE IF t \in {"i32", "u32"} THEN "none"
  ELSE IF t \in {"i64", "u64"} THEN (IF f \in {"i64", "u64"} THEN "none" ELSE IF f = "u32" THEN "u32i64" ELSE "i32i64")
  ELSE IF t = "u8" THEN (IF f = "u8" THEN "none" ELSE "i32u8")
  ELSE (IF f \in {"u8", "u16"} THEN "none" ELSE "i32u16")                 \* t = "u16"
Apply(op, r) == CASE op = "none" -> r
                  [] op = "i32i8"  -> Z32(Ext(r, 1, TRUE))   [] op = "i32u8"  -> Z32(Ext(r, 1, FALSE))
                  [] op = "i32i16" -> Z32(Ext(r, 2, TRUE))   [] op = "i32u16" -> Z32(Ext(r, 2, FALSE))
                  [] op = "i32i64" -> Ext(r, 4, TRUE)        [] op = "u32i64" -> Z32(r)
CastI(r, from, to) ==
  IF to = "bool" THEN (IF NonZero(r, IF Size(from) <= 4 THEN 4 ELSE 8) THEN One ELSE Zero)   \* cmp_zero; setne; movzx
  ELSE Apply(CastOp(TypeId(from), TypeId(to)), r)
PassI(b, from, to) ==
  LET r == LoadI(from, b) IN
  IF CastAlways \/ Size(from) # Size(to) THEN CastI(r, from, to) ELSE r

(* boundary values of an argument type, canonical *)
Pat(t) == LET n == Size(t) IN
  IF t = "bool" THEN {Zero, One}
  ELSE {Ext(p, n, Signed(t)) : p \in
         {[i \in 1..8 |-> 0], [i \in 1..8 |-> IF i = 1 THEN 1 ELSE 0], [i \in 1..8 |-> IF i = 1 THEN 2 ELSE 0],
          [i \in 1..8 |-> IF i = 1 THEN 128 ELSE 0], [i \in 1..8 |-> IF i = 1 THEN 127 ELSE 0],
          [i \in 1..8 |-> IF i <= n THEN 255 ELSE 0],                                  \* -1 / the maximum
          [i \in 1..8 |-> IF i < n THEN 255 ELSE IF i = n THEN 127 ELSE 0],           \* the signed maximum
          [i \in 1..8 |-> IF i = n THEN 128 ELSE 0],                                  \* the signed minimum / top bit
          [i \in 1..8 |-> IF i = 2 /\ n >= 2 THEN 1 ELSE 0],                          \* 0x100
          [i \in 1..8 |-> IF i = 2 /\ n >= 2 THEN 128 ELSE 0],                        \* 0x8000
          [i \in 1..8 |-> IF i = 3 /\ n >= 4 THEN 1 ELSE 0],                          \* 0x10000
          [i \in 1..8 |-> IF i = 5 /\ n >= 8 THEN 1 ELSE 0]}}                         \* 0x100000000

VARIABLES from, to, val, pos, done
vars == <<from, to, val, pos, done>>
Init == /\ from \in TypeSet /\ to \in TypeSet /\ val \in Pat(from) /\ pos \in {"reg", "stk"} /\ done = FALSE
Out == /\ ~done /\ done' = TRUE /\ UNCHANGED <<from, to, val, pos>>
       /\ IF Emit THEN CSVWrite("%1$s", <<ToJson([from |-> from, to |-> to, pos |-> pos, val |-> val,
                                                   exp |-> Low(ConvA(val, to), Size(to))])>>, IOEnv.OUT)
          ELSE TRUE
Spec == Init /\ [][Out]_vars
ConvOK == Low(PassI(val, from, to), Size(to)) = Low(ConvA(val, to), Size(to))
=============================================================================
