------------------------------ MODULE ArgEval ------------------------------
(* C06, evaluating the arguments of a call versus the argument registers.

   C11 6.5.2.2p10: the function designator and the actual arguments are all
   evaluated (in any order) before the call.  psABI 3.2.1/3.2.3: rdi rsi rdx
   rcx r8 r9 / xmm0-7 carry the arguments, rax the number of vector registers
   of a variadic call, and every register that is not callee-saved (rax rcx rdx
   rsi rdi r8-r11, xmm0-15) may be overwritten by ANY function call.  An
   argument EXPRESSION is not just "a value": evaluating it may itself call -
   explicitly `g(x)`, or implicitly: under -fPIC a _Thread_local object is
   addressed by the general-dynamic sequence of the ELF TLS ABI,
   `lea x@tlsgd(%rip),%rdi; call __tls_get_addr@PLT` (codegen.c gen_addr) - and
   even a call-free expression uses the code generator's temporaries (chibicc:
   rdi for every binary operator and store, rdx for division, rcx for shifts,
   r8/r10 for struct copies, xmm1 for floating binary operators).

   The dimension this module adds to C06's alphabet is therefore the SOURCE FORM
   of each argument (and of the function designator) and the CODE MODEL the
   caller is compiled for:
     source : local | const | global | tls | call | arith | deref | assign
     desig  : direct | ptr (local pointer) | tlsptr | callptr (pointer returned by a call)
     mode   : exe (default code model, linked into an executable)
            | pic (-fPIC, linked into a shared object: no TLS relaxation by the linker)

   Level A.  `AImage`: where the psABI wants every eightbyte of every argument
   at the `call` instruction; `Clob(src, mode)`: which registers the evaluation
   of a source form may overwrite (ABI facts for the forms that call, chibicc's
   temporaries for the others).
   Level I.  The instruction sequence of codegen.c ND_FUNCALL / push_args /
   push_args2 on a machine of labelled registers and a labelled stack:
       pass 1 (stack arguments, right to left):    evaluate, push
       pass 2 (register arguments, right to left): evaluate, push
       evaluate the designator -> rax
       pops, left to right, into the argument registers (no evaluation here)
       mov rax -> r10; mov $nfp -> rax; call *r10
   Invariant `AtCall`: the machine image at `call` is the psABI image and r10
   holds the designator's value - for EVERY clobber set, because nothing is
   evaluated between the first pop and the call.

   Direct = TRUE is the variant "an integer argument that is a plain variable
   or constant is not pushed; it is evaluated while the registers are filled,
   the designator is parked in r10 before that" (sensitivity control, must be
   rejected: tls under pic).                                                  *)
EXTENDS Integers, Sequences, FiniteSets, TLC, Json, CSV, IOUtils, SequencesExt

CONSTANTS Direct, MaxActive, Emit

Modes == {"exe", "pic"}
Desigs == {"direct", "ptr", "tlsptr", "callptr"}
(* argument classes: gp = one INTEGER eightbyte (long), fp = one SSE eightbyte (double), gg = struct {long, long},
   gf = struct {long, double}, mem = 24-byte struct (MEMORY) *)
Frames == << <<"gp", "gp", "gp", "gp", "gp", "gp", "fp", "fp", "mem">>,
             <<"gg", "gf", "gp", "fp", "mem", "gp">>,
             <<"fp", "gp">> >>
Srcs(cls) ==
  CASE cls = "gp" -> {"local", "const", "global", "tls", "call", "arith", "deref", "assign"}
    [] cls = "fp" -> {"local", "const", "global", "tls", "call", "arith"}
    [] cls \in {"gg", "gf"} -> {"local", "global", "tls", "call", "deref", "assign"}
    [] cls = "mem" -> {"local", "global", "tls", "call"}

GPR == <<"rdi", "rsi", "rdx", "rcx", "r8", "r9">>
XMM == <<"xmm0", "xmm1", "xmm2", "xmm3", "xmm4", "xmm5", "xmm6", "xmm7">>
CallerSaved == {"rax", "rcx", "rdx", "rsi", "rdi", "r8", "r9", "r10", "r11"} \cup {XMM[k] : k \in 1..8}
Regs == CallerSaved

(* ---- Level A: what an evaluation may overwrite *)
Clob(src, mode) ==
  CASE src \in {"local", "const", "global", "deref", "direct", "ptr"} -> {"rax", "xmm0"}
    [] src \in {"tls", "tlsptr"} -> IF mode = "pic" THEN CallerSaved ELSE {"rax", "xmm0"}      \* __tls_get_addr
    [] src \in {"call", "callptr"} -> CallerSaved
    [] src = "arith" -> {"rax", "rdi", "rdx", "rcx", "xmm0", "xmm1"}
    [] src = "assign" -> {"rax", "rdi", "r8", "xmm0"}

Parts(cls) == CASE cls \in {"gp", "fp"} -> 1 [] cls \in {"gg", "gf"} -> 2 [] cls = "mem" -> 3
Lab(i, p) == <<"a", i, p>>
Junk == <<"junk", 0, 0>>
Fn == <<"fn", 0, 0>>
Nfp == <<"nfp", 0, 0>>
Addr(i) == <<"addr", i, 0>>

(* ---- Level A: the psABI image (classes of this module only; all-or-nothing for the two-eightbyte structs) *)
NeedG(cls) == CASE cls = "gp" -> 1 [] cls = "gg" -> 2 [] cls = "gf" -> 1 [] OTHER -> 0
NeedX(cls) == CASE cls = "fp" -> 1 [] cls = "gf" -> 1 [] OTHER -> 0
AStep(st, i, cls) ==
  IF cls # "mem" /\ st.g + NeedG(cls) <= 6 /\ st.x + NeedX(cls) <= 8
  THEN [st EXCEPT !.g = @ + NeedG(cls), !.x = @ + NeedX(cls),
          !.reg = CASE cls = "gp" -> (GPR[st.g + 1] :> Lab(i, 1)) @@ @
                    [] cls = "fp" -> (XMM[st.x + 1] :> Lab(i, 1)) @@ @
                    [] cls = "gg" -> (GPR[st.g + 1] :> Lab(i, 1)) @@ (GPR[st.g + 2] :> Lab(i, 2)) @@ @
                    [] cls = "gf" -> (GPR[st.g + 1] :> Lab(i, 1)) @@ (XMM[st.x + 1] :> Lab(i, 2)) @@ @,
          !.bystack = Append(@, FALSE)]
  ELSE [st EXCEPT !.mem = @ \o [p \in 1..Parts(cls) |-> Lab(i, p)], !.bystack = Append(@, TRUE)]
AImage(cl) ==
  LET S == 1..Len(cl)
      f[k \in 0..Len(cl)] == IF k = 0 THEN [g |-> 0, x |-> 0, reg |-> <<>>, mem |-> <<>>, bystack |-> <<>>]
                             ELSE AStep(f[k - 1], k, cl[k])
  IN f[Len(cl)]

(* ---- Level I: the program codegen.c emits for one call *)
Simple(a) == a.cls = "gp" /\ a.src \in {"local", "const", "global", "tls"}      \* ND_VAR / ND_NUM of integer type (the variant)
Rev(n) == [k \in 1..n |-> n + 1 - k]
Pass(args, by, which) ==         \* push_args2(args, first_pass): right to left, the arguments of one pass
  FoldLeft(LAMBDA acc, i : IF by[i] = which /\ ~(Direct /\ ~which /\ Simple(args[i]))
                           THEN acc \o << [op |-> "eval", i |-> i], [op |-> "push", i |-> i] >> ELSE acc,
           <<>>, Rev(Len(args)))
Fill(args, by) ==                \* the pop loop of ND_FUNCALL, left to right
  LET step(acc, i) ==
        LET c == args[i].cls IN
        IF by[i] THEN acc
        ELSE CASE c = "gp" -> [acc EXCEPT !.g = @ + 1,
                                 !.ops = @ \o (IF Direct /\ Simple(args[i])
                                               THEN << [op |-> "eval", i |-> i], [op |-> "mov", to |-> GPR[acc.g + 1]] >>
                                               ELSE << [op |-> "pop", to |-> GPR[acc.g + 1]] >>)]
               [] c = "fp" -> [acc EXCEPT !.x = @ + 1, !.ops = @ \o << [op |-> "pop", to |-> XMM[acc.x + 1]] >>]
               [] c = "gg" -> [acc EXCEPT !.g = @ + 2, !.ops = @ \o << [op |-> "pop", to |-> GPR[acc.g + 1]], [op |-> "pop", to |-> GPR[acc.g + 2]] >>]
               [] c = "gf" -> [acc EXCEPT !.g = @ + 1, !.x = @ + 1, !.ops = @ \o << [op |-> "pop", to |-> GPR[acc.g + 1]], [op |-> "pop", to |-> XMM[acc.x + 1]] >>]
  IN FoldLeft(step, [g |-> 0, x |-> 0, ops |-> <<>>], [k \in 1..Len(args) |-> k]).ops
Program(args, by) ==
  Pass(args, by, TRUE) \o Pass(args, by, FALSE) \o << [op |-> "evalfn"] >>
  \o (IF Direct THEN << [op |-> "mov", to |-> "r10"] >> ELSE <<>>)
  \o Fill(args, by)
  \o (IF Direct THEN <<>> ELSE << [op |-> "mov", to |-> "r10"] >>)
  \o << [op |-> "setal"] >>

(* ---- the machine *)
Havoc(reg, set) == [r \in Regs |-> IF r \in set THEN Junk ELSE reg[r]]
Exec(m, ins, args, mode, desig) ==
  CASE ins.op = "eval" ->
         LET a == args[ins.i]
             h == Havoc(m.reg, Clob(a.src, mode)) IN
         [m EXCEPT !.reg = IF a.cls = "fp" THEN [h EXCEPT !["xmm0"] = Lab(ins.i, 1)]
                           ELSE IF a.cls = "gp" THEN [h EXCEPT !["rax"] = Lab(ins.i, 1)]
                           ELSE [h EXCEPT !["rax"] = Addr(ins.i)]]
    [] ins.op = "push" ->
         LET c == args[ins.i].cls IN
         IF c = "gp" THEN [m EXCEPT !.stk = <<m.reg["rax"]>> \o @]
         ELSE IF c = "fp" THEN [m EXCEPT !.stk = <<m.reg["xmm0"]>> \o @]
         ELSE [m EXCEPT !.stk = (IF m.reg["rax"] = Addr(ins.i) THEN [p \in 1..Parts(c) |-> Lab(ins.i, p)] ELSE [p \in 1..Parts(c) |-> Junk]) \o @,
                        !.reg = Havoc(@, {"r10"})]                                \* push_struct copies through r10b
    [] ins.op = "evalfn" -> [m EXCEPT !.reg = [Havoc(@, Clob(desig, mode)) EXCEPT !["rax"] = Fn]]
    [] ins.op = "pop" -> [m EXCEPT !.reg = [@ EXCEPT ![ins.to] = Head(m.stk)], !.stk = Tail(@)]
    [] ins.op = "mov" -> [m EXCEPT !.reg = [@ EXCEPT ![ins.to] = m.reg["rax"]]]
    [] ins.op = "setal" -> [m EXCEPT !.reg = [@ EXCEPT !["rax"] = Nfp]]
Run(args, mode, desig) ==
  LET by == AImage([k \in 1..Len(args) |-> args[k].cls]).bystack IN       \* push_args' marking agrees with the psABI here (SysV.tla proves it)
  FoldLeft(LAMBDA m, ins : Exec(m, ins, args, mode, desig),
           [reg |-> [r \in Regs |-> Junk], stk |-> <<>>], Program(args, by))

ImageOK(args, mode, desig) ==
  LET A == AImage([k \in 1..Len(args) |-> args[k].cls])
      m == Run(args, mode, desig) IN
  /\ \A r \in DOMAIN A.reg : m.reg[r] = A.reg[r]
  /\ m.stk = A.mem
  /\ m.reg["r10"] = Fn
  /\ m.reg["rax"] = Nfp

(* ---- the domain: every frame x every assignment of source forms with at most MaxActive non-local arguments
        x every designator form x code model *)
Active(s) == Cardinality({k \in DOMAIN s : s[k] # "local"})

VARIABLES fi, srcs, desig, mode, done
vars == <<fi, srcs, desig, mode, done>>
Sigs(f) ==
  LET fr == Frames[f]
      one(k, v) == [j \in 1..Len(fr) |-> IF j = k THEN v ELSE "local"]
      two(k, v, k2, v2) == [j \in 1..Len(fr) |-> IF j = k THEN v ELSE IF j = k2 THEN v2 ELSE "local"]
  IN {[j \in 1..Len(fr) |-> "local"]}
     \cup (IF MaxActive >= 1 THEN {one(k, v) : k \in 1..Len(fr), v \in UNION {Srcs(c) : c \in {"gp", "fp", "gg", "gf", "mem"}}} ELSE {})
     \cup (IF MaxActive >= 2 THEN {two(k, v, k2, v2) : k \in 1..Len(fr), k2 \in 1..Len(fr),
                                                      v \in {"tls", "call", "arith", "assign"}, v2 \in {"tls", "call", "arith", "global"}} ELSE {})
Init == /\ fi \in 1..Len(Frames) /\ mode \in Modes /\ desig \in Desigs
        /\ srcs \in {s \in Sigs(fi) : (\A k \in DOMAIN s : s[k] \in Srcs(Frames[fi][k])) /\ Active(s) <= MaxActive}
        /\ done = FALSE
Args == [k \in 1..Len(Frames[fi]) |-> [cls |-> Frames[fi][k], src |-> srcs[k]]]
Check == /\ ~done /\ done' = TRUE /\ UNCHANGED <<fi, srcs, desig, mode>>
         /\ IF Emit THEN CSVWrite("%1$s", <<ToJson([frame |-> fi, mode |-> mode, desig |-> desig, args |-> Args])>>, IOEnv.OUT) ELSE TRUE
Spec == Init /\ [][Check]_vars
AtCall == ImageOK(Args, mode, desig)
=============================================================================
