------------------------------ MODULE RetSlot ------------------------------
(* C06, the memory a MEMORY-class value is returned in.  psABI 3.2.3: the caller
   passes the address of the return slot in rdi; nothing says when the callee
   writes it, so the callee may fill the slot before (or while) it reads its
   arguments and any object it can reach.  C semantics of `d = f(args)`: the
   value of the call is what f computes from the objects as they are when it
   runs; d changes only afterwards.  Hence the CALLER must hand over a slot
   that overlaps no object the callee can otherwise see.

   Objects hold abstract values.  The callee computes F(value of *src); its
   steps are taken in every order the convention allows:
     early flavour:  Z (clear the slot)  R (read *src)  W (slot := F(r)),  R before W, Z before W
     late flavour :  R, L (own local := F(r)), C (slot := local)            (what chibicc / gcc -O1 emit)
   Level I, the caller (codegen.c ND_FUNCALL / ND_ASSIGN): the slot is the
   call's own temporary `ret_buffer`; afterwards the value is copied to the
   destination.  InPlace = TRUE is the variant that passes a plain local
   destination itself as the slot (sensitivity control; must be rejected).  *)
EXTENDS Integers, Sequences, FiniteSets, TLC, Json, CSV, IOUtils

CONSTANTS InPlace, Emit

Shapes == {"arg",      \* d = f(&d)
           "glob",     \* gp = &d; d = f_g()
           "nested",   \* d = f(id(&d))
           "member",   \* w.m = f(&w.m)        (destination is not a plain local)
           "deref",    \* *p = f(p)
           "byvalue",  \* use(f(&d))           (no destination: the temporary is the argument)
           "other"}    \* d = f(&s)            (control: the callee cannot see d)
Flavours == {"early", "late"}
F(x) == x + 10
Old == [d |-> 3, s |-> 5, tmp |-> 99, loc |-> 98]      \* contents before the call (tmp, loc: indeterminate)

SrcOf(sh) == IF sh = "other" THEN "s" ELSE "d"
DstOf(sh) == IF sh = "byvalue" THEN "tmp" ELSE "d"
PlainLocalDst(sh) == sh \in {"arg", "glob", "nested", "other"}

VARIABLES shape, flav, mem, slot, pc, todo, r
vars == <<shape, flav, mem, slot, pc, todo, r>>

Init == /\ shape \in Shapes /\ flav \in Flavours
        /\ mem = Old /\ slot = "none" /\ pc = "call" /\ todo = {} /\ r = 0

(* caller: push_args' `lea ret_buffer(%rbp)` *)
Call == /\ pc = "call"
        /\ slot' = IF InPlace /\ PlainLocalDst(shape) THEN "d" ELSE "tmp"
        /\ todo' = IF flav = "early" THEN {"Z", "R", "W"} ELSE {"R", "L", "C"}
        /\ pc' = "callee" /\ UNCHANGED <<shape, flav, mem, r>>
(* callee steps, any admissible order *)
Step(x) ==
  /\ pc = "callee" /\ x \in todo
  /\ x = "W" => todo = {"W"}
  /\ x = "L" => "R" \notin todo
  /\ x = "C" => todo = {"C"}
  /\ todo' = todo \ {x}
  /\ CASE x = "Z" -> mem' = [mem EXCEPT ![slot] = 0] /\ r' = r
       [] x = "R" -> r' = mem[SrcOf(shape)] /\ mem' = mem
       [] x = "W" -> mem' = [mem EXCEPT ![slot] = F(r)] /\ r' = r
       [] x = "L" -> mem' = [mem EXCEPT !.loc = F(r)] /\ r' = r
       [] x = "C" -> mem' = [mem EXCEPT ![slot] = mem.loc] /\ r' = r
  /\ UNCHANGED <<shape, flav, slot, pc>>
(* caller: the value of the call is stored to the destination *)
Ret == /\ pc = "callee" /\ todo = {}
       /\ mem' = IF slot = DstOf(shape) THEN mem ELSE [mem EXCEPT ![DstOf(shape)] = mem[slot]]
       /\ pc' = "done" /\ UNCHANGED <<shape, flav, slot, todo, r>>
       /\ IF Emit THEN CSVWrite("%1$s", <<ToJson([shape |-> shape, flavour |-> flav, src |-> SrcOf(shape),
                                                   dst |-> DstOf(shape), plain |-> PlainLocalDst(shape)])>>, IOEnv.OUT)
          ELSE TRUE
Next == Call \/ (\E x \in {"Z", "R", "W", "L", "C"} : Step(x)) \/ Ret
Spec == Init /\ [][Next]_vars

(* the destination receives F(the source as it was before the call); nothing else the program can see changes *)
ValueOK == pc = "done" => /\ mem[DstOf(shape)] = F(Old[SrcOf(shape)])
                          /\ (SrcOf(shape) = "s" => mem.s = Old.s)
=============================================================================
