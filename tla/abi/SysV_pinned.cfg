SPECIFICATION Spec
CONSTANTS
 FixOffset = FALSE
 FixPhantom = FALSE
 FixLE = FALSE
 FixAlign16 = FALSE
 FixX87 = FALSE
 FixVaArea = FALSE
 FixVaStride = FALSE
 FixVaArg = FALSE
 FixRetRax = FALSE
 Waived = {}
 MaxLen = 16
 RetSel = {"i"}
 ParamSel = {}
 Emit = FALSE
VIEW GraphView
INVARIANTS Agree CountersAgree TypeOK
CHECK_DEADLOCK FALSE
