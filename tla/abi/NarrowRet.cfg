SPECIFICATION Spec
CONSTANTS
 TrustOwn = FALSE
 Emit = TRUE
INVARIANTS ValueOK
CHECK_DEADLOCK FALSE
