------------------------------- MODULE FpCtl -------------------------------
(* C06, callee-saved floating-point control state.  psABI 3.2.1/3.2.3: besides
   rbx, rbp, r12-r15 "the control bits of the MXCSR register are callee-saved
   ... the x87 control word is callee-saved": a function returns with the
   rounding / precision / mask bits it was entered with.  C11 6.3.1.4: a
   floating value converted to an integer type is truncated toward zero.

   chibicc touches the control word in exactly one place, the long double ->
   integer rows of cast_table (FROM_F80_1 ... fistp ... FROM_F80_2): save the
   word at -10(%rsp), build a copy with RC = 11 (truncate) at -12(%rsp), load
   it, store the integer, reload the saved word.  The u64 row does this in both
   arms of its 2^63 range check.  Level I = these instruction sequences on a
   machine with the control word and the two stack slots; TLC runs every row,
   both arms, from every rounding mode the caller may have set:
     Truncates : every fistp executes with RC = truncate            (C11)
     Preserved : at the end the control word is the one at entry     (psABI)
   Hoisted = TRUE is the variant "switch once before the range check, restore
   in the < 2^63 arm only" (sensitivity control, must be rejected).         *)
EXTENDS Integers, Sequences, FiniteSets, TLC, Json, CSV, IOUtils

CONSTANTS Hoisted, Emit

Rows == {"i8", "u8", "i16", "u16", "i32", "u32", "i64", "u64"}
F1 == <<"fnstcw10", "mk12", "fldcw12">>           \* FROM_F80_1
F2 == <<"fist", "fldcw10">>                        \* fistp; FROM_F80_2
Prog(row, arm) ==
  IF row # "u64" THEN F1 \o F2
  ELSE IF ~Hoisted THEN (IF arm = "lt" THEN <<"cmp", "fstp">> \o F1 \o F2 ELSE <<"cmp", "fsubrp">> \o F1 \o F2 \o <<"btc">>)
  ELSE (IF arm = "lt" THEN F1 \o <<"cmp", "fstp">> \o F2 ELSE F1 \o <<"cmp", "fsubrp", "fist", "btc">>)

VARIABLES row, arm, cw0, cw, s10, s12, pc, truncated
vars == <<row, arm, cw0, cw, s10, s12, pc, truncated>>
(* control word = [rc: rounding control 0..3 (3 = truncate), rest: the other bits, kept abstract] *)
Init == /\ row \in Rows /\ arm \in {"lt", "ge"} /\ (row # "u64" => arm = "lt")
        /\ cw0 \in [rc : 0..3, rest : {"dflt", "other"}] /\ cw = cw0
        /\ s10 = [rc |-> 9, rest |-> "junk"] /\ s12 = [rc |-> 9, rest |-> "junk"]
        /\ pc = 1 /\ truncated = TRUE
Exec == /\ pc <= Len(Prog(row, arm))
        /\ LET op == Prog(row, arm)[pc] IN
           /\ s10' = IF op = "fnstcw10" THEN cw ELSE s10
           /\ s12' = IF op = "mk12" THEN [s10 EXCEPT !.rc = 3] ELSE s12          \* or $12, %ah
           /\ cw'  = IF op = "fldcw12" THEN s12 ELSE IF op = "fldcw10" THEN s10 ELSE cw
           /\ truncated' = (truncated /\ (op = "fist" => cw.rc = 3))
        /\ pc' = pc + 1 /\ UNCHANGED <<row, arm, cw0>>
        /\ IF Emit /\ pc = Len(Prog(row, arm)) /\ cw0 = [rc |-> 0, rest |-> "dflt"]
           THEN CSVWrite("%1$s", <<ToJson([row |-> row, arm |-> arm])>>, IOEnv.OUT) ELSE TRUE
Spec == Init /\ [][Exec]_vars
Done == pc > Len(Prog(row, arm))
Truncates == truncated
Preserved == Done => cw = cw0
=============================================================================
