SPECIFICATION Spec
CONSTANTS
 Shared = TRUE
 Emit = FALSE
INVARIANTS ValuesOK
CHECK_DEADLOCK FALSE
