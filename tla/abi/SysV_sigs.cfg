SPECIFICATION Spec
CONSTANTS
 FixOffset = TRUE
 FixPhantom = TRUE
 FixLE = TRUE
 FixAlign16 = FALSE
 FixX87 = FALSE
 FixVaArea = FALSE
 FixVaStride = FALSE
 FixVaArg = FALSE
 FixVaArgLd = FALSE
 FixRetRax = FALSE
 FixRetLoad = FALSE
 FixPacked = FALSE
 FixZero = FALSE
 Waived = {}
 MaxLen = 2
 RetSel = {"i"}
 ParamSel = {}
 Emit = TRUE
VIEW SigView
INVARIANTS Agree RetAgree CountersAgree TypeOK
CHECK_DEADLOCK FALSE
