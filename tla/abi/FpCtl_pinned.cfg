SPECIFICATION Spec
CONSTANTS
 Hoisted = TRUE
 Emit = FALSE
INVARIANTS Truncates Preserved
CHECK_DEADLOCK FALSE
