SPECIFICATION Spec
CONSTANTS
 FixOffset = TRUE
 FixPhantom = TRUE
 FixLE = TRUE
 FixAlign16 = FALSE
 FixX87 = FALSE
 FixVaArea = FALSE
 FixVaStride = FALSE
 FixVaArg = FALSE
 FixVaArgLd = FALSE
 FixRetRax = FALSE
 FixRetLoad = FALSE
 FixPacked = FALSE
 FixZero = FALSE
 Waived = {}
 MaxLen = 16
 RetSel = {"i", "S24"}
 ParamSel = {"S0","Sz","Siif","See","Sel","i","l","p","f","d","e","Si","Sc3","Sd","Sff","Sfff","Sld","Sdl","Sdd","Sll","Sif","Udl","S24","Se","Sc16"}
 Emit = TRUE
VIEW GraphView
INVARIANTS Agree RetAgree CountersAgree TypeOK
CHECK_DEADLOCK FALSE
