-------------------------------- MODULE SysV --------------------------------
(* C06.  Calls obey the System V x86-64 calling convention.

   Level A — the psABI (3.2.3 parameter passing, 3.5.7 variable argument
   lists) on *structural* types: layout, eightbyte classification with
   merging and post-merger clean-up, the register/stack allocator, the return
   conventions, %al, the va_list walker.

   Level I — what chibicc does.  The convention is re-implemented several
   times in codegen.c and each copy is transcribed separately here:
     CallerDecide   push_args            (pass_by_stack marking, stack count)
     PopRegs        ND_FUNCALL pop loop  (which registers are loaded)
     CalleeOff      assign_lvar_offsets  (parameter homes: register or rbp+n)
     SpillRegs      emit_text            (which registers are stored to homes)
     VaInitI        emit_text va_area    (gp_offset, fp_offset, overflow area)
     WalkI          include/stdarg.h     (__va_arg_gp/_fp/_mem, reg_class)
     RetCalleeI     copy_struct_reg / copy_struct_mem / scalar return
     RetCallerI     copy_ret_buffer + narrow-return normalisation
     CallSim        push_args2 two passes, padding, hidden pointer push, pops:
                    an explicit stack of labelled 8-byte slots
   has_flonum is transcribed literally (HasFlonum) and evaluated on the same
   structural types Level A classifies.

   One Pass action = one more argument, pushed through Level A and every
   Level-I decider at once; `dis` collects the *classes* of disagreement of
   that transition, per side.  Invariant Agree: every class is in Waived (the
   classes recorded as open findings).  A side (caller / callee) that has
   deviated is switched off (cj / ej) and the other side is explored further on
   its own - with a conforming compiler on the deviating side the rest of the
   behaviour is still well defined; a behaviour ends when both are off.  Call
   simulates the whole call on the slot stack.

   Two ways to run it (see the .cfg files):
     graph : VIEW GraphView hides the argument history -> TLC explores the
             allocator graph, every reachable (gp, sse, stack parity, phase)
             x kind x {fixed, variadic} x return kind, one behaviour per
             transition from the shortest history of its source state;
     sigs  : the history is part of the state -> every signature of length
             <= MaxLen over the kind alphabet.
   With Emit every Pass transition is written out as a replayable behaviour:
   the signature, where the psABI puts every argument and the return value,
   %al, the disagreement classes the model predicts, which sides are still
   judged, and whether the probe extension (one more S24 / one more long and
   double) is disagreement-free - the generator replays that extension too, so
   that what a step leaves behind (overflow cursor, counters) is observed.  *)
EXTENDS Integers, Sequences, FiniteSets, TLC, Json, CSV, IOUtils, SequencesExt

CONSTANTS
  FixOffset,   \* TRUE: assign_lvar_offsets calls has_flonum(ty, 8, 16, 0)      (D09a repaired)
  FixPhantom,  \* TRUE: <= 8-byte aggregates count one register, not two         (D09b repaired)
  FixLE,       \* TRUE: aggregates use `<=` against FP_MAX/GP_MAX                 (D09c repaired)
  FixAlign16,  \* TRUE: 16-byte aligned memory arguments are padded to 16
  FixX87,      \* TRUE: aggregates containing long double go to memory / st0
  FixVaArea,   \* TRUE: variadic prologue counts registers like the spill loop and skips named stack params
  FixVaStride, \* TRUE: register save area uses the psABI layout (16 bytes per xmm)
  FixVaArg,    \* TRUE: va_arg classifies aggregates per psABI                     (D22, aggregates, repaired)
  FixVaArgLd,  \* TRUE: __builtin_reg_class(long double) = memory               (D22, long double, repaired)
  FixRetRax,   \* TRUE: a MEMORY-class return leaves the hidden pointer in rax
  FixRetLoad,  \* TRUE: copy_struct_reg loads 4 bytes for the second eightbyte of a 12-byte aggregate (tests size == 12, not 4)
  FixZero,     \* TRUE: a zero-sized aggregate (GNU C `struct {}`) occupies no register and no stack slot
  FixPacked,   \* TRUE: an aggregate with an unaligned field (packed struct) is passed and returned in memory
  Waived,      \* disagreement classes recorded as open findings
  MaxLen,      \* bound on the number of arguments of a behaviour
  RetSel,      \* return kinds explored ({} = all)
  ParamSel,    \* parameter kinds explored ({} = the 20 kinds of the design and 9 more sizes/mixes)
  Emit         \* TRUE: write every transition to IOEnv.OUT

GP_MAX == 6
FP_MAX == 8

-----------------------------------------------------------------------------
(* Structural types *)
Sc(k)    == [k |-> k, n |-> 0, m |-> <<>>]
St(ms)   == [k |-> "struct", n |-> 0, m |-> ms]
Pk(ms)   == [k |-> "struct", n |-> 1, m |-> ms]            \* struct __attribute__((packed)): every member at alignment 1
Al(a, t) == [k |-> "aligned", n |-> a, m |-> <<t>>]        \* a member declared `_Alignas(a) t` (only as a struct member)
Un(ms)   == [k |-> "union", n |-> 0, m |-> ms]
Ar(t, n) == [k |-> "array", n |-> n, m |-> <<t>>]

IntKinds == {"bool", "char", "uchar", "short", "ushort", "int", "long", "ptr"}
FltKinds == {"float", "double"}
IsAgg(T) == T.k \in {"struct", "union"}

ScalarSize(k) == CASE k \in {"bool", "char", "uchar", "void"} -> 1 [] k \in {"short", "ushort"} -> 2
                   [] k \in {"int", "float"} -> 4 [] k \in {"long", "ptr", "double"} -> 8
                   [] k = "ldouble" -> 16
Up(x, a) == ((x + a - 1) \div a) * a
Max2(x, y) == IF x > y THEN x ELSE y
Min2(x, y) == IF x < y THEN x ELSE y

RECURSIVE SizeOf(_), AlignOf(_), StructEnd(_, _, _)
Packed(T) == T.k = "struct" /\ T.n = 1
AlignOf(T) == IF T.k = "array" THEN AlignOf(T.m[1])
              ELSE IF T.k = "aligned" THEN Max2(T.n, AlignOf(T.m[1]))
              ELSE IF Packed(T) THEN 1
              ELSE IF IsAgg(T) THEN FoldLeft(LAMBDA a, t : Max2(a, AlignOf(t)), 1, T.m)
              ELSE ScalarSize(T.k)
(* alignment of member i inside T: 1 in a packed struct *)
MAlign(T, i) == IF Packed(T) THEN 1 ELSE AlignOf(T.m[i])
(* running end offset after the first i members of struct T *)
StructEnd(T, i, j) == IF j > i THEN 0 ELSE
                      IF i = 0 THEN 0 ELSE Up(StructEnd(T, i - 1, j), MAlign(T, i)) + SizeOf(T.m[i])
SizeOf(T) == IF T.k = "array" THEN T.n * SizeOf(T.m[1])
             ELSE IF T.k = "aligned" THEN SizeOf(T.m[1])
             ELSE IF T.k = "struct" THEN Up(StructEnd(T, Len(T.m), 1), AlignOf(T))
             ELSE IF T.k = "union" THEN Up(FoldLeft(LAMBDA a, t : Max2(a, SizeOf(t)), 0, T.m), AlignOf(T))
             ELSE ScalarSize(T.k)
MemberOff(T, i) == IF T.k = "union" THEN 0 ELSE Up(StructEnd(T, i - 1, 1), MAlign(T, i))

(* scalar leaves with their byte offsets *)
RECURSIVE Leaves(_, _)
Leaves(T, off) ==
  IF IsAgg(T) THEN FoldLeft(LAMBDA acc, i : acc \o Leaves(T.m[i], off + MemberOff(T, i)), <<>>, [i \in 1..Len(T.m) |-> i])
  ELSE IF T.k = "array" THEN FoldLeft(LAMBDA acc, i : acc \o Leaves(T.m[1], off + (i - 1) * SizeOf(T.m[1])), <<>>, [i \in 1..T.n |-> i])
  ELSE IF T.k = "aligned" THEN Leaves(T.m[1], off)
  ELSE <<[k |-> T.k, off |-> off]>>

-----------------------------------------------------------------------------
(* Level A: classification, psABI 3.2.3 *)
Merge(c1, c2) ==
  IF c1 = c2 THEN c1
  ELSE IF c1 = "NO" THEN c2 ELSE IF c2 = "NO" THEN c1
  ELSE IF c1 = "MEMORY" \/ c2 = "MEMORY" THEN "MEMORY"
  ELSE IF c1 = "INTEGER" \/ c2 = "INTEGER" THEN "INTEGER"
  ELSE IF c1 \in {"X87", "X87UP"} \/ c2 \in {"X87", "X87UP"} THEN "MEMORY"
  ELSE "SSE"
LeafClassAt(l, j) ==      \* class the leaf contributes to eightbyte j (0-based)
  IF l.k = "ldouble" THEN (IF l.off \div 8 = j THEN "X87" ELSE IF l.off \div 8 + 1 = j THEN "X87UP" ELSE "NO")
  ELSE IF l.off \div 8 # j THEN "NO"
  ELSE IF l.k \in FltKinds THEN "SSE" ELSE "INTEGER"
EightClasses(T) == LET ls == Leaves(T, 0) IN
  [j \in 1..(Up(SizeOf(T), 8) \div 8) |-> FoldLeft(LAMBDA c, l : Merge(c, LeafClassAt(l, j - 1)), "NO", ls)]
(* a field that does not sit at a multiple of its alignment (possible in a packed struct only) *)
Unaligned(T) == \E i \in DOMAIN Leaves(T, 0) : LET l == Leaves(T, 0)[i] IN l.off % ScalarSize(l.k) # 0
(* An eightbyte without any field (trailing padding of an over-aligned aggregate, `struct { _Alignas(16) long a; }`)
   keeps class NO_CLASS: it is passed and returned in no register (validated against gcc and clang). *)
Classify(T) ==
  IF T.k \in IntKinds THEN <<"INTEGER">>
  ELSE IF T.k \in FltKinds THEN <<"SSE">>
  ELSE IF T.k = "ldouble" THEN <<"X87", "X87UP">>
  ELSE IF SizeOf(T) > 16 THEN <<"MEMORY">>                  \* no __m256 in the domain
  ELSE IF Unaligned(T) THEN <<"MEMORY">>                    \* "... or it contains unaligned fields, it has class MEMORY"
  ELSE LET cs == EightClasses(T) IN
       IF \E j \in DOMAIN cs : cs[j] = "MEMORY" THEN <<"MEMORY">>
       ELSE IF \E j \in DOMAIN cs : cs[j] = "X87UP" /\ (j = 1 \/ cs[j - 1] # "X87") THEN <<"MEMORY">>
       ELSE cs
Cnt(cs, c) == Cardinality({j \in DOMAIN cs : cs[j] = c})
InMem(cs) == cs # <<>> /\ cs[1] \in {"MEMORY", "X87"}      \* X87 class arguments are passed in memory; a zero-sized
                                                           \* aggregate has no eightbyte at all (class NO_CLASS, see below)

(* Level I: codegen.c has_flonum(ty, lo, hi, offset), literally *)
RECURSIVE HasFlonum(_, _, _, _)
HasFlonum(T, lo, hi, off) ==
  IF IsAgg(T) THEN \A i \in DOMAIN T.m : HasFlonum(T.m[i], lo, hi, off + MemberOff(T, i))
  ELSE IF T.k = "array" THEN \A i \in 0..(T.n - 1) : HasFlonum(T.m[1], lo, hi, off + SizeOf(T.m[1]) * i)
  ELSE IF T.k = "aligned" THEN HasFlonum(T.m[1], lo, hi, off)        \* (Member.ty is the declared type; the alignment is in Member.align)
  ELSE off < lo \/ hi <= off \/ T.k \in FltKinds
HasLd(T) == \E i \in DOMAIN Leaves(T, 0) : Leaves(T, 0)[i].k = "ldouble"

(* The kind alphabet *)
KindSeq == <<
  [n |-> "i",    t |-> Sc("int")],
  [n |-> "l",    t |-> Sc("long")],
  [n |-> "p",    t |-> Sc("ptr")],
  [n |-> "f",    t |-> Sc("float")],
  [n |-> "d",    t |-> Sc("double")],
  [n |-> "e",    t |-> Sc("ldouble")],
  [n |-> "Si",   t |-> St(<<Sc("int")>>)],
  [n |-> "Sc3",  t |-> St(<<Ar(Sc("char"), 3)>>)],
  [n |-> "Sd",   t |-> St(<<Sc("double")>>)],
  [n |-> "Sff",  t |-> St(<<Sc("float"), Sc("float")>>)],
  [n |-> "Sfff", t |-> St(<<Sc("float"), Sc("float"), Sc("float")>>)],
  [n |-> "Sld",  t |-> St(<<Sc("long"), Sc("double")>>)],
  [n |-> "Sdl",  t |-> St(<<Sc("double"), Sc("long")>>)],
  [n |-> "Sdd",  t |-> St(<<Sc("double"), Sc("double")>>)],
  [n |-> "Sll",  t |-> St(<<Sc("long"), Sc("long")>>)],
  [n |-> "Sif",  t |-> St(<<Sc("int"), Sc("float")>>)],
  [n |-> "Udl",  t |-> Un(<<Ar(Sc("double"), 2), Sc("long")>>)],
  [n |-> "S24",  t |-> St(<<Sc("long"), Sc("long"), Sc("long")>>)],
  [n |-> "Se",   t |-> St(<<Sc("ldouble")>>)],
  [n |-> "Sc16", t |-> St(<<Ar(Sc("char"), 16)>>)],
  \* further sizes 1..24 and mixed eightbytes
  [n |-> "Sc1",  t |-> St(<<Sc("char")>>)],
  [n |-> "Sf",   t |-> St(<<Sc("float")>>)],
  [n |-> "Sc5",  t |-> St(<<Ar(Sc("char"), 5)>>)],
  [n |-> "Siii", t |-> St(<<Sc("int"), Sc("int"), Sc("int")>>)],
  [n |-> "Sc13", t |-> St(<<Ar(Sc("char"), 13)>>)],
  [n |-> "Sdf",  t |-> St(<<Sc("double"), Sc("float")>>)],
  [n |-> "Sfic", t |-> St(<<Sc("float"), Sc("int"), Sc("char")>>)],
  [n |-> "Sc17", t |-> St(<<Ar(Sc("char"), 17)>>)],
  [n |-> "Sddd", t |-> St(<<Sc("double"), Sc("double"), Sc("double")>>)],
  \* MEMORY class by size and 16-byte aligned (no register deviation possible; exercises the 16-alignment
  \* of memory arguments and of va_arg's overflow cursor)
  [n |-> "See",  t |-> St(<<Sc("ldouble"), Sc("ldouble")>>)],
  [n |-> "Sel",  t |-> St(<<Sc("ldouble"), Sc("long")>>)],
  \* zero-sized aggregates (GNU C; psABI class NO_CLASS).  Level A is what gcc AND clang do (validated over this
  \* whole alphabet in registers, at register exhaustion, as variadic arguments and as return values): the argument
  \* takes no register and no stack slot, va_arg of it consumes nothing, a zero-sized value is returned in no register.
  [n |-> "S0",   t |-> St(<<>>)],
  [n |-> "U0",   t |-> Un(<<>>)],
  [n |-> "S0w",  t |-> St(<<St(<<>>)>>)],
  [n |-> "Sz",   t |-> St(<<Ar(Sc("int"), 0)>>)],
  \* an empty member beside others does not change the class of the eightbyte
  [n |-> "S0i",  t |-> St(<<St(<<>>), Sc("int")>>)],
  [n |-> "Sd0",  t |-> St(<<Sc("double"), St(<<>>)>>)],
  \* 12 bytes with a floating second eightbyte: the callee's `return` loads must stop at the object's end
  [n |-> "Siif", t |-> St(<<Sc("int"), Sc("int"), Sc("float")>>)],
  \* packed aggregates: an unaligned field makes the whole aggregate class MEMORY (psABI 3.2.3); `Pic` is packed
  \* but every field is aligned, so it is classified like any other struct; `Pcd` (9 bytes) has a field that
  \* straddles the two eightbytes
  [n |-> "Pcf",  t |-> Pk(<<Sc("char"), Sc("float")>>)],
  [n |-> "Pcd",  t |-> Pk(<<Sc("char"), Sc("double")>>)],
  [n |-> "Pic",  t |-> Pk(<<Sc("int"), Sc("char")>>)],
  \* over-aligned aggregates: 16 bytes of which the second eightbyte is padding only (class NO_CLASS: no register)
  [n |-> "Al",   t |-> St(<<Al(16, Sc("long"))>>)],
  [n |-> "Ad",   t |-> St(<<Al(16, Sc("double"))>>)],
  \* return-only kinds
  [n |-> "v",    t |-> Sc("void")],
  [n |-> "b",    t |-> Sc("bool")],
  [n |-> "c",    t |-> Sc("char")],
  [n |-> "uc",   t |-> Sc("uchar")],
  [n |-> "s",    t |-> Sc("short")],
  [n |-> "us",   t |-> Sc("ushort")]
>>
RetOnly == {"v", "b", "c", "uc", "s", "us"}
AllNames == {KindSeq[i].n : i \in DOMAIN KindSeq}
ST(nm) == KindSeq[CHOOSE i \in DOMAIN KindSeq : KindSeq[i].n = nm].t
Feature(T) == IF IsAgg(T) /\ SizeOf(T) = 0 THEN "agg0"
              ELSE IF IsAgg(T) /\ SizeOf(T) <= 16 /\ Unaligned(T) THEN "unaligned"
              ELSE IF IsAgg(T) /\ SizeOf(T) > 8 /\ SizeOf(T) <= 16 /\ ~HasLd(T) /\ EightClasses(T)[2] = "NO" THEN "padeight"
              ELSE IF IsAgg(T) /\ HasLd(T) /\ SizeOf(T) <= 16 THEN "x87agg"
              ELSE IF T.k = "ldouble" THEN "ldouble"
              ELSE IF IsAgg(T) THEN (IF SizeOf(T) <= 8 THEN "agg<=8" ELSE IF SizeOf(T) <= 16 THEN "agg<=16" ELSE "agg>16")
              ELSE IF T.k \in FltKinds THEN "sse" ELSE "int"

(* Everything the deciders ask about a type, computed once per kind from its structure (Init stores the
   table in the variable `ki`, so TLC evaluates the structural operators once, not at every transition): layout, psABI classes, and the three has_flonum calls chibicc makes —
   fp1 = has_flonum(ty, 0, 8, 0), fp2 = has_flonum(ty, 8, 16, 0), fp2c = has_flonum(ty, 8, 16, 8) *)
KInfo == [nm \in AllNames |-> LET T == ST(nm) IN
           [k |-> T.k, agg |-> IsAgg(T), size |-> IF T.k = "void" THEN 0 ELSE SizeOf(T), align |-> IF T.k = "void" THEN 1 ELSE AlignOf(T),
            cs |-> IF T.k = "void" THEN <<"NO">> ELSE Classify(T),
            fp1 |-> HasFlonum(T, 0, 8, 0), fp2 |-> HasFlonum(T, 8, 16, 0), fp2c |-> HasFlonum(T, 8, 16, 8),
            hasld |-> HasLd(T), feat |-> Feature(T),
            unal |-> IsAgg(T) /\ Unaligned(T),                                     \* has an unaligned field
            pad2 |-> IsAgg(T) /\ SizeOf(T) > 8 /\ SizeOf(T) <= 16 /\ ~Unaligned(T) /\ EightClasses(T)[2] = "NO"]]
ParamKinds == IF ParamSel = {} THEN AllNames \ RetOnly ELSE ParamSel
RetKinds == IF RetSel = {} THEN AllNames ELSE RetSel
(* a variadic argument has undergone the default promotions *)
TailKinds == ParamKinds \ {"f"}

-----------------------------------------------------------------------------
-----------------------------------------------------------------------------
(* Level A: the allocator.  a = [gp, sse, stk]; location = [mem, regs, off] *)
R(r, i) == [r |-> r, i |-> i]
(* (an eightbyte of class NO_CLASS - only ever the last one, see the ASSUME at the end - gets no register) *)
RegCs(cs) == SelectSeq(cs, LAMBDA c : c # "NO")
RegSeq(cs0, gp, sse) == LET cs == RegCs(cs0) IN [j \in DOMAIN cs |->
   IF cs[j] = "INTEGER" THEN R("gp", gp + Cnt(SubSeq(cs, 1, j - 1), "INTEGER"))
   ELSE R("sse", sse + Cnt(SubSeq(cs, 1, j - 1), "SSE"))]
APass(T, a) ==
  LET cs == T.cs IN
  IF ~InMem(cs) /\ a.gp + Cnt(cs, "INTEGER") <= GP_MAX /\ a.sse + Cnt(cs, "SSE") <= FP_MAX
  THEN [loc |-> [mem |-> FALSE, regs |-> RegSeq(cs, a.gp, a.sse), off |-> 0],
        a   |-> [a EXCEPT !.gp = @ + Cnt(cs, "INTEGER"), !.sse = @ + Cnt(cs, "SSE")]]
  ELSE LET o == Up(a.stk, Max2(8, T.align)) IN
       [loc |-> [mem |-> TRUE, regs |-> <<>>, off |-> o],
        a   |-> [a EXCEPT !.stk = o + Up(T.size, 8)]]

(* Level A: return.  Sequence of places, <<"mem">> = hidden pointer in rdi, returned in rax *)
ARet(T) ==
  IF T.k = "void" THEN <<>>
  ELSE LET cs == RegCs(T.cs) IN
       IF cs = <<>> THEN <<>>                                  \* zero-sized: nothing is returned
       ELSE IF cs[1] = "MEMORY" THEN <<"mem">>
       ELSE IF cs[1] = "X87" THEN <<"st0">>
       ELSE [j \in DOMAIN cs |-> IF cs[j] = "INTEGER"
                                  THEN (IF Cnt(SubSeq(cs, 1, j - 1), "INTEGER") = 0 THEN "rax" ELSE "rdx")
                                  ELSE (IF Cnt(SubSeq(cs, 1, j - 1), "SSE") = 0 THEN "xmm0" ELSE "xmm1")]
ARetMem(T) == T.k # "void" /\ ARet(T) = <<"mem">>
(* the caller may assume nothing about bits of rax above the returned type *)
ANarrow(T) == CASE T.k = "bool" -> "zx8" [] T.k = "char" -> "sx8" [] T.k = "uchar" -> "zx8"
                [] T.k = "short" -> "sx16" [] T.k = "ushort" -> "zx16" [] OTHER -> "none"

(* Level A: the state a callee hands back unchanged (psABI 3.2.1, figure 3.4).  The registers are observed by the
   gcc-compiled callers of the replay (global register variables around every call), the floating-point control
   state by fnstcw / stmxcsr around every call; FpCtl.tla models the one place where chibicc changes it. *)
CalleeSaved == {"rbx", "rbp", "rsp", "r12", "r13", "r14", "r15", "x87 control word", "MXCSR control bits"}

(* Level A: va_list (3.5.7).  v = [gp, fp, ovf]; register save area: gp i at 8i, xmm i at 48+16i;
   ovf is relative to the start of the memory-argument area *)
VaInitA(a) == [gp |-> 8 * a.gp, fp |-> 48 + 16 * a.sse, ovf |-> a.stk, okc |-> TRUE, oko |-> TRUE]
SaveRegA(off) == IF off < 48 THEN R("gp", off \div 8) ELSE R("sse", (off - 48) \div 16)
WalkA(T, v) ==
  LET cs == RegCs(T.cs)
      ni == Cnt(cs, "INTEGER")
      ns == Cnt(cs, "SSE") IN
  IF ~InMem(cs) /\ v.gp + 8 * ni <= 48 /\ v.fp + 16 * ns <= 176
  THEN [src |-> [mem |-> FALSE, off |-> 0,
                 slots |-> [j \in DOMAIN cs |-> IF cs[j] = "INTEGER" THEN v.gp + 8 * Cnt(SubSeq(cs, 1, j - 1), "INTEGER")
                                                 ELSE v.fp + 16 * Cnt(SubSeq(cs, 1, j - 1), "SSE")]],
        v |-> [v EXCEPT !.gp = @ + 8 * ni, !.fp = @ + 16 * ns]]
  ELSE LET p == IF T.align > 8 THEN Up(v.ovf, 16) ELSE v.ovf IN
       [src |-> [mem |-> TRUE, off |-> p, slots |-> <<>>], v |-> [v EXCEPT !.ovf = Up(p + T.size, 8)]]

-----------------------------------------------------------------------------
B(b) == IF b THEN 1 ELSE 0

(* register demand of a <= 16-byte aggregate as the three copies of the test compute it *)
(* (pinned: has_flonum is vacuously true for an aggregate without members, so a zero-sized aggregate is
   charged - and popped into, and spilled from - one SSE register that nothing was pushed for) *)
ZeroI(T) == FixZero /\ T.agg /\ T.size = 0
AggNeed(T, fp2) ==
  LET fp1 == T.fp1
      two == IF FixPhantom THEN T.size > 8 ELSE TRUE IN
  IF ZeroI(T) THEN [fp |-> 0, gp |-> 0]
  ELSE [fp |-> B(fp1) + B(two /\ fp2), gp |-> B(~fp1) + B(two /\ ~fp2)]
AggFits(c, need) == IF FixLE THEN c.fp + need.fp <= FP_MAX /\ c.gp + need.gp <= GP_MAX
                    ELSE c.fp + need.fp < FP_MAX /\ c.gp + need.gp < GP_MAX
(* `if (gp++ >= GP_MAX)`: the pinned code keeps counting past the limit, which then poisons the
   aggregate test `gp + n <= GP_MAX` even for n = 0; the repaired code stops at the limit *)
Over == IF FixLE THEN 0 ELSE 1
AggInRegsI(T) == T.size <= 16 /\ (FixX87 => ~T.hasld) /\ (FixPacked => ~T.unal)

(* push_args: c = [gp, fp, stack] -> pass_by_stack?, memory offset of the argument, c' *)
CallerDecide(T, c) ==
  IF T.agg THEN
    IF ~AggInRegsI(T) THEN
      LET s0 == IF FixAlign16 /\ T.align = 16 THEN Up(c.stack, 2) ELSE c.stack IN
      [mem |-> TRUE, off |-> 8 * s0, c |-> [c EXCEPT !.stack = s0 + Up(T.size, 8) \div 8]]
    ELSE LET need == AggNeed(T, T.fp2) IN
         IF AggFits(c, need) THEN [mem |-> FALSE, off |-> 0, c |-> [c EXCEPT !.fp = @ + need.fp, !.gp = @ + need.gp]]
         ELSE LET s1 == IF FixAlign16 /\ T.align = 16 THEN Up(c.stack, 2) ELSE c.stack IN
              [mem |-> TRUE, off |-> 8 * s1, c |-> [c EXCEPT !.stack = s1 + Up(T.size, 8) \div 8]]
  ELSE IF T.k \in FltKinds THEN
    IF c.fp >= FP_MAX THEN [mem |-> TRUE, off |-> 8 * c.stack, c |-> [c EXCEPT !.fp = @ + Over, !.stack = @ + 1]]
    ELSE [mem |-> FALSE, off |-> 0, c |-> [c EXCEPT !.fp = @ + 1]]
  ELSE IF T.k = "ldouble" THEN
    LET s0 == IF FixAlign16 THEN Up(c.stack, 2) ELSE c.stack IN
    [mem |-> TRUE, off |-> 8 * s0, c |-> [c EXCEPT !.stack = s0 + 2]]
  ELSE IF c.gp >= GP_MAX THEN [mem |-> TRUE, off |-> 8 * c.stack, c |-> [c EXCEPT !.gp = @ + Over, !.stack = @ + 1]]
  ELSE [mem |-> FALSE, off |-> 0, c |-> [c EXCEPT !.gp = @ + 1]]

(* registers an aggregate is moved through, given running counters (pop loop and spill loop share the shape) *)
AggRegs(T, p) ==
  LET fp1 == T.fp1
      fp2 == T.fp2
      r1  == IF fp1 THEN R("sse", p.fp) ELSE R("gp", p.gp)
      p1  == IF fp1 THEN [p EXCEPT !.fp = @ + 1] ELSE [p EXCEPT !.gp = @ + 1]
  IN IF ZeroI(T) THEN <<>>
     ELSE IF T.size > 8 THEN <<r1, IF fp2 THEN R("sse", p1.fp) ELSE R("gp", p1.gp)>> ELSE <<r1>>
Bump(p, regs) == [p EXCEPT !.gp = @ + Cardinality({j \in DOMAIN regs : regs[j].r = "gp"}),
                           !.fp = @ + Cardinality({j \in DOMAIN regs : regs[j].r = "sse"})]

(* ND_FUNCALL pop loop: p = [gp, fp] *)
PopRegs(T, p) ==
  IF T.agg THEN (IF AggInRegsI(T) /\ AggFits(p, AggNeed(T, T.fp2)) THEN AggRegs(T, p) ELSE <<>>)
  ELSE IF T.k \in FltKinds THEN (IF p.fp < FP_MAX THEN <<R("sse", p.fp)>> ELSE <<>>)
  ELSE IF T.k = "ldouble" THEN <<>>
  ELSE IF p.gp < GP_MAX THEN <<R("gp", p.gp)>> ELSE <<>>

(* assign_lvar_offsets: c = [gp, fp, top] -> home on the stack (offset from the argument area = rbp+16)? *)
CalleeOff(T, c) ==
  LET onstk == LET t0 == IF FixAlign16 THEN Up(c.top, Max2(8, T.align)) ELSE Up(c.top, 8) IN
               [mem |-> TRUE, off |-> t0 - 16, c |-> [c EXCEPT !.top = t0 + T.size]] IN
  IF T.agg THEN
    IF AggInRegsI(T) THEN
      LET need == AggNeed(T, IF FixOffset THEN T.fp2 ELSE T.fp2c) IN
      IF AggFits(c, need) THEN [mem |-> FALSE, off |-> 0, c |-> [c EXCEPT !.fp = @ + need.fp, !.gp = @ + need.gp]]
      ELSE onstk
    ELSE onstk
  ELSE IF T.k \in FltKinds THEN
    (IF c.fp < FP_MAX THEN [mem |-> FALSE, off |-> 0, c |-> [c EXCEPT !.fp = @ + 1]]
     ELSE [onstk EXCEPT !.c.fp = @ + Over])
  ELSE IF T.k = "ldouble" THEN onstk
  ELSE IF c.gp < GP_MAX THEN [mem |-> FALSE, off |-> 0, c |-> [c EXCEPT !.gp = @ + 1]]
  ELSE [onstk EXCEPT !.c.gp = @ + Over]

(* emit_text spill loop: s = [gp, fp]; only for parameters whose home is not on the stack *)
SpillRegs(T, s) ==
  IF T.agg THEN AggRegs(T, s)
  ELSE IF T.k \in FltKinds THEN <<R("sse", s.fp)>>
  ELSE <<R("gp", s.gp)>>             \* long double never gets here (its home is on the stack)

(* emit_text, `if (fn->va_area)`: va_elem initialisation.  w = [gp, fp] counts by is_flonum over the
   parameters; the repaired variant takes the spill loop's counters and the end of the named stack homes *)
IsFlonumI(T) == T.k \in {"float", "double", "ldouble"}
VaCount(T, w) == IF IsFlonumI(T) THEN [w EXCEPT !.fp = @ + 1] ELSE [w EXCEPT !.gp = @ + 1]
FpStride == IF FixVaStride THEN 16 ELSE 8
VaInitI(w, s, c) == IF FixVaArea   \* repaired: registers counted like the spill loop (struct_regs per aggregate, parameters with a
                                   \* stack home skipped), overflow_arg_area = end of the last named stack home, rounded up to 8
                    THEN [gp |-> 8 * s.gp, fp |-> 48 + FpStride * s.fp, ovf |-> Up(c.top, 8) - 16, okc |-> TRUE, oko |-> TRUE]
                    ELSE [gp |-> 8 * Min2(w.gp, GP_MAX), fp |-> 48 + FpStride * Min2(w.fp, FP_MAX), ovf |-> 0, okc |-> TRUE, oko |-> TRUE]
SaveRegI(off) == IF off < 48 THEN R("gp", off \div 8) ELSE R("sse", (off - 48) \div FpStride)

(* include/stdarg.h: va_arg = __builtin_reg_class + __va_arg_gp / __va_arg_fp / __va_arg_mem *)
RegClassI(T) == IF T.k \in IntKinds THEN 0 ELSE IF IsFlonumI(T) THEN 1 ELSE 2
WalkI(T, v) ==
  IF (FixVaArg /\ T.agg) \/ (FixVaArgLd /\ T.k = "ldouble") THEN   \* repaired: psABI walker on chibicc's save-area layout
    LET cs == RegCs(T.cs)
        ni == Cnt(cs, "INTEGER")
        ns == Cnt(cs, "SSE") IN
    IF ~InMem(cs) /\ v.gp + 8 * ni <= 48 /\ v.fp + FpStride * ns <= 48 + FpStride * 8
    THEN [src |-> [mem |-> FALSE, off |-> 0,
                   slots |-> [j \in DOMAIN cs |-> IF cs[j] = "INTEGER" THEN v.gp + 8 * Cnt(SubSeq(cs, 1, j - 1), "INTEGER")
                                                   ELSE v.fp + FpStride * Cnt(SubSeq(cs, 1, j - 1), "SSE")]],
          v |-> [v EXCEPT !.gp = @ + 8 * ni, !.fp = @ + FpStride * ns]]
    ELSE LET p == IF T.align > 8 THEN Up(v.ovf, 16) ELSE v.ovf IN
         [src |-> [mem |-> TRUE, off |-> p, slots |-> <<>>], v |-> [v EXCEPT !.ovf = Up(p + T.size, 8)]]
  ELSE
  LET mem == LET p == IF T.align > 8 THEN Up(v.ovf, 16) ELSE v.ovf IN
             [src |-> [mem |-> TRUE, off |-> p, slots |-> <<>>], v |-> [v EXCEPT !.ovf = Up(p + T.size, 8)]]
      k == RegClassI(T) IN
  IF k = 0 THEN (IF v.gp >= 48 THEN mem
                 ELSE [src |-> [mem |-> FALSE, off |-> 0, slots |-> <<v.gp>>], v |-> [v EXCEPT !.gp = @ + 8]])
  ELSE IF k = 1 THEN (IF v.fp >= 48 + FpStride * 8 THEN mem
                      ELSE [src |-> [mem |-> FALSE, off |-> 0, slots |-> <<v.fp>>], v |-> [v EXCEPT !.fp = @ + FpStride]])
  ELSE mem

(* returns.  Callee: ND_RETURN + copy_struct_reg / copy_struct_mem; caller: copy_ret_buffer *)
RetAggRegsI(T) ==
  LET fp1 == T.fp1
      fp2 == T.fp2
      r1  == IF fp1 THEN "xmm0" ELSE "rax"
      r2  == IF fp2 THEN (IF fp1 THEN "xmm1" ELSE "xmm0") ELSE (IF fp1 THEN "rax" ELSE "rdx")
  IN IF ZeroI(T) THEN <<>> ELSE IF T.size > 8 THEN <<r1, r2>> ELSE <<r1>>
RetI(T) ==
  IF T.k = "void" THEN <<>>
  ELSE IF T.agg THEN (IF FixX87 /\ T.hasld /\ T.size <= 16 THEN <<"st0">>
                         ELSE IF T.size <= 16 /\ ~(FixPacked /\ T.unal) THEN RetAggRegsI(T) ELSE <<"mem">>)
  ELSE IF T.k \in FltKinds THEN <<"xmm0">>
  ELSE IF T.k = "ldouble" THEN <<"st0">>
  ELSE <<"rax">>
RetCalleeI(T) == RetI(T)       \* copy_struct_reg and copy_ret_buffer repeat the same two tests
RetCallerI(T) == RetI(T)
(* copy_struct_mem leaves the address of the callee's own object in rax *)
RetRaxI(T) == IF T.agg /\ (T.size > 16 \/ (FixPacked /\ T.unal)) THEN (IF FixRetRax THEN "hidden" ELSE "local") ELSE "n/a"
NarrowI(T) == CASE T.k = "bool" -> "zx8" [] T.k = "char" -> "sx8" [] T.k = "uchar" -> "zx8"
                [] T.k = "short" -> "sx16" [] T.k = "ushort" -> "zx16" [] OTHER -> "none"
(* bytes copy_ret_buffer writes for eightbyte j of a register-returned aggregate (must not exceed the object) *)
RetStoreBytesI(T, j) ==
  LET sz == T.size IN
  IF j = 1 THEN (IF T.fp1 THEN (IF sz = 4 THEN 4 ELSE 8) ELSE Min2(8, sz))
  ELSE (IF T.fp2 THEN (IF sz = 12 THEN 4 ELSE 8) ELSE Min2(16, sz) - 8)
(* bytes copy_struct_reg loads for eightbyte j from the object that `return e;` designates.  That object is any
   lvalue of the program (`return *p;`), so a load wider than the object reads bytes that are not the callee's
   to read (it faults when the object ends at a page boundary): Level A = ObjBytes, the bytes of eightbyte j
   that belong to the object.  The pinned code repeats the first eightbyte's `size == 4` test in the second. *)
RetLoadBytesI(T, j) ==
  LET sz == T.size IN
  IF j = 1 THEN (IF T.fp1 THEN (IF sz = 4 THEN 4 ELSE 8) ELSE Min2(8, sz))
  ELSE (IF T.fp2 THEN (IF sz = (IF FixRetLoad THEN 12 ELSE 4) THEN 4 ELSE 8) ELSE Min2(16, sz) - 8)
(* bytes emit_text stores into the parameter's home for eightbyte j: store_fp / store_gp(r, offset, MIN(8, size)) and (.., size - 8) *)
SpillStoreBytesI(T, j) == IF j = 1 THEN Min2(8, T.size) ELSE T.size - 8
ObjBytes(T, j) == Min2(8, T.size - 8 * (j - 1))
HiddenI(T) == T.agg /\ (T.size > 16 \/ (FixPacked /\ T.unal))

-----------------------------------------------------------------------------
VARIABLES
  ki, ri,          \* the per-kind tables KInfo / RInfo (constant; held in the state so that they are computed once)
  ret, var,        \* return kind, variadic function?          (chosen in Init)
  phase,           \* "named" | "dots" | "called"
  args, nfix,      \* kind names passed so far; number of named parameters
  locs,            \* Level A location of every argument        (history)
  a,               \* Level A allocator
  cl, pp, ce, sp,  \* Level I: push_args, pop loop, assign_lvar_offsets, spill loop
  vw,              \* Level I: va_area is_flonum counters
  va, vi, vf,      \* va_list walkers: psABI, stdarg.h, a foreign (psABI) walker handed chibicc's va_list
  cj, ej, fj,      \* is the caller side / the callee side / a forwarded va_list still judged on this behaviour?
                   \* (FALSE after a disagreement of that side: the other side is explored further on its own)
  adis,            \* all disagreement classes so far                 (history)
  dis,             \* disagreement classes of the last transition
  fdis,            \* ... of a foreign walker on chibicc's va_list (va_list passed to other code)
  last             \* the decisions of the last transition (for counterexamples)
TY(nm) == ki[nm]
vars == <<ki, ri, ret, var, phase, args, nfix, locs, a, cl, pp, ce, sp, vw, va, vi, vf, cj, ej, fj, adis, dis, fdis, last>>
(* the allocator graph: counters saturate where the code only compares them against GP_MAX / FP_MAX,
   byte counts matter modulo 16 *)
NV(v) == <<v.gp, v.fp, Up(v.ovf, 8) % 16, v.okc, v.oko>>
GraphView == <<ret, var, phase, a.gp, a.sse, a.stk % 16, cj, ej, fj,
               IF cj THEN <<Min2(cl.gp, GP_MAX), Min2(cl.fp, FP_MAX), cl.stack % 2, pp>> ELSE <<>>,
               IF ej /\ phase = "named" THEN <<Min2(ce.gp, GP_MAX), Min2(ce.fp, FP_MAX), Up(ce.top, 8) % 16, sp>> ELSE <<>>,
               IF ej /\ var /\ phase = "named" THEN <<vw.gp = sp.gp, vw.fp = sp.fp>> ELSE <<>>,
               IF phase = "dots" THEN <<NV(va), IF ej THEN NV(vi) ELSE <<>>, IF ej /\ fj THEN NV(vf) ELSE <<>>>> ELSE <<>>,
               (dis \cup fdis) \subseteq Waived>>
SigView == <<ret, var, phase, args, nfix, cj, ej, fj, dis, fdis>>

(* disagreements of a named-parameter transition, by the side that deviates *)
Cls(T, A, x) == IF A.mem /\ T.align = 16 /\ T.feat # "x87agg" THEN x \o ":align16" ELSE x \o ":" \o T.feat
CallerDis(T, A, C, P) ==
     (IF (C.mem /\ P # <<>>) \/ (~C.mem /\ Len(P) # Up(T.size, 8) \div 8)     \* pass 2 pushes the argument's eightbytes; the pop loop pops Len(P)
      THEN {Cls(T, A, "caller-push-vs-pop")} ELSE {})
  \cup (IF A.mem # C.mem \/ (A.mem /\ A.off # C.off) \/ (~A.mem /\ ~C.mem /\ A.regs # P) THEN {Cls(T, A, "caller-vs-psabi")} ELSE {})
CalleeDis(T, A, E, S) ==
     (IF A.mem # E.mem \/ (A.mem /\ A.off # E.off) \/ (~A.mem /\ ~E.mem /\ A.regs # S) THEN {Cls(T, A, "callee-vs-psabi")} ELSE {})
  \cup (IF T.agg /\ ~T.unal /\ ~E.mem /\ \E j \in DOMAIN S : SpillStoreBytesI(T, j) # ObjBytes(T, j) THEN {Cls(T, A, "callee-spill-overrun")} ELSE {})
CrossDis(T, A, C, P, E, S) ==
     (IF C.mem # E.mem \/ (C.mem /\ C.off # E.off) THEN {Cls(T, A, "caller-vs-callee-homes")} ELSE {})
  \cup (IF ~E.mem /\ ~C.mem /\ P # S THEN {Cls(T, A, "caller-vs-callee-spill")} ELSE {})
(* where a walker's source really comes from, as a Level A location *)
SrcLoc(src, saveReg(_)) == IF src.mem THEN [mem |-> TRUE, regs |-> <<>>, off |-> src.off]
                           ELSE [mem |-> FALSE, regs |-> [j \in DOMAIN src.slots |-> saveReg(src.slots[j])], off |-> 0]
WalkDis(T, A, W, v0, tag) ==
  LET f == T.feat IN
  IF T.size = 0 THEN (IF W.v = v0 THEN {} ELSE {tag \o ":agg0"})    \* nothing to fetch: the cursors must not move
  ELSE IF SrcLoc(W.src, SaveRegI) = A THEN {}
  ELSE IF ~v0.okc THEN {tag \o ":named-agg-or-ldouble"}     \* va_start had the wrong register counts
  ELSE IF ~v0.oko /\ W.src.mem THEN {tag \o ":named-on-stack"}  \* va_start did not skip the named stack parameters
  ELSE {tag \o ":" \o f}

RetLocRec(T) == [a |-> ARet(T), callee |-> RetCalleeI(T), caller |-> RetCallerI(T), rax |-> RetRaxI(T),
                 narrow |-> ANarrow(T)]
RetDis(T) ==
     (IF ARet(T) # RetCalleeI(T) THEN {"ret-callee-vs-psabi:" \o T.feat} ELSE {})
  \cup (IF ARet(T) # RetCallerI(T) THEN {"ret-caller-vs-psabi:" \o T.feat} ELSE {})
  \cup (IF ARetMem(T) # HiddenI(T) THEN {"ret-hidden-pointer:" \o T.feat} ELSE {})
  \cup (IF ARetMem(T) /\ HiddenI(T) /\ RetRaxI(T) # "hidden" THEN {"ret-rax-not-hidden-pointer"} ELSE {})
  \cup (IF ANarrow(T) # NarrowI(T) THEN {"ret-narrow"} ELSE {})
  \cup (IF T.agg /\ T.size > 0 /\ T.size <= 16 /\ ~T.hasld /\ ~T.unal
           /\ \E j \in 1..Len(RetAggRegsI(T)) : RetStoreBytesI(T, j) # ObjBytes(T, j)
        THEN {"ret-store-overrun"} ELSE {})
  \cup (IF T.agg /\ T.size > 0 /\ T.size <= 16 /\ ~T.hasld /\ ~T.unal
           /\ \E j \in 1..Len(RetAggRegsI(T)) : RetLoadBytesI(T, j) # ObjBytes(T, j)
        THEN {"ret-load-overrun"} ELSE {})

HiddenAgree(T) == ARetMem(T) = HiddenI(T)
RInfo == [nm \in AllNames |-> [rloc |-> ARet(KInfo[nm]), rdis |-> RetDis(KInfo[nm]), hidden |-> ARetMem(KInfo[nm])]]

Z2 == [gp |-> 0, fp |-> 0]
ZV == [gp |-> 0, fp |-> 0, ovf |-> 0, okc |-> TRUE, oko |-> TRUE]
Init ==
  /\ ki = KInfo /\ ri = RInfo
  /\ ret \in RetKinds /\ var \in BOOLEAN
  /\ phase = "named" /\ args = <<>> /\ nfix = 0 /\ locs = <<>>
  /\ a  = [gp |-> B(ARetMem(TY(ret))), sse |-> 0, stk |-> 0]
  /\ cl = [gp |-> B(HiddenI(TY(ret))), fp |-> 0, stack |-> 0]
  /\ pp = [gp |-> B(HiddenI(TY(ret))), fp |-> 0]
  /\ ce = [gp |-> B(HiddenI(TY(ret))), fp |-> 0, top |-> 16]
  /\ sp = [gp |-> B(HiddenI(TY(ret))), fp |-> 0]
  /\ vw = [gp |-> B(HiddenI(TY(ret))), fp |-> 0]
  /\ va = ZV /\ vi = ZV /\ vf = ZV
  \* (a return kind for which chibicc and the psABI disagree about the hidden pointer shifts every integer
  \*  argument: neither side can be judged on such a behaviour; RetOff emits the bare `k f(void)` for the replay)
  /\ cj = HiddenAgree(TY(ret)) /\ ej = HiddenAgree(TY(ret)) /\ fj = TRUE /\ adis = {}
  /\ dis = {} /\ fdis = {} /\ last = <<>>

EmitB(k, nf, A, a2, d2, fd2, flags, probe) ==
  IF Emit
  THEN CSVWrite("%1$s", <<ToJson([ret |-> ret, var |-> var, nfix |-> nf,
                                   args |-> Append(args, k), locs |-> Append(locs, A),
                                   gp |-> a2.gp, sse |-> a2.sse, stk |-> a2.stk, al |-> a2.sse,
                                   from |-> [gp |-> a.gp, sse |-> a.sse, par |-> (a.stk \div 8) % 2],
                                   dis |-> d2, fdis |-> fd2, adis |-> adis \cup d2 \cup fd2,
                                   cj |-> flags[1], ej |-> flags[2], fj |-> flags[3], probe |-> probe, rloc |-> ri[ret].rloc, rdis |-> ri[ret].rdis,
                                   hidden |-> ri[ret].hidden])>>, IOEnv.OUT)
  ELSE TRUE

(* one more named parameter.  A side that has already deviated on this behaviour is no longer evaluated
   (its counters are meaningless); the other side goes on and is judged on its own (gcc on the deviating side) *)
(* `probe` of a named transition: would a further `long` and a further `double` parameter be placed
   without disagreement by the sides still judged?  The generator then also emits the behaviour
   extended by these two: they take the next free register of each class (or the next stack slot),
   so counters that drifted on a transition that leaves the psABI's state unchanged - an aggregate
   that does not fit and goes to memory as a whole - are observed. *)
NamedStep(T, st) ==
  LET A == APass(T, st.a)
      C == CallerDecide(T, st.cl)
      P == PopRegs(T, st.pp)
      E == CalleeOff(T, st.ce)
      S == IF E.mem THEN <<>> ELSE SpillRegs(T, st.sp)
  IN [a |-> A.a, cl |-> C.c, pp |-> Bump(st.pp, P), ce |-> E.c, sp |-> Bump(st.sp, S),
      dC |-> CallerDis(T, A.loc, C, P), dE |-> CalleeDis(T, A.loc, E, S)]
NamedProbeOK(st, cj2, ej2) ==
  LET s1 == NamedStep(TY("l"), st)
      s2 == NamedStep(TY("d"), s1)
  IN (cj2 => s1.dC = {} /\ s2.dC = {}) /\ (ej2 => s1.dE = {} /\ s2.dE = {})
PassNamed(k) ==
  LET T == TY(k)
      A == APass(T, a)
      C == IF cj THEN CallerDecide(T, cl) ELSE [mem |-> FALSE, off |-> 0, c |-> cl]
      P == IF cj THEN PopRegs(T, pp) ELSE <<>>
      E == IF ej THEN CalleeOff(T, ce) ELSE [mem |-> FALSE, off |-> 0, c |-> ce]
      S == IF ej /\ ~E.mem THEN SpillRegs(T, sp) ELSE <<>>
      dC == IF cj THEN CallerDis(T, A.loc, C, P) ELSE {}
      dE == IF ej THEN CalleeDis(T, A.loc, E, S) ELSE {}
      dX == IF cj /\ ej THEN CrossDis(T, A.loc, C, P, E, S) ELSE {}
      d  == dC \cup dE \cup dX
  IN /\ phase = "named" /\ (cj \/ ej) /\ Len(args) < MaxLen /\ k \in ParamKinds
     /\ args' = Append(args, k) /\ nfix' = nfix + 1 /\ locs' = Append(locs, A.loc)
     /\ a' = A.a /\ cl' = C.c /\ pp' = Bump(pp, P) /\ ce' = E.c /\ sp' = Bump(sp, S) /\ vw' = VaCount(T, vw)
     /\ cj' = (cj /\ dC = {}) /\ ej' = (ej /\ dE = {}) /\ fj' = fj
     /\ dis' = d /\ fdis' = {} /\ adis' = adis \cup d
     /\ last' = [k |-> k, A |-> A.loc, caller |-> [mem |-> C.mem, off |-> C.off], pop |-> P,
                 callee |-> [mem |-> E.mem, off |-> E.off], spill |-> S]
     /\ UNCHANGED <<ki, ri, ret, var, phase, va, vi, vf>>
     /\ EmitB(k, nfix + 1, A.loc, A.a, d, {}, <<cj /\ dC = {}, ej /\ dE = {}, fj>>,
              Len(args) + 2 < MaxLen /\ ((cj /\ dC = {}) \/ (ej /\ dE = {}))
              /\ NamedProbeOK([a |-> A.a, cl |-> C.c, pp |-> Bump(pp, P), ce |-> E.c, sp |-> Bump(sp, S)], cj /\ dC = {}, ej /\ dE = {}))

(* one more variadic argument; the first one also runs va_start.  `probe`: would a further 24-byte
   struct (always fetched from the overflow area, 8-aligned) be passed and fetched without disagreement?
   The generator then also emits the behaviour extended by that argument, so that the overflow cursor
   left behind by *every* kind of fetch is observed (BFS alone reaches the successor state by some
   other, shorter history). *)
ProbeKind == "S24"
PassDots(k) ==
  LET T == TY(k)
      first == phase = "named"
      A  == APass(T, a)
      C  == IF cj THEN CallerDecide(T, cl) ELSE [mem |-> FALSE, off |-> 0, c |-> cl]
      P  == IF cj THEN PopRegs(T, pp) ELSE <<>>
      v0A == IF first THEN VaInitA(a) ELSE va
      vst == LET v == VaInitI(vw, sp, ce) IN
             [v EXCEPT !.okc = (v.gp = 8 * a.gp /\ (v.fp - 48) \div FpStride = a.sse), !.oko = (v.ovf = a.stk)]
      v0I == IF first THEN vst ELSE vi
      v0F == IF first THEN vst ELSE vf
      WA == WalkA(T, v0A)
      WI == IF ej THEN WalkI(T, v0I) ELSE [src |-> WA.src, v |-> v0I]
      WF == IF ej /\ fj THEN WalkA(T, v0F) ELSE [src |-> WA.src, v |-> v0F]   \* psABI walker (e.g. glibc's vprintf) on chibicc's va_list
      dC == IF cj THEN CallerDis(T, A.loc, C, P) ELSE {}
      dE == (IF SrcLoc(WA.src, SaveRegA) # A.loc THEN {"spec-walker-vs-allocator"} ELSE {})
            \cup (IF ~ej THEN {} ELSE
                    (IF first /\ ~vst.okc THEN {"vastart:named-agg-or-ldouble"} ELSE {})   \* wrong gp_offset / fp_offset
               \cup (IF first /\ ~vst.oko THEN {"vastart:named-on-stack"} ELSE {})         \* overflow_arg_area not past the named ones
               \cup WalkDis(T, A.loc, WI, v0I, "vaarg"))
      d  == dC \cup dE
      fd == IF ~(ej /\ fj) \/ SrcLoc(WF.src, SaveRegI) = A.loc THEN {}
            ELSE IF ~(v0F.okc /\ v0F.oko) THEN {}                  \* va_start already wrong: reported through d
            ELSE {"vaforward:" \o T.feat}
      cj2 == cj /\ dC = {}
      ej2 == ej /\ dE = {}
      \* the probe argument on top of this transition
      PT == TY(ProbeKind)
      PA == APass(PT, A.a)
      PC == CallerDecide(PT, C.c)
      PW == WalkI(PT, WI.v)
      probe == /\ Len(args) + 1 < MaxLen
               /\ (cj2 => CallerDis(PT, PA.loc, PC, PopRegs(PT, Bump(pp, P))) = {})
               /\ (ej2 => SrcLoc(PW.src, SaveRegI) = PA.loc)
  IN /\ var /\ phase \in {"named", "dots"} /\ (cj \/ ej) /\ Len(args) >= 1 /\ Len(args) < MaxLen
     /\ k \in TailKinds
     /\ phase' = "dots"
     /\ args' = Append(args, k) /\ nfix' = (IF first THEN Len(args) ELSE nfix) /\ locs' = Append(locs, A.loc)
     /\ a' = A.a /\ cl' = C.c /\ pp' = Bump(pp, P)
     /\ va' = WA.v /\ vi' = WI.v /\ vf' = WF.v
     /\ cj' = cj2 /\ ej' = ej2 /\ fj' = (fj /\ fd = {})
     /\ dis' = d /\ fdis' = fd /\ adis' = adis \cup d \cup fd
     /\ last' = [k |-> k, A |-> A.loc, caller |-> [mem |-> C.mem, off |-> C.off], pop |-> P,
                 walkA |-> WA.src, walkI |-> WI.src, walkF |-> WF.src, v0I |-> v0I, v0A |-> v0A]
     /\ UNCHANGED <<ki, ri, ret, var, ce, sp, vw>>
     /\ EmitB(k, IF first THEN Len(args) ELSE nfix, A.loc, A.a, d, fd, <<cj2, ej2, fj /\ fd = {}>>, probe)

-----------------------------------------------------------------------------
(* The whole call on an explicit stack of labelled 8-byte slots (head = lowest address = top of stack):
   push_args (stack count, padding), push_args2 pass 1 (stack arguments, right to left) and pass 2
   (register arguments, right to left), the hidden-pointer push, the pop loop, `call`, `add rsp`. *)
Slots(i, T) == [j \in 1..(Up(T.size, 8) \div 8) |-> <<i, j>>]
Rev(s) == [i \in 1..Len(s) |-> s[Len(s) + 1 - i]]
CallSim(names, rt, d0) ==
  LET n    == Len(names)
      idx  == [i \in 1..n |-> i]
      c0   == [gp |-> B(HiddenI(rt)), fp |-> 0, stack |-> 0]
      \* push_args, first loop: flags and stack count
      dec  == FoldLeft(LAMBDA acc, i : LET r == CallerDecide(TY(names[i]), acc.c) IN
                                        [c |-> r.c, flag |-> Append(acc.flag, r.mem), off |-> Append(acc.off, r.off),
                                         gap |-> Append(acc.gap, IF r.mem THEN r.off \div 8 - acc.c.stack ELSE 0)],
                       [c |-> c0, flag |-> <<>>, off |-> <<>>, gap |-> <<>>], idx)
      pad  == (d0 + dec.c.stack) % 2
      \* (repaired variant only: a gap slot below a 16-byte aligned stack argument)
      push(stk, i) == [g \in 1..dec.gap[i] |-> <<0, 0>>] \o Slots(i, TY(names[i])) \o stk
      pass(stk, want) == FoldLeft(LAMBDA s, i : IF dec.flag[i] = want THEN push(s, i) ELSE s, stk, Rev(idx))
      s0   == [i \in 1..pad |-> <<0, 0>>]                       \* alignment padding
      s1   == pass(s0, TRUE)
      s2   == pass(s1, FALSE)
      s3   == IF HiddenI(rt) THEN <<<<-1, 1>>>> \o s2 ELSE s2      \* lea ret_buffer; push
      \* pop loop
      p0   == [gp |-> 0, fp |-> 0, stk |-> s3, regs |-> <<>>]
      p1   == IF HiddenI(rt) THEN [p0 EXCEPT !.gp = 1, !.stk = Tail(@), !.regs = Append(@, [r |-> R("gp", 0), v |-> Head(p0.stk)])] ELSE p0
      pops == FoldLeft(LAMBDA p, i :
                LET rs == PopRegs(TY(names[i]), [gp |-> p.gp, fp |-> p.fp]) IN
                FoldLeft(LAMBDA q, j : IF q.stk = <<>> THEN [q EXCEPT !.regs = Append(@, [r |-> rs[j], v |-> <<-9, -9>>])]
                                        ELSE [gp |-> q.gp + B(rs[j].r = "gp"), fp |-> q.fp + B(rs[j].r = "sse"),
                                              stk |-> Tail(q.stk), regs |-> Append(q.regs, [r |-> rs[j], v |-> Head(q.stk)])],
                         p, [j \in 1..Len(rs) |-> j]),
              p1, idx)
  IN [regs |-> pops.regs, mem |-> pops.stk, al |-> pops.fp, stackargs |-> dec.c.stack + pad,
      pushed |-> Len(s3), popped |-> Len(s3) - Len(pops.stk),
      aligned |-> (d0 + Len(pops.stk)) % 2 = 0,
      depthAfter |-> d0 + Len(pops.stk) - (dec.c.stack + pad)]

(* what the psABI wants to see at `call`, from the Level A locations *)
AImage(names, ls, rt) ==
  LET n == Len(names)
      regs == FoldLeft(LAMBDA acc, i : IF ls[i].mem THEN acc
                                       ELSE acc \o [j \in DOMAIN ls[i].regs |-> [r |-> ls[i].regs[j], v |-> <<i, j>>]],
                       IF ARetMem(rt) THEN <<[r |-> R("gp", 0), v |-> <<-1, 1>>]>> ELSE <<>>, [i \in 1..n |-> i])
      memsz == FoldLeft(LAMBDA m, i : IF ls[i].mem THEN Max2(m, ls[i].off + Up(TY(names[i]).size, 8)) ELSE m, 0, [i \in 1..n |-> i])
      slot(s) == LET hit == {i \in 1..n : ls[i].mem /\ ls[i].off <= 8 * (s - 1) /\ 8 * (s - 1) < ls[i].off + Up(TY(names[i]).size, 8)} IN
                 IF hit = {} THEN <<0, 0>> ELSE LET i == CHOOSE i \in hit : TRUE IN <<i, (8 * (s - 1) - ls[i].off) \div 8 + 1>>
  IN [regs |-> regs, mem |-> [s \in 1..(memsz \div 8) |-> slot(s)]]
SameRegs(x, y) == {x[i] : i \in DOMAIN x} = {y[i] : i \in DOMAIN y} /\ Len(x) = Len(y)
CallOK(names, ls, rt, d0) ==
  LET sim == CallSim(names, rt, d0)
      img == AImage(names, ls, rt)
  IN /\ SameRegs(sim.regs, img.regs)                                  \* every register holds the eightbyte the psABI says
     /\ Len(sim.mem) >= Len(img.mem)
     /\ SubSeq(sim.mem, 1, Len(img.mem)) = img.mem                    \* memory arguments where the psABI says
     /\ \A s \in (Len(img.mem) + 1)..Len(sim.mem) : sim.mem[s] = <<0, 0>>  \* the rest is padding ...
     /\ Len(sim.mem) - Len(img.mem) <= 1                               \* ... at most one slot
     /\ sim.aligned                                                   \* rsp = 0 (mod 16) at `call`
     /\ sim.depthAfter = d0                                           \* add $8*stack_args restores depth
     /\ sim.popped = Len(sim.regs)                                    \* pops = register eightbytes pushed
     /\ sim.al = Cardinality({i \in DOMAIN img.regs : img.regs[i].r.r = "sse"})

Call ==
  /\ phase \in {"named", "dots"} /\ cj
  /\ phase' = "called"
  /\ dis' = IF \A d0 \in 0..3 : CallOK(args, locs, TY(ret), d0) THEN {} ELSE {"call-stack-discipline"}
  /\ last' = [sim |-> CallSim(args, TY(ret), 1), img |-> AImage(args, locs, TY(ret))]
  /\ fdis' = {} /\ UNCHANGED <<ki, ri, ret, var, args, nfix, locs, a, cl, pp, ce, sp, vw, va, vi, vf, cj, ej, fj, adis>>

(* both sides off from the start (see Init): the behaviour is the call `ret f(void)` alone *)
RetOff ==
  /\ phase = "named" /\ args = <<>> /\ ~cj /\ ~ej /\ ~var
  /\ phase' = "called"
  /\ UNCHANGED <<ki, ri, ret, var, args, nfix, locs, a, cl, pp, ce, sp, vw, va, vi, vf, cj, ej, fj, adis, dis, fdis, last>>
  /\ IF Emit
     THEN CSVWrite("%1$s", <<ToJson([ret |-> ret, var |-> FALSE, nfix |-> 0, args |-> <<>>, locs |-> <<>>,
                                      gp |-> a.gp, sse |-> 0, stk |-> 0, al |-> 0, from |-> [gp |-> a.gp, sse |-> 0, par |-> 0],
                                      dis |-> {}, fdis |-> {}, adis |-> {}, cj |-> FALSE, ej |-> FALSE, fj |-> FALSE, probe |-> FALSE,
                                      retoff |-> TRUE, rloc |-> ri[ret].rloc, rdis |-> ri[ret].rdis, hidden |-> ri[ret].hidden])>>, IOEnv.OUT)
     ELSE TRUE
Next == (\E k \in ParamKinds : PassNamed(k) \/ PassDots(k)) \/ Call \/ RetOff
Spec == Init /\ [][Next]_vars

-----------------------------------------------------------------------------
(* Invariants *)
Agree == dis \subseteq Waived /\ fdis \subseteq Waived
RetAgree == ri[ret].rdis \subseteq Waived
(* while the deciders agree, their counters are the psABI's *)
CountersAgree == phase = "named" =>
  /\ cj => /\ Min2(cl.gp, GP_MAX) = a.gp /\ Min2(cl.fp, FP_MAX) = a.sse
            /\ pp.gp = a.gp /\ pp.fp = a.sse
  /\ ej => /\ Min2(ce.gp, GP_MAX) = a.gp /\ Min2(ce.fp, FP_MAX) = a.sse
            /\ sp.gp = a.gp /\ sp.fp = a.sse
TypeOK == a.gp \in 0..GP_MAX /\ a.sse \in 0..FP_MAX /\ pp.gp \in 0..GP_MAX /\ pp.fp \in 0..FP_MAX
(* Level A sanity: layouts and classes of the alphabet (checked once, against values measured with gcc) *)
ASSUME KInfo["Sfic"].size = 12 /\ KInfo["Sc3"].size = 3 /\ KInfo["Udl"].size = 16 /\ KInfo["Se"].size = 16
ASSUME KInfo["Sld"].cs = <<"INTEGER", "SSE">> /\ KInfo["Udl"].cs = <<"INTEGER", "SSE">>
ASSUME KInfo["Se"].cs = <<"X87", "X87UP">> /\ KInfo["Sif"].cs = <<"INTEGER">>
ASSUME KInfo["Sfff"].cs = <<"SSE", "SSE">> /\ KInfo["S24"].cs = <<"MEMORY">>
ASSUME \A z \in {"S0", "U0", "S0w", "Sz"} : KInfo[z].size = 0 /\ KInfo[z].cs = <<>> /\ KInfo[z].feat = "agg0"
ASSUME KInfo["Sz"].align = 4 /\ KInfo["S0i"].size = 4 /\ KInfo["S0i"].cs = <<"INTEGER">> /\ KInfo["Sd0"].cs = <<"SSE">>
ASSUME KInfo["Pcf"].size = 5 /\ KInfo["Pcf"].align = 1 /\ KInfo["Pcf"].cs = <<"MEMORY">> /\ KInfo["Pcd"].size = 9 /\ KInfo["Pcd"].cs = <<"MEMORY">>
ASSUME KInfo["Pic"].size = 5 /\ KInfo["Pic"].cs = <<"INTEGER">> /\ ~KInfo["Pic"].unal
ASSUME KInfo["Al"].size = 16 /\ KInfo["Al"].align = 16 /\ KInfo["Al"].cs = <<"INTEGER", "NO">> /\ KInfo["Ad"].cs = <<"SSE", "NO">> /\ KInfo["Al"].pad2
(* NO_CLASS is only ever the class of the LAST eightbyte (RegSeq relies on it) *)
ASSUME \A nm \in AllNames : LET cs == KInfo[nm].cs IN \A j \in DOMAIN cs : (cs[j] = "NO" /\ KInfo[nm].k # "void") => j = Len(cs) /\ j > 1
ASSUME KInfo["Siif"].size = 12 /\ KInfo["Siif"].cs = <<"INTEGER", "SSE">>
=============================================================================
