SPECIFICATION Spec
CONSTANTS
 InPlace = TRUE
 Emit = FALSE
INVARIANTS ValueOK
CHECK_DEADLOCK FALSE
