SPECIFICATION Spec
CONSTANTS
 CastAlways = FALSE
 Emit = FALSE
INVARIANTS ConvOK
CHECK_DEADLOCK FALSE
